#!/bin/sh
# (development helper) rebuild the correspondence driver from /repo's working tree
export GOFLAGS=-mod=mod GOPROXY=off GOSUMDB=off GOTOOLCHAIN=local
python3 /verif/harness/overlay.py /verif/build/overlay.json && cd /repo && go build -tags verif -overlay /verif/build/overlay.json -o /verif/build/bin/drv ./internal/verifdrv
