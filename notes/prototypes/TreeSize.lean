import Probe.AggP6
/-! Design-phase prototype: instantiating `agg_correct` with the concrete TreeSize algebra
    (representative fields: MaxPathDepth, MaxPathLength, ExpandedBlobCount (32-bit saturating),
    ExpandedBlobSize (64-bit saturating)) and relating it to the true values over `Nat`
    through `clamp` (C04 + the aggregation half of C05). -/
namespace TreeSize
open Agg

def c32 : Nat := 2^32 - 1
def c64 : Nat := 2^64 - 1

/-- true values -/
structure TN where
  depth : Nat
  len : Nat
  blobs : Nat
  bsize : Nat
deriving DecidableEq

/-- machine values: every field within its capacity -/
structure TB where
  depth : Nat
  len : Nat
  blobs : Nat
  bsize : Nat
  hd : depth ≤ c32
  hl : len ≤ c32
  hb : blobs ≤ c32
  hs : bsize ≤ c64

theorem TB.ext' {a b : TB} (h1 : a.depth = b.depth) (h2 : a.len = b.len) (h3 : a.blobs = b.blobs) (h4 : a.bsize = b.bsize) : a = b := by
  cases a; cases b; simp at *; exact ⟨h1, h2, h3, h4⟩

def sat (c a b : Nat) : Nat := min (a + b) c

def TN.op (a b : TN) : TN := ⟨max a.depth b.depth, max a.len b.len, a.blobs + b.blobs, a.bsize + b.bsize⟩
def TN.unit : TN := ⟨0, 0, 0, 0⟩
/-- `addDescendent`'s contribution over true values (name length `nm`) -/
def TN.desc (nm : Nat) (s : TN) : TN :=
  ⟨s.depth + 1, if s.len > 0 then nm + 1 + s.len else nm, s.blobs, s.bsize⟩

def TB.op (a b : TB) : TB :=
  ⟨max a.depth b.depth, max a.len b.len, sat c32 a.blobs b.blobs, sat c64 a.bsize b.bsize,
   by have := a.hd; have := b.hd; omega, by have := a.hl; have := b.hl; omega,
   by unfold sat; omega, by unfold sat; omega⟩
def TB.unit : TB := ⟨0, 0, 0, 0, by simp [c32], by simp [c32], by simp [c32], by simp [c64]⟩
/-- as the code computes it: `s2.MaxPathDepth.Plus(1)`, `(NewCount32(len)+1).Plus(s2.MaxPathLength)` -/
def TB.desc (nm : Nat) (s : TB) : TB :=
  ⟨sat c32 s.depth 1, if s.len > 0 then sat c32 (min nm c32 + 1) s.len else min nm c32, s.blobs, s.bsize,
   by unfold sat; omega, by unfold sat; split <;> omega, s.hb, s.hs⟩

def clamp (a : TN) : TB :=
  ⟨min a.depth c32, min a.len c32, min a.blobs c32, min a.bsize c64, by omega, by omega, by omega, by omega⟩

theorem clamp_op (a b : TN) : clamp (a.op b) = (clamp a).op (clamp b) := by
  apply TB.ext' <;> simp [clamp, TN.op, TB.op, sat] <;> omega

theorem clamp_unit : clamp TN.unit = TB.unit := by
  apply TB.ext' <;> simp [clamp, TN.unit, TB.unit]

/-- the homomorphism needs the name to be shorter than 2^32−1 bytes (the raw `+ 1` in
    addDescendent wraps otherwise — finding F12) -/
theorem clamp_desc (nm : Nat) (hnm : nm < c32) (s : TN) : clamp (TN.desc nm s) = TB.desc nm (clamp s) := by
  apply TB.ext'
  · simp [clamp, TN.desc, TB.desc, sat]; omega
  · simp only [clamp, TN.desc, TB.desc, sat]
    by_cases h : s.len > 0
    · have h' : min s.len c32 > 0 := by simp [c32] at *; omega
      simp only [h, h', if_true]; omega
    · have h' : ¬ (min s.len c32 > 0) := by omega
      simp only [h, h', if_false]
  · simp [clamp, TN.desc, TB.desc]
  · simp [clamp, TN.desc, TB.desc]

/-- two parameter sets over the same repository shape -/
structure Shape where
  kids : Oid → List (Nat × Oid)
  baseN : Oid → TN

def PN (S : Shape) : Params TN := ⟨TN.op, TN.unit, TN.desc, S.baseN, S.kids⟩
def PB (S : Shape) : Params TB := ⟨TB.op, TB.unit, TB.desc, fun t => clamp (S.baseN t), S.kids⟩

theorem lawsB (S : Shape) : Laws (PB S) := by
  refine ⟨?_, ?_, ?_⟩
  · intro a b; apply TB.ext' <;> simp [PB, TB.op, sat, Nat.max_comm, Nat.add_comm]
  · intro a b c; apply TB.ext' <;> simp [PB, TB.op, sat] <;> omega
  · intro a; apply TB.ext' <;> simp [PB, TB.op, TB.unit, sat]
    · exact Nat.min_eq_left a.hb
    · exact Nat.min_eq_left a.hs

theorem clamp_msum (S : Shape) (l : List TN) : clamp (msum (PN S) l) = msum (PB S) (l.map clamp) := by
  induction l with
  | nil => exact clamp_unit
  | cons a l ih =>
    simp only [msum_cons, List.map_cons]
    show clamp (TN.op a _) = TB.op (clamp a) _
    rw [clamp_op, ih]

/-- the machine-level expansion is the clamp of the true expansion -/
theorem expand_clamp (S : Shape) (wf : WFk (PB S)) (hnames : ∀ t e, e ∈ S.kids t → e.1 < c32) :
    ∀ t, expand (PB S) t = clamp (expand (PN S) t) := by
  have wfN : WFk (PN S) := wf
  intro t
  induction t using Nat.strongRecOn with
  | _ t ih =>
    rw [expand_eq wf t, expand_eq wfN t, clamp_msum]
    simp only [List.map_cons, List.map_map]
    congr 2
    apply List.map_congr_left
    intro e he
    simp only [Function.comp]
    show TB.desc e.1 (expand (PB S) e.2) = clamp (TN.desc e.1 (expand (PN S) e.2))
    rw [clamp_desc e.1 (hnames t e he), ih e.2 (wf t e he)]

/-- **C04/C05 core (prototype)**: whatever the delivery order, the memo of every tree is the
    clamp of its true recursive expansion. -/
theorem tree_memo_is_clamped_truth (S : Shape) (wf : WFk (PB S)) (hnames : ∀ t e, e ∈ S.kids t → e.1 < c32)
    (ds : List Oid) (hnd : ds.Nodup) (closed : ∀ t ∈ ds, ∀ e ∈ S.kids t, e.2 ∈ ds)
    (fuel : Nat) (hfuel : K (PB S) ds ≤ fuel) :
    ∀ t ∈ ds, (run (PB S) fuel ds init).sizes t = some (clamp (expand (PN S) t)) := by
  intro t ht
  have := (agg_correct (lawsB S) wf ds hnd closed fuel hfuel).1 t ht
  rw [this, expand_clamp S wf hnames t]

end TreeSize
#print axioms TreeSize.tree_memo_is_clamped_truth
