/-! Design-phase prototype for C18: meter/meter.go as an interleaving model.
    Atomic steps (delimited by p.lock and the atomics): Start, Inc, Tick g (the whole critical
    section of ticker goroutine g — any live or stale goroutine, at any time), Done.
    The worker's program order is (Start Inc* Done)*; ticks are unconstrained. -/
namespace Meter

inductive Ev where
  | start | inc | done
  | tick (g : Nat)

structure Line where
  phase : Nat
  count : Nat
  final : Bool

structure M where
  cur : Option Nat      -- p.ticker (identity of the live ticker); none = nil / not started
  next : Nat            -- fresh ticker identities
  live : List Nat       -- ticker goroutines that have not returned yet
  count : Nat
  incs : Nat            -- ghost: number of Inc() calls in the current phase
  phase : Nat
  out : List Line       -- lines written, oldest first

def init : M := ⟨none, 0, [], 0, 0, 0, []⟩

/-- one atomic step; `none` = the worker violated its own program order (never happens) -/
def step (m : M) : Ev → Option M
  | .start => if m.cur.isSome then none else
      some { m with cur := some m.next, next := m.next + 1, live := m.next :: m.live, count := 0, incs := 0, phase := m.phase + 1 }
  | .inc => if m.cur.isNone then none else some { m with count := m.count + 1, incs := m.incs + 1 }
  | .done => if m.cur.isNone then none else
      some { m with cur := none, out := m.out ++ [⟨m.phase, m.count, true⟩] }
  | .tick g =>
    if g ∈ m.live then
      if m.cur = some g then some { m with out := m.out ++ [⟨m.phase, m.count, false⟩] }
      else some { m with live := m.live.erase g }          -- "We're done."
    else some m

def run : List Ev → M → Option M
  | [], m => some m
  | e :: es, m => match step m e with | some m' => run es m' | none => none

/-- what the property says about the written lines, pairwise (earlier `a`, later `b`) -/
def R (a b : Line) : Prop :=
  a.phase ≤ b.phase ∧ (a.phase = b.phase → a.count ≤ b.count ∧ a.final = false)

structure Inv (m : M) : Prop where
  phase_le : ∀ l ∈ m.out, l.phase ≤ m.phase
  cur_phase : ∀ l ∈ m.out, l.phase = m.phase → m.cur.isSome → l.count ≤ m.count ∧ l.final = false
  final_exact : ∀ l ∈ m.out, l.final = true → l.phase = m.phase → l.count = m.incs
  count_incs : m.count = m.incs
  pw : m.out.Pairwise R

theorem inv_init : Inv init := by
  refine ⟨?_, ?_, ?_, rfl, ?_⟩ <;> simp [init]

theorem inv_step {m m' : M} {e : Ev} (h : Inv m) (hs : step m e = some m') : Inv m' := by
  cases e with
  | start =>
    simp only [step] at hs
    split at hs
    · cases hs
    · simp at hs; subst hs
      refine ⟨?_, ?_, ?_, rfl, h.pw⟩
      · intro l hl; have := h.phase_le l hl; simp; omega
      · intro l hl hp; have := h.phase_le l hl; simp at hp; omega
      · intro l hl _ hp; have := h.phase_le l hl; simp at hp; omega
  | inc =>
    simp only [step] at hs
    split at hs
    · cases hs
    · next hc =>
      simp at hs; subst hs
      refine ⟨h.phase_le, ?_, ?_, by simp [h.count_incs], h.pw⟩
      · intro l hl hp hcur
        have := h.cur_phase l hl hp hcur
        exact ⟨by simp; omega, this.2⟩
      · intro l hl hf hp
        have hcur : m.cur.isSome := by cases hm : m.cur <;> simp_all
        have := (h.cur_phase l hl hp hcur).2
        rw [this] at hf; cases hf
  | done =>
    simp only [step] at hs
    split at hs
    · cases hs
    · next hc =>
      have hcur : m.cur.isSome := by cases hm : m.cur <;> simp_all
      simp at hs; subst hs
      refine ⟨?_, ?_, ?_, h.count_incs, ?_⟩
      · intro l hl; simp at hl
        cases hl with
        | inl hl => exact h.phase_le l hl
        | inr hl => rw [hl]; exact Nat.le_refl _
      · intro l _ _ hc'; simp at hc'
      · intro l hl hf hp; simp at hl
        cases hl with
        | inl hl => have := (h.cur_phase l hl hp hcur).2; rw [this] at hf; cases hf
        | inr hl => rw [hl]; exact h.count_incs
      · show (m.out ++ [_]).Pairwise R
        rw [List.pairwise_append]
        refine ⟨h.pw, by simp, ?_⟩
        intro a ha b hb; simp at hb; subst hb
        refine ⟨h.phase_le a ha, ?_⟩
        intro hp; exact h.cur_phase a ha hp hcur
  | tick g =>
    simp only [step] at hs
    split at hs
    · split at hs
      · next hc =>
        have hcur : m.cur.isSome := by rw [hc]; rfl
        simp at hs; subst hs
        refine ⟨?_, ?_, ?_, h.count_incs, ?_⟩
        · intro l hl; simp at hl
          cases hl with
          | inl hl => exact h.phase_le l hl
          | inr hl => rw [hl]; exact Nat.le_refl _
        · intro l hl hp _; simp at hl
          cases hl with
          | inl hl => exact h.cur_phase l hl hp hcur
          | inr hl => rw [hl]; exact ⟨Nat.le_refl _, rfl⟩
        · intro l hl hf hp; simp at hl
          cases hl with
          | inl hl => have := (h.cur_phase l hl hp hcur).2; rw [this] at hf; cases hf
          | inr hl => rw [hl] at hf; cases hf
        · show (m.out ++ [_]).Pairwise R
          rw [List.pairwise_append]
          refine ⟨h.pw, by simp, ?_⟩
          intro a ha b hb; simp at hb; subst hb
          refine ⟨h.phase_le a ha, ?_⟩
          intro hp; exact h.cur_phase a ha hp hcur
      · simp at hs; subst hs
        exact ⟨h.phase_le, h.cur_phase, h.final_exact, h.count_incs, h.pw⟩
    · simp at hs; subst hs; exact h

theorem inv_run : ∀ (es : List Ev) (m m' : M), Inv m → run es m = some m' → Inv m' := by
  intro es
  induction es with
  | nil => intro m m' h hr; simp [run] at hr; subst hr; exact h
  | cons e es ih =>
    intro m m' h hr
    simp only [run] at hr
    cases hs : step m e with
    | none => rw [hs] at hr; cases hr
    | some m1 => rw [hs] at hr; exact ih m1 m' (inv_step h hs) hr

/-- **C18 (prototype)**: for EVERY interleaving of ticks (live or stale goroutines, any timing)
    with the worker's Start/Inc/Done sequence: phases appear in order; within a phase the
    counts never decrease; nothing follows a phase's final line; and the final line of the
    current phase carries exactly the number of Inc() calls of that phase. -/
theorem meter_correct (es : List Ev) (m : M) (hr : run es init = some m) :
    m.out.Pairwise R ∧ (∀ l ∈ m.out, l.final = true → l.phase = m.phase → l.count = m.incs) :=
  let h := inv_run es init m inv_init hr
  ⟨h.pw, h.final_exact⟩

end Meter
#print axioms Meter.meter_correct
