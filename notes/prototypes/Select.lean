/-! Design-phase prototype for C06: the `Combine` fold of git/ref_filter.go equals
    "polarity of the last matching option, else the opposite of the first option's polarity". -/
namespace Select

/-- filter trees exactly as built by `include.Combine` / `exclude.Combine` -/
inductive F (π : Type) where
  | atom (p : π)
  | inv (f : F π)
  | union (f g : F π)
  | inter (f g : F π)

variable {π : Type} (m : π → String → Bool)

def F.eval : F π → String → Bool
  | .atom p, r => m p r
  | .inv f, r => !(f.eval r)
  | .union f g, r => f.eval r || g.eval r
  | .inter f g, r => f.eval r && g.eval r

structure Opt (π : Type) where
  incl : Bool
  pat : π

/-- `combiner.Combine(f1, f2)` with `f1` possibly nil -/
def combine (o : Opt π) : Option (F π) → F π
  | none => if o.incl then .atom o.pat else .inv (.atom o.pat)
  | some f => if o.incl then .union f (.atom o.pat) else .inter f (.inv (.atom o.pat))

/-- the options are applied in command-line order to the top-level filter -/
def build (opts : List (Opt π)) : Option (F π) := opts.foldl (fun acc o => some (combine o acc)) none

/-- `Finish(defaultAll)` + `Filter` -/
def selected (opts : List (Opt π)) (defaultAll : Bool) (r : String) : Bool :=
  match build opts with
  | none => defaultAll
  | some f => f.eval m r

/-- spec: last matching rule; if none matches, the opposite of the first option's polarity -/
def lastMatch (opts : List (Opt π)) (r : String) : Option Bool :=
  opts.foldl (fun acc o => if m o.pat r then some o.incl else acc) none

def spec (opts : List (Opt π)) (defaultAll : Bool) (r : String) : Bool :=
  match opts with
  | [] => defaultAll
  | o :: _ => (lastMatch m opts r).getD (!o.incl)

theorem foldl_some (opts : List (Opt π)) (f : F π) :
    ∃ g, opts.foldl (fun acc o => some (combine o acc)) (some f) = some g ∧
      ∀ r, g.eval m r = (opts.foldl (fun acc o => if m o.pat r then some o.incl else acc) none).getD (f.eval m r) := by
  induction opts generalizing f with
  | nil => exact ⟨f, rfl, fun r => rfl⟩
  | cons o opts ih =>
    obtain ⟨g, hg, hev⟩ := ih (combine o (some f))
    refine ⟨g, by simpa [List.foldl_cons] using hg, ?_⟩
    intro r
    rw [hev r]
    simp only [List.foldl_cons]
    -- relate the two folds: starting from `none` after seeing `o`, vs. default value
    have key : ∀ (l : List (Opt π)) (a : Option Bool) (d : Bool),
        (l.foldl (fun acc o => if m o.pat r then some o.incl else acc) a).getD d =
        (l.foldl (fun acc o => if m o.pat r then some o.incl else acc) none).getD (a.getD d) := by
      intro l
      induction l with
      | nil => intro a d; cases a <;> rfl
      | cons x l ih2 =>
        intro a d
        simp only [List.foldl_cons]
        by_cases hx : m x.pat r
        · simp only [hx, if_true]; rw [ih2 (some x.incl) d, ih2 (some x.incl) (a.getD d)]; rfl
        · simp only [hx]; exact ih2 a d
    rw [key opts (if m o.pat r then some o.incl else none) (f.eval m r)]
    congr 1
    by_cases ho : m o.pat r <;> cases hi : o.incl <;> simp [combine, F.eval, ho, hi]

/-- **C06 (prototype)**: for every option list, every pattern semantics and every reference name -/
theorem selected_eq_spec (opts : List (Opt π)) (defaultAll : Bool) (r : String) :
    selected m opts defaultAll r = spec m opts defaultAll r := by
  cases opts with
  | nil => rfl
  | cons o opts =>
    unfold selected build spec lastMatch
    simp only [List.foldl_cons]
    obtain ⟨g, hg, hev⟩ := foldl_some m opts (combine o none)
    rw [hg]
    simp only [hev r]
    have key : ∀ (l : List (Opt π)) (a : Option Bool) (d : Bool),
        (l.foldl (fun acc o => if m o.pat r then some o.incl else acc) a).getD d =
        (l.foldl (fun acc o => if m o.pat r then some o.incl else acc) none).getD (a.getD d) := by
      intro l
      induction l with
      | nil => intro a d; cases a <;> rfl
      | cons x l ih2 =>
        intro a d
        simp only [List.foldl_cons]
        by_cases hx : m x.pat r
        · simp only [hx, if_true]; rw [ih2 (some x.incl) d, ih2 (some x.incl) (a.getD d)]; rfl
        · simp only [hx]; exact ih2 a d
    rw [key opts (if m o.pat r then some o.incl else none) (!o.incl)]
    congr 1
    by_cases ho : m o.pat r <;> cases hi : o.incl <;> simp [combine, F.eval, ho, hi]

end Select
#print axioms Select.selected_eq_spec
