import Probe.Agg
/-! Executable version of the invariant planned for T1, checked at every step of every
    cascade on all small DAGs × all delivery orders (design-phase validation of the
    invariant's inductiveness; the proof itself belongs to the build phase). -/
namespace Agg
variable (P : Params Nat)   -- α := Nat with op := (+): detects double counting / loss

def isFin (st : St Nat) (t : Oid) : Bool := (st.sizes t).isSome
def lis (st : St Nat) (c : Oid) : List (Oid × Nat) := match st.recs c with | some r => r.listeners | none => []
def waiters (c p : Oid) : List (Oid × Nat) := (P.kids p).filterMap (fun e => if e.2 = c then some (p, e.1) else none)
def msum (l : List Nat) : Nat := l.foldr P.op P.unit

/-- spec: recursive expansion with fuel (n suffices for oids < n under WF) -/
def expandF : Nat → Oid → Nat
  | 0, _ => 0
  | f+1, t => msum P (P.base t :: (P.kids t).map (fun e => P.desc e.1 (expandF f e.2)))

def Wp (W : List (Oid × Nat × Nat)) (p : Oid) := W.filter (fun w => w.1 = p)

/-- InvW st D W over the universe [0,n) -/
def invW (n : Nat) (st : St Nat) (D : List Oid) (W : List (Oid × Nat × Nat)) : Bool :=
  (List.range n).all fun t =>
    let fin := isFin st t
    let inD := D.contains t
    -- (F) finalized: right value, delivered, no record, all kids finalized
    (if fin then st.sizes t == some (expandF P n t) && inD && (st.recs t).isNone
                 && (P.kids t).all (fun e => isFin st e.2) else true) &&
    -- (U) undelivered: not finalized, record absent or uninitialised
    (if !inD then !fin && (match st.recs t with | none => true | some r => r.pending == -1) else true) &&
    -- (L) listeners of an unfinalized tree = waiting entries of delivered parents, in delivery order
    (if !fin then lis st t == D.flatMap (waiters P t) else true) &&
    -- delivered, unfinalized: record with (Pn) pending, (C) pending>0, (S) size equation
    (if inD && !fin then
       match st.recs t with
       | none => false
       | some r =>
         let nonfin := (P.kids t).filter (fun e => !isFin st e.2)
         let finK := (P.kids t).filter (fun e => isFin st e.2)
         r.pending == (nonfin.length : Int) + ((Wp W t).length : Int) && r.pending > 0 &&
         msum P (r.size :: (Wp W t).map (fun w => P.desc w.2.1 w.2.2))
           == msum P (P.base t :: finK.map (fun e => P.desc e.1 (expandF P n e.2)))
     else true) &&
    -- (Wv) in-flight notifications go to delivered, unfinalized parents
    (W.all fun w => D.contains w.1 && !isFin st w.1)

/-- potential: fuel needed -/
def phi (st : St Nat) (D : List Oid) (W : List (Oid × Nat × Nat)) : Nat :=
  W.length + (D.map fun p => ((P.kids p).filter (fun e => !isFin st e.2)).length).sum

/-- cascade with the invariant and the potential checked before every step -/
def cascadeChk (n : Nat) (D : List Oid) : Nat → St Nat → List (Oid × Nat × Nat) → Bool × St Nat
  | 0, st, W => (W.isEmpty && invW P n st D W, st)
  | _, st, [] => (invW P n st D [], st)
  | fuel+1, st, (p, nm, sz) :: rest =>
    let ok := invW P n st D ((p, nm, sz) :: rest) && phi P st D ((p,nm,sz)::rest) ≤ fuel + 1
    match st.recs p with
    | none => (false, st)
    | some r =>
      let r' : Rec Nat := { r with size := P.op r.size (P.desc nm sz), pending := r.pending - 1 }
      let (b, s) :=
        if r'.pending = 0 then
          cascadeChk n D fuel (finalize st p r'.size) (r'.listeners.map (fun l => (l.1, l.2, r'.size)) ++ rest)
        else
          cascadeChk n D fuel { st with recs := upd st.recs p (some r') } rest
      (ok && b, s)

def registerChk (n : Nat) (D : List Oid) (st : St Nat) (t : Oid) : Bool × St Nat :=
  let r0 := (st.recs t).getD (newRec P)
  let (st1, pend, sz) := initLoop P t (P.kids t) st 0 (P.base t)
  let D' := D ++ [t]
  if pend = 0 then
    let st2 := finalize st1 t sz
    let W := r0.listeners.map (fun l => (l.1, l.2, sz))
    cascadeChk P n D' (phi P st2 D' W) st2 W     -- fuel := potential: must suffice exactly
  else
    let st2 := { st1 with recs := upd st1.recs t (some ⟨pend, sz, r0.listeners⟩) }
    (invW P n st2 D' [], st2)

def runChk (n : Nat) : List Oid → List Oid → St Nat → Bool
  | _, [], _ => true
  | D, t :: ts, st =>
    let (b, st') := registerChk P n D st t
    -- also: result equals the fuel-generous model
    b && runChk n (D ++ [t]) ts st'

end Agg
