/-! Design-phase prototype: exact integer model of counts.Humaner.FormatNumber
    (float64 conversion, float64 division, fmt %.Nf), validated against the Go code. -/
namespace Human

/-- a positive finite double as an exact rational num/den (den a power of two) -/
structure Dy where
  num : Nat
  den : Nat   -- > 0
deriving Repr

def bitlen (n : Nat) : Nat := if n = 0 then 0 else Nat.log2 n + 1

/-- round-half-even of a/b (b>0) to an integer -/
def rhe (a b : Nat) : Nat :=
  let q := a / b
  let r := a % b
  if 2 * r > b then q + 1
  else if 2 * r < b then q
  else if q % 2 = 0 then q else q + 1

/-- round the positive rational a/b to 53 significant bits (round-to-nearest-even); result exact dyadic -/
def rn53 (a b : Nat) : Dy :=
  if a = 0 then ⟨0, 1⟩ else
  -- find k with 2^52 ≤ (a/b)*2^k < 2^53, k may be negative: encode as (up, down) shifts
  let la := bitlen a
  let lb := bitlen b
  -- a/b is in [2^(la-lb-1), 2^(la-lb+1)); try shift s = 53 - (la - lb) and adjust
  -- work with integers: want t = floor(a * 2^up / (b * 2^down)) in [2^52, 2^53)
  let try_ (up down : Nat) : Nat := (a <<< up) / (b <<< down)
  let diff : Int := (la : Int) - (lb : Int)
  let s0 : Int := 53 - diff   -- candidate: quotient bits = diff or diff+1
  let mk (s : Int) : Nat × Nat := if s ≥ 0 then (s.toNat, 0) else (0, (-s).toNat)
  let (u0, d0) := mk s0
  let t0 := try_ u0 d0
  -- t0 is in [2^52, 2^54): if t0 ≥ 2^53 use s0-1
  let s : Int := if t0 ≥ 2^53 then s0 - 1 else if t0 < 2^52 then s0 + 1 else s0
  let (u, d) := mk s
  let t := rhe (a <<< u) (b <<< d)
  -- value = t * 2^(-s) = t * 2^d / 2^u
  ⟨t <<< d, 1 <<< u⟩

def toF64 (n : Nat) : Dy := rn53 n 1

def fdiv (x y : Dy) : Dy := rn53 (x.num * y.den) (x.den * y.num)

def pad (d : Nat) (s : String) : String := String.mk (List.replicate (d - s.length) '0') ++ s

/-- fmt.Sprintf("%.{d}f", x) for a positive dyadic x -/
def fmtFixed (d : Nat) (x : Dy) : String :=
  let n := rhe (x.num * 10^d) x.den
  let ip := n / 10^d
  let fp := n % 10^d
  if d = 0 then toString ip else toString ip ++ "." ++ pad d (toString fp)

def metric : List (String × Nat) := [("", 1), ("k", 10^3), ("M", 10^6), ("G", 10^9), ("T", 10^12), ("P", 10^15)]
def binary : List (String × Nat) := [("", 1), ("Ki", 2^10), ("Mi", 2^20), ("Gi", 2^30), ("Ti", 2^40), ("Pi", 2^50)]

def formatNumber (prefixes : List (String × Nat)) (n : Nat) : String × String :=
  let init : Nat × (String × Nat) := (n, prefixes.headD ("", 1))
  let (whole, pfx) := prefixes.foldl (fun acc p => let w := n / p.2; if w ≥ 1 then (w, p) else acc) init
  if pfx.2 = 1 then (toString n, pfx.1)
  else
    let mant := fdiv (toF64 n) (toF64 pfx.2)
    let d := if whole ≥ 100 then 0 else if whole ≥ 10 then 1 else 2
    (fmtFixed d mant, pfx.1)

end Human

def main (args : List String) : IO UInt32 := do
  let path := args.headD "/tmp/gs/human_vec.txt"
  let lines ← IO.FS.lines path
  let mut bad := 0
  let mut total := 0
  for line in lines do
    match line.splitOn " " with
    | [ns, m, b] =>
      match ns.toNat? with
      | some n =>
        total := total + 1
        let (a, u) := Human.formatNumber Human.metric n
        let (c, v) := Human.formatNumber Human.binary n
        if s!"{a}|{u}" != m || s!"{c}|{v}" != b then
          bad := bad + 1
          if bad ≤ 10 then IO.println s!"MISMATCH n={n} go=({m},{b}) lean=({a}|{u},{c}|{v})"
      | none => pure ()
    | _ => pure ()
  IO.println s!"total={total} mismatches={bad}"
  return (if bad == 0 then 0 else 1)
