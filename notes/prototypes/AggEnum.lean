import Probe.AggInv
open Agg

def permsF : Nat → List Nat → List (List Nat)
  | 0, _ => [[]]
  | _, [] => [[]]
  | f+1, l => l.flatMap fun x => (permsF f (l.erase x)).map (x :: ·)
def perms (l : List Nat) := permsF l.length l

/-- all kid lists for node t: sequences (len ≤ 3) over children < t, names distinct ids -/
def kidChoices (t : Nat) : List (List (Nat × Oid)) :=
  let cs := List.range t
  let l1 := cs.map (fun a => [(0, a)])
  let l2 := cs.flatMap (fun a => cs.map (fun b => [(0, a), (1, b)]))
  let l3 := cs.flatMap (fun a => cs.flatMap (fun b => cs.map (fun c => [(0, a), (1, b), (2, c)])))
  [[]] ++ l1 ++ l2 ++ l3

def allDags : Nat → List (List (List (Nat × Oid)))   -- kids per node 0..n-1
  | 0 => [[]]
  | n+1 => (allDags n).flatMap fun g => (kidChoices n).map fun k => g ++ [k]

def mkP (g : List (List (Nat × Oid))) : Params Nat where
  op := (· + ·)
  unit := 0
  desc := fun nm s => s * 7 + nm + 1      -- name-dependent, child-dependent
  base := fun t => t * 1000 + 1
  kids := fun t => g.getD t []

/-- downward closed subsets D of [0,n): pick a set of roots and close -/
def closure (g : List (List (Nat × Oid))) (n : Nat) (roots : List Nat) : List Nat :=
  (List.range n).reverse.foldl (fun acc t => if acc.contains t then acc ++ ((g.getD t []).map (·.2)).filter (fun c => !acc.contains c) else acc) roots
  |>.eraseDups

def subsets : List Nat → List (List Nat)
  | [] => [[]]
  | x :: xs => let r := subsets xs; r ++ r.map (x :: ·)

def checkAll (n : Nat) : Nat × Nat × Bool := Id.run do
  let mut cases := 0
  let mut dags := 0
  let mut ok := true
  for g in allDags n do
    dags := dags + 1
    let P := mkP g
    for roots in subsets (List.range n) do
      let D := closure g n roots
      if D.length == 0 then continue
      for order in perms D do
        cases := cases + 1
        if !(runChk P n [] order init) then ok := false
        -- final values
        let st := run P 1000 order init
        if !(D.all fun t => st.sizes t == some (expandF P n t)) then ok := false
        if !((List.range n).all fun t => (st.recs t).isNone) then ok := false
  return (dags, cases, ok)

#eval checkAll 3
#eval checkAll 4
