/-! Design-phase prototype for C15: parsing of `git config --list -z`.
    `parseOld` mirrors the unchanged GetConfig loop (LF first, then NUL); `parseNew` the
    planned repair (NUL first). -/
namespace Config

abbrev Bytes := List UInt8
def LF : UInt8 := 10
def NUL : UInt8 := 0

/-- bytes.IndexByte as a split: (before, after) at the first `b` -/
def splitFirst (b : UInt8) : Bytes → Option (Bytes × Bytes)
  | [] => none
  | x :: xs => if x = b then some ([], xs) else
      match splitFirst b xs with
      | some (l, r) => some (x :: l, r)
      | none => none

theorem splitFirst_append (b : UInt8) (l r : Bytes) (h : b ∉ l) : splitFirst b (l ++ b :: r) = some (l, r) := by
  induction l with
  | nil => simp [splitFirst]
  | cons x xs ih =>
    simp only [List.mem_cons, not_or] at h
    have hx : x ≠ b := fun e => h.1 e.symm
    simp [splitFirst, hx, ih h.2]

theorem splitFirst_none (b : UInt8) (l : Bytes) (h : b ∉ l) : splitFirst b l = none := by
  induction l with
  | nil => rfl
  | cons x xs ih =>
    simp only [List.mem_cons, not_or] at h
    have hx : x ≠ b := fun e => h.1 e.symm
    simp [splitFirst, hx, ih h.2]

theorem splitFirst_length (b : UInt8) : ∀ (l : Bytes) (p q : Bytes), splitFirst b l = some (p, q) → q.length < l.length := by
  intro l
  induction l with
  | nil => intro p q h; cases h
  | cons x xs ih =>
    intro p q h
    simp only [splitFirst] at h
    split at h
    · simp at h; rw [← h.2]; simp
    · cases hs : splitFirst b xs with
      | none => simp [hs] at h
      | some pr =>
        obtain ⟨l', r'⟩ := pr
        simp [hs] at h
        have := ih l' r' hs
        rw [← h.2]; simp; omega

structure Entry where
  key : Bytes
  value : Option Bytes      -- `none`: key without a value (`[foo] bar`)

def Entry.ok (e : Entry) : Prop := NUL ∉ e.key ∧ LF ∉ e.key ∧ (∀ v, e.value = some v → NUL ∉ v)

/-- what git prints (contract `config_list_z`) -/
def ser1 (e : Entry) : Bytes :=
  e.key ++ (match e.value with | none => [] | some v => LF :: v) ++ [NUL]
def ser (es : List Entry) : Bytes := es.flatMap ser1

/-- planned repair: NUL first, then LF inside the record -/
def parseNew : (fuel : Nat) → Bytes → Option (List (Bytes × Bytes))
  | _, [] => some []
  | 0, _ => none
  | f+1, out =>
    match splitFirst NUL out with
    | none => none                                   -- "invalid output from 'git config'"
    | some (record, rest) =>
      let kv := match splitFirst LF record with
        | some (k, v) => (k, v)
        | none => (record, [])
      match parseNew f rest with
      | some l => some (kv :: l)
      | none => none

/-- unchanged code: LF first -/
def parseOld : (fuel : Nat) → Bytes → Option (List (Bytes × Bytes))
  | _, [] => some []
  | 0, _ => none
  | f+1, out =>
    match splitFirst LF out with
    | none => none
    | some (key, out1) =>
      match splitFirst NUL out1 with
      | none => none
      | some (value, rest) =>
        match parseOld f rest with
        | some l => some ((key, value) :: l)
        | none => none

def norm (e : Entry) : Bytes × Bytes := (e.key, e.value.getD [])

theorem ser1_ne_nil (e : Entry) : ser1 e ≠ [] := by
  unfold ser1; cases e.value <;> simp

/-- **C15 (prototype, repaired code)**: every listing git can print is read back exactly -/
theorem parseNew_ser (es : List Entry) (hok : ∀ e ∈ es, e.ok) :
    ∀ fuel, es.length ≤ fuel → parseNew fuel (ser es) = some (es.map norm) := by
  induction es with
  | nil => intro fuel _; cases fuel <;> rfl
  | cons e es ih =>
    intro fuel hf
    cases fuel with
    | zero => simp at hf
    | succ f =>
      have he := hok e (List.mem_cons_self ..)
      have hrest := ih (fun x hx => hok x (List.mem_cons_of_mem _ hx)) f (by simp at hf; omega)
      have hser : ser (e :: es) = (e.key ++ (match e.value with | none => [] | some v => LF :: v)) ++ NUL :: ser es := by
        simp [ser, ser1]
      have hnn : ser (e :: es) ≠ [] := by rw [hser]; simp
      have hnul : NUL ∉ e.key ++ (match e.value with | none => [] | some v => LF :: v) := by
        obtain ⟨h1, _, h3⟩ := he
        cases hv : e.value with
        | none => simpa using h1
        | some v =>
          simp only [List.mem_append, List.mem_cons, not_or]
          exact ⟨h1, by decide, h3 v hv⟩
      cases hs : ser (e :: es) with
      | nil => exact absurd hs hnn
      | cons b bs =>
        rw [← hs]
        unfold parseNew
        rw [hs]; simp only
        rw [← hs, hser, splitFirst_append NUL _ _ hnul]
        simp only [hrest]
        congr 2
        obtain ⟨_, h2, _⟩ := he
        cases hv : e.value with
        | none => simp [norm, hv, splitFirst_none LF e.key h2]
        | some v => simp [norm, hv, splitFirst_append LF e.key v h2]

/-- **negation witness for the unchanged code**: a valueless key swallows the next entry -/
def w : List Entry := [⟨[97, 46, 98], none⟩, ⟨[114, 46, 103, 46, 105], some [114, 47, 104]⟩]   -- "a.b" (no value), "r.g.i" = "r/h"

theorem parseOld_witness : parseOld 10 (ser w) ≠ some (w.map norm) := by decide

theorem parseOld_witness_value : (parseOld 10 (ser w)).map List.length = some 1 := by decide

end Config
#print axioms Config.parseNew_ser
#print axioms Config.parseOld_witness
