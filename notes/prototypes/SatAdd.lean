-- shape of generated code for counts.Count32.Plus
def Count32.Plus (n1 n2 : BitVec 32) : BitVec 32 :=
  let n := n1 + n2
  if n < n1 then BitVec.allOnes 32 else n

def Count64.Plus (n1 n2 : BitVec 64) : BitVec 64 :=
  let n := n1 + n2
  if n < n1 then BitVec.allOnes 64 else n

def NewCount32 (n : BitVec 64) : BitVec 32 :=
  if n > (BitVec.ofNat 64 4294967295) then BitVec.allOnes 32 else n.truncate 32

theorem Count32.plus_spec (a b : BitVec 32) :
    (Count32.Plus a b).toNat = min (a.toNat + b.toNat) (2^32 - 1) := by
  unfold Count32.Plus
  simp only [BitVec.lt_def, BitVec.toNat_add]
  have ha := a.isLt; have hb := b.isLt
  split
  · next h => simp only [BitVec.toNat_allOnes]; omega
  · next h => simp only [BitVec.toNat_add]; omega

theorem Count64.plus_spec (a b : BitVec 64) :
    (Count64.Plus a b).toNat = min (a.toNat + b.toNat) (2^64 - 1) := by
  unfold Count64.Plus
  simp only [BitVec.lt_def, BitVec.toNat_add]
  have ha := a.isLt; have hb := b.isLt
  split
  · next h => simp only [BitVec.toNat_allOnes]; omega
  · next h => simp only [BitVec.toNat_add]; omega

theorem NewCount32_spec (n : BitVec 64) : (NewCount32 n).toNat = min n.toNat (2^32 - 1) := by
  unfold NewCount32
  simp only [gt_iff_lt, BitVec.lt_def, BitVec.toNat_ofNat]
  have hn := n.isLt
  split
  · next h => simp only [BitVec.toNat_allOnes]; omega
  · next h => simp only [BitVec.truncate, BitVec.toNat_setWidth]; omega

#print axioms Count32.plus_spec
#print axioms Count64.plus_spec
#print axioms NewCount32_spec
