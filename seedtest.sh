#!/bin/sh
# (development) apply a seeded patch to /repo, run the given checks, undo the patch.
# usage: seedtest.sh <patch.diff> <Cxx>...
# The evidence files are saved and restored: evidence committed in /verif must come from runs on
# the unchanged tree only.
P="$1"; shift
SAVE=$(mktemp -d /tmp/evsave.XXXXXX); cp -a /verif/evidence/. "$SAVE"/
git -C /repo apply "$P" || { echo "patch does not apply"; rm -rf "$SAVE"; exit 2; }
for c in "$@"; do
  python3 /verif/check.py "$c" 2>&1 | grep -v KNOWN-FINDING | tail -2
done
git -C /repo checkout -- . 
git -C /repo status --short | head -3
cp -a "$SAVE"/. /verif/evidence/; rm -rf "$SAVE"
# leave the regenerated modules in the state of the unchanged tree
/verif/build/bin/go2lean /repo /verif/lean/GitSizer/Gen >/dev/null 2>&1; /verif/build/bin/gofacts /repo /verif/lean/GitSizer/Gen >/dev/null 2>&1; /verif/build/bin/gostr2lean /repo /verif/lean/GitSizer/Gen >/dev/null 2>&1
