"""Per-property configuration of check.py: Lean modules holding the property theorems, and the
correspondence engines with their quick/thorough case counts."""

PROPS = {
    "C05": {
        "level_text": "Kernel-checked theorems over the Lean definitions regenerated from counts/counts.go on every run: Plus/Increment/NewCount32 are min(a+b,cap) for ALL operand pairs, overflow flag iff value = cap; correspondence of the generated definitions and the Nat specification with the Go functions on boundary-structured vectors; infinity-sign rendering checked through Format.",
        "level_note": "Trusted: Lean kernel; tools/go2lean (validated by executing its output against the Go functions); Go compiler. `whole_run_saturates`: for every valid whole run all 22 numbers are clamp(cap, true Nat value) (model of graph.go, tied by the graph engine). `tree_work_linear`: over a whole run, in any delivery order, the listener cascade of the aggregator model performs at most as many iterations as the delivered trees have subtree entries (and the entry loop visits each stored entry once), independently of the expanded size — the linear-work clause at model level; wall-clock time itself is outside the model (the e2e engine checks the `Processing trees: N` count).",
        "technique": "Lean 4 proof over regenerated source + differential correspondence",
        "modules": ["GitSizer.Props.C05", "GitSizer.Props.T1"],
        "engines": [
            {"name": "counts", "quick": 24000, "thorough": 2400000, "per_shard": 20000},
            {"name": "human", "quick": 4000, "thorough": 200000, "per_shard": 20000},
            {"name": "graph", "quick": 4000, "thorough": 200000, "per_shard": 1500},
            {"name": "parsers", "quick": 8000, "thorough": 400000, "per_shard": 20000},
            {"name": "output", "quick": 1200, "thorough": 60000, "per_shard": 200},
            {"name": "paths", "quick": 2000, "thorough": 100000, "per_shard": 500},
            {"name": "e2e", "quick": 160, "thorough": 8000, "per_shard": 20},
        ],
        "rule": "counts: op x boundary-structured operand pairs (0,1,cap-1,cap,2^31,2^32±k,2^53,2^63, complements to the cap, equal operands, random); "
                "distinct = distinct (op,a,b); every case is non-trivial (each exercises one arithmetic function on a fresh pair).",
        "assumptions": ["object sizes reach the counters through NewCount32 (see DESIGN §9 F8/F7)"],
    },
    "C12": {
        "level_text": "Exact integer model of FormatNumber (float64 conversion, division, %.Nf) in Lean, with its rounding functions PROVED correct (round-half-even within 1/2 and monotone; the 53-bit quotient rounding has relative error <= 2^-53, is monotone and exact on 53-bit dyadics). Theorems for EVERY n < 2^64 and both regenerated prefix tables: prefix = largest multiplier not exceeding n; exact below the first prefix (<= 4 characters); with a prefix the numeral m/10^d has 100 <= m (three significant digits) and the rendered string has 3..5 characters; the rendered magnitude is monotonically non-decreasing across all prefix and precision changes; for every n < 2^53 the numeral is within half a unit of the last displayed digit (for n >= 2^53 it is not: recorded finding F11 with a kernel-checked witness). Every observed rendering of the real code is also judged against the same specification.",
        "level_note": "Trusted: Lean kernel; that the integer float model is Go's float64 arithmetic and fmt's %.Nf (tied string-exactly against Go on every run, 60 000 values quick; not derived from the Go runtime); prefix tables regenerated from counts/human.go and re-checked (`TableOK` by kernel evaluation). Mathlib tactics are used in the proof modules Proofs/Float*, Proofs/HumanFloat* only (axioms: propext, Classical.choice, Quot.sound).",
        "technique": "Lean 4 proof + differential correspondence",
        "modules": ["GitSizer.Props.C12"],
        "engines": [
            {"name": "human", "quick": 60000, "thorough": 6000000, "per_shard": 20000},
        ],
        "rule": "pairs (n1,n2) around every prefix boundary x {1,10,100,1000,1024,9,99,999}, around half-unit points of the display, "
                "all n < 2^20 region, stratified random, top of range; both prefix systems; non-trivial = any case (each renders two values and checks order).",
        "assumptions": ["fmt %.Nf, float64 conversion and division are modelled exactly in integer arithmetic and compared string-exactly"],
    },
}

PROPS["C16"] = {
    "level_text": "Theorems on statement-level models of the parsers (checked slices: a Go panic is a model panic): tree round-trip parse(ser es) = es for every storable entry list, commit and tag exactness (`commit_exact`, `tag_exact`: for EVERY well-formed object — any extra header lines incl. ones spelt parent/tree/object/type, continuation lines imitating headers, any message bytes — exactly the tree+parents / object+type are returned), totality (no panic) of tree/commit/tag/batch-header/reference parsers on ALL byte strings, termination by a consumed-bytes measure; ALL parsers are REGENERATED from the source by tools/gostr2lean — TreeIter.NextEntry, NewObjectHeaderIter, ObjectHeaderIter.Next, ParseCommit, ParseTag (pointer receivers as state in/out, header loops on fuel len(iter.data)+1), ParseBatchHeader, ParseReference; every slice and index a checked operation — and proved to have the models' outcome on every byte string (`object_parsers_source`, `listing_parsers_source`), so the theorems hold of the current source and the source never panics (`object_parsers_source_total`); correspondence on structured objects (gpgsig/mergetag blocks, messages imitating headers, odd modes, arbitrary name bytes) and a mutation stream (truncation at every byte, flips, splices).",
    "level_note": "Trusted: Lean kernel; tools/gostr2lean (the translation of the parsers' Go statements into the Res monad, itself exercised by the parsers engine: model = implementation on every case); Go's strconv.ParseUint, hex.DecodeString, bytes.Index, strings.IndexByte are modelled; ParseTree's string copy and the iteration protocol of the callers in sizes/graph.go are tied by differential testing.",
    "technique": "Lean 4 proof on parser models + differential correspondence",
    "modules": ["GitSizer.Props.C16"],
    "engines": [{"name": "parsers", "quick": 40000, "thorough": 4000000, "per_shard": 20000}],
    "rule": "kinds tree/commit/tag/batch/ref/oid; half structured (well-formed objects judged against the grammar), half mutated (judged for totality and model agreement); distinct = distinct (kind, bytes); non-trivial = every case (each is a fresh object or mutation).",
    "assumptions": ["well-formedness of commit/tag objects is `Spec.CommitObj.OK` / `Spec.TagObj.OK` (what git fsck enforces: tree line first, parents directly after it, object and type first in a tag, every header line contains a space, continuation lines start with one)"],
}

PROPS["C15"] = {
    "level_text": "Theorems on the model of GetConfig/configKeyMatchesPrefix: every listing git can print (valueless keys, empty/multi-line values, any non-NUL bytes) is read back exactly and in order; prefix matching is the component-boundary relation; configKeyMatchesPrefix and the record loop of GetConfig are REGENERATED from git/gitconfig.go (tools/gostr2lean: checked slices, fuelled loop) and proved to be the model on every input (never a panic, an error exactly for a listing without final NUL); correspondence on raw listings (through the real GetConfig with a fake git) and on real config files in global/local/command scopes with the real `git config --list -z` as reference. `Pins.Group.augment_keys` (REGENERATED statements of refGroup.augmentFromConfig): the five recognised keys, combined in listing order, read through GetConfig(\"refgroup.<symbol>.\").",
    "level_note": "Trusted: Lean kernel; the form of git's listing (contract config_list_z, validated against real git 2.39.5 on every generated config); the hand-written model is tied to git/gitconfig.go by differential testing.",
    "technique": "Lean 4 proof on the listing-parser model + differential correspondence",
    "modules": ["GitSizer.Props.C15", "GitSizer.Props.Pins.Group"],
    "engines": [{"name": "config", "quick": 12000, "thorough": 1200000, "per_shard": 3000},
                {"name": "confige2e", "quick": 240, "thorough": 12000, "per_shard": 30},
                {"name": "refs", "quick": 6000, "thorough": 600000, "per_shard": 3000}],
    "rule": "config: listings serialised from entry lists (sections refgroup/foreign/near-miss names, subsections with dots/capitals/spaces/quotes, valueless keys, empty/multi-line values), mutated listings, key/prefix pairs cut at every position; confige2e: generated config files (global + local + command-line scope); distinct = distinct input bytes; non-trivial = git accepted the configuration.",
    "assumptions": ["`git config --list -z` prints key [LF value] NUL per entry"],
}

PROPS["C06"] = {
    "level_text": "Theorems: the Combine fold equals last-matching-rule semantics for EVERY option list / pattern semantics / name; prefix matching is the '/'-boundary relation — proved also of prefixFilter.Filter as REGENERATED from git/ref_filter.go (checked index expression, short-circuit; never panics); @REFGROUP is group membership; the regenerated option table pairs --X/--no-X with the documented patterns. Correspondence: real RefGroupBuilder + pflag parsing + Finish + Categorize in-process vs model vs spec on generated configs x option sequences x reference sets; and the real binary end to end (e2e: selection options and ROOTs on generated repositories, the census must be the one over the specified selection). `Pins.Filter` (REGENERATED statements of git/ref_filter.go's ten combinator methods): `combine_shapes`, `evaluator_shapes`, `regexp_anchored_prefix_empty` — the filter algebra the model mirrors, and the `^(?:…)$` anchoring. `default_from_root_arguments` (regenerated statements): Finish(len(flags.Args()) == 0) turns a still-nil top-level filter into all / no references. **Regular expressions**: `Spec/Regex` DEFINES what it means for an expression to match the entire name (`FullMatch`, a denotation with context-sensitive `^`/`$`) and what `MatchString` does (`Search`); `regexp_entire_name`: the executable matcher (Brzozowski derivatives with anchors) decides `FullMatch` for every expression and name; `regexp_anchoring_selects_full_matches`: searching for `^(?:r)$` succeeds iff `r` matches the entire name; `regexp_text_anchoring`: for every pattern p the RE2 reader accepts (as r), it reads the TEXT \"^(?:\" + p + \")$\" as an expression on which a search succeeds exactly for the names r matches entirely (the reader is compositional at a closing parenthesis: Proofs/RegexReader.ext_all); `naive_anchoring_differs` (the F1 witness). The `regex` engine judges the real git.RegexpFilter by that matcher (Go's regexp is the implementation there, not the oracle) and checks Go's oracle bits used by `refs` against it.",
    "level_note": "Trusted: Lean kernel; Go's regexp (full-match oracle computed independently of git-sizer); pflag's in-order Set calls (exercised, not modelled); model tied to internal/refopts and git/ref_filter.go by differential testing.",
    "technique": "Lean 4 proof (fold induction; regular-expression full match: derivative matcher proved correct, RE2 reader proved compositional) + regenerated option table and prefix filter + differential correspondence",
    "modules": ["GitSizer.Props.C06", "GitSizer.Props.Pins.Filter"],
    "engines": [{"name": "refs", "quick": 12000, "thorough": 1200000, "per_shard": 3000},
                {"name": "e2e", "quick": 160, "thorough": 8000, "per_shard": 20},
                {"name": "regex", "quick": 8000, "thorough": 800000, "per_shard": 2000}],
    "rule": "regex: patterns from the pools, a pool of syntax edge cases and a grammar over real reference names (components replaced by classes, alternations, optional parts, counted repetitions, anchors in odd places, (?i)) x 4-12 names (real names cut, extended, upper-cased, with newline / non-ASCII bytes; short strings over the patterns' own alphabet); non-trivial = the pattern is inside the fragment the Lean reader accepts; e2e: the real binary with generated selection options and ROOTs on generated repositories, census judged over the set the specification selects; refs: refgroup configs (nesting, implicit parents, augmented built-ins, odd symbols) x option sequences of length 0-4 (prefixes cut anywhere, regexps with alternation/anchors/classes, @groups, boolean forms, deprecated spellings) x 3-10 reference names x with/without ROOT; one case in six exercises error branches; non-trivial = the configuration and options were accepted.",
    "assumptions": ["regular-expression semantics = Go regexp on ^(?:p)$; for the fragment read by Model/Regex.parse (no named groups, inline flags other than a leading (?i), \\b \\A \\z \\p, POSIX classes, non-ASCII) that assumption is itself checked against the Lean matcher on every regex case"],
}
PROPS["C07"] = {
    "level_text": "Theorems: collectSymbols returns exactly the declared membership (own rules and all ancestors' rules; rule-less group = union of subgroups; Other bucket iff no subgroup matched) for EVERY forest (mutual induction over the rose tree); untraversed references get only 'ignored'; Categorize = specification. Correspondence as for C06 plus Groups() order and names; rendering of deep hierarchies is checked by the output engine (C11/C19). `Pins.Group` (REGENERATED statements of refGroup.collectSymbols): `collect_branches`, `pinned`. `symbol_hierarchy_source`: `splitKey` and `parentName` as TRANSLATED from internal/refopts/ref_group_builder.go on this run equal the model's (cut at the LAST '.') for every byte string and never panic.",
    "level_note": "Trusted: as C06. One recorded finding (F10: reserved symbol names).",
    "technique": "Lean 4 proof (mutual structural induction; splitKey / parentName translated from the source and proved equal to the model) + differential correspondence",
    "modules": ["GitSizer.Props.C07", "GitSizer.Props.Pins.Group"],
    "engines": [{"name": "refs", "quick": 12000, "thorough": 1200000, "per_shard": 3000}, {"name": "output", "quick": 1200, "thorough": 120000, "per_shard": 200}, {"name": "config", "quick": 3000, "thorough": 300000, "per_shard": 750}, {"name": "e2e", "quick": 160, "thorough": 8000, "per_shard": 20}],
    "rule": "same generator as C06; symbols compared as multisets per reference, Groups() exactly; e2e: the real binary on generated repositories whose reference sets include symbolic references, names with Unicode spaces, ~3-KiB names, tags shadowing other namespaces (reference count = number of references; no failure).",
    "assumptions": ["tallies are the per-symbol counts of the categoriser's output (recordReferenceGroup is a counter increment)"],
}

_GRAPH_RULE = "generated repositories (1-14 objects quick, up to 40 thorough: shared and repeated subtrees, empty trees, mixed entry kinds and odd modes, byte-arbitrary names incl. 250-350 byte names, git bombs whose expanded counts pass 2^32 and 2^64, blob sizes at 2^32±k / 2^63 / 2^64-1, linear/merge/octopus/multi-root histories, tag chains and tags of every kind) x delivery schedules (driver-like, children-first, referrers-first, random valid, 1 in 40 invalid) through the real sizes.Graph; non-trivial = a valid schedule (invalid ones are compared model-vs-code only)."
PROPS["C01"] = {
    "level_text": "Theorems (regenerated code): each record* adds exactly +1/+size/+entries with saturation; the aggregator records every delivered tree exactly once in any order. Correspondence+judge: every census number of the real sizes.Graph equals clamp(census) computed over Nat by the Lean spec. The aggregator core of sizes/graph.go is REGENERATED statement by statement (`Gen.Cmds.graphFlows`) and pinned to the reading the model was written against (`GraphCore.graph_core_pinned`); `every_entry_counted`, `finalize_records_once`.",
    "level_note": "Trusted: Lean kernel, go2lean; graph.go is modelled (Agg + Model/Graph) and tied by differential testing; that rev-list delivers exactly the reachable set is git's contract (validated end-to-end, not proved). Whole-run theorem `census_exact` (via `Graph.run_numbers`): for EVERY repository description and EVERY valid schedule the run completes and all census counters are the saturated true totals (non-vacuity: Props/T1 exhibits a concrete valid run). The model it is proved of is tied to graph.go by the graph engine.",
    "technique": "Lean 4 proof over regenerated source + aggregator theorem + differential correspondence with Nat-level spec judge",
    "modules": ["GitSizer.Props.C01", "GitSizer.Props.T1", "GitSizer.Props.GraphCore"], "engines": [{"name": "graph", "quick": 6000, "thorough": 400000, "per_shard": 1500}, {"name": "e2e", "quick": 320, "thorough": 16000, "per_shard": 20}, {"name": "addr", "quick": 48, "thorough": 2400, "per_shard": 3}], "rule": _GRAPH_RULE,
}
PROPS["C02"] = {
    "level_text": "Theorems (regenerated code): AdjustMaxIfNecessary/IfPossible compute max for ALL pairs, record* apply them to commit size, parent count, tree entries, blob size; witness changes iff the maximum does. Judge: the four maxima of the real Graph equal the true maxima, witnesses attain them. `GraphCore.every_entry_counted` (regenerated statements of treeRecord.initialize): each of the four cases of the mode switch increments entryCount exactly once, no `continue`.",
    "level_note": "As C01. Parent counting in ParseCommit is covered under C16 (parsers engine).",
    "technique": "Lean 4 proof over regenerated source + differential correspondence",
    "modules": ["GitSizer.Props.C02", "GitSizer.Props.T1", "GitSizer.Props.GraphCore"], "engines": [{"name": "graph", "quick": 6000, "thorough": 400000, "per_shard": 1500}] + [{"name": "counts", "quick": 12000, "thorough": 1200000, "per_shard": 20000}, {"name": "e2e", "quick": 240, "thorough": 12000, "per_shard": 20}], "rule": _GRAPH_RULE,
}
PROPS["C03"] = {
    "level_text": "Theorems: depthN is the longest parent chain (upper bound for every chain + explicit witness chain) for every DAG; every registered commit's memo = clamp32(depthN) for every schedule the code accepts (induction over the run); history/tag depth are maxima (regenerated). Judge: commit and tag memos and both maxima equal the Nat-level depth tables for every generated DAG and schedule. `GraphCore.commit_depth_over_all_parents` (regenerated statements of RegisterCommit): the depth is computed by ranging over ALL of commit.Parents.",
    "level_note": "As C01; the model has no timestamps, so independence of dates is by construction of the model and checked end-to-end with adversarial dates. Tag depth for arbitrary tag order is a theorem (`tag_memo_is_depth`, aggregator instance); `depth_maxima_exact` gives both maxima for every valid whole run.",
    "technique": "Lean 4 proof (induction over runs, longest-chain characterisation) + differential correspondence",
    "modules": ["GitSizer.Props.C03", "GitSizer.Props.T1", "GitSizer.Props.GraphCore"], "engines": [{"name": "graph", "quick": 6000, "thorough": 400000, "per_shard": 1500}, {"name": "e2e", "quick": 320, "thorough": 16000, "per_shard": 20}, {"name": "addr", "quick": 48, "thorough": 2400, "per_shard": 3}], "rule": _GRAPH_RULE,
}
PROPS["C04"] = {
    "level_text": "Theorems: the regenerated add* methods are joins in a commutative monoid; clamp is a homomorphism from the true Nat algebra; hence for ANY delivery order every finalised tree's memo = clamp(true recursive expansion); recordTree maximises the seven dimensions independently; the code's single pass over a tree's entries in source order equals the model's base fold + subtree loop (`initialize_source_order`); `checkout_maxima_exact`: after every valid whole run each of the seven figures is the saturated maximum over all delivered trees of the true expansion. Judge: all tree memos and the seven maxima of the real Graph equal the clamped Nat expansion. `GraphCore.entry_kinds_feed_their_adders` (regenerated statements of treeRecord.initialize): each entry kind feeds its own add* method.",
    "level_note": "As C01. Side conditions stated in TreesOK: entry names shorter than 2^32-1 bytes (F12), blob sizes < 2^64.",
    "technique": "Lean 4 proof (aggregator invariant, monoid homomorphism) over regenerated source + differential correspondence",
    "modules": ["GitSizer.Props.C04", "GitSizer.Props.T1", "GitSizer.Props.GraphCore"], "engines": [{"name": "graph", "quick": 6000, "thorough": 400000, "per_shard": 1500}], "rule": _GRAPH_RULE,
}
PROPS["C09"] = {
    "level_text": "Theorems: any two valid delivery orders of the same tree set give identical memos, no record remains, the finalisation log is a permutation of the delivered set; commit memos agree across schedules; saturating sums are permutation-invariant; `whole_run_order_independent`: two valid schedules of the same objects, any orders and interleavings, both complete and give the same 22 numbers. Judge: numbers of the real Graph equal the order-free Nat spec under driver-like, children-first, referrers-first and random schedules. `GraphCore.finalize_when_nothing_pending`, `finalize_records_once`, `graph_core_pinned`: the listener/pending core as regenerated from sizes/graph.go is the text the aggregator model was written against.",
    "level_note": "As C01. Storage layout (loose/packed) and root order are checked end-to-end (engine e2e), not proved.",
    "technique": "Lean 4 proof (corollaries of the aggregator theorem) + differential correspondence over schedules",
    "modules": ["GitSizer.Props.C09", "GitSizer.Props.T1", "GitSizer.Props.GraphCore"], "engines": [{"name": "graph", "quick": 6000, "thorough": 400000, "per_shard": 1500}, {"name": "e2e", "quick": 320, "thorough": 16000, "per_shard": 20}], "rule": _GRAPH_RULE,
}

PROPS["C11"] = {
    "level_text": "Theorems on the renderer model over the REGENERATED metric table: row shown iff saturated or value/reference >= threshold (NaN/±Inf thresholds included); marker = 30 '!' iff saturated or > 30 else floor(alert) '*'; raising the threshold only removes rows and never changes a marker; threshold 0 shows all; 'no problems' line iff no row qualifies; table/v1/v2 read the same struct fields. Correspondence: TableString byte-exact, JSON v1/v2 field-by-field, levelOfConcern = value/referenceValue recomputed independently.",
    "level_note": "Trusted: Lean kernel; gofacts (metric table extraction); exact integer model of float64 division (validated byte-exactly through the rendered markers and numerals); encoding/json. The model is tied to sizes/output.go by differential testing.",
    "technique": "Lean 4 proof on the renderer model over regenerated tables + byte-exact differential correspondence",
    "modules": ["GitSizer.Props.C11"],
    "engines": [{"name": "output", "quick": 2400, "thorough": 120000, "per_shard": 200}, {"name": "human", "quick": 4000, "thorough": 200000, "per_shard": 20000}, {"name": "opts", "quick": 320, "thorough": 16000, "per_shard": 20}],
    "rule": "synthetic measurements (each of 22 fields at k*reference for k=0..32 and +-1, saturated, zero, random) x two thresholds per case (0, 1, 30, fractional, 29.999, 30.0001, negative, 1e9, NaN, +Inf, -Inf, k, nextafter(k)) x name styles x witness sets (nil / null oid / shared oid / described) x refgroup lists (nested symbols to 14 dots, duplicate symbols, missing tallies); non-trivial = every case.",
    "assumptions": ["float64 division and conversion are IEEE-754 round-to-nearest-even"],
}
PROPS["C19"] = {
    "level_text": "`report_written_verbatim` (regenerated statements of git-sizer.go): the JSON document is written as an ARGUMENT of a constant format string and the table through io.WriteString, so no byte of a name is interpreted on its way out. Theorems: footnote numbering for every sequence of texts of arbitrary bytes (equal texts share a number, new text gets next number, list = distinct non-empty texts in first-citation order, no repetition); OID JSON token is quoted lowercase hex for any 20 bytes. Correspondence/judge: citations and footnote lines parsed back from the real table must be 1..k in first-citation order, all cited, distinct; JSON v1/v2 must be valid JSON with the expected key set for nasty names. `Pins.Footnote.dedup_by_text` (REGENERATED statements of Footnotes.CreateCitation): looked up and stored under the same key, new texts numbered len+1.",
    "level_note": "Trusted: encoding/json escaping (checked with json.Valid on every case, not proved). One recorded finding F13 (names unescaped in the table).",
    "technique": "Lean 4 proof (footnote numbering) + differential correspondence with table re-parsing",
    "modules": ["GitSizer.Props.C19", "GitSizer.Props.Pins.Footnote"],
    "engines": [{"name": "output", "quick": 2400, "thorough": 120000, "per_shard": 200}, {"name": "parsers", "quick": 4000, "thorough": 400000, "per_shard": 20000},
                {"name": "e2e", "quick": 160, "thorough": 8000, "per_shard": 10}],
    "rule": "as C11; one case in eight uses nasty names (newline, tab, quotes, backslash, '|', '[n]', non-UTF-8, over-long) for refgroup display names and witness descriptions; non-trivial = every case.",
    "assumptions": [],
}

PROPS["C18"] = {
    "level_text": "Theorem over EVERY interleaving of Start/Inc/Done with ticks of live or stale ticker goroutines: phases in order, counts non-decreasing within a phase, nothing after a phase's final line, final line = number of Inc() calls of that phase. Observed histories of the real progressMeter (periods 1us-3ms, random delays) are validated as histories of the model; the end-to-end engine checks stdout is unchanged by --progress and the final counts equal the census. `one_inc_per_object` over the REGENERATED statement list of sizes.ScanRepositoryUsingGraph (six Start/loop/Done brackets, one Inc() per processed object in the same straight-line block, no continue, every return in a phase an error) ties #Inc of a phase to the number of objects processed. `Pins.Meter.ticker_protocol` (REGENERATED statements of meter/meter.go): the ticker goroutine's identity test under the lock, Done's final print under the same lock. `meter_lock_discipline`: the ticker's print and Done's final print both run under p.lock (a tick line cannot follow the final line).",
    "level_note": "Partial: the real timer, scheduler and Go memory model are not modelled (the model's atomic steps are the critical sections delimited by the mutex and the atomics); trace validation is sampling.",
    "technique": "Lean 4 proof (invariant over all interleavings) + trace validation against the real meter",
    "modules": ["GitSizer.Props.C18", "GitSizer.Props.Pins.Meter"],
    "engines": [{"name": "meter", "quick": 480, "thorough": 24000, "per_shard": 30}, {"name": "rw", "quick": 96, "thorough": 4800, "per_shard": 6}],
    "rule": "scripts of 1-4 phases with 0-40 Inc() calls, ticker periods 1us/10us/100us/1ms/3ms, random spins and sleeps between calls; non-trivial = at least one tick line was observed besides the final lines.",
    "assumptions": ["each critical section of meter.go is atomic (sync.Mutex) and count is updated atomically"],
}

_E2E_RULE = "generated repositories written as REAL git repositories (3-20 objects quick, up to 60 thorough; layouts loose / repack -ad / gc / pack with a reachability bitmap below the walked roots / alternates / partial-clone (.promisor) packs; references packed or loose, symbolic references, names with Unicode spaces, ~3-KiB names and one at the path limit (~4 046 bytes), tags shadowing another namespace, repositories without references, HEAD detached at an unreferenced commit; the empty blob and tree, entry names with newline / leading dash / 8-14 KiB, commits above 1 MiB, breadth-2 bombs 35-45 levels deep, one 65 536-entry directory per 160 cases; commit dates random, all equal, or children older than parents; noise objects unreachable from the roots) x root selections (all refs, --branches/--tags/--no-tags, ROOT arguments as full and abbreviated ids, reference names, X^{tree}, X:, X:name, X~1, tag^{}, :/text; one case in forty a ROOT that must be refused: X^@ / X^!) x name styles; scanned by the real git-sizer binary; non-trivial = git-sizer produced a report (every case is a distinct repository)."
PROPS["C08"] = {
    "level_text": "Theorems: (1) over the regenerated recordBlob: for every sequence of blobs the cited blob was recorded and attains the reported maximum. (2) `descriptions_resolve`: sizes/path_resolver.go is modelled statement by statement (arena of Path objects, soughtPaths, RequestPath/ForgetPath/RecordName/RecordTreeEntry/RecordCommit, Path(), TreePrefix(), revision(), rootTreePrefix()); for EVERY repository and EVERY operation sequence consistent with it (any number and order of requests and forgets; tree entries, commit trees and root names reported in any order) every Path.String() is the object id alone or the object id followed by an expression that git's revision syntax (Spec/RevParse: top-level ':' scan, ^{type} peeling incl. git's prefix match, path walking) resolves to exactly that object; the 'parent unexpectedly filled in' panics are unreachable. Correspondence: the real InOrderPathResolver driven in-process (paths engine) vs the model, every printed description judged by the specification; the specification itself is validated against the real `git rev-parse --verify` (revspec engine). Judge (graph + e2e engines): every cited object of all 12 witness slots is reachable from the chosen roots, has the right kind and attains the reported value; every printed description resolves with the real git to exactly the cited id; --names=none cites nothing. `scan_descriptions_resolve`: the facts a scan reports to the resolver (entries of listed trees except submodule links, commit trees, walked roots' names) satisfy the consistency hypothesis for every fsck-clean repository (`RepoOK`), so the theorem applies to whole scans. `names_none_cites_nothing` (regenerated statements): for NameStyleNone the graph's resolver is NullPathResolver{false}, whose RequestPath returns nil; witness fields are assigned only by setPath from RequestPath; both renderers skip an item whose path is nil.",
    "level_note": "Trusted: Lean kernel; the model of path_resolver.go (tied by the paths engine, differential); Spec/RevParse as a description of git 2.39's rev-parse for the fragment (tied by the revspec engine, differential) with the explicit hypotheses `EnvOK` (git's basic name resolution accepts no string with a top-level ':'; object ids are hex and resolve to their objects; a commit's tree is a tree), shown satisfiable on a concrete repository (`wEnv_ok`). That graph.go reports only true tree entries / commit trees / git-resolved names is the operation precondition `OpOK` (exercised end to end by e2e, not proved of graph.go). One recorded finding (F18: JSON cannot carry non-UTF-8 descriptions).",
    "technique": "Lean 4 proof (invariant over all operation sequences of the path-resolver model; witness invariant over the regenerated record function) + differential correspondence + end-to-end exploration with git rev-parse as oracle",
    "modules": ["GitSizer.Props.C08"],
    "engines": [{"name": "e2e", "quick": 480, "thorough": 16000, "per_shard": 20}, {"name": "graph", "quick": 3000, "thorough": 200000, "per_shard": 1500},
                {"name": "paths", "quick": 8000, "thorough": 800000, "per_shard": 2000}, {"name": "revspec", "quick": 240, "thorough": 12000, "per_shard": 20}],
    "rule": _E2E_RULE + " paths: generated repositories (nasty entry names with ':', '{', '}', '^{tree}', submodule links to commits stored in the repository) x root names (reference-like atoms incl. unbalanced braces, X^{tree}, X:, X:path, X:path/, X:<submodule>, tag^{type}) x 1-6 requests, forgets, entries reported children-first / parents-first / shuffled; non-trivial = at least one description (not just an id) was printed. revspec: 8 expressions of the fragment per generated real repository.",
    "assumptions": ["git rev-parse is the reference for what a description denotes", "Spec/RevParse describes git rev-parse on the fragment (validated per run by revspec)"],
}

PROPS["C10"] = {
    "level": "proof",
    "level_text": "Theorems on the protocol model of a run: exit 0 iff no git invocation failed; a failing run writes no report and an error message; exit 0 carries the complete report; `config --get` exit 1 = absent. Regenerated Wait()/close/Next-site table checked by decide (each feeder is awaited only after its iterator was drained). REGENERATED control flow of mainImplementation: nothing is written to stdout before the scan succeeded, no error return after a report was written (kernel evaluation). Fault enumeration on the real binary: a fault-injecting git first on PATH (9 invocation kinds x truncation at any fraction of the output, with/without line alignment x exit statuses x SIGKILL x failure after full output), each object removed in turn, 20 s hang timeout; every observation is judged against the model's prediction (all-or-nothing). `scan_errors_consulted`: each of the 17 statements of the scan driver that assign err is immediately followed by `if err != nil { return <error> }` (regenerated statement list). `config_get_exit1_only` (regenerated statements of git/gitconfig.go): only exit status 1 of `git config --get` means unset. Liveness: see the note.",
    "level_note": "Termination ('never hangs') is proved of a step-level protocol model of a scanning phase (Model/Pipeline, Model/Pipeline3: feeder goroutine, pipeline stages with bounded OS pipes and unbuffered channels, git processes that may die at any moment, stages that may reject any line, the consumer's Next loop / Wait / <-errChan) for every number of roots, listed objects and pipe capacities: `scan_phase_no_deadlock`, `scan_phase_returns`, `batch_phase_never_hangs`, `reference_phase_never_hangs`; the order of seeded change C10h is shown to deadlock in the same model (`feeder_first_deadlocks`). Partial: the model's reading of Go channels, go-pipe (a stage that ends closes both of its ends) and the OS (EPIPE, EOF) is trusted and tied to the code by the pinned statement lists, the pinned stage table and the fault engine with a 20 s hang timeout; time, scheduler fairness beyond 'an enabled step is eventually taken' and signals to git-sizer itself are not modelled. A subprocess that truncates its output but exits 0 is outside the property (indistinguishable from a smaller repository) and is not judged. Invalid options / ROOTs are covered by the opts engine (C14).",
    "technique": "Lean 4 proof on a protocol model + fault enumeration against the real binary",
    "modules": ["GitSizer.Props.C10"],
    "engines": [{"name": "addr", "quick": 48, "thorough": 2400, "per_shard": 3}, {"name": "fault", "quick": 480, "thorough": 24000, "per_shard": 30}, {"name": "opts", "quick": 160, "thorough": 8000, "per_shard": 10}],
    "rule": "generated real repositories x selections x one fault per run (target invocation, delivered permille, line alignment, exit status, kill) or one removed object; non-trivial = the targeted invocation actually ran and the fault is a failure in the sense of the property (trivial: target never invoked, lying truncation, unreachable/built-in object removed).",
    "assumptions": ["a git subprocess signals failure through its exit status or a signal"],
}
PROPS["C13"] = {
    "level_text": "Theorems over the REGENERATED call-site table: every git command except the one discovery call goes through GitCommand; GitCommand puts --no-replace-objects first and sets GIT_DIR=<discovered> and GIT_GRAFT_FILE=/dev/null; the shallow marker is looked up through the pinned repository. Exploration on the real binary: identical report (byte-for-byte) from work-tree top, subdirectory, GIT_DIR from outside, `git -C dir sizer`, a bare copy and a linked worktree; with replace refs (commits/trees/blobs) and graft lines planted the numbers equal the specification on the STORED objects; shallow marker => refused with empty stdout. `Pins.Repo` (REGENERATED statements of git/git.go): `shallow_refused` (no path returns a repository whose shallow marker exists), `discovery_relative_to_start`, `commands_pinned_after_callers_environment` (GIT_DIR / GIT_GRAFT_FILE appended after os.Environ(), so they override the caller's).",
    "level_note": "Partial: git's own repository discovery is outside the model; equality across addressing modes is checked on generated repositories only.",
    "technique": "Lean 4 proof over regenerated tables (decide) + end-to-end exploration",
    "modules": ["GitSizer.Props.C13", "GitSizer.Props.Pins.Repo"],
    "engines": [{"name": "addr", "quick": 240, "thorough": 8000, "per_shard": 15}],
    "rule": "generated real repositories with work tree; half carry replace refs and graft lines (half of those are repacked with a reachability bitmap while the graft file is in effect), one in eight a shallow marker, every second one untracked HEAD / objects / refs files at the top of the work tree; 8-10 addressing modes per case (top, subdirectory, GIT_DIR absolute and relative, through a symlinked cwd, git -C, bare copy, linked worktree, GIT_GRAFT_FILE exported) plus `git-sizer HEAD` in the linked worktree against the same commit by id; non-trivial = every case.",
    "assumptions": ["git honours --no-replace-objects and GIT_GRAFT_FILE"],
}
PROPS["C14"] = {
    "level_text": "Theorems: regenerated guard table (each sizer.* key is read only if none of exactly the family's flags was given) and flag table (--verbose=0, --no-verbose=1, --critical=30); in the option model the last threshold-family option wins after any valid prefix, gitconfig is irrelevant once an option of the family is present and has exactly the effect of --threshold otherwise; deprecated spellings registered with the documented kinds. Real binary: pairs of invocations the property declares equivalent must produce byte-identical stdout (spellings, last-wins sequences, config-vs-option, option-overrides-invalid-config); an invalid setting in effect must fail with empty stdout.",
    "level_note": "Trusted: pflag's in-order Set calls (exercised through the real binary, modelled as a fold). The model covers the threshold family in full; names/json-version/progress families are covered by the guard-table theorem and the engine.",
    "technique": "Lean 4 proof (fold induction, regenerated tables) + differential equivalence testing on the real binary",
    "modules": ["GitSizer.Props.C14"],
    "engines": [{"name": "opts", "quick": 320, "thorough": 16000, "per_shard": 20}],
    "rule": "12 rule families (equivalent spellings, sequences of 2-4 threshold options vs their last, -j/--json, --include-regexp vs /R/, --refgroup vs @G, sizer.threshold/names/jsonVersion vs options, option overriding valid/invalid config, invalid settings in effect) on a repository whose metrics straddle the reference values; non-trivial = every case.",
    "assumptions": [],
}
PROPS["C17"] = {
    "level_text": "Theorems over the REGENERATED call-site table: only read-only plumbing (rev-parse, config --list/--get, for-each-ref, rev-list, cat-file) is ever run, no other process is spawned, the only file-creating call is the hidden --cpuprofile; census totals are permutation-invariant. Exploration on the real binary: three runs per repository (GOMAXPROCS 1/16/4, --progress and --no-progress; table, JSON v1, JSON v2) with byte-identical stdout; SHA-1 of the entire repository directory (objects, refs, config, work tree, modes) identical before and after; a second pass of the same engine runs a -race build of the binary (both tiers) and fails on any race report. Over the REGENERATED statement list of the scan driver: `feeders_only_feed` (the two feeder goroutines' statements verbatim: they never touch graph, resolver or meter — single consumer) and `shared_slices_frozen_after_fork`. `Pins.Meter.meter_lock_discipline` (regenerated classification of meter/meter.go's statements): every access to the meter's shared fields runs under p.lock, p.count only through sync/atomic.",
    "level_note": "Partial: data-race freedom and schedule-independence of the real goroutines cannot be expressed in the model; they are sampled (race detector on generated repositories, incl. scans that reach no tree or no commit at all).",
    "technique": "Lean 4 proof over regenerated tables (decide) + repeated-run exploration with directory hashing",
    "modules": ["GitSizer.Props.C17"],
    "engines": [{"name": "rw", "quick": 160, "thorough": 8000, "per_shard": 10},
                {"name": "rw", "quick": 96, "thorough": 4800, "per_shard": 6, "env": {"VERIF_RACE": "1"}}],
    "rule": "generated real repositories with a work tree x selections x output formats; non-trivial = every case. A second pass runs the same generator against a -race build of the binary (any race report is a violation).",
    "assumptions": ["git's read-only plumbing does not write to the repository"],
}

NOT_APPLICABLE = {p: "check under construction in this commit; see DESIGN.md §8 for the planned machinery" for p in
                  ["C%02d" % i for i in range(1, 20)]}

# Source pins: the regenerated statement lists (Gen/Flows.lean) of git-sizer's source files, per property whose
# observable behaviour the file can influence (its "cone of influence", chosen generously after seeded round 9:
# three changes had passed the check of their own property because the file they touched was not pinned for
# it). A pin (`Pins.Src.<File>.pinned`) fails as soon as the file says anything else, which re-opens the
# question for these properties: the engines search for a failing input, and if they find none the check
# still reports `no-failing-input-found`.
_CORE = ["MainFile", "GitFile", "GitBin", "ObjIter", "BatchObjIter", "RefIter", "ObjResolver", "Graph", "SizesFile",
         "CountsFile", "Tree", "Commit", "Tag", "ObjHeadIter", "BatchHeader", "Reference", "Oid", "ExplicitRoot"]
_REFS = ["RefGroupBuilder", "FilterValue", "FilterGroupValue", "Grouper", "ShowRefGrouper", "RefFilter", "RefGroup", "Gitconfig", "RefIter"]
_OUT = ["Output", "Footnotes", "Human", "PathResolver"]
_OPT = ["MainFile", "NegatedBool", "Gitconfig", "IsattyEnabled", "IsattyDisabled"]
_PARSE = ["Tree", "Commit", "Tag", "ObjHeadIter", "BatchHeader", "Reference", "Oid"]
_SRC_PINS = {
    "C01": _CORE + _REFS,
    "C02": _CORE,
    "C03": _CORE,
    "C04": _CORE,
    "C05": _CORE + _OUT,
    "C06": _REFS + ["MainFile", "GitFile"],
    "C07": _REFS + ["MainFile", "GitFile", "Output", "SizesFile", "Graph"],
    "C08": _CORE + _OUT,
    "C09": _CORE,
    "C10": _CORE + _OPT + ["RefGroupBuilder", "Output"],
    "C11": _OUT + ["MainFile", "SizesFile", "CountsFile", "Gitconfig", "GitFile"],
    "C12": ["Human", "CountsFile"],
    "C13": ["GitFile", "GitBin", "MainFile", "ObjIter", "BatchObjIter", "RefIter", "ObjResolver", "Gitconfig"],
    "C14": _OPT + ["RefGroupBuilder", "FilterValue", "FilterGroupValue", "Output", "GitFile"],
    "C15": _REFS + ["GitFile"],
    "C16": _PARSE,
    "C17": _CORE + _OUT + _REFS + _OPT + ["MeterFile", "Gitconfig"],
    "C18": ["MeterFile", "MainFile", "Graph", "ObjIter", "BatchObjIter", "RefIter", "IsattyEnabled", "IsattyDisabled"],
    "C19": _OUT + ["Oid", "MainFile", "SizesFile", "Grouper", "RefIter", "Reference", "GitFile", "Graph"],
}
for _p, _ms in _SRC_PINS.items():
    _seen = []
    for _m in _ms:
        if _m not in _seen:
            _seen.append(_m)
    PROPS[_p]["modules"] = PROPS[_p]["modules"] + ["GitSizer.Props.Pins.Src." + _m for _m in _seen]
PROPS["C17"]["modules"] = PROPS["C17"]["modules"] + ["GitSizer.Props.Pins.Meter"]
