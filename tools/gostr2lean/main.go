// gostr2lean: translates small, loop-free Go functions over strings (git/ref_filter.go
// prefixFilter.Filter, git/gitconfig.go configKeyMatchesPrefix) into Lean definitions in the `Res`
// monad of Basic/GoSem (an out-of-range index or slice is a panic), so that the theorems about
// prefix matching are re-checked against what the source says now. Anything outside the supported
// subset makes it exit non-zero.
package main

import (
	"fmt"
	"go/ast"
	"go/parser"
	"go/token"
	"os"
	"path/filepath"
	"strconv"
	"strings"
)

var fset = token.NewFileSet()

func die(pos token.Pos, format string, a ...interface{}) {
	fmt.Fprintf(os.Stderr, "gostr2lean: %s: %s\n", fset.Position(pos), fmt.Sprintf(format, a...))
	os.Exit(1)
}

type kind int

const (
	kBool kind = iota
	kInt
	kStr
	kByte
)

type val struct {
	code string
	pure bool
	k    kind
}

type env struct {
	vars map[string]kind // Go identifier (or recv.field) -> kind
	name map[string]string
}

func bytesLit(s string) string {
	var parts []string
	for i := 0; i < len(s); i++ {
		parts = append(parts, strconv.Itoa(int(s[i])))
	}
	return "([" + strings.Join(parts, ", ") + "] : Bytes)"
}

func (v val) m() string { // as a Res term
	if v.pure {
		return "(pure " + v.code + ")"
	}
	return v.code
}

var tmp int

func fresh() string { tmp++; return fmt.Sprintf("v%d", tmp) }

// bind2 builds `do let a ← A; let b ← B; pure (f a b)`
func bind2(a, b val, f func(x, y string) string, k kind) val {
	if a.pure && b.pure {
		return val{f(a.code, b.code), true, k}
	}
	x, y := fresh(), fresh()
	return val{fmt.Sprintf("(do let %s ← %s; let %s ← %s; pure %s)", x, a.m(), y, b.m(), f(x, y)), false, k}
}

func bind1(a val, f func(x string) string, k kind) val {
	if a.pure {
		return val{f(a.code), true, k}
	}
	x := fresh()
	return val{fmt.Sprintf("(do let %s ← %s; pure %s)", x, a.m(), f(x)), false, k}
}

// bindM: the continuation itself is monadic
func bindM(a val, f func(x string) string, k kind) val {
	x := fresh()
	return val{fmt.Sprintf("(do let %s ← %s; %s)", x, a.m(), f(x)), false, k}
}

func (e *env) expr(x ast.Expr) val {
	switch t := x.(type) {
	case *ast.ParenExpr:
		return e.expr(t.X)
	case *ast.BasicLit:
		switch t.Kind {
		case token.STRING:
			s, err := strconv.Unquote(t.Value)
			if err != nil {
				die(t.Pos(), "string literal")
			}
			return val{bytesLit(s), true, kStr}
		case token.CHAR:
			s, err := strconv.Unquote(t.Value)
			if err != nil || len(s) != 1 {
				die(t.Pos(), "char literal")
			}
			return val{fmt.Sprintf("(%d : UInt8)", s[0]), true, kByte}
		case token.INT:
			return val{"(" + t.Value + " : Int)", true, kInt}
		}
	case *ast.Ident:
		if t.Name == "true" || t.Name == "false" {
			return val{t.Name, true, kBool}
		}
		if k, ok := e.vars[t.Name]; ok {
			return val{e.name[t.Name], true, k}
		}
		die(t.Pos(), "unknown identifier %s", t.Name)
	case *ast.SelectorExpr:
		if id, ok := t.X.(*ast.Ident); ok {
			key := id.Name + "." + t.Sel.Name
			if k, ok := e.vars[key]; ok {
				return val{e.name[key], true, k}
			}
		}
		die(t.Pos(), "unsupported selector")
	case *ast.UnaryExpr:
		if t.Op == token.NOT {
			return bind1(e.expr(t.X), func(a string) string { return "(!" + a + ")" }, kBool)
		}
	case *ast.CallExpr:
		if id, ok := t.Fun.(*ast.Ident); ok && id.Name == "len" && len(t.Args) == 1 {
			return bind1(e.expr(t.Args[0]), func(a string) string { return "(" + a + ".length : Int)" }, kInt)
		}
		if sel, ok := t.Fun.(*ast.SelectorExpr); ok {
			if pk, ok := sel.X.(*ast.Ident); ok && pk.Name == "strings" && len(t.Args) == 2 {
				fn := map[string]string{"HasPrefix": "Bytes.hasPrefix", "HasSuffix": "Bytes.hasSuffix"}[sel.Sel.Name]
				if fn != "" {
					return bind2(e.expr(t.Args[0]), e.expr(t.Args[1]), func(a, b string) string { return "(" + fn + " " + a + " " + b + ")" }, kBool)
				}
			}
		}
		die(t.Pos(), "unsupported call")
	case *ast.IndexExpr:
		s, i := e.expr(t.X), e.expr(t.Index)
		if s.k != kStr || i.k != kInt {
			die(t.Pos(), "index of a non-string or by a non-int")
		}
		a, b := fresh(), fresh()
		return val{fmt.Sprintf("(do let %s ← %s; let %s ← %s; Go.indexI %s %s)", a, s.m(), b, i.m(), a, b), false, kByte}
	case *ast.SliceExpr:
		if t.Slice3 {
			die(t.Pos(), "3-index slice")
		}
		s := e.expr(t.X)
		lo := val{"(0 : Int)", true, kInt}
		if t.Low != nil {
			lo = e.expr(t.Low)
		}
		a, b, c := fresh(), fresh(), fresh()
		if t.High == nil {
			return val{fmt.Sprintf("(do let %s ← %s; let %s ← %s; Go.sliceI %s %s (%s.length : Int))", a, s.m(), b, lo.m(), a, b, a), false, kStr}
		}
		hi := e.expr(t.High)
		return val{fmt.Sprintf("(do let %s ← %s; let %s ← %s; let %s ← %s; Go.sliceI %s %s %s)", a, s.m(), b, lo.m(), c, hi.m(), a, b, c), false, kStr}
	case *ast.BinaryExpr:
		switch t.Op {
		case token.LAND:
			a, b := e.expr(t.X), e.expr(t.Y)
			if a.pure && b.pure {
				return val{"(" + a.code + " && " + b.code + ")", true, kBool}
			}
			return bindM(a, func(x string) string { return "if " + x + " then " + b.m() + " else pure false" }, kBool)
		case token.LOR:
			a, b := e.expr(t.X), e.expr(t.Y)
			if a.pure && b.pure {
				return val{"(" + a.code + " || " + b.code + ")", true, kBool}
			}
			return bindM(a, func(x string) string { return "if " + x + " then pure true else " + b.m() }, kBool)
		case token.EQL, token.NEQ:
			a, b := e.expr(t.X), e.expr(t.Y)
			if a.k != b.k {
				die(t.Pos(), "comparison of different kinds")
			}
			op := " == "
			if t.Op == token.NEQ {
				op = " != "
			}
			return bind2(a, b, func(x, y string) string { return "(" + x + op + y + ")" }, kBool)
		case token.ADD, token.SUB:
			a, b := e.expr(t.X), e.expr(t.Y)
			if a.k != kInt || b.k != kInt {
				die(t.Pos(), "arithmetic on non-ints")
			}
			op := " + "
			if t.Op == token.SUB {
				op = " - "
			}
			return bind2(a, b, func(x, y string) string { return "(" + x + op + y + ")" }, kInt)
		}
	}
	die(x.Pos(), "unsupported expression %T", x)
	return val{}
}

func (e *env) ret(rs []ast.Expr, want []kind) string {
	if len(rs) != len(want) {
		die(rs[0].Pos(), "number of results")
	}
	var vs []val
	for i, r := range rs {
		v := e.expr(r)
		if v.k != want[i] {
			die(r.Pos(), "result kind")
		}
		vs = append(vs, v)
	}
	// bind impure ones in order
	var binds []string
	var names []string
	for _, v := range vs {
		if v.pure {
			names = append(names, v.code)
		} else {
			n := fresh()
			binds = append(binds, fmt.Sprintf("let %s ← %s; ", n, v.m()))
			names = append(names, n)
		}
	}
	tuple := names[0]
	if len(names) > 1 {
		tuple = "(" + strings.Join(names, ", ") + ")"
	}
	if len(binds) == 0 {
		return "pure " + tuple
	}
	return "(do " + strings.Join(binds, "") + "pure " + tuple + ")"
}

func (e *env) block(stmts []ast.Stmt, want []kind, ind string) string {
	if len(stmts) == 0 {
		die(token.NoPos, "function falls off its end")
	}
	switch t := stmts[0].(type) {
	case *ast.ReturnStmt:
		return ind + e.ret(t.Results, want)
	case *ast.IfStmt:
		if t.Init != nil {
			die(t.Pos(), "if with init")
		}
		c := e.expr(t.Cond)
		thenB := e.block(t.Body.List, want, ind+"  ")
		var elseB string
		if t.Else != nil {
			eb, ok := t.Else.(*ast.BlockStmt)
			if !ok {
				die(t.Pos(), "else if")
			}
			elseB = e.block(eb.List, want, ind+"  ")
			if len(stmts) > 1 {
				die(stmts[1].Pos(), "statements after if/else")
			}
		} else {
			elseB = e.block(stmts[1:], want, ind+"  ")
		}
		if c.pure {
			return fmt.Sprintf("%sif %s then\n%s\n%selse\n%s", ind, c.code, thenB, ind, elseB)
		}
		x := fresh()
		return fmt.Sprintf("%sdo\n%s  let %s ← %s\n%s  if %s then\n  %s\n%s  else\n  %s", ind, ind, x, c.m(), ind, x, strings.ReplaceAll(thenB, "\n", "\n  "), ind, strings.ReplaceAll(elseB, "\n", "\n  "))
	}
	die(stmts[0].Pos(), "unsupported statement %T", stmts[0])
	return ""
}

func kindOfType(x ast.Expr) kind {
	if id, ok := x.(*ast.Ident); ok {
		switch id.Name {
		case "string":
			return kStr
		case "bool":
			return kBool
		case "int":
			return kInt
		}
	}
	die(x.Pos(), "unsupported type")
	return kStr
}

func leanType(k kind) string {
	return map[kind]string{kBool: "Bool", kInt: "Int", kStr: "Bytes", kByte: "UInt8"}[k]
}

func translate(repo, rel, recvType, fn, leanName string, out *strings.Builder) {
	f, err := parser.ParseFile(fset, filepath.Join(repo, rel), nil, 0)
	if err != nil {
		fmt.Fprintln(os.Stderr, err)
		os.Exit(1)
	}
	structFields := map[string]kind{}
	for _, d := range f.Decls {
		gd, ok := d.(*ast.GenDecl)
		if !ok {
			continue
		}
		for _, s := range gd.Specs {
			ts, ok := s.(*ast.TypeSpec)
			if !ok || ts.Name.Name != recvType {
				continue
			}
			st, ok := ts.Type.(*ast.StructType)
			if !ok {
				die(ts.Pos(), "receiver is not a struct")
			}
			for _, fl := range st.Fields.List {
				for _, n := range fl.Names {
					structFields[n.Name] = kindOfType(fl.Type)
				}
			}
		}
	}
	for _, d := range f.Decls {
		fd, ok := d.(*ast.FuncDecl)
		if !ok || fd.Name.Name != fn {
			continue
		}
		rt := ""
		if fd.Recv != nil && len(fd.Recv.List) == 1 {
			if id, ok := fd.Recv.List[0].Type.(*ast.Ident); ok {
				rt = id.Name
			}
		}
		if rt != recvType {
			continue
		}
		e := &env{vars: map[string]kind{}, name: map[string]string{}}
		var params []string
		if fd.Recv != nil && len(fd.Recv.List[0].Names) == 1 {
			r := fd.Recv.List[0].Names[0].Name
			for fl, k := range structFields {
				e.vars[r+"."+fl] = k
				e.name[r+"."+fl] = "g_" + r + "_" + fl
				params = append(params, fmt.Sprintf("(g_%s_%s : %s)", r, fl, leanType(k)))
			}
		}
		for _, p := range fd.Type.Params.List {
			k := kindOfType(p.Type)
			for _, n := range p.Names {
				e.vars[n.Name] = k
				e.name[n.Name] = "g_" + n.Name
				params = append(params, fmt.Sprintf("(g_%s : %s)", n.Name, leanType(k)))
			}
		}
		var want []kind
		var wantT []string
		for _, r := range fd.Type.Results.List {
			k := kindOfType(r.Type)
			n := len(r.Names)
			if n == 0 {
				n = 1
			}
			for i := 0; i < n; i++ {
				want = append(want, k)
				wantT = append(wantT, leanType(k))
			}
		}
		body := e.block(fd.Body.List, want, "  ")
		fmt.Fprintf(out, "/-- %s: %s%s -/\ndef %s %s : Res (%s) :=\n%s\n\n", rel, map[bool]string{true: "(" + recvType + ") ", false: ""}[recvType != ""], fn, leanName, strings.Join(params, " "), strings.Join(wantT, " × "), body)
		return
	}
	fmt.Fprintf(os.Stderr, "gostr2lean: %s: function %s not found\n", rel, fn)
	os.Exit(1)
}

func main() {
	if len(os.Args) != 3 {
		fmt.Fprintln(os.Stderr, "usage: gostr2lean <repo> <outdir>")
		os.Exit(2)
	}
	repo, outdir := os.Args[1], os.Args[2]
	var out strings.Builder
	out.WriteString("import GitSizer.Basic.GoSem\n-- GENERATED by tools/gostr2lean from git/ref_filter.go and git/gitconfig.go — do not edit\nnamespace Gen.Strs\nopen GitSizer\n\n")
	translate(repo, "git/ref_filter.go", "prefixFilter", "Filter", "prefixFilter_Filter", &out)
	translate(repo, "git/gitconfig.go", "", "configKeyMatchesPrefix", "configKeyMatchesPrefix", &out)
	out.WriteString("end Gen.Strs\n")
	os.MkdirAll(outdir, 0o755)
	if err := os.WriteFile(filepath.Join(outdir, "Strs.lean"), []byte(out.String()), 0o644); err != nil {
		panic(err)
	}
}
