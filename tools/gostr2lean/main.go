// gostr2lean: translates small, loop-free Go functions over strings (git/ref_filter.go
// prefixFilter.Filter, git/gitconfig.go configKeyMatchesPrefix) into Lean definitions in the `Res`
// monad of Basic/GoSem (an out-of-range index or slice is a panic), so that the theorems about
// prefix matching are re-checked against what the source says now. Anything outside the supported
// subset makes it exit non-zero.
package main

import (
	"fmt"
	"go/ast"
	"go/parser"
	"go/token"
	"os"
	"path/filepath"
	"strconv"
	"strings"
)

var fset = token.NewFileSet()

func die(pos token.Pos, format string, a ...interface{}) {
	fmt.Fprintf(os.Stderr, "gostr2lean: %s: %s\n", fset.Position(pos), fmt.Sprintf(format, a...))
	os.Exit(1)
}

type kind int

const (
	kBool kind = iota
	kInt
	kStr
	kByte
	kOID // a git.OID parameter: only its String() is used, passed in as a byte string
	kStrs   // []string
	kU64    // uint64 (as Nat, < 2^64)
	kOIDVal // a parsed object id (20 bytes)
	kErr
	kStruct
	kPair  // a struct of two strings (ConfigEntry)
	kPairs // a slice of them
	kOIDs  // []OID
)

// a struct type of the file being translated: its fields in declaration order
type field struct {
	name string
	k    kind
}

var structs = map[string][]field{}

// translated methods: "Type.Method" -> lean name, result kinds, pointer receiver?
type method struct {
	lean string
	want []kind
	ptr  bool
	recv string
	// for (struct, error) results: the struct type
	resStruct string
}

var methods = map[string]method{}
var funcs = map[string]method{}

// loopMeasure: for `for <call>() { … }` loops, the variable whose length bounds the iterations
var loopMeasure = map[string]string{}


type val struct {
	code string
	pure bool
	k    kind
}

type env struct {
	vars map[string]kind // Go identifier (or recv.field) -> kind
	name map[string]string
	// mutable locals in declaration order (loops carry them as parameters)
	locals []string
	params []string // the function's own parameters (Lean binders' names), passed on to loop functions
	fname  string
	want   []kind
	aux    *strings.Builder // auxiliary loop definitions, emitted before the function
	nloops int
	// inside a loop body: what `continue` means
	loopContinue func(ind string) string
	structVars   map[string]string // local struct variable -> its type
	recvName     string            // pointer receiver: its fields are appended to every non-error result
	recvType     string
	flat         bool              // results are one flat tuple (retFlat)
	resType      string            // flat mode: the Lean type of the result
}

func bytesLit(s string) string {
	var parts []string
	for i := 0; i < len(s); i++ {
		parts = append(parts, strconv.Itoa(int(s[i])))
	}
	return "([" + strings.Join(parts, ", ") + "] : Bytes)"
}

func (v val) m() string { // as a Res term
	if v.pure {
		return "(pure " + v.code + ")"
	}
	return v.code
}

var tmp int

func fresh() string { tmp++; return fmt.Sprintf("v%d", tmp) }

// bind2 builds `do let a ← A; let b ← B; pure (f a b)`
func bind2(a, b val, f func(x, y string) string, k kind) val {
	if a.pure && b.pure {
		return val{f(a.code, b.code), true, k}
	}
	x, y := fresh(), fresh()
	return val{fmt.Sprintf("(do let %s ← %s; let %s ← %s; pure %s)", x, a.m(), y, b.m(), f(x, y)), false, k}
}

func bind1(a val, f func(x string) string, k kind) val {
	if a.pure {
		return val{f(a.code), true, k}
	}
	x := fresh()
	return val{fmt.Sprintf("(do let %s ← %s; pure %s)", x, a.m(), f(x)), false, k}
}

// bindM: the continuation itself is monadic
func bindM(a val, f func(x string) string, k kind) val {
	x := fresh()
	return val{fmt.Sprintf("(do let %s ← %s; %s)", x, a.m(), f(x)), false, k}
}

func (e *env) expr(x ast.Expr) val {
	switch t := x.(type) {
	case *ast.ParenExpr:
		return e.expr(t.X)
	case *ast.BasicLit:
		switch t.Kind {
		case token.STRING:
			s, err := strconv.Unquote(t.Value)
			if err != nil {
				die(t.Pos(), "string literal")
			}
			return val{bytesLit(s), true, kStr}
		case token.CHAR:
			s, err := strconv.Unquote(t.Value)
			if err != nil || len(s) != 1 {
				die(t.Pos(), "char literal")
			}
			return val{fmt.Sprintf("(%d : UInt8)", s[0]), true, kByte}
		case token.INT:
			return val{"(" + t.Value + " : Int)", true, kInt}
		}
	case *ast.Ident:
		if t.Name == "true" || t.Name == "false" {
			return val{t.Name, true, kBool}
		}
		if k, ok := e.vars[t.Name]; ok {
			return val{e.name[t.Name], true, k}
		}
		die(t.Pos(), "unknown identifier %s", t.Name)
	case *ast.SelectorExpr:
		if id, ok := t.X.(*ast.Ident); ok {
			key := id.Name + "." + t.Sel.Name
			if k, ok := e.vars[key]; ok {
				return val{e.name[key], true, k}
			}
		}
		die(t.Pos(), "unsupported selector")
	case *ast.CompositeLit:
		if len(t.Elts) == 2 {
			var vs []val
			for _, el := range t.Elts {
				kv, ok := el.(*ast.KeyValueExpr)
				if !ok {
					die(el.Pos(), "positional struct literal")
				}
				vs = append(vs, e.expr(kv.Value))
			}
			if vs[0].k == kStr && vs[1].k == kStr {
				return bind2(vs[0], vs[1], func(x, y string) string { return "(" + x + ", " + y + ")" }, kPair)
			}
		}
		die(t.Pos(), "unsupported composite literal")
	case *ast.UnaryExpr:
		if t.Op == token.AND { // &config: the accumulated entries are what the caller reads
			if id, ok := t.X.(*ast.Ident); ok {
				key := id.Name + ".Entries"
				if k, ok := e.vars[key]; ok {
					return val{e.name[key], true, k}
				}
			}
		}
		if t.Op == token.SUB {
			return bind1(e.expr(t.X), func(a string) string { return "(-" + a + ")" }, kInt)
		}
		if t.Op == token.NOT {
			return bind1(e.expr(t.X), func(a string) string { return "(!" + a + ")" }, kBool)
		}
	case *ast.CallExpr:
		if id, ok := t.Fun.(*ast.Ident); ok && id.Name == "len" && len(t.Args) == 1 {
			return bind1(e.expr(t.Args[0]), func(a string) string { return "(" + a + ".length : Int)" }, kInt)
		}
		if id, ok := t.Fun.(*ast.Ident); ok && len(t.Args) == 1 && (id.Name == "ObjectType" || id.Name == "string") {
			return e.expr(t.Args[0]) // a conversion between string types
		}
		if sel, ok := t.Fun.(*ast.SelectorExpr); ok && len(t.Args) == 1 && sel.Sel.Name == "RefGroupSymbol" {
			return e.expr(t.Args[0]) // sizes.RefGroupSymbol(s): a conversion between string types
		}
		if at, ok := t.Fun.(*ast.ArrayType); ok && at.Len == nil && exprName(at.Elt) == "byte" && len(t.Args) == 1 {
			return e.expr(t.Args[0]) // []byte(s)
		}
		if id, ok := t.Fun.(*ast.Ident); ok && len(t.Args) == 1 && (id.Name == "uint" || id.Name == "uint64") {
			a := e.expr(t.Args[0])
			switch a.k {
			case kU64:
				return a // uint is 64 bits wide on the platforms git-sizer supports
			case kInt: // a length: never negative
				return bind1(a, func(x string) string { return "(Int.toNat " + x + ")" }, kU64)
			}
			die(t.Pos(), "conversion to an unsigned type")
		}
		if sel, ok := t.Fun.(*ast.SelectorExpr); ok && len(t.Args) == 2 && exprName(sel.X) == "bytes" && sel.Sel.Name == "Index" {
			a, b := e.expr(t.Args[0]), e.expr(t.Args[1])
			if a.k != kStr || b.k != kStr {
				die(t.Pos(), "bytes.Index of non-strings")
			}
			return bind2(a, b, func(x, y string) string { return "(Go.indexSubI " + x + " " + y + ")" }, kInt)
		}
		// a method of a local struct variable, value receiver, one result: iter.HasNext()
		if sel, ok := t.Fun.(*ast.SelectorExpr); ok && len(t.Args) == 0 {
			if ty, ok := e.structVars[exprName(sel.X)]; ok {
				if m, ok := methods[ty+"."+sel.Sel.Name]; ok && len(m.want) == 1 {
					var args []string
					for _, f := range structs[ty] {
						args = append(args, e.name[exprName(sel.X)+"."+f.name])
					}
					return val{"(" + m.lean + " " + strings.Join(args, " ") + ")", false, m.want[0]}
				}
			}
		}
		if sel, ok := t.Fun.(*ast.SelectorExpr); ok && len(t.Args) == 2 && (exprName(sel.X) == "bytes" || exprName(sel.X) == "strings") && sel.Sel.Name == "LastIndexByte" {
			a, b := e.expr(t.Args[0]), e.expr(t.Args[1])
			if b.k == kInt {
				b = val{"(" + strings.TrimSuffix(strings.TrimPrefix(b.code, "("), " : Int)") + " : UInt8)", true, kByte}
			}
			return bind2(a, b, func(x, y string) string { return "(Go.lastIndexByteI " + x + " " + y + ")" }, kInt)
		}
		if sel, ok := t.Fun.(*ast.SelectorExpr); ok && len(t.Args) == 2 && (exprName(sel.X) == "bytes" || exprName(sel.X) == "strings") && sel.Sel.Name == "IndexByte" {
			a, b := e.expr(t.Args[0]), e.expr(t.Args[1])
			if b.k == kInt { // an untyped constant such as 0
				b = val{"(" + strings.TrimSuffix(strings.TrimPrefix(b.code, "("), " : Int)") + " : UInt8)", true, kByte}
			}
			return bind2(a, b, func(x, y string) string { return "(Go.indexByteI " + x + " " + y + ")" }, kInt)
		}
		if id, ok := t.Fun.(*ast.Ident); ok && id.Name == "append" && len(t.Args) == 2 {
			a, b := e.expr(t.Args[0]), e.expr(t.Args[1])
			if !(a.k == kPairs && b.k == kPair) && !(a.k == kOIDs && b.k == kOIDVal) {
				die(t.Pos(), "append of unsupported kinds")
			}
			return bind2(a, b, func(x, y string) string { return "(" + x + " ++ [" + y + "])" }, a.k)
		}
		if sel, ok := t.Fun.(*ast.SelectorExpr); ok && len(t.Args) == 1 {
			if pk, ok := sel.X.(*ast.Ident); ok && pk.Name == "counts" {
				a := e.expr(t.Args[0])
				if a.k != kU64 {
					die(t.Pos(), "counts.New* of a non-uint64")
				}
				switch sel.Sel.Name {
				case "NewCount64":
					return a
				case "NewCount32":
					return bind1(a, func(x string) string { return "(min " + x + " 4294967295)" }, kU64)
				}
			}
		}
		if sel, ok := t.Fun.(*ast.SelectorExpr); ok {
			if pk, ok := sel.X.(*ast.Ident); ok && pk.Name == "strings" && len(t.Args) == 2 {
				if sel.Sel.Name == "Split" {
					sep := e.expr(t.Args[1])
					if !sep.pure || !strings.HasPrefix(sep.code, "([") || strings.Contains(sep.code, ",") {
						die(t.Pos(), "strings.Split with a separator that is not one byte")
					}
					b := strings.TrimSuffix(strings.TrimPrefix(sep.code, "(["), "] : Bytes)")
					return bind1(e.expr(t.Args[0]), func(a string) string { return "(Bytes.splitOn " + b + " " + a + ")" }, kStrs)
				}
				fn := map[string]string{"HasPrefix": "Bytes.hasPrefix", "HasSuffix": "Bytes.hasSuffix"}[sel.Sel.Name]
				if fn != "" {
					return bind2(e.expr(t.Args[0]), e.expr(t.Args[1]), func(a, b string) string { return "(" + fn + " " + a + " " + b + ")" }, kBool)
				}
			}
		}
		// a method call on a parameter of a foreign type, passed in as a value: `oid.String()`
		if sel, ok := t.Fun.(*ast.SelectorExpr); ok && len(t.Args) == 0 {
			if id, ok := sel.X.(*ast.Ident); ok {
				key := id.Name + "." + sel.Sel.Name + "()"
				if k, ok := e.vars[key]; ok {
					return val{e.name[key], true, k}
				}
			}
		}
		die(t.Pos(), "unsupported call")
	case *ast.IndexExpr:
		s, i := e.expr(t.X), e.expr(t.Index)
		if (s.k != kStr && s.k != kStrs) || i.k != kInt {
			die(t.Pos(), "index of a non-string or by a non-int")
		}
		a, b := fresh(), fresh()
		if s.k == kStrs {
			return val{fmt.Sprintf("(do let %s ← %s; let %s ← %s; Go.indexL %s %s)", a, s.m(), b, i.m(), a, b), false, kStr}
		}
		return val{fmt.Sprintf("(do let %s ← %s; let %s ← %s; Go.indexI %s %s)", a, s.m(), b, i.m(), a, b), false, kByte}
	case *ast.SliceExpr:
		if t.Slice3 {
			die(t.Pos(), "3-index slice")
		}
		s := e.expr(t.X)
		lo := val{"(0 : Int)", true, kInt}
		if t.Low != nil {
			lo = e.expr(t.Low)
		}
		a, b, c := fresh(), fresh(), fresh()
		if t.High == nil {
			return val{fmt.Sprintf("(do let %s ← %s; let %s ← %s; Go.sliceI %s %s (%s.length : Int))", a, s.m(), b, lo.m(), a, b, a), false, kStr}
		}
		hi := e.expr(t.High)
		return val{fmt.Sprintf("(do let %s ← %s; let %s ← %s; let %s ← %s; Go.sliceI %s %s %s)", a, s.m(), b, lo.m(), c, hi.m(), a, b, c), false, kStr}
	case *ast.BinaryExpr:
		switch t.Op {
		case token.LAND:
			a, b := e.expr(t.X), e.expr(t.Y)
			if a.pure && b.pure {
				return val{"(" + a.code + " && " + b.code + ")", true, kBool}
			}
			return bindM(a, func(x string) string { return "if " + x + " then " + b.m() + " else pure false" }, kBool)
		case token.LOR:
			a, b := e.expr(t.X), e.expr(t.Y)
			if a.pure && b.pure {
				return val{"(" + a.code + " || " + b.code + ")", true, kBool}
			}
			return bindM(a, func(x string) string { return "if " + x + " then pure true else " + b.m() }, kBool)
		case token.EQL, token.NEQ:
			a, b := e.expr(t.X), e.expr(t.Y)
			if a.k != b.k {
				die(t.Pos(), "comparison of different kinds")
			}
			op := " == "
			if t.Op == token.NEQ {
				op = " != "
			}
			return bind2(a, b, func(x, y string) string { return "(" + x + op + y + ")" }, kBool)
		case token.GTR, token.LSS, token.GEQ, token.LEQ:
			a, b := e.expr(t.X), e.expr(t.Y)
			if a.k != kInt || b.k != kInt {
				die(t.Pos(), "ordering of non-ints")
			}
			op := map[token.Token]string{token.GTR: " > ", token.LSS: " < ", token.GEQ: " ≥ ", token.LEQ: " ≤ "}[t.Op]
			return bind2(a, b, func(x, y string) string { return "(decide (" + x + op + y + "))" }, kBool)
		case token.ADD, token.SUB:
			a, b := e.expr(t.X), e.expr(t.Y)
			if t.Op == token.ADD && a.k == kStr && b.k == kStr {
				return bind2(a, b, func(x, y string) string { return "(" + x + " ++ " + y + ")" }, kStr)
			}
			if a.k != kInt || b.k != kInt {
				die(t.Pos(), "arithmetic on non-ints")
			}
			op := " + "
			if t.Op == token.SUB {
				op = " - "
			}
			return bind2(a, b, func(x, y string) string { return "(" + x + op + y + ")" }, kInt)
		}
	}
	die(x.Pos(), "unsupported expression %T", x)
	return val{}
}

func isNil(x ast.Expr) bool {
	id, ok := x.(*ast.Ident)
	return ok && id.Name == "nil"
}

func (e *env) ret(rs []ast.Expr, want []kind) string {
	if len(rs) != len(want) {
		die(rs[0].Pos(), "number of results")
	}
	if e.flat && want[len(want)-1] != kErr {
		return e.retFlat(rs, want)
	}
	// (value, error) functions: a non-nil error is `.err`, `S{...}, nil` is the tuple of the fields
	if want[len(want)-1] == kErr {
		if !isNil(rs[len(rs)-1]) {
			return ".err \"error\""
		}
		rs, want = rs[:len(rs)-1], want[:len(want)-1]
		if e.flat {
			return e.retFlat(rs, want)
		}
		if len(rs) == 1 && want[0] == kStruct {
			if _, isLit := rs[0].(*ast.CompositeLit); !isLit {
				return e.retVals(rs, []kind{-1})
			}
		}
		if len(rs) == 1 {
			if cl, ok := rs[0].(*ast.CompositeLit); ok {
				var fields []ast.Expr
				for _, el := range cl.Elts {
					kv, ok := el.(*ast.KeyValueExpr)
					if !ok {
						die(el.Pos(), "positional struct literal")
					}
					fields = append(fields, kv.Value)
				}
				var ks []kind
				for range fields {
					ks = append(ks, -1)
				}
				return e.retVals(fields, ks)
			}
		}
	}
	return e.retVals(rs, want)
}

// retFlat: results flattened into one tuple — struct values contribute their fields in declaration
// order, and a pointer receiver's fields (the state the method leaves behind) come last
func (e *env) retFlat(rs []ast.Expr, want []kind) string {
	var vs []val
	for i, r := range rs {
		if want[i] == kStruct {
			svs, ok := e.structVals(r)
			if !ok {
				die(r.Pos(), "unsupported struct-valued result")
			}
			vs = append(vs, svs...)
			continue
		}
		v := e.expr(r)
		if v.k != want[i] {
			die(r.Pos(), "result kind")
		}
		vs = append(vs, v)
	}
	if e.recvName != "" {
		for _, f := range structs[e.recvType] {
			vs = append(vs, val{e.name[e.recvName+"."+f.name], true, f.k})
		}
	}
	return e.tuple(vs)
}

func (e *env) tuple(vs []val) string {
	var binds []string
	var names []string
	for _, v := range vs {
		if v.pure {
			names = append(names, v.code)
		} else {
			n := fresh()
			binds = append(binds, fmt.Sprintf("let %s ← %s; ", n, v.m()))
			names = append(names, n)
		}
	}
	tuple := names[0]
	if len(names) > 1 {
		tuple = "(" + strings.Join(names, ", ") + ")"
	}
	if len(binds) == 0 {
		return "pure " + tuple
	}
	return "(do " + strings.Join(binds, "") + "pure " + tuple + ")"
}

func (e *env) retVals(rs []ast.Expr, want []kind) string {
	var vs []val
	for i, r := range rs {
		v := e.expr(r)
		if want[i] != -1 && v.k != want[i] {
			die(r.Pos(), "result kind")
		}
		vs = append(vs, v)
	}
	// bind impure ones in order
	var binds []string
	var names []string
	for _, v := range vs {
		if v.pure {
			names = append(names, v.code)
		} else {
			n := fresh()
			binds = append(binds, fmt.Sprintf("let %s ← %s; ", n, v.m()))
			names = append(names, n)
		}
	}
	tuple := names[0]
	if len(names) > 1 {
		tuple = "(" + strings.Join(names, ", ") + ")"
	}
	if len(binds) == 0 {
		return "pure " + tuple
	}
	return "(do " + strings.Join(binds, "") + "pure " + tuple + ")"
}

// known translated functions: name -> result kinds
var translated = map[string][]kind{}

func (e *env) declare(name string, k kind) {
	if _, ok := e.vars[name]; !ok {
		e.locals = append(e.locals, name)
	}
	e.vars[name] = k
	e.name[name] = "g_" + strings.ReplaceAll(name, ".", "_")
}

// declareStruct introduces a local variable of struct type `ty`: one variable per field
func (e *env) declareStruct(name, ty string) {
	if e.structVars == nil {
		e.structVars = map[string]string{}
	}
	e.structVars[name] = ty
	for _, f := range structs[ty] {
		e.declare(name+"."+f.name, f.k)
	}
}

func zeroOf(k kind) string {
	z := map[kind]string{kBool: "false", kInt: "(0 : Int)", kStr: "([] : Bytes)", kU64: "(0 : Nat)", kOIDVal: "Go.zeroOID", kOIDs: "([] : List Bytes)", kPairs: "([] : List (Bytes × Bytes))"}[k]
	if z == "" {
		panic("no zero value")
	}
	return z
}

// structVals: the components of a struct-valued expression, in field order
func (e *env) structVals(x ast.Expr) ([]val, bool) {
	if u, ok := x.(*ast.UnaryExpr); ok && u.Op == token.AND {
		x = u.X
	}
	if id, ok := x.(*ast.Ident); ok {
		if ty, ok := e.structVars[id.Name]; ok {
			var vs []val
			for _, f := range structs[ty] {
				vs = append(vs, val{e.name[id.Name+"."+f.name], true, f.k})
			}
			return vs, true
		}
	}
	if cl, ok := x.(*ast.CompositeLit); ok {
		ty := exprName(cl.Type)
		fs, known := structs[ty]
		if !known {
			return nil, false
		}
		if len(cl.Elts) == 0 {
			var vs []val
			for _, f := range fs {
				vs = append(vs, val{zeroOf(f.k), true, f.k})
			}
			return vs, true
		}
		if len(cl.Elts) != len(fs) {
			die(cl.Pos(), "struct literal that does not set every field")
		}
		vs := make([]val, len(fs))
		for i, el := range cl.Elts {
			if kv, ok := el.(*ast.KeyValueExpr); ok {
				j := -1
				for jj, f := range fs {
					if f.name == exprName(kv.Key) {
						j = jj
					}
				}
				if j < 0 {
					die(el.Pos(), "unknown field")
				}
				vs[j] = e.expr(kv.Value)
			} else {
				vs[i] = e.expr(el)
			}
		}
		for i, v := range vs {
			if v.k != fs[i].k {
				die(cl.Pos(), "field %s: kind", fs[i].name)
			}
		}
		return vs, true
	}
	return nil, false
}

func (e *env) tmpLet(name string, v val, ind string) string {
	if v.pure {
		return fmt.Sprintf("%slet %s := %s\n", ind, name, v.code)
	}
	return fmt.Sprintf("%slet %s ← %s\n", ind, name, v.m())
}

func (e *env) letStmt(name string, v val, rest string, ind string) string {
	if v.pure {
		return fmt.Sprintf("%slet %s := %s\n%s", ind, e.name[name], v.code, rest)
	}
	return fmt.Sprintf("%slet %s ← %s\n%s", ind, e.name[name], v.m(), rest)
}

// stmts translates a statement list into the lines of a `do` block of type Res T; `cont` yields
// the lines for what follows when control falls off the end of the list.
func (e *env) stmts(list []ast.Stmt, ind string, cont func(ind string) string) string {
	if len(list) == 0 {
		return cont(ind)
	}
	rest := func(i string) string { return e.stmts(list[1:], i, cont) }
	switch t := list[0].(type) {
	case *ast.ReturnStmt:
		return ind + e.ret(t.Results, e.want)
	case *ast.BranchStmt:
		if t.Tok == token.CONTINUE && e.loopContinue != nil && t.Label == nil {
			return e.loopContinue(ind)
		}
		die(t.Pos(), "unsupported branch statement")
	case *ast.AssignStmt:
		lname := func(x ast.Expr) string {
			if id, ok := x.(*ast.Ident); ok {
				return id.Name
			}
			if sel, ok := x.(*ast.SelectorExpr); ok {
				return exprName(sel.X) + "." + sel.Sel.Name
			}
			die(x.Pos(), "assignment to a non-variable")
			return ""
		}
		if len(t.Lhs) == 1 && len(t.Rhs) == 1 {
			name := lname(t.Lhs[0])
			v := e.expr(t.Rhs[0])
			if t.Tok == token.DEFINE {
				e.declare(name, v.k)
			} else if _, ok := e.vars[name]; !ok {
				die(t.Pos(), "assignment to unknown variable")
			}
			return e.letStmt(name, v, rest(ind), ind)
		}
		// a, b := x, y  /  a, b = x, y : all right-hand sides are evaluated first
		if len(t.Lhs) == len(t.Rhs) && len(t.Lhs) == 2 {
			v0, v1 := e.expr(t.Rhs[0]), e.expr(t.Rhs[1])
			t0, t1 := fresh(), fresh()
			lines := e.tmpLet(t0, v0, ind) + e.tmpLet(t1, v1, ind)
			for i, l := range t.Lhs {
				name := lname(l)
				k := []kind{v0.k, v1.k}[i]
				if t.Tok == token.DEFINE {
					e.declare(name, k)
				} else if _, ok := e.vars[name]; !ok {
					die(t.Pos(), "assignment to unknown variable")
				}
				lines += fmt.Sprintf("%slet %s := %s\n", ind, e.name[name], []string{t0, t1}[i])
			}
			return lines + rest(ind)
		}
		// x, err := NewOID(w) / strconv.ParseUint(w, 10, bits): the error is the monad's
		if len(t.Lhs) == 2 && len(t.Rhs) == 1 && exprName(t.Lhs[1]) == "err" {
			if c, ok := t.Rhs[0].(*ast.CallExpr); ok {
				lean, k := "", kStr
				switch fn := c.Fun.(type) {
				case *ast.Ident:
					if fn.Name == "NewOID" && len(c.Args) == 1 {
						a := e.expr(c.Args[0])
						lean, k = "(do let w ← "+a.m()+"; Go.newOIDR w)", kOIDVal
					}
				case *ast.SelectorExpr:
					if exprName(fn.X) == "strconv" && fn.Sel.Name == "ParseUint" && len(c.Args) == 3 {
						a := e.expr(c.Args[0])
						base, bits := srcLit(c.Args[1]), srcLit(c.Args[2])
						if bits == "0" {
							bits = "64" // strconv: bitSize 0 = uint = 64 bits on the platforms git-sizer supports
						}
						lean, k = "(do let w ← "+a.m()+"; Go.parseUintR w "+base+" "+bits+")", kU64
					}
				}
				if lean != "" {
					id := t.Lhs[0].(*ast.Ident)
					e.declare(id.Name, k)
					// the `if err != nil { return …, err }` that follows is the bind itself
					tail := e.skipErrCheck(t, list[1:])
					return fmt.Sprintf("%slet %s ← %s\n%s", ind, e.name[id.Name], lean, e.stmts(tail, ind, cont))
				}
			}
		}
		// results of a translated function or method with an error: x…, err := f(args) / v.m(args),
		// followed by `if err != nil { return …, <error> }` (which is the monad's bind)
		if len(t.Rhs) == 1 && len(t.Lhs) >= 2 && exprName(t.Lhs[len(t.Lhs)-1]) == "err" {
			if c, ok := t.Rhs[0].(*ast.CallExpr); ok {
				var m method
				var args []string
				found := false
				recvVar := ""
				if fid, ok := c.Fun.(*ast.Ident); ok {
					m, found = funcs[fid.Name]
				} else if sel, ok := c.Fun.(*ast.SelectorExpr); ok {
					if ty, ok := e.structVars[exprName(sel.X)]; ok {
						m, found = methods[ty+"."+sel.Sel.Name]
						recvVar = exprName(sel.X)
						for _, f := range structs[ty] {
							args = append(args, e.name[recvVar+"."+f.name])
						}
					}
				}
				if found && m.want[len(m.want)-1] == kErr {
					for _, a := range c.Args {
						v := e.expr(a)
						if !v.pure {
							die(a.Pos(), "impure argument")
						}
						args = append(args, v.code)
					}
					if len(m.want) != len(t.Lhs) {
						die(t.Pos(), "number of results")
					}
					var names []string
					for i, l := range t.Lhs[:len(t.Lhs)-1] {
						id := l.(*ast.Ident)
						if m.want[i] == kStruct {
							e.declareStruct(id.Name, m.resStruct)
							for _, f := range structs[m.resStruct] {
								names = append(names, e.name[id.Name+"."+f.name])
							}
							continue
						}
						e.declare(id.Name, m.want[i])
						names = append(names, e.name[id.Name])
					}
					if m.ptr { // the receiver as the method leaves it
						for _, f := range structs[m.recv] {
							names = append(names, e.name[recvVar+"."+f.name])
						}
					}
					tail := e.skipErrCheck(t, list[1:])
					pat := names[0]
					if len(names) > 1 {
						pat = "(" + strings.Join(names, ", ") + ")"
					}
					return fmt.Sprintf("%slet %s ← %s %s\n%s", ind, pat, m.lean, strings.Join(args, " "), e.stmts(tail, ind, cont))
				}
			}
		}
		// x, y := f(args) for a translated function
		if len(t.Rhs) == 1 && t.Tok == token.DEFINE {
			if c, ok := t.Rhs[0].(*ast.CallExpr); ok {
				if fid, ok := c.Fun.(*ast.Ident); ok {
					if ks, ok := translated[fid.Name]; ok && len(ks) == len(t.Lhs) {
						var args []string
						for _, a := range c.Args {
							v := e.expr(a)
							if !v.pure {
								die(a.Pos(), "impure argument")
							}
							args = append(args, v.code)
						}
						var names []string
						for i, l := range t.Lhs {
							id := l.(*ast.Ident)
							e.declare(id.Name, ks[i])
							names = append(names, e.name[id.Name])
						}
						return fmt.Sprintf("%slet (%s) ← %s %s\n%s", ind, strings.Join(names, ", "), fid.Name, strings.Join(args, " "), rest(ind))
					}
				}
			}
		}
		die(t.Pos(), "unsupported assignment")
	case *ast.DeclStmt:
		gd, ok := t.Decl.(*ast.GenDecl)
		if !ok || gd.Tok != token.VAR || len(gd.Specs) != 1 {
			die(t.Pos(), "unsupported declaration")
		}
		vs := gd.Specs[0].(*ast.ValueSpec)
		if len(vs.Names) != 1 || len(vs.Values) != 0 || vs.Type == nil {
			die(t.Pos(), "unsupported declaration")
		}
		name := vs.Names[0].Name
		if ty := exprName(vs.Type); structs[ty] != nil {
			e.declareStruct(name, ty)
			lines := ""
			for _, f := range structs[ty] {
				lines += fmt.Sprintf("%slet %s := %s\n", ind, e.name[name+"."+f.name], zeroOf(f.k))
			}
			return lines + rest(ind)
		}
		k := varKind(vs.Type)
		e.declare(name, k)
		return fmt.Sprintf("%slet %s := %s\n%s", ind, e.name[name], zeroOf(k), rest(ind))
	case *ast.ExprStmt:
		// copy(x.OID.v[0:20], s[0:20]): the 20 bytes of an object id
		if c, ok := t.X.(*ast.CallExpr); ok && exprName(c.Fun) == "copy" && len(c.Args) == 2 {
			dst, ok1 := c.Args[0].(*ast.SliceExpr)
			src, ok2 := c.Args[1].(*ast.SliceExpr)
			if ok1 && ok2 && dst.Low != nil && dst.High != nil && srcLit(dst.Low) == "0" && srcLit(dst.High) == "20" &&
				src.Low != nil && src.High != nil && srcLit(src.Low) == "0" && srcLit(src.High) == "20" {
				if v, ok := dst.X.(*ast.SelectorExpr); ok && v.Sel.Name == "v" {
					if fsel, ok := v.X.(*ast.SelectorExpr); ok {
						key := exprName(fsel.X) + "." + fsel.Sel.Name
						if e.vars[key] == kOIDVal {
							return e.letStmt(key, e.expr(src), rest(ind), ind)
						}
					}
				}
			}
		}
		die(t.Pos(), "unsupported expression statement")
	case *ast.IncDecStmt:
		id, ok := t.X.(*ast.Ident)
		if !ok || e.vars[id.Name] != kInt {
			die(t.Pos(), "++/-- on a non-int variable")
		}
		op := " + 1"
		if t.Tok == token.DEC {
			op = " - 1"
		}
		return fmt.Sprintf("%slet %s := %s%s\n%s", ind, e.name[id.Name], e.name[id.Name], op, rest(ind))
	case *ast.IfStmt:
		if t.Init != nil {
			// `if x := e; cond { … }`: the init statement first (its variable stays visible afterwards
			// in the translation, which is harmless: Go would reject a later use)
			noInit := *t
			noInit.Init = nil
			return e.stmts(append([]ast.Stmt{t.Init, &noInit}, list[1:]...), ind, cont)
		}
		c := e.expr(t.Cond)
		thenB := e.stmts(t.Body.List, ind+"  ", rest)
		var elseB string
		if t.Else != nil {
			eb, ok := t.Else.(*ast.BlockStmt)
			if !ok {
				die(t.Pos(), "else if")
			}
			elseB = e.stmts(eb.List, ind+"  ", rest)
		} else {
			elseB = rest(ind + "  ")
		}
		return e.cond(c, thenB, elseB, ind)
	case *ast.SwitchStmt:
		if t.Tag != nil || t.Init != nil {
			die(t.Pos(), "switch with a tag")
		}
		var build func(cs []ast.Stmt, ind string) string
		build = func(cs []ast.Stmt, ind string) string {
			if len(cs) == 0 {
				return rest(ind)
			}
			cc := cs[0].(*ast.CaseClause)
			if len(cc.List) == 0 { // default
				if len(cs) != 1 {
					die(cc.Pos(), "default is not the last case")
				}
				return e.stmts(cc.Body, ind, rest)
			}
			if len(cc.List) != 1 {
				die(cc.Pos(), "case with several expressions")
			}
			// the variables visible after the switch must not depend on which case ran:
			// every case body is translated with its own continuation, so this holds
			saveV, saveN, saveL := copyMap(e.vars), copyMapS(e.name), append([]string{}, e.locals...)
			c := e.expr(cc.List[0])
			thenB := e.stmts(cc.Body, ind+"  ", rest)
			e.vars, e.name, e.locals = saveV, saveN, saveL
			elseB := build(cs[1:], ind+"  ")
			return e.cond(c, thenB, elseB, ind)
		}
		return build(t.Body.List, ind)
	case *ast.ForStmt:
		return e.forLoop(t, ind, rest)
	}
	die(list[0].Pos(), "unsupported statement %T", list[0])
	return ""
}

// skipErrCheck: the statement after a call with an error result must be
// `if err != nil { return …, <non-nil error> }`; it is consumed (the bind of the Res monad does it)
func (e *env) skipErrCheck(at ast.Node, tail []ast.Stmt) []ast.Stmt {
	if len(tail) > 0 {
		if ifs, ok := tail[0].(*ast.IfStmt); ok && ifs.Init == nil && srcCond(ifs.Cond) == "err != nil" && ifs.Else == nil && len(ifs.Body.List) == 1 {
			if r, ok := ifs.Body.List[0].(*ast.ReturnStmt); ok && len(r.Results) > 0 && !isNil(r.Results[len(r.Results)-1]) && e.want[len(e.want)-1] == kErr {
				return tail[1:]
			}
		}
	}
	die(at.Pos(), "error of a call is not checked at once")
	return nil
}

// varKind: the kind of a local variable's declared type
func varKind(x ast.Expr) kind {
	switch exprName(x) {
	case "OID":
		return kOIDVal
	case "bool":
		return kBool
	case "ObjectType", "string":
		return kStr
	case "int":
		return kInt
	}
	if at, ok := x.(*ast.ArrayType); ok && at.Len == nil && exprName(at.Elt) == "OID" {
		return kOIDs
	}
	die(x.Pos(), "unsupported variable type")
	return kStr
}

func (e *env) child() *env {
	return &env{vars: copyMap(e.vars), name: copyMapS(e.name), locals: append([]string{}, e.locals...), params: e.params, fname: e.fname,
		want: e.want, aux: e.aux, nloops: e.nloops, structVars: copyMapS(e.structVars), recvName: e.recvName, recvType: e.recvType, flat: e.flat,
		resType: e.resType}
}

func copyMap(m map[string]kind) map[string]kind {
	r := map[string]kind{}
	for k, v := range m {
		r[k] = v
	}
	return r
}
func copyMapS(m map[string]string) map[string]string {
	r := map[string]string{}
	for k, v := range m {
		r[k] = v
	}
	return r
}

func (e *env) cond(c val, thenB, elseB, ind string) string {
	if c.pure {
		return fmt.Sprintf("%sif %s then do\n%s\n%selse do\n%s", ind, c.code, thenB, ind, elseB)
	}
	x := fresh()
	return fmt.Sprintf("%slet %s ← %s\n%sif %s then do\n%s\n%selse do\n%s", ind, x, c.m(), ind, x, thenB, ind, elseB)
}

// forLoop handles `for i := 0; i < len(s); i++ { body }`: an auxiliary function by recursion on
// fuel (len(s)+1 suffices) that carries i and every mutable local; the statements after the loop
// are its exit branch.
func (e *env) forLoop(t *ast.ForStmt, ind string, rest func(string) string) string {
	if t.Init == nil && t.Post == nil {
		return e.whileLoop(t, ind, rest)
	}
	init, ok := t.Init.(*ast.AssignStmt)
	if !ok || init.Tok != token.DEFINE || len(init.Lhs) != 1 {
		die(t.Pos(), "for: init")
	}
	iv := init.Lhs[0].(*ast.Ident).Name
	if lit, ok := init.Rhs[0].(*ast.BasicLit); !ok || lit.Value != "0" {
		die(t.Pos(), "for: init is not 0")
	}
	cond, ok := t.Cond.(*ast.BinaryExpr)
	if !ok || cond.Op != token.LSS || exprName(cond.X) != iv {
		die(t.Pos(), "for: condition is not i < len(s)")
	}
	lc, ok := cond.Y.(*ast.CallExpr)
	if !ok || exprName(lc.Fun) != "len" || len(lc.Args) != 1 {
		die(t.Pos(), "for: condition is not i < len(s)")
	}
	post, ok := t.Post.(*ast.IncDecStmt)
	if !ok || post.Tok != token.INC || exprName(post.X) != iv {
		die(t.Pos(), "for: post is not i++")
	}
	bound := e.expr(lc.Args[0])
	if !bound.pure || bound.k != kStr {
		die(t.Pos(), "for: bound")
	}
	e.nloops++
	lname := fmt.Sprintf("%s_loop%d", e.fname, e.nloops)
	e.declare(iv, kInt)
	carried := append([]string{}, e.locals...)
	var binders, args, pats []string
	for _, v := range carried {
		binders = append(binders, leanType(e.vars[v]))
		args = append(args, e.name[v])
		pats = append(pats, e.name[v])
	}
	// the auxiliary definition
	sub := e.child()
	recur := func(i string) string {
		var as []string
		for _, v := range carried {
			if v == iv {
				as = append(as, "("+sub.name[v]+" + 1)")
			} else {
				as = append(as, sub.name[v])
			}
		}
		return fmt.Sprintf("%s%s %s fuel %s", i, lname, strings.Join(paramNames(e.params), " "), strings.Join(as, " "))
	}
	body := sub.stmts(t.Body.List, "      ", recur)
	exit := sub.stmts(nil, "      ", rest)
	var wantT []string
	for _, k := range e.want {
		wantT = append(wantT, leanType(k))
	}
	fmt.Fprintf(e.aux, "def %s %s : Nat → %s → Res (%s)\n  | 0, %s => .panic \"loop-fuel\"\n  | fuel + 1, %s =>\n    if %s < (%s.length : Int) then do\n%s\n    else do\n%s\n\n",
		lname, strings.Join(e.params, " "), strings.Join(binders, " → "), strings.Join(wantT, " × "),
		strings.Join(underscores(len(pats)), ", "), strings.Join(pats, ", "), sub.name[iv], bound.code, body, exit)
	e.nloops = sub.nloops
	var callArgs []string
	for _, v := range carried {
		if v == iv {
			callArgs = append(callArgs, "0")
		} else {
			callArgs = append(callArgs, e.name[v])
		}
	}
	return fmt.Sprintf("%s%s %s (%s.length + 1) %s", ind, lname, strings.Join(paramNames(e.params), " "), bound.code, strings.Join(callArgs, " "))
}

func srcLit(x ast.Expr) string {
	if b, ok := x.(*ast.BasicLit); ok {
		return b.Value
	}
	die(x.Pos(), "literal expected")
	return ""
}

func srcCond(x ast.Expr) string {
	if b, ok := x.(*ast.BinaryExpr); ok {
		return exprName(b.X) + " " + b.Op.String() + " " + exprName(b.Y)
	}
	return ""
}

// whileLoop handles `for len(x) > 0 { body }` where the body shortens x: recursion on fuel
// (len(x)+1 at entry; that it suffices is part of the equality theorem with the model).
func (e *env) whileLoop(t *ast.ForStmt, ind string, rest func(string) string) string {
	if _, isCall := t.Cond.(*ast.CallExpr); isCall {
		return e.callLoop(t, ind, rest)
	}
	cond, ok := t.Cond.(*ast.BinaryExpr)
	if !ok || cond.Op != token.GTR {
		die(t.Pos(), "for: condition is not len(x) > 0")
	}
	lc, ok := cond.X.(*ast.CallExpr)
	if !ok || exprName(lc.Fun) != "len" || len(lc.Args) != 1 || srcLit(cond.Y) != "0" {
		die(t.Pos(), "for: condition is not len(x) > 0")
	}
	mv := exprName(lc.Args[0])
	if e.vars[mv] != kStr {
		die(t.Pos(), "for: measure is not a byte string variable")
	}
	e.nloops++
	lname := fmt.Sprintf("%s_loop%d", e.fname, e.nloops)
	carried := append([]string{}, e.locals...)
	var binders, pats []string
	for _, v := range carried {
		binders = append(binders, leanType(e.vars[v]))
		pats = append(pats, e.name[v])
	}
	sub := e.child()
	recur := func(i string) string {
		var as []string
		for _, v := range carried {
			as = append(as, sub.name[v])
		}
		return fmt.Sprintf("%s%s %s fuel %s", i, lname, strings.Join(paramNames(e.params), " "), strings.Join(as, " "))
	}
	sub.loopContinue = recur
	body := sub.stmts(t.Body.List, "      ", recur)
	sub2 := e.child()
	sub2.nloops = sub.nloops
	exit := sub2.stmts(nil, "      ", rest)
	var wantT []string
	for _, k := range e.want {
		if k == kErr {
			continue
		}
		if k == kStruct {
			wantT = append(wantT, resultOverride[e.fname])
			continue
		}
		wantT = append(wantT, leanType(k))
	}
	fmt.Fprintf(e.aux, "def %s %s : Nat → %s → Res (%s)\n  | 0, %s => .panic \"loop-fuel\"\n  | fuel + 1, %s =>\n    if (%s.length : Int) > 0 then do\n%s\n    else do\n%s\n\n",
		lname, strings.Join(e.params, " "), strings.Join(binders, " → "), strings.Join(wantT, " × "),
		strings.Join(underscores(len(pats)), ", "), strings.Join(pats, ", "), e.name[mv], body, exit)
	e.nloops = sub2.nloops
	var callArgs []string
	for _, v := range carried {
		callArgs = append(callArgs, e.name[v])
	}
	return fmt.Sprintf("%s%s %s (%s.length + 1) %s", ind, lname, strings.Join(paramNames(e.params), " "), e.name[mv], strings.Join(callArgs, " "))
}

// callLoop handles `for v.m() { body }` (a translated method as the condition): recursion on fuel,
// len(<loopMeasure variable>)+1 at entry; that it suffices is part of the equality theorem with the
// model (running out of fuel is the panic "loop-fuel", which the model never returns).
func (e *env) callLoop(t *ast.ForStmt, ind string, rest func(string) string) string {
	mv := loopMeasure[e.fname]
	if e.vars[mv] != kStr {
		die(t.Pos(), "for: no measure known for this loop")
	}
	e.nloops++
	lname := fmt.Sprintf("%s_loop%d", e.fname, e.nloops)
	carried := append([]string{}, e.locals...)
	var binders, pats []string
	for _, v := range carried {
		binders = append(binders, leanType(e.vars[v]))
		pats = append(pats, e.name[v])
	}
	sub := e.child()
	recur := func(i string) string {
		var as []string
		for _, v := range carried {
			as = append(as, sub.name[v])
		}
		return fmt.Sprintf("%s%s %s fuel %s", i, lname, strings.Join(paramNames(e.params), " "), strings.Join(as, " "))
	}
	sub.loopContinue = recur
	c := sub.expr(t.Cond)
	if c.k != kBool {
		die(t.Pos(), "for: condition is not a bool")
	}
	body := sub.stmts(t.Body.List, "      ", recur)
	sub2 := e.child()
	sub2.nloops = sub.nloops
	exit := sub2.stmts(nil, "      ", rest)
	fmt.Fprintf(e.aux, "def %s %s : Nat → %s → Res (%s)\n  | 0, %s => .panic \"loop-fuel\"\n  | fuel + 1, %s => do\n%s\n\n",
		lname, strings.Join(e.params, " "), strings.Join(binders, " → "), e.resType,
		strings.Join(underscores(len(pats)), ", "), strings.Join(pats, ", "), e.cond(c, body, exit, "    "))
	e.nloops = sub2.nloops
	var callArgs []string
	for _, v := range carried {
		callArgs = append(callArgs, e.name[v])
	}
	return fmt.Sprintf("%s%s %s (%s.length + 1) %s", ind, lname, strings.Join(paramNames(e.params), " "), e.name[mv], strings.Join(callArgs, " "))
}

func underscores(n int) []string {
	var r []string
	for i := 0; i < n; i++ {
		r = append(r, "_")
	}
	return r
}

func paramNames(binders []string) []string {
	var r []string
	for _, b := range binders {
		r = append(r, strings.TrimPrefix(strings.SplitN(b, " ", 2)[0], "("))
	}
	return r
}

func exprName(x ast.Expr) string {
	if id, ok := x.(*ast.Ident); ok {
		return id.Name
	}
	return ""
}

func kindOfType(x ast.Expr) kind {
	if id, ok := x.(*ast.Ident); ok {
		switch id.Name {
		case "string":
			return kStr
		case "bool":
			return kBool
		case "int":
			return kInt
		}
	}
	if sel, ok := x.(*ast.SelectorExpr); ok && sel.Sel.Name == "OID" {
		return kOID
	}
	if sel, ok := x.(*ast.SelectorExpr); ok && sel.Sel.Name == "RefGroupSymbol" { // a named string type
		return kStr
	}
	if id, ok := x.(*ast.Ident); ok {
		switch id.Name {
		case "error":
			return kErr
		case "BatchHeader", "Reference":
			return kStruct
		}
	}
	die(x.Pos(), "unsupported type")
	return kStr
}

func leanType(k kind) string {
	return map[kind]string{kBool: "Bool", kInt: "Int", kStr: "Bytes", kByte: "UInt8", kStrs: "List Bytes", kU64: "Nat", kOIDVal: "Bytes", kPair: "(Bytes × Bytes)", kPairs: "List (Bytes × Bytes)", kOIDs: "List Bytes"}[k]
}

// resultOverride: the Lean type of the value part of a (struct, error) result
var resultOverride = map[string]string{}

func translate(repo, rel, recvType, fn, leanName string, out *strings.Builder) {
	f, err := parser.ParseFile(fset, filepath.Join(repo, rel), nil, 0)
	if err != nil {
		fmt.Fprintln(os.Stderr, err)
		os.Exit(1)
	}
	structFields := map[string]kind{}
	for _, d := range f.Decls {
		gd, ok := d.(*ast.GenDecl)
		if !ok {
			continue
		}
		for _, s := range gd.Specs {
			ts, ok := s.(*ast.TypeSpec)
			if !ok || ts.Name.Name != recvType {
				continue
			}
			st, ok := ts.Type.(*ast.StructType)
			if !ok {
				die(ts.Pos(), "receiver is not a struct")
			}
			for _, fl := range st.Fields.List {
				for _, n := range fl.Names {
					structFields[n.Name] = kindOfType(fl.Type)
				}
			}
		}
	}
	for _, d := range f.Decls {
		fd, ok := d.(*ast.FuncDecl)
		if !ok || fd.Name.Name != fn {
			continue
		}
		rt := ""
		if fd.Recv != nil && len(fd.Recv.List) == 1 {
			if id, ok := fd.Recv.List[0].Type.(*ast.Ident); ok {
				rt = id.Name
			}
		}
		if rt != recvType {
			continue
		}
		e := &env{vars: map[string]kind{}, name: map[string]string{}}
		var params []string
		if fd.Recv != nil && len(fd.Recv.List[0].Names) == 1 {
			r := fd.Recv.List[0].Names[0].Name
			for fl, k := range structFields {
				e.vars[r+"."+fl] = k
				e.name[r+"."+fl] = "g_" + r + "_" + fl
				params = append(params, fmt.Sprintf("(g_%s_%s : %s)", r, fl, leanType(k)))
			}
		}
		for _, p := range fd.Type.Params.List {
			k := kindOfType(p.Type)
			for _, n := range p.Names {
				if k == kOID {
					key := n.Name + ".String()"
					e.vars[key] = kStr
					e.name[key] = "g_" + n.Name + "_String"
					params = append(params, fmt.Sprintf("(g_%s_String : Bytes)", n.Name))
					continue
				}
				e.vars[n.Name] = k
				e.name[n.Name] = "g_" + n.Name
				params = append(params, fmt.Sprintf("(g_%s : %s)", n.Name, leanType(k)))
			}
		}
		var want []kind
		var wantT []string
		var namedInit []string
		for _, r := range fd.Type.Results.List {
			k := kindOfType(r.Type)
			n := len(r.Names)
			if n == 0 {
				n = 1
			}
			for i := 0; i < n; i++ {
				want = append(want, k)
				if k == kErr {
					continue
				}
				if k == kStruct {
					wantT = append(wantT, resultOverride[fn])
					continue
				}
				wantT = append(wantT, leanType(k))
			}
			for _, nm := range r.Names { // named results start at their zero values
				e.declare(nm.Name, k)
				zero := map[kind]string{kBool: "false", kInt: "(0 : Int)", kStr: "([] : Bytes)"}[k]
				namedInit = append(namedInit, fmt.Sprintf("  let %s := %s", e.name[nm.Name], zero))
			}
		}
		var aux strings.Builder
		e.params, e.fname, e.want, e.aux = params, leanName, want, &aux
		body := e.stmts(fd.Body.List, "  ", func(ind string) string {
			die(fd.End(), "function falls off its end")
			return ""
		})
		if len(namedInit) > 0 {
			body = strings.Join(namedInit, "\n") + "\n" + body
		}
		out.WriteString(aux.String())
		fmt.Fprintf(out, "/-- %s: %s%s -/\ndef %s %s : Res (%s) := do\n%s\n\n", rel, map[bool]string{true: "(" + recvType + ") ", false: ""}[recvType != ""], fn, leanName, strings.Join(params, " "), strings.Join(wantT, " × "), body)
		translated[fn] = want
		return
	}
	fmt.Fprintf(os.Stderr, "gostr2lean: %s: function %s not found\n", rel, fn)
	os.Exit(1)
}

// loadStructs records the struct types of a file (fields in declaration order)
func loadStructs(repo, rel string) *ast.File {
	f, err := parser.ParseFile(fset, filepath.Join(repo, rel), nil, 0)
	if err != nil {
		fmt.Fprintln(os.Stderr, err)
		os.Exit(1)
	}
	for _, d := range f.Decls {
		gd, ok := d.(*ast.GenDecl)
		if !ok {
			continue
		}
		for _, sp := range gd.Specs {
			ts, ok := sp.(*ast.TypeSpec)
			if !ok {
				continue
			}
			st, ok := ts.Type.(*ast.StructType)
			if !ok {
				continue
			}
			var fs []field
			okAll := true
			for _, fl := range st.Fields.List {
				k, ok := fieldKind(fl.Type)
				if !ok {
					okAll = false
					break
				}
				for _, n := range fl.Names {
					fs = append(fs, field{n.Name, k})
				}
			}
			if okAll {
				structs[ts.Name.Name] = fs
			}
		}
	}
	return f
}

func fieldKind(x ast.Expr) (kind, bool) {
	switch exprName(x) {
	case "string", "ObjectType":
		return kStr, true
	case "OID":
		return kOIDVal, true
	case "uint", "uint64":
		return kU64, true
	case "bool":
		return kBool, true
	}
	if sel, ok := x.(*ast.SelectorExpr); ok && exprName(sel.X) == "counts" && (sel.Sel.Name == "Count32" || sel.Sel.Name == "Count64") {
		return kU64, true
	}
	if at, ok := x.(*ast.ArrayType); ok && at.Len == nil && exprName(at.Elt) == "OID" {
		return kOIDs, true
	}
	return 0, false
}

// translateFlat translates a function or method of package git whose results may be structs and
// whose receiver may be a pointer: the Lean result is ONE flat tuple — the results in order (a
// struct contributes its fields in declaration order, the error is the monad's), followed by the
// fields of a pointer receiver as the method leaves them.
func translateFlat(repo, rel, recvType, fn, leanName string, out *strings.Builder) {
	f := loadStructs(repo, rel)
	for _, d := range f.Decls {
		fd, ok := d.(*ast.FuncDecl)
		if !ok || fd.Name.Name != fn {
			continue
		}
		rt, ptr := "", false
		if fd.Recv != nil && len(fd.Recv.List) == 1 {
			x := fd.Recv.List[0].Type
			if st, ok := x.(*ast.StarExpr); ok {
				x, ptr = st.X, true
			}
			rt = exprName(x)
		}
		if rt != recvType {
			continue
		}
		e := &env{vars: map[string]kind{}, name: map[string]string{}, structVars: map[string]string{}, flat: true}
		var params []string
		if rt != "" {
			r := fd.Recv.List[0].Names[0].Name
			if structs[rt] == nil {
				die(fd.Pos(), "receiver type with unsupported fields")
			}
			e.structVars[r] = rt
			for _, fl := range structs[rt] {
				key := r + "." + fl.name
				e.vars[key], e.name[key] = fl.k, "g_"+r+"_"+fl.name
				params = append(params, fmt.Sprintf("(g_%s_%s : %s)", r, fl.name, leanType(fl.k)))
			}
			if ptr { // a pointer receiver that the body never assigns to is as good as a value receiver
				mutates := false
				ast.Inspect(fd.Body, func(n ast.Node) bool {
					if as, ok := n.(*ast.AssignStmt); ok {
						for _, l := range as.Lhs {
							if sel, ok := l.(*ast.SelectorExpr); ok && exprName(sel.X) == r {
								mutates = true
							}
						}
					}
					if u, ok := n.(*ast.UnaryExpr); ok && u.Op == token.AND && exprName(u.X) == r {
						mutates = true
					}
					if id, ok := n.(*ast.Ident); ok && id.Name == r {
						// any use of the receiver other than r.field is not understood
						_ = id
					}
					return true
				})
				ptr = mutates
			}
			if ptr {
				e.recvName, e.recvType = r, rt
			}
		}
		for _, p := range fd.Type.Params.List {
			for _, n := range p.Names {
				if exprName(p.Type) == "OID" { // used for error messages only: its String()
					key := n.Name + ".String()"
					e.vars[key], e.name[key] = kStr, "g_"+n.Name+"_String"
					params = append(params, fmt.Sprintf("(g_%s_String : Bytes)", n.Name))
					continue
				}
				k := kStr
				if at, ok := p.Type.(*ast.ArrayType); ok && at.Len == nil && exprName(at.Elt) == "byte" {
					k = kStr
				} else {
					k = kindOfType(p.Type)
				}
				e.vars[n.Name], e.name[n.Name] = k, "g_"+n.Name
				params = append(params, fmt.Sprintf("(g_%s : %s)", n.Name, leanType(k)))
			}
		}
		var want []kind
		var wantT []string
		resStruct := ""
		if fd.Type.Results != nil {
			for _, r := range fd.Type.Results.List {
				x := r.Type
				if st, ok := x.(*ast.StarExpr); ok {
					x = st.X
				}
				if fs, ok := structs[exprName(x)]; ok {
					want = append(want, kStruct)
					resStruct = exprName(x)
					for _, fl := range fs {
						wantT = append(wantT, leanType(fl.k))
					}
					continue
				}
				k := kindOfType(x)
				want = append(want, k)
				if k != kErr {
					wantT = append(wantT, leanType(k))
				}
			}
		}
		if ptr {
			for _, fl := range structs[rt] {
				wantT = append(wantT, leanType(fl.k))
			}
		}
		var aux strings.Builder
		e.params, e.fname, e.want, e.aux, e.resType = params, leanName, want, &aux, strings.Join(wantT, " × ")
		body := e.stmts(fd.Body.List, "  ", func(ind string) string {
			die(fd.End(), "function falls off its end")
			return ""
		})
		out.WriteString(aux.String())
		fmt.Fprintf(out, "/-- %s: %s%s -/\ndef %s %s : Res (%s) := do\n%s\n\n", rel, map[bool]string{true: "(" + recvType + ") ", false: ""}[recvType != ""], fn, leanName, strings.Join(params, " "), e.resType, body)
		m := method{lean: leanName, want: want, ptr: ptr, recv: rt, resStruct: resStruct}
		if rt != "" {
			methods[rt+"."+fn] = m
		} else {
			funcs[fn] = m
		}
		return
	}
	fmt.Fprintf(os.Stderr, "gostr2lean: %s: function %s not found\n", rel, fn)
	os.Exit(1)
}

// translateGetConfigLoop translates the record loop of (*Repository).GetConfig and the return that
// follows it: `out` (the listing `git config --list -z` printed) and `prefix` are parameters, the
// accumulated `config.Entries` is the result.
func translateGetConfigLoop(repo string, out *strings.Builder) {
	rel := "git/gitconfig.go"
	f, err := parser.ParseFile(fset, filepath.Join(repo, rel), nil, 0)
	if err != nil {
		fmt.Fprintln(os.Stderr, err)
		os.Exit(1)
	}
	for _, d := range f.Decls {
		fd, ok := d.(*ast.FuncDecl)
		if !ok || fd.Name.Name != "GetConfig" {
			continue
		}
		start := -1
		for i, st := range fd.Body.List {
			if _, ok := st.(*ast.ForStmt); ok {
				start = i
				break
			}
		}
		if start < 0 {
			die(fd.Pos(), "GetConfig: no loop")
		}
		e := &env{vars: map[string]kind{}, name: map[string]string{}}
		params := []string{"(g_prefix : Bytes)"}
		e.vars["prefix"], e.name["prefix"] = kStr, "g_prefix"
		e.declare("out", kStr)
		e.vars["config.Entries"], e.name["config.Entries"] = kPairs, "g_config_Entries"
		e.locals = append(e.locals, "config.Entries")
		var aux strings.Builder
		resultOverride["GetConfig_records"] = "List (Bytes × Bytes)"
		e.params, e.fname, e.want, e.aux = params, "GetConfig_records", []kind{kStruct, kErr}, &aux
		body := e.stmts(fd.Body.List[start:], "  ", func(ind string) string {
			die(fd.End(), "function falls off its end")
			return ""
		})
		out.WriteString(aux.String())
		fmt.Fprintf(out, "/-- %s: GetConfig, from the record loop on (`out` = what `git config --list -z` printed) -/\ndef GetConfig_records (g_prefix : Bytes) (g_out : Bytes) : Res (List (Bytes × Bytes)) := do\n  let g_config_Entries : List (Bytes × Bytes) := []\n%s\n\n", rel, body)
		return
	}
	fmt.Fprintln(os.Stderr, "gostr2lean: GetConfig not found")
	os.Exit(1)
}

func main() {
	if len(os.Args) != 3 && len(os.Args) != 4 {
		fmt.Fprintln(os.Stderr, "usage: gostr2lean <repo> <outdir> [strs|objs]")
		os.Exit(2)
	}
	repo, outdir := os.Args[1], os.Args[2]
	what := "all"
	if len(os.Args) == 4 {
		what = os.Args[3]
	}
	if what == "all" || what == "objs" {
		var o strings.Builder
		o.WriteString("import GitSizer.Basic.GoSem\n-- GENERATED by tools/gostr2lean from git/tree.go, git/obj_head_iter.go, git/commit.go and git/tag.go — do not edit\nnamespace Gen.Objs\nopen GitSizer\n\n")
		translateFlat(repo, "git/tree.go", "TreeIter", "NextEntry", "TreeIter_NextEntry", &o)
		translateFlat(repo, "git/obj_head_iter.go", "", "NewObjectHeaderIter", "NewObjectHeaderIter", &o)
		translateFlat(repo, "git/obj_head_iter.go", "ObjectHeaderIter", "HasNext", "ObjectHeaderIter_HasNext", &o)
		translateFlat(repo, "git/obj_head_iter.go", "ObjectHeaderIter", "Next", "ObjectHeaderIter_Next", &o)
		loopMeasure["ParseCommit"] = "iter.data"
		loopMeasure["ParseTag"] = "iter.data"
		translateFlat(repo, "git/commit.go", "", "ParseCommit", "ParseCommit", &o)
		translateFlat(repo, "git/tag.go", "", "ParseTag", "ParseTag", &o)
		o.WriteString("end Gen.Objs\n")
		os.MkdirAll(outdir, 0o755)
		if err := os.WriteFile(filepath.Join(outdir, "Objs.lean"), []byte(o.String()), 0o644); err != nil {
			panic(err)
		}
	}
	tmp = 0
	if what == "objs" {
		return
	}
	var out strings.Builder
	out.WriteString("import GitSizer.Basic.GoSem\n-- GENERATED by tools/gostr2lean from git/ref_filter.go, git/gitconfig.go, sizes/path_resolver.go, git/batch_header.go, git/reference.go and internal/refopts/ref_group_builder.go — do not edit\nnamespace Gen.Strs\nopen GitSizer\n\n")
	translate(repo, "git/ref_filter.go", "prefixFilter", "Filter", "prefixFilter_Filter", &out)
	translate(repo, "git/gitconfig.go", "", "configKeyMatchesPrefix", "configKeyMatchesPrefix", &out)
	translate(repo, "sizes/path_resolver.go", "", "scanRevision", "scanRevision", &out)
	translate(repo, "sizes/path_resolver.go", "", "rootTreePrefix", "rootTreePrefix", &out)
	resultOverride["ParseBatchHeader"] = "Bytes × Bytes × Nat" // OID, ObjectType, ObjectSize
	resultOverride["ParseReference"] = "Bytes × Bytes × Nat × Bytes" // Refname, ObjectType, ObjectSize, OID
	translate(repo, "git/batch_header.go", "", "ParseBatchHeader", "ParseBatchHeader", &out)
	translate(repo, "git/reference.go", "", "ParseReference", "ParseReference", &out)
	translate(repo, "internal/refopts/ref_group_builder.go", "", "splitKey", "splitKey", &out)
	translate(repo, "internal/refopts/ref_group_builder.go", "", "parentName", "parentName", &out)
	translateGetConfigLoop(repo, &out)
	out.WriteString("end Gen.Strs\n")
	os.MkdirAll(outdir, 0o755)
	if err := os.WriteFile(filepath.Join(outdir, "Strs.lean"), []byte(out.String()), 0o644); err != nil {
		panic(err)
	}
}
