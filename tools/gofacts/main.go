// gofacts: extracts the data tables and call-site facts the properties depend on from
// git-sizer's source (go/ast only) and re-emits them as plain Lean data
// (Gen/Tables.lean, Gen/Cmds.lean). Anything it cannot read makes it exit non-zero.
package main

import (
	"bytes"
	"fmt"
	"go/ast"
	"go/parser"
	"go/printer"
	"go/token"
	"math/big"
	"os"
	"path/filepath"
	"sort"
	"strconv"
	"strings"
)

var fset = token.NewFileSet()

func die(pos token.Pos, format string, a ...interface{}) {
	fmt.Fprintf(os.Stderr, "gofacts: %s: %s\n", fset.Position(pos), fmt.Sprintf(format, a...))
	os.Exit(2)
}

func parse(path string) *ast.File {
	f, err := parser.ParseFile(fset, path, nil, parser.ParseComments)
	if err != nil {
		fmt.Fprintf(os.Stderr, "gofacts: %v\n", err)
		os.Exit(2)
	}
	return f
}

// constant evaluation of numeric constant expressions to an exact rational
func evalRat(e ast.Expr) *big.Rat {
	switch t := e.(type) {
	case *ast.ParenExpr:
		return evalRat(t.X)
	case *ast.BasicLit:
		if t.Kind == token.INT || t.Kind == token.FLOAT {
			r, ok := new(big.Rat).SetString(strings.ReplaceAll(t.Value, "_", ""))
			if !ok {
				die(t.Pos(), "numeric literal %s", t.Value)
			}
			return r
		}
	case *ast.BinaryExpr:
		x, y := evalRat(t.X), evalRat(t.Y)
		switch t.Op {
		case token.MUL:
			return new(big.Rat).Mul(x, y)
		case token.ADD:
			return new(big.Rat).Add(x, y)
		case token.SUB:
			return new(big.Rat).Sub(x, y)
		case token.QUO:
			return new(big.Rat).Quo(x, y)
		case token.SHL:
			if !x.IsInt() || !y.IsInt() {
				die(t.Pos(), "shift of non-integers")
			}
			v := new(big.Int).Lsh(x.Num(), uint(y.Num().Uint64()))
			return new(big.Rat).SetInt(v)
		}
	}
	die(e.Pos(), "constant expression %T", e)
	return nil
}

func strLit(e ast.Expr) string {
	switch t := e.(type) {
	case *ast.BasicLit:
		if t.Kind == token.STRING {
			s, err := strconv.Unquote(t.Value)
			if err != nil {
				die(t.Pos(), "string literal")
			}
			return s
		}
	case *ast.BinaryExpr:
		if t.Op == token.ADD {
			return strLit(t.X) + strLit(t.Y)
		}
	case *ast.ParenExpr:
		return strLit(t.X)
	}
	die(e.Pos(), "expected string literal, got %T", e)
	return ""
}

func isStrLit(e ast.Expr) bool {
	switch t := e.(type) {
	case *ast.BasicLit:
		return t.Kind == token.STRING
	case *ast.BinaryExpr:
		return t.Op == token.ADD && isStrLit(t.X) && isStrLit(t.Y)
	case *ast.ParenExpr:
		return isStrLit(t.X)
	}
	return false
}

func q(s string) string {
	var b strings.Builder
	b.WriteByte('"')
	for _, r := range s {
		switch {
		case r == '"':
			b.WriteString("\\\"")
		case r == '\\':
			b.WriteString("\\\\")
		case r == '\n':
			b.WriteString("\\n")
		case r == '\t':
			b.WriteString("\\t")
		case r == '\r':
			b.WriteString("\\r")
		case r < 32 || r == 127:
			fmt.Fprintf(&b, "\\x%02x", r)
		default:
			b.WriteRune(r)
		}
	}
	b.WriteByte('"')
	return b.String()
}

func findFunc(f *ast.File, recv, name string) *ast.FuncDecl {
	for _, d := range f.Decls {
		fd, ok := d.(*ast.FuncDecl)
		if !ok || fd.Name.Name != name {
			continue
		}
		if recv == "" && fd.Recv == nil {
			return fd
		}
		if recv != "" && fd.Recv != nil {
			t := fd.Recv.List[0].Type
			if s, ok := t.(*ast.StarExpr); ok {
				t = s.X
			}
			if id, ok := t.(*ast.Ident); ok && id.Name == recv {
				return fd
			}
		}
	}
	fmt.Fprintf(os.Stderr, "gofacts: function %s.%s not found\n", recv, name)
	os.Exit(2)
	return nil
}

var out strings.Builder

// ---------------------------------------------------------------- counts/human.go

func prefixes(repo string) {
	f := parse(filepath.Join(repo, "counts", "human.go"))
	for _, d := range f.Decls {
		gd, ok := d.(*ast.GenDecl)
		if !ok || gd.Tok != token.VAR {
			continue
		}
		for _, s := range gd.Specs {
			vs := s.(*ast.ValueSpec)
			if len(vs.Names) != 1 || len(vs.Values) != 1 {
				continue
			}
			name := vs.Names[0].Name
			if name != "Metric" && name != "Binary" {
				continue
			}
			cl, ok := vs.Values[0].(*ast.CompositeLit)
			if !ok {
				die(vs.Pos(), "%s is not a composite literal", name)
			}
			hname := ""
			var rows []string
			for _, el := range cl.Elts {
				kv := el.(*ast.KeyValueExpr)
				switch kv.Key.(*ast.Ident).Name {
				case "name":
					hname = strLit(kv.Value)
				case "prefixes":
					pl := kv.Value.(*ast.CompositeLit)
					for _, pe := range pl.Elts {
						p := pe.(*ast.CompositeLit)
						if len(p.Elts) != 2 {
							die(p.Pos(), "prefix literal")
						}
						n := strLit(p.Elts[0])
						m := evalRat(p.Elts[1])
						if !m.IsInt() {
							die(p.Pos(), "non-integer multiplier")
						}
						rows = append(rows, fmt.Sprintf("(%s, %s)", q(n), m.Num().String()))
					}
				}
			}
			fmt.Fprintf(&out, "def %sName : String := %s\n", strings.ToLower(name), q(hname))
			fmt.Fprintf(&out, "def %sPrefixes : List (String × Nat) := [%s]\n\n", strings.ToLower(name), strings.Join(rows, ", "))
		}
	}
	// FormatNumber: the tagless switch that chooses the format from the whole part
	// (`case wholePart >= N: format = "%.Df"` ..., `default: format = "%.Df"`), the guards of the
	// prefix loop (`w >= 1`) and of the exact branch (`prefix.Multiplier == 1`), and the mantissa.
	fn := findFunc(f, "Humaner", "FormatNumber")
	if fn == nil {
		die(f.Pos(), "FormatNumber not found")
	}
	decimalsOf := func(e ast.Expr) string {
		v := strLit(e)
		if len(v) != 4 || v[0] != '%' || v[1] != '.' || v[3] != 'f' || v[2] < '0' || v[2] > '9' {
			die(e.Pos(), "format %q is not of the form %%.Nf", v)
		}
		return string(v[2])
	}
	var cases []string
	def := ""
	var mant, loopGuard, exactGuard string
	ast.Inspect(fn.Body, func(n ast.Node) bool {
		switch t := n.(type) {
		case *ast.SwitchStmt:
			if t.Tag != nil {
				die(t.Pos(), "FormatNumber: switch with a tag")
			}
			for _, c := range t.Body.List {
				cc := c.(*ast.CaseClause)
				if len(cc.Body) != 1 {
					die(cc.Pos(), "FormatNumber: case body")
				}
				as, ok := cc.Body[0].(*ast.AssignStmt)
				if !ok || len(as.Lhs) != 1 || exprText(as.Lhs[0]) != "format" {
					die(cc.Pos(), "FormatNumber: case does not assign format")
				}
				d := decimalsOf(as.Rhs[0])
				if len(cc.List) == 0 {
					def = d
					continue
				}
				be, ok := cc.List[0].(*ast.BinaryExpr)
				if !ok || len(cc.List) != 1 || be.Op != token.GEQ || exprText(be.X) != "wholePart" {
					die(cc.Pos(), "FormatNumber: case is not `wholePart >= N`")
				}
				cases = append(cases, fmt.Sprintf("(%s, %s)", evalRat(be.Y).Num().String(), d))
			}
		case *ast.AssignStmt:
			if len(t.Lhs) == 1 && exprText(t.Lhs[0]) == "mantissa" {
				mant = srcText(t.Rhs[0])
			}
		case *ast.IfStmt:
			c := srcText(t.Cond)
			if strings.HasPrefix(c, "w ") {
				loopGuard = c
			}
			if strings.HasPrefix(c, "prefix.Multiplier") {
				exactGuard = c
			}
		}
		return true
	})
	if def == "" {
		die(fn.Pos(), "FormatNumber: no default format")
	}
	fmt.Fprintf(&out, "/-- FormatNumber: (threshold of the whole part, decimals) in source order; decimals otherwise -/\n")
	fmt.Fprintf(&out, "def formatCases : List (Nat × Nat) := [%s]\n", strings.Join(cases, ", "))
	fmt.Fprintf(&out, "def formatDefault : Nat := %s\n", def)
	fmt.Fprintf(&out, "def formatMantissa : String := %s\n", q(mant))
	fmt.Fprintf(&out, "def formatLoopGuard : String := %s\n", q(loopGuard))
	fmt.Fprintf(&out, "def formatExactGuard : String := %s\n\n", q(exactGuard))
}

// ---------------------------------------------------------------- sizes/output.go

func fieldOf(e ast.Expr) string {
	switch t := e.(type) {
	case *ast.Ident:
		if t.Name == "nil" {
			return ""
		}
	case *ast.SelectorExpr:
		if id, ok := t.X.(*ast.Ident); ok && id.Name == "s" {
			return t.Sel.Name
		}
	case *ast.StarExpr:
		return fieldOf(t.X)
	}
	die(e.Pos(), "expected s.Field or nil")
	return ""
}

func node(e ast.Expr, ind string) string {
	c, ok := e.(*ast.CallExpr)
	if !ok {
		die(e.Pos(), "table contents: expected call")
	}
	fn, ok := c.Fun.(*ast.Ident)
	if !ok {
		die(e.Pos(), "table contents: callee")
	}
	switch fn.Name {
	case "S", "newSection":
		name := strLit(c.Args[0])
		var kids []string
		for _, a := range c.Args[1:] {
			if id, ok := a.(*ast.Ident); ok && id.Name == "rgis" {
				kids = append(kids, ind+"  .refgroups")
				continue
			}
			kids = append(kids, node(a, ind+"  "))
		}
		if c.Ellipsis != token.NoPos {
			// S("", rgis...)
		}
		return fmt.Sprintf("%s.sec %s [\n%s]", ind, q(name), strings.Join(kids, ",\n"))
	case "I", "newItem":
		if len(c.Args) != 8 {
			die(c.Pos(), "item arity")
		}
		hum, ok := c.Args[5].(*ast.Ident)
		if !ok {
			die(c.Args[5].Pos(), "humaner")
		}
		sc := evalRat(c.Args[7])
		return fmt.Sprintf("%s.item %s %s %s %s %s %s %s %s %s", ind,
			q(strLit(c.Args[0])), q(strLit(c.Args[1])), q(strLit(c.Args[2])),
			q(fieldOf(c.Args[3])), q(fieldOf(c.Args[4])), q(hum.Name), q(strLit(c.Args[6])),
			sc.Num().String(), sc.Denom().String())
	}
	die(e.Pos(), "table contents: %s", fn.Name)
	return ""
}

func outputTables(repo string) {
	f := parse(filepath.Join(repo, "sizes", "output.go"))
	// constants
	for _, d := range f.Decls {
		gd, ok := d.(*ast.GenDecl)
		if !ok || gd.Tok != token.CONST {
			continue
		}
		for _, s := range gd.Specs {
			vs := s.(*ast.ValueSpec)
			for i, n := range vs.Names {
				if (n.Name == "spaces" || n.Name == "stars") && i < len(vs.Values) {
					fmt.Fprintf(&out, "def %sConst : String := %s\n", n.Name, q(strLit(vs.Values[i])))
				}
			}
		}
	}
	out.WriteString("\n")
	cf := findFunc(f, "HistorySize", "contents")
	var ret *ast.ReturnStmt
	var rgItem *ast.CallExpr
	ast.Inspect(cf.Body, func(n ast.Node) bool {
		switch t := n.(type) {
		case *ast.ReturnStmt:
			ret = t
		case *ast.AssignStmt:
			if len(t.Lhs) == 1 {
				if id, ok := t.Lhs[0].(*ast.Ident); ok && id.Name == "rgi" {
					rgItem, _ = t.Rhs[0].(*ast.CallExpr)
				}
			}
		}
		return true
	})
	if ret == nil || len(ret.Results) != 1 {
		die(cf.Pos(), "contents(): return")
	}
	out.WriteString("inductive Node where\n  | sec (name : String) (kids : List Node)\n  | item (symbol name description pathField valueField humaner unit : String) (scaleNum scaleDen : Nat)\n  | refgroups\nderiving Repr\n\n")
	out.WriteString("def contents : Node :=\n" + node(ret.Results[0], "  ") + "\n\n")
	if rgItem == nil || len(rgItem.Args) != 8 {
		die(cf.Pos(), "contents(): refgroup item")
	}
	hum, _ := rgItem.Args[5].(*ast.Ident)
	sc := evalRat(rgItem.Args[7])
	// the refgroup item: symbol format, description format, humaner, unit, scale
	symFmt := strLit(rgItem.Args[0].(*ast.CallExpr).Args[0])
	descFmt := strLit(rgItem.Args[2].(*ast.CallExpr).Args[0])
	fmt.Fprintf(&out, "def refgroupItem : String × String × String × String × Nat × Nat := (%s, %s, %s, %s, %s, %s)\n\n",
		q(symFmt), q(descFmt), q(hum.Name), q(strLit(rgItem.Args[6])), sc.Num().String(), sc.Denom().String())

	// string literals of the table chrome, in source order per function
	for _, fn := range [][2]string{{"table", "generateHeader"}, {"table", "emitBlankRow"}, {"table", "formatRow"}, {"HistorySize", "TableString"}, {"item", "levelOfConcern"}} {
		fd := findFunc(f, fn[0], fn[1])
		var lits []string
		var nums []string
		ast.Inspect(fd.Body, func(n ast.Node) bool {
			if bl, ok := n.(*ast.BasicLit); ok {
				if bl.Kind == token.STRING {
					s, _ := strconv.Unquote(bl.Value)
					lits = append(lits, q(s))
				} else if bl.Kind == token.INT {
					nums = append(nums, bl.Value)
				}
			}
			return true
		})
		fmt.Fprintf(&out, "def %sStrings : List String := [%s]\n", fn[1], strings.Join(lits, ", "))
		fmt.Fprintf(&out, "def %sInts : List Nat := [%s]\n", fn[1], strings.Join(nums, ", "))
	}
	out.WriteString("\n")

	// levelOfConcern, statement by statement: assignments and guarded returns in source order
	{
		fd := findFunc(f, "item", "levelOfConcern")
		var rows []string
		for _, st := range fd.Body.List {
			switch t := st.(type) {
			case *ast.AssignStmt:
				var l, r []string
				for _, x := range t.Lhs {
					l = append(l, srcText(x))
				}
				for _, x := range t.Rhs {
					r = append(r, srcText(x))
				}
				rows = append(rows, fmt.Sprintf("(%s, %s, %s)", q("let"), q(strings.Join(l, ", ")), q(strings.Join(r, ", "))))
			case *ast.IfStmt:
				if t.Init != nil || t.Else != nil || len(t.Body.List) != 1 {
					die(t.Pos(), "levelOfConcern: unexpected if")
				}
				ret, ok := t.Body.List[0].(*ast.ReturnStmt)
				if !ok {
					die(t.Pos(), "levelOfConcern: if without return")
				}
				var r []string
				for _, x := range ret.Results {
					r = append(r, srcText(x))
				}
				rows = append(rows, fmt.Sprintf("(%s, %s, %s)", q("if"), q(srcText(t.Cond)), q(strings.Join(r, ", "))))
			case *ast.ReturnStmt:
				var r []string
				for _, x := range t.Results {
					r = append(r, srcText(x))
				}
				rows = append(rows, fmt.Sprintf("(%s, %s, %s)", q("return"), q(""), q(strings.Join(r, ", "))))
			default:
				die(st.Pos(), "levelOfConcern: unexpected statement")
			}
		}
		fmt.Fprintf(&out, "/-- item.levelOfConcern, statement by statement: (kind, condition / left-hand side, result / right-hand side) -/\n")
		fmt.Fprintf(&out, "def levelOfConcernFlow : List (String × String × String) := [%s]\n\n", strings.Join(rows, ",\n  "))
	}

	// JSON v2 item fields: json tags of the anonymous struct in item.MarshalJSON and what feeds them
	mj := findFunc(f, "item", "MarshalJSON")
	var tags []string
	ast.Inspect(mj.Body, func(n ast.Node) bool {
		if st, ok := n.(*ast.StructType); ok {
			for _, fl := range st.Fields.List {
				tag := ""
				if fl.Tag != nil {
					tag, _ = strconv.Unquote(fl.Tag.Value)
				}
				for _, nm := range fl.Names {
					tags = append(tags, fmt.Sprintf("(%s, %s)", q(nm.Name), q(tag)))
				}
			}
			return false
		}
		return true
	})
	fmt.Fprintf(&out, "def itemJsonFields : List (String × String) := [%s]\n\n", strings.Join(tags, ", "))
}

// ---------------------------------------------------------------- internal/refopts

func refopts(repo string) {
	f := parse(filepath.Join(repo, "internal", "refopts", "ref_group_builder.go"))
	fd := findFunc(f, "RefGroupBuilder", "AddRefopts")
	// every &filterValue{rgb, git.Include, "pattern", regexp} registered under a flag name,
	// plus NoOptDefVal / Hidden / Deprecated assignments on the most recent flag
	type opt struct {
		name, kind, comb, pattern string
		regexp                    bool
		noOpt, deprecated         string
		hidden                    bool
	}
	var opts []*opt
	var cur *opt
	handleCall := func(c *ast.CallExpr) {
		sel, ok := c.Fun.(*ast.SelectorExpr)
		if !ok {
			return
		}
		if sel.Sel.Name != "Var" && sel.Sel.Name != "VarPF" && sel.Sel.Name != "VarP" {
			return
		}
		u, ok := c.Args[0].(*ast.UnaryExpr)
		if !ok {
			die(c.Pos(), "flag value")
		}
		cl, ok := u.X.(*ast.CompositeLit)
		if !ok {
			die(c.Pos(), "flag value literal")
		}
		o := &opt{name: strLit(c.Args[1])}
		o.kind = cl.Type.(*ast.Ident).Name
		if o.kind == "filterValue" {
			if len(cl.Elts) != 4 {
				die(cl.Pos(), "filterValue literal")
			}
			cs := cl.Elts[1].(*ast.SelectorExpr)
			o.comb = cs.Sel.Name
			o.pattern = strLit(cl.Elts[2])
			o.regexp = cl.Elts[3].(*ast.Ident).Name == "true"
		}
		opts = append(opts, o)
		cur = o
	}
	for _, st := range fd.Body.List {
		switch t := st.(type) {
		case *ast.ExprStmt:
			if c, ok := t.X.(*ast.CallExpr); ok {
				handleCall(c)
			}
		case *ast.AssignStmt:
			if c, ok := t.Rhs[0].(*ast.CallExpr); ok {
				handleCall(c)
				continue
			}
			if sel, ok := t.Lhs[0].(*ast.SelectorExpr); ok && cur != nil {
				switch sel.Sel.Name {
				case "NoOptDefVal":
					cur.noOpt = strLit(t.Rhs[0])
				case "Deprecated":
					cur.deprecated = strLit(t.Rhs[0])
				case "Hidden":
					cur.hidden = true
				}
			}
		}
	}
	out.WriteString("/-- reference options: (flag, value kind, combiner, fixed pattern, regexp?, NoOptDefVal, deprecated?) -/\n")
	out.WriteString("def refOptions : List (String × String × String × String × Bool × String × Bool) := [\n")
	var rows []string
	for _, o := range opts {
		rows = append(rows, fmt.Sprintf("  (%s, %s, %s, %s, %v, %s, %v)", q(o.name), q(o.kind), q(o.comb), q(o.pattern), o.regexp, q(o.noOpt), o.deprecated != ""))
	}
	out.WriteString(strings.Join(rows, ",\n") + "]\n\n")

	// built-in refgroups
	ig := findFunc(f, "RefGroupBuilder", "initializeStandardRefgroups")
	var groups []string
	lastRegexp := ""
	ast.Inspect(ig.Body, func(n ast.Node) bool {
		c, ok := n.(*ast.CallExpr)
		if !ok {
			return true
		}
		if sel, ok := c.Fun.(*ast.SelectorExpr); ok && sel.Sel.Name == "RegexpFilter" && len(c.Args) == 1 && isStrLit(c.Args[0]) {
			lastRegexp = strLit(c.Args[0])
		}
		if id, ok := c.Fun.(*ast.Ident); ok && id.Name == "initializeGroup" && len(c.Args) == 3 {
			sym, name := strLit(c.Args[0]), strLit(c.Args[1])
			kind, pat := "", ""
			switch a := c.Args[2].(type) {
			case *ast.CallExpr:
				if sel, ok := a.Fun.(*ast.SelectorExpr); ok && sel.Sel.Name == "PrefixFilter" {
					kind, pat = "prefix", strLit(a.Args[0])
				} else {
					die(a.Pos(), "built-in group filter")
				}
			case *ast.Ident:
				kind, pat = "regexp", lastRegexp
			default:
				die(c.Pos(), "built-in group filter")
			}
			groups = append(groups, fmt.Sprintf("  (%s, %s, %s, %s)", q(sym), q(name), q(kind), q(pat)))
			return false
		}
		return true
	})
	out.WriteString("/-- built-in refgroups: (symbol, name, filter kind, pattern) -/\n")
	out.WriteString("def builtinRefgroups : List (String × String × String × String) := [\n" + strings.Join(groups, ",\n") + "]\n\n")
}

// ---------------------------------------------------------------- git-sizer.go: option table

func mainOptions(repo string) {
	f := parse(filepath.Join(repo, "git-sizer.go"))
	fd := findFunc(f, "", "mainImplementation")
	// threshold family: flags.Var/VarP(sizes.NewThresholdFlagValue(&threshold, V), "name", ...)
	var th []string
	var guards []string
	ast.Inspect(fd.Body, func(n ast.Node) bool {
		switch t := n.(type) {
		case *ast.CallExpr:
			sel, ok := t.Fun.(*ast.SelectorExpr)
			if !ok {
				return true
			}
			if (sel.Sel.Name == "Var" || sel.Sel.Name == "VarP") && len(t.Args) >= 2 {
				if c, ok := t.Args[0].(*ast.CallExpr); ok {
					if s2, ok := c.Fun.(*ast.SelectorExpr); ok && s2.Sel.Name == "NewThresholdFlagValue" {
						v := evalRat(c.Args[1])
						th = append(th, fmt.Sprintf("(%s, %s, %s)", q(strLit(t.Args[1])), v.Num().String(), v.Denom().String()))
					}
				}
			}
		case *ast.IfStmt:
			// collect flags.Changed("x") names in the condition and the config key read in the body
			var changed []string
			ast.Inspect(t.Cond, func(m ast.Node) bool {
				if c, ok := m.(*ast.CallExpr); ok {
					if s, ok := c.Fun.(*ast.SelectorExpr); ok && s.Sel.Name == "Changed" && len(c.Args) == 1 {
						changed = append(changed, strLit(c.Args[0]))
					}
				}
				return true
			})
			if len(changed) == 0 {
				return true
			}
			key := ""
			ast.Inspect(t.Body, func(m ast.Node) bool {
				if c, ok := m.(*ast.CallExpr); ok {
					if s, ok := c.Fun.(*ast.SelectorExpr); ok && strings.HasPrefix(s.Sel.Name, "Config") && len(c.Args) >= 1 && isStrLit(c.Args[0]) {
						if key == "" {
							key = strLit(c.Args[0])
						}
					}
				}
				return true
			})
			if key != "" {
				var qs []string
				for _, c := range changed {
					qs = append(qs, q(c))
				}
				guards = append(guards, fmt.Sprintf("(%s, [%s])", q(key), strings.Join(qs, ", ")))
			}
		}
		return true
	})
	out.WriteString("/-- threshold-family boolean flags: (flag, target value num, den) -/\n")
	fmt.Fprintf(&out, "def thresholdFlags : List (String × Nat × Nat) := [%s]\n\n", strings.Join(th, ", "))
	out.WriteString("/-- gitconfig reads and the command-line flags whose presence suppresses them -/\n")
	fmt.Fprintf(&out, "def configGuards : List (String × List String) := [%s]\n\n", strings.Join(guards, ", "))
}

// ---------------------------------------------------------------- command call sites

type cmdSite struct {
	file, fn string
	via      string // "GitCommand" or "exec.Command"
	args     []string
}

func commandSites(repo string) {
	var sites []cmdSite
	var files []string
	filepath.Walk(repo, func(p string, info os.FileInfo, err error) error {
		if err != nil {
			return nil
		}
		if info.IsDir() {
			b := info.Name()
			if b == ".git" || b == "vendor" || b == "testutils" || b == "script" || b == "docs" {
				return filepath.SkipDir
			}
			return nil
		}
		if strings.HasSuffix(p, ".go") && !strings.HasSuffix(p, "_test.go") && !strings.Contains(filepath.Base(p), "zz_verif_") {
			files = append(files, p)
		}
		return nil
	})
	sort.Strings(files)
	var gitCommandPrefix []string
	var gitCommandEnv []string
	var otherSpawns []string
	var fileWrites []string
	for _, p := range files {
		f := parse(p)
		rel, _ := filepath.Rel(repo, p)
		// skip files guarded by a build tag of ours
		skip := false
		for _, cg := range f.Comments {
			if cg.Pos() < f.Package && strings.Contains(cg.Text(), "+build verif") || strings.Contains(cg.Text(), "go:build verif") {
				skip = true
			}
		}
		if skip {
			continue
		}
		for _, d := range f.Decls {
			fd, ok := d.(*ast.FuncDecl)
			if !ok || fd.Body == nil {
				continue
			}
			fname := fd.Name.Name
			ast.Inspect(fd.Body, func(n ast.Node) bool {
				c, ok := n.(*ast.CallExpr)
				if !ok {
					return true
				}
				sel, ok := c.Fun.(*ast.SelectorExpr)
				if !ok {
					return true
				}
				x, _ := sel.X.(*ast.Ident)
				switch {
				case sel.Sel.Name == "GitCommand":
					s := cmdSite{file: rel, fn: fname, via: "GitCommand"}
					for _, a := range c.Args {
						if isStrLit(a) {
							s.args = append(s.args, strLit(a))
						} else {
							s.args = append(s.args, "<var>")
						}
					}
					sites = append(sites, s)
				case x != nil && x.Name == "exec" && (sel.Sel.Name == "Command" || sel.Sel.Name == "CommandContext"):
					s := cmdSite{file: rel, fn: fname, via: "exec.Command"}
					for _, a := range c.Args[1:] {
						if isStrLit(a) {
							s.args = append(s.args, strLit(a))
						} else if id, ok := a.(*ast.Ident); ok && id.Name == "args" && c.Ellipsis != token.NoPos {
							s.args = append(s.args, "<args...>")
						} else {
							s.args = append(s.args, "<var>")
						}
					}
					if fname == "GitCommand" {
						// the body of GitCommand: fixed prefix and environment
						ast.Inspect(fd.Body, func(m ast.Node) bool {
							switch t := m.(type) {
							case *ast.CompositeLit:
								if at, ok := t.Type.(*ast.ArrayType); ok {
									if id, ok := at.Elt.(*ast.Ident); ok && id.Name == "string" {
										for _, e := range t.Elts {
											if isStrLit(e) {
												gitCommandPrefix = append(gitCommandPrefix, strLit(e))
											}
										}
									}
								}
							case *ast.AssignStmt:
								if s2, ok := t.Lhs[0].(*ast.SelectorExpr); ok && s2.Sel.Name == "Env" {
									if ap, ok := t.Rhs[0].(*ast.CallExpr); ok {
										for _, e := range ap.Args[1:] {
											if be, ok := e.(*ast.BinaryExpr); ok && isStrLit(be.X) {
												rhs := "<var>"
												if s3, ok := be.Y.(*ast.SelectorExpr); ok {
													rhs = "<" + exprText(s3) + ">"
												}
												gitCommandEnv = append(gitCommandEnv, strLit(be.X)+rhs)
											}
										}
									}
								}
							}
							return true
						})
					} else {
						sites = append(sites, s)
					}
				case x != nil && x.Name == "os" && (sel.Sel.Name == "StartProcess"):
					otherSpawns = append(otherSpawns, rel+":"+fname)
				case x != nil && x.Name == "syscall" && (sel.Sel.Name == "Exec" || sel.Sel.Name == "ForkExec"):
					otherSpawns = append(otherSpawns, rel+":"+fname)
				case x != nil && x.Name == "os" && (sel.Sel.Name == "Create" || sel.Sel.Name == "OpenFile" || sel.Sel.Name == "WriteFile" ||
					sel.Sel.Name == "Remove" || sel.Sel.Name == "RemoveAll" || sel.Sel.Name == "Rename" || sel.Sel.Name == "Mkdir" ||
					sel.Sel.Name == "MkdirAll" || sel.Sel.Name == "Chmod" || sel.Sel.Name == "Truncate" || sel.Sel.Name == "Symlink" || sel.Sel.Name == "Link" || sel.Sel.Name == "Chtimes"):
					arg := "<var>"
					if len(c.Args) > 0 {
						arg = exprText(c.Args[0])
					}
					fileWrites = append(fileWrites, rel+":"+fname+":"+sel.Sel.Name+":"+arg)
				case x != nil && x.Name == "ioutil" && (sel.Sel.Name == "WriteFile" || sel.Sel.Name == "TempFile" || sel.Sel.Name == "TempDir"):
					fileWrites = append(fileWrites, rel+":"+fname+":"+sel.Sel.Name)
				}
				return true
			})
		}
	}
	qs := func(xs []string) string {
		var r []string
		for _, x := range xs {
			r = append(r, q(x))
		}
		return "[" + strings.Join(r, ", ") + "]"
	}
	out.WriteString("/-- every place a subprocess is created: (file, function, via, literal arguments) -/\n")
	out.WriteString("def commandSites : List (String × String × String × List String) := [\n")
	var rows []string
	for _, s := range sites {
		rows = append(rows, fmt.Sprintf("  (%s, %s, %s, %s)", q(s.file), q(s.fn), q(s.via), qs(s.args)))
	}
	out.WriteString(strings.Join(rows, ",\n") + "]\n\n")
	fmt.Fprintf(&out, "def gitCommandPrefix : List String := %s\n", qs(gitCommandPrefix))
	fmt.Fprintf(&out, "def gitCommandEnv : List String := %s\n", qs(gitCommandEnv))
	fmt.Fprintf(&out, "def otherSpawns : List String := %s\n", qs(otherSpawns))
	fmt.Fprintf(&out, "def fileWrites : List String := %s\n\n", qs(fileWrites))
}

func exprText(e ast.Expr) string {
	switch t := e.(type) {
	case *ast.Ident:
		return t.Name
	case *ast.SelectorExpr:
		return exprText(t.X) + "." + t.Sel.Name
	case *ast.BasicLit:
		return t.Value
	}
	return "<expr>"
}

// ---------------------------------------------------------------- channel close / Wait sites

func closeSites(repo string) {
	var rows []string
	for _, rel := range []string{"git/obj_iter.go", "git/batch_obj_iter.go", "git/ref_iter.go", "sizes/graph.go"} {
		f := parse(filepath.Join(repo, rel))
		for _, d := range f.Decls {
			fd, ok := d.(*ast.FuncDecl)
			if !ok || fd.Body == nil {
				continue
			}
			var walk func(n ast.Node, deferred bool)
			walk = func(n ast.Node, deferred bool) {
				ast.Inspect(n, func(m ast.Node) bool {
					switch t := m.(type) {
					case *ast.DeferStmt:
						walk(t.Call, true)
						return false
					case *ast.CallExpr:
						if id, ok := t.Fun.(*ast.Ident); ok && id.Name == "close" && len(t.Args) == 1 {
							rows = append(rows, fmt.Sprintf("  (%s, %s, %s, %s, %v)", q(rel), q(fd.Name.Name), q("close"), q(exprText(t.Args[0])), deferred))
						}
						if sel, ok := t.Fun.(*ast.SelectorExpr); ok {
							switch sel.Sel.Name {
							case "Wait":
								rows = append(rows, fmt.Sprintf("  (%s, %s, %s, %s, %v)", q(rel), q(fd.Name.Name), q("Wait"), q(exprText(sel.X)), deferred))
							case "Close":
								rows = append(rows, fmt.Sprintf("  (%s, %s, %s, %s, %v)", q(rel), q(fd.Name.Name), q("Close"), q(exprText(sel.X)), deferred))
							case "Next":
								// draining an iterator is what lets its pipeline be waited for
								if rel == "sizes/graph.go" {
									rows = append(rows, fmt.Sprintf("  (%s, %s, %s, %s, %v)", q(rel), q(fd.Name.Name), q("Next"), q(exprText(sel.X)), deferred))
								}
							}
						}
					case *ast.UnaryExpr:
						if t.Op == token.ARROW {
							rows = append(rows, fmt.Sprintf("  (%s, %s, %s, %s, %v)", q(rel), q(fd.Name.Name), q("recv"), q(exprText(t.X)), deferred))
						}
					}
					return true
				})
			}
			walk(fd.Body, false)
		}
	}
	out.WriteString("/-- channel close / Wait / receive sites: (file, function, what, operand, deferred?) -/\n")
	out.WriteString("def syncSites : List (String × String × String × String × Bool) := [\n" + strings.Join(rows, ",\n") + "]\n\n")
}

// ---------------------------------------------------------------- the scan driver's phases

// classifyFor describes a `for` statement: ("stream", false) for `for { … }`, (X, true) for
// `for i := len(X); i > 0; i--`, (X, false) for `for i := 0; i < len(X); i++`, ("?", false) otherwise.
func classifyFor(t *ast.ForStmt) (string, bool) {
	if t.Init == nil && t.Cond == nil && t.Post == nil {
		return "stream", false
	}
	lenOf := func(e ast.Expr) string {
		if c, ok := e.(*ast.CallExpr); ok {
			if id, ok := c.Fun.(*ast.Ident); ok && id.Name == "len" && len(c.Args) == 1 {
				return exprText(c.Args[0])
			}
		}
		return ""
	}
	as, ok1 := t.Init.(*ast.AssignStmt)
	post, ok2 := t.Post.(*ast.IncDecStmt)
	cond, ok3 := t.Cond.(*ast.BinaryExpr)
	if !ok1 || !ok2 || !ok3 || len(as.Rhs) != 1 {
		return "?", false
	}
	if x := lenOf(as.Rhs[0]); x != "" && post.Tok == token.DEC && cond.Op == token.GTR && exprText(cond.Y) == "0" {
		return x, true
	}
	if x := lenOf(cond.Y); x != "" && post.Tok == token.INC && cond.Op == token.LSS && exprText(as.Rhs[0]) == "0" {
		return x, false
	}
	return "?", false
}

func scanPhases(repo string) {
	f := parse(filepath.Join(repo, "sizes/graph.go"))
	fd := findFunc(f, "", "ScanRepositoryUsingGraph")
	if fd == nil {
		die(f.Pos(), "ScanRepositoryUsingGraph not found")
	}
	var registers, requests, collects []string
	var walk func(n ast.Node, loop string, rev bool, label string)
	walk = func(n ast.Node, loop string, rev bool, label string) {
		ast.Inspect(n, func(m ast.Node) bool {
			switch t := m.(type) {
			case *ast.ForStmt:
				l, r := classifyFor(t)
				walk(t.Body, l, r, label)
				return false
			case *ast.RangeStmt:
				walk(t.Body, exprText(t.X), false, label)
				return false
			case *ast.CaseClause:
				lab := "default"
				if len(t.List) == 1 && isStrLit(t.List[0]) {
					lab = strLit(t.List[0])
				}
				for _, st := range t.Body {
					walk(st, loop, rev, lab)
				}
				return false
			case *ast.AssignStmt:
				// X = append(X, …) inside the type switch of the listing loop
				if len(t.Lhs) == 1 && len(t.Rhs) == 1 && label != "" {
					if c, ok := t.Rhs[0].(*ast.CallExpr); ok {
						if id, ok := c.Fun.(*ast.Ident); ok && id.Name == "append" && len(c.Args) >= 1 && exprText(c.Args[0]) == exprText(t.Lhs[0]) {
							collects = append(collects, fmt.Sprintf("(%s, %s)", q(label), q("append "+exprText(t.Lhs[0]))))
						}
					}
				}
			case *ast.CallExpr:
				if sel, ok := t.Fun.(*ast.SelectorExpr); ok {
					name := sel.Sel.Name
					if exprText(sel.X) == "graph" && strings.HasPrefix(name, "Register") {
						if label != "" {
							collects = append(collects, fmt.Sprintf("(%s, %s)", q(label), q(name)))
						}
						registers = append(registers, fmt.Sprintf("(%s, %s, %v)", q(name), q(loop), rev))
					}
					if name == "RequestObject" {
						requests = append(requests, fmt.Sprintf("(%s, %v)", q(loop), rev))
					}
				}
			}
			return true
		})
	}
	walk(fd.Body, "", false, "")
	out.WriteString("/-- `ScanRepositoryUsingGraph`, in source order: (Graph method, the loop it sits in, reversed?) -/\n")
	out.WriteString("def scanRegisters : List (String × String × Bool) := [" + strings.Join(registers, ", ") + "]\n")
	out.WriteString("/-- the `RequestObject` loops of the batch request goroutine: (slice, reversed?) -/\n")
	out.WriteString("def scanRequests : List (String × Bool) := [" + strings.Join(requests, ", ") + "]\n")
	out.WriteString("/-- what the listing loop does per object type: (type, action) -/\n")
	out.WriteString("def scanCollects : List (String × String) := [" + strings.Join(collects, ", ") + "]\n\n")
}

// ---------------------------------------------------------------- path-resolver call sites

func qlist(xs []string) string {
	var r []string
	for _, x := range xs {
		r = append(r, q(x))
	}
	return "[" + strings.Join(r, ", ") + "]"
}

func srcText(n ast.Node) string {
	var b bytes.Buffer
	printer.Fprint(&b, token.NewFileSet(), n)
	return normSpace(b.String())
}

// normSpace collapses runs of white space to one blank, but not inside string, rune or raw-string literals
func normSpace(s string) string {
	var o strings.Builder
	var quote byte
	pendingSpace := false
	for i := 0; i < len(s); i++ {
		c := s[i]
		if quote != 0 {
			o.WriteByte(c)
			if c == '\\' && quote != '`' && i+1 < len(s) {
				i++
				o.WriteByte(s[i])
			} else if c == quote {
				quote = 0
			}
			continue
		}
		if c == ' ' || c == '\t' || c == '\n' || c == '\r' {
			pendingSpace = true
			continue
		}
		if pendingSpace && o.Len() > 0 {
			o.WriteByte(' ')
		}
		pendingSpace = false
		o.WriteByte(c)
		if c == '"' || c == '\'' || c == '`' {
			quote = c
		}
	}
	return o.String()
}

// resolverSites lists every call that tells the PathResolver something or asks it for a path,
// outside path_resolver.go itself: (file, function, callee, arguments, innermost enclosing
// `case` / `if` condition).
func resolverSites(repo string) {
	var rows []string
	files, _ := filepath.Glob(filepath.Join(repo, "sizes", "*.go"))
	files = append(files, filepath.Join(repo, "git-sizer.go"))
	sort.Strings(files)
	callees := map[string]bool{"RecordName": true, "RecordTreeEntry": true, "RecordCommit": true, "RecordTag": true,
		"RequestPath": true, "ForgetPath": true, "setPath": true, "RegisterName": true}
	for _, path := range files {
		rel, _ := filepath.Rel(repo, path)
		if strings.HasSuffix(rel, "_test.go") || rel == "sizes/path_resolver.go" {
			continue
		}
		f := parse(path)
		for _, d := range f.Decls {
			fd, ok := d.(*ast.FuncDecl)
			if !ok || fd.Body == nil {
				continue
			}
			var stack []ast.Node
			ast.Inspect(fd.Body, func(n ast.Node) bool {
				if n == nil {
					stack = stack[:len(stack)-1]
					return true
				}
				stack = append(stack, n)
				call, ok := n.(*ast.CallExpr)
				if !ok {
					return true
				}
				name := ""
				switch t := call.Fun.(type) {
				case *ast.Ident:
					name = t.Name
				case *ast.SelectorExpr:
					name = t.Sel.Name
				}
				if !callees[name] {
					return true
				}
				if fd.Name.Name == "setPath" || fd.Name.Name == name {
					return true // the helper's own body / the one-line wrapper of the same name
				}
				var args []string
				for _, a := range call.Args {
					args = append(args, srcText(a))
				}
				ctx := ""
				for i := len(stack) - 2; i >= 0 && ctx == ""; i-- {
					switch t := stack[i].(type) {
					case *ast.CaseClause:
						if len(t.List) == 0 {
							ctx = "default"
						} else {
							var cs []string
							for _, c := range t.List {
								cs = append(cs, srcText(c))
							}
							ctx = "case " + strings.Join(cs, ", ")
						}
					case *ast.IfStmt:
						ctx = "if " + srcText(t.Cond)
					}
				}
				rows = append(rows, fmt.Sprintf("  (%s, %s, %s, %s, %s)", q(rel), q(fd.Name.Name), q(name), qlist(args), q(ctx)))
				return true
			})
		}
	}
	out.WriteString("/-- calls to the path resolver outside path_resolver.go: (file, function, callee, arguments, enclosing case/if) -/\n")
	out.WriteString("def resolverSites : List (String × String × String × List String × String) := [\n" + strings.Join(rows, ",\n") + "]\n\n")
}

// ---------------------------------------------------------------- the control flow of a run (C10)

// mainFlow lists, in source order, what `mainImplementation` does that matters for
// all-or-nothing reporting: returns of an error, `return nil`, writes to `stdout`, the scan. Each
// event carries its branch path: "i<k>t" / "i<k>e" for the then / else block of the k-th `if`,
// "s<k>c<j>" for case j of the k-th switch, "f<k>" for the body of the k-th loop.
func mainFlow(repo string) {
	f := parse(filepath.Join(repo, "git-sizer.go"))
	fn := findFunc(f, "", "mainImplementation")
	if fn == nil {
		die(f.Pos(), "mainImplementation not found")
	}
	var rows []string
	counter := 0
	add := func(kind, detail string, path []string) {
		var comps []string
		for _, c := range path {
			kv := strings.SplitN(c, ":", 2)
			comps = append(comps, fmt.Sprintf("(%s, %s)", q(kv[0]), q(kv[1])))
		}
		rows = append(rows, fmt.Sprintf("  (%s, %s, [%s])", q(kind), q(detail), strings.Join(comps, ", ")))
	}
	mentionsStdout := func(n ast.Node) bool {
		found := false
		ast.Inspect(n, func(m ast.Node) bool {
			if _, ok := m.(*ast.FuncLit); ok {
				return false
			}
			if c, ok := m.(*ast.CallExpr); ok {
				for _, a := range c.Args {
					if id, ok := a.(*ast.Ident); ok && id.Name == "stdout" {
						found = true
					}
				}
			}
			return true
		})
		return found
	}
	callsScan := func(n ast.Node) bool {
		found := false
		ast.Inspect(n, func(m ast.Node) bool {
			if c, ok := m.(*ast.CallExpr); ok {
				if sel, ok := c.Fun.(*ast.SelectorExpr); ok && sel.Sel.Name == "ScanRepositoryUsingGraph" {
					found = true
				}
			}
			return true
		})
		return found
	}
	var walk func(stmts []ast.Stmt, path []string)
	simple := func(st ast.Stmt, path []string) {
		if callsScan(st) {
			add("scan", "", path)
		}
		if mentionsStdout(st) {
			add("stdout", "", path)
		}
	}
	walk = func(stmts []ast.Stmt, path []string) {
		for _, st := range stmts {
			switch t := st.(type) {
			case *ast.ReturnStmt:
				if len(t.Results) == 1 {
					if id, ok := t.Results[0].(*ast.Ident); ok && id.Name == "nil" {
						add("ret-nil", "", path)
					} else {
						add("ret-err", srcText(t.Results[0]), path)
					}
				}
			case *ast.IfStmt:
				counter++
				k := counter
				if t.Init != nil {
					simple(t.Init, path)
				}
				cond := srcText(t.Cond)
				add("if", cond, append(append([]string{}, path...), fmt.Sprintf("i%d:", k)))
				walk(t.Body.List, append(append([]string{}, path...), fmt.Sprintf("i%d:t", k)))
				switch e := t.Else.(type) {
				case *ast.BlockStmt:
					walk(e.List, append(append([]string{}, path...), fmt.Sprintf("i%d:e", k)))
				case *ast.IfStmt:
					walk([]ast.Stmt{e}, append(append([]string{}, path...), fmt.Sprintf("i%d:e", k)))
				}
			case *ast.SwitchStmt:
				counter++
				k := counter
				for j, c := range t.Body.List {
					walk(c.(*ast.CaseClause).Body, append(append([]string{}, path...), fmt.Sprintf("s%d:c%d", k, j)))
				}
			case *ast.ForStmt:
				counter++
				walk(t.Body.List, append(append([]string{}, path...), fmt.Sprintf("f%d:loop", counter)))
			case *ast.RangeStmt:
				counter++
				walk(t.Body.List, append(append([]string{}, path...), fmt.Sprintf("f%d:loop", counter)))
			case *ast.BlockStmt:
				walk(t.List, path)
			default:
				simple(st, path)
			}
		}
	}
	walk(fn.Body.List, nil)
	out.WriteString("/-- mainImplementation in source order: (event, detail, branch path as (statement id, branch)) -/\n")
	out.WriteString("def mainFlow : List (String × String × List (String × String)) := [\n" + strings.Join(rows, ",\n") + "]\n\n")
}

// funcFlow emits EVERY statement of a function in source order as (kind, text, branch path): simple
// statements with their (whitespace-normalised) source text, control statements with their
// condition / header; bodies of `go func(){…}()` and of function literals that are called on the spot
// are walked too (path components "g<k>:go", "l<k>:lit"). The branch path has one component per
// enclosing if (t/e), switch case (c<j>) and loop.
func funcFlow(repo, rel, recv, name, leanName, doc string) {
	rows := funcFlowRows(repo, rel, recv, name)
	fmt.Fprintf(&out, "/-- %s -/\ndef %s : List (String × String × List (String × String)) := [\n%s]\n\n", doc, leanName, strings.Join(rows, ",\n"))
}

func funcFlowRows(repo, rel, recv, name string) []string {
	f := parse(filepath.Join(repo, rel))
	fn := findFunc(f, recv, name)
	if fn == nil {
		die(f.Pos(), "%s not found", name)
	}
	return declFlowRows(fn)
}

// fileFlows emits the statement lists of EVERY function and method declared in a file
func fileFlows(repo, leanName, rel string) {
	// parsed WITHOUT comments: documentation attached to declarations and fields must not show up in the text
	f, err := parser.ParseFile(fset, filepath.Join(repo, rel), nil, 0)
	if err != nil {
		fmt.Fprintf(os.Stderr, "gofacts: %v\n", err)
		os.Exit(2)
	}
	var defs []string
	// package-level declarations (types, constants, variables; imports apart), in source order
	var decls []string
	for _, d := range f.Decls {
		gd, ok := d.(*ast.GenDecl)
		if !ok || gd.Tok == token.IMPORT {
			continue
		}
		decls = append(decls, fmt.Sprintf("(\"decl\", %s, [])", q(srcText(gd))))
	}
	if len(decls) > 0 {
		defs = append(defs, fmt.Sprintf("  (\"<declarations>\", [\n    %s])", strings.Join(decls, ",\n    ")))
	}
	for _, d := range f.Decls {
		fd, ok := d.(*ast.FuncDecl)
		if !ok || fd.Body == nil {
			continue
		}
		nm := fd.Name.Name
		if fd.Recv != nil && len(fd.Recv.List) == 1 {
			t := fd.Recv.List[0].Type
			if st, ok := t.(*ast.StarExpr); ok {
				t = st.X
			}
			if id, ok := t.(*ast.Ident); ok {
				nm = id.Name + "." + nm
			}
		}
		rows := declFlowRows(fd)
		defs = append(defs, fmt.Sprintf("  (%s, [\n  %s])", q(nm), strings.Join(rows, ",\n  ")))
	}
	fmt.Fprintf(&out, "/-- %s, every function: (Type.method, every statement in source order as (kind, text, branch path)) -/\n", rel)
	fmt.Fprintf(&out, "def %s : List (String × List (String × String × List (String × String))) := [\n%s]\n\n", leanName, strings.Join(defs, ",\n"))
}

func declFlowRows(fn *ast.FuncDecl) []string {
	var rows []string
	counter := 0
	add := func(kind, detail string, path []string) {
		var comps []string
		for _, c := range path {
			kv := strings.SplitN(c, ":", 2)
			comps = append(comps, fmt.Sprintf("(%s, %s)", q(kv[0]), q(kv[1])))
		}
		rows = append(rows, fmt.Sprintf("  (%s, %s, [%s])", q(kind), q(detail), strings.Join(comps, ", ")))
	}
	ext := func(path []string, c string) []string { return append(append([]string{}, path...), c) }
	returnsErr := func(ft *ast.FuncType) bool {
		if ft.Results == nil || len(ft.Results.List) == 0 {
			return false
		}
		id, ok := ft.Results.List[len(ft.Results.List)-1].Type.(*ast.Ident)
		return ok && id.Name == "error"
	}
	curErr := returnsErr(fn.Type)
	var walk func(stmts []ast.Stmt, path []string)
	// a function literal called on the spot inside an expression: walk its body
	lits := func(n ast.Node, path []string) {
		ast.Inspect(n, func(m ast.Node) bool {
			if c, ok := m.(*ast.CallExpr); ok {
				if fl, ok := c.Fun.(*ast.FuncLit); ok {
					counter++
					save := curErr
					curErr = returnsErr(fl.Type)
					walk(fl.Body.List, ext(path, fmt.Sprintf("l%d:lit", counter)))
					curErr = save
					return false
				}
			}
			if _, ok := m.(*ast.FuncLit); ok {
				return false // a closure stored for later: its text is part of the statement
			}
			return true
		})
	}
	walk = func(stmts []ast.Stmt, path []string) {
		for _, st := range stmts {
			switch t := st.(type) {
			case *ast.ReturnStmt:
				var rs []string
				for _, r := range t.Results {
					rs = append(rs, srcText(r))
				}
				kind := "return"
				if n := len(t.Results); n > 0 && curErr {
					if id, ok := t.Results[n-1].(*ast.Ident); !ok || id.Name != "nil" {
						kind = "return-err" // the function's last result is an error and this is not the literal nil
					}
				}
				add(kind, strings.Join(rs, ", "), path)
			case *ast.IfStmt:
				counter++
				k := counter
				if t.Init != nil {
					walk([]ast.Stmt{t.Init}, path)
				}
				add("if", srcText(t.Cond), ext(path, fmt.Sprintf("i%d:", k)))
				walk(t.Body.List, ext(path, fmt.Sprintf("i%d:t", k)))
				switch e := t.Else.(type) {
				case *ast.BlockStmt:
					walk(e.List, ext(path, fmt.Sprintf("i%d:e", k)))
				case *ast.IfStmt:
					walk([]ast.Stmt{e}, ext(path, fmt.Sprintf("i%d:e", k)))
				}
			case *ast.SwitchStmt:
				counter++
				k := counter
				tag := ""
				if t.Tag != nil {
					tag = srcText(t.Tag)
				}
				add("switch", tag, ext(path, fmt.Sprintf("s%d:", k)))
				for j, c := range t.Body.List {
					cc := c.(*ast.CaseClause)
					var es []string
					for _, e := range cc.List {
						es = append(es, srcText(e))
					}
					lbl := "default"
					if len(es) > 0 {
						lbl = strings.Join(es, ", ")
					}
					add("case", lbl, ext(path, fmt.Sprintf("s%d:c%d", k, j)))
					walk(cc.Body, ext(path, fmt.Sprintf("s%d:c%d", k, j)))
				}
			case *ast.SelectStmt:
				counter++
				k := counter
				add("select", "", ext(path, fmt.Sprintf("s%d:", k)))
				for j, c := range t.Body.List {
					cc := c.(*ast.CommClause)
					lbl := "default"
					if cc.Comm != nil {
						lbl = srcText(cc.Comm)
					}
					add("case", lbl, ext(path, fmt.Sprintf("s%d:c%d", k, j)))
					walk(cc.Body, ext(path, fmt.Sprintf("s%d:c%d", k, j)))
				}
			case *ast.LabeledStmt:
				add("label", t.Label.Name, path)
				walk([]ast.Stmt{t.Stmt}, path)
			case *ast.EmptyStmt:
			case *ast.TypeSwitchStmt:
				counter++
				k := counter
				add("typeswitch", srcText(t.Assign), ext(path, fmt.Sprintf("s%d:", k)))
				for j, c := range t.Body.List {
					cc := c.(*ast.CaseClause)
					var es []string
					for _, e := range cc.List {
						es = append(es, srcText(e))
					}
					lbl := "default"
					if len(es) > 0 {
						lbl = strings.Join(es, ", ")
					}
					add("case", lbl, ext(path, fmt.Sprintf("s%d:c%d", k, j)))
					walk(cc.Body, ext(path, fmt.Sprintf("s%d:c%d", k, j)))
				}
			case *ast.ForStmt:
				counter++
				hdr := ""
				if t.Init != nil {
					hdr += srcText(t.Init)
				}
				hdr += "; "
				if t.Cond != nil {
					hdr += srcText(t.Cond)
				}
				hdr += "; "
				if t.Post != nil {
					hdr += srcText(t.Post)
				}
				if hdr == "; ; " {
					hdr = ""
				}
				add("for", hdr, ext(path, fmt.Sprintf("f%d:loop", counter)))
				walk(t.Body.List, ext(path, fmt.Sprintf("f%d:loop", counter)))
			case *ast.RangeStmt:
				counter++
				hdr := "range " + srcText(t.X)
				if t.Key != nil {
					hdr = srcText(t.Key)
					if t.Value != nil {
						hdr += ", " + srcText(t.Value)
					}
					hdr += " := range " + srcText(t.X)
				}
				add("for", hdr, ext(path, fmt.Sprintf("f%d:loop", counter)))
				walk(t.Body.List, ext(path, fmt.Sprintf("f%d:loop", counter)))
			case *ast.BlockStmt:
				walk(t.List, path)
			case *ast.BranchStmt:
				lbl := ""
				if t.Label != nil {
					lbl = t.Label.Name
				}
				add(t.Tok.String(), lbl, path)
			case *ast.GoStmt:
				if fl, ok := t.Call.Fun.(*ast.FuncLit); ok {
					counter++
					add("go", "", ext(path, fmt.Sprintf("g%d:go", counter)))
					save := curErr
					curErr = returnsErr(fl.Type)
					walk(fl.Body.List, ext(path, fmt.Sprintf("g%d:go", counter)))
					curErr = save
				} else {
					add("go", srcText(t.Call), path)
				}
			case *ast.DeferStmt:
				add("defer", srcText(t.Call), path)
			case *ast.SendStmt:
				if c, ok := t.Value.(*ast.CallExpr); ok {
					if _, ok := c.Fun.(*ast.FuncLit); ok {
						add("send", srcText(t.Chan), path)
						lits(t.Value, path)
						continue
					}
				}
				add("send", srcText(t.Chan)+" <- "+srcText(t.Value), path)
			case *ast.ExprStmt:
				add("call", srcText(t.X), path)
				lits(t.X, path)
			case *ast.DeclStmt:
				if gd, ok := t.Decl.(*ast.GenDecl); ok {
					cp := *gd
					cp.Doc = nil
					add("decl", srcText(&cp), path)
				} else {
					add("decl", srcText(t), path)
				}
			case *ast.AssignStmt, *ast.IncDecStmt:
				kind := "assign"
				if as, ok := st.(*ast.AssignStmt); ok {
					for _, l := range as.Lhs {
						if id, ok := l.(*ast.Ident); ok && id.Name == "err" {
							kind = "assign-err" // the statement produces an error value
						}
					}
				}
				add(kind, srcText(st), path)
				lits(st, path)
			default:
				die(st.Pos(), "funcFlow: unsupported statement %T", st)
			}
		}
	}
	walk(fn.Body.List, nil)
	return rows
}

// flowsOf emits the statement lists of several functions as one definition
func flowsOf(repo, leanName, doc string, fns [][3]string) {
	var defs []string
	for _, fn := range fns {
		rows := funcFlowRows(repo, fn[0], fn[1], fn[2])
		nm := fn[2]
		if fn[1] != "" {
			nm = fn[1] + "." + fn[2]
		}
		defs = append(defs, fmt.Sprintf("  (%s, [\n  %s])", q(nm), strings.Join(rows, ",\n  ")))
	}
	fmt.Fprintf(&out, "/-- %s: (Type.method, every statement in source order as (kind, text, branch path)) -/\n", doc)
	fmt.Fprintf(&out, "def %s : List (String × List (String × String × List (String × String))) := [\n%s]\n\n", leanName, strings.Join(defs, ",\n"))
}

func otherFlows(repo string) {
	rf := "git/ref_filter.go"
	flowsOf(repo, "filterFlows", "the reference filter combinators of git/ref_filter.go", [][3]string{
		{rf, "inverse", "Filter"}, {rf, "intersection", "Filter"}, {rf, "union", "Filter"}, {rf, "include", "Combine"}, {rf, "exclude", "Combine"},
		{rf, "allReferencesFilter", "Filter"}, {rf, "noReferencesFilter", "Filter"}, {rf, "", "PrefixFilter"}, {rf, "", "RegexpFilter"}, {rf, "regexpFilter", "Filter"}})
	rg := "internal/refopts/ref_group.go"
	flowsOf(repo, "groupFlows", "refGroup.collectSymbols and augmentFromConfig of internal/refopts/ref_group.go", [][3]string{
		{rg, "refGroup", "collectSymbols"}, {rg, "refGroup", "augmentFromConfig"}})
	flowsOf(repo, "footnoteFlows", "sizes/footnotes.go", [][3]string{
		{"sizes/footnotes.go", "Footnotes", "CreateCitation"}, {"sizes/footnotes.go", "Footnotes", "String"}})
	gg := "git/git.go"
	flowsOf(repo, "repoFlows", "repository discovery and command construction of git/git.go", [][3]string{
		{gg, "", "smartJoin"}, {gg, "", "NewRepositoryFromGitDir"}, {gg, "", "NewRepositoryFromPath"}, {gg, "Repository", "IsFull"},
		{gg, "Repository", "GitCommand"}, {gg, "Repository", "GitPath"}})
	flowsOf(repo, "meterFlows", "the progress meter of meter/meter.go", [][3]string{
		{"meter/meter.go", "progressMeter", "Start"}, {"meter/meter.go", "progressMeter", "Inc"}, {"meter/meter.go", "progressMeter", "Add"}, {"meter/meter.go", "progressMeter", "Done"}})
}

func exprName(x ast.Expr) string {
	if id, ok := x.(*ast.Ident); ok {
		return id.Name
	}
	return ""
}

// pipelineStages lists, per iterator file, the stages handed to `pipe.Pipeline.Add` in order:
// (file, [(constructor, stage name)])
func pipelineStages(repo string) {
	var rows []string
	for _, rel := range []string{"git/obj_iter.go", "git/batch_obj_iter.go", "git/ref_iter.go"} {
		f := parse(filepath.Join(repo, rel))
		var stages []string
		ast.Inspect(f, func(n ast.Node) bool {
			c, ok := n.(*ast.CallExpr)
			if !ok {
				return true
			}
			sel, ok := c.Fun.(*ast.SelectorExpr)
			if !ok || exprName(sel.X) != "pipe" || len(c.Args) == 0 {
				return true
			}
			switch sel.Sel.Name {
			case "Function", "CommandStage", "LinewiseFunction", "Command":
				if isStrLit(c.Args[0]) {
					stages = append(stages, fmt.Sprintf("(%s, %s)", q(sel.Sel.Name), q(strLit(c.Args[0]))))
				}
			}
			return true
		})
		rows = append(rows, fmt.Sprintf("  (%s, [%s])", q(rel), strings.Join(stages, ", ")))
	}
	out.WriteString("/-- the stages of the three subprocess pipelines, in order: (file, [(constructor, name)]) -/\n")
	out.WriteString("def pipelineStages : List (String × List (String × String)) := [\n" + strings.Join(rows, ",\n") + "]\n\n")
}

// meterLockTable classifies every simple statement of meter/meter.go's progressMeter methods by what it
// does to the shared state: "lock" / "unlock" / "defer-unlock" of p.lock, "atomic" (touches p.count through
// sync/atomic only), "access" (mentions any other field of p), "return", "go" (start of the ticker
// goroutine), "other"; with the fields mentioned and the branch path. The lock-discipline theorem of C17
// is a decidable property of this table.
func meterLockTable(repo string) {
	f := parse(filepath.Join(repo, "meter/meter.go"))
	var defs []string
	for _, d := range f.Decls {
		fd, ok := d.(*ast.FuncDecl)
		if !ok || fd.Recv == nil || len(fd.Recv.List) != 1 || len(fd.Recv.List[0].Names) != 1 {
			continue
		}
		t := fd.Recv.List[0].Type
		if st, ok := t.(*ast.StarExpr); ok {
			t = st.X
		}
		if exprName(t) != "progressMeter" {
			continue
		}
		recv := fd.Recv.List[0].Names[0].Name
		var rows []string
		counter := 0
		ext := func(path []string, c string) []string { return append(append([]string{}, path...), c) }
		add := func(kind string, fields []string, path []string) {
			var comps []string
			for _, c := range path {
				kv := strings.SplitN(c, ":", 2)
				comps = append(comps, fmt.Sprintf("(%s, %s)", q(kv[0]), q(kv[1])))
			}
			var fs []string
			for _, x := range fields {
				fs = append(fs, q(x))
			}
			rows = append(rows, fmt.Sprintf("(%s, [%s], [%s])", q(kind), strings.Join(fs, ", "), strings.Join(comps, ", ")))
		}
		// fields of the receiver mentioned in a node (function literals excluded), and whether p.count
		// occurs anywhere else than as &p.count inside a call of package atomic
		mentions := func(n ast.Node) (fields []string, atomicOnly bool) {
			atomicOnly = true
			seen := map[string]bool{}
			var visit func(n ast.Node, inAtomic bool)
			visit = func(n ast.Node, inAtomic bool) {
				ast.Inspect(n, func(m ast.Node) bool {
					if m == nil {
						return false
					}
					if _, ok := m.(*ast.FuncLit); ok {
						return false
					}
					if c, ok := m.(*ast.CallExpr); ok {
						if sel, ok := c.Fun.(*ast.SelectorExpr); ok && exprName(sel.X) == "atomic" {
							for _, a := range c.Args {
								visit(a, true)
							}
							return false
						}
					}
					if sel, ok := m.(*ast.SelectorExpr); ok && exprName(sel.X) == recv {
						if !seen[sel.Sel.Name] {
							seen[sel.Sel.Name] = true
							fields = append(fields, sel.Sel.Name)
						}
						if sel.Sel.Name == "count" && !inAtomic {
							atomicOnly = false
						}
					}
					return true
				})
			}
			visit(n, false)
			return
		}
		classify := func(st ast.Stmt, path []string, deferred bool) {
			text := srcText(st)
			lockCall := recv + ".lock.Lock()"
			unlockCall := recv + ".lock.Unlock()"
			fields, atomicOnly := mentions(st)
			switch {
			case text == lockCall:
				add("lock", nil, path)
			case text == unlockCall:
				add("unlock", nil, path)
			case deferred && text == "defer "+unlockCall:
				add("defer-unlock", nil, path)
			default:
				onlyCount := len(fields) == 1 && fields[0] == "count"
				switch {
				case len(fields) == 0:
					add("other", nil, path)
				case onlyCount && atomicOnly:
					add("atomic", fields, path)
				default:
					if !atomicOnly {
						fields = append(fields, "count!") // p.count outside sync/atomic
					}
					add("access", fields, path)
				}
			}
		}
		var walk func(stmts []ast.Stmt, path []string)
		walk = func(stmts []ast.Stmt, path []string) {
			for _, st := range stmts {
				switch t := st.(type) {
				case *ast.ReturnStmt:
					fields, _ := mentions(t)
					if len(fields) > 0 {
						add("access", fields, path)
					}
					add("return", nil, path)
				case *ast.IfStmt:
					counter++
					k := counter
					fields, atomicOnly := mentions(t.Cond)
					if len(fields) > 0 {
						if !atomicOnly {
							fields = append(fields, "count!")
						}
						add("access", fields, path)
					}
					walk(t.Body.List, ext(path, fmt.Sprintf("i%d:t", k)))
					if eb, ok := t.Else.(*ast.BlockStmt); ok {
						walk(eb.List, ext(path, fmt.Sprintf("i%d:e", k)))
					} else if t.Else != nil {
						die(t.Pos(), "meterLockTable: else-if")
					}
				case *ast.ForStmt:
					counter++
					if t.Init != nil || t.Cond != nil || t.Post != nil {
						die(t.Pos(), "meterLockTable: loop with a header")
					}
					walk(t.Body.List, ext(path, fmt.Sprintf("f%d:loop", counter)))
				case *ast.GoStmt:
					fl, ok := t.Call.Fun.(*ast.FuncLit)
					if !ok {
						die(t.Pos(), "meterLockTable: go of a non-literal")
					}
					counter++
					add("go", nil, path)
					walk(fl.Body.List, ext(path, fmt.Sprintf("g%d:go", counter)))
				case *ast.DeferStmt:
					classify(st, path, true)
				case *ast.BlockStmt:
					walk(t.List, path)
				case *ast.ExprStmt, *ast.AssignStmt, *ast.IncDecStmt, *ast.DeclStmt, *ast.SendStmt:
					classify(st, path, false)
				default:
					die(st.Pos(), "meterLockTable: unsupported statement %T", st)
				}
			}
		}
		walk(fd.Body.List, nil)
		defs = append(defs, fmt.Sprintf("  (%s, [\n    %s])", q(fd.Name.Name), strings.Join(rows, ",\n    ")))
	}
	out.WriteString("/-- progressMeter's methods: what each statement does to the shared state (kind, fields of the receiver it mentions, branch path) -/\n")
	out.WriteString("def meterLockTable : List (String × List (String × List String × List (String × String))) := [\n" + strings.Join(defs, ",\n") + "]\n\n")
}

// graphFlows: the statement lists of the aggregator core of sizes/graph.go, one per function
func graphFlows(repo string) {
	fns := [][2]string{{"Graph", "RegisterBlob"}, {"Graph", "RegisterTree"}, {"treeRecord", "initialize"}, {"treeRecord", "maybeFinalize"},
		{"Graph", "finalizeTreeSize"}, {"Graph", "RequireTreeSize"}, {"Graph", "GetTreeSize"}, {"Graph", "GetBlobSize"},
		{"Graph", "RegisterCommit"}, {"Graph", "GetCommitSize"},
		{"Graph", "RegisterTag"}, {"tagRecord", "initialize"}, {"tagRecord", "maybeFinalize"}, {"Graph", "finalizeTagSize"}, {"Graph", "RequireTagSize"},
		{"Graph", "RegisterReference"}, {"Graph", "HistorySize"}}
	var defs []string
	for _, fn := range fns {
		rows := funcFlowRows(repo, "sizes/graph.go", fn[0], fn[1])
		defs = append(defs, fmt.Sprintf("  (%s, [\n  %s])", q(fn[0]+"."+fn[1]), strings.Join(rows, ",\n  ")))
	}
	out.WriteString("/-- the aggregator core of sizes/graph.go: (Type.method, every statement in source order as (kind, text, branch path)) -/\n")
	out.WriteString("def graphFlows : List (String × List (String × String × List (String × String))) := [\n" + strings.Join(defs, ",\n") + "]\n\n")
}

func main() {
	if len(os.Args) != 3 {
		fmt.Fprintln(os.Stderr, "usage: gofacts <repo> <outdir>")
		os.Exit(2)
	}
	repo, outdir := os.Args[1], os.Args[2]
	out.WriteString("-- GENERATED by tools/gofacts from counts/human.go, sizes/output.go, internal/refopts, git-sizer.go — do not edit\nnamespace Gen.Tables\n\n")
	prefixes(repo)
	outputTables(repo)
	refopts(repo)
	mainOptions(repo)
	out.WriteString("end Gen.Tables\n")
	os.MkdirAll(outdir, 0o755)
	if err := os.WriteFile(filepath.Join(outdir, "Tables.lean"), []byte(out.String()), 0o644); err != nil {
		panic(err)
	}
	out.Reset()
	out.WriteString("-- GENERATED by tools/gofacts from every non-test Go file of the repository — do not edit\nnamespace Gen.Cmds\n\n")
	commandSites(repo)
	closeSites(repo)
	scanPhases(repo)
	resolverSites(repo)
	mainFlow(repo)
	pipelineStages(repo)
	meterLockTable(repo)
	graphFlows(repo)
	otherFlows(repo)
	funcFlow(repo, "sizes/graph.go", "", "ScanRepositoryUsingGraph", "scanFlow", "sizes.ScanRepositoryUsingGraph, EVERY statement in source order: (kind, text, branch path)")
	out.WriteString("end Gen.Cmds\n")
	if err := os.WriteFile(filepath.Join(outdir, "Cmds.lean"), []byte(out.String()), 0o644); err != nil {
		panic(err)
	}
	// every statement of every function of the files whose behaviour is modelled by hand
	out.Reset()
	out.WriteString("-- GENERATED by tools/gofacts: every statement of every function of the listed source files — do not edit\nnamespace Gen.Flows\n\n")
	for _, ff := range flowFiles {
		fileFlows(repo, ff[0], ff[1])
	}
	out.WriteString("end Gen.Flows\n")
	if err := os.WriteFile(filepath.Join(outdir, "Flows.lean"), []byte(out.String()), 0o644); err != nil {
		panic(err)
	}
}

var flowFiles = [][2]string{
	{"gitconfig", "git/gitconfig.go"}, {"output", "sizes/output.go"}, {"pathResolver", "sizes/path_resolver.go"},
	{"refGroupBuilder", "internal/refopts/ref_group_builder.go"}, {"filterValue", "internal/refopts/filter_value.go"},
	{"filterGroupValue", "internal/refopts/filter_group_value.go"}, {"showRefGrouper", "internal/refopts/show_ref_grouper.go"},
	{"negatedBool", "negated_bool_value.go"}, {"mainFile", "git-sizer.go"}, {"human", "counts/human.go"},
	{"objIter", "git/obj_iter.go"}, {"batchObjIter", "git/batch_obj_iter.go"}, {"refIter", "git/ref_iter.go"},
	{"grouper", "sizes/grouper.go"}, {"explicitRoot", "sizes/explicit_root.go"}, {"objResolver", "git/obj_resolver.go"},
	{"gitBin", "git/git_bin.go"}, {"oid", "git/oid.go"},
	// the files that also have a translator or a more specific statement list: pinned as a whole too,
	// so that functions and declarations outside the translated part cannot change unnoticed
	{"graph", "sizes/graph.go"}, {"sizesFile", "sizes/sizes.go"}, {"countsFile", "counts/counts.go"}, {"meterFile", "meter/meter.go"},
	{"refFilter", "git/ref_filter.go"}, {"refGroup", "internal/refopts/ref_group.go"}, {"footnotes", "sizes/footnotes.go"},
	{"gitFile", "git/git.go"}, {"tree", "git/tree.go"}, {"commit", "git/commit.go"}, {"tag", "git/tag.go"},
	{"objHeadIter", "git/obj_head_iter.go"}, {"batchHeader", "git/batch_header.go"}, {"reference", "git/reference.go"},
	{"isattyEnabled", "isatty/isatty_enabled.go"}, {"isattyDisabled", "isatty/isatty_disabled.go"},
}
