// go2lean: a tiny Go-AST -> Lean 4 translator for the straight-line integer code of
// git-sizer (counts/counts.go and the add*/record* methods of sizes/sizes.go).
//
// Supported subset (anything else makes the translator exit non-zero, which the check
// reports as a broken proof obligation):
//   - named unsigned integer types Count32/Count64 (BitVec 32/64), uint32/uint64, bool
//   - locals bound with :=, assignment through a pointer receiver (*n1 = e)
//   - +, comparisons, if/else, early return
//   - method calls on counter values and on counter fields of the receiver
//   - conversions between the integer types, NewCount32, uint64(len(s)), math.MaxUint32/64
//   - setPath(pr, &s.F, oid, kind) is abstracted to the witness assignment  s.F := some oid
//
// Output: one Lean `def` per Go function, same names, in namespace Gen; a pointer receiver
// is returned as a value, paired with the declared results if there are any.
package main

import (
	"fmt"
	"go/ast"
	"go/parser"
	"go/token"
	"os"
	"path/filepath"
	"sort"
	"strings"
)

type typ struct {
	kind  string // "bv", "nat", "bool", "struct", "bytes", "oid", "skip", "optoid"
	width int
	name  string
}

func (t typ) lean() string {
	switch t.kind {
	case "bv":
		return fmt.Sprintf("BitVec %d", t.width)
	case "nat":
		return "Nat"
	case "bool":
		return "Bool"
	case "struct":
		return t.name
	case "bytes":
		return "List UInt8"
	case "oid":
		return "Nat"
	case "optoid":
		return "Option Nat"
	}
	return "Unit"
}

type funcInfo struct {
	name    string // Lean name without namespace prefix, e.g. Count32.Plus
	recv    *typ
	ptrRecv bool
	params  []typ
	results []typ
}

type structInfo struct {
	name   string
	fields []string
	ftypes map[string]typ
	tags   map[string]string
}

var (
	fset    = token.NewFileSet()
	funcs   = map[string]*funcInfo{} // key: "Recv.Method" or "Func"
	structs = map[string]*structInfo{}
	out     strings.Builder
)

func die(pos token.Pos, format string, a ...interface{}) {
	fmt.Fprintf(os.Stderr, "go2lean: %s: unsupported: %s\n", fset.Position(pos), fmt.Sprintf(format, a...))
	os.Exit(2)
}

func typeOfExpr(e ast.Expr) typ {
	switch t := e.(type) {
	case *ast.Ident:
		switch t.Name {
		case "Count32", "uint32":
			return typ{kind: "bv", width: 32}
		case "Count64", "uint64":
			return typ{kind: "bv", width: 64}
		case "bool":
			return typ{kind: "bool"}
		case "string":
			return typ{kind: "bytes"}
		case "int":
			return typ{kind: "nat"}
		}
		if _, ok := structs[t.Name]; ok {
			return typ{kind: "struct", name: t.Name}
		}
		return typ{kind: "skip", name: t.Name}
	case *ast.SelectorExpr:
		if x, ok := t.X.(*ast.Ident); ok {
			switch x.Name + "." + t.Sel.Name {
			case "counts.Count32":
				return typ{kind: "bv", width: 32}
			case "counts.Count64":
				return typ{kind: "bv", width: 64}
			case "git.OID":
				return typ{kind: "oid"}
			}
		}
		return typ{kind: "skip"}
	case *ast.StarExpr:
		if id, ok := t.X.(*ast.Ident); ok && id.Name == "Path" {
			return typ{kind: "optoid"}
		}
		return typ{kind: "skip"}
	}
	return typ{kind: "skip"}
}

// ---------------------------------------------------------------- expression translation

type env struct {
	vars     map[string]typ
	recvName string
	fn       *funcInfo
}

func (e *env) typeOf(x ast.Expr) typ {
	switch t := x.(type) {
	case *ast.ParenExpr:
		return e.typeOf(t.X)
	case *ast.Ident:
		if v, ok := e.vars[t.Name]; ok {
			return v
		}
		if t.Name == "true" || t.Name == "false" {
			return typ{kind: "bool"}
		}
		die(t.Pos(), "unknown identifier %s", t.Name)
	case *ast.StarExpr:
		return e.typeOf(t.X)
	case *ast.BasicLit:
		return typ{kind: "lit"}
	case *ast.SelectorExpr:
		if id, ok := t.X.(*ast.Ident); ok && id.Name == "math" {
			return typ{kind: "lit"}
		}
		bt := e.typeOf(t.X)
		if bt.kind == "struct" {
			si := structs[bt.name]
			if ft, ok := si.ftypes[t.Sel.Name]; ok {
				return ft
			}
		}
		die(t.Pos(), "selector %s", t.Sel.Name)
	case *ast.BinaryExpr:
		switch t.Op {
		case token.ADD, token.SUB:
			lt := e.typeOf(t.X)
			if lt.kind == "lit" {
				return e.typeOf(t.Y)
			}
			return lt
		case token.LSS, token.LEQ, token.GTR, token.GEQ, token.EQL, token.NEQ, token.LAND, token.LOR:
			return typ{kind: "bool"}
		}
		die(t.Pos(), "operator %s", t.Op)
	case *ast.UnaryExpr:
		if t.Op == token.NOT {
			return typ{kind: "bool"}
		}
	case *ast.CallExpr:
		if conv, ok := e.conversionTarget(t); ok {
			return conv
		}
		fi, _, _ := e.resolveCall(t)
		if fi != nil {
			if len(fi.results) == 1 && !fi.ptrRecv {
				return fi.results[0]
			}
			die(t.Pos(), "call with %d results used as a value", len(fi.results))
		}
	}
	die(x.Pos(), "expression %T", x)
	return typ{}
}

func (e *env) conversionTarget(c *ast.CallExpr) (typ, bool) {
	if len(c.Args) != 1 {
		return typ{}, false
	}
	tt := typeOfExpr(c.Fun)
	if tt.kind == "bv" {
		return tt, true
	}
	return typ{}, false
}

// resolveCall returns the callee's info, the receiver expression (or nil), and the key.
func (e *env) resolveCall(c *ast.CallExpr) (*funcInfo, ast.Expr, string) {
	switch f := c.Fun.(type) {
	case *ast.Ident:
		if fi, ok := funcs[f.Name]; ok {
			return fi, nil, f.Name
		}
	case *ast.SelectorExpr:
		if id, ok := f.X.(*ast.Ident); ok && id.Name == "counts" {
			if fi, ok := funcs[f.Sel.Name]; ok {
				return fi, nil, f.Sel.Name
			}
			die(c.Pos(), "unknown function counts.%s", f.Sel.Name)
		}
		rt := e.typeOf(f.X)
		key := ""
		switch rt.kind {
		case "bv":
			key = fmt.Sprintf("Count%d.%s", rt.width, f.Sel.Name)
		case "struct":
			key = rt.name + "." + f.Sel.Name
		}
		if fi, ok := funcs[key]; ok {
			return fi, f.X, key
		}
		die(c.Pos(), "unknown method %s", key)
	}
	return nil, nil, ""
}

func lit(v string, w int) string { return fmt.Sprintf("%s#%d", v, w) }

// expr translates x; want is the expected type for untyped constants.
func (e *env) expr(x ast.Expr, want typ) string {
	switch t := x.(type) {
	case *ast.ParenExpr:
		return e.expr(t.X, want)
	case *ast.Ident:
		if t.Name == "true" || t.Name == "false" {
			return t.Name
		}
		if _, ok := e.vars[t.Name]; ok {
			return t.Name
		}
		die(t.Pos(), "unknown identifier %s", t.Name)
	case *ast.StarExpr:
		return e.expr(t.X, want)
	case *ast.BasicLit:
		if t.Kind != token.INT {
			die(t.Pos(), "literal %s", t.Value)
		}
		if want.kind == "bv" {
			return lit(t.Value, want.width)
		}
		if want.kind == "nat" {
			return t.Value
		}
		die(t.Pos(), "untyped constant %s in unknown context", t.Value)
	case *ast.SelectorExpr:
		if id, ok := t.X.(*ast.Ident); ok && id.Name == "math" {
			var v string
			switch t.Sel.Name {
			case "MaxUint32":
				v = "4294967295"
			case "MaxUint64":
				v = "18446744073709551615"
			default:
				die(t.Pos(), "math.%s", t.Sel.Name)
			}
			if want.kind != "bv" {
				die(t.Pos(), "math.%s in unknown context", t.Sel.Name)
			}
			return lit(v, want.width)
		}
		return e.expr(t.X, typ{}) + "." + t.Sel.Name
	case *ast.UnaryExpr:
		if t.Op == token.NOT {
			return "(!" + e.expr(t.X, typ{kind: "bool"}) + ")"
		}
		die(t.Pos(), "unary %s", t.Op)
	case *ast.BinaryExpr:
		lt, rt := e.typeOf(t.X), e.typeOf(t.Y)
		ot := lt
		if lt.kind == "lit" {
			ot = rt
		}
		if ot.kind == "lit" {
			ot = want
		}
		l, r := e.expr(t.X, ot), e.expr(t.Y, ot)
		switch t.Op {
		case token.ADD:
			return "(" + l + " + " + r + ")"
		case token.SUB:
			return "(" + l + " - " + r + ")" // modular, as in Go
		case token.LSS:
			return "decide (" + l + " < " + r + ")"
		case token.LEQ:
			return "decide (" + l + " ≤ " + r + ")"
		case token.GTR:
			return "decide (" + l + " > " + r + ")"
		case token.GEQ:
			return "decide (" + l + " ≥ " + r + ")"
		case token.EQL:
			return "decide (" + l + " = " + r + ")"
		case token.NEQ:
			return "decide (" + l + " ≠ " + r + ")"
		case token.LAND:
			return "(" + l + " && " + r + ")"
		case token.LOR:
			return "(" + l + " || " + r + ")"
		}
		die(t.Pos(), "operator %s", t.Op)
	case *ast.CallExpr:
		if tt, ok := e.conversionTarget(t); ok {
			arg := t.Args[0]
			// uint64(len(x))
			if c2, ok := arg.(*ast.CallExpr); ok {
				if id, ok := c2.Fun.(*ast.Ident); ok && id.Name == "len" && len(c2.Args) == 1 {
					return fmt.Sprintf("(BitVec.ofNat %d (%s).length)", tt.width, e.expr(c2.Args[0], typ{}))
				}
			}
			at := e.typeOf(arg)
			if at.kind == "lit" {
				return e.expr(arg, tt)
			}
			if at.kind != "bv" {
				die(t.Pos(), "conversion from %s", at.kind)
			}
			if at.width == tt.width {
				return e.expr(arg, tt)
			}
			return fmt.Sprintf("(BitVec.setWidth %d %s)", tt.width, e.expr(arg, at))
		}
		fi, recv, _ := e.resolveCall(t)
		if fi == nil {
			die(t.Pos(), "call")
		}
		if fi.ptrRecv {
			die(t.Pos(), "pointer-receiver method %s used as a value", fi.name)
		}
		if len(fi.results) != 1 && !(len(fi.results) == 2) {
			die(t.Pos(), "call to %s with %d results", fi.name, len(fi.results))
		}
		return "(" + e.callText(fi, recv, t.Args) + ")"
	}
	die(x.Pos(), "expression %T", x)
	return ""
}

func (e *env) callText(fi *funcInfo, recv ast.Expr, args []ast.Expr) string {
	parts := []string{"Gen." + fi.name}
	if recv != nil {
		parts = append(parts, e.atom(recv, *fi.recv))
	}
	if len(args) != len(fi.params) {
		die(args[0].Pos(), "argument count for %s", fi.name)
	}
	for i, a := range args {
		if fi.params[i].kind == "skip" {
			continue
		}
		parts = append(parts, e.atom(a, fi.params[i]))
	}
	return strings.Join(parts, " ")
}

func (e *env) atom(x ast.Expr, want typ) string {
	s := e.expr(x, want)
	if strings.ContainsAny(s, " ") && !strings.HasPrefix(s, "(") {
		return "(" + s + ")"
	}
	return s
}

// ---------------------------------------------------------------- statements

// lvalue path like s.F (receiver field) or n1 (the receiver itself)
func (e *env) lvalue(x ast.Expr) (root string, field string) {
	switch t := x.(type) {
	case *ast.Ident:
		return t.Name, ""
	case *ast.StarExpr:
		return e.lvalue(t.X)
	case *ast.SelectorExpr:
		if id, ok := t.X.(*ast.Ident); ok {
			return id.Name, t.Sel.Name
		}
	}
	die(x.Pos(), "lvalue")
	return "", ""
}

func (e *env) assign(root, field, val string) string {
	if field == "" {
		return fmt.Sprintf("let %s := %s", root, val)
	}
	return fmt.Sprintf("let %s := { %s with %s := %s }", root, root, field, val)
}

var tmpCounter int

func fresh() string { tmpCounter++; return fmt.Sprintf("r%d", tmpCounter) }

// effectCall translates a call to a pointer-receiver method on an lvalue. It returns the
// let-lines that perform the update and the Lean expression of the boolean/other result.
func (e *env) effectCall(c *ast.CallExpr, ind string) (lines []string, result string) {
	// setPath(pr, &s.F, oid, kind)
	if id, ok := c.Fun.(*ast.Ident); ok && id.Name == "setPath" {
		if len(c.Args) != 4 {
			die(c.Pos(), "setPath arity")
		}
		u, ok := c.Args[1].(*ast.UnaryExpr)
		if !ok || u.Op != token.AND {
			die(c.Pos(), "setPath target")
		}
		root, field := e.lvalue(u.X)
		return []string{ind + e.assign(root, field, "some "+e.atom(c.Args[2], typ{kind: "oid"}))}, ""
	}
	fi, recv, _ := e.resolveCall(c)
	if fi == nil {
		die(c.Pos(), "statement call")
	}
	if !fi.ptrRecv {
		// value call for its result only
		return nil, e.expr(c, typ{})
	}
	root, field := e.lvalue(recv)
	call := e.callText(fi, recv, c.Args)
	if len(fi.results) == 0 {
		return []string{ind + e.assign(root, field, "("+call+")")}, ""
	}
	r := fresh()
	return []string{
		ind + fmt.Sprintf("let %s := %s", r, call),
		ind + e.assign(root, field, r+".1"),
	}, r + ".2"
}

func assignedVars(stmts []ast.Stmt, e *env, set map[string]bool) {
	for _, s := range stmts {
		switch t := s.(type) {
		case *ast.AssignStmt:
			for _, l := range t.Lhs {
				root, _ := e.lvalue(l)
				if t.Tok == token.ASSIGN {
					set[root] = true
				}
			}
		case *ast.ExprStmt:
			if c, ok := t.X.(*ast.CallExpr); ok {
				if id, ok := c.Fun.(*ast.Ident); ok && id.Name == "setPath" {
					if u, ok := c.Args[1].(*ast.UnaryExpr); ok {
						root, _ := e.lvalue(u.X)
						set[root] = true
					}
					continue
				}
				fi, recv, _ := e.resolveCall(c)
				if fi != nil && fi.ptrRecv {
					root, _ := e.lvalue(recv)
					set[root] = true
				}
			}
		case *ast.IfStmt:
			assignedVars(t.Body.List, e, set)
			if t.Else != nil {
				if b, ok := t.Else.(*ast.BlockStmt); ok {
					assignedVars(b.List, e, set)
				} else {
					assignedVars([]ast.Stmt{t.Else}, e, set)
				}
			}
			if c, ok := t.Cond.(*ast.CallExpr); ok {
				fi, recv, _ := e.resolveCall(c)
				if fi != nil && fi.ptrRecv {
					root, _ := e.lvalue(recv)
					set[root] = true
				}
			}
		}
	}
}

func terminates(stmts []ast.Stmt) bool {
	if len(stmts) == 0 {
		return false
	}
	switch t := stmts[len(stmts)-1].(type) {
	case *ast.ReturnStmt:
		return true
	case *ast.IfStmt:
		if t.Else == nil {
			return false
		}
		eb, ok := t.Else.(*ast.BlockStmt)
		return ok && terminates(t.Body.List) && terminates(eb.List)
	}
	return false
}

func (e *env) retValue(results []ast.Expr, pos token.Pos) string {
	var parts []string
	if e.fn.ptrRecv {
		parts = append(parts, e.recvName)
	}
	if len(results) != len(e.fn.results) {
		die(pos, "return arity")
	}
	for i, r := range results {
		parts = append(parts, e.expr(r, e.fn.results[i]))
	}
	if len(parts) == 0 {
		return "()"
	}
	if len(parts) == 1 {
		return parts[0]
	}
	return "(" + strings.Join(parts, ", ") + ")"
}

// block translates stmts followed by the continuation `tail` (a Lean expression producing
// the value of the enclosing construct when control falls off the end of stmts).
func (e *env) block(stmts []ast.Stmt, tail string, ind string) string {
	var b strings.Builder
	for i, s := range stmts {
		switch t := s.(type) {
		case *ast.ReturnStmt:
			b.WriteString(ind + e.retValue(t.Results, t.Pos()) + "\n")
			return b.String()
		case *ast.AssignStmt:
			if len(t.Lhs) != 1 || len(t.Rhs) != 1 {
				die(t.Pos(), "multi-assignment")
			}
			root, field := e.lvalue(t.Lhs[0])
			if t.Tok == token.DEFINE {
				ty := e.typeOf(t.Rhs[0])
				if ty.kind == "lit" {
					die(t.Pos(), "untyped constant definition")
				}
				e.vars[root] = ty
				b.WriteString(ind + fmt.Sprintf("let %s := %s\n", root, e.expr(t.Rhs[0], ty)))
			} else if t.Tok == token.ASSIGN {
				var ty typ
				if field == "" {
					ty = e.vars[root]
				} else {
					ty = structs[e.vars[root].name].ftypes[field]
				}
				b.WriteString(ind + e.assign(root, field, e.expr(t.Rhs[0], ty)) + "\n")
			} else {
				die(t.Pos(), "assignment operator %s", t.Tok)
			}
		case *ast.ExprStmt:
			c, ok := t.X.(*ast.CallExpr)
			if !ok {
				die(t.Pos(), "expression statement")
			}
			lines, _ := e.effectCall(c, ind)
			for _, l := range lines {
				b.WriteString(l + "\n")
			}
		case *ast.IfStmt:
			if t.Init != nil {
				die(t.Pos(), "if with init")
			}
			cond := ""
			if c, ok := t.Cond.(*ast.CallExpr); ok {
				if _, isConv := e.conversionTarget(c); !isConv {
					lines, res := e.effectCall(c, ind)
					for _, l := range lines {
						b.WriteString(l + "\n")
					}
					cond = res
				}
			}
			if cond == "" {
				cond = e.expr(t.Cond, typ{kind: "bool"})
			}
			var elseStmts []ast.Stmt
			if t.Else != nil {
				if eb, ok := t.Else.(*ast.BlockStmt); ok {
					elseStmts = eb.List
				} else {
					elseStmts = []ast.Stmt{t.Else}
				}
			}
			rest := stmts[i+1:]
			if terminates(t.Body.List) {
				// if c { ...return } else-part; rest
				b.WriteString(ind + "if " + cond + " then\n")
				b.WriteString(e.block(t.Body.List, "", ind+"  "))
				b.WriteString(ind + "else\n")
				b.WriteString(e.block(append(append([]ast.Stmt{}, elseStmts...), rest...), tail, ind+"  "))
				return b.String()
			}
			if terminates(elseStmts) {
				b.WriteString(ind + "if " + cond + " then\n")
				b.WriteString(e.block(append(append([]ast.Stmt{}, t.Body.List...), rest...), tail, ind+"  "))
				b.WriteString(ind + "else\n")
				b.WriteString(e.block(elseStmts, "", ind+"  "))
				return b.String()
			}
			// no branch returns: join on the assigned variables
			set := map[string]bool{}
			assignedVars(t.Body.List, e, set)
			assignedVars(elseStmts, e, set)
			var vs []string
			for v := range set {
				vs = append(vs, v)
			}
			sort.Strings(vs)
			if len(vs) == 0 {
				continue
			}
			tup := vs[0]
			if len(vs) > 1 {
				tup = "(" + strings.Join(vs, ", ") + ")"
			}
			saved := map[string]typ{}
			for k, v := range e.vars {
				saved[k] = v
			}
			b.WriteString(ind + "let " + tup + " := if " + cond + " then\n")
			b.WriteString(e.block(t.Body.List, tup, ind+"    "))
			b.WriteString(ind + "  else\n")
			b.WriteString(e.block(elseStmts, tup, ind+"    "))
			e.vars = saved
		default:
			die(s.Pos(), "statement %T", s)
		}
	}
	if tail == "" {
		// falling off the end of the function body
		b.WriteString(ind + e.retValue(nil, token.NoPos) + "\n")
	} else {
		b.WriteString(ind + tail + "\n")
	}
	return b.String()
}

// ---------------------------------------------------------------- declarations

func recvOf(fd *ast.FuncDecl) (name string, t typ, ptr bool) {
	if fd.Recv == nil || len(fd.Recv.List) == 0 {
		return "", typ{}, false
	}
	f := fd.Recv.List[0]
	if len(f.Names) > 0 {
		name = f.Names[0].Name
	} else {
		name = "self"
	}
	te := f.Type
	if s, ok := te.(*ast.StarExpr); ok {
		ptr = true
		te = s.X
	}
	return name, typeOfExpr(te), ptr
}

func leanTypeName(t typ) string {
	if t.kind == "bv" {
		return fmt.Sprintf("Count%d", t.width)
	}
	return t.name
}

func declare(fd *ast.FuncDecl) *funcInfo {
	fi := &funcInfo{}
	_, rt, ptr := recvOf(fd)
	if fd.Recv != nil {
		fi.recv = &rt
		fi.ptrRecv = ptr
		fi.name = leanTypeName(rt) + "." + fd.Name.Name
	} else {
		fi.name = fd.Name.Name
	}
	for _, p := range fd.Type.Params.List {
		t := typeOfExpr(p.Type)
		n := len(p.Names)
		if n == 0 {
			n = 1
		}
		for i := 0; i < n; i++ {
			fi.params = append(fi.params, t)
		}
	}
	if fd.Type.Results != nil {
		for _, p := range fd.Type.Results.List {
			t := typeOfExpr(p.Type)
			if t.kind == "skip" {
				die(p.Pos(), "result type")
			}
			n := len(p.Names)
			if n == 0 {
				n = 1
			}
			for i := 0; i < n; i++ {
				fi.results = append(fi.results, t)
			}
		}
	}
	funcs[fi.name] = fi
	return fi
}

func emitFunc(fd *ast.FuncDecl) {
	fi := funcs[funcKey(fd)]
	e := &env{vars: map[string]typ{}, fn: fi}
	var sig []string
	if fd.Recv != nil {
		name, rt, _ := recvOf(fd)
		e.recvName = name
		e.vars[name] = rt
		sig = append(sig, fmt.Sprintf("(%s : %s)", name, rt.lean()))
	}
	for _, p := range fd.Type.Params.List {
		t := typeOfExpr(p.Type)
		for _, n := range p.Names {
			if t.kind == "skip" {
				continue
			}
			e.vars[n.Name] = t
			sig = append(sig, fmt.Sprintf("(%s : %s)", n.Name, t.lean()))
		}
	}
	var rts []string
	if fi.ptrRecv {
		rts = append(rts, fi.recv.lean())
	}
	for _, r := range fi.results {
		rts = append(rts, r.lean())
	}
	rt := "Unit"
	if len(rts) > 0 {
		rt = strings.Join(rts, " × ")
	}
	fmt.Fprintf(&out, "def %s %s : %s :=\n", fi.name, strings.Join(sig, " "), rt)
	out.WriteString(e.block(fd.Body.List, "", "  "))
	out.WriteString("\n")
}

func funcKey(fd *ast.FuncDecl) string {
	if fd.Recv != nil {
		_, rt, _ := recvOf(fd)
		return leanTypeName(rt) + "." + fd.Name.Name
	}
	return fd.Name.Name
}

func parse(path string) *ast.File {
	f, err := parser.ParseFile(fset, path, nil, parser.ParseComments)
	if err != nil {
		fmt.Fprintf(os.Stderr, "go2lean: %v\n", err)
		os.Exit(2)
	}
	return f
}

func collectStruct(ts *ast.TypeSpec) {
	st, ok := ts.Type.(*ast.StructType)
	if !ok {
		return
	}
	si := &structInfo{name: ts.Name.Name, ftypes: map[string]typ{}, tags: map[string]string{}}
	for _, f := range st.Fields.List {
		t := typeOfExpr(f.Type)
		for _, n := range f.Names {
			if t.kind == "skip" {
				continue
			}
			si.fields = append(si.fields, n.Name)
			si.ftypes[n.Name] = t
			if f.Tag != nil {
				si.tags[n.Name] = f.Tag.Value
			}
		}
	}
	structs[si.name] = si
}

func emitStruct(si *structInfo) {
	fmt.Fprintf(&out, "structure %s where\n", si.name)
	for _, f := range si.fields {
		t := si.ftypes[f]
		def := ""
		switch t.kind {
		case "bv":
			def = fmt.Sprintf(" := 0#%d", t.width)
		case "optoid":
			def = " := none"
		}
		fmt.Fprintf(&out, "  %s : %s%s\n", f, t.lean(), def)
	}
	out.WriteString("deriving DecidableEq, Repr\n\n")
}

func main() {
	if len(os.Args) != 3 {
		fmt.Fprintln(os.Stderr, "usage: go2lean <repo> <outdir>")
		os.Exit(2)
	}
	repo, outdir := os.Args[1], os.Args[2]

	// ---- counts/counts.go: every function
	cf := parse(filepath.Join(repo, "counts", "counts.go"))
	var countFuncs []*ast.FuncDecl
	for _, d := range cf.Decls {
		if fd, ok := d.(*ast.FuncDecl); ok {
			declare(fd)
			countFuncs = append(countFuncs, fd)
		}
	}
	out.WriteString("-- GENERATED by tools/go2lean from counts/counts.go — do not edit\nset_option linter.unusedVariables false\nnamespace Gen\n\n")
	for _, fd := range countFuncs {
		emitFunc(fd)
	}
	out.WriteString("end Gen\n")
	write(filepath.Join(outdir, "Counts.lean"), out.String())
	out.Reset()

	// ---- sizes/sizes.go: structs and the add*/record* methods
	sf := parse(filepath.Join(repo, "sizes", "sizes.go"))
	wantStructs := []string{"BlobSize", "TreeSize", "CommitSize", "TagSize", "HistorySize"}
	for _, d := range sf.Decls {
		if gd, ok := d.(*ast.GenDecl); ok && gd.Tok == token.TYPE {
			for _, s := range gd.Specs {
				collectStruct(s.(*ast.TypeSpec))
			}
		}
	}
	wantFuncs := map[string]bool{
		"TreeSize.addDescendent": true, "TreeSize.addBlob": true, "TreeSize.addLink": true,
		"TreeSize.addSubmodule": true, "CommitSize.addParent": true, "CommitSize.addTree": true,
		"HistorySize.recordBlob": true, "HistorySize.recordTree": true, "HistorySize.recordCommit": true,
		"HistorySize.recordTag": true, "HistorySize.recordReference": true,
	}
	var sizeFuncs []*ast.FuncDecl
	for _, d := range sf.Decls {
		if fd, ok := d.(*ast.FuncDecl); ok && wantFuncs[funcKey(fd)] {
			declare(fd)
			sizeFuncs = append(sizeFuncs, fd)
			delete(wantFuncs, funcKey(fd))
		}
	}
	if len(wantFuncs) != 0 {
		fmt.Fprintf(os.Stderr, "go2lean: functions missing from sizes/sizes.go: %v\n", wantFuncs)
		os.Exit(2)
	}
	out.WriteString("-- GENERATED by tools/go2lean from sizes/sizes.go — do not edit\nimport GitSizer.Gen.Counts\nset_option linter.unusedVariables false\nnamespace Gen\n\n")
	for _, n := range wantStructs {
		si, ok := structs[n]
		if !ok {
			fmt.Fprintf(os.Stderr, "go2lean: struct %s missing\n", n)
			os.Exit(2)
		}
		emitStruct(si)
	}
	for _, fd := range sizeFuncs {
		emitFunc(fd)
	}
	// JSON tags of the two structs that are marshalled directly (JSON v1)
	out.WriteString("/-- (Go field, json key) of every field of HistorySize carrying a json tag -/\n")
	out.WriteString("def historySizeJsonTags : List (String × String) := [\n")
	hs := structs["HistorySize"]
	var rows []string
	for _, f := range hs.fields {
		tag := hs.tags[f]
		key := ""
		if i := strings.Index(tag, `json:"`); i >= 0 {
			rest := tag[i+6:]
			if j := strings.IndexAny(rest, `",`); j >= 0 {
				key = rest[:j]
			}
		}
		rows = append(rows, fmt.Sprintf("  (%q, %q)", f, key))
	}
	out.WriteString(strings.Join(rows, ",\n") + "]\n\n")
	out.WriteString("/-- counter width (bits) of every numeric field of HistorySize -/\n")
	out.WriteString("def historySizeWidths : List (String × Nat) := [\n")
	var wrows []string
	for _, f := range hs.fields {
		if t := hs.ftypes[f]; t.kind == "bv" {
			wrows = append(wrows, fmt.Sprintf("  (%q, %d)", f, t.width))
		}
	}
	out.WriteString(strings.Join(wrows, ",\n") + "]\n\nend Gen\n")
	write(filepath.Join(outdir, "Sizes.lean"), out.String())
}

func write(path, s string) {
	if err := os.MkdirAll(filepath.Dir(path), 0o755); err != nil {
		panic(err)
	}
	if err := os.WriteFile(path, []byte(s), 0o644); err != nil {
		panic(err)
	}
}
