module verif/tools

go 1.17
