#!/bin/sh
# Build the framework from files on disk only (offline): Go tools, regenerated Lean modules,
# the whole Lean library (all theorems) and the native model driver.
set -e
cd "$(dirname "$0")"
export GOFLAGS=-mod=mod GOPROXY=off GOSUMDB=off GOTOOLCHAIN=local
mkdir -p build/bin evidence replays
(cd tools && go build -o ../build/bin/go2lean ./go2lean && go build -o ../build/bin/gofacts ./gofacts && go build -o ../build/bin/gostr2lean ./gostr2lean)
rm -rf lean/GitSizer/Gen && mkdir -p lean/GitSizer/Gen
build/bin/go2lean /repo lean/GitSizer/Gen || cp lean/gen_baseline/Counts.lean lean/gen_baseline/Sizes.lean lean/GitSizer/Gen/
build/bin/gofacts /repo lean/GitSizer/Gen || cp lean/gen_baseline/Tables.lean lean/gen_baseline/Cmds.lean lean/gen_baseline/Flows.lean lean/GitSizer/Gen/
build/bin/gostr2lean /repo lean/GitSizer/Gen strs || cp lean/gen_baseline/Strs.lean lean/GitSizer/Gen/
build/bin/gostr2lean /repo lean/GitSizer/Gen objs || cp lean/gen_baseline/Objs.lean lean/GitSizer/Gen/
(cd lean && lake build GitSizer gsmodel) || true
# warm the Go build cache for the driver and the binary
python3 harness/overlay.py build/overlay.json
V="$PWD"
(cd /repo && go build -tags verif -overlay "$V/build/overlay.json" -o "$V/build/bin/drv" ./internal/verifdrv && go build -o "$V/build/bin/git-sizer" . && CGO_ENABLED=1 go build -race -o "$V/build/bin/git-sizer-race" .) || true
echo setup done
