import GitSizer.Driver.Counts
import GitSizer.Driver.Human
import GitSizer.Driver.Parsers
import GitSizer.Driver.Config
import GitSizer.Driver.Refs
import GitSizer.Driver.Regex
import GitSizer.Driver.Graph
import GitSizer.Driver.Output
import GitSizer.Driver.Meter
import GitSizer.Driver.E2E
import GitSizer.Driver.Cli
import GitSizer.Driver.Paths
/-! `gsmodel`: reads case lines (engine TAB id TAB input… TAB => TAB observed…) on stdin and
    prints one verdict line per case: id TAB verdict… -/
open GitSizer.Driver

def engineOf (name : String) : Option Engine :=
  match name with
  | "counts" => some countsEngine
  | "human" => some humanEngine
  | "parsers" => some parsersEngine
  | "config" => some configEngine
  | "confige2e" => some configE2EEngine
  | "refs" => some refsEngine
  | "regex" => some regexEngine
  | "graph" => some graphEngine
  | "output" => some outputEngine
  | "meter" => some meterEngine
  | "e2e" => some e2eEngine
  | "opts" => some optsEngine
  | "addr" => some addrEngine
  | "rw" => some rwEngine
  | "fault" => some faultEngine
  | "paths" => some pathsEngine
  | "revspec" => some revspecEngine
  | _ => none

def splitCase (fields : List String) : List String × List String :=
  let inp := fields.takeWhile (· != "=>")
  let obs := (fields.dropWhile (· != "=>")).drop 1
  (inp, obs)

partial def loop (h : IO.FS.Stream) (out : IO.FS.Stream) : IO Unit := do
  let line ← h.getLine
  if line.isEmpty then return ()
  let line := if line.endsWith "\n" then (line.dropEnd 1).toString else line
  if line.isEmpty then loop h out else
  match line.splitOn "\t" with
  | eng :: id :: rest =>
    let (inp, obs) := splitCase rest
    let v := match engineOf eng with
      | some e => e inp obs
      | none => Verdict.bad s!"unknown engine {eng}"
    out.putStrLn s!"{id}\t{v.render}"
    loop h out
  | _ => out.putStrLn s!"?\tbad\tmalformed line"; loop h out

def main : IO UInt32 := do
  let stdin ← IO.getStdin
  let stdout ← IO.getStdout
  loop stdin stdout
  return 0
