import GitSizer.Basic.GoSem
import GitSizer.Basic.Sat
/-! Models of git-sizer's byte-level parsers (`git/tree.go`, `git/obj_head_iter.go`,
    `git/commit.go`, `git/tag.go`, `git/batch_header.go`, `git/reference.go`), statement by
    statement, with Go's slice-bound panics as explicit `Res.panic` results. -/
namespace GitSizer.Parsers
open GitSizer

structure TreeEntry where
  mode : Nat
  name : Bytes
  oid : Bytes
deriving Repr, DecidableEq

/-- `TreeIter.NextEntry`: `ok none` at the end, `ok (some (entry, rest))` otherwise.
    Every Go slice expression is a checked `Go.slice*` (a panic in the model iff one in Go). -/
def nextEntry (data : Bytes) : Res (Option (TreeEntry × Bytes)) :=
  if data.isEmpty then .ok none else
  match Bytes.indexOf 32 data with
  | none => .err "no-sp"
  | some spAt => do
    let modeStr ← Go.sliceTo data spAt
    match Go.parseUint modeStr 8 32 with
    | none => .err "mode"
    | some mode =>
      let d1 ← Go.sliceFrom data (spAt + 1)
      match Bytes.indexOf 0 d1 with
      | none => .err "no-nul"
      | some nulAt =>
        let name ← Go.sliceTo d1 nulAt
        let d2 ← Go.sliceFrom d1 (nulAt + 1)
        if d2.length < 20 then .err "short"
        else do
          let oid ← Go.slice d2 0 20
          let rest ← Go.sliceFrom d2 20
          .ok (some (⟨mode, name, oid⟩, rest))

/-- iterate to the end (fuel = length of the data; every entry consumes at least 22 bytes) -/
def parseTreeFuel : Nat → Bytes → List TreeEntry → Res (List TreeEntry)
  | 0, data, acc => if data.isEmpty then .ok acc.reverse else .err "fuel"
  | fuel + 1, data, acc =>
    match nextEntry data with
    | .ok none => .ok acc.reverse
    | .ok (some (e, rest)) => parseTreeFuel fuel rest (e :: acc)
    | .err c => .err c
    | .panic c => .panic c

def parseTree (data : Bytes) : Res (List TreeEntry) := parseTreeFuel (data.length + 1) data []

/-- `NewObjectHeaderIter`: the header block -/
def headerBlock (data : Bytes) : Res Bytes :=
  match Bytes.index2 10 10 data with
  | none =>
    if data.isEmpty then .err "zero-length"
    else do
      let last ← Go.index data (data.length - 1)
      if last ≠ 10 then .err "no-lf" else .ok data
  | some headerEnd => Go.sliceTo data (headerEnd + 1)

/-- `ObjectHeaderIter.Next` -/
def nextHeader (data : Bytes) : Res (Bytes × Bytes × Bytes) :=
  if data.isEmpty then .err "past-end" else
  match Bytes.indexOf 32 data with
  | none => .err "malformed"
  | some keyEnd => do
    let key ← Go.sliceTo data keyEnd
    let header ← Go.sliceFrom data (keyEnd + 1)
    match Bytes.indexOf 10 header with
    | none => .err "malformed"
    | some valueEnd =>
      let value ← Go.sliceTo header valueEnd
      let rest ← Go.sliceFrom header (valueEnd + 1)
      .ok (key, value, rest)

def headersFuel : Nat → Bytes → List (Bytes × Bytes) → Res (List (Bytes × Bytes))
  | 0, _, acc => .ok acc.reverse
  | fuel + 1, data, acc =>
    if data.isEmpty then .ok acc.reverse else
    match nextHeader data with
    | .ok (k, v, rest) => headersFuel fuel rest ((k, v) :: acc)
    | .err c => .err c
    | .panic c => .panic c

/-- all (key, value) pairs the iterator yields -/
def headers (data : Bytes) : Res (List (Bytes × Bytes)) := do
  let block ← headerBlock data
  headersFuel (block.length + 1) block []

structure Commit where
  size : Nat
  parents : List Bytes
  tree : Bytes
deriving Repr, DecidableEq

def kParent : Bytes := [112, 97, 114, 101, 110, 116]
def kTree : Bytes := [116, 114, 101, 101]
def kObject : Bytes := [111, 98, 106, 101, 99, 116]
def kType : Bytes := [116, 121, 112, 101]

/-- `ParseCommit`. Header errors are detected lazily by the Go loop (an earlier semantic error
    wins over a later malformed header), which `commitStream` reproduces. `done`: some header other
    than `tree`/`parent` has been seen — as in git itself, later headers with these names are extra
    headers and are skipped (after the repair of F6; before it they were read as tree/parents). -/
def commitStream : Nat → Bytes → Bool → List Bytes → Option Bytes → Res (List Bytes × Option Bytes)
  | 0, _, _, ps, t => .ok (ps.reverse, t)
  | fuel + 1, data, done, ps, t =>
    if data.isEmpty then .ok (ps.reverse, t) else
    match nextHeader data with
    | .err c => .err c
    | .panic c => .panic c
    | .ok (k, v, rest) =>
      if done then commitStream fuel rest true ps t
      else if k = kParent then
        match Go.newOID v with
        | none => .err "bad-parent"
        | some o => commitStream fuel rest false (o :: ps) t
      else if k = kTree then
        match t with
        | some _ => .err "multiple-trees"
        | none =>
          match Go.newOID v with
          | none => .err "bad-tree"
          | some o => commitStream fuel rest false ps (some o)
      else commitStream fuel rest true ps t

def parseCommit (data : Bytes) : Res Commit := do
  let block ← headerBlock data
  let (ps, t) ← commitStream (block.length + 1) block false [] none
  match t with
  | none => .err "no-tree"
  | some tr => .ok ⟨clamp c32 data.length, ps, tr⟩

structure Tag where
  size : Nat
  referent : Bytes
  refType : Bytes
deriving Repr, DecidableEq

def tagStream : Nat → Bytes → Bool → Option Bytes → Option Bytes → Res (Option Bytes × Option Bytes)
  | 0, _, _, o, t => .ok (o, t)
  | fuel + 1, data, done, o, t =>
    if data.isEmpty then .ok (o, t) else
    match nextHeader data with
    | .err c => .err c
    | .panic c => .panic c
    | .ok (k, v, rest) =>
      if done then tagStream fuel rest true o t
      else if k = kObject then
        match o with
        | some _ => .err "multiple-objects"
        | none =>
          match Go.newOID v with
          | none => .err "bad-object"
          | some oid => tagStream fuel rest false (some oid) t
      else if k = kType then
        match t with
        | some _ => .err "multiple-types"
        | none => tagStream fuel rest false o (some v)
      else tagStream fuel rest true o t

def parseTag (data : Bytes) : Res Tag := do
  let block ← headerBlock data
  let (o, t) ← tagStream (block.length + 1) block false none none
  match o, t with
  | none, _ => .err "no-object"
  | some _, none => .err "no-type"
  | some oid, some ty => .ok ⟨clamp c32 data.length, oid, ty⟩

structure BatchHeader where
  oid : Bytes
  objType : Bytes
  size : Nat
deriving Repr, DecidableEq

def kMissing : Bytes := [109, 105, 115, 115, 105, 110, 103]

/-- `ParseBatchHeader(spec, header)` (after the repair of F5: every index is guarded) -/
def parseBatchHeader (header : Bytes) : Res BatchHeader :=
  if header.isEmpty ∨ header.getLast? ≠ some 10 then .err "malformed" else
  let words := Bytes.splitOn 32 header.dropLast
  if words.getLast? = some kMissing then .err "missing" else
  match words with
  | [w0, w1, w2] =>
    match Go.newOID w0 with
    | none => .err "oid"
    | some oid =>
      match Go.parseUint w2 10 64 with
      | none => .err "size"
      | some sz => .ok ⟨oid, w1, sz⟩      -- `counts.NewCount64(size)` (after the repair of F8)
  | _ => .err "malformed"

/-- the code before the repair of F5, kept for the negation witness: `header[:len(header)-1]`
    and `words[2]` are partial operations in Go -/
def parseBatchHeaderOld (header : Bytes) : Res BatchHeader :=
  if header.isEmpty then .panic "slice-bounds" else
  let words := Bytes.splitOn 32 header.dropLast
  if words.getLast? = some kMissing then .err "missing" else
  match Go.newOID (words.headD []) with
  | none => .err "oid"
  | some oid =>
    match words[2]? with
    | none => .panic "index-out-of-range"
    | some w2 =>
      match Go.parseUint w2 10 64 with
      | none => .err "size"
      | some sz => .ok ⟨oid, words.getD 1 [], clamp c32 sz⟩

structure Reference where
  refname : Bytes
  objType : Bytes
  size : Nat
  oid : Bytes
deriving Repr, DecidableEq

/-- `ParseReference(line)` -/
def parseReference (line : Bytes) : Res Reference :=
  match Bytes.splitOn 32 line with
  | [w0, w1, w2, w3] =>
    match Go.newOID w0 with
    | none => .err "oid"
    | some oid =>
      match Go.parseUint w2 10 64 with
      | none => .err "size"
      | some sz => .ok ⟨w3, w1, clamp c32 sz, oid⟩
  | _ => .err "format"

end GitSizer.Parsers
