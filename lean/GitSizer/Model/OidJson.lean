import GitSizer.Spec.ObjGrammar
/-! `OID.MarshalJSON`: a quotation mark, forty lowercase hex digits, a quotation mark. -/
namespace GitSizer.Parsers
open GitSizer
def oidJson (o : Bytes) : Bytes := [34] ++ Spec.hexEncode o ++ [34]
end GitSizer.Parsers
