import GitSizer.Model.Graph
import GitSizer.Spec.Depth
/-! Model of the scheduling done by `sizes.ScanRepositoryUsingGraph`: the object listing that
    `git rev-list --objects | git cat-file --batch-check` produces is split by type; blobs are
    registered while the listing is read, then trees in listing order, then commits in REVERSE
    listing order, then tags in listing order, then one `RegisterReference` per reference root.
    (The phase order itself is regenerated from the source as `Gen.Cmds.scanRegisters` and compared
    with `phases` below by `Props/C09`.) -/
namespace GitSizer.Scan
open GitSizer GitSizer.Spec GitSizer.Graph

def isBlob (r : Repo) (i : Nat) : Bool := match r.obj i with | some (.blob _) => true | _ => false
def isTree (r : Repo) (i : Nat) : Bool := match r.obj i with | some (.tree _ _) => true | _ => false
def isTag (r : Repo) (i : Nat) : Bool := match r.obj i with | some (.tag _ _ _) => true | _ => false

def blobsIn (r : Repo) (listing : List Nat) : List Nat := listing.filter (isBlob r)
def treesIn (r : Repo) (listing : List Nat) : List Nat := listing.filter (isTree r)
def commitsIn (r : Repo) (listing : List Nat) : List Nat := (listing.filter (Repo.isCommit r)).reverse
def tagsIn (r : Repo) (listing : List Nat) : List Nat := listing.filter (isTag r)

/-- the `Register*` calls of one scan, in the order the driver issues them -/
def scanOps (r : Repo) (listing : List Nat) (refs : List (List Bytes)) : List Op :=
  (blobsIn r listing).map .blob ++ ((treesIn r listing).map .tree ++ ((commitsIn r listing).map .commit ++
    ((tagsIn r listing).map .tag ++ refs.map .ref)))

/-- the phases, as (Graph method, "reverse" flag) — compared with the regenerated table -/
def phases : List (String × Bool) :=
  [("RegisterBlob", false), ("RegisterTree", false), ("RegisterCommit", true), ("RegisterTag", false), ("RegisterReference", false)]

/-- the whole scan at model level -/
def scan (r : Repo) (listing : List Nat) (refs : List (List Bytes)) : Res Gen.HistorySize :=
  match runOps r (scanOps r listing refs) {} with
  | .ok st => historySize r st
  | .err e => .err e
  | .panic e => .panic e

end GitSizer.Scan
