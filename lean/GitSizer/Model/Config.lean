import GitSizer.Basic.GoSem
/-! Model of `git/gitconfig.go`: the listing parser of `Repository.GetConfig` and
    `configKeyMatchesPrefix`; `refopts.splitKey`. -/
namespace GitSizer.Config
open GitSizer

def LF : UInt8 := 10
def NUL : UInt8 := 0
def DOT : UInt8 := 46

/-- `bytes.IndexByte` as a split: (before, after) at the first `b` -/
def splitFirst (b : UInt8) : Bytes → Option (Bytes × Bytes)
  | [] => none
  | x :: xs => if x = b then some ([], xs) else
      match splitFirst b xs with
      | some (l, r) => some (x :: l, r)
      | none => none

/-- the raw (key, value) records of the listing — the loop of `GetConfig` as it is in /repo
    (after the repair of F4): NUL first, then the first LF inside the record.
    `none` = "invalid output from 'git config'". -/
def parseListing : (fuel : Nat) → Bytes → Option (List (Bytes × Bytes))
  | _, [] => some []
  | 0, _ => none
  | f+1, out =>
    match splitFirst NUL out with
    | none => none
    | some (record, rest) =>
      let kv := match splitFirst LF record with
        | some (k, v) => (k, v)
        | none => (record, [])
      match parseListing f rest with
      | some l => some (kv :: l)
      | none => none

/-- the loop before the repair (LF first, then NUL), kept for the negation witness of F4 -/
def parseListingOld : (fuel : Nat) → Bytes → Option (List (Bytes × Bytes))
  | _, [] => some []
  | 0, _ => none
  | f+1, out =>
    match splitFirst LF out with
    | none => none
    | some (key, out1) =>
      match splitFirst NUL out1 with
      | none => none
      | some (value, rest) =>
        match parseListingOld f rest with
        | some l => some ((key, value) :: l)
        | none => none

/-- `configKeyMatchesPrefix(key, prefix)` -/
def keyMatchesPrefix (key pfx : Bytes) : Bool × Bytes :=
  if pfx.isEmpty then (true, key)
  else if !Bytes.hasPrefix key pfx then (false, [])
  else if pfx.getLast? = some DOT then (true, key.drop pfx.length)
  else if key.length = pfx.length then (true, [])
  else if key[pfx.length]? = some DOT then (true, key.drop (pfx.length + 1))
  else (false, [])

/-- `GetConfig(prefix)`: the entries under `prefix`, keys with the prefix stripped -/
def getConfig (listing : Bytes) (pfx : Bytes) : Option (List (Bytes × Bytes)) :=
  (parseListing (listing.length + 1) listing).map fun recs =>
    recs.filterMap fun (k, v) =>
      let (ok, rest) := keyMatchesPrefix k pfx
      if ok then some (rest, v) else none

/-- `refopts.splitKey`: at the last '.' -/
def splitKey (key : Bytes) : Bytes × Bytes :=
  match Bytes.lastIndexOf DOT key with
  | none => ([], key)
  | some i => (key.take i, key.drop (i + 1))

end GitSizer.Config
