import GitSizer.Basic.GoSem
/-! Model of `git/ref_filter.go`: filter trees exactly as built by `include.Combine` /
    `exclude.Combine`, prefix matching, and the fold of reference options. Generic in the pattern
    type `π` and its matching relation `m` (prefixes, regular expressions, refgroups). -/
namespace GitSizer.RefFilter
open GitSizer

/-- filter trees (`union`, `intersection`, `inverse` of git/ref_filter.go) -/
inductive F (π : Type) where
  | atom (p : π)
  | inv (f : F π)
  | union (f g : F π)
  | inter (f g : F π)
deriving Repr

variable {π : Type} (m : π → Bytes → Bool)

def F.eval : F π → Bytes → Bool
  | .atom p, r => m p r
  | .inv f, r => !(f.eval r)
  | .union f g, r => f.eval r || g.eval r
  | .inter f g, r => f.eval r && g.eval r

/-- one reference option: polarity and pattern -/
structure Opt (π : Type) where
  incl : Bool
  pat : π
deriving Repr

/-- `combiner.Combine(f1, f2)` with `f1` possibly nil -/
def combine (o : Opt π) : Option (F π) → F π
  | none => if o.incl then .atom o.pat else .inv (.atom o.pat)
  | some f => if o.incl then .union f (.atom o.pat) else .inter f (.inv (.atom o.pat))

/-- the options are applied in command-line order to the top-level filter -/
def build (opts : List (Opt π)) : Option (F π) := opts.foldl (fun acc o => some (combine o acc)) none

/-- `Finish(defaultAll)` followed by `Filter(refname)` -/
def selected (opts : List (Opt π)) (defaultAll : Bool) (r : Bytes) : Bool :=
  match build opts with
  | none => defaultAll
  | some f => f.eval m r

/-- `prefixFilter.Filter` -/
def prefixMatch (pfx refname : Bytes) : Bool :=
  if Bytes.hasSuffix pfx [47] then Bytes.hasPrefix refname pfx
  else Bytes.hasPrefix refname pfx && (refname.length == pfx.length || refname[pfx.length]? == some 47)

end GitSizer.RefFilter
