import GitSizer.Model.Human
import GitSizer.Basic.Bytes
import GitSizer.Gen.Tables
import GitSizer.Gen.Sizes
/-! Model of `sizes/output.go` + `sizes/footnotes.go`: the table renderer (byte-exact), the
    level-of-concern decision, footnote numbering, and the JSON v2 item set. The metric table, the
    column chrome and the constants are the REGENERATED `Gen.Tables`. Floating point is exact
    integer arithmetic (`Model/Human`). -/
namespace GitSizer.Output
open GitSizer GitSizer.Human

/-- a `float64` threshold: finite (sign, exact dyadic), or NaN / ±Inf (`strconv.ParseFloat`
    accepts those spellings) -/
inductive Thr where
  | fin (neg : Bool) (v : Dy)
  | nan | posInf | negInf
deriving Repr, DecidableEq

/-- exact comparison of non-negative dyadics -/
def Dy.lt (a b : Dy) : Bool := a.num * b.den < b.num * a.den
def Dy.floor (a : Dy) : Nat := a.num / a.den

/-- `alert < threshold` in float64 -/
def alertLt (alert : Dy) : Thr → Bool
  | .fin false v => Dy.lt alert v
  | .fin true v => alert.num = 0 ∧ v.num ≠ 0 ∧ false   -- a non-negative alert is never below a negative threshold (−0 = 0)
  | .nan => false
  | .posInf => true
  | .negInf => false

/-- one metric value as the renderer sees it -/
structure Val where
  n : Nat
  width : Nat        -- 32 or 64
deriving Repr

def Val.overflow (v : Val) : Bool := v.n == 2 ^ v.width - 1

/-- `float64(value) / scale` -/
def alertOf (v : Val) (scaleNum scaleDen : Nat) : Dy := fdiv (toF64 v.n) (rn53 scaleNum scaleDen)

def bangs : String := (Gen.Tables.levelOfConcernStrings.headD "")
def starsN (k : Nat) : String := String.ofList (Gen.Tables.starsConst.toList.take k)
def concernLimit : Nat := Gen.Tables.levelOfConcernInts.headD 30

/-- `item.levelOfConcern(threshold)`: `none` = not interesting -/
def levelOfConcern (v : Val) (scaleNum scaleDen : Nat) (thr : Thr) : Option String :=
  if v.overflow then some bangs else
  let alert := alertOf v scaleNum scaleDen
  if alertLt alert thr then none
  else if Dy.lt ⟨concernLimit, 1⟩ alert then some bangs
  else some (starsN (Dy.floor alert))

/-! ### footnotes -/

structure Footnotes where
  notes : List Bytes := []      -- in order of first citation

/-- `CreateCitation` -/
def Footnotes.cite (f : Footnotes) (text : Bytes) : Footnotes × String :=
  if text.isEmpty then (f, "") else
  match f.notes.idxOf? text with
  | some i => (f, s!"[{i + 1}]")
  | none => ({ notes := f.notes ++ [text] }, s!"[{f.notes.length + 1}]")

def padRight (s : String) (w : Nat) : String := s ++ String.ofList (List.replicate (w - s.length) ' ')
def padLeft (s : String) (w : Nat) : String := String.ofList (List.replicate (w - s.length) ' ') ++ s

/-- `Footnotes.String()` -/
def Footnotes.render (f : Footnotes) : Bytes :=
  if f.notes.isEmpty then [] else
  [10] ++ (f.notes.zipIdx.flatMap fun (t, i) => Bytes.ofString (padRight s!"[{i + 1}]" 4) ++ [32] ++ t ++ [10])

/-! ### the table -/

structure Tbl where
  indent : Int
  header : String
  buf : Bytes := []
deriving Repr

def spaces : String := Gen.Tables.spacesConst

/-- Go's `spaces[:k]`: panics unless `0 ≤ k ≤ len(spaces)` -/
def spacesTo (k : Int) : Option String :=
  if 0 ≤ k ∧ k ≤ spaces.length then some (String.ofList (spaces.toList.take k.toNat)) else none

/-- the bytes of one row: "| " prefix name spacer citation " | " value(5) " " unit(3) " | " marker(30) " |\n" -/
def rowBytes (pfx : String) (name : Bytes) (spacer citation valueS unitS level : String) : Bytes :=
  [124, 32] ++ (Bytes.ofString pfx ++ name ++ Bytes.ofString (spacer ++ citation ++ " | " ++ padLeft valueS 5 ++ " " ++
    padRight unitS 3 ++ " | " ++ padRight level 30 ++ " |\n"))

/-- the row prefix: `strings.Repeat(" ", 2*(indent-1)) + "* "` (after the repair of F2; it was
    `spaces[:2*(indent-1)]`): panics for a negative count only -/
def rowPrefix (indent : Int) : Option String :=
  if indent ≠ 0 then
    (if 0 ≤ 2 * (indent - 1) then some (String.ofList (List.replicate (2 * (indent - 1)).toNat ' ') ++ "* ") else none)
  else some ""

def rowSpacer (l : Nat) : Option String := if l < 28 then spacesTo (28 - l) else some ""

/-- `formatRow`; `none` = the Go code panics -/
def formatRow (t : Tbl) (name : Bytes) (citation valueS unitS level : String) : Option Bytes :=
  match rowPrefix t.indent with
  | none => none
  | some pfx =>
    match rowSpacer (pfx.utf8ByteSize + name.length + citation.utf8ByteSize) with
    | none => none
    | some spacer => some (rowBytes pfx name spacer citation valueS unitS level)

def blankRow : Bytes := Bytes.ofString (Gen.Tables.emitBlankRowStrings.headD "" ++ "\n")
def headerRows : Bytes := Bytes.ofString ("\n".intercalate Gen.Tables.generateHeaderStrings ++ "\n")
def noProblems : Bytes := Bytes.ofString (Gen.Tables.TableStringStrings.headD "")

/-- `addSection` -/
def addSection (t sub : Tbl) : Option Tbl :=
  if sub.buf.isEmpty then some t else do
    let t1 ← (if t.buf.isEmpty then
        (if sub.header ≠ "" then (formatRow t (Bytes.ofString sub.header) "" "" "" "").map (fun r => { t with buf := t.buf ++ r })
         else some t)
      else if t.indent = -1 then some { t with buf := t.buf ++ blankRow }
      else some t)
    pure { t1 with buf := t1.buf ++ sub.buf }

/-- the data of one item after the metric table has been instantiated with a measurement -/
structure Item where
  symbol : String
  name : Bytes
  description : String
  footnote : Bytes            -- already reduced by the name style ("" = no citation)
  value : Val
  humaner : String
  unit : String
  scaleNum : Nat
  scaleDen : Nat
  objectName : String := ""
  objectDescription : Bytes := []
deriving Repr

inductive Node where
  | sec (name : String) (kids : List Node)
  | item (i : Item)
  | indented (i : Item) (depth : Nat)
deriving Repr

def prefixesOf (h : String) : List Human.Prefix :=
  if h == Gen.Tables.binaryName then Gen.Tables.binaryPrefixes else Gen.Tables.metricPrefixes

/-- `item.Emit` -/
def emitItem (thr : Thr) (i : Item) (t : Tbl) (fn : Footnotes) : Option (Tbl × Footnotes) :=
  match levelOfConcern i.value i.scaleNum i.scaleDen thr with
  | none => some (t, fn)
  | some level =>
    let (valueS, unitS) := Human.format (prefixesOf i.humaner) i.value.n i.value.overflow i.unit
    let (fn', cit) := fn.cite i.footnote
    (formatRow t i.name cit valueS unitS level).map fun r => ({ t with buf := t.buf ++ r }, fn')

mutual
/-- `Emit` of sections, items and indented items -/
def emit (thr : Thr) : Node → Tbl → Footnotes → Option (Tbl × Footnotes)
  | .item i, t, fn => emitItem thr i t fn
  | .indented i d, t, fn => do
    let sub : Tbl := { indent := t.indent + d, header := "" }
    let (sub', fn') ← emitItem thr i sub fn
    let t' ← addSection t sub'
    pure (t', fn')
  | .sec name kids, t, fn => emitKids thr name kids t fn
def emitKids (thr : Thr) (name : String) : List Node → Tbl → Footnotes → Option (Tbl × Footnotes)
  | [], t, fn => some (t, fn)
  | c :: cs, t, fn => do
    let sub : Tbl := { indent := t.indent + 1, header := name }
    let (sub', fn') ← emit thr c sub fn
    let t' ← addSection t sub'
    emitKids thr name cs t' fn'
end

/-- `TableString`; `none` = the renderer panics -/
def tableString (thr : Thr) (contents : Node) : Option Bytes := do
  let (t, fn) ← emit thr contents { indent := -1, header := "" } {}
  if t.buf.isEmpty then pure noProblems
  else pure (headerRows ++ t.buf ++ fn.render)

/-! ### instantiating the regenerated metric table -/

/-- a measurement: numeric fields by Go field name, witnesses by Go field name, refgroup tallies -/
structure Meas where
  nums : List (String × Nat)
  foot : List (String × Bytes × String × Bytes)   -- path field ↦ (footnote text, objectName, objectDescription)
  groups : List (String × Bytes × Nat)            -- (symbol, display name, tally) in `Groups()` order, only those with a tally

def widthOf (field : String) : Nat := (Gen.historySizeWidths.find? (·.1 == field)).map (·.2) |>.getD 32

def dots (s : String) : Nat := (s.toList.filter (· == '.')).length

def subst (fmt arg : String) : String := fmt.replace "%s" arg

def instantiate (m : Meas) : Gen.Tables.Node → List Node
  | .sec name kids => [.sec name (instList m kids)]
  | .item sym name desc pathField valueField hum unit sn sd =>
    let v : Val := ⟨(m.nums.find? (·.1 == valueField)).map (·.2) |>.getD 0, widthOf valueField⟩
    let (ft, on, od) := (m.foot.find? (·.1 == pathField)).map (·.2) |>.getD ([], "", [])
    [.item ⟨sym, Bytes.ofString name, desc, ft, v, hum, unit, sn, sd, on, od⟩]
  | .refgroups =>
    let (symF, descF, hum, unit, sn, sd) := Gen.Tables.refgroupItem
    m.groups.filterMap fun (sym, name, tally) =>
      if sym.isEmpty then none else
      some (.indented ⟨subst symF sym, name, subst descF sym, [], ⟨tally, 32⟩, hum, unit, sn, sd, "", []⟩ (dots sym))
where instList (m : Meas) : List Gen.Tables.Node → List Node
  | [] => []
  | n :: ns => instantiate m n ++ instList m ns

def contentsOf (m : Meas) : Node := (instantiate m Gen.Tables.contents).headD (.sec "" [])

mutual
def items : Node → List Item
  | .item i => [i]
  | .indented i _ => [i]
  | .sec _ kids => itemsList kids
def itemsList : List Node → List Item
  | [] => []
  | n :: ns => items n ++ itemsList ns
end

end GitSizer.Output
