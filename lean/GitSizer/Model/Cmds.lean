import GitSizer.Gen.Cmds
/-! Predicates over the REGENERATED table of subprocess call sites (`Gen.Cmds`): how every git
    command is started (C13) and that only read-only plumbing is ever run (C17). -/
namespace GitSizer.Cmds

abbrev Site := String × String × String × List String

/-- the one invocation that cannot be pinned to a repository: discovery of the git directory -/
def isDiscovery (s : Site) : Bool :=
  s.1 == "git/git.go" && s.2.1 == "NewRepositoryFromPath" && s.2.2.2 == ["-C", "<var>", "rev-parse", "--git-dir"]

/-- read-only plumbing: subcommand and, where it matters, mode flags -/
def readOnly (args : List String) : Bool :=
  match args with
  | "rev-parse" :: _ => true
  | "config" :: "--list" :: _ => true
  | "config" :: "--get" :: _ => true
  | "for-each-ref" :: _ => true
  | "rev-list" :: _ => true
  | "cat-file" :: _ => true
  | "-C" :: _ :: "rev-parse" :: _ => true
  | _ => false

end GitSizer.Cmds
