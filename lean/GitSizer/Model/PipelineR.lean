import GitSizer.Model.Pipeline
/-! # The two-stage pipeline of reference enumeration (`git/ref_iter.go`)

`git for-each-ref` writes its lines into pipe `d`; the `parse-refs` stage sends the parsed references
over the unbuffered `refCh` and closes it; a helper goroutine sends `p.Wait()` over the unbuffered `errCh`;
the consumer receives references until `refCh` is closed and then receives that result. -/
namespace GitSizer.PipelineR
open GitSizer.Pipeline (Pipe Parser)

inductive Gen where
  | write (left : Nat) | done
deriving Repr, DecidableEq

inductive Waiter where
  | waiting | sending | done
deriving Repr, DecidableEq

inductive Main where
  | recv | errwait | done
deriving Repr, DecidableEq

structure St where
  g : Gen
  d : Pipe
  s5 : Parser
  refClosed : Bool
  w : Waiter
  main : Main
deriving Repr, DecidableEq

def init (lines cd : Nat) : St :=
  { g := .write lines, d := Pipe.fresh cd, s5 := .read, refClosed := false, w := .waiting, main := .recv }

inductive Step : St → St → Prop where
  | gWrite (s : St) (k : Nat) : s.g = .write (k + 1) → s.d.rclosed = false → s.d.n < s.d.cap →
      Step s { s with g := .write k, d := { s.d with n := s.d.n + 1 } }
  | gEpipe (s : St) (k : Nat) : s.g = .write (k + 1) → s.d.rclosed = true → Step s { s with g := .done, d := { s.d with wclosed := true } }
  | gExit (s : St) : s.g = .write 0 → Step s { s with g := .done, d := { s.d with wclosed := true } }
  | s5Read (s : St) : s.s5 = .read → 0 < s.d.n → Step s { s with s5 := .send, d := { s.d with n := s.d.n - 1 } }
  | s5Bad (s : St) : s.s5 = .read → 0 < s.d.n →
      Step s { s with s5 := .done, refClosed := true, d := { s.d with n := s.d.n - 1, rclosed := true } }
  | s5Eof (s : St) : s.s5 = .read → s.d.n = 0 → s.d.wclosed = true →
      Step s { s with s5 := .done, refClosed := true, d := { s.d with rclosed := true } }
  | waited (s : St) : s.w = .waiting → s.g = .done → s.s5 = .done → Step s { s with w := .sending }
  | mainRecv (s : St) : s.main = .recv → s.s5 = .send → Step s { s with s5 := .read }
  | mainClosed (s : St) : s.main = .recv → s.refClosed = true → Step s { s with main := .errwait }
  | mainErr (s : St) : s.main = .errwait → s.w = .sending → Step s { s with main := .done, w := .done }

inductive Env : St → St → Prop where
  | gDie (s : St) : s.g ≠ .done → Env s { s with g := .done, d := { s.d with wclosed := true } }

inductive Reach (s0 : St) : St → Prop where
  | refl : Reach s0 s0
  | step {s s' : St} : Reach s0 s → Step s s' → Reach s0 s'
  | env {s s' : St} : Reach s0 s → Env s s' → Reach s0 s'

end GitSizer.PipelineR
