/-! Exact integer model of `counts.Humaner.FormatNumber` / `Format`: Go's `float64(uint64)`,
    float64 division and `fmt`'s `%.Nf` are modelled exactly in integer arithmetic (no Lean `Float`).
    The prefix tables are parameters; the driver and the property theorems instantiate them with
    the tables REGENERATED from counts/human.go (`Gen.Tables`). -/
namespace GitSizer.Human

/-- a non-negative finite double as an exact rational num/den (den a power of two) -/
structure Dy where
  num : Nat
  den : Nat
deriving Repr, DecidableEq

def bitlen (n : Nat) : Nat := if n = 0 then 0 else Nat.log2 n + 1

/-- round-half-even of a/b (b>0) to an integer -/
def rhe (a b : Nat) : Nat :=
  let q := a / b
  let r := a % b
  if 2 * r > b then q + 1
  else if 2 * r < b then q
  else if q % 2 = 0 then q else q + 1

/-- binade normalisation: shifts `(u, d)` (one of them 0) such that
    2^52 ≤ (a·2^u)/(b·2^d) < 2^53 for positive a, b -/
def norm53 (a b : Nat) : Nat × Nat :=
  let la := bitlen a
  let lb := bitlen b
  let u0 := 53 + lb - la
  let d0 := la - (53 + lb)
  if (a <<< u0) / (b <<< d0) ≥ 2^53 then (if u0 > 0 then (u0 - 1, 0) else (0, d0 + 1)) else (u0, d0)

/-- round the positive rational a/b to 53 significant bits (round-to-nearest-even) -/
def rn53 (a b : Nat) : Dy :=
  if a = 0 then ⟨0, 1⟩ else
  let ud := norm53 a b
  ⟨rhe (a <<< ud.1) (b <<< ud.2) <<< ud.2, 1 <<< ud.1⟩

/-- `float64(n)` -/
def toF64 (n : Nat) : Dy := rn53 n 1
/-- `x / y` in float64 -/
def fdiv (x y : Dy) : Dy := rn53 (x.num * y.den) (x.den * y.num)

def pad (d : Nat) (s : String) : String := String.ofList (List.replicate (d - s.length) '0') ++ s

/-- `fmt.Sprintf("%.{d}f", x)` for a non-negative dyadic x: exact decimal round-half-even -/
def fmtFixedN (d : Nat) (x : Dy) : Nat := rhe (x.num * 10^d) x.den
def renderFixed (d : Nat) (n : Nat) : String :=
  let ip := n / 10^d
  let fp := n % 10^d
  if d = 0 then toString ip else toString ip ++ "." ++ pad d (toString fp)
def fmtFixed (d : Nat) (x : Dy) : String := renderFixed d (fmtFixedN d x)

abbrev Prefix := String × Nat

/-- the prefix-selection loop of `FormatNumber` -/
def selectPrefix (prefixes : List Prefix) (n : Nat) : Nat × Prefix :=
  prefixes.foldl (fun acc p => let w := n / p.2; if w ≥ 1 then (w, p) else acc) (n, prefixes.headD ("", 1))

/-- number of decimals chosen from the whole part -/
def decimals (whole : Nat) : Nat := if whole ≥ 100 then 0 else if whole ≥ 10 then 1 else 2

/-- structured result: `exact n` for values below the first prefix; otherwise the numeral as an
    integer count `m` of units 10^-d of the prefix multiplier -/
inductive Num where
  | exact (n : Nat)
  | scaled (m : Nat) (d : Nat) (pfx : Prefix)
deriving Repr, DecidableEq

def formatNum (prefixes : List Prefix) (n : Nat) : Num :=
  let (whole, pfx) := selectPrefix prefixes n
  if pfx.2 = 1 then .exact n
  else
    let mant := fdiv (toF64 n) (toF64 pfx.2)
    let d := decimals whole
    .scaled (fmtFixedN d mant) d pfx

def Num.render : Num → String × String
  | .exact n => (toString n, "")
  | .scaled m d pfx => (renderFixed d m, pfx.1)

/-- `FormatNumber(n, unit)` → (numeral, prefix ++ unit) -/
def formatNumber (prefixes : List Prefix) (n : Nat) (unit : String) : String × String :=
  let (a, p) := (formatNum prefixes n).render
  (a, p ++ unit)

/-- `Format(value, unit)`: the infinity sign for a saturated counter -/
def format (prefixes : List Prefix) (n : Nat) (overflow : Bool) (unit : String) : String × String :=
  if overflow then ("∞", unit) else formatNumber prefixes n unit

end GitSizer.Human
