import GitSizer.Model.Scan
/-! Executable checkers for the hypotheses of the whole-run and whole-scan theorems. They are proved
    sound in `Proofs/ScanCheck` (`check = true → hypothesis`), so that the judges can state, case by
    case, that the theorem applies to the very repository and schedule that the implementation was
    run on. -/
namespace GitSizer.Scan
open GitSizer GitSizer.Spec GitSizer.Graph

/-- per-object side conditions of `RepoOK` and of the size hypotheses -/
def objOK (r : Repo) (t : Nat) : Bool :=
  (treeKids r t).all (fun e => decide (e.2 < t) && decide (e.1 < c32)) &&
  decide (r.blobSize t < 2 ^ 64) &&
  (r.entries t).all (fun e => decide (e.name.length < 2 ^ 64)) &&
  (r.parents t).all (fun p => decide (p < t) && r.isCommit p) &&
  (tagKids r t).all (fun e => decide (e.2 < t)) &&
  (match r.tagRef t with | some (o, true) => (r.tagRef o).isSome | _ => true) &&
  decide (Repo.sizeOf r t < 2 ^ 64) && decide ((r.parents t).length < 2 ^ 64)

def repoOKb (r : Repo) : Bool := (List.range r.length).all (objOK r)

def objTyped (r : Repo) (t : Nat) : Bool :=
  (r.entries t).all (fun e => (e.kind != .blob || isBlob r e.oid) && (e.kind != .tree || isTree r e.oid)) &&
  (match r.obj t with | some (.commit _ tr _) => isTree r tr | _ => true)

def typedb (r : Repo) : Bool := (List.range r.length).all (objTyped r)

def listingb (r : Repo) (L : List Nat) : Bool :=
  decide L.Nodup && L.all (fun i => decide (i < r.length)) &&
  L.all (fun i => (r.edges i).all (fun j => L.contains j)) &&
  decide (L.Pairwise fun a b => a ∉ r.parents b)

/-- "tree `t` and everything below it has been delivered", as a bottom-up table (one linear sweep) -/
def PD (r : Repo) (dT : List Nat) : Agg.Params Bool :=
  ⟨and, true, fun _ s => s, fun t => dT.contains t, treeKids r⟩
def doneTable (r : Repo) (dT : List Nat) : List Bool := expandTable (PD r dT) r.length

/-- Bool mirror of `ValidFrom` -/
def validFromb (r : Repo) : List Nat → List Nat → List Nat → List Nat → List Op → Bool
  | _, _, _, _, [] => true
  | dB, dT, dC, dG, .blob o :: rest => validFromb r (dB ++ [o]) dT dC dG rest
  | dB, dT, dC, dG, .tree t :: rest =>
    !dT.contains t && decide (t < r.length) && (r.entries t).all (fun e => e.kind != .blob || dB.contains e.oid) &&
    validFromb r dB (dT ++ [t]) dC dG rest
  | dB, dT, dC, dG, .commit c :: rest =>
    !dC.contains c && r.isCommit c &&
    (match r.obj c with
     | some (.commit _ tr _) => decide (tr < r.length) && (doneTable r dT).getD tr true
     | _ => true) &&
    (r.parents c).all (fun p => dC.contains p) && validFromb r dB dT (dC ++ [c]) dG rest
  | dB, dT, dC, dG, .tag g :: rest =>
    !dG.contains g && decide (g < r.length) && validFromb r dB dT dC (dG ++ [g]) rest
  | dB, dT, dC, dG, .ref _ :: rest => validFromb r dB dT dC dG rest

/-- every hypothesis of `run_numbers`, decided -/
def runHypothesesb (r : Repo) (ops : List Op) : Bool :=
  repoOKb r && validFromb r [] [] [] [] ops &&
  (treesOf ops).all (fun t => (treeKids r t).all (fun e => (treesOf ops).contains e.2)) &&
  (tagsOf ops).all (fun g => (tagKids r g).all (fun e => (tagsOf ops).contains e.2)) &&
  (tagsOf ops).all (fun g => (r.tagRef g).isSome)

/-- every hypothesis of `scan_numbers`, decided -/
def scanHypothesesb (r : Repo) (L : List Nat) : Bool := repoOKb r && typedb r && listingb r L

end GitSizer.Scan
