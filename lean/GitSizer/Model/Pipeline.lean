/-! # A protocol model of one scanning phase: feeder, five-stage pipeline, consumer

What can block in `ScanRepositoryUsingGraph` + `git/obj_iter.go` (and, with other stage names,
`git/batch_obj_iter.go`): a feeder goroutine sends the walked roots over the unbuffered `oidCh`
and finally reports on the buffered `errChan`; stage 1 (`request-objects`) copies them into the
stdin pipe of `git rev-list`; `rev-list` reads ALL of its input, then writes its listing; stage 3
(`copy-oids`) copies lines into the stdin pipe of `git cat-file`, which answers line by line;
stage 5 (`object-parser`) sends the parsed headers over the unbuffered `headerCh` and closes it;
the scanning goroutine receives until `headerCh` is closed, then `Wait()`s for all five stages and,
if none failed, receives the feeder's report from `errChan`.

Pipes have an arbitrary positive capacity; a write to a pipe whose read end is closed fails
(EPIPE), a read from an empty pipe whose write end is closed is EOF; a stage that ends closes both
of its ends (go-pipe and the OS do that); the two git processes may DIE at any moment
(`Env` steps), stages 3 and 5 may fail on any line (malformed output). `Step` are the program's
own steps. Nothing here models time: "never hangs" is "no reachable state in which the scanning
goroutine has not returned and no program step is enabled", plus a measure that every step lowers. -/
namespace GitSizer.Pipeline

structure Pipe where
  n : Nat            -- items in flight
  cap : Nat
  wclosed : Bool     -- the write end is closed (writer ended)
  rclosed : Bool     -- the read end is closed (reader ended)
deriving Repr, DecidableEq

inductive Feeder where
  | send (left : Nat)      -- `left + 1` roots still to be sent
  | close                  -- all sent: `defer objIter.Close()` is next
  | report                 -- `errChan <- err` is next (buffered: never blocks)
  | done
deriving Repr, DecidableEq

inductive Copy where       -- stages 1, 3 and `cat-file`: read one, write one
  | read | write | done
deriving Repr, DecidableEq

inductive RevList where
  | read                   -- still reading stdin
  | write (left : Nat)     -- `left` lines still to be written
  | done
deriving Repr, DecidableEq

inductive Parser where
  | read | send | done
deriving Repr, DecidableEq

inductive Main where
  | first                  -- (only in the variant of seeded change C10h) wait for the feeder's report FIRST
  | recv                   -- `for { obj, ok, err := objIter.Next() … }`
  | wait                   -- `iter.p.Wait()` inside the last `Next()`
  | errchan                -- `err = <-errChan`
  | done                   -- the phase is over (or the scan has returned an error)
deriving Repr, DecidableEq

structure St where
  feeder : Feeder
  oidClosed : Bool
  s1 : Copy
  s1ok : Bool              -- stage 1 ended because `oidCh` was closed (not by a write error)
  a : Pipe
  g1 : RevList
  b : Pipe
  s3 : Copy
  c : Pipe
  g2 : Copy
  d : Pipe
  s5 : Parser
  hdrClosed : Bool
  main : Main
  errChan : Nat            -- 0 or 1 values in the buffered channel
  err : Bool               -- some stage ended abnormally
  lines : Nat              -- how many lines `rev-list` will print for the roots it was given (fixed by the repository)
deriving Repr, DecidableEq

def Pipe.fresh (cap : Nat) : Pipe := ⟨0, cap, false, false⟩

/-- the state after `NewObjectIter` and `go func(){…}()`: `roots = some k` = k+1 walked roots, `none` = no
    walked root; pipe capacities are arbitrary; `variant` = the order of seeded change C10h -/
def init (roots : Option Nat) (lines ca cb cc cd : Nat) (variant : Bool) : St :=
  { feeder := (match roots with | some k => .send k | none => .close), oidClosed := false, s1 := .read, s1ok := false,
    a := Pipe.fresh ca, g1 := .read, b := Pipe.fresh cb, s3 := .read, c := Pipe.fresh cc, g2 := .read, d := Pipe.fresh cd,
    s5 := .read, hdrClosed := false, main := if variant then .first else .recv, errChan := 0, err := false, lines := lines }

/-- the program's own steps -/
inductive Step : St → St → Prop where
  -- feeder
  | feedMore (s : St) (k : Nat) : s.feeder = .send (k + 1) → s.s1 = .read → s.oidClosed = false →
      Step s { s with feeder := .send k, s1 := .write }
  | feedLast (s : St) : s.feeder = .send 0 → s.s1 = .read → s.oidClosed = false →
      Step s { s with feeder := .close, s1 := .write }
  | feederClose (s : St) : s.feeder = .close → Step s { s with feeder := .report, oidClosed := true }
  | feederReport (s : St) : s.feeder = .report → Step s { s with feeder := .done, errChan := s.errChan + 1 }
  -- stage 1: request-objects
  | s1End (s : St) : s.s1 = .read → s.oidClosed = true → Step s { s with s1 := .done, s1ok := true, a := { s.a with wclosed := true } }
  | s1Write (s : St) : s.s1 = .write → s.a.rclosed = false → s.a.n < s.a.cap → Step s { s with s1 := .read, a := { s.a with n := s.a.n + 1 } }
  | s1Epipe (s : St) : s.s1 = .write → s.a.rclosed = true → Step s { s with s1 := .done, err := true, a := { s.a with wclosed := true } }
  -- git rev-list (its own steps; dying is an `Env` step)
  | g1Read (s : St) : s.g1 = .read → 0 < s.a.n → Step s { s with a := { s.a with n := s.a.n - 1 } }
  | g1Eof (s : St) : s.g1 = .read → s.a.n = 0 → s.a.wclosed = true → Step s { s with g1 := .write s.lines }
  | g1Write (s : St) (k : Nat) : s.g1 = .write (k + 1) → s.b.rclosed = false → s.b.n < s.b.cap →
      Step s { s with g1 := .write k, b := { s.b with n := s.b.n + 1 } }
  | g1Epipe (s : St) (k : Nat) : s.g1 = .write (k + 1) → s.b.rclosed = true →
      Step s { s with g1 := .done, err := true, a := { s.a with rclosed := true }, b := { s.b with wclosed := true } }
  | g1Exit (s : St) : s.g1 = .write 0 → Step s { s with g1 := .done, a := { s.a with rclosed := true }, b := { s.b with wclosed := true } }
  -- stage 3: copy-oids
  | s3Read (s : St) : s.s3 = .read → 0 < s.b.n → Step s { s with s3 := .write, b := { s.b with n := s.b.n - 1 } }
  | s3Bad (s : St) : s.s3 = .read → 0 < s.b.n →     -- "line too short"
      Step s { s with s3 := .done, err := true, b := { s.b with n := s.b.n - 1, rclosed := true }, c := { s.c with wclosed := true } }
  | s3Eof (s : St) : s.s3 = .read → s.b.n = 0 → s.b.wclosed = true →
      Step s { s with s3 := .done, b := { s.b with rclosed := true }, c := { s.c with wclosed := true } }
  | s3Write (s : St) : s.s3 = .write → s.c.rclosed = false → s.c.n < s.c.cap → Step s { s with s3 := .read, c := { s.c with n := s.c.n + 1 } }
  | s3Epipe (s : St) : s.s3 = .write → s.c.rclosed = true →
      Step s { s with s3 := .done, err := true, b := { s.b with rclosed := true }, c := { s.c with wclosed := true } }
  -- git cat-file --batch-check
  | g2Read (s : St) : s.g2 = .read → 0 < s.c.n → Step s { s with g2 := .write, c := { s.c with n := s.c.n - 1 } }
  | g2Eof (s : St) : s.g2 = .read → s.c.n = 0 → s.c.wclosed = true →
      Step s { s with g2 := .done, c := { s.c with rclosed := true }, d := { s.d with wclosed := true } }
  | g2Write (s : St) : s.g2 = .write → s.d.rclosed = false → s.d.n < s.d.cap → Step s { s with g2 := .read, d := { s.d with n := s.d.n + 1 } }
  | g2Epipe (s : St) : s.g2 = .write → s.d.rclosed = true →
      Step s { s with g2 := .done, err := true, c := { s.c with rclosed := true }, d := { s.d with wclosed := true } }
  -- stage 5: object-parser
  | s5Read (s : St) : s.s5 = .read → 0 < s.d.n → Step s { s with s5 := .send, d := { s.d with n := s.d.n - 1 } }
  | s5Bad (s : St) : s.s5 = .read → 0 < s.d.n →     -- ParseBatchHeader fails
      Step s { s with s5 := .done, err := true, hdrClosed := true, d := { s.d with n := s.d.n - 1, rclosed := true } }
  | s5Eof (s : St) : s.s5 = .read → s.d.n = 0 → s.d.wclosed = true →
      Step s { s with s5 := .done, hdrClosed := true, d := { s.d with rclosed := true } }
  -- the scanning goroutine
  | mainFirst (s : St) : s.main = .first → 0 < s.errChan → Step s { s with main := .recv, errChan := s.errChan - 1 }
  | mainRecv (s : St) : s.main = .recv → s.s5 = .send → Step s { s with s5 := .read }
  | mainClosed (s : St) : s.main = .recv → s.hdrClosed = true → Step s { s with main := .wait }
  | mainWaitErr (s : St) : s.main = .wait → s.s1 = .done → s.g1 = .done → s.s3 = .done → s.g2 = .done → s.s5 = .done →
      s.err = true → Step s { s with main := .done }
  | mainWaitOk (s : St) : s.main = .wait → s.s1 = .done → s.g1 = .done → s.s3 = .done → s.g2 = .done → s.s5 = .done →
      s.err = false → Step s { s with main := .errchan }
  | mainErrchan (s : St) : s.main = .errchan → 0 < s.errChan → Step s { s with main := .done, errChan := s.errChan - 1 }

/-- the environment: either git process dies at any moment -/
inductive Env : St → St → Prop where
  | g1Die (s : St) : s.g1 ≠ .done →
      Env s { s with g1 := .done, err := true, a := { s.a with rclosed := true }, b := { s.b with wclosed := true } }
  | g2Die (s : St) : s.g2 ≠ .done →
      Env s { s with g2 := .done, err := true, c := { s.c with rclosed := true }, d := { s.d with wclosed := true } }

inductive Reach (s0 : St) : St → Prop where
  | refl : Reach s0 s0
  | step {s s' : St} : Reach s0 s → Step s s' → Reach s0 s'
  | env {s s' : St} : Reach s0 s → Env s s' → Reach s0 s'

end GitSizer.Pipeline
