/-
Exploratory prototype (design phase): the listener/pending aggregator of sizes/graph.go,
reduced to its essence, to validate the invariant planned for theorem T1 (DESIGN.md §8.0).

Sizes live in an arbitrary commutative monoid (α, op); a tree `t` has `base t : α`
(itself + its non-tree entries) and subtree entries `kids t : List (Nat × Oid)` (name id, child).
Adding a finished child is `op s (desc name childSize)`.
-/
namespace Agg

abbrev Oid := Nat

structure Rec (α : Type) where
  pending : Int            -- -1 = not initialised yet
  size : α
  listeners : List (Oid × Nat)   -- (parent, entry name) waiting for us
  
structure St (α : Type) where
  sizes : Oid → Option α          -- finalized trees (treeSizes)
  recs  : Oid → Option (Rec α)    -- treeRecords
  fins  : List Oid                -- finalisation log (order in which recordTree is called)

def upd {β : Type} (f : Oid → Option β) (k : Oid) (v : Option β) : Oid → Option β :=
  fun x => if x = k then v else f x

@[simp] theorem upd_same {β} (f : Oid → Option β) k v : upd f k v k = v := by simp [upd]
@[simp] theorem upd_other {β} (f : Oid → Option β) k v x (h : x ≠ k) : upd f k v x = f x := by simp [upd, h]

variable {α : Type}

structure Params (α : Type) where
  op : α → α → α
  unit : α
  desc : Nat → α → α
  base : Oid → α
  kids : Oid → List (Nat × Oid)

variable (P : Params α)

def newRec : Rec α := ⟨-1, P.unit, []⟩

/-- the entry loop of `treeRecord.initialize` (tree entries only). -/
def initLoop (parent : Oid) : List (Nat × Oid) → St α → Int → α → St α × Int × α
  | [], st, p, s => (st, p, s)
  | (nm, c) :: cs, st, p, s =>
    match st.sizes c with
    | some sc => initLoop parent cs st p (P.op s (P.desc nm sc))
    | none =>
      let r := (st.recs c).getD (newRec P)
      let st' := { st with recs := upd st.recs c (some { r with listeners := r.listeners ++ [(parent, nm)] }) }
      initLoop parent cs st' (p + 1) s

def finalize (st : St α) (t : Oid) (sz : α) : St α :=
  { sizes := upd st.sizes t (some sz), recs := upd st.recs t none, fins := st.fins ++ [t] }

/-- the listener cascade (`maybeFinalize` → listeners → `maybeFinalize` …) with the call
    stack made explicit: pending notifications `(parent, name, childSize)`, depth-first. -/
def cascade : Nat → St α → List (Oid × Nat × α) → St α
  | 0, st, _ => st
  | _, st, [] => st
  | fuel+1, st, (p, nm, sz) :: rest =>
    match st.recs p with
    | none => cascade fuel st rest          -- unreachable under the invariant
    | some r =>
      let r' : Rec α := { r with size := P.op r.size (P.desc nm sz), pending := r.pending - 1 }
      if r'.pending = 0 then
        cascade fuel (finalize st p r'.size) (r'.listeners.map (fun l => (l.1, l.2, r'.size)) ++ rest)
      else
        cascade fuel { st with recs := upd st.recs p (some r') } rest

def registerTree (fuel : Nat) (st : St α) (t : Oid) : St α :=
  let r0 := (st.recs t).getD (newRec P)
  let (st1, pend, sz) := initLoop P t (P.kids t) st 0 (P.base t)
  if pend = 0 then
    cascade P fuel (finalize st1 t sz) (r0.listeners.map (fun l => (l.1, l.2, sz)))
  else
    { st1 with recs := upd st1.recs t (some ⟨pend, sz, r0.listeners⟩) }

def run (fuel : Nat) : List Oid → St α → St α
  | [], st => st
  | t :: ts, st => run fuel ts (registerTree P fuel st t)

def init : St α := ⟨fun _ => none, fun _ => none, []⟩

end Agg
