import GitSizer.Basic.GoSem
/-! Statement-level model of `sizes/path_resolver.go` (`InOrderPathResolver` and `Path`).
    `*Path` pointers are indices into an arena that only grows (pointer identity = index); the
    `soughtPaths` map is an association list with unique keys. An object id is a `Nat`; its
    40-digit hexadecimal rendering is a parameter `hex`. Go panics are `Res.panic`. -/
namespace GitSizer.PathRes
open GitSizer

inductive OType where
  | blob | tree | commit | tag | other
deriving Repr, DecidableEq

def OType.name : OType → Bytes
  | .blob => [98, 108, 111, 98]
  | .tree => [116, 114, 101, 101]
  | .commit => [99, 111, 109, 109, 105, 116]
  | .tag => [116, 97, 103]
  | .other => [63]

/-- one `Path` object -/
structure PathRec where
  oid : Nat
  ty : OType
  seekers : Nat            -- uint8 in the code
  parent : Option Nat      -- index of the parent's `Path`
  rel : Bytes
deriving Repr, DecidableEq

structure State where
  arena : List PathRec
  sought : List (Nat × Nat)   -- oid ↦ arena index
deriving Repr

def State.empty : State := ⟨[], []⟩

def lookupSought (st : State) (oid : Nat) : Option Nat := (st.sought.find? (·.1 == oid)).map (·.2)
def eraseSought (st : State) (oid : Nat) : State := { st with sought := st.sought.filter (·.1 != oid) }
def setRec (st : State) (i : Nat) (f : PathRec → PathRec) : State :=
  { st with arena := st.arena.modify i f }

/-- `requestPathLocked` -/
def requestPath (st : State) (oid : Nat) (ty : OType) : State × Nat :=
  match lookupSought st oid with
  | some i => (setRec st i (fun r => { r with seekers := (r.seekers + 1) % 256 }), i)
  | none =>
    let i := st.arena.length
    ({ arena := st.arena ++ [⟨oid, ty, 1, none, []⟩], sought := st.sought ++ [(oid, i)] }, i)

/-- `forgetPathLocked` (the recursion follows parent pointers; `fuel` bounds it) -/
def forgetPath : Nat → State → Nat → Res State
  | 0, _, _ => .panic "forget-fuel"
  | fuel + 1, st, i =>
    match st.arena[i]? with
    | none => .panic "nil-path"
    | some r =>
      if r.seekers = 0 then .panic "forgetPathLocked() called when refcount zero" else
      let st1 := setRec st i (fun r => { r with seekers := r.seekers - 1 })
      if r.seekers - 1 > 0 then .ok st1
      else match r.parent with
        | some q => forgetPath fuel st1 q
        | none => if r.rel = [] then .ok (eraseSought st1 r.oid) else .ok st1

/-- `RecordName` -/
def recordName (st : State) (name : Bytes) (oid : Nat) : State :=
  match lookupSought st oid with
  | none => st
  | some i => eraseSought (setRec st i (fun r => { r with rel := name })) oid

/-- `RecordTreeEntry` -/
def recordTreeEntry (st : State) (tree : Nat) (name : Bytes) (child : Nat) : Res State :=
  match lookupSought st child with
  | none => .ok st
  | some i =>
    match st.arena[i]? with
    | none => .panic "nil-path"
    | some r =>
      if r.parent.isSome then .panic "tree path parent unexpectedly filled in" else
      let (st1, q) := requestPath st tree .tree
      .ok (eraseSought (setRec st1 i (fun r => { r with parent := some q, rel := name })) child)

/-- `RecordCommit` -/
def recordCommit (st : State) (commit tree : Nat) : Res State :=
  match lookupSought st tree with
  | none => .ok st
  | some i =>
    match st.arena[i]? with
    | none => .panic "nil-path"
    | some r =>
      if r.parent.isSome then .panic "commit tree parent unexpectedly filled in" else
      let (st1, q) := requestPath st commit .commit
      .ok (eraseSought (setRec st1 i (fun r => { r with parent := some q, rel := [] })) tree)

/-! ### rendering -/

def colon : UInt8 := 58
def slash : UInt8 := 47
def lbrace : UInt8 := 123
def rbrace : UInt8 := 125
def caret : UInt8 := 94

/-- `scanRevision`: position of the first ':' outside braces, and whether a '{' precedes it -/
def scanRevision : Nat → Bool → Nat → Bytes → Option Nat × Bool
  | _, braces, _, [] => (none, braces)
  | depth, braces, i, c :: cs =>
    if c = lbrace then scanRevision (depth + 1) true (i + 1) cs
    else if c = rbrace ∧ depth > 0 then scanRevision (depth - 1) braces (i + 1) cs
    else if c = colon ∧ depth = 0 then (some i, braces)
    else scanRevision depth braces (i + 1) cs

/-- `rootTreePrefix(name, oid)` -/
def rootTreePrefix (hex : Nat → Bytes) (name : Bytes) (oid : Nat) : Bytes :=
  match scanRevision 0 false 0 name with
  | (_, true) => hex oid ++ [colon]
  | (none, false) => name ++ [colon]
  | (some i, false) =>
    if i = name.length - 1 ∨ name.getLast? = some slash then name else name ++ [slash]

def peelSuffix (ty : OType) : Bytes := [caret, lbrace] ++ ty.name ++ [rbrace]

/-- `BestPath` given the result `s` of `Path()` -/
def bestOf (hex : Nat → Bytes) (st : State) (i : Nat) (s : Bytes) : Bytes :=
  if s ≠ [] then s else
  match st.arena[i]? with
  | some p => hex p.oid
  | none => []

/-- `revision()` given the result `s` of `Path()` -/
def revisionOf (hex : Nat → Bytes) (st : State) (i : Nat) (s : Bytes) : Bytes :=
  if s ≠ [] ∧ (scanRevision 0 false 0 s).1 = none then s else
  match st.arena[i]? with
  | some p => hex p.oid
  | none => []

mutual
/-- `Path.TreePrefix` -/
def treePrefix (hex : Nat → Bytes) (st : State) : Nat → Nat → Bytes
  | 0, _ => []
  | fuel + 1, i =>
    match st.arena[i]? with
    | none => []
    | some p =>
      match p.ty with
      | .blob | .tree =>
        match p.parent with
        | some q =>
          if p.rel = [] then treePrefix hex st fuel q
          else treePrefix hex st fuel q ++ p.rel ++ [slash]
        | none =>
          if p.rel ≠ [] then rootTreePrefix hex p.rel p.oid else hex p.oid ++ [colon]
      | .commit | .tag =>
        match p.parent with
        | some q => revisionOf hex st q (path hex st fuel q) ++ peelSuffix p.ty
        | none =>
          if p.rel ≠ [] then
            (if (scanRevision 0 false 0 p.rel).1 ≠ none ∨ (scanRevision 0 false 0 p.rel).2 then hex p.oid ++ [colon]
             else p.rel ++ [colon])
          else hex p.oid ++ [colon]
      | .other => [63, 63, 63]

/-- `Path.Path` -/
def path (hex : Nat → Bytes) (st : State) : Nat → Nat → Bytes
  | 0, _ => []
  | fuel + 1, i =>
    match st.arena[i]? with
    | none => []
    | some p =>
      match p.ty with
      | .blob | .tree =>
        match p.parent with
        | some q =>
          if p.rel = [] then revisionOf hex st q (path hex st fuel q) ++ peelSuffix p.ty
          else treePrefix hex st fuel q ++ p.rel
        | none => p.rel
      | .commit | .tag =>
        match p.parent with
        | some q => revisionOf hex st q (path hex st fuel q) ++ peelSuffix p.ty
        | none => p.rel
      | .other => []
end

/-- `Path.BestPath` -/
def bestPath (hex : Nat → Bytes) (st : State) (fuel i : Nat) : Bytes := bestOf hex st i (path hex st fuel i)

/-- the recursion of `Path()` follows parent pointers; a parent describes an object that contains
    the child, so object indices grow along the chain and this fuel is never exhausted -/
def maxOid (st : State) : Nat := st.arena.foldl (fun m r => max m r.oid) 0

/-- `Path.String()`: "<oid>" or "<oid> (<path>)" -/
def pathString (hex : Nat → Bytes) (st : State) (i : Nat) : Bytes :=
  match st.arena[i]? with
  | none => []
  | some p =>
    let s := path hex st (maxOid st + 1) i
    if s = [] then hex p.oid else hex p.oid ++ [32, 40] ++ s ++ [41]

end GitSizer.PathRes
