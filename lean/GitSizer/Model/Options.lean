import GitSizer.Gen.Tables
/-! Model of the option handling of `git-sizer.go` for the families that gitconfig can set:
    pflag calls `Set` on the value objects in command-line order; the `sizer.*` settings are read
    only when no option of the family was given (`flags.Changed(...)` guards, REGENERATED table). -/
namespace GitSizer.Options

/-- one threshold-family option as pflag delivers it -/
inductive ThrOpt where
  | threshold (v : String)                  -- --threshold=V  (V parsed by strconv.ParseFloat)
  | flag (name : String) (arg : Bool)       -- --verbose / --no-verbose / --critical [=true|false]
deriving Repr, DecidableEq

/-- the value a boolean threshold flag sets: its target when true, 1 when false (`thresholdFlagValue.Set`) -/
def flagTarget (name : String) : Option (Nat × Nat) :=
  (Gen.Tables.thresholdFlags.find? (·.1 == name)).map (·.2)

/-- the threshold variable is a string here (the float value it parses to); `none` = parse error -/
def applyThr (parse : String → Option String) (cur : Option String) : ThrOpt → Option String
  | .threshold v => parse v
  | .flag name arg =>
    match cur, flagTarget name with
    | none, _ => none
    | _, none => none
    | some _, some (n, d) => if arg then some s!"{n}/{d}" else some "1/1"

/-- pflag: the options are applied in order; an error aborts -/
def foldThr (parse : String → Option String) (init : String) (opts : List ThrOpt) : Option String :=
  opts.foldl (fun cur o => match cur with | none => none | some _ => applyThr parse cur o) (some init)

/-- effective threshold: the option fold if any option of the family was given, else gitconfig
    (`none` = absent), else the default -/
def effectiveThr (parse : String → Option String) (opts : List ThrOpt) (config : Option String) : Option String :=
  if opts.isEmpty then
    match config with
    | none => some "1/1"
    | some c => parse c
  else foldThr parse "1/1" opts

end GitSizer.Options
