import GitSizer.Spec.Repo
import GitSizer.Gen.Sizes
import GitSizer.Basic.GoSem
/-! Model of `sizes/graph.go`: the incremental object-graph aggregator. Trees and annotated tags
    use the listener/pending aggregator `Agg` (Model/Agg.lean) instantiated with the saturating
    `TreeSize` / `TagSize` algebra; the per-entry and per-object updates are the functions
    REGENERATED from sizes/sizes.go (`Gen.TreeSize.add*`, `Gen.HistorySize.record*`).
    Panics of the Go code ("registered twice", "blob size not known", "tree size not available",
    "commit is not available", "records remain") are explicit `Res.panic` results. -/
namespace GitSizer.Graph
open GitSizer GitSizer.Spec Gen

/-! ### the machine-level size algebra, written with the generated counter functions -/

def TS.op (a b : TreeSize) : TreeSize :=
  { MaxPathDepth := (Count32.AdjustMaxIfNecessary a.MaxPathDepth b.MaxPathDepth).1
    MaxPathLength := (Count32.AdjustMaxIfNecessary a.MaxPathLength b.MaxPathLength).1
    ExpandedTreeCount := Count32.Increment a.ExpandedTreeCount b.ExpandedTreeCount
    ExpandedBlobCount := Count32.Increment a.ExpandedBlobCount b.ExpandedBlobCount
    ExpandedBlobSize := Count64.Increment a.ExpandedBlobSize b.ExpandedBlobSize
    ExpandedLinkCount := Count32.Increment a.ExpandedLinkCount b.ExpandedLinkCount
    ExpandedSubmoduleCount := Count32.Increment a.ExpandedSubmoduleCount b.ExpandedSubmoduleCount }

def TS.unit : TreeSize := {}

/-- `counts.NewCount32(uint64(len(name)))` -/
def nameLen32 (nm : Nat) : BitVec 32 := NewCount32 (BitVec.ofNat 64 nm)

/-- what `addDescendent(name, s2)` contributes: one more path component in front of `s2` -/
def TS.desc (nm : Nat) (s2 : TreeSize) : TreeSize :=
  { s2 with
    MaxPathDepth := Count32.Plus s2.MaxPathDepth 1#32
    MaxPathLength := if s2.MaxPathLength > 0#32 then Count32.Plus (nameLen32 nm + 1#32) s2.MaxPathLength
                     else nameLen32 nm }

/-- `newTreeRecord`: the tree itself counts as one directory -/
def newTreeSize : TreeSize := { ExpandedTreeCount := 1#32 }

/-- the entry loop of `treeRecord.initialize` restricted to non-tree entries, with the generated
    `addBlob` / `addLink` / `addSubmodule` -/
def baseB (r : Repo) (blobSz : Nat → BlobSize) (t : Nat) : TreeSize :=
  (r.entries t).foldl (fun acc e =>
    match e.kind with
    | .tree => acc
    | .blob => TreeSize.addBlob acc e.name (blobSz e.oid)
    | .symlink => TreeSize.addLink acc e.name
    | .gitlink => TreeSize.addSubmodule acc e.name) newTreeSize

/-- blob sizes as the scan sees them: `counts.NewCount64(size)` from the batch header
    (after the repair of F8; before it they were narrowed with `NewCount32` here) -/
def blobSize32 (r : Repo) (b : Nat) : BlobSize := ⟨NewCount64 (BitVec.ofNat 64 (r.blobSize b))⟩

def PB (r : Repo) : Agg.Params TreeSize :=
  ⟨TS.op, TS.unit, TS.desc, baseB r (blobSize32 r), treeKids r⟩

/-! ### tags: the same aggregator, one optional dependency -/

def TG.op (a b : TagSize) : TagSize := ⟨Count32.Increment a.TagDepth b.TagDepth⟩
def TG.unit : TagSize := {}

def tagKids (r : Repo) (t : Nat) : List (Nat × Nat) :=
  match r.obj t with
  | some (.tag _ o true) => [(0, o)]
  | _ => []

def PT (r : Repo) : Agg.Params TagSize :=
  ⟨TG.op, TG.unit, fun _ s => s, fun _ => ⟨1#32⟩, tagKids r⟩

/-! ### state and operations -/

structure GState where
  blobs : Nat → Option BlobSize := fun _ => none
  trees : Agg.St TreeSize := Agg.init
  commits : Nat → Option CommitSize := fun _ => none
  tags : Agg.St TagSize := Agg.init
  hist : HistorySize := {}
  refGroups : List (Bytes × BitVec 32) := []

def objSize32 (r : Repo) (i : Nat) : BitVec 32 :=
  match r.obj i with
  | some (.blob s) | some (.tree s _) | some (.commit s _ _) | some (.tag s _ _) => NewCount32 (BitVec.ofNat 64 s)
  | none => 0#32

/-- the entry counter of `initialize`: `entryCount.Increment(1)` per entry -/
def entryCount32 (n : Nat) : BitVec 32 := (List.replicate n ()).foldl (fun c _ => Count32.Increment c 1#32) 0#32

def fuelOf (r : Repo) : Nat := (r.map (fun o => match o with | .tree _ es => es.length | _ => 1)).sum + r.length + 1

/-- `RegisterBlob` -/
def registerBlob (r : Repo) (st : GState) (oid : Nat) : Res GState :=
  let sz := blobSize32 r oid
  .ok { st with blobs := Agg.upd st.blobs oid (some sz), hist := HistorySize.recordBlob st.hist oid sz }

/-- `finalizeTreeSize` → `recordTree` for one newly finalised tree -/
def recordTreeAt (r : Repo) (sizes : Nat → Option TreeSize) (h : HistorySize) (t : Nat) : HistorySize :=
  match sizes t with
  | some sz => HistorySize.recordTree h t sz (objSize32 r t) (entryCount32 (r.entries t).length)
  | none => h

/-- `finalizeTagSize` → `recordTag` for one newly finalised tag -/
def recordTagAt (r : Repo) (sizes : Nat → Option TagSize) (h : HistorySize) (t : Nat) : HistorySize :=
  match sizes t with
  | some sz => HistorySize.recordTag h t sz (objSize32 r t)
  | none => h

/-- `RegisterTree` + `initialize` + the finalisation cascade -/
def registerTree (r : Repo) (st : GState) (oid : Nat) : Res GState :=
  if (st.trees.sizes oid).isSome then .panic "tree registered twice" else
  if (r.entries oid).any (fun e => e.kind == .blob && (st.blobs e.oid).isNone) then .panic "blob size not known" else
  let t' := Agg.registerTree (PB r) (fuelOf r) st.trees oid
  let newFins := t'.fins.drop st.trees.fins.length
  let hist := newFins.foldl (recordTreeAt r t'.sizes) st.hist
  .ok { st with trees := t', hist := hist }

/-- `RegisterCommit` -/
def registerCommit (r : Repo) (st : GState) (oid : Nat) : Res GState :=
  match r.obj oid with
  | some (.commit _ tree parents) =>
    if (st.commits oid).isSome then .panic "commit registered twice" else
    match st.trees.sizes tree with
    | none => .panic "tree size not available"
    | some treeSize =>
      let size0 := CommitSize.addTree {} treeSize
      let rec go : List Nat → CommitSize → Res CommitSize
        | [], s => .ok s
        | p :: ps, s =>
          match st.commits p with
          | none => .panic "commit is not available"
          | some ps' => go ps (CommitSize.addParent s ps')
      match go parents size0 with
      | .ok s =>
        let s := { s with MaxAncestorDepth := Count32.Increment s.MaxAncestorDepth 1#32 }
        .ok { st with commits := Agg.upd st.commits oid (some s),
                      hist := HistorySize.recordCommit st.hist oid s (objSize32 r oid) (NewCount32 (BitVec.ofNat 64 parents.length)) }
      | .err c => .err c
      | .panic c => .panic c
  | _ => .err "not a commit"

/-- `RegisterTag` -/
def registerTag (r : Repo) (st : GState) (oid : Nat) : Res GState :=
  if (st.tags.sizes oid).isSome then .panic "tag registered twice" else
  let t' := Agg.registerTree (PT r) (fuelOf r) st.tags oid
  let newFins := t'.fins.drop st.tags.fins.length
  let hist := newFins.foldl (recordTagAt r t'.sizes) st.hist
  .ok { st with tags := t', hist := hist }

/-- `recordReferenceGroup` -/
def bumpGroup (gs : List (Bytes × BitVec 32)) (sym : Bytes) : List (Bytes × BitVec 32) :=
  if gs.any (·.1 == sym) then gs.map (fun g => if g.1 == sym then (g.1, Count32.Increment g.2 1#32) else g)
  else gs ++ [(sym, 1#32)]

/-- `RegisterReference` -/
def registerReference (st : GState) (groups : List Bytes) : GState :=
  { st with hist := HistorySize.recordReference st.hist, refGroups := groups.foldl bumpGroup st.refGroups }

inductive Op where
  | blob (oid : Nat) | tree (oid : Nat) | commit (oid : Nat) | tag (oid : Nat)
  | ref (groups : List Bytes)
deriving Repr

def step (r : Repo) (st : GState) : Op → Res GState
  | .blob o => registerBlob r st o
  | .tree o => registerTree r st o
  | .commit o => registerCommit r st o
  | .tag o => registerTag r st o
  | .ref gs => .ok (registerReference st gs)

def runOps (r : Repo) : List Op → GState → Res GState
  | [], st => .ok st
  | op :: ops, st =>
    match step r st op with
    | .ok st' => runOps r ops st'
    | .err c => .err c
    | .panic c => .panic c

/-- `HistorySize()`: panics if a tree or tag record remains -/
def historySize (r : Repo) (st : GState) : Res HistorySize :=
  if (List.range r.length).any (fun t => (st.trees.recs t).isSome) then .panic "tree records remain"
  else if (List.range r.length).any (fun t => (st.tags.recs t).isSome) then .panic "tag records remain"
  else .ok st.hist

/-- what a schedule delivers, per kind -/
def blobsOf : List Op → List Nat
  | [] => [] | .blob o :: rest => o :: blobsOf rest | _ :: rest => blobsOf rest
def treesOf : List Op → List Nat
  | [] => [] | .tree o :: rest => o :: treesOf rest | _ :: rest => treesOf rest
def commitsOf : List Op → List Nat
  | [] => [] | .commit o :: rest => o :: commitsOf rest | _ :: rest => commitsOf rest
def tagsOf : List Op → List Nat
  | [] => [] | .tag o :: rest => o :: tagsOf rest | _ :: rest => tagsOf rest
def refsOf : List Op → Nat
  | [] => 0 | .ref _ :: rest => refsOf rest + 1 | _ :: rest => refsOf rest

/-- declared size of an object -/
def Repo.sizeOf (r : Repo) (i : Nat) : Nat :=
  match r.obj i with
  | some (.blob s) | some (.tree s _) | some (.commit s _ _) | some (.tag s _ _) => s
  | none => 0

end GitSizer.Graph
