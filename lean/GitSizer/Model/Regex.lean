import GitSizer.Spec.Regex
/-! # An executable full-match decision (Brzozowski derivatives with anchors) and a reader of RE2 syntax

`matchB r w` decides `FullMatch r w` (`Proofs/Regex.matchB_iff`). `parse` reads the fragment of Go's
`regexp` syntax described in `Spec/Regex`; everything else (counted repetition, named groups, flags other
than a leading `(?i)`, `\b`, `\A`, `\pL`, POSIX classes, non-ASCII bytes, …) is `none` = "outside the
matcher", for which the `refs` engine keeps using Go's answer alone. On every pattern that `parse`
accepts, the engine compares Go's answer on every generated name with `matchB`. -/
namespace GitSizer.Regex

/-- can `r` match the empty string here? `s` = at the start of the subject, `e` = at its end -/
def nullable (s e : Bool) : Re → Bool
  | .none => false
  | .eps => true
  | .cls _ _ => false
  | .bol => s
  | .eol => e
  | .seq a b => nullable s e a && nullable s e b
  | .alt a b => nullable s e a || nullable s e b
  | .star _ => true

/-- what remains to be matched after the byte `c` (which stands at the start of the subject iff `s`) -/
def deriv (s : Bool) (c : UInt8) : Re → Re
  | .none => .none
  | .eps => .none
  | .cls neg rs => if inCls neg rs c then .eps else .none
  | .bol => .none
  | .eol => .none
  | .seq a b => if nullable s false a then .alt (.seq (deriv s c a) b) (deriv s c b) else .seq (deriv s c a) b
  | .alt a b => .alt (deriv s c a) (deriv s c b)
  | .star a => .seq (deriv s c a) (.star a)

def run : Bool → Re → Bytes → Bool
  | s, r, [] => nullable s true r
  | s, r, c :: cs => run false (deriv s c r) cs

def matchB (r : Re) (w : Bytes) : Bool := run true r w

/-- `(?s:.)*` -/
def anyStar : Re := .star (.cls true [])

/-- decides `Search` (Go's `MatchString`): some part of the subject matches -/
def searchB (r : Re) (w : Bytes) : Bool := matchB (.seq anyStar (.seq r anyStar)) w

/-! ## reading RE2 syntax -/

def isLowerB (c : UInt8) : Bool := 97 ≤ c && c ≤ 122
def isUpperB (c : UInt8) : Bool := 65 ≤ c && c ≤ 90
def isAlnumB (c : UInt8) : Bool := isLowerB c || isUpperB c || (48 ≤ c && c ≤ 57)

/-- ASCII case folding of a set of ranges -/
def foldRanges (rs : List (UInt8 × UInt8)) : List (UInt8 × UInt8) :=
  rs ++ rs.filterMap (fun r =>
      let lo := if r.1 < 97 then 97 else r.1
      let hi := if r.2 > 122 then 122 else r.2
      if lo ≤ hi then some (lo - 32, hi - 32) else none)
    ++ rs.filterMap (fun r =>
      let lo := if r.1 < 65 then 65 else r.1
      let hi := if r.2 > 90 then 90 else r.2
      if lo ≤ hi then some (lo + 32, hi + 32) else none)

def mkCls (ci neg : Bool) (rs : List (UInt8 × UInt8)) : Re := .cls neg (if ci then foldRanges rs else rs)

def digitRanges : List (UInt8 × UInt8) := [(48, 57)]
def wordRanges : List (UInt8 × UInt8) := [(48, 57), (65, 90), (95, 95), (97, 122)]
def spaceRanges : List (UInt8 × UInt8) := [(9, 10), (12, 13), (32, 32)]

/-- `\` + ASCII punctuation: that byte; `\a \f \n \r \t \v`: the control character -/
def escByte (c : UInt8) : Option UInt8 :=
  if c < 128 && !isAlnumB c then some c
  else if c == 97 then some 7 else if c == 102 then some 12 else if c == 110 then some 10
  else if c == 114 then some 13 else if c == 116 then some 9 else if c == 118 then some 11 else none

/-- `\d \w \s`: some ranges; a single-byte escape: that byte; anything else is outside the fragment -/
def classEscape (c : UInt8) : Option (List (UInt8 × UInt8)) :=
  if c == 100 then some digitRanges else if c == 119 then some wordRanges else if c == 115 then some spaceRanges
  else (escByte c).map fun b => [(b, b)]

/-- one byte of a bracket expression that may start a range; returns it and the rest -/
def classChar (s : Bytes) : Option (UInt8 × Bytes) :=
  match s with
  | [] => none
  | 92 :: c :: rest => (escByte c).map fun b => (b, rest)
  | 92 :: [] => none
  | c :: rest => if c ≥ 128 || c == 91 then none else some (c, rest)

/-- after the first byte `lo` of an item: `lo-hi` (unless the `-` closes the expression), or the single byte;
    `k` reads the remaining items -/
def classTail (k : Bytes → List (UInt8 × UInt8) → Option (List (UInt8 × UInt8) × Bytes)) (lo : UInt8) (rest1 : Bytes)
    (acc : List (UInt8 × UInt8)) : Option (List (UInt8 × UInt8) × Bytes) :=
  match rest1 with
  | 45 :: 93 :: _ => k rest1 (acc ++ [(lo, lo)])
  | 45 :: rest2 =>
    match classChar rest2 with
    | some (hi, rest3) => if lo ≤ hi then k rest3 (acc ++ [(lo, hi)]) else none
    | none => none
  | _ => k rest1 (acc ++ [(lo, lo)])

/-- the items of a bracket expression up to the closing `]` -/
def classItems : Nat → Bytes → List (UInt8 × UInt8) → Option (List (UInt8 × UInt8) × Bytes)
  | 0, _, _ => none
  | _, [], _ => none
  | _, 93 :: rest, acc => some (acc, rest)
  | fuel + 1, 92 :: c :: rest, acc =>
    if c == 100 || c == 119 || c == 115 then
      match classEscape c with
      | some rs => classItems fuel rest (acc ++ rs)
      | none => none
    else
      match classChar (92 :: c :: rest) with
      | none => none
      | some (lo, rest1) => classTail (classItems fuel) lo rest1 acc
  | fuel + 1, s, acc =>
    match classChar s with
    | none => none
    | some (lo, rest1) => classTail (classItems fuel) lo rest1 acc

/-- the items after `[` or `[^` -/
def pClassBody (ci neg : Bool) (s : Bytes) : Option (Re × Bytes) :=
  match s with
  | 93 :: _ => none          -- a leading `]` is a literal in RE2: outside the fragment
  | _ =>
    match classItems (s.length + 1) s [] with
    | some (rs, rest) => some (mkCls ci neg rs, rest)
    | none => none

/-- after `[` -/
def pClass (ci : Bool) (s : Bytes) : Option (Re × Bytes) :=
  match s with
  | 94 :: rest => pClassBody ci true rest
  | _ => pClassBody ci false s

def isQuant (c : UInt8) : Bool := c == 42 || c == 43 || c == 63

def applyQuant (q : UInt8) (a : Re) : Re :=
  if q == 42 then .star a else if q == 43 then .seq a (.star a) else .alt a .eps

/-- leading decimal digits (at most four are read: RE2 allows counts up to 1000) -/
def digits : Nat → Bytes → Nat → Nat → (Nat × Nat × Bytes)
  | 0, s, n, k => (n, k, s)
  | fuel + 1, c :: rest, n, k => if 48 ≤ c && c ≤ 57 then digits fuel rest (n * 10 + (c.toNat - 48)) (k + 1) else (n, k, c :: rest)
  | _ + 1, [], n, k => (n, k, [])

/-- after `{`: `n}` | `n,}` | `n,m}`; `none` = not a repetition (RE2 then reads `{` as a literal);
    `some none` = a repetition RE2 rejects (count above 1000, or max < min) -/
def pCount (s : Bytes) : Option (Option (Nat × Option Nat × Bytes)) :=
  let (n, k, rest) := digits 5 s 0 0
  if k == 0 then none else
  match rest with
  | 125 :: rest' => if k > 4 || n > 1000 then some none else some (some (n, some n, rest'))
  | 44 :: 125 :: rest' => if k > 4 || n > 1000 then some none else some (some (n, none, rest'))
  | 44 :: rest1 =>
    let (m, k2, rest2) := digits 5 rest1 0 0
    if k2 == 0 then none else
    match rest2 with
    | 125 :: rest' => if k > 4 || k2 > 4 || n > 1000 || m > 1000 || m < n then some none else some (some (n, some m, rest'))
    | _ => none
  | _ => none

def power (a : Re) : Nat → Re
  | 0 => .eps
  | n + 1 => .seq a (power a n)

/-- `a{n,m}` = aⁿ (a?)^(m-n); `a{n,}` = aⁿ a* -/
def applyCount (a : Re) (n : Nat) (m : Option Nat) : Re :=
  match m with
  | none => .seq (power a n) (.star a)
  | some m => .seq (power a n) (power (.alt a .eps) (m - n))

/-- is there a repetition operator at the head of `s`? (`{` only when it reads as a count) -/
def startsRepeat (s : Bytes) : Bool :=
  match s with
  | 123 :: r => (pCount r).isSome
  | c :: _ => isQuant c
  | [] => false

/-- a lazy marker after a repetition operator (`*?`, `{2,3}?`): the same language -/
def stripLazy (r : Bytes) : Bytes :=
  match r with
  | 63 :: r' => r'
  | _ => r

/-- after `(`: the body of a capturing or `(?:` group; any other `(?…` is outside the fragment -/
def groupInner (rest : Bytes) : Option Bytes :=
  match rest with
  | 63 :: 58 :: r => some r
  | 63 :: _ => none
  | r => some r

mutual
/-- alternation -/
def pAlt : Nat → Bool → Bytes → Option (Re × Bytes)
  | 0, _, _ => none
  | fuel + 1, ci, s =>
    match pCat fuel ci s with
    | none => none
    | some (a, 124 :: rest) =>
      match pAlt fuel ci rest with
      | some (b, rest') => some (.alt a b, rest')
      | none => none
    | some (a, rest) => some (a, rest)

/-- concatenation: up to `|`, `)` or the end -/
def pCat : Nat → Bool → Bytes → Option (Re × Bytes)
  | 0, _, _ => none
  | _ + 1, _, [] => some (.eps, [])
  | _ + 1, _, 124 :: rest => some (.eps, 124 :: rest)
  | _ + 1, _, 41 :: rest => some (.eps, 41 :: rest)
  | fuel + 1, ci, s =>
    match pRep fuel ci s with
    | none => none
    | some (a, rest) =>
      match pCat fuel ci rest with
      | some (b, rest') => some (.seq a b, rest')
      | none => none

/-- an atom with at most one repetition operator (optionally lazy: the same language) -/
def pRep : Nat → Bool → Bytes → Option (Re × Bytes)
  | 0, _, _ => none
  | fuel + 1, ci, s =>
    match pAtom fuel ci s with
    | none => none
    | some (a, q :: rest) =>
      if isQuant q then
        -- `*?` `+?` `??`; `a**`: RE2 rejects it
        if startsRepeat (stripLazy rest) then none else some (applyQuant q a, stripLazy rest)
      else if q == 123 then
        match pCount rest with
        | none => some (a, q :: rest)          -- `{` not followed by a count: a literal, read by the next atom
        | some none => none
        | some (some (n, m, rest')) =>
          if startsRepeat (stripLazy rest') then none else some (applyCount a n m, stripLazy rest')
      else some (a, q :: rest)
    | some (a, []) => some (a, [])

def pAtom : Nat → Bool → Bytes → Option (Re × Bytes)
  | 0, _, _ => none
  | _ + 1, _, [] => none
  | fuel + 1, ci, 40 :: rest =>                       -- `(` … `)`
    match groupInner rest with
    | none => none
    | some r =>
      match pAlt fuel ci r with
      | some (a, 41 :: rest') => some (a, rest')
      | _ => none
  | _ + 1, ci, 91 :: rest => pClass ci rest           -- `[`
  | _ + 1, _, 46 :: rest => some (.cls true [(10, 10)], rest)   -- `.`: any byte but newline
  | _ + 1, _, 94 :: rest => some (.bol, rest)
  | _ + 1, _, 36 :: rest => some (.eol, rest)
  | _ + 1, ci, 92 :: c :: rest =>                     -- `\`
    if c == 68 then some (.cls true digitRanges, rest)
    else if c == 87 then some (.cls true wordRanges, rest)
    else if c == 83 then some (.cls true spaceRanges, rest)
    else match classEscape c with
      | some rs => some (mkCls ci false rs, rest)
      | none => none
  | _ + 1, ci, c :: rest =>
    if c ≥ 128 || isQuant c || c == 41 || c == 124 || c == 92 then none
    else if c == 123 && (pCount rest).isSome then none      -- a count with nothing to repeat
    else some (mkCls ci false [(c, c)], rest)
end

/-- a leading `(?i)` switches ASCII case folding on -/
def splitFlags (p : Bytes) : Bool × Bytes :=
  match p with
  | 40 :: 63 :: 105 :: 41 :: rest => (true, rest)
  | _ => (false, p)

/-- the whole pattern -/
def parse (p : Bytes) : Option Re :=
  match pAlt (4 * (splitFlags p).2.length + 8) (splitFlags p).1 (splitFlags p).2 with
  | some (r, []) => some r
  | _ => none

/-- a name the matcher speaks about: ASCII only (RE2 works on code points, this model on bytes) -/
def asciiOnly (w : Bytes) : Bool := w.all (· < 128)

end GitSizer.Regex
