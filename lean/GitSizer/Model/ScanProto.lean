/-! Protocol model of a scanning run (C10): a run is a function of the results of its git
    invocations, in program order. Each invocation ends with a status and may have delivered only a
    prefix of its fault-free output. The program consults the status of every invocation
    (`cmd.Output()` errors, `pipe.Wait()` at end of stream, and — after the repair of F9 — the
    final drain of the batch pipeline); `git config --get` exiting with status 1 is git's protocol
    for "key absent". The report is written only after the last invocation has been consulted. -/
namespace GitSizer.ScanProto

inductive Status where
  | ok
  | exit (n : Nat)      -- n ≠ 0
  | killed
deriving Repr, DecidableEq

inductive Kind where
  | discover | gitPath | configList | configGet | forEachRef | revParseVerify | revList | catFileCheck | catFileBatch
deriving Repr, DecidableEq

structure Inv where
  kind : Kind
  status : Status
  complete : Bool      -- delivered its whole fault-free output
deriving Repr, DecidableEq

/-- does this result make the invocation a failure, in the protocol of its kind -/
def Inv.failing (i : Inv) : Bool :=
  match i.status with
  | .ok => false
  | .exit n => !(i.kind == .configGet && n == 1)
  | .killed => true

structure Outcome where
  exit : Nat
  stdout : List String     -- the report, as lines ([] = nothing written)
  stderr : List String
deriving Repr, DecidableEq

/-- the program: consult the invocations in order; the first failure aborts with an error message
    and no report; otherwise compute the report from what was delivered -/
def run (report : List Inv → List String) : List Inv → List Inv → Outcome
  | seen, [] => ⟨0, report seen.reverse, []⟩
  | seen, i :: rest =>
    if i.failing then ⟨1, [], ["error: " ++ toString (repr i.kind)]⟩
    else run report (i :: seen) rest

def scan (report : List Inv → List String) (invs : List Inv) : Outcome := run report [] invs

end GitSizer.ScanProto
