import GitSizer.Model.RefFilter
import GitSizer.Model.Config
import GitSizer.Gen.Tables
/-! Model of `internal/refopts`: the refgroup forest (`getGroup` with implicit parents, built-in
    groups from the REGENERATED table, `augmentFromConfig`), the reference options (`filterValue`,
    `filterGroupValue`, pflag's in-order `Set` calls), `Finish`/`fillInTree`, `collectSymbols` and
    `Categorize`. Regular expressions are an oracle `Env` (Go's `regexp`, trusted). -/
namespace GitSizer.RefGroups
open GitSizer GitSizer.RefFilter

/-- patterns a group's own rules can use -/
inductive Pat0 where
  | all                  -- `PrefixFilter("")`
  | pfx (p : Bytes)
  | re (p : Bytes)       -- `RegexpFilter(p)`
deriving Repr, DecidableEq

/-- patterns of the top-level filter -/
inductive Pat where
  | base (p : Pat0)
  | grp (sym : Bytes)    -- `refGroupFilter{group sym}`
deriving Repr, DecidableEq

/-- regular-expression oracle: does `RegexpFilter(p)` compile, and does its filter accept `r` -/
structure Env where
  reOK : Bytes → Bool
  reM : Bytes → Bytes → Bool

def m0 (env : Env) : Pat0 → Bytes → Bool
  | .all, _ => true
  | .pfx p, r => prefixMatch p r
  | .re p, r => env.reM p r

structure Group where
  symbol : Bytes
  name : Bytes
  filter : Option (F Pat0)
  subs : List Bytes          -- child symbols in creation order
deriving Repr

abbrev Store := List Group

def find (st : Store) (sym : Bytes) : Option Group := st.find? (·.symbol == sym)
def update (st : Store) (sym : Bytes) (f : Group → Group) : Store :=
  st.map fun g => if g.symbol == sym then f g else g

def DOT : UInt8 := 46

/-- `parentName` -/
def parentName (sym : Bytes) : Bytes :=
  match Bytes.lastIndexOf DOT sym with
  | none => []
  | some i => sym.take i

/-- `getGroup`: create the group and any missing parents -/
def getGroup : Nat → Store → Bytes → Store
  | 0, st, _ => st
  | f + 1, st, sym =>
    if (find st sym).isSome then st else
    let p := parentName sym
    let st1 := getGroup f st p
    let st2 := st1 ++ [⟨sym, [], none, []⟩]
    update st2 p (fun g => { g with subs := g.subs ++ [sym] })

def ensure (st : Store) (sym : Bytes) : Store := getGroup (sym.length + 2) st sym

def initStore : Store := [⟨[], Bytes.ofString "Refs to walk", none, []⟩]

/-- `initializeStandardRefgroups` over the regenerated table -/
def addBuiltins (st : Store) : Store :=
  Gen.Tables.builtinRefgroups.foldl (fun st (sym, name, kind, pat) =>
    let s := Bytes.ofString sym
    let st := ensure st s
    let flt : F Pat0 := if kind == "prefix" then
        (if pat.isEmpty then .atom .all else .atom (.pfx (Bytes.ofString pat)))
      else .atom (.re (Bytes.ofString pat))
    update st s (fun g => { g with name := Bytes.ofString name, filter := some flt })) st

abbrev CfgEntries := List (Bytes × Bytes)

/-- the (fake or real) configger: entries under `prefix`, prefix stripped -/
def getConfig (all : CfgEntries) (pfx : Bytes) : CfgEntries :=
  all.filterMap fun (k, v) =>
    let (ok, rest) := Config.keyMatchesPrefix k pfx
    if ok then some (rest, v) else none

def mkPrefix (v : Bytes) : Pat0 := if v.isEmpty then .all else .pfx v

/-- how a group's own entries are looked up: `GetConfig("refgroup." ++ symbol ++ ".")` in the code
    (after the repair of F17; before it the prefix lacked the final "."). -/
abbrev Lookup := CfgEntries → Bytes → CfgEntries

def lookupCode : Lookup := fun all sym => getConfig all (Bytes.ofString "refgroup." ++ sym ++ [46])
def lookupCodeOld : Lookup := fun all sym => getConfig all (Bytes.ofString "refgroup." ++ sym)

/-- `augmentFromConfig`: apply the group's own entries in order -/
def augment (lk : Lookup) (env : Env) (all : CfgEntries) (g : Group) : Except String Group :=
  let entries := lk all g.symbol
  entries.foldlM (fun g (k, v) =>
    if k == Bytes.ofString "name" then pure { g with name := v }
    else if k == Bytes.ofString "include" then
      pure { g with filter := some (combine ⟨true, mkPrefix v⟩ g.filter) }
    else if k == Bytes.ofString "includeregexp" then
      if env.reOK v then pure { g with filter := some (combine ⟨true, .re v⟩ g.filter) } else throw "invalid-regexp"
    else if k == Bytes.ofString "exclude" then
      pure { g with filter := some (combine ⟨false, mkPrefix v⟩ g.filter) }
    else if k == Bytes.ofString "excluderegexp" then
      if env.reOK v then pure { g with filter := some (combine ⟨false, .re v⟩ g.filter) } else throw "invalid-regexp"
    else pure g) g

/-- one step of the discovery loop of `readRefgroupsFromGitconfig` -/
def readStep (lk : Lookup) (env : Env) (all : CfgEntries) (acc : Store × List Bytes) (e : Bytes × Bytes) :
    Except String (Store × List Bytes) :=
  let sym := (Config.splitKey e.1).1
  if sym.isEmpty || acc.2.contains sym then pure acc else
    let st := ensure acc.1 sym
    match find st sym with
    | none => throw "internal"
    | some g =>
      match augment lk env all g with
      | .error err => throw err
      | .ok g' => pure (update st sym (fun _ => g'), sym :: acc.2)

/-- `readRefgroupsFromGitconfig` -/
def readConfig (lk : Lookup) (env : Env) (all : CfgEntries) (st : Store) : Except String Store :=
  match (getConfig all (Bytes.ofString "refgroup")).foldlM (readStep lk env all) (st, []) with
  | .error err => .error err
  | .ok r => .ok r.1

/-- `NewRefGroupBuilder` -/
def newBuilderWith (lk : Lookup) (env : Env) (all : CfgEntries) : Except String Store :=
  readConfig lk env all (addBuiltins initStore)
def newBuilder (env : Env) (all : CfgEntries) : Except String Store := newBuilderWith lookupCode env all

/-! ### the forest as a tree (for the recursive functions) -/

inductive GTree where
  | node (sym name : Bytes) (filter : Option (F Pat0)) (kids : List GTree)
deriving Repr

def GTree.sym : GTree → Bytes | .node s _ _ _ => s
def GTree.kids : GTree → List GTree | .node _ _ _ k => k
def GTree.filter : GTree → Option (F Pat0) | .node _ _ f _ => f

def mkTree : Nat → Store → Bytes → GTree
  | 0, _, sym => .node sym [] none []
  | f + 1, st, sym =>
    match find st sym with
    | none => .node sym [] none []
    | some g => .node g.symbol g.name g.filter (g.subs.map (mkTree f st))

def toTree (st : Store) : GTree := mkTree (st.length + 1) st []

/-- the synthetic "Other" bucket of a group with subgroups -/
def otherSymbol (sym : Bytes) : Bytes :=
  if sym.isEmpty then Bytes.ofString "other" else sym ++ Bytes.ofString ".other"

/-- display name after `fillInTree`: the last component of the symbol if none was configured -/
def displayName (sym name : Bytes) : Bytes := if name.isEmpty then (Config.splitKey sym).2 else name

mutual
/-- `fillInTree`: `none` = "refgroup is not defined"; otherwise the groups in output order -/
def fillIn : GTree → Option (List (Bytes × Bytes))
  | .node sym name filter kids =>
    if filter.isNone && kids.isEmpty then none else
    match fillInList kids with
    | none => none
    | some rest =>
      some ((sym, displayName sym name) :: rest ++
        (if kids.isEmpty then [] else [(otherSymbol sym, Bytes.ofString "Other")]))
def fillInList : List GTree → Option (List (Bytes × Bytes))
  | [] => some []
  | t :: ts =>
    match fillIn t with
    | none => none
    | some a => match fillInList ts with
      | none => none
      | some b => some (a ++ b)
end

mutual
/-- `collectSymbols` for a group whose own filter (if any) is evaluated with `ev` -/
def collect (ev : F Pat0 → Bool) : GTree → Bool × List Bytes
  | .node sym _ filter kids =>
    match filter with
    | none =>
      let (w, ss) := collectList ev kids
      (w, if ss.isEmpty then [] else sym :: ss)
    | some f =>
      if !ev f then (false, []) else
      let (_, ss) := collectList ev kids
      (true, sym :: ss ++ (if !kids.isEmpty && ss.isEmpty then [otherSymbol sym] else []))
/-- (does any subgroup say walk, concatenation of the subgroups' symbols) -/
def collectList (ev : F Pat0 → Bool) : List GTree → Bool × List Bytes
  | [] => (false, [])
  | t :: ts =>
    let (w, s) := collect ev t
    let (w', s') := collectList ev ts
    (w || w', s ++ s')
end

mutual
/-- `refGroupMatches` -/
def matchesT (ev : F Pat0 → Bool) : GTree → Bool
  | .node _ _ filter kids =>
    match filter with
    | some f => ev f
    | none => matchesList ev kids
def matchesList (ev : F Pat0 → Bool) : List GTree → Bool
  | [] => false
  | t :: ts => matchesT ev t || matchesList ev ts
end

/-- `refGroupPasses(rg.parent)`: every proper ancestor below the top level lets the name through -/
def passes (ev : F Pat0 → Bool) : Nat → Store → Bytes → Bool
  | 0, _, _ => true
  | f + 1, st, sym =>
    if sym.isEmpty then true else
    passes ev f st (parentName sym) &&
      (match find st sym with
       | none => true
       | some g => match g.filter with
         | none => true
         | some flt => ev flt)

/-- `refGroupFilter.Filter` -/
def groupFilter (env : Env) (st : Store) (sym : Bytes) (r : Bytes) : Bool :=
  let ev := fun (f : F Pat0) => f.eval (m0 env) r
  passes ev (sym.length + 2) st (parentName sym) && matchesT ev (mkTree (st.length + 1) st sym)

def mTop (env : Env) (st : Store) : Pat → Bytes → Bool
  | .base p, r => m0 env p r
  | .grp sym, r => groupFilter env st sym r

/-! ### reference options -/

/-- `strconv.ParseBool` -/
def parseBool (s : Bytes) : Option Bool :=
  let str := Bytes.toStringLossy s
  if ["1", "t", "T", "TRUE", "true", "True"].contains str then some true
  else if ["0", "f", "F", "FALSE", "false", "False"].contains str then some false
  else none

/-- `interpretFlexibly` -/
def interpretFlexibly (env : Env) (st : Store) (s : Bytes) : Except String Pat :=
  if s.length ≥ 2 ∧ s.head? = some 47 ∧ s.getLast? = some 47 then
    let p := (s.drop 1).dropLast
    if env.reOK p then pure (.base (.re p)) else throw "invalid-regexp"
  else if s.head? = some 64 then
    let name := s.drop 1
    if name.isEmpty then throw "missing-refgroup-name"
    else if (find st name).isNone then throw "undefined-refgroup"
    else pure (.grp name)
  else pure (.base (mkPrefix s))

/-- one parsed command-line option: flag name and its argument (`none`: given without `=value`) -/
structure CmdOpt where
  flag : String
  value : Option Bytes
deriving Repr

/-- `Set` of the flag's value object: the option contributed to the top-level filter -/
def applyOpt (env : Env) (st : Store) (o : CmdOpt) : Except String (Opt Pat) :=
  match Gen.Tables.refOptions.find? (fun e => e.1 == o.flag) with
  | none => throw "unknown-flag"
  | some (_, kind, comb, pattern, isRe, noOpt, _) =>
    let incl := comb == "Include"
    let arg? : Option Bytes := match o.value with
      | some v => some v
      | none => if noOpt.isEmpty then none else some (Bytes.ofString noOpt)
    match arg? with
    | none => throw "flag-needs-an-argument"
    | some s =>
      if kind == "filterGroupValue" then
        if s.isEmpty || (find st s).isNone then throw "undefined-refgroup" else pure ⟨true, .grp s⟩
      else if !pattern.isEmpty then
        match parseBool s with
        | none => throw "bad-bool"
        | some b =>
          let incl' := if b then incl else !incl
          let p := Bytes.ofString pattern
          if isRe then (if env.reOK p then pure ⟨incl', .base (.re p)⟩ else throw "invalid-regexp")
          else (interpretFlexibly env st p).map (fun pat => ⟨incl', pat⟩)
      else if isRe then (if env.reOK s then pure ⟨incl, .base (.re s)⟩ else throw "invalid-regexp")
      else (interpretFlexibly env st s).map (fun pat => ⟨incl, pat⟩)

def applyOpts (env : Env) (st : Store) (os : List CmdOpt) : Except String (List (Opt Pat)) :=
  os.mapM (applyOpt env st)

/-- result of a whole run of the reference machinery on one reference name -/
structure Cat where
  walk : Bool
  symbols : List Bytes
deriving Repr, DecidableEq

def ignoredSymbol : Bytes := Bytes.ofString "ignored"

/-- `Categorize` of the grouper returned by `Finish(defaultAll)` -/
def categorize (env : Env) (st : Store) (opts : List (Opt Pat)) (defaultAll : Bool) (r : Bytes) : Cat :=
  let topPass := selected (mTop env st) opts defaultAll r
  let ev := fun (f : F Pat0) => f.eval (m0 env) r
  match toTree st with
  | .node sym _ _ kids =>
    if !topPass then ⟨false, [ignoredSymbol]⟩ else
    let (_, ss) := collectList ev kids
    ⟨true, sym :: ss ++ (if !kids.isEmpty && ss.isEmpty then [otherSymbol sym] else [])⟩

/-- `Groups()`: output order, or `none` if `Finish` fails with "not defined" -/
def groupsOut (st : Store) : Option (List (Bytes × Bytes)) :=
  match toTree st with
  | .node sym name _ kids =>
    -- the top-level group always has a filter after `Finish`
    match fillInList kids with
    | none => none
    | some rest => some ((sym, displayName sym name) :: rest ++
        (if kids.isEmpty then [] else [(otherSymbol sym, Bytes.ofString "Other")]) ++
        [(ignoredSymbol, Bytes.ofString "Ignored")])

end GitSizer.RefGroups
