import GitSizer.Model.Pipeline
/-! # The three-stage pipeline of the object-contents phases (`git/batch_obj_iter.go`)

Same protocol as `Model/Pipeline` with the two middle stages removed: the feeder goroutine requests
objects over `oidCh`; stage 1 (`request-objects`) copies the ids into the stdin pipe `a` of
`git cat-file --batch`, which answers object by object into pipe `d`; the `object-reader` stage sends the
records over `objCh` and closes it; the scanning goroutine receives (the three counted loops and the
final `Next()` together: it never stops receiving before the channel is closed — unless it returns an error
of its own, which ends the scan and is not modelled as a step),
then `Wait()`s and receives the feeder's report. -/
namespace GitSizer.Pipeline3
open GitSizer.Pipeline (Pipe Feeder Copy Parser Main)

structure St where
  feeder : Feeder
  oidClosed : Bool
  s1 : Copy
  s1ok : Bool
  a : Pipe
  g2 : Copy
  d : Pipe
  s5 : Parser
  hdrClosed : Bool
  main : Main
  errChan : Nat
  err : Bool
deriving Repr, DecidableEq

def init (requests : Option Nat) (ca cd : Nat) : St :=
  { feeder := (match requests with | some k => .send k | none => .close), oidClosed := false, s1 := .read, s1ok := false,
    a := Pipe.fresh ca, g2 := .read, d := Pipe.fresh cd, s5 := .read, hdrClosed := false, main := .recv, errChan := 0, err := false }

inductive Step : St → St → Prop where
  | feedMore (s : St) (k : Nat) : s.feeder = .send (k + 1) → s.s1 = .read → s.oidClosed = false →
      Step s { s with feeder := .send k, s1 := .write }
  | feedLast (s : St) : s.feeder = .send 0 → s.s1 = .read → s.oidClosed = false →
      Step s { s with feeder := .close, s1 := .write }
  | feederClose (s : St) : s.feeder = .close → Step s { s with feeder := .report, oidClosed := true }
  | feederReport (s : St) : s.feeder = .report → Step s { s with feeder := .done, errChan := s.errChan + 1 }
  | s1End (s : St) : s.s1 = .read → s.oidClosed = true → Step s { s with s1 := .done, s1ok := true, a := { s.a with wclosed := true } }
  | s1Write (s : St) : s.s1 = .write → s.a.rclosed = false → s.a.n < s.a.cap → Step s { s with s1 := .read, a := { s.a with n := s.a.n + 1 } }
  | s1Epipe (s : St) : s.s1 = .write → s.a.rclosed = true → Step s { s with s1 := .done, err := true, a := { s.a with wclosed := true } }
  | g2Read (s : St) : s.g2 = .read → 0 < s.a.n → Step s { s with g2 := .write, a := { s.a with n := s.a.n - 1 } }
  | g2Eof (s : St) : s.g2 = .read → s.a.n = 0 → s.a.wclosed = true →
      Step s { s with g2 := .done, a := { s.a with rclosed := true }, d := { s.d with wclosed := true } }
  | g2Write (s : St) : s.g2 = .write → s.d.rclosed = false → s.d.n < s.d.cap → Step s { s with g2 := .read, d := { s.d with n := s.d.n + 1 } }
  | g2Epipe (s : St) : s.g2 = .write → s.d.rclosed = true →
      Step s { s with g2 := .done, err := true, a := { s.a with rclosed := true }, d := { s.d with wclosed := true } }
  | s5Read (s : St) : s.s5 = .read → 0 < s.d.n → Step s { s with s5 := .send, d := { s.d with n := s.d.n - 1 } }
  | s5Bad (s : St) : s.s5 = .read → 0 < s.d.n →
      Step s { s with s5 := .done, err := true, hdrClosed := true, d := { s.d with n := s.d.n - 1, rclosed := true } }
  | s5Eof (s : St) : s.s5 = .read → s.d.n = 0 → s.d.wclosed = true →
      Step s { s with s5 := .done, hdrClosed := true, d := { s.d with rclosed := true } }
  | mainRecv (s : St) : s.main = .recv → s.s5 = .send → Step s { s with s5 := .read }
  | mainClosed (s : St) : s.main = .recv → s.hdrClosed = true → Step s { s with main := .wait }
  | mainWaitErr (s : St) : s.main = .wait → s.s1 = .done → s.g2 = .done → s.s5 = .done → s.err = true → Step s { s with main := .done }
  | mainWaitOk (s : St) : s.main = .wait → s.s1 = .done → s.g2 = .done → s.s5 = .done → s.err = false → Step s { s with main := .errchan }
  | mainErrchan (s : St) : s.main = .errchan → 0 < s.errChan → Step s { s with main := .done, errChan := s.errChan - 1 }

inductive Env : St → St → Prop where
  | g2Die (s : St) : s.g2 ≠ .done →
      Env s { s with g2 := .done, err := true, a := { s.a with rclosed := true }, d := { s.d with wclosed := true } }

inductive Reach (s0 : St) : St → Prop where
  | refl : Reach s0 s0
  | step {s s' : St} : Reach s0 s → Step s s' → Reach s0 s'
  | env {s s' : St} : Reach s0 s → Env s s' → Reach s0 s'

end GitSizer.Pipeline3
