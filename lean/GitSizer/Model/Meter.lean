/-! Model of `meter/meter.go` as an interleaving system. Atomic steps (delimited by `p.lock` and
    the atomics): `Start`, `Inc`, `Tick g` (the whole critical section of ticker goroutine `g` —
    any live or stale goroutine, at any time), `Done`. The worker's program order is
    `(Start Inc* Done)*`; ticks are unconstrained. -/
namespace GitSizer.Meter

inductive Ev where
  | start | inc | done
  | tick (g : Nat)
deriving Repr

structure Line where
  phase : Nat
  count : Nat
  final : Bool
deriving Repr, DecidableEq

structure M where
  cur : Option Nat      -- p.ticker (identity of the live ticker); none = nil / not started
  next : Nat            -- fresh ticker identities
  live : List Nat       -- ticker goroutines that have not returned yet
  count : Nat           -- p.count
  incs : Nat            -- ghost: number of Inc() calls in the current phase
  phase : Nat
  fin : List (Nat × Nat)  -- ghost: (phase, number of Inc() calls) of every finished phase
  out : List Line       -- lines written to the writer, oldest first

def init : M := ⟨none, 0, [], 0, 0, 0, [], []⟩

/-- one atomic step; `none` = the worker violated its own program order -/
def step (m : M) : Ev → Option M
  | .start => if m.cur.isSome then none else
      some { m with cur := some m.next, next := m.next + 1, live := m.next :: m.live, count := 0, incs := 0, phase := m.phase + 1 }
  | .inc => if m.cur.isNone then none else some { m with count := m.count + 1, incs := m.incs + 1 }
  | .done => if m.cur.isNone then none else
      some { m with cur := none, out := m.out ++ [⟨m.phase, m.count, true⟩], fin := m.fin ++ [(m.phase, m.incs)] }
  | .tick g =>
    if g ∈ m.live then
      if m.cur = some g then some { m with out := m.out ++ [⟨m.phase, m.count, false⟩] }
      else some { m with live := m.live.erase g }          -- "We're done."
    else some m

def run : List Ev → M → Option M
  | [], m => some m
  | e :: es, m => match step m e with | some m' => run es m' | none => none

/-- what the property says about the written lines, pairwise (earlier `a`, later `b`): phases in
    order; within a phase counts never decrease and nothing follows the final line -/
def R (a b : Line) : Prop :=
  a.phase ≤ b.phase ∧ (a.phase = b.phase → a.count ≤ b.count ∧ a.final = false)

/-- decidable check of an observed history against the worker's script (number of `Inc()` calls
    per phase, phases numbered from 1): used by the `meter` engine to judge real histories -/
def validHistory (script : List Nat) (lines : List Line) : Bool :=
  let rec pairwise : List Line → Bool
    | [] => true
    | a :: rest => rest.all (fun b => decide (a.phase ≤ b.phase) && (a.phase != b.phase || (decide (a.count ≤ b.count) && !a.final))) && pairwise rest
  pairwise lines &&
  lines.all (fun l => decide (1 ≤ l.phase ∧ l.phase ≤ script.length) && decide (l.count ≤ script.getD (l.phase - 1) 0) &&
    (!l.final || l.count == script.getD (l.phase - 1) 0)) &&
  (List.range script.length).all (fun i => (lines.filter (fun l => l.phase == i + 1 && l.final)).length == 1)

end GitSizer.Meter
