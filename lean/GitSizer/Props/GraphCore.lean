import GitSizer.Gen.Cmds
/-! # The aggregator core of sizes/graph.go, statement by statement

`Gen.Cmds.graphFlows` is REGENERATED on every run by tools/gofacts: every statement of
`RegisterBlob/Tree/Commit/Tag/Reference`, `treeRecord.initialize/maybeFinalize`,
`tagRecord.initialize/maybeFinalize`, `finalizeTree/TagSize`, `RequireTree/TagSize`, `Get*Size` and
`HistorySize`, in source order, with its branch path. `Model/Graph` + `Model/Agg` were written against
exactly these statements (`expected` below is that reading, kept by hand); `graph_core_pinned` fails
as soon as the source says anything else, and the theorems after it are decidable facts about the
regenerated list that the properties' mechanisms rely on. -/
namespace GitSizer.GraphCore

abbrev Ev := String × String × List (String × String)

def expected : List (String × List Ev) := [
  ("Graph.RegisterBlob", [
    ("assign", "size := BlobSize{Size: objectSize}", []),
    ("call", "g.blobLock.Lock()", []),
    ("assign", "g.blobSizes[oid] = size", []),
    ("call", "g.blobLock.Unlock()", []),
    ("call", "g.historyLock.Lock()", []),
    ("call", "g.historySize.recordBlob(g, oid, size)", []),
    ("call", "g.historyLock.Unlock()", [])]),
  ("Graph.RegisterTree", [
    ("call", "g.treeLock.Lock()", []),
    ("assign", "_, ok := g.treeSizes[oid]", []),
    ("if", "ok", [("i1", "")]),
    ("call", "panic(fmt.Sprintf(\"tree %s registered twice!\", oid))", [("i1", "t")]),
    ("assign", "record, ok := g.treeRecords[oid]", []),
    ("if", "!ok", [("i2", "")]),
    ("assign", "record = newTreeRecord(oid)", [("i2", "t")]),
    ("assign", "g.treeRecords[oid] = record", [("i2", "t")]),
    ("call", "g.treeLock.Unlock()", []),
    ("return-err", "record.initialize(g, oid, tree)", [])]),
  ("treeRecord.initialize", [
    ("call", "r.lock.Lock()", []),
    ("defer", "r.lock.Unlock()", []),
    ("assign", "r.objectSize = tree.Size()", []),
    ("assign", "r.pending = 0", []),
    ("assign", "iter := tree.Iter()", []),
    ("for", "", [("f1", "loop")]),
    ("assign-err", "entry, ok, err := iter.NextEntry()", [("f1", "loop")]),
    ("if", "err != nil", [("f1", "loop"), ("i2", "")]),
    ("return-err", "err", [("f1", "loop"), ("i2", "t")]),
    ("if", "!ok", [("f1", "loop"), ("i3", "")]),
    ("break", "", [("f1", "loop"), ("i3", "t")]),
    ("assign", "name := entry.Name", [("f1", "loop")]),
    ("switch", "", [("f1", "loop"), ("s4", "")]),
    ("case", "entry.Filemode&0o170000 == 0o40000", [("f1", "loop"), ("s4", "c0")]),
    ("assign", "listener := func(size TreeSize) { r.lock.Lock() defer r.lock.Unlock() g.pathResolver.RecordTreeEntry(oid, name, entry.OID) r.size.addDescendent(name, size) r.pending-- r.maybeFinalize(g) }", [("f1", "loop"), ("s4", "c0")]),
    ("assign", "treeSize, ok := g.RequireTreeSize(entry.OID, listener)", [("f1", "loop"), ("s4", "c0")]),
    ("if", "ok", [("f1", "loop"), ("s4", "c0"), ("i5", "")]),
    ("call", "r.size.addDescendent(name, treeSize)", [("f1", "loop"), ("s4", "c0"), ("i5", "t")]),
    ("assign", "r.pending++", [("f1", "loop"), ("s4", "c0"), ("i5", "e")]),
    ("call", "r.entryCount.Increment(1)", [("f1", "loop"), ("s4", "c0")]),
    ("case", "entry.Filemode&0o170000 == 0o160000", [("f1", "loop"), ("s4", "c1")]),
    ("call", "r.size.addSubmodule(name)", [("f1", "loop"), ("s4", "c1")]),
    ("call", "r.entryCount.Increment(1)", [("f1", "loop"), ("s4", "c1")]),
    ("case", "entry.Filemode&0o170000 == 0o120000", [("f1", "loop"), ("s4", "c2")]),
    ("call", "g.pathResolver.RecordTreeEntry(oid, name, entry.OID)", [("f1", "loop"), ("s4", "c2")]),
    ("call", "r.size.addLink(name)", [("f1", "loop"), ("s4", "c2")]),
    ("call", "r.entryCount.Increment(1)", [("f1", "loop"), ("s4", "c2")]),
    ("case", "default", [("f1", "loop"), ("s4", "c3")]),
    ("call", "g.pathResolver.RecordTreeEntry(oid, name, entry.OID)", [("f1", "loop"), ("s4", "c3")]),
    ("assign", "blobSize := g.GetBlobSize(entry.OID)", [("f1", "loop"), ("s4", "c3")]),
    ("call", "r.size.addBlob(name, blobSize)", [("f1", "loop"), ("s4", "c3")]),
    ("call", "r.entryCount.Increment(1)", [("f1", "loop"), ("s4", "c3")]),
    ("call", "r.maybeFinalize(g)", []),
    ("return", "nil", [])]),
  ("treeRecord.maybeFinalize", [
    ("if", "r.pending == 0", [("i1", "")]),
    ("call", "g.finalizeTreeSize(r.oid, r.size, r.objectSize, r.entryCount)", [("i1", "t")]),
    ("for", "_, listener := range r.listeners", [("i1", "t"), ("f2", "loop")]),
    ("call", "listener(r.size)", [("i1", "t"), ("f2", "loop")])]),
  ("Graph.finalizeTreeSize", [
    ("call", "g.treeLock.Lock()", []),
    ("assign", "g.treeSizes[oid] = size", []),
    ("call", "delete(g.treeRecords, oid)", []),
    ("call", "g.treeLock.Unlock()", []),
    ("call", "g.historyLock.Lock()", []),
    ("call", "g.historySize.recordTree(g, oid, size, objectSize, treeEntries)", []),
    ("call", "g.historyLock.Unlock()", [])]),
  ("Graph.RequireTreeSize", [
    ("call", "g.treeLock.Lock()", []),
    ("assign", "size, ok := g.treeSizes[oid]", []),
    ("if", "ok", [("i1", "")]),
    ("call", "g.treeLock.Unlock()", [("i1", "t")]),
    ("return", "size, true", [("i1", "t")]),
    ("assign", "record, ok := g.treeRecords[oid]", []),
    ("if", "!ok", [("i2", "")]),
    ("assign", "record = newTreeRecord(oid)", [("i2", "t")]),
    ("assign", "g.treeRecords[oid] = record", [("i2", "t")]),
    ("call", "record.addListener(listener)", []),
    ("call", "g.treeLock.Unlock()", []),
    ("return", "TreeSize{}, false", [])]),
  ("Graph.GetTreeSize", [
    ("call", "g.treeLock.Lock()", []),
    ("assign", "size, ok := g.treeSizes[oid]", []),
    ("if", "!ok", [("i1", "")]),
    ("call", "panic(\"tree size not available!\")", [("i1", "t")]),
    ("call", "g.treeLock.Unlock()", []),
    ("return", "size", [])]),
  ("Graph.GetBlobSize", [
    ("assign", "size, ok := g.blobSizes[oid]", []),
    ("if", "!ok", [("i1", "")]),
    ("call", "panic(\"blob size not known\")", [("i1", "t")]),
    ("return", "size", [])]),
  ("Graph.RegisterCommit", [
    ("call", "g.commitLock.Lock()", []),
    ("assign", "_, ok := g.commitSizes[oid]", []),
    ("if", "ok", [("i1", "")]),
    ("call", "panic(fmt.Sprintf(\"commit %s registered twice!\", oid))", [("i1", "t")]),
    ("call", "g.commitLock.Unlock()", []),
    ("assign", "parentCount := counts.NewCount32(uint64(len(commit.Parents)))", []),
    ("assign", "size := CommitSize{}", []),
    ("assign", "treeSize := g.GetTreeSize(commit.Tree)", []),
    ("call", "size.addTree(treeSize)", []),
    ("for", "_, parent := range commit.Parents", [("f2", "loop")]),
    ("assign", "parentSize := g.GetCommitSize(parent)", [("f2", "loop")]),
    ("call", "size.addParent(parentSize)", [("f2", "loop")]),
    ("call", "size.MaxAncestorDepth.Increment(1)", []),
    ("call", "g.commitLock.Lock()", []),
    ("assign", "g.commitSizes[oid] = size", []),
    ("call", "g.commitLock.Unlock()", []),
    ("call", "g.historyLock.Lock()", []),
    ("call", "g.historySize.recordCommit(g, oid, size, commit.Size, parentCount)", []),
    ("call", "g.historyLock.Unlock()", [])]),
  ("Graph.GetCommitSize", [
    ("call", "g.commitLock.Lock()", []),
    ("assign", "size, ok := g.commitSizes[oid]", []),
    ("if", "!ok", [("i1", "")]),
    ("call", "panic(\"commit is not available\")", [("i1", "t")]),
    ("call", "g.commitLock.Unlock()", []),
    ("return", "size", [])]),
  ("Graph.RegisterTag", [
    ("call", "g.tagLock.Lock()", []),
    ("assign", "_, ok := g.tagSizes[oid]", []),
    ("if", "ok", [("i1", "")]),
    ("call", "panic(fmt.Sprintf(\"tag %s registered twice!\", oid))", [("i1", "t")]),
    ("assign", "record, ok := g.tagRecords[oid]", []),
    ("if", "!ok", [("i2", "")]),
    ("assign", "record = newTagRecord(oid)", [("i2", "t")]),
    ("assign", "g.tagRecords[oid] = record", [("i2", "t")]),
    ("call", "g.tagLock.Unlock()", []),
    ("call", "record.initialize(g, oid, tag)", [])]),
  ("tagRecord.initialize", [
    ("call", "r.lock.Lock()", []),
    ("defer", "r.lock.Unlock()", []),
    ("assign", "r.objectSize = tag.Size", []),
    ("assign", "r.pending = 0", []),
    ("assign", "r.size.TagDepth = 1", []),
    ("switch", "tag.ReferentType", [("s1", "")]),
    ("case", "\"tag\"", [("s1", "c0")]),
    ("assign", "listener := func(size TagSize) { r.lock.Lock() defer r.lock.Unlock() r.size.TagDepth.Increment(size.TagDepth) r.pending-- r.maybeFinalize(g) }", [("s1", "c0")]),
    ("assign", "tagSize, ok := g.RequireTagSize(tag.Referent, listener)", [("s1", "c0")]),
    ("if", "ok", [("s1", "c0"), ("i2", "")]),
    ("call", "r.size.TagDepth.Increment(tagSize.TagDepth)", [("s1", "c0"), ("i2", "t")]),
    ("assign", "r.pending++", [("s1", "c0"), ("i2", "e")]),
    ("case", "\"commit\"", [("s1", "c1")]),
    ("case", "\"tree\"", [("s1", "c2")]),
    ("case", "\"blob\"", [("s1", "c3")]),
    ("case", "default", [("s1", "c4")]),
    ("call", "r.maybeFinalize(g)", [])]),
  ("tagRecord.maybeFinalize", [
    ("if", "r.pending == 0", [("i1", "")]),
    ("call", "g.finalizeTagSize(r.oid, r.size, r.objectSize)", [("i1", "t")]),
    ("for", "_, listener := range r.listeners", [("i1", "t"), ("f2", "loop")]),
    ("call", "listener(r.size)", [("i1", "t"), ("f2", "loop")])]),
  ("Graph.finalizeTagSize", [
    ("call", "g.tagLock.Lock()", []),
    ("assign", "g.tagSizes[oid] = size", []),
    ("call", "delete(g.tagRecords, oid)", []),
    ("call", "g.tagLock.Unlock()", []),
    ("call", "g.historyLock.Lock()", []),
    ("call", "g.historySize.recordTag(g, oid, size, objectSize)", []),
    ("call", "g.historyLock.Unlock()", [])]),
  ("Graph.RequireTagSize", [
    ("call", "g.tagLock.Lock()", []),
    ("assign", "size, ok := g.tagSizes[oid]", []),
    ("if", "ok", [("i1", "")]),
    ("call", "g.tagLock.Unlock()", [("i1", "t")]),
    ("return", "size, true", [("i1", "t")]),
    ("assign", "record, ok := g.tagRecords[oid]", []),
    ("if", "!ok", [("i2", "")]),
    ("assign", "record = newTagRecord(oid)", [("i2", "t")]),
    ("assign", "g.tagRecords[oid] = record", [("i2", "t")]),
    ("call", "record.addListener(listener)", []),
    ("call", "g.tagLock.Unlock()", []),
    ("return", "TagSize{}, false", [])]),
  ("Graph.RegisterReference", [
    ("call", "g.historyLock.Lock()", []),
    ("call", "g.historySize.recordReference(g, ref)", []),
    ("for", "_, group := range groups", [("f1", "loop")]),
    ("call", "g.historySize.recordReferenceGroup(g, group)", [("f1", "loop")]),
    ("call", "g.historyLock.Unlock()", [])]),
  ("Graph.HistorySize", [
    ("call", "g.treeLock.Lock()", []),
    ("defer", "g.treeLock.Unlock()", []),
    ("call", "g.tagLock.Lock()", []),
    ("defer", "g.tagLock.Unlock()", []),
    ("call", "g.historyLock.Lock()", []),
    ("defer", "g.historyLock.Unlock()", []),
    ("if", "len(g.treeRecords) != 0", [("i1", "")]),
    ("call", "panic(fmt.Sprintf(\"%d tree records remain!\", len(g.treeRecords)))", [("i1", "t")]),
    ("if", "len(g.tagRecords) != 0", [("i2", "")]),
    ("call", "panic(fmt.Sprintf(\"%d tag records remain!\", len(g.tagRecords)))", [("i2", "t")]),
    ("return", "g.historySize", [])])]

/-- **the source of the aggregator core is the text the model was written against** -/
theorem graph_core_pinned : (Gen.Cmds.graphFlows == expected) = true := by decide +kernel

def flowOf (name : String) : List Ev := ((Gen.Cmds.graphFlows.find? (fun f => f.1 == name)).map (·.2)).getD []

/-- the cases of the entry switch of `treeRecord.initialize`: (condition, statements directly in the case) -/
def entryCases : List (String × List String) :=
  let fl := flowOf "treeRecord.initialize"
  (fl.filter (fun e => e.1 == "case")).map (fun c =>
    (c.2.1, (fl.filter (fun e => e.1 != "case" && e.2.2 == c.2.2)).map (·.2.1)))

/-- **every tree entry is counted, whatever its kind** (C02: entries of a tree; C01: total entries):
    the mode switch has the four cases tree / submodule / symlink / everything else, each case
    increments `entryCount` exactly once, directly in the case, and the loop has no `continue` -/
theorem every_entry_counted :
    entryCases.map (·.1) = ["entry.Filemode&0o170000 == 0o40000", "entry.Filemode&0o170000 == 0o160000",
                             "entry.Filemode&0o170000 == 0o120000", "default"] ∧
    entryCases.all (fun c => (c.2.filter (· == "r.entryCount.Increment(1)")).length == 1) = true ∧
    (flowOf "treeRecord.initialize").all (fun e => e.1 != "continue" && e.1 != "goto") = true := by
  refine ⟨?_, ?_, ?_⟩ <;> decide +kernel

/-- **each kind of entry feeds its own `add*`** (C04): subtrees `addDescendent` (at once when the
    subtree's size is known, else from the listener, which is the only other place),
    submodules `addSubmodule`, symlinks `addLink`, everything else `addBlob` with the blob's recorded size -/
theorem entry_kinds_feed_their_adders :
    (entryCases.map (fun c => c.2.filter (fun s => s == "r.size.addSubmodule(name)" || s == "r.size.addLink(name)" ||
        s == "r.size.addBlob(name, blobSize)" || s == "blobSize := g.GetBlobSize(entry.OID)"))) =
      [[], ["r.size.addSubmodule(name)"], ["r.size.addLink(name)"], ["blobSize := g.GetBlobSize(entry.OID)", "r.size.addBlob(name, blobSize)"]] ∧
    ((flowOf "treeRecord.initialize").filter (fun e => e.2.1 == "r.size.addDescendent(name, treeSize)" || e.2.1 == "r.pending++")).map
        (fun e => (e.2.1, e.2.2.getLast?.map (·.2))) = [("r.size.addDescendent(name, treeSize)", some "t"), ("r.pending++", some "e")] := by
  constructor <;> decide +kernel

/-- **a commit's depth is computed over ALL of its parents** (C03): `RegisterCommit` adds the tree,
    then ranges over `commit.Parents` adding every parent's size, then increments the depth by one -/
theorem commit_depth_over_all_parents :
    ((flowOf "Graph.RegisterCommit").filter (fun e => e.1 == "for" || e.2.2.any (fun c => c.2 == "loop") ||
        e.2.1 == "size.MaxAncestorDepth.Increment(1)" || e.2.1 == "size.addTree(treeSize)" || e.2.1 == "size := CommitSize{}")).map (fun e => (e.2.1, e.2.2.length)) =
      [("size := CommitSize{}", 0), ("size.addTree(treeSize)", 0), ("_, parent := range commit.Parents", 1),
       ("parentSize := g.GetCommitSize(parent)", 1), ("size.addParent(parentSize)", 1), ("size.MaxAncestorDepth.Increment(1)", 0)] := by
  decide +kernel

/-- **finalisation fires exactly when nothing is pending, and then tells every listener** (C09):
    both `maybeFinalize` methods are `if r.pending == 0 { finalize…; for each listener { listener(r.size) } }` -/
theorem finalize_when_nothing_pending :
    (flowOf "treeRecord.maybeFinalize").map (fun e => (e.1, e.2.1, e.2.2.length)) =
      [("if", "r.pending == 0", 1), ("call", "g.finalizeTreeSize(r.oid, r.size, r.objectSize, r.entryCount)", 1),
       ("for", "_, listener := range r.listeners", 2), ("call", "listener(r.size)", 2)] ∧
    (flowOf "tagRecord.maybeFinalize").map (fun e => (e.1, e.2.1, e.2.2.length)) =
      [("if", "r.pending == 0", 1), ("call", "g.finalizeTagSize(r.oid, r.size, r.objectSize)", 1),
       ("for", "_, listener := range r.listeners", 2), ("call", "listener(r.size)", 2)] := by
  constructor <;> decide +kernel

/-- **a finalised object is recorded once and its record is dropped** (C01, C09): `finalize*Size`
    stores the memo, deletes the pending record and calls `record*` once; `HistorySize()` panics when a
    tree or tag record remains -/
theorem finalize_records_once :
    ((flowOf "Graph.finalizeTreeSize").filter (fun e => e.1 != "call" || !(e.2.1 == "g.treeLock.Lock()" || e.2.1 == "g.treeLock.Unlock()" ||
        e.2.1 == "g.historyLock.Lock()" || e.2.1 == "g.historyLock.Unlock()"))).map (·.2.1) =
      ["g.treeSizes[oid] = size", "delete(g.treeRecords, oid)", "g.historySize.recordTree(g, oid, size, objectSize, treeEntries)"] ∧
    ((flowOf "Graph.finalizeTagSize").filter (fun e => e.1 != "call" || !(e.2.1 == "g.tagLock.Lock()" || e.2.1 == "g.tagLock.Unlock()" ||
        e.2.1 == "g.historyLock.Lock()" || e.2.1 == "g.historyLock.Unlock()"))).map (·.2.1) =
      ["g.tagSizes[oid] = size", "delete(g.tagRecords, oid)", "g.historySize.recordTag(g, oid, size, objectSize)"] ∧
    ((flowOf "Graph.HistorySize").filter (fun e => e.1 == "if")).map (·.2.1) = ["len(g.treeRecords) != 0", "len(g.tagRecords) != 0"] := by
  refine ⟨?_, ?_, ?_⟩ <;> decide +kernel

end GitSizer.GraphCore
