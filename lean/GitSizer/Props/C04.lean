import GitSizer.Proofs.GraphRun7
import GitSizer.Proofs.TreeInit
import GitSizer.Proofs.GraphTrees
import GitSizer.Proofs.History
/-! # C04 — Checkout metrics equal the recursive expansion of the worst tree
    `Spec.PN r` is the true expansion over `Nat` (a subtree occurring k times contributes k times,
    the tree itself counts as one directory, depth in components, length in bytes with one
    separator per level); `PB r` is the machine aggregator built from the code REGENERATED from
    sizes/sizes.go; `Agg.run` is the listener/pending aggregator of sizes/graph.go. -/
namespace GitSizer.C04
open GitSizer GitSizer.Spec GitSizer.Graph Gen

/-- the regenerated `addDescendent` is exactly "⊔ one more path component in front of the subtree" -/
theorem addDescendent_is_join (s : TreeSize) (name : List UInt8) (s2 : TreeSize) :
    TreeSize.addDescendent s name s2 = TS.op s (TS.desc name.length s2) := addDescendent_eq s name s2
theorem addBlob_is_join (s : TreeSize) (name : List UInt8) (b : BlobSize) :
    TreeSize.addBlob s name b = TS.op s (blobC name.length b.Size) := addBlob_eq s name b
theorem addLink_is_join (s : TreeSize) (name : List UInt8) :
    TreeSize.addLink s name = TS.op s (linkC name.length) := addLink_eq s name
theorem addSubmodule_is_join (s : TreeSize) (name : List UInt8) :
    TreeSize.addSubmodule s name = TS.op s (subC name.length) := addSubmodule_eq s name

/-- the machine expansion of every tree is the clamp of its true expansion -/
theorem expansion_is_clamped_truth (r : Repo) (ok : TreesOK r) (t : Nat) :
    toTN (Agg.expand (PB r) t) = clampN (Agg.expand (PN r) t) := expand_clamp r ok t

/-- **every finalised tree's memo is the clamp of its true recursive expansion**, for ANY
    duplicate-free delivery order of a downward-closed set of trees (subtrees before or after
    the trees that contain them, shared and repeated subtrees, empty trees) -/
theorem tree_memo (r : Repo) (ok : TreesOK r)
    (ds : List Nat) (hnd : ds.Nodup) (closed : ∀ t ∈ ds, ∀ e ∈ treeKids r t, e.2 ∈ ds)
    (fuel : Nat) (hfuel : Agg.K (PB r) ds ≤ fuel) :
    ∀ t ∈ ds, ∃ s, (Agg.run (PB r) fuel ds Agg.init).sizes t = some s ∧ toTN s = clampN (Agg.expand (PN r) t) :=
  (tree_memo_is_clamped_truth r ok ds hnd closed fuel hfuel).1

/-- **each dimension is maximised independently**: the regenerated `recordTree` takes, for every
    one of the seven checkout dimensions separately, the maximum of the old value and this tree's -/
theorem max_independent (h : HistorySize) (oid : Nat) (ts : TreeSize) (size entries : BitVec 32) :
    (HistorySize.recordTree h oid ts size entries).MaxPathDepth.toNat = max h.MaxPathDepth.toNat ts.MaxPathDepth.toNat ∧
    (HistorySize.recordTree h oid ts size entries).MaxPathLength.toNat = max h.MaxPathLength.toNat ts.MaxPathLength.toNat ∧
    (HistorySize.recordTree h oid ts size entries).MaxExpandedTreeCount.toNat = max h.MaxExpandedTreeCount.toNat ts.ExpandedTreeCount.toNat ∧
    (HistorySize.recordTree h oid ts size entries).MaxExpandedBlobCount.toNat = max h.MaxExpandedBlobCount.toNat ts.ExpandedBlobCount.toNat ∧
    (HistorySize.recordTree h oid ts size entries).MaxExpandedBlobSize.toNat = max h.MaxExpandedBlobSize.toNat ts.ExpandedBlobSize.toNat ∧
    (HistorySize.recordTree h oid ts size entries).MaxExpandedLinkCount.toNat = max h.MaxExpandedLinkCount.toNat ts.ExpandedLinkCount.toNat ∧
    (HistorySize.recordTree h oid ts size entries).MaxExpandedSubmoduleCount.toNat = max h.MaxExpandedSubmoduleCount.toNat ts.ExpandedSubmoduleCount.toNat :=
  let n := recordTree_numbers h oid ts size entries
  ⟨n.2.2.2.2.1, n.2.2.2.2.2.1, n.2.2.2.2.2.2.1, n.2.2.2.2.2.2.2.1, n.2.2.2.2.2.2.2.2.1, n.2.2.2.2.2.2.2.2.2.1, n.2.2.2.2.2.2.2.2.2.2⟩

/-- the true expansion unfolds as the property describes it: the tree's own entries plus, per
    subtree entry (once per occurrence), the subtree's expansion one path component deeper -/
theorem expansion_unfold (r : Repo) (wf : ∀ t e, e ∈ treeKids r t → e.2 < t) (t : Nat) :
    Agg.expand (PN r) t =
      Agg.msum (PN r) (baseN r (fun b => r.blobSize b) t ::
        (treeKids r t).map (fun e => TN.desc e.1 (Agg.expand (PN r) e.2))) :=
  Agg.expand_eq (P := PN r) wf t

/-- non-vacuity: a tree holding the same two-file subtree twice (a tiny "bomb") -/
def demo : Repo := [.blob 10, .tree 60 [⟨0o100644, [97], 0⟩, ⟨0o100644, [98, 98], 0⟩],
                    .tree 60 [⟨0o40000, [120], 1⟩, ⟨0o40000, [121], 1⟩]]
example : Agg.expand (PN demo) 2 = ⟨2, 4, 3, 4, 40, 0, 0⟩ := by decide +kernel


/-- **Whole-run checkout maxima.** After any valid run each of the seven biggest-checkout figures
    is the (saturated) maximum, taken independently per figure over ALL delivered trees, of that
    figure of the tree's true recursive expansion (`Agg.expand (PN r)`, unbounded `Nat`). -/
theorem checkout_maxima_exact (r : Repo) (ops : List Op) (v : ValidRun r ops) :
    ∃ st, runOps r ops {} = .ok st ∧
      st.hist.MaxPathDepth.toNat = min (maxList ((treesOf ops).map fun t => (Agg.expand (PN r) t).depth)) (2^32 - 1) ∧
      st.hist.MaxPathLength.toNat = min (maxList ((treesOf ops).map fun t => (Agg.expand (PN r) t).len)) (2^32 - 1) ∧
      st.hist.MaxExpandedTreeCount.toNat = min (maxList ((treesOf ops).map fun t => (Agg.expand (PN r) t).trees)) (2^32 - 1) ∧
      st.hist.MaxExpandedBlobCount.toNat = min (maxList ((treesOf ops).map fun t => (Agg.expand (PN r) t).blobs)) (2^32 - 1) ∧
      st.hist.MaxExpandedBlobSize.toNat = min (maxList ((treesOf ops).map fun t => (Agg.expand (PN r) t).bsize)) (2^64 - 1) ∧
      st.hist.MaxExpandedLinkCount.toNat = min (maxList ((treesOf ops).map fun t => (Agg.expand (PN r) t).links)) (2^32 - 1) ∧
      st.hist.MaxExpandedSubmoduleCount.toNat = min (maxList ((treesOf ops).map fun t => (Agg.expand (PN r) t).subs)) (2^32 - 1) := by
  obtain ⟨st, h, _, res⟩ := v.result
  have t := res.trees
  simp only [treeNums, List.cons.injEq, and_true] at t
  exact ⟨st, h, t.2.2.2.2.1, t.2.2.2.2.2.1, t.2.2.2.2.2.2.1, t.2.2.2.2.2.2.2.1, t.2.2.2.2.2.2.2.2.1,
    t.2.2.2.2.2.2.2.2.2.1, t.2.2.2.2.2.2.2.2.2.2⟩


/-- **`treeRecord.initialize` in source order is what the aggregator model computes.** The code
    handles the entries of a tree in one pass, interleaving files, symlinks, submodules and
    subtrees (`Graph.initEntries`, the `switch` of graph.go with the regenerated `add*` methods);
    the model folds the non-tree entries first (`baseB`) and then runs `Agg.initLoop` over the
    subtree entries. Same state, same pending count, same size, for every tree and every state. -/
theorem initialize_source_order (r : Repo) (t : Nat) (st : Agg.St Gen.TreeSize) :
    Graph.initEntries (Graph.blobSize32 r) t (r.entries t) st 0 Graph.newTreeSize =
      Agg.initLoop (Graph.PB r) t ((Graph.PB r).kids t) st 0 ((Graph.PB r).base t) :=
  Graph.initialize_is_model r t st

end GitSizer.C04
