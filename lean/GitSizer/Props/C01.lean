import GitSizer.Proofs.GraphRun7
import GitSizer.Proofs.History
import GitSizer.Proofs.GraphTrees
/-! # C01 — Census of reachable objects is exact
    Proved here: every object the aggregator records contributes exactly +1 / +size / +entries to
    the saturating census counters (obligations on the code REGENERATED from sizes/sizes.go), and
    the aggregator finalises — hence records — every delivered tree exactly once, in any order.
    That the objects delivered are exactly the reachable ones is git's `rev-list` (assumed contract,
    validated by the end-to-end engine against `Spec.reach`). -/
namespace GitSizer.C01
open GitSizer GitSizer.Spec GitSizer.Graph Gen

theorem blob_census_step (h : HistorySize) (oid : Nat) (b : BlobSize) :
    (HistorySize.recordBlob h oid b).UniqueBlobCount.toNat = min (h.UniqueBlobCount.toNat + 1) (2^32 - 1) ∧
    (HistorySize.recordBlob h oid b).UniqueBlobSize.toNat = min (h.UniqueBlobSize.toNat + b.Size.toNat) (2^64 - 1) :=
  let n := recordBlob_numbers h oid b; ⟨n.1, n.2.1⟩

theorem tree_census_step (h : HistorySize) (oid : Nat) (ts : TreeSize) (size entries : BitVec 32) :
    (HistorySize.recordTree h oid ts size entries).UniqueTreeCount.toNat = min (h.UniqueTreeCount.toNat + 1) (2^32 - 1) ∧
    (HistorySize.recordTree h oid ts size entries).UniqueTreeSize.toNat = min (h.UniqueTreeSize.toNat + size.toNat) (2^64 - 1) ∧
    (HistorySize.recordTree h oid ts size entries).UniqueTreeEntries.toNat = min (h.UniqueTreeEntries.toNat + entries.toNat) (2^64 - 1) :=
  let n := recordTree_numbers h oid ts size entries; ⟨n.1, n.2.1, n.2.2.1⟩

theorem commit_census_step (h : HistorySize) (oid : Nat) (cs : CommitSize) (size pc : BitVec 32) :
    (HistorySize.recordCommit h oid cs size pc).UniqueCommitCount.toNat = min (h.UniqueCommitCount.toNat + 1) (2^32 - 1) ∧
    (HistorySize.recordCommit h oid cs size pc).UniqueCommitSize.toNat = min (h.UniqueCommitSize.toNat + size.toNat) (2^64 - 1) :=
  let n := recordCommit_numbers h oid cs size pc; ⟨n.1, n.2.1⟩

theorem tag_census_step (h : HistorySize) (oid : Nat) (ts : TagSize) (size : BitVec 32) :
    (HistorySize.recordTag h oid ts size).UniqueTagCount.toNat = min (h.UniqueTagCount.toNat + 1) (2^32 - 1) :=
  (recordTag_numbers h oid ts size).1

theorem reference_count_step (h : HistorySize) :
    (HistorySize.recordReference h).ReferenceCount.toNat = min (h.ReferenceCount.toNat + 1) (2^32 - 1) :=
  recordReference_numbers h

/-- **each tree exactly once**: the finalisation log is a permutation of the delivered set —
    every delivered tree is recorded once, nothing else is — for any delivery order -/
theorem each_tree_recorded_once (r : Repo) (ok : TreesOK r)
    (ds : List Nat) (hnd : ds.Nodup) (closed : ∀ t ∈ ds, ∀ e ∈ treeKids r t, e.2 ∈ ds)
    (fuel : Nat) (hfuel : Agg.K (PB r) ds ≤ fuel) :
    (Agg.run (PB r) fuel ds Agg.init).fins.Perm ds :=
  (tree_memo_is_clamped_truth r ok ds hnd closed fuel hfuel).2.2.2

/-- a saturating census over any enumeration of a set is the clamp of the true sum -/
theorem census_sum (c : Nat) (l : List Nat) : satSum c l = min l.sum c := satSum_eq c l


/-- **Census of a whole run is exact.** For every repository description and every valid delivery
    schedule: the run completes without panic and the eight census counters and the reference
    count are the (saturated) true number / total size / total entry count of the delivered
    objects — each object counted exactly once. (Per-object sizes enter `UniqueTreeSize` and
    `UniqueCommitSize` through 32-bit registers, as in the code.) -/
theorem census_exact (r : Repo) (ops : List Op) (v : ValidRun r ops) :
    ∃ st, runOps r ops {} = .ok st ∧
      st.hist.UniqueBlobCount.toNat = min (blobsOf ops).length (2^32 - 1) ∧
      st.hist.UniqueBlobSize.toNat = min ((blobsOf ops).map r.blobSize).sum (2^64 - 1) ∧
      st.hist.UniqueTreeCount.toNat = min (treesOf ops).length (2^32 - 1) ∧
      st.hist.UniqueTreeSize.toNat = min ((treesOf ops).map fun t => min (Repo.sizeOf r t) (2^32 - 1)).sum (2^64 - 1) ∧
      st.hist.UniqueTreeEntries.toNat = min ((treesOf ops).map fun t => min (r.entries t).length (2^32 - 1)).sum (2^64 - 1) ∧
      st.hist.UniqueCommitCount.toNat = min (commitsOf ops).length (2^32 - 1) ∧
      st.hist.UniqueCommitSize.toNat = min ((commitsOf ops).map fun c => min (Repo.sizeOf r c) (2^32 - 1)).sum (2^64 - 1) ∧
      st.hist.UniqueTagCount.toNat = min (tagsOf ops).length (2^32 - 1) ∧
      st.hist.ReferenceCount.toNat = min (refsOf ops) (2^32 - 1) := by
  obtain ⟨st, h, _, res⟩ := v.result
  have b := res.blobs; have t := res.trees; have c := res.commits; have g := res.tags; have rf := res.refs
  simp only [blobNums, treeNums, commitNums, tagNums, refNums, List.cons.injEq, and_true] at b t c g rf
  exact ⟨st, h, b.1, b.2.1, t.1, t.2.1, t.2.2.1, c.1, c.2.1, g.1, rf⟩

end GitSizer.C01
