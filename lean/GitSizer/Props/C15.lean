import GitSizer.Proofs.Config
import GitSizer.Proofs.GenStrs
/-! # C15 — Refgroup definitions in gitconfig are read faithfully
    Theorems about the model of `Repository.GetConfig` / `configKeyMatchesPrefix`
    (git/gitconfig.go), tied to the code by the `config` and `confige2e` engines. The form of the
    listing (`Spec.serListing`) is the assumed contract of `git config --list -z`. -/
namespace GitSizer.C15
open GitSizer GitSizer.Config GitSizer.Spec

/-- every listing git can print — keys without a value, empty and multi-line values, any
    bytes but NUL — is read back exactly, entry by entry, in git's order -/
theorem listing_roundtrip (es : List CfgEntry) (hok : ∀ e ∈ es, e.ok) :
    parseListing ((serListing es).length + 1) (serListing es) = some (es.map norm) :=
  parseListing_ser es hok _ (by have := serListing_length es; omega)

/-- hence `GetConfig(prefix)` returns exactly the entries under the prefix, with exact values,
    order preserved, whatever foreign entries are interleaved -/
theorem getConfig_faithful (es : List CfgEntry) (hok : ∀ e ∈ es, e.ok) (pfx : Bytes) :
    getConfig (serListing es) pfx =
      some ((es.map norm).filterMap fun (k, v) =>
        let (ok, rest) := keyMatchesPrefix k pfx
        if ok then some (rest, v) else none) := by
  unfold getConfig; rw [listing_roundtrip es hok]; rfl

/-- the implementation's reading is the reference (NUL-first) reading on every byte string -/
theorem getConfig_eq_reference (listing pfx : Bytes) : getConfig listing pfx = expectedConfig listing pfx := by
  unfold getConfig expectedConfig; rw [parseListing_eq_ref]

/-- a prefix matches only at a '.' component boundary; the remainder is exact -/
theorem prefix_boundary (key pfx rest : Bytes) :
    keyMatchesPrefix key pfx = (true, rest) ↔ KeyUnder key pfx rest := keyMatchesPrefix_spec key pfx rest

/-- `configKeyMatchesPrefix` as REGENERATED from git/gitconfig.go on this run (index and slice
    expressions are checked: out of range = panic): it never panics and is the '.'-boundary
    relation with the exact remainder, for all byte strings -/
theorem config_key_match_source (key pfx rest : Bytes) :
    Gen.Strs.configKeyMatchesPrefix key pfx = .ok (keyMatchesPrefix key pfx) ∧
    (Gen.Strs.configKeyMatchesPrefix key pfx = .ok (true, rest) ↔ KeyUnder key pfx rest) := by
  refine ⟨configKeyMatchesPrefix_regenerated key pfx, ?_⟩
  rw [configKeyMatchesPrefix_regenerated, ← keyMatchesPrefix_spec]
  constructor
  · intro h; exact Res.ok.inj h
  · intro h; rw [h]

/-- **the record loop of `GetConfig`, REGENERATED from git/gitconfig.go on this run** (`for len(out) > 0`,
    `bytes.IndexByte`, the slices `out[:entryEnd]`, `out[entryEnd+1:]`, `record[:keyEnd]`,
    `record[keyEnd+1:]` as checked operations, the call of `configKeyMatchesPrefix`, `continue`,
    `append`) computes exactly the model's `getConfig` on every listing and prefix: the same entries in
    the same order, an error exactly for a listing without a final NUL, never a panic -/
theorem get_config_source (pfx listing : Bytes) :
    Gen.Strs.GetConfig_records pfx listing =
      match getConfig listing pfx with
      | some es => .ok es
      | none => .err "error" := getConfig_regenerated pfx listing

/-- no leak between sibling names: an entry of `refgroup.ab.*` is not under `refgroup.a` -/
theorem no_leak_example :
    (keyMatchesPrefix (Bytes.ofString "refgroup.ab.include") (Bytes.ofString "refgroup.a")).1 = false := by
  decide +kernel

/-- order is preserved (the result is a `filterMap` of the entry list) -/
theorem order_preserved (es : List CfgEntry) (hok : ∀ e ∈ es, e.ok) (pfx : Bytes) :
    ∃ f : Bytes × Bytes → Option (Bytes × Bytes), getConfig (serListing es) pfx = some ((es.map norm).filterMap f) :=
  ⟨_, getConfig_faithful es hok pfx⟩

/-- F4 (repaired in /repo by a `fix:` commit): the loop as it was dropped the entry following a
    key without a value -/
theorem F4_witness : parseListingOld 10 (serListing w) ≠ some (w.map norm) := parseListingOld_witness

/-- non-vacuity: a valueless key followed by a refgroup entry is read correctly now -/
example : parseListing 10 (serListing w) = some (w.map norm) := by decide

end GitSizer.C15
