import GitSizer.Model.Cmds
import GitSizer.Props.C09
import GitSizer.Gen.Cmds
/-! # C17 — Scanning is read-only and deterministic
    Theorems over the REGENERATED call-site table: the only subprocesses are read-only git plumbing,
    nothing else is spawned, and the only file the program can create is the hidden `--cpuprofile`
    target. Determinism of the numbers across delivery orders is C09's theorem. Not expressible:
    data-race freedom under the Go memory model and the real scheduler — the `rw` engine runs the
    real binary repeatedly (GOMAXPROCS 1/4/16, with and without progress; a `-race` build in the
    thorough tier) and compares stdout byte-for-byte and a hash of the whole repository directory
    before and after. -/
namespace GitSizer.C17
open GitSizer.Cmds

/-- **only read-only plumbing is ever run** -/
theorem readonly_commands : Gen.Cmds.commandSites.all (fun s => readOnly s.2.2.2) = true := by decide

/-- no other way of starting a process is used -/
theorem no_other_spawns : Gen.Cmds.otherSpawns = [] := by decide

/-- the only file-creating call in the program is the CPU profile -/
theorem only_cpuprofile_written : Gen.Cmds.fileWrites = ["git-sizer.go:mainImplementation:Create:cpuprofile"] := by decide

/-- saturating sums (every census total) do not depend on the order in which objects arrive -/
theorem totals_schedule_independent (c : Nat) {l1 l2 : List Nat} (p : l1.Perm l2) :
    GitSizer.satSum c l1 = GitSizer.satSum c l2 := GitSizer.C09.sum_order_independent c p

/-! ## goroutine confinement of the aggregation state, REGENERATED (sizes/graph.go)

`Gen.Cmds.scanFlow` lists every statement of `ScanRepositoryUsingGraph`, the bodies of its two
`go func(){…}()` feeders included (branch path component "go"). -/

abbrev Ev := String × String × List (String × String)
def inFeeder (e : Ev) : Bool := e.2.2.any (fun c => c.2 == "go")

/-- **the feeder goroutines only feed**: their statements, verbatim — they close their iterator,
    send one error value, and call `AddRoot` / `RequestObject` on oids read from `roots`, `trees`,
    `commits`, `tags`; they never touch `graph`, the path resolver, the meter or the history.
    So every `graph.*` call and every `progressMeter.*` call is made by the one scanning goroutine
    (single consumer): the aggregation state is confined to it. -/
theorem feeders_only_feed :
    (Gen.Cmds.scanFlow.filter inFeeder).map (fun e => (e.1, e.2.1)) =
      [("go", ""), ("defer", "objIter.Close()"), ("send", "errChan"),
       ("for", "_, root := range roots"), ("if", "!root.Walk()"), ("continue", ""),
       ("assign-err", "err := objIter.AddRoot(root.OID())"), ("if", "err != nil"), ("return-err", "err"), ("return", "nil"),
       ("go", ""), ("defer", "objectIter.Close()"), ("send", "errChan"),
       ("for", "_, obj := range trees"), ("assign-err", "err := objectIter.RequestObject(obj.oid)"), ("if", "err != nil"),
       ("return-err", "fmt.Errorf(\"requesting tree '%s': %w\", obj.oid, err)"),
       ("for", "i := len(commits); i > 0; i--"), ("assign", "obj := commits[i-1]"),
       ("assign-err", "err := objectIter.RequestObject(obj.oid)"), ("if", "err != nil"),
       ("return-err", "fmt.Errorf(\"requesting commit '%s': %w\", obj.oid, err)"),
       ("for", "_, obj := range tags"), ("assign-err", "err := objectIter.RequestObject(obj.oid)"), ("if", "err != nil"),
       ("return-err", "fmt.Errorf(\"requesting tag '%s': %w\", obj.oid, err)"), ("return", "nil")] := by
  decide +kernel

/-- the statements of the scanning goroutine after the second feeder has been started -/
def afterSecondFork (flow : List Ev) : List Ev :=
  ((flow.dropWhile (fun e => e.1 != "go")).drop 1 |>.dropWhile (fun e => e.1 != "go")).filter (fun e => !inFeeder e)

/-- **the slices shared with the second feeder are frozen when it starts**: after the fork the
    scanning goroutine performs exactly one plain assignment — `commits[i-1].tree = commit.Tree`,
    a field the feeder never uses (it reads `obj.oid` only) and which is written only after the
    response to that very request has come back from git — and no `append` to `trees`, `commits`, `tags` -/
theorem shared_slices_frozen_after_fork :
    ((afterSecondFork Gen.Cmds.scanFlow).filter (fun e => e.1 == "assign" || e.1 == "decl")).map (fun e => e.2.1) =
      ["commits[i-1].tree = commit.Tree", "refRoot, ok := root.(ReferenceRoot)"] := by
  decide +kernel

/-- and the first feeder only reads `roots`, which the scanning goroutine never assigns to -/
theorem roots_never_assigned :
    (Gen.Cmds.scanFlow.filter (fun e => (e.1 == "assign" || e.1 == "assign-err") && !inFeeder e)).map (fun e => e.2.1) =
      ["graph := NewGraph(nameStyle)", "objIter, err := repo.NewObjectIter(ctx)", "errChan := make(chan error, 1)",
       "obj, ok, err := objIter.Next()", "trees = append(trees, ObjectHeader{obj.OID, obj.ObjectSize})",
       "commits = append(commits, CommitHeader{ObjectHeader{obj.OID, obj.ObjectSize}, git.NullOID})",
       "tags = append(tags, ObjectHeader{obj.OID, obj.ObjectSize})", "err = <-errChan",
       "objectIter, err := repo.NewBatchObjectIter(ctx)", "obj, ok, err := objectIter.Next()",
       "tree, err := git.ParseTree(obj.OID, obj.Data)", "err = graph.RegisterTree(obj.OID, tree)",
       "obj, ok, err := objectIter.Next()", "commit, err := git.ParseCommit(obj.OID, obj.Data)",
       "commits[i-1].tree = commit.Tree", "obj, ok, err := objectIter.Next()", "tag, err := git.ParseTag(obj.OID, obj.Data)",
       "_, ok, err := objectIter.Next()", "err = <-errChan", "refRoot, ok := root.(ReferenceRoot)"] := by
  decide +kernel


end GitSizer.C17
