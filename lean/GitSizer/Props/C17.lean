import GitSizer.Model.Cmds
import GitSizer.Props.C09
/-! # C17 — Scanning is read-only and deterministic
    Theorems over the REGENERATED call-site table: the only subprocesses are read-only git plumbing,
    nothing else is spawned, and the only file the program can create is the hidden `--cpuprofile`
    target. Determinism of the numbers across delivery orders is C09's theorem. Not expressible:
    data-race freedom under the Go memory model and the real scheduler — the `rw` engine runs the
    real binary repeatedly (GOMAXPROCS 1/4/16, with and without progress; a `-race` build in the
    thorough tier) and compares stdout byte-for-byte and a hash of the whole repository directory
    before and after. -/
namespace GitSizer.C17
open GitSizer.Cmds

/-- **only read-only plumbing is ever run** -/
theorem readonly_commands : Gen.Cmds.commandSites.all (fun s => readOnly s.2.2.2) = true := by decide

/-- no other way of starting a process is used -/
theorem no_other_spawns : Gen.Cmds.otherSpawns = [] := by decide

/-- the only file-creating call in the program is the CPU profile -/
theorem only_cpuprofile_written : Gen.Cmds.fileWrites = ["git-sizer.go:mainImplementation:Create:cpuprofile"] := by decide

/-- saturating sums (every census total) do not depend on the order in which objects arrive -/
theorem totals_schedule_independent (c : Nat) {l1 l2 : List Nat} (p : l1.Perm l2) :
    GitSizer.satSum c l1 = GitSizer.satSum c l2 := GitSizer.C09.sum_order_independent c p

end GitSizer.C17
