import GitSizer.Proofs.GraphRun7
import GitSizer.Proofs.History
/-! # C02 — Biggest single objects are the true maxima
    Obligations on the REGENERATED code: both `AdjustMax` variants compute the maximum for every
    operand pair (so position in the enumeration and ties cannot matter for the number), and each
    `record*` method applies it to the right quantity; the cited witness changes exactly when the
    maximum does. -/
namespace GitSizer.C02
open GitSizer GitSizer.Spec GitSizer.Graph GitSizer.Counts Gen

theorem adjustMaxIfNecessary_is_max (a b : BitVec 32) :
    (Count32.AdjustMaxIfNecessary a b).1.toNat = max a.toNat b.toNat := adjustNec32_val a b
theorem adjustMaxIfPossible_is_max (a b : BitVec 32) :
    (Count32.AdjustMaxIfPossible a b).1.toNat = max a.toNat b.toNat := adjustPos32_val a b
theorem adjustMaxIfNecessary64_is_max (a b : BitVec 64) :
    (Count64.AdjustMaxIfNecessary a b).1.toNat = max a.toNat b.toNat := adjustNec64_val a b
/-- the flags differ only on ties: "strictly greater" vs "greater or equal" -/
theorem flags (a b : BitVec 32) :
    ((Count32.AdjustMaxIfNecessary a b).2 = true ↔ a.toNat < b.toNat) ∧
    ((Count32.AdjustMaxIfPossible a b).2 = true ↔ a.toNat ≤ b.toNat) := ⟨adjustNec32_flag a b, adjustPos32_flag a b⟩

theorem max_blob_size_step (h : HistorySize) (oid : Nat) (b : BlobSize) :
    (HistorySize.recordBlob h oid b).MaxBlobSize.toNat = max h.MaxBlobSize.toNat (min b.Size.toNat (2^32 - 1)) :=
  (recordBlob_numbers h oid b).2.2

theorem max_blob_witness (h : HistorySize) (oid : Nat) (b : BlobSize) :
    (HistorySize.recordBlob h oid b).MaxBlobSizeBlob =
      if h.MaxBlobSize.toNat < min b.Size.toNat (2^32 - 1) then some oid else h.MaxBlobSizeBlob :=
  recordBlob_witness h oid b

theorem max_commit_step (h : HistorySize) (oid : Nat) (cs : CommitSize) (size pc : BitVec 32) :
    (HistorySize.recordCommit h oid cs size pc).MaxCommitSize.toNat = max h.MaxCommitSize.toNat size.toNat ∧
    (HistorySize.recordCommit h oid cs size pc).MaxParentCount.toNat = max h.MaxParentCount.toNat pc.toNat :=
  let n := recordCommit_numbers h oid cs size pc; ⟨n.2.2.1, n.2.2.2.2⟩

theorem max_tree_entries_step (h : HistorySize) (oid : Nat) (ts : TreeSize) (size entries : BitVec 32) :
    (HistorySize.recordTree h oid ts size entries).MaxTreeEntries.toNat = max h.MaxTreeEntries.toNat entries.toNat :=
  (recordTree_numbers h oid ts size entries).2.2.2.1


/-- **Whole-run maxima.** After any valid run the per-object maxima are the (saturated) true maxima
    over the delivered objects. -/
theorem maxima_exact (r : Repo) (ops : List Op) (v : ValidRun r ops) :
    ∃ st, runOps r ops {} = .ok st ∧
      st.hist.MaxBlobSize.toNat = min (maxList ((blobsOf ops).map r.blobSize)) (2^32 - 1) ∧
      st.hist.MaxTreeEntries.toNat = min (maxList ((treesOf ops).map fun t => (r.entries t).length)) (2^32 - 1) ∧
      st.hist.MaxCommitSize.toNat = min (maxList ((commitsOf ops).map fun c => Repo.sizeOf r c)) (2^32 - 1) ∧
      st.hist.MaxParentCount.toNat = min (maxList ((commitsOf ops).map fun c => (r.parents c).length)) (2^32 - 1) := by
  obtain ⟨st, h, _, res⟩ := v.result
  have b := res.blobs; have t := res.trees; have c := res.commits
  simp only [blobNums, treeNums, commitNums, List.cons.injEq, and_true] at b t c
  exact ⟨st, h, b.2.2, t.2.2.2.1, c.2.2.1, c.2.2.2.2⟩

end GitSizer.C02
