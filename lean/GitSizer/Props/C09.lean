import GitSizer.Proofs.Scan
import GitSizer.Gen.Cmds
import GitSizer.Proofs.GraphTrees
import GitSizer.Proofs.GraphCommits
/-! # C09 — Numeric results are independent of enumeration order
    Corollaries of the aggregator theorems: any two valid delivery orders agree. Storage layout
    (loose / packed) is invisible to the model by construction; that git presents the same objects
    is checked by the end-to-end engine, not proved. -/
namespace GitSizer.C09
open GitSizer GitSizer.Spec GitSizer.Graph Gen

/-- **tree order**: any two duplicate-free delivery orders of the same downward-closed set of
    trees — subtrees before or after their parents, any interleaving — leave the same memo for
    every tree (as `Nat` views of the machine values) -/
theorem tree_order_independent (r : Repo) (ok : TreesOK r)
    (ds1 ds2 : List Nat) (hn1 : ds1.Nodup) (hn2 : ds2.Nodup) (hp : ∀ t, t ∈ ds1 ↔ t ∈ ds2)
    (closed : ∀ t ∈ ds1, ∀ e ∈ treeKids r t, e.2 ∈ ds1)
    (f1 f2 : Nat) (hf1 : Agg.K (PB r) ds1 ≤ f1) (hf2 : Agg.K (PB r) ds2 ≤ f2) (t : Nat) :
    ((Agg.run (PB r) f1 ds1 Agg.init).sizes t).map toTN = ((Agg.run (PB r) f2 ds2 Agg.init).sizes t).map toTN := by
  have closed2 : ∀ t ∈ ds2, ∀ e ∈ treeKids r t, e.2 ∈ ds2 :=
    fun t ht e he => (hp _).mp (closed t ((hp _).mpr ht) e he)
  obtain ⟨a1, a2, _, _⟩ := tree_memo_is_clamped_truth r ok ds1 hn1 closed f1 hf1
  obtain ⟨b1, b2, _, _⟩ := tree_memo_is_clamped_truth r ok ds2 hn2 closed2 f2 hf2
  by_cases ht : t ∈ ds1
  · obtain ⟨s1, hs1, e1⟩ := a1 t ht
    obtain ⟨s2, hs2, e2⟩ := b1 t ((hp t).mp ht)
    rw [hs1, hs2]; simp [e1, e2]
  · rw [a2 t ht, b2 t (fun h => ht ((hp t).mpr h))]

/-- no record remains and exactly the delivered trees are finalised, whatever the order -/
theorem no_pending_records (r : Repo) (ok : TreesOK r)
    (ds : List Nat) (hnd : ds.Nodup) (closed : ∀ t ∈ ds, ∀ e ∈ treeKids r t, e.2 ∈ ds)
    (fuel : Nat) (hfuel : Agg.K (PB r) ds ≤ fuel) :
    (∀ t, (Agg.run (PB r) fuel ds Agg.init).recs t = none) ∧ (Agg.run (PB r) fuel ds Agg.init).fins.Perm ds :=
  let h := tree_memo_is_clamped_truth r ok ds hnd closed fuel hfuel
  ⟨h.2.2.1, h.2.2.2⟩

/-- **commit order**: two runs with any (non-panicking) schedules give every commit registered in
    both the same depth memo -/
theorem commit_order_independent (r : Repo) (wf : CommitsWF r) (ops1 ops2 : List Op) (st1 st2 : GState)
    (h1 : runOps r ops1 {} = .ok st1) (h2 : runOps r ops2 {} = .ok st2) (c : Nat) (s1 s2 : CommitSize)
    (hc1 : st1.commits c = some s1) (hc2 : st2.commits c = some s2) :
    s1.MaxAncestorDepth.toNat = s2.MaxAncestorDepth.toNat := by
  rw [commit_memo_is_depth r wf ops1 st1 h1 c s1 hc1, commit_memo_is_depth r wf ops2 st2 h2 c s2 hc2]

/-- saturating sums and maxima are insensitive to the order of their operands -/
theorem sum_order_independent (c : Nat) {l1 l2 : List Nat} (p : l1.Perm l2) : satSum c l1 = satSum c l2 :=
  satSum_perm c p


/-- **Whole-run order independence.** Two valid schedules delivering the same objects in any two
    orders and interleavings (and the same number of references) both complete and give the same
    22 numbers; neither leaves a pending record. -/
theorem whole_run_order_independent (r : Repo) (ops1 ops2 : List Op) (v1 : ValidRun r ops1)
    (hv2 : ValidFrom r [] [] [] [] ops2)
    (pB : (blobsOf ops1).Perm (blobsOf ops2)) (pT : (treesOf ops1).Perm (treesOf ops2))
    (pC : (commitsOf ops1).Perm (commitsOf ops2)) (pG : (tagsOf ops1).Perm (tagsOf ops2))
    (pR : refsOf ops1 = refsOf ops2) :
    ∃ st1 st2, runOps r ops1 {} = .ok st1 ∧ runOps r ops2 {} = .ok st2 ∧ allNums st1.hist = allNums st2.hist :=
  run_order_independent r v1.ok ops1 ops2 v1.valid hv2 pB pT pC pG pR v1.closedT v1.closedG v1.areTags v1.sizes v1.nparents

/-- no valid run panics and `HistorySize()` finds no remaining record -/
theorem whole_run_completes (r : Repo) (ops : List Op) (v : ValidRun r ops) :
    ∃ st, runOps r ops {} = .ok st ∧ historySize r st = .ok st.hist :=
  let ⟨st, h, hs, _⟩ := v.result; ⟨st, h, hs⟩

/-- **the driver's phase order, as it stands in the source** (regenerated from
    `sizes.ScanRepositoryUsingGraph` on every run): blobs while the listing streams, then trees in
    listing order, commits in REVERSE listing order, tags in listing order, references last; the
    batch requests are issued in the same order; and the listing loop sorts objects by type. -/
theorem driver_phases :
    Gen.Cmds.scanRegisters.map (fun x => (x.1, x.2.2)) = Scan.phases ∧
    Gen.Cmds.scanRegisters.map (·.2.1) = ["stream", "trees", "commits", "tags", "roots"] ∧
    Gen.Cmds.scanRequests = [("trees", false), ("commits", true), ("tags", false)] ∧
    Gen.Cmds.scanCollects = [("blob", "RegisterBlob"), ("tree", "append trees"), ("commit", "append commits"),
      ("tag", "append tags")] := by decide

/-- **Whole-scan theorem**: for EVERY repository description and EVERY listing that honours git's
    `rev-list --objects --date-order` contract (no duplicates, closed under the walked edges, no
    commit preceded by one of its parents — in particular for every order git may choose among
    siblings, every pack layout, every root order), the driver's schedule completes without panic
    or pending record, and all 22 numbers are the clamps of the true values over the listed
    objects. Two listings of the same objects therefore give the same numbers. -/
theorem scan_order_independent (r : Repo) (ok : RepoOK r) (ty : Scan.Typed r) (L1 L2 : List Nat)
    (h1 : Scan.Listing r L1) (h2 : Scan.Listing r L2) (same : L1.Perm L2)
    (refs1 refs2 : List (List Bytes)) (hr : refs1.length = refs2.length)
    (sizes : ∀ i, Repo.sizeOf r i < 2 ^ 64) (nparents : ∀ c, (r.parents c).length < 2 ^ 64) :
    ∃ a b, Scan.scan r L1 refs1 = .ok a ∧ Scan.scan r L2 refs2 = .ok b ∧ allNums a = allNums b := by
  obtain ⟨a, ha, ra⟩ := Scan.scan_numbers r ok ty L1 h1 refs1 sizes nparents
  obtain ⟨b, hb, rb⟩ := Scan.scan_numbers r ok ty L2 h2 refs2 sizes nparents
  refine ⟨a, b, ha, hb, ?_⟩
  rw [hr] at ra
  exact (ra.perm (same.filter _) (same.filter _)
    ((List.reverse_perm _).trans ((same.filter _).trans (List.reverse_perm _).symm)) (same.filter _)).nums_eq rb

end GitSizer.C09
