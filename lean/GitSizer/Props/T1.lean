import GitSizer.Proofs.ScanCheck
/-! Non-vacuity of the whole-run theorem: a concrete repository (a blob, a tree holding it twice
    under different names, a subtree-holding root tree delivered BEFORE its subtree, a commit, a tag)
    and a concrete valid schedule satisfy every hypothesis of `run_numbers`. -/
namespace GitSizer.T1
open GitSizer GitSizer.Spec GitSizer.Graph

def demo : Repo :=
  [.blob 10,
   .tree 60 [⟨0o100644, [97], 0⟩, ⟨0o100755, [98, 98], 0⟩],
   .tree 33 [⟨0o40000, [100], 1⟩],
   .commit 200 2 [],
   .tag 120 3 false]

def demoOps : List Op := [.blob 0, .tree 2, .tree 1, .ref [], .commit 3, .tag 4]

theorem entries_out (t : Nat) (h : 5 ≤ t) : demo.entries t = [] := by
  have : demo.obj t = none := by
    unfold Repo.obj demo; exact List.getElem?_eq_none (by simp; omega)
  simp [Repo.entries, this]

theorem treeKids_demo (t : Nat) : treeKids demo t = if t = 2 then [(1, 1)] else [] := by
  unfold treeKids
  match t with
  | 0 | 1 | 3 | 4 => rfl
  | 2 => rfl
  | n + 5 => rw [entries_out (n + 5) (by omega)]; simp

theorem tagRef_demo (t : Nat) : demo.tagRef t = if t = 4 then some (3, false) else none := by
  match t with
  | 0 | 1 | 2 | 3 | 4 => rfl
  | n + 5 =>
    have : demo.obj (n + 5) = none := by unfold Repo.obj demo; exact List.getElem?_eq_none (by simp)
    simp [Repo.tagRef, this]

theorem parents_demo (c : Nat) : demo.parents c = [] := by
  match c with
  | 0 | 1 | 2 | 3 | 4 => rfl
  | n + 5 =>
    have : demo.obj (n + 5) = none := by unfold Repo.obj demo; exact List.getElem?_eq_none (by simp)
    simp [Repo.parents, this]

theorem demo_ok : RepoOK demo := by
  refine ⟨⟨?_, ?_, ?_, ?_⟩, ?_, ?_, ?_⟩
  · intro t e he; rw [treeKids_demo] at he; split at he <;> simp at he; subst he; omega
  · intro t e he; rw [treeKids_demo] at he; split at he <;> simp at he; subst he; decide
  · intro b
    match b with
    | 0 => decide
    | n + 1 =>
      have : demo.blobSize (n + 1) = 0 := by
        unfold Repo.blobSize Repo.obj demo
        match n with
        | 0 | 1 | 2 | 3 => rfl
        | k + 4 => simp
      rw [this]; decide
  · intro t e he
    match t with
    | 0 | 3 | 4 => simp [Repo.entries, Repo.obj, demo] at he
    | 1 => simp [Repo.entries, Repo.obj, demo] at he; rcases he with rfl | rfl <;> decide
    | 2 => simp [Repo.entries, Repo.obj, demo] at he; subst he; decide
    | n + 5 => rw [entries_out (n + 5) (by omega)] at he; cases he
  · intro c p hp; rw [parents_demo] at hp; cases hp
  · intro t e he
    unfold tagKids at he
    match t with
    | 0 | 1 | 2 | 3 | 4 => simp [Repo.obj, demo] at he
    | n + 5 =>
      have : demo.obj (n + 5) = none := by unfold Repo.obj demo; exact List.getElem?_eq_none (by simp)
      simp [this] at he
  · intro t o h; rw [tagRef_demo] at h; split at h <;> simp at h

theorem demo_valid : ValidFrom demo [] [] [] [] demoOps := by
  simp only [demoOps, ValidFrom, List.nil_append]
  refine ⟨by simp, by decide, ?_, by simp, by decide, ?_, by simp, by decide, ?_, ?_, by simp, by decide, trivial⟩
  · intro e he hk; simp [Repo.entries, Repo.obj, demo] at he; subst he; simp [Entry.kind] at hk
  · intro e he _; simp [Repo.entries, Repo.obj, demo] at he; rcases he with rfl | rfl <;> simp
  · intro s tr ps h
    simp [Repo.obj, demo] at h
    obtain ⟨_, rfl, _⟩ := h
    intro u hu
    -- trees reachable from 2 are 2 and 1
    have key : ∀ a u, TreeReach demo a u → (a = 2 → u = 2 ∨ u = 1) ∧ (a = 1 → u = 1) := by
      intro a u h
      induction h with
      | refl t => exact ⟨fun h => Or.inl h, fun h => h⟩
      | step e he _ ih =>
        rw [treeKids_demo] at he
        split at he
        · next h2 => simp at he; subst he; exact ⟨fun _ => Or.inr (ih.2 rfl), fun h1 => by omega⟩
        · cases he
    rcases (key 2 u hu).1 rfl with rfl | rfl <;> simp
  · intro p hp; rw [parents_demo] at hp; cases hp

/-- the hypotheses of `run_numbers` are satisfiable, and the theorem then yields the census of the
    demo repository: 1 blob of 10 bytes, 2 trees with 3 entries, 1 commit of depth 1, 1 tag of depth 1,
    and the deepest checkout `d/bb` (depth 2, length 4, 2 directories, 2 files, 20 bytes) -/
theorem demo_run : ValidRun demo demoOps := by
  refine ⟨demo_ok, demo_valid, ?_, ?_, ?_, ?_, ?_⟩
  · intro t ht e he; simp [demoOps, treesOf] at ht; rw [treeKids_demo] at he
    rcases ht with rfl | rfl <;> simp at he; subst he; simp [demoOps, treesOf]
  · intro g hg e he; simp [demoOps, tagsOf] at hg; subst hg; simp [tagKids, Repo.obj, demo] at he
  · intro g hg; simp [demoOps, tagsOf] at hg; subst hg; rfl
  · intro i
    match i with
    | 0 | 1 | 2 | 3 | 4 => decide
    | n + 5 =>
      have : demo.obj (n + 5) = none := by unfold Repo.obj demo; exact List.getElem?_eq_none (by simp)
      simp [Repo.sizeOf, this]
  · intro c; rw [parents_demo]; decide

theorem demo_result :
    ∃ st, runOps demo demoOps {} = .ok st ∧ historySize demo st = .ok st.hist ∧
      RunResult demo st.hist [0] [2, 1] [3] [4] 1 := by
  simpa [demoOps, blobsOf, treesOf, commitsOf, tagsOf, refsOf] using demo_run.result

/-! ### the driver level: a concrete listing meets git's contract as stated in `Scan.Listing` -/

def demoListing : List Nat := [4, 3, 2, 1, 0]

theorem demo_typed : Scan.Typed demo := by
  refine ⟨?_, ?_, ?_⟩
  · intro t e he hk
    match t with
    | 0 | 3 | 4 => simp [Repo.entries, Repo.obj, demo] at he
    | 1 => simp [Repo.entries, Repo.obj, demo] at he; rcases he with rfl | rfl <;> rfl
    | 2 => simp [Repo.entries, Repo.obj, demo] at he; subst he; simp [Entry.kind] at hk
    | n + 5 => rw [entries_out (n + 5) (by omega)] at he; cases he
  · intro t e he hk
    match t with
    | 0 | 3 | 4 => simp [Repo.entries, Repo.obj, demo] at he
    | 1 => simp [Repo.entries, Repo.obj, demo] at he; rcases he with rfl | rfl <;> simp [Entry.kind] at hk
    | 2 => simp [Repo.entries, Repo.obj, demo] at he; subst he; rfl
    | n + 5 => rw [entries_out (n + 5) (by omega)] at he; cases he
  · intro c s tr ps h
    match c with
    | 0 | 1 | 2 | 4 => simp [Repo.obj, demo] at h
    | 3 => simp [Repo.obj, demo] at h; obtain ⟨_, rfl, _⟩ := h; rfl
    | n + 5 =>
      have : demo.obj (n + 5) = none := by unfold Repo.obj demo; exact List.getElem?_eq_none (by simp)
      rw [this] at h; cases h

theorem demo_listing : Scan.Listing demo demoListing := by
  refine ⟨by decide, by decide, ?_, by decide⟩
  intro i hi j hj
  simp only [demoListing, List.mem_cons, List.not_mem_nil, or_false] at hi
  rcases hi with rfl | rfl | rfl | rfl | rfl <;> revert j <;> decide

/-- the whole-scan theorem applies to the demo: the driver's schedule for the listing
    `[tag, commit, root tree, subtree, blob]` yields the census -/
theorem demo_scan : ∃ h, Scan.scan demo demoListing [[], []] = .ok h ∧
    RunResult demo h [0] [2, 1] [3] [4] 2 := by
  have := Scan.scan_numbers demo demo_ok demo_typed demoListing demo_listing [[], []] demo_run.sizes demo_run.nparents
  simpa [Scan.blobsIn, Scan.treesIn, Scan.commitsIn, Scan.tagsIn, demoListing, List.filter, Scan.isBlob, Scan.isTree,
    Scan.isTag, Repo.isCommit, Repo.obj, demo] using this

/-! ### the judges' hypothesis checkers are sound
    The graph and e2e judges evaluate `Scan.runHypothesesb` / `Scan.scanHypothesesb` on every case
    and tag the verdict `thm` when they accept; by the two theorems below the whole-run / whole-scan
    theorem then applies to that very repository and schedule (the count is in the evidence). -/

theorem run_checker_sound (r : Repo) (ops : List Op) (h : Scan.runHypothesesb r ops = true) :
    ∃ st, runOps r ops {} = .ok st ∧ historySize r st = .ok st.hist ∧
      RunResult r st.hist (blobsOf ops) (treesOf ops) (commitsOf ops) (tagsOf ops) (refsOf ops) :=
  (Scan.runHypothesesb_sound r ops h).result

theorem scan_checker_sound (r : Repo) (L : List Nat) (refs : List (List Bytes)) (h : Scan.scanHypothesesb r L = true) :
    ∃ hist, Scan.scan r L refs = .ok hist ∧
      RunResult r hist (Scan.blobsIn r L) (Scan.treesIn r L) (Scan.commitsIn r L) (Scan.tagsIn r L) refs.length :=
  Scan.scanHypothesesb_sound r L refs h

example : Scan.scanHypothesesb demo demoListing = true := by decide
example : Scan.runHypothesesb demo demoOps = true := by decide

end GitSizer.T1
