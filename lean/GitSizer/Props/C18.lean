import GitSizer.Proofs.Meter
import GitSizer.Gen.Cmds
/-! # C18 — Progress reports the exact work done
    For EVERY interleaving of the ticker goroutines (live or stale, any timing) with the worker's
    `Start / Inc* / Done` sequence. The real timer, scheduler and Go memory model are not modelled;
    observed histories of the real `progressMeter` (tiny periods, random delays) are checked to be
    histories of this model by the `meter` engine. -/
namespace GitSizer.C18
open GitSizer.Meter

/-- phases appear in order; **within a phase counts never decrease**; **once a phase's final line
    is written no further line for that phase appears** -/
theorem lines_ordered (es : List Ev) (m : M) (hr : run es init = some m) : m.out.Pairwise R :=
  (inv_run es init m inv_init hr).pw

/-- **each phase's final line carries the exact number of `Inc()` calls of that phase** -/
theorem final_exact (es : List Ev) (m : M) (hr : run es init = some m) (l : Line) (hl : l ∈ m.out)
    (hf : l.final = true) : (l.phase, l.count) ∈ incsOfPhases es 0 0 [] := by
  have h := (inv_run es init m inv_init hr).final_all l hl hf
  rw [fin_eq_counted es init m hr] at h
  exact h

/-- a tick of a stale goroutine (one started before the last `Done`/`Start`) prints nothing -/
theorem stale_tick_silent (m : M) (g : Nat) (hg : m.cur ≠ some g) (m' : M) (h : step m (.tick g) = some m') :
    m'.out = m.out := by
  simp only [step, hg, if_false] at h
  split at h <;> (simp at h; subst h; rfl)

/-- non-vacuity: a stale tick between two phases, a live tick inside the second -/
example : (run [.start, .inc, .tick 0, .inc, .done, .tick 0, .start, .tick 0, .inc, .tick 1, .done] init).map (·.out) =
    some [⟨1, 1, false⟩, ⟨1, 2, true⟩, ⟨2, 1, false⟩, ⟨2, 1, true⟩] := by decide

/-! ## one `Inc()` per processed object, REGENERATED (sizes/graph.go)

`Gen.Cmds.scanFlow` lists every statement of `ScanRepositoryUsingGraph` in source order with its
branch path. The bracket structure of the progress phases is a decidable property of that list:
between each `progressMeter.Start(…)` and the `progressMeter.Done()` that follows it there is exactly
one loop; the loop body calls `progressMeter.Inc()` exactly once, in the same straight-line block as
the call that processes the object (`graph.Register*`, `RecordCommit`) — or, in the references phase,
unconditionally at the top of the body; the body contains no `continue`, its only `break` is the
end-of-stream test `if !ok`, and every `return` in it returns an error (the scan fails and no final
line is written). Hence in a successful scan #Inc of a phase = #objects processed in that phase, which
`final_exact` turns into the number on the phase's final line and `C01.census_exact` into the census
count. (Seeded change C18v — `Inc()` moved behind `if !root.Walk() { continue }` — breaks it.) -/

abbrev Ev := String × String × List (String × String)

/-- events of the scanning goroutine itself (not of the two feeder goroutines) -/
def mainEvents (flow : List Ev) : List Ev := flow.filter (fun e => !(e.2.2.any (fun c => c.2 == "go")))

def isStart (e : Ev) : Bool :=
  e.1 == "call" && ["progressMeter.Start(\"Processing blobs: %d\")", "progressMeter.Start(\"Processing trees: %d\")",
    "progressMeter.Start(\"Processing commits: %d\")", "progressMeter.Start(\"Matching commits to trees: %d\")",
    "progressMeter.Start(\"Processing annotated tags: %d\")", "progressMeter.Start(\"Processing references: %d\")"].contains e.2.1
def isDone (e : Ev) : Bool := e.1 == "call" && e.2.1 == "progressMeter.Done()"
def isInc (e : Ev) : Bool := e.1 == "call" && e.2.1 == "progressMeter.Inc()"
/-- the statements that process one object -/
def isWork (e : Ev) : Bool :=
  ["graph.RegisterBlob(obj.OID, obj.ObjectSize)", "err = graph.RegisterTree(obj.OID, tree)",
   "graph.RegisterCommit(obj.OID, commit)", "graph.pathResolver.RecordCommit(commit.oid, commit.tree)",
   "graph.RegisterTag(obj.OID, tag)", "graph.RegisterReference(refRoot.Reference(), refRoot.Groups())"].contains e.2.1

/-- (Start event, events up to but excluding the next Done, that Done) for every phase -/
def phases : List Ev → List (Ev × List Ev × Option Ev)
  | [] => []
  | e :: rest =>
    if isStart e then
      let body := rest.takeWhile (fun x => !isDone x)
      (e, body, (rest.dropWhile (fun x => !isDone x)).head?) :: phases rest
    else phases rest

def isPrefixPath : List (String × String) → List (String × String) → Bool
  | [], _ => true
  | a :: as, b :: bs => a == b && isPrefixPath as bs
  | _ :: _, [] => false

def phaseOK (ph : Ev × List Ev × Option Ev) : Bool :=
  let start := ph.1
  let body := ph.2.1
  let P := start.2.2
  match ph.2.2, body with
  | some done, loop :: _ =>
    let L := loop.2.2
    -- Start and Done in the same block; the body is one loop directly in that block
    done.2.2 == P && loop.1 == "for" && L.length == P.length + 1 && isPrefixPath P L &&
    body.all (fun e => isPrefixPath L e.2.2) &&
    -- no nested phase, no continue; break only as `if !ok { break }` directly in the loop body
    body.all (fun e => !isStart e && e.1 != "continue" && e.1 != "goto") &&
    body.all (fun e => e.1 != "break" ||
      (e.2.2.length == L.length + 1 && body.any (fun i => i.1 == "if" && i.2.1 == "!ok" && i.2.2.length == L.length + 1 &&
        i.2.2.dropLast == L && (i.2.2.getLast?.map (·.1)) == (e.2.2.getLast?.map (·.1))))) &&
    -- every return inside the phase is an error return
    body.all (fun e => e.1 != "return") &&
    -- exactly one Inc and one work statement, in the same straight-line block (or Inc unconditional)
    (body.filter isInc).length == 1 && (body.filter isWork).length == 1 &&
    (body.filter isInc).all (fun i => (body.filter isWork).all (fun w =>
      i.2.2 == w.2.2 || (i.2.2 == L && isPrefixPath L w.2.2))) &&
    -- the Inc sits directly in the loop body or directly in a case of a switch in the loop body
    (body.filter isInc).all (fun i => i.2.2 == L || (i.2.2.dropLast == L && (i.2.2.getLast?.map (fun c => c.1.take 1)) == some "s"))
  | _, _ => false

/-- **six phases, each `Start … one loop … Done`, one `Inc()` per processed object** -/
theorem one_inc_per_object :
    ((phases (mainEvents Gen.Cmds.scanFlow)).map (fun ph => ph.1.2.1)).length = 6 ∧
    (phases (mainEvents Gen.Cmds.scanFlow)).all phaseOK = true := by
  constructor <;> decide +kernel

/-- no `Inc()` outside the phases: as many `Inc()` statements as phases -/
theorem incs_only_in_phases :
    ((mainEvents Gen.Cmds.scanFlow).filter isInc).length = 6 ∧ ((mainEvents Gen.Cmds.scanFlow).filter isDone).length = 6 := by
  constructor <;> decide +kernel


end GitSizer.C18
