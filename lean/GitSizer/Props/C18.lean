import GitSizer.Proofs.Meter
/-! # C18 — Progress reports the exact work done
    For EVERY interleaving of the ticker goroutines (live or stale, any timing) with the worker's
    `Start / Inc* / Done` sequence. The real timer, scheduler and Go memory model are not modelled;
    observed histories of the real `progressMeter` (tiny periods, random delays) are checked to be
    histories of this model by the `meter` engine. -/
namespace GitSizer.C18
open GitSizer.Meter

/-- phases appear in order; **within a phase counts never decrease**; **once a phase's final line
    is written no further line for that phase appears** -/
theorem lines_ordered (es : List Ev) (m : M) (hr : run es init = some m) : m.out.Pairwise R :=
  (inv_run es init m inv_init hr).pw

/-- **each phase's final line carries the exact number of `Inc()` calls of that phase** -/
theorem final_exact (es : List Ev) (m : M) (hr : run es init = some m) (l : Line) (hl : l ∈ m.out)
    (hf : l.final = true) : (l.phase, l.count) ∈ incsOfPhases es 0 0 [] := by
  have h := (inv_run es init m inv_init hr).final_all l hl hf
  rw [fin_eq_counted es init m hr] at h
  exact h

/-- a tick of a stale goroutine (one started before the last `Done`/`Start`) prints nothing -/
theorem stale_tick_silent (m : M) (g : Nat) (hg : m.cur ≠ some g) (m' : M) (h : step m (.tick g) = some m') :
    m'.out = m.out := by
  simp only [step, hg, if_false] at h
  split at h <;> (simp at h; subst h; rfl)

/-- non-vacuity: a stale tick between two phases, a live tick inside the second -/
example : (run [.start, .inc, .tick 0, .inc, .done, .tick 0, .start, .tick 0, .inc, .tick 1, .done] init).map (·.out) =
    some [⟨1, 1, false⟩, ⟨1, 2, true⟩, ⟨2, 1, false⟩, ⟨2, 1, true⟩] := by decide

end GitSizer.C18
