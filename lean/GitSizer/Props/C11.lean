import GitSizer.Proofs.Output
/-! # C11 — Table, JSON v1 and JSON v2 agree; the threshold filters monotonically
    Theorems about the renderer model (`Model/Output`, instantiated with the metric table
    REGENERATED from sizes/output.go; float64 arithmetic modelled exactly). The model is compared
    byte-for-byte with the real `TableString` and field-by-field with both JSON encodings. -/
namespace GitSizer.C11
open GitSizer GitSizer.Output GitSizer.Human

/-- **a row is shown iff the value is saturated or value/reference ≥ threshold** (`alertLt` is the
    float64 comparison `alert < threshold`, false for NaN) -/
theorem row_iff (v : Val) (sn sd : Nat) (thr : Thr) :
    (levelOfConcern v sn sd thr).isSome = (v.overflow || !alertLt (alertOf v sn sd) thr) := shown_iff v sn sd thr

/-- **the concern marker**: thirty exclamation marks if saturated or value/reference > 30,
    otherwise ⌊value/reference⌋ asterisks -/
theorem marker (v : Val) (sn sd : Nat) (thr : Thr) (l : String) (h : levelOfConcern v sn sd thr = some l) :
    l = if v.overflow || Dy.lt ⟨concernLimit, 1⟩ (alertOf v sn sd) then bangs else starsN (Dy.floor (alertOf v sn sd)) :=
  marker_spec v sn sd thr l h

/-- the limit and the marker strings come from the regenerated source: 30, thirty '!', thirty '*' -/
theorem marker_constants : concernLimit = 30 ∧ bangs.length = 30 ∧ Gen.Tables.starsConst.length = 30 ∧
    bangs.toList.all (· == '!') = true ∧ Gen.Tables.starsConst.toList.all (· == '*') = true := by decide +kernel

/-- **raising the threshold only removes rows** (and never changes the marker of a remaining row) -/
theorem monotone (v : Val) (sn sd : Nat) (t1 t2 : Thr) (ha : 0 < (alertOf v sn sd).den)
    (hd1 : ∀ s x, t1 = .fin s x → 0 < x.den) (hd2 : ∀ s x, t2 = .fin s x → 0 < x.den)
    (hle : thrLe t1 t2 = true) (l : String) (h : levelOfConcern v sn sd t2 = some l) :
    levelOfConcern v sn sd t1 = some l := shown_mono v sn sd t1 t2 ha hd1 hd2 hle l h

/-- the metrics that get a row at a threshold, in table order, with their markers -/
def shownRows (thr : Thr) (c : Node) : List (String × String) :=
  (items c).filterMap (fun i => (levelOfConcern i.value i.scaleNum i.scaleDen thr).map (fun l => (i.symbol, l)))

/-- **raising the threshold only removes rows, for whole tables**: the rows shown at the higher threshold
    are a sub-list (same order, same markers) of the rows shown at the lower one -/
theorem threshold_only_removes_rows (c : Node) (t1 t2 : Thr)
    (hitems : ∀ i ∈ items c, 0 < (alertOf i.value i.scaleNum i.scaleDen).den)
    (hd1 : ∀ s x, t1 = .fin s x → 0 < x.den) (hd2 : ∀ s x, t2 = .fin s x → 0 < x.den) (hle : thrLe t1 t2 = true) :
    (shownRows t2 c).Sublist (shownRows t1 c) := by
  unfold shownRows
  generalize hl : items c = l at hitems
  clear hl
  induction l with
  | nil => exact List.Sublist.slnil
  | cons i rest ih =>
    have ih' := ih (fun j hj => hitems j (List.mem_cons_of_mem _ hj))
    simp only [List.filterMap_cons]
    cases h2 : levelOfConcern i.value i.scaleNum i.scaleDen t2 with
    | none =>
      simp only [Option.map_none]
      cases h1 : levelOfConcern i.value i.scaleNum i.scaleDen t1 with
      | none => simpa using ih'
      | some l1 => simpa using List.Sublist.cons _ ih'
    | some l2 =>
      have h1 := monotone i.value i.scaleNum i.scaleDen t1 t2 (hitems i List.mem_cons_self) hd1 hd2 hle l2 h2
      simp only [h1, Option.map_some]
      exact List.Sublist.cons₂ _ ih'

/-- **--verbose shows every metric** (threshold 0; likewise any negative threshold) -/
theorem verbose_all (v : Val) (sn sd : Nat) : (levelOfConcern v sn sd (.fin false ⟨0, 1⟩)).isSome = true :=
  verbose_shows_all v sn sd false ⟨0, 1⟩ (Or.inr rfl)

/-- **--verbose shows every metric, for whole tables**: one row per item -/
theorem verbose_shows_every_row (c : Node) : (shownRows (.fin false ⟨0, 1⟩) c).map (·.1) = (items c).map (·.symbol) := by
  unfold shownRows
  induction items c with
  | nil => rfl
  | cons i rest ih =>
    have h := verbose_all i.value i.scaleNum i.scaleDen
    cases hl : levelOfConcern i.value i.scaleNum i.scaleDen (.fin false ⟨0, 1⟩) with
    | none => rw [hl] at h; cases h
    | some l => simp [List.filterMap_cons, hl, ih]

/-- the regenerated flag table: --verbose is threshold 0, --critical is 30, --no-verbose is 1 -/
theorem threshold_flags : Gen.Tables.thresholdFlags = [("verbose", 0, 1), ("no-verbose", 1, 1), ("critical", 30, 1)] := by
  decide

/-- **when no row qualifies, the single "no problems" line is printed — and only then** -/
theorem no_problems (thr : Thr) (c : Node) (out : Bytes) (h : tableString thr c = some out) :
    out = noProblems ↔ shownAny thr c = false := no_problems_iff thr c out h

/-- every metric of the regenerated table reads a numeric field of `HistorySize` that carries a
    JSON v1 key, and (if it cites an object) a witness field with a JSON v1 key: the table, v1 and
    v2 present the same struct fields -/
def fieldsOK : Gen.Tables.Node → Bool
  | .sec _ kids => kidsOK kids
  | .item _ _ _ pathField valueField _ _ _ sd =>
    Gen.historySizeJsonTags.any (fun t => t.1 == valueField && t.2 != "") &&
    Gen.historySizeWidths.any (fun w => w.1 == valueField) &&
    (pathField == "" || Gen.historySizeJsonTags.any (fun t => t.1 == pathField && t.2 != "")) && sd != 0
  | .refgroups => true
where kidsOK : List Gen.Tables.Node → Bool
  | [] => true
  | n :: ns => fieldsOK n && kidsOK ns

theorem same_fields : fieldsOK Gen.Tables.contents = true := by decide +kernel

/-- non-vacuity: 25 000 tags is one star at threshold 1 and hidden at threshold 1.5 -/
example : levelOfConcern ⟨25000, 32⟩ 25000 1 (.fin false ⟨1, 1⟩) = some "*" := by decide +kernel
example : levelOfConcern ⟨25000, 32⟩ 25000 1 (.fin false ⟨3, 2⟩) = none := by decide +kernel


/-- `item.levelOfConcern` statement by statement, REGENERATED from sizes/output.go: a saturated value is
    always shown with the off-scale marker; otherwise alert = value / scale (in float64), the row is
    hidden iff alert < threshold, the marker is off-scale iff alert > 30, else the first ⌊alert⌋ stars —
    the decision sequence that `Model/Output.levelOfConcern` implements and the theorems above are about -/
theorem level_of_concern_statements :
    Gen.Tables.levelOfConcernFlow =
      [("let", "value, overflow", "i.value.ToUint64()"),
       ("if", "overflow", "\"!!!!!!!!!!!!!!!!!!!!!!!!!!!!!!\", true"),
       ("let", "alert", "Threshold(float64(value) / i.scale)"),
       ("if", "alert < threshold", "\"\", false"),
       ("if", "alert > 30", "\"!!!!!!!!!!!!!!!!!!!!!!!!!!!!!!\", true"),
       ("return", "", "stars[:int(alert)], true")] := by decide

end GitSizer.C11
