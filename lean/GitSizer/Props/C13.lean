import GitSizer.Model.Cmds
/-! # C13 — The repository measured is the real one, however it is addressed
    Theorems over the REGENERATED table of call sites: every git command except the discovery call is
    started through `GitCommand`, which puts `--no-replace-objects` first, pins `GIT_DIR` to the
    discovered directory and sets `GIT_GRAFT_FILE` to the null device; a shallow marker is looked up
    through the pinned repository. That git's own repository discovery yields the same directory for
    every way of addressing it is not expressible in the model: the `addr` engine compares the real
    binary's reports across work-tree top, subdirectory, GIT_DIR, `git -C … sizer`, a bare copy and a
    linked worktree, with replace refs, graft files and shallow markers planted. -/
namespace GitSizer.C13
open GitSizer.Cmds

/-- **every command after discovery goes through `GitCommand`** -/
theorem every_command_pinned :
    Gen.Cmds.commandSites.all (fun s => isDiscovery s || s.2.2.1 == "GitCommand") = true := by decide

/-- exactly one discovery call exists -/
theorem one_discovery : (Gen.Cmds.commandSites.filter isDiscovery).length = 1 := by decide

/-- **`GitCommand` disables replace references and grafts and pins the repository** -/
theorem gitCommand_pins :
    Gen.Cmds.gitCommandPrefix.head? = some "--no-replace-objects" ∧
    Gen.Cmds.gitCommandEnv.contains "GIT_DIR=<repo.gitDir>" = true ∧
    Gen.Cmds.gitCommandEnv.contains "GIT_GRAFT_FILE=<os.DevNull>" = true := by decide

/-- the shallow marker is looked up with `rev-parse --git-path` through the pinned repository -/
theorem shallow_lookup_pinned :
    Gen.Cmds.commandSites.any (fun s => s.2.1 == "GitPath" && s.2.2.1 == "GitCommand" && s.2.2.2.take 2 == ["rev-parse", "--git-path"]) = true := by
  decide

end GitSizer.C13
