import GitSizer.Proofs.Parsers
import GitSizer.Proofs.GenStrs
import GitSizer.Proofs.GenObjs
import GitSizer.Proofs.ParsersExact
/-! # C16 — Object parsers are lossless and total
    Theorems about the statement-by-statement models of git/tree.go, git/obj_head_iter.go,
    git/commit.go, git/tag.go, git/batch_header.go, git/reference.go (every Go slice or index
    expression is a checked operation of the model: a panic in Go is a `Res.panic` here). The models
    are tied to the code by the `parsers` correspondence engine. -/
namespace GitSizer.C16
open GitSizer GitSizer.Parsers

/-- **lossless**: parsing the serialisation of any entry list git can store yields exactly those
    entries (mode, name bytes, oid) in order — so re-serialising reproduces the object. -/
theorem tree_roundtrip (es : List TreeEntry) (hok : ∀ e ∈ es, Spec.EntryOK e) :
    parseTree (Spec.serTree es) = .ok es := by
  unfold parseTree
  have := parseTreeFuel_ser es ((Spec.serTree es).length + 1) [] hok (by have := serTree_length es; omega)
  simpa using this

theorem tree_reserialise (es : List TreeEntry) (hok : ∀ e ∈ es, Spec.EntryOK e) :
    (parseTree (Spec.serTree es)).bind (fun es' => .ok (Spec.serTree es')) = .ok (Spec.serTree es) := by
  rw [tree_roundtrip es hok]; rfl

/-- **total** on arbitrary bytes: the tree iterator never panics … -/
theorem tree_total (data : Bytes) : (parseTree data).isPanic = false :=
  parseTreeFuel_no_panic _ data []
/-- … and terminates: every step consumes at least 23 bytes, so `len(data)+1` steps always suffice -/
theorem tree_terminates (data : Bytes) : parseTree data ≠ .err "fuel" :=
  parseTreeFuel_enough _ data [] (by omega)
theorem tree_step_progress {data : Bytes} {e : TreeEntry} {rest : Bytes}
    (h : nextEntry data = .ok (some (e, rest))) : rest.length + 23 ≤ data.length := nextEntry_progress h

theorem commit_total (data : Bytes) : (parseCommit data).isPanic = false := parseCommit_no_panic data
theorem tag_total (data : Bytes) : (parseTag data).isPanic = false := parseTag_no_panic data
theorem header_step_progress {data k v rest : Bytes} (h : nextHeader data = .ok (k, v, rest)) :
    rest.length + 2 ≤ data.length := nextHeader_progress h
/-- the header block handed to the iterator never extends past the input -/
theorem header_block_inside {data block : Bytes} (h : headerBlock data = .ok block) :
    block.length ≤ data.length := headerBlock_length h

/-- the listing parsers never crash, on any line (in particular any truncation of valid output) -/
theorem batch_header_total (line : Bytes) : (parseBatchHeader line).isPanic = false :=
  parseBatchHeader_no_panic line
theorem reference_total (line : Bytes) : (parseReference line).isPanic = false :=
  parseReference_no_panic line

/-- F5 (repaired in /repo by a `fix:` commit): the code as it was panicked on these lines -/
theorem F5_witness_empty : (parseBatchHeaderOld []).isPanic = true := by
  rw [parseBatchHeaderOld_panics_empty]; rfl
theorem F5_witness_truncated :
    (parseBatchHeaderOld ((List.replicate 40 (97 : UInt8)) ++ [32, 98, 108, 111, 98, 10])).isPanic = true := by
  rw [parseBatchHeaderOld_panics_short]; rfl

/-- non-vacuity: a two-entry tree with a space, a newline and a high byte in the names -/
example : parseTree (Spec.serTree [⟨0o100644, [97, 32, 98], List.replicate 20 7⟩, ⟨0o40000, [10, 200], List.replicate 20 0⟩])
    = .ok [⟨0o100644, [97, 32, 98], List.replicate 20 7⟩, ⟨0o40000, [10, 200], List.replicate 20 0⟩] := by
  decide +kernel

/-- **commits parse exactly**: for EVERY well-formed commit object (`Spec.CommitObj.OK`: 20-byte
    ids; after the parent lines any header lines whatever, in any order — extra headers spelt
    `parent …`/`tree …`, signatures and merge tags whose continuation lines imitate headers; with or
    without a message of arbitrary bytes) the parser returns exactly the tree, the parents in order,
    and the length — never text from the message, a continuation line or an extra header. -/
theorem commit_exact (c : Spec.CommitObj) (ok : c.OK) :
    parseCommit (Spec.serCommit c) = .ok ⟨clamp c32 (Spec.serCommit c).length, c.parents, c.tree⟩ :=
  parseCommit_serCommit c ok

/-- **tags parse exactly**: likewise the tagged object and the type text of the first two lines -/
theorem tag_exact (t : Spec.TagObj) (ok : t.OK) :
    parseTag (Spec.serTag t) = .ok ⟨clamp c32 (Spec.serTag t).length, t.object, t.type⟩ :=
  parseTag_serTag t ok

/-- non-vacuity: an octopus-less merge commit whose extra headers and message imitate headers -/
def demoCommit : Spec.CommitObj :=
  { tree := List.replicate 20 1, parents := [List.replicate 20 2, List.replicate 20 3],
    extra := [⟨[97, 117, 116, 104, 111, 114], [65]⟩,                       -- author A
              ⟨kParent, Spec.hexEncode (List.replicate 20 9)⟩,             -- extra header "parent 0909…"
              ⟨[103, 112, 103, 115, 105, 103], [45, 45]⟩,                  -- gpgsig --
              ⟨[], kTree ++ [32] ++ Spec.hexEncode (List.replicate 20 8)⟩, -- continuation " tree 0808…"
              ⟨kTree, [120]⟩],                                             -- extra header "tree x"
    message := some (kParent ++ [32, 120, 10, 10] ++ kTree ++ [32, 121, 10]) }

theorem demoCommit_ok : demoCommit.OK := by
  refine ⟨by decide, ?_, ?_, ?_⟩
  · intro p hp; simp only [demoCommit, List.mem_cons, List.not_mem_nil, or_false] at hp
    rcases hp with rfl | rfl <;> decide
  · intro l hl; simp only [demoCommit, List.mem_cons, List.not_mem_nil, or_false] at hl
    rcases hl with rfl | rfl | rfl | rfl | rfl <;> exact ⟨by decide, by decide, by decide⟩
  · intro l hl; simp only [demoCommit, List.head?_cons, Option.some.injEq] at hl; subst hl; exact ⟨by decide, by decide⟩

example : parseCommit (Spec.serCommit demoCommit) =
    .ok ⟨clamp c32 (Spec.serCommit demoCommit).length, [List.replicate 20 2, List.replicate 20 3], List.replicate 20 1⟩ :=
  commit_exact demoCommit demoCommit_ok

/-- F6 (repaired in /repo by a `fix:` commit): before the repair the same object was rejected
    ("multiple trees"), and a lone extra `parent` header was counted — `commitStreamOld` is the loop
    as it was -/
def commitStreamOld : Nat → Bytes → List Bytes → Option Bytes → Res (List Bytes × Option Bytes)
  | 0, _, ps, t => .ok (ps.reverse, t)
  | fuel + 1, data, ps, t =>
    if data.isEmpty then .ok (ps.reverse, t) else
    match nextHeader data with
    | .err c => .err c
    | .panic c => .panic c
    | .ok (k, v, rest) =>
      if k = kParent then
        match Go.newOID v with
        | none => .err "bad-parent"
        | some o => commitStreamOld fuel rest (o :: ps) t
      else if k = kTree then
        match t with
        | some _ => .err "multiple-trees"
        | none =>
          match Go.newOID v with
          | none => .err "bad-tree"
          | some o => commitStreamOld fuel rest ps (some o)
      else commitStreamOld fuel rest ps t

theorem F6_witness :
    commitStreamOld 100 (Spec.serLines ({ demoCommit with extra := demoCommit.extra.take 2 } : Spec.CommitObj).lines) [] none =
      .ok ([List.replicate 20 2, List.replicate 20 3, List.replicate 20 9], some (List.replicate 20 1)) := by
  decide +kernel


/-- **the listing parsers, REGENERATED.** `ParseBatchHeader` (git/batch_header.go) and
    `ParseReference` (git/reference.go) as translated from the source on this run — `strings.Split`,
    every `words[i]`, `header[len(header)-1]`, `header[:len(header)-1]` as CHECKED operations, the
    `(value, error)` returns of `NewOID` / `strconv.ParseUint` as the error monad — have exactly the
    models' outcome: the same (oid, type, size[, refname]) or an error in the same cases, and never a
    panic. Together with `batch_header_total` / `reference_total` this is totality of the source. -/
theorem listing_parsers_source (spec line : Bytes) :
    Res.sim (fun t (h : Parsers.BatchHeader) => t = (h.oid, h.objType, h.size))
      (Gen.Strs.ParseBatchHeader spec line) (Parsers.parseBatchHeader line) ∧
    Res.sim (fun t (r : Parsers.Reference) => t = (r.refname, r.objType, r.size, r.oid))
      (Gen.Strs.ParseReference line) (Parsers.parseReference line) :=
  ⟨parseBatchHeader_regenerated spec line, parseReference_regenerated line⟩

theorem sim_no_panic {α β : Type} {R : α → β → Prop} {a : Res α} {b : Res β} (h : Res.sim R a b)
    (hb : b.isPanic = false) : a.isPanic = false := by
  cases a <;> cases b <;> simp_all [Res.sim, Res.isPanic]

/-- **the object parsers, REGENERATED.** `TreeIter.NextEntry` (git/tree.go), `NewObjectHeaderIter`
    and `ObjectHeaderIter.Next` (git/obj_head_iter.go), `ParseCommit` (git/commit.go) and `ParseTag`
    (git/tag.go) as translated from the source on this run — pointer receivers as state passed in
    and out, every slice/index as a CHECKED operation, the header loops by recursion on fuel
    len(iter.data)+1 (running out is a panic) — have exactly the models' outcome on EVERY byte
    string: the same entry/rest, header block, (key, value, rest), (size, parents, tree),
    (size, referent, type), or an error in the same cases. So `tree_roundtrip`, `commit_exact`,
    `tag_exact` and the totality theorems above are statements about what the source says now. -/
theorem object_parsers_source (name data : Bytes) :
    Res.sim (fun (t : Bytes × Bytes × Nat × Bool × Bytes) (r : Option (Parsers.TreeEntry × Bytes)) =>
        match r with
        | none => t = ([], Go.zeroOID, 0, false, data)
        | some (e, rest) => t = (e.name, e.oid, e.mode, true, rest))
      (Gen.Objs.TreeIter_NextEntry data) (Parsers.nextEntry data) ∧
    Res.sim (fun (t : Bytes × Bytes) (b : Bytes) => t = (name, b))
      (Gen.Objs.NewObjectHeaderIter name data) (Parsers.headerBlock data) ∧
    Res.sim (fun (t : Bytes × Bytes × Bytes × Bytes) (r : Bytes × Bytes × Bytes) => t = (r.1, r.2.1, name, r.2.2))
      (Gen.Objs.ObjectHeaderIter_Next name data) (Parsers.nextHeader data) ∧
    Res.sim (fun (x : Nat × List Bytes × Bytes) (c : Parsers.Commit) => x = (c.size, c.parents, c.tree))
      (Gen.Objs.ParseCommit name data) (Parsers.parseCommit data) ∧
    Res.sim (fun (x : Nat × Bytes × Bytes) (c : Parsers.Tag) => x = (c.size, c.referent, c.refType))
      (Gen.Objs.ParseTag name data) (Parsers.parseTag data) :=
  ⟨nextEntry_regenerated data, headerBlock_regenerated name data, nextHeader_regenerated name data,
   parseCommit_regenerated name data, parseTag_regenerated name data⟩

/-- **the source never panics**: no slice or index of the regenerated object parsers is ever out
    of range and no loop outruns its fuel, on arbitrary bytes -/
theorem object_parsers_source_total (name data : Bytes) :
    (Gen.Objs.TreeIter_NextEntry data).isPanic = false ∧ (Gen.Objs.ParseCommit name data).isPanic = false ∧
    (Gen.Objs.ParseTag name data).isPanic = false :=
  ⟨sim_no_panic (nextEntry_regenerated data) (nextEntry_no_panic data),
   sim_no_panic (parseCommit_regenerated name data) (parseCommit_no_panic data),
   sim_no_panic (parseTag_regenerated name data) (parseTag_no_panic data)⟩


end GitSizer.C16
