import GitSizer.Proofs.Parsers
/-! # C16 — Object parsers are lossless and total
    Theorems about the statement-by-statement models of git/tree.go, git/obj_head_iter.go,
    git/commit.go, git/tag.go, git/batch_header.go, git/reference.go (every Go slice or index
    expression is a checked operation of the model: a panic in Go is a `Res.panic` here). The models
    are tied to the code by the `parsers` correspondence engine. -/
namespace GitSizer.C16
open GitSizer GitSizer.Parsers

/-- **lossless**: parsing the serialisation of any entry list git can store yields exactly those
    entries (mode, name bytes, oid) in order — so re-serialising reproduces the object. -/
theorem tree_roundtrip (es : List TreeEntry) (hok : ∀ e ∈ es, Spec.EntryOK e) :
    parseTree (Spec.serTree es) = .ok es := by
  unfold parseTree
  have := parseTreeFuel_ser es ((Spec.serTree es).length + 1) [] hok (by have := serTree_length es; omega)
  simpa using this

theorem tree_reserialise (es : List TreeEntry) (hok : ∀ e ∈ es, Spec.EntryOK e) :
    (parseTree (Spec.serTree es)).bind (fun es' => .ok (Spec.serTree es')) = .ok (Spec.serTree es) := by
  rw [tree_roundtrip es hok]; rfl

/-- **total** on arbitrary bytes: the tree iterator never panics … -/
theorem tree_total (data : Bytes) : (parseTree data).isPanic = false :=
  parseTreeFuel_no_panic _ data []
/-- … and terminates: every step consumes at least 23 bytes, so `len(data)+1` steps always suffice -/
theorem tree_terminates (data : Bytes) : parseTree data ≠ .err "fuel" :=
  parseTreeFuel_enough _ data [] (by omega)
theorem tree_step_progress {data : Bytes} {e : TreeEntry} {rest : Bytes}
    (h : nextEntry data = .ok (some (e, rest))) : rest.length + 23 ≤ data.length := nextEntry_progress h

theorem commit_total (data : Bytes) : (parseCommit data).isPanic = false := parseCommit_no_panic data
theorem tag_total (data : Bytes) : (parseTag data).isPanic = false := parseTag_no_panic data
theorem header_step_progress {data k v rest : Bytes} (h : nextHeader data = .ok (k, v, rest)) :
    rest.length + 2 ≤ data.length := nextHeader_progress h
/-- the header block handed to the iterator never extends past the input -/
theorem header_block_inside {data block : Bytes} (h : headerBlock data = .ok block) :
    block.length ≤ data.length := headerBlock_length h

/-- the listing parsers never crash, on any line (in particular any truncation of valid output) -/
theorem batch_header_total (line : Bytes) : (parseBatchHeader line).isPanic = false :=
  parseBatchHeader_no_panic line
theorem reference_total (line : Bytes) : (parseReference line).isPanic = false :=
  parseReference_no_panic line

/-- F5 (repaired in /repo by a `fix:` commit): the code as it was panicked on these lines -/
theorem F5_witness_empty : (parseBatchHeaderOld []).isPanic = true := by
  rw [parseBatchHeaderOld_panics_empty]; rfl
theorem F5_witness_truncated :
    (parseBatchHeaderOld ((List.replicate 40 (97 : UInt8)) ++ [32, 98, 108, 111, 98, 10])).isPanic = true := by
  rw [parseBatchHeaderOld_panics_short]; rfl

/-- non-vacuity: a two-entry tree with a space, a newline and a high byte in the names -/
example : parseTree (Spec.serTree [⟨0o100644, [97, 32, 98], List.replicate 20 7⟩, ⟨0o40000, [10, 200], List.replicate 20 0⟩])
    = .ok [⟨0o100644, [97, 32, 98], List.replicate 20 7⟩, ⟨0o40000, [10, 200], List.replicate 20 0⟩] := by
  decide +kernel

end GitSizer.C16
