import GitSizer.Proofs.Human
/-! # C12 — Human-readable numbers
    Theorems about the model `Human.formatNum` instantiated with the prefix tables REGENERATED from
    counts/human.go. The float part of the model (float64 conversion, division, %.Nf) is exact
    integer arithmetic and is validated string-exactly against the Go code on every run. -/
namespace GitSizer.C12
open GitSizer GitSizer.Human

/-- the regenerated tables are well-formed: first multiplier 1, strictly increasing -/
theorem tables_wellformed : TableWF Gen.Tables.metricPrefixes ∧ TableWF Gen.Tables.binaryPrefixes :=
  ⟨metric_wf, binary_wf⟩

/-- **prefix is the largest one not exceeding the value**, for every n, any well-formed table:
    the chosen prefix is a table entry, does not exceed n (unless it is the unit prefix), and every
    table entry not exceeding n is at most the chosen one. -/
theorem prefix_largest {t : List Prefix} (wf : TableWF t) (n : Nat) :
    (selectPrefix t n).2 ∈ t ∧ ((selectPrefix t n).2.2 ≤ n ∨ (selectPrefix t n).2.2 = 1) ∧
    ∀ p ∈ t, p.2 ≤ n → p.2 ≤ (selectPrefix t n).2.2 :=
  let h := selectPrefix_spec wf n
  ⟨h.1, h.2.2.2.1, h.2.2.2.2⟩

theorem prefix_largest_metric (n : Nat) :
    ∀ p ∈ Gen.Tables.metricPrefixes, p.2 ≤ n → p.2 ≤ (selectPrefix Gen.Tables.metricPrefixes n).2.2 :=
  (prefix_largest metric_wf n).2.2
theorem prefix_largest_binary (n : Nat) :
    ∀ p ∈ Gen.Tables.binaryPrefixes, p.2 ≤ n → p.2 ≤ (selectPrefix Gen.Tables.binaryPrefixes n).2.2 :=
  (prefix_largest binary_wf n).2.2

/-- the "whole part" that selects the number of decimals is ⌊n / multiplier⌋ -/
theorem whole_part {t : List Prefix} (wf : TableWF t) (n : Nat) :
    (selectPrefix t n).1 = n / (selectPrefix t n).2.2 := (selectPrefix_spec wf n).2.2.1

/-- **values below the first prefix are printed exactly** (no float arithmetic is involved) -/
theorem exact_below_first_prefix {t : List Prefix} (wf : TableWF t) (n : Nat)
    (h : ∀ p ∈ t, p.2 ≠ 1 → n < p.2) : formatNum t n = .exact n := by
  unfold formatNum
  have hs := selectPrefix_spec wf n
  generalize selectPrefix t n = r at hs
  obtain ⟨w, q⟩ := r
  simp only at hs ⊢
  have : q.2 = 1 := by
    rcases hs.2.2.2.1 with hle | h1
    · apply Classical.byContradiction; intro hne
      have := h q hs.1 hne; omega
    · exact h1
  simp [this]

theorem exact_below_1000 (n : Nat) (h : n < 1000) :
    (formatNumber Gen.Tables.metricPrefixes n "").1 = toString n := by
  have : formatNum Gen.Tables.metricPrefixes n = .exact n := by
    apply exact_below_first_prefix metric_wf
    intro p hp hne
    simp only [Gen.Tables.metricPrefixes, List.mem_cons, List.not_mem_nil, or_false] at hp
    rcases hp with rfl | rfl | rfl | rfl | rfl | rfl <;> simp at hne ⊢ <;> omega
  simp [formatNumber, this, Num.render]

theorem exact_below_1024 (n : Nat) (h : n < 1024) :
    (formatNumber Gen.Tables.binaryPrefixes n "").1 = toString n := by
  have : formatNum Gen.Tables.binaryPrefixes n = .exact n := by
    apply exact_below_first_prefix binary_wf
    intro p hp hne
    simp only [Gen.Tables.binaryPrefixes, List.mem_cons, List.not_mem_nil, or_false] at hp
    rcases hp with rfl | rfl | rfl | rfl | rfl | rfl <;> simp at hne ⊢ <;> omega
  simp [formatNumber, this, Num.render]

/-- number of decimals: 0 / 1 / 2 for whole parts ≥ 100 / ≥ 10 / below, so that the displayed
    numeral has at least three digits whenever the whole part has its expected magnitude -/
theorem decimals_spec (w : Nat) :
    (w ≥ 100 → decimals w = 0) ∧ (10 ≤ w ∧ w < 100 → decimals w = 1) ∧ (w < 10 → decimals w = 2) := by
  unfold decimals; refine ⟨?_, ?_, ?_⟩ <;> intro h <;> split <;> (try split) <;> omega

/-- recorded finding F11 (kernel-evaluated on the model): the half-unit bound fails for this n ≥ 2^53 -/
theorem half_unit_witness_F11 :
    formatNum Gen.Tables.metricPrefixes 18445499999999999999 = .scaled 18446 0 ("P", 1000000000000000)
    ∧ 2 * (18446 * 1000000000000000 - 18445499999999999999) > 1000000000000000 := by
  refine ⟨by decide +kernel, by decide⟩

/-- non-vacuity -/
example : formatNumber Gen.Tables.binaryPrefixes 1536 "B" = ("1.50", "KiB") := by decide +kernel

end GitSizer.C12
