import GitSizer.Proofs.Human
import GitSizer.Proofs.HumanFloat4
/-! # C12 — Human-readable numbers
    Theorems about the model `Human.formatNum` instantiated with the prefix tables REGENERATED from
    counts/human.go. The float part of the model (float64 conversion, division, %.Nf) is exact
    integer arithmetic and is validated string-exactly against the Go code on every run. -/
namespace GitSizer.C12
open GitSizer GitSizer.Human

/-- the regenerated tables are well-formed: first multiplier 1, strictly increasing -/
theorem tables_wellformed : TableWF Gen.Tables.metricPrefixes ∧ TableWF Gen.Tables.binaryPrefixes :=
  ⟨metric_wf, binary_wf⟩

/-- **prefix is the largest one not exceeding the value**, for every n, any well-formed table:
    the chosen prefix is a table entry, does not exceed n (unless it is the unit prefix), and every
    table entry not exceeding n is at most the chosen one. -/
theorem prefix_largest {t : List Prefix} (wf : TableWF t) (n : Nat) :
    (selectPrefix t n).2 ∈ t ∧ ((selectPrefix t n).2.2 ≤ n ∨ (selectPrefix t n).2.2 = 1) ∧
    ∀ p ∈ t, p.2 ≤ n → p.2 ≤ (selectPrefix t n).2.2 :=
  let h := selectPrefix_spec wf n
  ⟨h.1, h.2.2.2.1, h.2.2.2.2⟩

theorem prefix_largest_metric (n : Nat) :
    ∀ p ∈ Gen.Tables.metricPrefixes, p.2 ≤ n → p.2 ≤ (selectPrefix Gen.Tables.metricPrefixes n).2.2 :=
  (prefix_largest metric_wf n).2.2
theorem prefix_largest_binary (n : Nat) :
    ∀ p ∈ Gen.Tables.binaryPrefixes, p.2 ≤ n → p.2 ≤ (selectPrefix Gen.Tables.binaryPrefixes n).2.2 :=
  (prefix_largest binary_wf n).2.2

/-- the "whole part" that selects the number of decimals is ⌊n / multiplier⌋ -/
theorem whole_part {t : List Prefix} (wf : TableWF t) (n : Nat) :
    (selectPrefix t n).1 = n / (selectPrefix t n).2.2 := (selectPrefix_spec wf n).2.2.1

/-- **values below the first prefix are printed exactly** (no float arithmetic is involved) -/
theorem exact_below_first_prefix {t : List Prefix} (wf : TableWF t) (n : Nat)
    (h : ∀ p ∈ t, p.2 ≠ 1 → n < p.2) : formatNum t n = .exact n := by
  unfold formatNum
  have hs := selectPrefix_spec wf n
  generalize selectPrefix t n = r at hs
  obtain ⟨w, q⟩ := r
  simp only at hs ⊢
  have : q.2 = 1 := by
    rcases hs.2.2.2.1 with hle | h1
    · apply Classical.byContradiction; intro hne
      have := h q hs.1 hne; omega
    · exact h1
  simp [this]

theorem exact_below_1000 (n : Nat) (h : n < 1000) :
    (formatNumber Gen.Tables.metricPrefixes n "").1 = toString n := by
  have : formatNum Gen.Tables.metricPrefixes n = .exact n := by
    apply exact_below_first_prefix metric_wf
    intro p hp hne
    simp only [Gen.Tables.metricPrefixes, List.mem_cons, List.not_mem_nil, or_false] at hp
    rcases hp with rfl | rfl | rfl | rfl | rfl | rfl <;> simp at hne ⊢ <;> omega
  simp [formatNumber, this, Num.render]

theorem exact_below_1024 (n : Nat) (h : n < 1024) :
    (formatNumber Gen.Tables.binaryPrefixes n "").1 = toString n := by
  have : formatNum Gen.Tables.binaryPrefixes n = .exact n := by
    apply exact_below_first_prefix binary_wf
    intro p hp hne
    simp only [Gen.Tables.binaryPrefixes, List.mem_cons, List.not_mem_nil, or_false] at hp
    rcases hp with rfl | rfl | rfl | rfl | rfl | rfl <;> simp at hne ⊢ <;> omega
  simp [formatNumber, this, Num.render]

/-- number of decimals: 0 / 1 / 2 for whole parts ≥ 100 / ≥ 10 / below, so that the displayed
    numeral has at least three digits whenever the whole part has its expected magnitude -/
theorem decimals_spec (w : Nat) :
    (w ≥ 100 → decimals w = 0) ∧ (10 ≤ w ∧ w < 100 → decimals w = 1) ∧ (w < 10 → decimals w = 2) := by
  unfold decimals; refine ⟨?_, ?_, ?_⟩ <;> intro h <;> split <;> (try split) <;> omega

/-! ## the float part: digits, length, half a unit, monotonicity

The exact integer model of `float64(n) / float64(multiplier)` and `%.Nf` (`Model/Human`:
`rhe`, `norm53`, `rn53`, `fmtFixedN`) is proved correct in `Proofs/Float*` (round-half-even within
1/2 and monotone; `rn53` = quotient rounded to 53 bits: relative error ≤ 2^-53, monotone, exact on
53-bit dyadics) and validated string-exactly against Go's own arithmetic on every run.
`TableOK` collects the decidable facts about a prefix table the proofs use (multipliers exactly
representable, each divides the larger ones, consecutive ratio ≤ 1024, top multiplier ≥ 2^64/18447,
each a multiple of 200 or a power of two); it is evaluated on the REGENERATED tables. -/

theorem metric_ok : TableOK Gen.Tables.metricPrefixes := by decide +kernel
theorem binary_ok : TableOK Gen.Tables.binaryPrefixes := by decide +kernel

/-- **at least three significant digits, at most five characters**, every n < 2^64, both systems:
    with a prefix the numeral m/10^d has 100 ≤ m (three digits, the leading one non-zero) and the
    rendered string is 3 to 5 characters long. -/
theorem three_digits_five_chars {t : List Prefix} (ok : TableOK t) (n : Nat) (hn : n < 2 ^ 64)
    (m d : Nat) (pfx : Prefix) (h : formatNum t n = .scaled m d pfx) :
    100 ≤ m ∧ 3 ≤ (Num.render (.scaled m d pfx)).1.length ∧ (Num.render (.scaled m d pfx)).1.length ≤ 5 := by
  obtain ⟨h1, h2, h3⟩ := scaled_digits ok n hn m d pfx h
  exact ⟨h1, renderFixed_length m d h1 h2 h3⟩

/-- without a prefix the value itself is printed, in at most four characters -/
theorem exact_at_most_four_chars {t : List Prefix} (ok : TableOK t) (n k : Nat)
    (h : formatNum t n = .exact k) : k = n ∧ (Num.render (.exact k)).1.length ≤ 4 := by
  by_cases h1 : (selectPrefix t n).2.2 = 1
  · rw [formatNum_exact t n h1] at h
    injection h with h; subst h
    refine ⟨rfl, ?_⟩
    obtain ⟨hmem, _, _, _, hmax⟩ := selectPrefix_spec ok.wf n
    have hlt : n < 1024 := by
      rcases ok.ratio _ hmem with ⟨q, hq, hlt, hle⟩ | hbig
      · by_contra hc
        have := hmax q hq (by omega); omega
      · omega
    simp only [Num.render]
    exact (Nat.length_repr_le_iff (by omega)).mpr (by omega)
  · rw [formatNum_scaled t n h1] at h; cases h

/-- **half a unit in the last displayed digit**, every n < 2^53, both systems:
    |m·P − n·10^d|·2 ≤ P, i.e. |numeral·multiplier − n| ≤ multiplier / (2·10^d).
    (For n ≥ 2^53 the bound fails — F11 below — because float64(n) already moves n.) -/
theorem half_unit_below_2_53 {t : List Prefix} (ok : TableOK t) (n : Nat) (h53 : n < 2 ^ 53)
    (m d : Nat) (pfx : Prefix) (h : formatNum t n = .scaled m d pfx) :
    2 * (m * pfx.2) ≤ 2 * (n * 10 ^ d) + pfx.2 ∧ 2 * (n * 10 ^ d) ≤ 2 * (m * pfx.2) + pfx.2 :=
  scaled_half_unit ok n h53 m d pfx h

/-- **the rendered magnitude is monotonically non-decreasing**, all n₁ ≤ n₂ < 2^64, across every
    change of prefix and of the number of decimals -/
theorem monotone {t : List Prefix} (ok : TableOK t) (n1 n2 : Nat) (h : n1 ≤ n2) (hn : n2 < 2 ^ 64) :
    Num.le (formatNum t n1) (formatNum t n2) := formatNum_mono ok n1 n2 h hn

theorem monotone_metric (n1 n2 : Nat) (h : n1 ≤ n2) (hn : n2 < 2 ^ 64) :
    Num.le (formatNum Gen.Tables.metricPrefixes n1) (formatNum Gen.Tables.metricPrefixes n2) :=
  monotone metric_ok n1 n2 h hn
theorem monotone_binary (n1 n2 : Nat) (h : n1 ≤ n2) (hn : n2 < 2 ^ 64) :
    Num.le (formatNum Gen.Tables.binaryPrefixes n1) (formatNum Gen.Tables.binaryPrefixes n2) :=
  monotone binary_ok n1 n2 h hn

/-- the float model's error bound, as used above: `float64(a)/float64(b)`-style rounding of a
    quotient has relative error at most 2^-53 and is monotone -/
theorem rounding_correct (a b : Nat) (ha : 0 < a) (hb : 0 < b) :
    |(rn53 a b).val - (a : ℚ) / b| ≤ (a : ℚ) / b / 2 ^ 53 := rn53_error a b ha hb

/-! ## the remaining statements of `FormatNumber`, REGENERATED

Besides the prefix tables, the switch that chooses the number of decimals, the guard of the
prefix loop, the guard of the exact branch and the mantissa expression are extracted from
counts/human.go on every run; the model's `decimals`, `selectPrefix` and `formatNum` are these. -/

/-- the first case `wholePart >= N` that applies decides, else the default -/
def decimalsOf (cases : List (Nat × Nat)) (dflt : Nat) (w : Nat) : Nat :=
  match cases.find? (fun c => decide (w ≥ c.1)) with
  | some c => c.2
  | none => dflt

/-- the model's `decimals` is the regenerated switch -/
theorem decimals_regenerated (w : Nat) :
    decimals w = decimalsOf Gen.Tables.formatCases Gen.Tables.formatDefault w := by
  unfold decimals decimalsOf Gen.Tables.formatCases Gen.Tables.formatDefault
  by_cases h1 : w ≥ 100
  · simp [h1]
  · by_cases h2 : w ≥ 10
    · simp [h1, h2]
    · simp [h1, h2]

/-- loop guard `w >= 1`, exact branch `prefix.Multiplier == 1`, mantissa
    `float64(n) / float64(prefix.Multiplier)`: what `selectPrefix` / `formatNum` model -/
theorem format_statements_pinned :
    Gen.Tables.formatLoopGuard = "w >= 1" ∧ Gen.Tables.formatExactGuard = "prefix.Multiplier == 1" ∧
    Gen.Tables.formatMantissa = "float64(n) / float64(prefix.Multiplier)" := by decide

/-- recorded finding F11 (kernel-evaluated on the model): the half-unit bound fails for this n ≥ 2^53 -/
theorem half_unit_witness_F11 :
    formatNum Gen.Tables.metricPrefixes 18445499999999999999 = .scaled 18446 0 ("P", 1000000000000000)
    ∧ 2 * (18446 * 1000000000000000 - 18445499999999999999) > 1000000000000000 := by
  refine ⟨by decide +kernel, by decide⟩

/-- non-vacuity -/
example : formatNumber Gen.Tables.binaryPrefixes 1536 "B" = ("1.50", "KiB") := by decide +kernel
example : formatNum Gen.Tables.metricPrefixes 999999 = .scaled 1000 0 ("k", 1000) := by decide +kernel
example : Num.le (formatNum Gen.Tables.metricPrefixes 999999) (formatNum Gen.Tables.metricPrefixes 1000000) := by
  decide +kernel

end GitSizer.C12
