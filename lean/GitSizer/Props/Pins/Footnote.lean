import GitSizer.Gen.Cmds
/-! # sizes/footnotes.go, statement by statement (REGENERATED). `Model/Output`'s footnote numbering is the
    hand-written reading of these two methods. -/
namespace GitSizer.Pins.Footnote

abbrev Ev := String × String × List (String × String)

def expected : List (String × List Ev) := [
  ("Footnotes.CreateCitation", [
    ("if", "footnote == \"\"", [("i1", "")]),
    ("return", "\"\"", [("i1", "t")]),
    ("assign", "index, ok := f.indexes[footnote]", []),
    ("if", "!ok", [("i2", "")]),
    ("assign", "index = len(f.indexes) + 1", [("i2", "t")]),
    ("assign", "f.footnotes = append(f.footnotes, footnote)", [("i2", "t")]),
    ("assign", "f.indexes[footnote] = index", [("i2", "t")]),
    ("return", "fmt.Sprintf(\"[%d]\", index)", [])]),
  ("Footnotes.String", [
    ("if", "len(f.footnotes) == 0", [("i1", "")]),
    ("return", "\"\"", [("i1", "t")]),
    ("assign", "buf := &bytes.Buffer{}", []),
    ("call", "buf.WriteByte('\\n')", []),
    ("for", "i, footnote := range f.footnotes", [("f2", "loop")]),
    ("assign", "index := i + 1", [("f2", "loop")]),
    ("assign", "citation := fmt.Sprintf(\"[%d]\", index)", [("f2", "loop")]),
    ("call", "fmt.Fprintf(buf, \"%-4s %s\\n\", citation, footnote)", [("f2", "loop")]),
    ("return", "buf.String()", [])])]

/-- **the source is the text the model was written against** -/
theorem pinned : (Gen.Cmds.footnoteFlows == expected) = true := by decide +kernel

def flowOf (name : String) : List Ev := ((Gen.Cmds.footnoteFlows.find? (fun f => f.1 == name)).map (·.2)).getD []

/-- **identical texts share one number; numbers are 1..k in order of first citation**: a text is looked up
    in the map under the SAME key under which it is stored, and a new text gets `len(indexes) + 1` -/
theorem dedup_by_text :
    ((flowOf "Footnotes.CreateCitation").filter (fun e => e.1 == "assign")).map (fun e => (e.2.1, e.2.2.length)) =
      [("index, ok := f.indexes[footnote]", 0), ("index = len(f.indexes) + 1", 1), ("f.footnotes = append(f.footnotes, footnote)", 1),
       ("f.indexes[footnote] = index", 1)] ∧
    ((flowOf "Footnotes.CreateCitation").filter (fun e => e.1 == "if")).map (·.2.1) = ["footnote == \"\"", "!ok"] := by
  constructor <;> decide +kernel

end GitSizer.Pins.Footnote
