import GitSizer.Gen.Cmds
/-! # The reference-filter combinators of git/ref_filter.go, statement by statement (REGENERATED)
    `Model/RefFilter` (`F.eval`, `combine`) is the hand-written reading of these ten methods; the pin fails as
    soon as the source says anything else. -/
namespace GitSizer.Pins.Filter

abbrev Ev := String × String × List (String × String)

def expected : List (String × List Ev) := [
  ("inverse.Filter", [
    ("return", "!f.f.Filter(refname)", [])]),
  ("intersection.Filter", [
    ("return", "f.f1.Filter(refname) && f.f2.Filter(refname)", [])]),
  ("union.Filter", [
    ("return", "f.f1.Filter(refname) || f.f2.Filter(refname)", [])]),
  ("include.Combine", [
    ("if", "f1 == nil", [("i1", "")]),
    ("return", "f2", [("i1", "t")]),
    ("return", "union{f1, f2}", [])]),
  ("exclude.Combine", [
    ("if", "f1 == nil", [("i1", "")]),
    ("return", "inverse{f2}", [("i1", "t")]),
    ("return", "intersection{f1, inverse{f2}}", [])]),
  ("allReferencesFilter.Filter", [
    ("return", "true", [])]),
  ("noReferencesFilter.Filter", [
    ("return", "false", [])]),
  ("PrefixFilter", [
    ("if", "prefix == \"\"", [("i1", "")]),
    ("return", "AllReferencesFilter", [("i1", "t")]),
    ("return", "prefixFilter{prefix}", [])]),
  ("RegexpFilter", [
    ("assign", "pattern = \"^(?:\" + pattern + \")$\"", []),
    ("assign-err", "re, err := regexp.Compile(pattern)", []),
    ("if", "err != nil", [("i1", "")]),
    ("return-err", "nil, err", [("i1", "t")]),
    ("return", "regexpFilter{re}, nil", [])]),
  ("regexpFilter.Filter", [
    ("return", "f.re.MatchString(refname)", [])])]

/-- **the source is the text the model was written against** -/
theorem pinned : (Gen.Cmds.filterFlows == expected) = true := by decide +kernel

def flowOf (name : String) : List Ev := ((Gen.Cmds.filterFlows.find? (fun f => f.1 == name)).map (·.2)).getD []

/-- **include = union, exclude = intersection with the complement; a nil start encodes the default**:
    exactly the four results of the two `Combine` methods that `RefFilter.combine` mirrors -/
theorem combine_shapes :
    ((flowOf "include.Combine").filter (fun e => e.1 == "return")).map (fun e => (e.2.1, e.2.2.length)) = [("f2", 1), ("union{f1, f2}", 0)] ∧
    ((flowOf "exclude.Combine").filter (fun e => e.1 == "return")).map (fun e => (e.2.1, e.2.2.length)) =
      [("inverse{f2}", 1), ("intersection{f1, inverse{f2}}", 0)] ∧
    ((((flowOf "include.Combine") ++ (flowOf "exclude.Combine")).filter (fun e => e.1 == "if")).map (·.2.1)) = ["f1 == nil", "f1 == nil"] := by
  refine ⟨?_, ?_, ?_⟩ <;> decide +kernel

/-- the three evaluators are `!`, `&&`, `||` of the operands' results (`F.eval`) -/
theorem evaluator_shapes :
    (flowOf "inverse.Filter").map (·.2.1) = ["!f.f.Filter(refname)"] ∧
    (flowOf "intersection.Filter").map (·.2.1) = ["f.f1.Filter(refname) && f.f2.Filter(refname)"] ∧
    (flowOf "union.Filter").map (·.2.1) = ["f.f1.Filter(refname) || f.f2.Filter(refname)"] := by
  refine ⟨?_, ?_, ?_⟩ <;> decide +kernel

/-- **a /REGEXP/ must match the entire reference name**: the pattern is wrapped as `^(?:…)$` before
    it is compiled, and the empty PREFIX is the all-references filter -/
theorem regexp_anchored_prefix_empty :
    ((flowOf "RegexpFilter").take 2).map (·.2.1) = ["pattern = \"^(?:\" + pattern + \")$\"", "re, err := regexp.Compile(pattern)"] ∧
    ((flowOf "PrefixFilter").map (fun e => (e.1, e.2.1))) = [("if", "prefix == \"\""), ("return", "AllReferencesFilter"), ("return", "prefixFilter{prefix}")] := by
  constructor <;> decide +kernel

end GitSizer.Pins.Filter
