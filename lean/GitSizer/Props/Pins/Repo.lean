import GitSizer.Gen.Cmds
/-! # Repository discovery and command construction of git/git.go, statement by statement (REGENERATED)
    What C13 needs from these six functions, as decidable facts about the regenerated list. -/
namespace GitSizer.Pins.Repo

abbrev Ev := String × String × List (String × String)

def expected : List (String × List Ev) := [
  ("smartJoin", [
    ("if", "filepath.IsAbs(relPath)", [("i1", "")]),
    ("return", "relPath", [("i1", "t")]),
    ("return", "filepath.Join(path, relPath)", [])]),
  ("NewRepositoryFromGitDir", [
    ("assign-err", "gitBin, err := findGitBin()", []),
    ("if", "err != nil", [("i1", "")]),
    ("return-err", "nil, fmt.Errorf(\"could not find 'git' executable (is it in your PATH?): %w\", err)", [("i1", "t")]),
    ("assign", "repo := Repository{gitDir: gitDir, gitBin: gitBin}", []),
    ("assign-err", "full, err := repo.IsFull()", []),
    ("if", "err != nil", [("i2", "")]),
    ("return-err", "nil, fmt.Errorf(\"determining whether the repository is a full clone: %w\", err)", [("i2", "t")]),
    ("if", "!full", [("i3", "")]),
    ("return-err", "nil, errors.New(\"this appears to be a shallow clone; full clone required\")", [("i3", "t")]),
    ("return", "&repo, nil", [])]),
  ("NewRepositoryFromPath", [
    ("assign-err", "gitBin, err := findGitBin()", []),
    ("if", "err != nil", [("i1", "")]),
    ("return-err", "nil, fmt.Errorf(\"could not find 'git' executable (is it in your PATH?): %w\", err)", [("i1", "t")]),
    ("assign", "cmd := exec.Command(gitBin, \"-C\", path, \"rev-parse\", \"--git-dir\")", []),
    ("assign-err", "out, err := cmd.Output()", []),
    ("if", "err != nil", [("i2", "")]),
    ("typeswitch", "err := err.(type)", [("i2", "t"), ("s3", "")]),
    ("case", "*exec.Error", [("i2", "t"), ("s3", "c0")]),
    ("return-err", "nil, fmt.Errorf(\"could not run '%s': %w\", gitBin, err.Err)", [("i2", "t"), ("s3", "c0")]),
    ("case", "*exec.ExitError", [("i2", "t"), ("s3", "c1")]),
    ("return-err", "nil, fmt.Errorf(\"git rev-parse failed: %s\", err.Stderr)", [("i2", "t"), ("s3", "c1")]),
    ("case", "default", [("i2", "t"), ("s3", "c2")]),
    ("return-err", "nil, err", [("i2", "t"), ("s3", "c2")]),
    ("assign", "gitDir := smartJoin(path, string(bytes.TrimSpace(out)))", []),
    ("return-err", "NewRepositoryFromGitDir(gitDir)", [])]),
  ("Repository.IsFull", [
    ("assign-err", "shallow, err := repo.GitPath(\"shallow\")", []),
    ("if", "err != nil", [("i1", "")]),
    ("return-err", "false, err", [("i1", "t")]),
    ("assign-err", "_, err = os.Lstat(shallow)", []),
    ("if", "err == nil", [("i2", "")]),
    ("return", "false, nil", [("i2", "t")]),
    ("if", "!errors.Is(err, fs.ErrNotExist)", [("i3", "")]),
    ("return-err", "false, err", [("i3", "t")]),
    ("return", "true, nil", [])]),
  ("Repository.GitCommand", [
    ("assign", "args := []string{\"--no-replace-objects\", \"-c\", \"advice.graftFileDeprecated=false\"}", []),
    ("assign", "args = append(args, callerArgs...)", []),
    ("assign", "cmd := exec.Command(repo.gitBin, args...)", []),
    ("assign", "cmd.Env = append(os.Environ(), \"GIT_DIR=\"+repo.gitDir, \"GIT_GRAFT_FILE=\"+os.DevNull)", []),
    ("return", "cmd", [])]),
  ("Repository.GitPath", [
    ("assign", "cmd := repo.GitCommand(\"rev-parse\", \"--git-path\", relPath)", []),
    ("assign-err", "out, err := cmd.Output()", []),
    ("if", "err != nil", [("i1", "")]),
    ("return-err", "\"\", fmt.Errorf(\"running 'git rev-parse --git-path %s': %w\", relPath, err)", [("i1", "t")]),
    ("return", "string(bytes.TrimSpace(out)), nil", [])])]

/-- **the source is the text the claims below were read from** -/
theorem pinned : (Gen.Cmds.repoFlows == expected) = true := by decide +kernel

def flowOf (name : String) : List Ev := ((Gen.Cmds.repoFlows.find? (fun f => f.1 == name)).map (·.2)).getD []

/-- **a shallow clone is refused instead of being measured**: `NewRepositoryFromGitDir` asks `IsFull()`
    and returns an error when it says no; `IsFull()` says no exactly when `<git-path shallow>` exists
    (`Lstat` succeeds), and any other failure of the lookup is an error too — there is no path on which
    a repository with a shallow marker is returned -/
theorem shallow_refused :
    ((flowOf "NewRepositoryFromGitDir").drop 4).map (fun e => (e.1, e.2.1)) =
      [("assign-err", "full, err := repo.IsFull()"), ("if", "err != nil"),
       ("return-err", "nil, fmt.Errorf(\"determining whether the repository is a full clone: %w\", err)"),
       ("if", "!full"), ("return-err", "nil, errors.New(\"this appears to be a shallow clone; full clone required\")"),
       ("return", "&repo, nil")] ∧
    (flowOf "Repository.IsFull").map (fun e => (e.1, e.2.1)) =
      [("assign-err", "shallow, err := repo.GitPath(\"shallow\")"), ("if", "err != nil"), ("return-err", "false, err"),
       ("assign-err", "_, err = os.Lstat(shallow)"), ("if", "err == nil"), ("return", "false, nil"),
       ("if", "!errors.Is(err, fs.ErrNotExist)"), ("return-err", "false, err"), ("return", "true, nil")] := by
  constructor <;> decide +kernel

/-- **discovery is git's own, relative to the start directory**: `git -C <path> rev-parse --git-dir`,
    its answer joined to `path` unless absolute, and the result goes through the shallow check -/
theorem discovery_relative_to_start :
    ((flowOf "NewRepositoryFromPath").filter (fun e => e.1 == "assign" || e.2.2.isEmpty && e.1 == "return-err")).map (·.2.1) =
      ["cmd := exec.Command(gitBin, \"-C\", path, \"rev-parse\", \"--git-dir\")",
       "gitDir := smartJoin(path, string(bytes.TrimSpace(out)))", "NewRepositoryFromGitDir(gitDir)"] ∧
    (flowOf "smartJoin").map (fun e => (e.1, e.2.1)) =
      [("if", "filepath.IsAbs(relPath)"), ("return", "relPath"), ("return", "filepath.Join(path, relPath)")] := by
  constructor <;> decide +kernel

/-- **every later command is pinned to that directory and sees the objects actually stored**:
    `--no-replace-objects` comes first, and `GIT_DIR` / `GIT_GRAFT_FILE` are appended AFTER the caller's
    environment, so they override whatever the caller had set (os/exec keeps the last duplicate) -/
theorem commands_pinned_after_callers_environment :
    (flowOf "Repository.GitCommand").map (·.2.1) =
      ["args := []string{\"--no-replace-objects\", \"-c\", \"advice.graftFileDeprecated=false\"}",
       "args = append(args, callerArgs...)", "cmd := exec.Command(repo.gitBin, args...)",
       "cmd.Env = append(os.Environ(), \"GIT_DIR=\"+repo.gitDir, \"GIT_GRAFT_FILE=\"+os.DevNull)", "cmd"] := by
  decide +kernel

end GitSizer.Pins.Repo
