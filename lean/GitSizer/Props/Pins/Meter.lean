import GitSizer.Gen.Cmds
/-! # The progress meter of meter/meter.go, statement by statement (REGENERATED). `Proofs/Meter`'s
    interleaving model (`step`: start / inc / tick g / done) is the hand-written reading of these methods. -/
namespace GitSizer.Pins.Meter

abbrev Ev := String × String × List (String × String)

def expected : List (String × List Ev) := [
  ("progressMeter.Start", [
    ("call", "p.lock.Lock()", []),
    ("defer", "p.lock.Unlock()", []),
    ("assign", "p.format = format + \"   %s                    %s\"", []),
    ("call", "atomic.StoreInt64(&p.count, 0)", []),
    ("assign", "p.lastShownCount = -1", []),
    ("assign", "p.spinnerIndex = 0", []),
    ("assign", "ticker := time.NewTicker(p.period)", []),
    ("assign", "p.ticker = ticker", []),
    ("go", "", [("g1", "go")]),
    ("for", "", [("g1", "go"), ("f2", "loop")]),
    ("call", "<-ticker.C", [("g1", "go"), ("f2", "loop")]),
    ("call", "p.lock.Lock()", [("g1", "go"), ("f2", "loop")]),
    ("if", "p.ticker != ticker", [("g1", "go"), ("f2", "loop"), ("i3", "")]),
    ("call", "ticker.Stop()", [("g1", "go"), ("f2", "loop"), ("i3", "t")]),
    ("call", "p.lock.Unlock()", [("g1", "go"), ("f2", "loop"), ("i3", "t")]),
    ("return", "", [("g1", "go"), ("f2", "loop"), ("i3", "t")]),
    ("assign", "c := atomic.LoadInt64(&p.count)", [("g1", "go"), ("f2", "loop")]),
    ("decl", "var s string", [("g1", "go"), ("f2", "loop")]),
    ("if", "c == 0", [("g1", "go"), ("f2", "loop"), ("i4", "")]),
    ("assign", "p.spinnerIndex = (p.spinnerIndex + 1) % len(Spinners)", [("g1", "go"), ("f2", "loop"), ("i4", "t")]),
    ("assign", "s = Spinners[p.spinnerIndex]", [("g1", "go"), ("f2", "loop"), ("i4", "t")]),
    ("assign", "s = \"\"", [("g1", "go"), ("f2", "loop"), ("i4", "e")]),
    ("call", "fmt.Fprintf(p.w, p.format, c, s, \"\\r\")", [("g1", "go"), ("f2", "loop")]),
    ("call", "p.lock.Unlock()", [("g1", "go"), ("f2", "loop")])]),
  ("progressMeter.Inc", [
    ("call", "atomic.AddInt64(&p.count, 1)", [])]),
  ("progressMeter.Add", [
    ("call", "atomic.AddInt64(&p.count, delta)", [])]),
  ("progressMeter.Done", [
    ("call", "p.lock.Lock()", []),
    ("defer", "p.lock.Unlock()", []),
    ("assign", "p.ticker = nil", []),
    ("assign", "c := atomic.LoadInt64(&p.count)", []),
    ("call", "fmt.Fprintf(p.w, p.format, c, \" \", \"\\n\")", [])])]

/-- **the source is the text the model was written against** -/
theorem pinned : (Gen.Cmds.meterFlows == expected) = true := by decide +kernel

def flowOf (name : String) : List Ev := ((Gen.Cmds.meterFlows.find? (fun f => f.1 == name)).map (·.2)).getD []

/-- **the ticker goroutine prints under the lock and exits when its ticker was replaced; `Done` prints the
    final count under the same lock after clearing the ticker**: between `p.lock.Lock()` and the print there is
    the identity test `p.ticker != ticker` whose branch unlocks and returns -/
theorem ticker_protocol :
    (((flowOf "progressMeter.Start").filter (fun e => e.2.2.any (fun c => c.2 == "go"))).map (fun e => (e.1, e.2.1))).take 8 =
      [("go", ""), ("for", ""), ("call", "<-ticker.C"), ("call", "p.lock.Lock()"), ("if", "p.ticker != ticker"),
       ("call", "ticker.Stop()"), ("call", "p.lock.Unlock()"), ("return", "")] ∧
    (flowOf "progressMeter.Done").map (fun e => (e.1, e.2.1)) =
      [("call", "p.lock.Lock()"), ("defer", "p.lock.Unlock()"), ("assign", "p.ticker = nil"),
       ("assign", "c := atomic.LoadInt64(&p.count)"), ("call", "fmt.Fprintf(p.w, p.format, c, \" \", \"\\n\")")] ∧
    (flowOf "progressMeter.Inc").map (·.2.1) = ["atomic.AddInt64(&p.count, 1)"] := by
  refine ⟨?_, ?_, ?_⟩ <;> decide +kernel

/-! ## the progress meter's lock discipline, REGENERATED (meter/meter.go)

`Gen.Cmds.meterLockTable` classifies every statement of `progressMeter`'s methods: lock / unlock /
deferred unlock of `p.lock`, `atomic` (touches `p.count` through sync/atomic only), `access` (mentions any
other field of `p`), `return`, `go`. The ticker goroutine's statements carry the path component "go". -/

abbrev LEv := String × List String × List (String × String)
def lInGo (e : LEv) : Bool := e.2.2.any (fun c => c.2 == "go")

def lPrefix : List (String × String) → List (String × String) → Bool
  | [], _ => true
  | a :: as, b :: bs => a == b && lPrefix as bs
  | _ :: _, [] => false

/-- the statement at position `a` of one goroutine's statement list runs with `p.lock` held: some
    earlier `Lock()` dominates it (its branch path is a prefix) and no `Unlock()` that dominates it lies between -/
def protectedAt (evs : List LEv) (a : Nat) : Bool :=
  match evs[a]? with
  | none => false
  | some ea =>
    (List.range a).any (fun l =>
      match evs[l]? with
      | some el => el.1 == "lock" && lPrefix el.2.2 ea.2.2 &&
          (List.range a).all (fun u => decide (u ≤ l) ||
            (match evs[u]? with
             | some eu => !(eu.1 == "unlock" && lPrefix eu.2.2 ea.2.2)
             | none => true))
      | none => false)

/-- an explicit `Unlock()` is the last statement of its goroutine's list, or the branch it sits in returns at once -/
def unlockShape (evs : List LEv) : Bool :=
  (List.range evs.length).all (fun u =>
    match evs[u]? with
    | some eu => eu.1 != "unlock" ||
        (match evs[u + 1]? with
         | none => true
         | some nx => nx.1 == "return" && nx.2.2 == eu.2.2)
    | none => true)

def disciplined (evs : List LEv) : Bool :=
  unlockShape evs &&
  (List.range evs.length).all (fun a =>
    match evs[a]? with
    | some ea => (ea.1 != "access" || protectedAt evs a) && !(ea.2.1.contains "count!")
    | none => true)

/-- **no unsynchronised access to the meter's shared state**: in every method, and separately in the
    ticker goroutine, each statement that touches a field of `p` other than through sync/atomic runs
    with `p.lock` held, and `p.count` is touched through sync/atomic only (seeded change C18u — the
    ticker's `Fprintf` moved behind its `Unlock()` — breaks it) -/
theorem meter_lock_discipline :
    Gen.Cmds.meterLockTable.all (fun f =>
      disciplined (f.2.filter (fun e => !lInGo e)) && disciplined (f.2.filter lInGo)) = true ∧
    Gen.Cmds.meterLockTable.map (·.1) = ["Start", "Inc", "Add", "Done"] := by
  constructor <;> decide +kernel


end GitSizer.Pins.Meter
