import GitSizer.Gen.Cmds
/-! # `refGroup.collectSymbols` and `augmentFromConfig` (internal/refopts/ref_group.go), statement by
    statement (REGENERATED). `Model/RefGroups` is the hand-written reading of these two methods. -/
namespace GitSizer.Pins.Group

abbrev Ev := String × String × List (String × String)

def expected : List (String × List Ev) := [
  ("refGroup.collectSymbols", [
    ("assign", "walk := false", []),
    ("decl", "var symbols []sizes.RefGroupSymbol", []),
    ("if", "rg.filter == nil", [("i1", "")]),
    ("for", "_, sg := range rg.subgroups", [("i1", "t"), ("f2", "loop")]),
    ("assign", "w, ss := sg.collectSymbols(refname)", [("i1", "t"), ("f2", "loop")]),
    ("if", "w", [("i1", "t"), ("f2", "loop"), ("i3", "")]),
    ("assign", "walk = true", [("i1", "t"), ("f2", "loop"), ("i3", "t")]),
    ("if", "len(ss) > 0 && len(symbols) == 0", [("i1", "t"), ("f2", "loop"), ("i4", "")]),
    ("assign", "symbols = append(symbols, rg.Symbol)", [("i1", "t"), ("f2", "loop"), ("i4", "t")]),
    ("assign", "symbols = append(symbols, ss...)", [("i1", "t"), ("f2", "loop")]),
    ("if", "!rg.filter.Filter(refname)", [("i1", "e"), ("i5", "")]),
    ("return", "false, nil", [("i1", "e"), ("i5", "t")]),
    ("assign", "walk = true", [("i1", "e")]),
    ("assign", "symbols = append(symbols, rg.Symbol)", [("i1", "e")]),
    ("for", "_, sg := range rg.subgroups", [("i1", "e"), ("f6", "loop")]),
    ("assign", "_, ss := sg.collectSymbols(refname)", [("i1", "e"), ("f6", "loop")]),
    ("assign", "symbols = append(symbols, ss...)", [("i1", "e"), ("f6", "loop")]),
    ("if", "rg.otherRefGroup != nil && len(symbols) == 1", [("i1", "e"), ("i7", "")]),
    ("assign", "symbols = append(symbols, rg.otherRefGroup.Symbol)", [("i1", "e"), ("i7", "t")]),
    ("return", "walk, symbols", [])]),
  ("refGroup.augmentFromConfig", [
    ("assign-err", "config, err := configger.GetConfig(fmt.Sprintf(\"refgroup.%s.\", rg.Symbol))", []),
    ("if", "err != nil", [("i1", "")]),
    ("return-err", "err", [("i1", "t")]),
    ("for", "_, entry := range config.Entries", [("f2", "loop")]),
    ("switch", "entry.Key", [("f2", "loop"), ("s3", "")]),
    ("case", "\"name\"", [("f2", "loop"), ("s3", "c0")]),
    ("assign", "rg.Name = entry.Value", [("f2", "loop"), ("s3", "c0")]),
    ("case", "\"include\"", [("f2", "loop"), ("s3", "c1")]),
    ("assign", "rg.filter = git.Include.Combine(rg.filter, git.PrefixFilter(entry.Value))", [("f2", "loop"), ("s3", "c1")]),
    ("case", "\"includeregexp\"", [("f2", "loop"), ("s3", "c2")]),
    ("assign-err", "f, err := git.RegexpFilter(entry.Value)", [("f2", "loop"), ("s3", "c2")]),
    ("if", "err != nil", [("f2", "loop"), ("s3", "c2"), ("i4", "")]),
    ("return-err", "fmt.Errorf(\"invalid regular expression for '%s': %w\", config.FullKey(entry.Key), err)", [("f2", "loop"), ("s3", "c2"), ("i4", "t")]),
    ("assign", "rg.filter = git.Include.Combine(rg.filter, f)", [("f2", "loop"), ("s3", "c2")]),
    ("case", "\"exclude\"", [("f2", "loop"), ("s3", "c3")]),
    ("assign", "rg.filter = git.Exclude.Combine(rg.filter, git.PrefixFilter(entry.Value))", [("f2", "loop"), ("s3", "c3")]),
    ("case", "\"excluderegexp\"", [("f2", "loop"), ("s3", "c4")]),
    ("assign-err", "f, err := git.RegexpFilter(entry.Value)", [("f2", "loop"), ("s3", "c4")]),
    ("if", "err != nil", [("f2", "loop"), ("s3", "c4"), ("i5", "")]),
    ("return-err", "fmt.Errorf(\"invalid regular expression for '%s': %w\", config.FullKey(entry.Key), err)", [("f2", "loop"), ("s3", "c4"), ("i5", "t")]),
    ("assign", "rg.filter = git.Exclude.Combine(rg.filter, f)", [("f2", "loop"), ("s3", "c4")]),
    ("case", "default", [("f2", "loop"), ("s3", "c5")]),
    ("return", "nil", [])])]

/-- **the source is the text the model was written against** -/
theorem pinned : (Gen.Cmds.groupFlows == expected) = true := by decide +kernel

def flowOf (name : String) : List Ev := ((Gen.Cmds.groupFlows.find? (fun f => f.1 == name)).map (·.2)).getD []

/-- **the five recognised keys of a refgroup section, each combined in listing order**; every other key is ignored -/
theorem augment_keys :
    ((flowOf "refGroup.augmentFromConfig").filter (fun e => e.1 == "case")).map (·.2.1) =
      ["\"name\"", "\"include\"", "\"includeregexp\"", "\"exclude\"", "\"excluderegexp\"", "default"] ∧
    ((flowOf "refGroup.augmentFromConfig").filter (fun e => e.1 == "for")).map (·.2.1) = ["_, entry := range config.Entries"] ∧
    ((flowOf "refGroup.augmentFromConfig").take 1).map (·.2.1) = ["config, err := configger.GetConfig(fmt.Sprintf(\"refgroup.%s.\", rg.Symbol))"] := by
  refine ⟨?_, ?_, ?_⟩ <;> decide +kernel

/-- **a group without rules of its own is the union of its subgroups; a group with rules gates them**:
    the two branches of `collectSymbols` on `rg.filter == nil`, and the `Other` bucket iff only the group's own symbol was collected -/
theorem collect_branches :
    ((flowOf "refGroup.collectSymbols").filter (fun e => e.1 == "if")).map (fun e => (e.2.1, e.2.2.length)) =
      [("rg.filter == nil", 1), ("w", 3), ("len(ss) > 0 && len(symbols) == 0", 3), ("!rg.filter.Filter(refname)", 2),
       ("rg.otherRefGroup != nil && len(symbols) == 1", 2)] := by
  decide +kernel

end GitSizer.Pins.Group
