import GitSizer.Proofs.GraphCommits
/-! # C03 — History depth and tag depth equal the longest chains -/
namespace GitSizer.C03
open GitSizer GitSizer.Spec GitSizer.Graph Gen

/-- `depthN r c` is the number of commits on the longest parent chain starting at `c`:
    no chain is longer … -/
theorem depth_bounds_every_chain (r : Repo) (wf : CommitsWF r) (l : List Nat) (c : Nat)
    (h : IsChain r (c :: l)) : (c :: l).length ≤ depthN r c := chain_le_depth r wf l c h
/-- … and one chain attains it (explicit witness), for every DAG shape -/
theorem depth_attained_by_a_chain (r : Repo) (wf : CommitsWF r) (c : Nat) (hc : r.isCommit c = true) :
    ∃ l, IsChain r (c :: l) ∧ (c :: l).length = depthN r c := exists_chain_of_depth r wf c hc

/-- **every registered commit's memo is `clamp32` of that depth**, for every schedule the code
    accepts (it panics unless parents are registered first; the model has no timestamps at all,
    so the result cannot depend on them) -/
theorem commit_memo (r : Repo) (wf : CommitsWF r) (ops : List Op) (st : GState)
    (h : runOps r ops {} = .ok st) (c : Nat) (s : CommitSize) (hc : st.commits c = some s) :
    s.MaxAncestorDepth.toNat = clamp c32 (depthN r c) := commit_memo_is_depth r wf ops st h c s hc

/-- the reported maximum history depth is the maximum over the recorded commits (regenerated code) -/
theorem history_depth_is_max (h : HistorySize) (oid : Nat) (cs : CommitSize) (size pc : BitVec 32) :
    (HistorySize.recordCommit h oid cs size pc).MaxHistoryDepth.toNat = max h.MaxHistoryDepth.toNat cs.MaxAncestorDepth.toNat :=
  (recordCommit_numbers h oid cs size pc).2.2.2.1

/-- the reported maximum tag depth is the maximum over the finalised tags (regenerated code) -/
theorem tag_depth_is_max (h : HistorySize) (oid : Nat) (ts : TagSize) (size : BitVec 32) :
    (HistorySize.recordTag h oid ts size).MaxTagDepth.toNat = max h.MaxTagDepth.toNat ts.TagDepth.toNat :=
  (recordTag_numbers h oid ts size).2

/-- non-vacuity: a criss-cross merge history with two roots -/
def demo : Repo := [.tree 0 [], .commit 1 0 [], .commit 1 0 [], .commit 1 0 [1, 2], .commit 1 0 [2, 1], .commit 1 0 [3, 4]]
example : depthN demo 5 = 3 := by decide +kernel

end GitSizer.C03
