import GitSizer.Proofs.GraphRun7
import GitSizer.Proofs.GraphCommits
import GitSizer.Proofs.GraphTags
/-! # C03 — History depth and tag depth equal the longest chains -/
namespace GitSizer.C03
open GitSizer GitSizer.Spec GitSizer.Graph Gen

/-- `depthN r c` is the number of commits on the longest parent chain starting at `c`:
    no chain is longer … -/
theorem depth_bounds_every_chain (r : Repo) (wf : CommitsWF r) (l : List Nat) (c : Nat)
    (h : IsChain r (c :: l)) : (c :: l).length ≤ depthN r c := chain_le_depth r wf l c h
/-- … and one chain attains it (explicit witness), for every DAG shape -/
theorem depth_attained_by_a_chain (r : Repo) (wf : CommitsWF r) (c : Nat) (hc : r.isCommit c = true) :
    ∃ l, IsChain r (c :: l) ∧ (c :: l).length = depthN r c := exists_chain_of_depth r wf c hc

/-- **every registered commit's memo is `clamp32` of that depth**, for every schedule the code
    accepts (it panics unless parents are registered first; the model has no timestamps at all,
    so the result cannot depend on them) -/
theorem commit_memo (r : Repo) (wf : CommitsWF r) (ops : List Op) (st : GState)
    (h : runOps r ops {} = .ok st) (c : Nat) (s : CommitSize) (hc : st.commits c = some s) :
    s.MaxAncestorDepth.toNat = clamp c32 (depthN r c) := commit_memo_is_depth r wf ops st h c s hc

/-- the reported maximum history depth is the maximum over the recorded commits (regenerated code) -/
theorem history_depth_is_max (h : HistorySize) (oid : Nat) (cs : CommitSize) (size pc : BitVec 32) :
    (HistorySize.recordCommit h oid cs size pc).MaxHistoryDepth.toNat = max h.MaxHistoryDepth.toNat cs.MaxAncestorDepth.toNat :=
  (recordCommit_numbers h oid cs size pc).2.2.2.1

/-- the reported maximum tag depth is the maximum over the finalised tags (regenerated code) -/
theorem tag_depth_is_max (h : HistorySize) (oid : Nat) (ts : TagSize) (size : BitVec 32) :
    (HistorySize.recordTag h oid ts size).MaxTagDepth.toNat = max h.MaxTagDepth.toNat ts.TagDepth.toNat :=
  (recordTag_numbers h oid ts size).2

/-- **tag depth, any enumeration order**: for every duplicate-free order of a set of tags closed
    under tag → tag edges — referent tags delivered before or after the tags that point at them —
    every tag's memo is `clamp32` of the number of annotated tag objects on its chain, and no
    record remains -/
theorem tag_memo (r : Repo) (wf : TagsWF r) (kinds : ∀ t o, r.tagRef t = some (o, true) → (r.tagRef o).isSome)
    (ds : List Nat) (hnd : ds.Nodup) (areTags : ∀ t ∈ ds, (r.tagRef t).isSome)
    (closed : ∀ t ∈ ds, ∀ e ∈ tagKids r t, e.2 ∈ ds) (fuel : Nat) (hfuel : Agg.K (PT r) ds ≤ fuel) :
    ∀ t ∈ ds, ∃ s, (Agg.run (PT r) fuel ds Agg.init).sizes t = some s ∧ s.TagDepth.toNat = clamp c32 (tagDepthN r t) :=
  (tag_memo_is_depth r wf kinds ds hnd areTags closed fuel hfuel).1

/-- the true tag depth counts the tag objects on the (unique) chain tag → tag → … → non-tag -/
theorem tag_depth_unfold (r : Repo) (wf : TagsWF r) (t o : Nat) (h : r.tagRef t = some (o, true)) :
    tagDepthN r t = 1 + tagDepthN r o := by
  have hlt : o < t := wf t (0, o) (by
    rcases tagKids_cases r t with ⟨o', ho', hk⟩ | ⟨hn, _⟩
    · rw [hk]; rw [h] at ho'; simp at ho'; simp [ho']
    · exact absurd h (hn o))
  conv => lhs; unfold tagDepthN
  simp only [tagDepthF, h]
  rw [tagDepthF_stable r wf o t hlt]

/-- non-vacuity: a criss-cross merge history with two roots -/
def demo : Repo := [.tree 0 [], .commit 1 0 [], .commit 1 0 [], .commit 1 0 [1, 2], .commit 1 0 [2, 1], .commit 1 0 [3, 4]]
example : depthN demo 5 = 3 := by decide +kernel


/-- **Whole-run depth maxima.** After any valid run `MaxHistoryDepth` is the (saturated) length of
    the longest parent chain among the delivered commits and `MaxTagDepth` the longest tag chain
    among the delivered tags (`depthN`, `tagDepthN`: `Proofs/Depth`, `chain_le_depth` /
    `exists_chain_of_depth` identify them with chains). -/
theorem depth_maxima_exact (r : Repo) (ops : List Op) (v : ValidRun r ops) :
    ∃ st, runOps r ops {} = .ok st ∧
      st.hist.MaxHistoryDepth.toNat = min (maxList ((commitsOf ops).map fun c => depthN r c)) (2^32 - 1) ∧
      st.hist.MaxTagDepth.toNat = min (maxList ((tagsOf ops).map fun g => tagDepthN r g)) (2^32 - 1) := by
  obtain ⟨st, h, _, res⟩ := v.result
  have c := res.commits; have g := res.tags
  simp only [commitNums, tagNums, List.cons.injEq, and_true] at c g
  exact ⟨st, h, c.2.2.2.1, g.2⟩

end GitSizer.C03
