import GitSizer.Proofs.RefGroups
import GitSizer.Gen.Flows
import GitSizer.Proofs.GenStrs
import GitSizer.Proofs.Regex
import GitSizer.Proofs.RegexReader
/-! # C06 — Reference selection follows last-matching-rule semantics
    Theorems about the model of git/ref_filter.go and internal/refopts (tied to the code by the
    `refs` engine: real RefGroupBuilder + pflag + Finish + Categorize). Regular-expression matching
    itself is Go's `regexp` (supplied to the model as an oracle computed independently of
    git-sizer: `^(?:p)$` on the reference name). What "matches the entire reference name" MEANS is defined
    in `Spec/Regex` (`FullMatch`), decided by `Model/Regex.matchB` (`regexp_entire_name` below), and the
    `regex` engine judges the real `git.RegexpFilter` — and Go's oracle bits — by it for every pattern of
    the fragment that `Model/Regex.parse` reads. -/
namespace GitSizer.C06
open GitSizer GitSizer.RefFilter GitSizer.RefGroups GitSizer.Spec

/-- **last matching rule**: for every option list, pattern semantics and reference name the
    top-level filter built by the `Combine` fold selects the reference iff the last option whose
    pattern matches it is an include — or, if none matches, iff the first option is an exclude;
    with no option at all: all references without ROOTs (`defaultAll`), none with ROOTs. -/
theorem last_match {π : Type} (m : π → Bytes → Bool) (opts : List (Opt π)) (defaultAll : Bool) (r : Bytes) :
    selected m opts defaultAll r = selectedSpec m opts defaultAll r := selected_eq_spec m opts defaultAll r

theorem default_all_none {π : Type} (m : π → Bytes → Bool) (defaultAll : Bool) (r : Bytes) :
    selected m ([] : List (Opt π)) defaultAll r = defaultAll := rfl

/-- the reference is traversed (`Categorize`'s first result) iff the specification selects it -/
theorem walk_iff_selected (env : Env) (st : Store) (opts : List (Opt Pat)) (defaultAll : Bool) (r : Bytes) :
    (categorize env st opts defaultAll r).walk = (categorizeSpec env st opts defaultAll r).walk := by
  rw [categorize_eq_spec]

/-- **a PREFIX matches only at a '/' component boundary** -/
theorem prefix_boundary (p r : Bytes) : prefixMatch p r = true ↔ PrefixSpec p r := prefixMatch_spec p r

/-- `prefixFilter.Filter` as REGENERATED from git/ref_filter.go on this run (an out-of-range index
    would be a panic): it never panics and is the '/'-boundary relation, for all byte strings -/
theorem prefix_filter_source (p r : Bytes) :
    Gen.Strs.prefixFilter_Filter p r = .ok (prefixMatch p r) ∧
    (Gen.Strs.prefixFilter_Filter p r = .ok true ↔ PrefixSpec p r) := by
  refine ⟨prefixFilter_regenerated p r, ?_⟩
  rw [prefixFilter_regenerated, ← prefixMatch_spec]
  constructor
  · intro h; exact Res.ok.inj h
  · intro h; rw [h]

/-- **@REFGROUP matches exactly the members of that group** -/
theorem refgroup_pattern_is_membership (env : Env) (st : Store) (sym r : Bytes) :
    mTop env st (.grp sym) r = groupMember (fun f => f.eval (m0 env) r) st sym :=
  groupFilter_eq_member env st sym r

/-- the REGENERATED option table: `--X` includes and `--no-X` excludes the same fixed pattern, with
    the documented patterns (prefix rules for branches/tags/remotes/notes, exact name for stash) -/
def pairOK (x pat : String) (isRe : Bool) : Bool :=
  (Gen.Tables.refOptions.find? (fun e => e.1 == x)).any (fun e => e.2.2.1 == "Include" && e.2.2.2.1 == pat && e.2.2.2.2.1 == isRe && e.2.2.2.2.2.1 == "true") &&
  (Gen.Tables.refOptions.find? (fun e => e.1 == "no-" ++ x)).any (fun e => e.2.2.1 == "Exclude" && e.2.2.2.1 == pat && e.2.2.2.2.1 == isRe && e.2.2.2.2.2.1 == "true")

theorem flag_table :
    pairOK "branches" "refs/heads" false = true ∧ pairOK "tags" "refs/tags" false = true ∧
    pairOK "remotes" "refs/remotes" false = true ∧ pairOK "notes" "refs/notes" false = true ∧
    pairOK "stash" "refs/stash" true = true := by decide

/-- `--include`/`--exclude` take the pattern from the user with the documented polarity -/
theorem include_exclude_table :
    (Gen.Tables.refOptions.find? (fun e => e.1 == "include")).map (fun e => (e.2.2.1, e.2.2.2.1, e.2.2.2.2.1)) = some ("Include", "", false) ∧
    (Gen.Tables.refOptions.find? (fun e => e.1 == "exclude")).map (fun e => (e.2.2.1, e.2.2.2.1, e.2.2.2.2.1)) = some ("Exclude", "", false) ∧
    (Gen.Tables.refOptions.find? (fun e => e.1 == "include-regexp")).map (fun e => (e.2.2.1, e.2.2.2.1, e.2.2.2.2.1)) = some ("Include", "", true) ∧
    (Gen.Tables.refOptions.find? (fun e => e.1 == "exclude-regexp")).map (fun e => (e.2.2.1, e.2.2.2.1, e.2.2.2.2.1)) = some ("Exclude", "", true) := by decide

/-- non-vacuity: `--exclude refs/heads/foo --include refs/heads` on two names -/
example : selected (fun (p : Bytes) r => prefixMatch p r)
    [⟨false, Bytes.ofString "refs/heads/foo"⟩, ⟨true, Bytes.ofString "refs/heads"⟩] true (Bytes.ofString "refs/heads/foo/bar") = true := by
  decide +kernel
example : prefixMatch (Bytes.ofString "refs/foo") (Bytes.ofString "refs/foobar") = false := by decide +kernel

/-! ## the default when no selection option matches, REGENERATED (git-sizer.go, ref_group_builder.go) -/

abbrev Ev := String × String × List (String × String)
def flowIn (file : List (String × List Ev)) (name : String) : List Ev := ((file.find? (fun f => f.1 == name)).map (·.2)).getD []

/-- **all references when neither a selection option nor a ROOT is given, none when only ROOTs are given**:
    `mainImplementation` calls `rgb.Finish(len(flags.Args()) == 0)`, and `Finish` turns a top-level filter that
    is still nil (no selection option seen: the `none` of `RefFilter.build`) into the all-references filter when
    that flag is true and into the no-references filter otherwise — the `defaultAll` of `RefFilter.selected` -/
theorem default_from_root_arguments :
    ((flowIn Gen.Flows.mainFile "mainImplementation").filter (fun e => e.2.1 == "rg, err := rgb.Finish(len(flags.Args()) == 0)")).length = 1 ∧
    ((flowIn Gen.Flows.refGroupBuilder "RefGroupBuilder.Finish").take 4).map (fun e => (e.1, e.2.1, e.2.2.map (·.2))) =
      [("if", "rgb.topLevelGroup.filter == nil", [""]), ("if", "defaultAll", ["t", ""]),
       ("assign", "rgb.topLevelGroup.filter = git.AllReferencesFilter", ["t", "t"]),
       ("assign", "rgb.topLevelGroup.filter = git.NoReferencesFilter", ["t", "e"])] := by
  constructor <;> decide +kernel

/-! ## "a /REGEXP/ must match the entire reference name" -/

/-- the executable matcher that judges `git.RegexpFilter` in the `regex` engine decides `FullMatch`:
    the expression matches the whole name, `^`/`$` looking at the true ends — for every expression and name -/
theorem regexp_entire_name (r : Regex.Re) (w : Bytes) : Regex.matchB r w = true ↔ Regex.FullMatch r w :=
  Regex.matchB_iff r w

/-- **the code's anchoring is right**: `RegexpFilter` compiles `"^(?:" + p + ")$"` (pinned by
    `Pins.Filter.regexp_anchored_prefix_empty`) and asks `MatchString`, which SEARCHES the name for a match;
    for every expression `r` (the reading of `p`) that search succeeds iff `r` matches the entire name -/
theorem regexp_anchoring_selects_full_matches (r : Regex.Re) (w : Bytes) :
    Regex.Search (.seq .bol (.seq r .eol)) w ↔ Regex.FullMatch r w :=
  Regex.search_anchored_group_iff r w

/-- **… also at the level of the TEXT**: whenever the RE2 reader reads a pattern `p` (without a leading `(?i)`) as
    `r`, it reads the string that `RegexpFilter` compiles — `"^(?:" ++ p ++ ")$"`, `Regex.wrap p` — as an expression
    on which a search succeeds exactly for the names that `r` matches entirely. (The reader is compositional at a
    closing parenthesis: `Proofs/RegexReader.ext_all`, by induction on its fuel through all its look-aheads.) -/
theorem regexp_text_anchoring (p : Bytes) (r : Regex.Re) (hci : ∀ rest, p ≠ 40 :: 63 :: 105 :: 41 :: rest)
    (h : Regex.parse p = some r) :
    ∃ r', Regex.Reads (Regex.wrap p) r' ∧ ∀ w, Regex.Search r' w ↔ Regex.FullMatch r w :=
  Regex.wrapped_text_selects_full_matches p r (Regex.parse_reads p r hci h)

/-- non-vacuity: `refs/(heads|tags)/v.*` is read, and its wrapped text is read with fuel 29 -/
example : (Regex.parse (Bytes.ofString "refs/(heads|tags)/v.*")).isSome = true := by decide +kernel

/-- … and the grouping matters (F1, repaired): without it `^a|b$` reads as `(^a)|(b$)`, which a search finds in
    "ax" although neither alternative is the whole name -/
theorem naive_anchoring_differs :
    let a : Regex.Re := .cls false [(97, 97)]
    let b : Regex.Re := .cls false [(98, 98)]
    Regex.Search (.alt (.seq .bol a) (.seq b .eol)) [97, 120] ∧ ¬ Regex.FullMatch (.alt a b) [97, 120] := by
  refine ⟨(Regex.searchB_iff _ _).mp (by decide), fun h => ?_⟩
  have := (Regex.matchB_iff _ _).mpr h
  revert this
  decide

/-- the reader maps the two spellings to those expressions (kernel evaluation of `Regex.parse`) -/
example : Regex.parse (Bytes.ofString "^a|b$") =
    some (.alt (.seq .bol (.seq (.cls false [(97, 97)]) .eps)) (.seq (.cls false [(98, 98)]) (.seq .eol .eps))) := by decide +kernel
example : Regex.matchB ((Regex.parse (Bytes.ofString "refs/(heads|tags)/v\\d+(\\.\\d+){0,2}")).getD .none) (Bytes.ofString "refs/tags/v1.22") = true := by decide +kernel
example : Regex.matchB ((Regex.parse (Bytes.ofString "refs/(heads|tags)/v\\d+(\\.\\d+){0,2}")).getD .none) (Bytes.ofString "refs/tags/v1.22.3.4") = false := by decide +kernel

end GitSizer.C06
