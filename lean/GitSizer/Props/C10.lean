import GitSizer.Model.ScanProto
import GitSizer.Proofs.PipelineR
import GitSizer.Proofs.Pipeline3
import GitSizer.Proofs.Pipeline2
import GitSizer.Gen.Flows
import GitSizer.Gen.Cmds
/-! # C10 — All-or-nothing reporting under faults
    Theorems about the protocol model of a run (`Model/ScanProto`): every invocation's status is
    consulted before the report is written. The model is tied to the real binary by the `fault`
    engine (a fault-injecting `git` first on PATH: truncation at any fraction of the output, exit
    statuses, SIGKILL, failure after full output; objects removed in turn) and to the source by the
    regenerated table of `Wait()` / channel-close sites. Hang-freedom of the real goroutines and OS
    pipes is not a statement of this model (checked by per-run timeouts only). -/
namespace GitSizer.C10
open GitSizer.ScanProto

theorem run_spec (report : List Inv → List String) : ∀ (invs seen : List Inv),
    ((run report seen invs).exit = 0 ↔ ∀ i ∈ invs, i.failing = false) ∧
    ((run report seen invs).exit = 0 → (run report seen invs).stdout = report (seen.reverse ++ invs)) ∧
    ((run report seen invs).exit ≠ 0 → (run report seen invs).stdout = [] ∧ (run report seen invs).stderr ≠ []) := by
  intro invs
  induction invs with
  | nil => intro seen; simp [run]
  | cons i rest ih =>
    intro seen
    simp only [run]
    by_cases hf : i.failing = true
    · simp [hf]
    · have hf' : i.failing = false := by simpa using hf
      simp only [hf', Bool.false_eq_true, if_false]
      obtain ⟨a, b, c⟩ := ih (i :: seen)
      refine ⟨?_, ?_, c⟩
      · rw [a]; simp [hf']
      · intro h; rw [b h]; simp

/-- **exit status 0 only if no git invocation failed** (every status is consulted) -/
theorem exit0_iff_no_failure (report : List Inv → List String) (invs : List Inv) :
    (scan report invs).exit = 0 ↔ ∀ i ∈ invs, i.failing = false := (run_spec report invs []).1

/-- **any failing or killed git subprocess, at any point of its output, makes the run fail** -/
theorem any_failure_errors (report : List Inv → List String) (invs : List Inv) (i : Inv) (hi : i ∈ invs)
    (hf : i.failing = true) : (scan report invs).exit ≠ 0 := by
  intro h0
  have := (exit0_iff_no_failure report invs).mp h0 i hi
  rw [this] at hf; cases hf

/-- **a failing run writes no report and says why** -/
theorem error_is_silent_on_stdout (report : List Inv → List String) (invs : List Inv)
    (h : (scan report invs).exit ≠ 0) : (scan report invs).stdout = [] ∧ (scan report invs).stderr ≠ [] :=
  (run_spec report invs []).2.2 h

/-- **exit status 0 comes with the complete report**: the report function applied to everything the
    invocations delivered — which is the fault-free report when every invocation delivered its whole
    output and ended as in the fault-free run -/
theorem exit0_complete (report : List Inv → List String) (invs : List Inv) (h : (scan report invs).exit = 0) :
    (scan report invs).stdout = report invs := by
  have := (run_spec report invs []).2.1 h
  simpa [scan] using this

theorem fault_free_identical (report : List Inv → List String) (invs faultFree : List Inv)
    (_h : (scan report invs).exit = 0) (same : invs = faultFree) :
    (scan report invs).stdout = (scan report faultFree).stdout := by subst same; rfl

/-- `git config --get` exiting with status 1 means "not set" and is not a failure; any other
    non-zero status or a signal is -/
theorem config_get_protocol :
    (Inv.failing ⟨.configGet, .exit 1, true⟩ = false) ∧ (Inv.failing ⟨.configGet, .exit 2, true⟩ = true) ∧
    (Inv.failing ⟨.configGet, .killed, false⟩ = true) ∧ (Inv.failing ⟨.catFileBatch, .exit 1, true⟩ = true) := by decide

/-- the regenerated synchronisation table: both scanning pipelines and the reference pipeline are
    waited for (`Wait`), and every producer closes its channel with `defer` (so a consumer never
    waits on a channel whose producer has returned without closing it) -/
def waited (file fn : String) : Bool := Gen.Cmds.syncSites.any (fun s => s.1 == file && s.2.1 == fn && s.2.2.1 == "Wait")
def deferredClose (file ch : String) : Bool :=
  Gen.Cmds.syncSites.any (fun s => s.1 == file && s.2.2.1 == "close" && s.2.2.2.1 == ch && s.2.2.2.2 == true)

theorem pipelines_waited_and_closed :
    waited "git/obj_iter.go" "Next" = true ∧ waited "git/batch_obj_iter.go" "Next" = true ∧
    waited "git/ref_iter.go" "NewReferenceIter" = true ∧
    deferredClose "git/obj_iter.go" "iter.headerCh" = true ∧ deferredClose "git/batch_obj_iter.go" "iter.objCh" = true ∧
    deferredClose "git/ref_iter.go" "iter.refCh" = true := by decide

/-- the driver waits for each feeder goroutine (`<-errChan`) only AFTER it has drained the iterator
    the feeder writes to: a feeder blocked on a pipeline whose process died is released by the
    pipeline's `Wait()`, which only `Next()` reaches — waiting first would hang (seeded change C10h).
    In source order: … Next(objIter) … ← errChan … Next(objectIter)×4 … ← errChan. -/
theorem feeders_awaited_after_draining :
    (Gen.Cmds.syncSites.filter (fun s => s.1 == "sizes/graph.go" && s.2.2.2.2 == false)).map (fun s => (s.2.2.1, s.2.2.2.1)) =
      [("Next", "objIter"), ("recv", "errChan"),
       ("Next", "objectIter"), ("Next", "objectIter"), ("Next", "objectIter"), ("Next", "objectIter"), ("recv", "errChan")] := by
  decide

/-- non-vacuity: `cat-file --batch` exits with 3 after delivering everything (the F9 scenario) -/
example : (scan (fun _ => ["report"]) [⟨.discover, .ok, true⟩, ⟨.revList, .ok, true⟩, ⟨.catFileBatch, .exit 3, true⟩]).exit = 1 := by decide


/-! ## the control flow of `mainImplementation`, REGENERATED (git-sizer.go)

`Gen.Cmds.mainFlow` lists in source order every `return <error>`, `return nil`, every statement that
writes to `stdout` and the scan, each with its branch path. The all-or-nothing shape of a run is a
decidable property of that list: nothing is written to stdout before the scan has succeeded (the
`--version` block apart), and once something was written no error can be returned any more, except
the failure of that very write. -/

abbrev Ev := String × String × List (String × String)

/-- two branch paths exclude each other: at the first difference they sit in different branches of
    the same `if` / `switch` -/
def exclusive : List (String × String) → List (String × String) → Bool
  | a :: as, b :: bs => if a == b then exclusive as bs else (a.1 == b.1 && a.2 != b.2 && a.2 != "loop")
  | _, _ => false

/-- is `p` a prefix of `q` -/
def isPrefixPath : List (String × String) → List (String × String) → Bool
  | [], _ => true
  | a :: as, b :: bs => a == b && isPrefixPath as bs
  | _ :: _, [] => false

/-- the branch path of the block guarded by `if version` -/
def versionBlock (flow : List Ev) : List (List (String × String)) :=
  flow.filterMap (fun e => if e.1 == "if" && e.2.1 == "version" then
    some (e.2.2.map (fun c => if c.2 == "" then (c.1, "t") else c)) else none)

def scanPos (flow : List Ev) : Nat := (flow.findIdx? (fun e => e.1 == "scan")).getD flow.length

/-- the check, event by event -/
def flowOK (flow : List Ev) : Bool :=
  let idx := (List.range flow.length).zip flow
  idx.all (fun ke =>
    let k := ke.1
    let e := ke.2
    if e.1 == "stdout" then
      if k < scanPos flow then
        -- before the scan: only inside `if version { … return nil }`
        (versionBlock flow).any (fun vb => isPrefixPath vb e.2.2)
      else
        -- after the scan: every later error return is on an excluded branch, or it is the
        -- `if err != nil` of this very write statement
        idx.all (fun jr =>
          let j := jr.1
          let r := jr.2
          if j > k && r.1 == "ret-err" then
            exclusive e.2.2 r.2.2 || (isPrefixPath e.2.2 r.2.2 && j == k + 2 && r.2.2.length == e.2.2.length + 1)
          else true)
    else true)

/-- **no report before the scan has succeeded; no failure after a report was written** -/
theorem main_flow_all_or_nothing : flowOK Gen.Cmds.mainFlow = true := by decide +kernel

/-- the scan happens exactly once, outside every branch and loop, and its error is returned -/
theorem scan_once_and_checked :
    (Gen.Cmds.mainFlow.filter (fun e => e.1 == "scan")).map (fun e => e.2.2) = [[]] ∧
    (Gen.Cmds.mainFlow.drop (scanPos Gen.Cmds.mainFlow + 1)).head?.map (fun e => (e.1, e.2.1)) = some ("if", "err != nil") := by
  decide

/-- the function ends with `return nil` at top level, and the two report writers are the two
    branches of `if jsonOutput` -/
theorem report_writers :
    (Gen.Cmds.mainFlow.getLast?).map (fun e => (e.1, e.2.2)) = some ("ret-nil", []) ∧
    ((Gen.Cmds.mainFlow.filter (fun e => e.1 == "stdout")).drop 2).map (fun e => e.2.2.map (·.2)) = [["t"], ["e"]] := by
  decide

/-! ## every error value of the scan driver is consulted, REGENERATED (sizes/graph.go)

`Gen.Cmds.scanFlow` lists every statement of `ScanRepositoryUsingGraph` (the two feeder goroutines
included). Each statement that assigns `err` — opening a pipeline, `Next()` on either iterator,
`AddRoot` / `RequestObject` in the feeders, `ParseTree/Commit/Tag`, `RegisterTree`, `<-errChan` — is
IMMEDIATELY followed by `if err != nil` whose branch begins by returning an error. -/

def errChecked : List Ev → Bool
  | [] => true
  | e :: rest =>
    (if e.1 == "assign-err" then
      match rest with
      | i :: r :: _ => i.1 == "if" && i.2.1 == "err != nil" && r.1 == "return-err" &&
          r.2.2.dropLast == i.2.2.dropLast && (r.2.2.getLast?.map (·.2)) == some "t"
      | _ => false
    else true) && errChecked rest

/-- **no error of the scan is dropped** -/
theorem scan_errors_consulted :
    errChecked Gen.Cmds.scanFlow = true ∧ (Gen.Cmds.scanFlow.filter (fun e => e.1 == "assign-err")).length = 17 := by
  constructor <;> decide +kernel

/-- the scan function returns a result only at its very end (every other return is an error return),
    and that result is `graph.HistorySize()` — whose own check panics when a tree or tag record remains -/
theorem scan_returns_once :
    (Gen.Cmds.scanFlow.filter (fun e => e.1 == "return" && !(e.2.2.any (fun c => c.2 == "go")))).map (fun e => (e.2.1, e.2.2)) =
      [("graph.HistorySize(), nil", [])] ∧
    (Gen.Cmds.scanFlow.getLast?).map (fun e => e.1) = some "return" := by
  constructor <;> decide +kernel


/-! ## `git config --get`: only exit status 1 means "not set", REGENERATED (git/gitconfig.go) -/

def cfgFlow (name : String) : List Ev := ((Gen.Flows.gitconfig.find? (fun f => f.1 == name)).map (·.2)).getD []

/-- the statements executed when the `git config --get` subprocess reported an error -/
def onError (name : String) : List (String × String × Nat) :=
  ((cfgFlow name).filter (fun e => e.2.2.any (fun c => c == ("i1", "t")))).map (fun e => (e.1, e.2.1, e.2.2.length))

/-- **a failing `git config --get [--bool|--int]` is "not set" only when it is an exit with status 1**
    (`Model/ScanProto.Inv.failing` for `configGet`): in all three readers the error branch is
    `err, ok := err.(*exec.ExitError); if ok && err.ExitCode() == 1 { return default, nil }; return default, <error>`
    — any other status (git rejects the value: 128), a signal, or a failure to start is an error
    (seeded change C10w widened the test to "any ExitError") -/
theorem config_get_exit1_only :
    [onError "Repository.ConfigStringDefault", onError "Repository.ConfigBoolDefault", onError "Repository.ConfigIntDefault"].all
      (fun l => l == [("assign-err", "err, ok := err.(*exec.ExitError)", 1), ("if", "ok && err.ExitCode() == 1", 2),
                      ("return", "defaultValue, nil", 2),
                      ("return-err", "defaultValue, fmt.Errorf(\"running 'git config': %w\", err)", 1)]) = true := by
  decide +kernel

/-- and a value that does not parse is an error, not the default -/
theorem config_values_must_parse :
    ((cfgFlow "Repository.ConfigBoolDefault" ++ cfgFlow "Repository.ConfigIntDefault").filter
        (fun e => e.2.2.any (fun c => c == ("i3", "t")))).map (·.1) = ["return-err", "return-err"] := by
  decide +kernel


/-! ## it terminates: the protocol of a scanning phase cannot hang (`Model/Pipeline`)

A step-level model of what can block in one phase — the feeder goroutine, the five pipeline stages
with bounded OS pipes and unbuffered Go channels, the two git processes that may die at ANY moment,
stages that may reject any line, and the scanning goroutine's `Next()` loop, `Wait()` and
`<-errChan` — for every number of roots and of listed objects and every pipe capacity. What the
model takes from the runtime (a stage that ends closes both of its ends; EPIPE; EOF) is stated in
`Model/Pipeline`; the order of the scanning goroutine's own operations is the regenerated one
(`feeders_awaited_after_draining`, `scan_errors_consulted`, `Pins.Src.ObjIter`). Not modelled: time,
the scheduler's fairness beyond "an enabled step is eventually taken", signals to git-sizer itself. -/

open GitSizer.Pipeline in
/-- **no deadlock**: in every reachable state in which the scanning goroutine has not returned, a step
    of the program itself is enabled (a process dying is not counted as progress) -/
theorem scan_phase_no_deadlock (roots : Option Nat) (lines ca cb cc cd : Nat) (ha : 0 < ca) (hb : 0 < cb) (hc : 0 < cc) (hd : 0 < cd)
    (s : St) (hr : Reach (init roots lines ca cb cc cd false) s) (hm : s.main ≠ .done) : ∃ s', Step s s' :=
  progress (inv_reach (inv_init roots lines ca cb cc cd ha hb hc hd) hr) hm

open GitSizer.Pipeline in
/-- **it returns on every run**: from every reachable state, whatever the processes and the environment
    do next, the scanning goroutine returns after finitely many steps (each step lowers `mu`) -/
theorem scan_phase_returns (roots : Option Nat) (lines ca cb cc cd : Nat) (ha : 0 < ca) (hb : 0 < cb) (hc : 0 < cc) (hd : 0 < cd)
    (s : St) (hr : Reach (init roots lines ca cb cc cd false) s) : Returns s :=
  returns_of_inv (mu s) s (Nat.le_refl _) (inv_reach (inv_init roots lines ca cb cc cd ha hb hc hd) hr)

open GitSizer.Pipeline in
/-- every step — the program's or the environment's — lowers the measure: no run is infinite -/
theorem scan_phase_steps_decrease (s s' : St) (h : Step s s' ∨ Env s s') : mu s' < mu s := by
  rcases h with h | h
  · exact step_decreases h
  · exact env_decreases h

open GitSizer.Pipeline in
/-- **the order matters** (seeded change C10h): if the scanning goroutine waited for the feeder's report
    BEFORE draining the pipeline, two roots and a `rev-list` that dies before reading would leave a
    reachable state in which it has not returned and NOTHING can move -/
theorem feeder_first_deadlocks (lines : Nat) :
    ∃ s, Reach (init (some 1) lines 1 1 1 1 true) s ∧ s.main ≠ .done ∧ (∀ s', ¬ Step s s') ∧ (∀ s', ¬ Env s s') :=
  ⟨stuck lines, variant_reaches_stuck lines, stuck_is_stuck lines⟩

open GitSizer.Pipeline in
/-- non-vacuity: a fault-free run (one root, one listed object, pipes of capacity 1) reaches the end with no error -/
example : ∃ s, Reach (init (some 0) 1 1 1 1 1 false) s ∧ s.main = .done ∧ s.err = false := by
  have r0 : Reach (init (some 0) 1 1 1 1 1 false) (init (some 0) 1 1 1 1 1 false) := Reach.refl
  have r1 := Reach.step r0 (Step.feedLast _ rfl rfl rfl)
  have r2 := Reach.step r1 (Step.s1Write _ rfl rfl (by decide))
  have r3 := Reach.step r2 (Step.feederClose _ rfl)
  have r4 := Reach.step r3 (Step.s1End _ rfl rfl)
  have r5 := Reach.step r4 (Step.g1Read _ rfl (by decide))
  have r6 := Reach.step r5 (Step.g1Eof _ rfl rfl rfl)
  have r7 := Reach.step r6 (Step.g1Write _ 0 rfl rfl (by decide))
  have r8 := Reach.step r7 (Step.g1Exit _ rfl)
  have r9 := Reach.step r8 (Step.s3Read _ rfl (by decide))
  have r10 := Reach.step r9 (Step.s3Write _ rfl rfl (by decide))
  have r11 := Reach.step r10 (Step.s3Eof _ rfl rfl rfl)
  have r12 := Reach.step r11 (Step.g2Read _ rfl (by decide))
  have r13 := Reach.step r12 (Step.g2Write _ rfl rfl (by decide))
  have r14 := Reach.step r13 (Step.g2Eof _ rfl rfl rfl)
  have r15 := Reach.step r14 (Step.s5Read _ rfl (by decide))
  have r16 := Reach.step r15 (Step.mainRecv _ rfl rfl)
  have r17 := Reach.step r16 (Step.s5Eof _ rfl rfl rfl)
  have r18 := Reach.step r17 (Step.mainClosed _ rfl rfl)
  have r19 := Reach.step r18 (Step.feederReport _ rfl)
  have r20 := Reach.step r19 (Step.mainWaitOk _ rfl rfl rfl rfl rfl rfl rfl)
  have r21 := Reach.step r20 (Step.mainErrchan _ rfl (by decide))
  exact ⟨_, r21, rfl, rfl⟩


open GitSizer.Pipeline3 in
/-- the same for the three-stage pipeline of the object-contents phases (`git/batch_obj_iter.go`):
    **no deadlock** and **it returns on every run**, for every number of requests and both pipe capacities -/
theorem batch_phase_never_hangs (requests : Option Nat) (ca cd : Nat) (ha : 0 < ca) (hd : 0 < cd)
    (s : St) (hr : Reach (init requests ca cd) s) :
    (s.main ≠ .done → ∃ s', Step s s') ∧ Returns s :=
  have hi := inv_reach (inv_init requests ca cd ha hd) hr
  ⟨progress hi, returns_of_inv (mu s) s (Nat.le_refl _) hi⟩

open GitSizer.PipelineR in
/-- and for reference enumeration (`git/ref_iter.go`): `for-each-ref`, `parse-refs`, the goroutine that sends
    `p.Wait()` over the unbuffered `errCh`, the consumer — **no deadlock, returns on every run** -/
theorem reference_phase_never_hangs (lines cd : Nat) (hd : 0 < cd) (s : St) (hr : Reach (init lines cd) s) :
    (s.main ≠ .done → ∃ s', Step s s') ∧ Returns s :=
  have hi := inv_reach (inv_init lines cd hd) hr
  ⟨progress hi, returns_of_inv (mu s) s (Nat.le_refl _) hi⟩

/-- **the models have the pipelines' shape**, REGENERATED: the listing pipeline is
    goroutine → `git rev-list` → goroutine → `git cat-file` → goroutine (five stages, `Model/Pipeline`),
    the contents pipeline goroutine → `git cat-file` → goroutine (three stages, `Model/Pipeline3`), the
    reference pipeline `git for-each-ref` → goroutine (two stages and the `p.Wait()` helper goroutine, `Model/PipelineR`) -/
theorem pipelines_have_the_modelled_shape :
    Gen.Cmds.pipelineStages =
      [("git/obj_iter.go", [("Function", "request-objects"), ("CommandStage", "git-rev-list"), ("Function", "copy-oids"),
                            ("CommandStage", "git-cat-file"), ("Function", "object-parser")]),
       ("git/batch_obj_iter.go", [("Function", "request-objects"), ("CommandStage", "git-cat-file"), ("Function", "object-reader")]),
       ("git/ref_iter.go", [("CommandStage", "git-for-each-ref"), ("Function", "parse-refs")])] := by decide


end GitSizer.C10
