import GitSizer.Proofs.Output
import GitSizer.Model.OidJson
import GitSizer.Gen.Flows
/-! # C19 — Reports are well-formed for any names
    Footnote numbering for every sequence of footnote texts (arbitrary bytes), and the JSON form of
    object ids. That names are written unescaped into the *table* (so a name containing a newline,
    '|' or '[n]' can break or forge rows) is the recorded finding F13; JSON escaping is Go's
    `encoding/json` (trusted, checked with `json.Valid` on every generated case). -/
namespace GitSizer.C19
open GitSizer GitSizer.Output

/-- **identical footnote texts share one number; a new text gets the next number; an empty text
    (no witness) is not cited** -/
theorem citation (f : Footnotes) (t : Bytes) :
    (t = [] → f.cite t = (f, "")) ∧
    (t ≠ [] → t ∈ f.notes → ∃ i, f.notes[i]? = some t ∧ f.cite t = (f, s!"[{i + 1}]")) ∧
    (t ≠ [] → t ∉ f.notes → f.cite t = ({ notes := f.notes ++ [t] }, s!"[{f.notes.length + 1}]")) := cite_spec f t

/-- **footnotes are numbered 1..k in order of first citation**: after any sequence of citations the
    footnote list is the list of distinct non-empty texts in order of first occurrence … -/
theorem numbering (ts : List Bytes) : (citeAll {} ts).notes = firstOccurrences [] ts := citeAll_spec {} ts
/-- … without repetition, so every footnote has exactly one number and every number one footnote -/
theorem numbering_nodup (ts : List Bytes) : (citeAll {} ts).notes.Nodup := by
  rw [numbering]; exact firstOccurrences_nodup ts [] List.nodup_nil

/-- the JSON form of an object id is a quoted string of lowercase hex digits, whatever the bytes -/
theorem hexEncode_digits : ∀ (b : Bytes), ∀ c ∈ Spec.hexEncode b, (48 ≤ c.toNat ∧ c.toNat ≤ 57) ∨ (97 ≤ c.toNat ∧ c.toNat ≤ 102) := by
  intro b
  induction b with
  | nil => intro c h; cases h
  | cons x xs ih =>
    intro c h
    simp only [Spec.hexEncode, List.mem_cons] at h
    have key : ∀ n, n < 16 → (48 ≤ (Spec.hexDigit n).toNat ∧ (Spec.hexDigit n).toNat ≤ 57) ∨ (97 ≤ (Spec.hexDigit n).toNat ∧ (Spec.hexDigit n).toNat ≤ 102) := by
      intro n hn
      have : n = 0 ∨ n = 1 ∨ n = 2 ∨ n = 3 ∨ n = 4 ∨ n = 5 ∨ n = 6 ∨ n = 7 ∨ n = 8 ∨ n = 9 ∨ n = 10 ∨ n = 11 ∨ n = 12 ∨ n = 13 ∨ n = 14 ∨ n = 15 := by omega
      rcases this with h | h | h | h | h | h | h | h | h | h | h | h | h | h | h | h <;> subst h <;> decide
    rcases h with rfl | rfl | h
    · exact key _ (Nat.div_lt_of_lt_mul (by have := x.toNat_lt; omega))
    · exact key _ (Nat.mod_lt _ (by omega))
    · exact ih c h

theorem oid_json_token (o : Bytes) :
    (Parsers.oidJson o).head? = some 34 ∧ (Parsers.oidJson o).getLast? = some 34 ∧
    (Parsers.oidJson o).length = 2 * o.length + 2 := by
  unfold Parsers.oidJson
  refine ⟨by simp, by rw [show [34] ++ Spec.hexEncode o ++ [34] = ([34] ++ Spec.hexEncode o) ++ [34] from rfl, List.getLast?_append]; simp, ?_⟩
  have : ∀ b : Bytes, (Spec.hexEncode b).length = 2 * b.length := by
    intro b; induction b with
    | nil => rfl
    | cons x xs ih => simp [Spec.hexEncode, ih]; omega
  simp [this]

/-- non-vacuity: three citations, two distinct texts -/
example : (citeAll {} [[97], [98], [97]]).notes = [[97], [98]] := by decide

/-! ## the report reaches stdout verbatim, REGENERATED (git-sizer.go) -/

abbrev MEv := String × String × List (String × String)
def mainFlowOf (name : String) : List MEv := ((Gen.Flows.mainFile.find? (fun f => f.1 == name)).map (·.2)).getD []

/-- **what the renderers produce is what is written**: after the scan, the JSON branch ends with
    `fmt.Fprintf(stdout, "%s\n", j)` — a constant format, the document as an argument — and the table branch is
    `io.WriteString(stdout, historySize.TableString(…))`; no other statement lies in either branch after the document
    exists. A name can therefore never be interpreted on its way out (seeded change C19k wrote the report AS the
    format string: every `%` in a name became a verb). -/
theorem report_written_verbatim :
    ((mainFlowOf "mainImplementation").filter (fun e => e.2.2 == [("i36", "t")] && e.1 == "call")).map (·.2.1) =
      ["fmt.Fprintf(stdout, \"%s\\n\", j)"] ∧
    ((mainFlowOf "mainImplementation").filter (fun e => e.2.2 == [("i36", "e")])).map (fun e => (e.1, e.2.1)) =
      [("assign-err", "_, err := io.WriteString(stdout, historySize.TableString(rg.Groups(), threshold, nameStyle))")] := by
  refine ⟨?_, ?_⟩ <;> decide +kernel

end GitSizer.C19
