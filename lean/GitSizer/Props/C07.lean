import GitSizer.Proofs.GenStrs
import GitSizer.Proofs.RefGroups
/-! # C07 — Reference tallies are exact for every refgroup hierarchy
    Theorems about the model of internal/refopts (`collectSymbols`, `Categorize`); the forest is an
    arbitrary rose tree, so nesting depth, implicit parents and naming are unrestricted. -/
namespace GitSizer.C07
open GitSizer GitSizer.RefFilter GitSizer.RefGroups GitSizer.Spec

/-- **symbols are exact**: for every forest node, `collectSymbols` returns exactly the groups of
    the subtree whose own rules and all of whose ancestors' rules the reference satisfies (a group
    without rules being the union of its subgroups), plus the "Other" bucket of every matched
    group with subgroups none of which matched — as a list, in output order. -/
theorem symbols_exact (ev : F Pat0 → Bool) (t : GTree) : (collect ev t).2 = members ev true t :=
  (collect_spec ev t).1

/-- a group contributes no symbol iff the reference does not satisfy its own rules -/
theorem no_symbol_iff_not_member (ev : F Pat0 → Bool) (t : GTree) : (collect ev t).2 = [] ↔ own ev t = false :=
  (collect_spec ev t).2

/-- nothing below an ancestor whose rules fail is tallied -/
theorem nothing_below_failed_ancestor (ev : F Pat0 → Bool) (t : GTree) : members ev false t = [] :=
  members_false ev t

/-- **ignored only**: a reference that is not traversed is tallied under "ignored" and nothing else -/
theorem ignored_only (env : Env) (st : Store) (opts : List (Opt Pat)) (d : Bool) (r : Bytes)
    (h : (categorize env st opts d r).walk = false) : (categorize env st opts d r).symbols = [ignoredSymbol] := by
  unfold categorize at h ⊢
  generalize toTree st = t at h ⊢
  obtain ⟨sym, name, filter, kids⟩ := t
  simp only at h ⊢
  split
  · rfl
  · next hc => simp [hc] at h

/-- **the whole categorisation meets its specification** -/
theorem categorize_exact (env : Env) (st : Store) (opts : List (Opt Pat)) (d : Bool) (r : Bytes) :
    categorize env st opts d r = categorizeSpec env st opts d r := categorize_eq_spec env st opts d r

/-- a traversed reference is never tallied under "ignored" by the categoriser itself -/
theorem traversed_has_top_symbol (env : Env) (st : Store) (opts : List (Opt Pat)) (d : Bool) (r : Bytes)
    (h : (categorize env st opts d r).walk = true) : (toTree st).sym ∈ (categorize env st opts d r).symbols := by
  unfold categorize at h ⊢
  generalize toTree st = t at h ⊢
  obtain ⟨sym, name, filter, kids⟩ := t
  simp only at h ⊢
  split
  · next hc => simp [hc] at h
  · simp [GTree.sym]

/-- **the symbol hierarchy is read from the keys as the model says, REGENERATED** (internal/refopts/ref_group_builder.go,
    translated on this run): `splitKey` cuts a gitconfig key at its LAST '.', `parentName` drops the last component —
    for every byte string, without a panic; these are the functions by which a key such as
    `refgroup.remotes.origin/releases.include` becomes (group `remotes.origin/releases`, field `include`) and the group's
    parent becomes `remotes` (seeded change C07k used path.Ext, which stops at a '/') -/
theorem symbol_hierarchy_source (key sym : Bytes) :
    Gen.Strs.splitKey key = .ok (Config.splitKey key) ∧ Gen.Strs.parentName sym = .ok (RefGroups.parentName sym) :=
  ⟨splitKey_regenerated key, parentName_regenerated sym⟩

example : Config.splitKey (Bytes.ofString "remotes.origin/releases.include") =
    (Bytes.ofString "remotes.origin/releases", Bytes.ofString "include") := by decide +kernel
example : RefGroups.parentName (Bytes.ofString "remotes.origin/releases") = Bytes.ofString "remotes" := by decide +kernel

end GitSizer.C07
