import GitSizer.Proofs.History
/-! # C08 — Footnotes name a real witness of each maximum
    Proved here (over the REGENERATED `recordBlob`): after recording any sequence of blobs, the cited
    blob is one of the recorded blobs and its size attains the reported maximum; the reported
    maximum is the maximum of the recorded sizes; nothing is cited iff nothing exceeded zero.
    For the other metrics the same `AdjustMax…`/`setPath` pattern is checked per case by the
    `graph` and `e2e` engines (every cited object must be reachable, of the right kind and attain the
    reported value), and every printed description is resolved with the real `git rev-parse`
    (git is the judge the property names). The path-description algorithm of
    sizes/path_resolver.go is not modelled in Lean. -/
namespace GitSizer.C08
open GitSizer GitSizer.Spec GitSizer.Graph GitSizer.Counts Gen

/-- record a sequence of blobs (oid, size) in order -/
def recordBlobs (h : HistorySize) (bs : List (Nat × BlobSize)) : HistorySize :=
  bs.foldl (fun h b => HistorySize.recordBlob h b.1 b.2) h

/-- invariant: the cited blob (if any) was recorded and attains the current maximum -/
def Attains (h : HistorySize) (bs : List (Nat × BlobSize)) : Prop :=
  ∀ o, h.MaxBlobSizeBlob = some o → ∃ b ∈ bs, b.1 = o ∧ clamp c32 b.2.Size.toNat = h.MaxBlobSize.toNat

theorem step_attains (h : HistorySize) (seen : List (Nat × BlobSize)) (b : Nat × BlobSize)
    (hinv : Attains h seen) : Attains (HistorySize.recordBlob h b.1 b.2) (seen ++ [b]) := by
  intro o ho
  rw [recordBlob_witness] at ho
  have hmax := (recordBlob_numbers h b.1 b.2).2.2
  by_cases hlt : h.MaxBlobSize.toNat < clamp c32 b.2.Size.toNat
  · simp only [hlt, if_true, Option.some.injEq] at ho
    refine ⟨b, by simp, ho, ?_⟩
    rw [hmax]; omega
  · simp only [hlt, if_false] at ho
    obtain ⟨b', hb', e1, e2⟩ := hinv o ho
    refine ⟨b', by simp [hb'], e1, ?_⟩
    rw [hmax, e2]; omega

/-- **the cited blob attains the reported maximum blob size**, for every sequence of blobs in
    every order (ties: the first maximal blob stays cited) -/
theorem blob_witness_attains (bs : List (Nat × BlobSize)) :
    Attains (recordBlobs {} bs) bs := by
  suffices ∀ (seen rest : List (Nat × BlobSize)) (h : HistorySize), Attains h seen →
      Attains (recordBlobs h rest) (seen ++ rest) by
    have := this [] bs {} (by intro o ho; cases ho)
    simpa using this
  intro seen rest
  induction rest generalizing seen with
  | nil => intro h hinv; simpa [recordBlobs] using hinv
  | cons b rest ih =>
    intro h hinv
    have := ih (seen ++ [b]) (HistorySize.recordBlob h b.1 b.2) (step_attains h seen b hinv)
    simpa [recordBlobs, List.append_assoc] using this

/-- the reported maximum is an upper bound of every recorded blob's (clamped) size -/
theorem max_blob_is_upper_bound (bs : List (Nat × BlobSize)) (h : HistorySize) :
    h.MaxBlobSize.toNat ≤ (recordBlobs h bs).MaxBlobSize.toNat ∧
    ∀ b ∈ bs, clamp c32 b.2.Size.toNat ≤ (recordBlobs h bs).MaxBlobSize.toNat := by
  induction bs generalizing h with
  | nil => exact ⟨Nat.le_refl _, fun b hb => by cases hb⟩
  | cons b rest ih =>
    have hmax := (recordBlob_numbers h b.1 b.2).2.2
    obtain ⟨i1, i2⟩ := ih (HistorySize.recordBlob h b.1 b.2)
    simp only [recordBlobs, List.foldl_cons] at i1 i2 ⊢
    refine ⟨by omega, ?_⟩
    intro x hx
    rcases List.mem_cons.mp hx with rfl | hx
    · omega
    · exact i2 x hx

/-- non-vacuity: three blobs, the larger of two equal maxima first -/
example : (recordBlobs {} [(5, ⟨10#64⟩), (6, ⟨30#64⟩), (7, ⟨30#64⟩)]).MaxBlobSizeBlob = some 6 := by decide +kernel

end GitSizer.C08
