import GitSizer.Proofs.History
import GitSizer.Proofs.PathRes.Driver
import GitSizer.Proofs.PathRes.Ops
import GitSizer.Gen.Cmds
import GitSizer.Gen.Flows
import GitSizer.Proofs.GenStrs
/-! # C08 — Footnotes name a real witness of each maximum
    Proved here (over the REGENERATED `recordBlob`): after recording any sequence of blobs, the cited
    blob is one of the recorded blobs and its size attains the reported maximum; the reported
    maximum is the maximum of the recorded sizes; nothing is cited iff nothing exceeded zero.
    For the other metrics the same `AdjustMax…`/`setPath` pattern is checked per case by the
    `graph` and `e2e` engines (every cited object must be reachable, of the right kind and attain the
    reported value), and every printed description is resolved with the real `git rev-parse`
    (git is the judge the property names).
    **Descriptions** (second part of this file): `sizes/path_resolver.go` is modelled statement by
    statement (`Model/PathResolver`: arena of `Path` objects, `soughtPaths`, request / forget /
    RecordName / RecordTreeEntry / RecordCommit, `Path()`, `TreePrefix()`, `revision()`,
    `rootTreePrefix()`), git's revision syntax for the fragment is specified in `Spec/RevParse`
    (validated against the real `git rev-parse` by the `revspec` engine), and it is PROVED that after
    every operation sequence that is consistent with the repository every description printed
    denotes exactly the object it is printed for. -/
namespace GitSizer.C08
open GitSizer GitSizer.Spec GitSizer.Graph GitSizer.Counts Gen

/-- record a sequence of blobs (oid, size) in order -/
def recordBlobs (h : HistorySize) (bs : List (Nat × BlobSize)) : HistorySize :=
  bs.foldl (fun h b => HistorySize.recordBlob h b.1 b.2) h

/-- invariant: the cited blob (if any) was recorded and attains the current maximum -/
def Attains (h : HistorySize) (bs : List (Nat × BlobSize)) : Prop :=
  ∀ o, h.MaxBlobSizeBlob = some o → ∃ b ∈ bs, b.1 = o ∧ clamp c32 b.2.Size.toNat = h.MaxBlobSize.toNat

theorem step_attains (h : HistorySize) (seen : List (Nat × BlobSize)) (b : Nat × BlobSize)
    (hinv : Attains h seen) : Attains (HistorySize.recordBlob h b.1 b.2) (seen ++ [b]) := by
  intro o ho
  rw [recordBlob_witness] at ho
  have hmax := (recordBlob_numbers h b.1 b.2).2.2
  by_cases hlt : h.MaxBlobSize.toNat < clamp c32 b.2.Size.toNat
  · simp only [hlt, if_true, Option.some.injEq] at ho
    refine ⟨b, by simp, ho, ?_⟩
    rw [hmax]; omega
  · simp only [hlt, if_false] at ho
    obtain ⟨b', hb', e1, e2⟩ := hinv o ho
    refine ⟨b', by simp [hb'], e1, ?_⟩
    rw [hmax, e2]; omega

/-- **the cited blob attains the reported maximum blob size**, for every sequence of blobs in
    every order (ties: the first maximal blob stays cited) -/
theorem blob_witness_attains (bs : List (Nat × BlobSize)) :
    Attains (recordBlobs {} bs) bs := by
  suffices ∀ (seen rest : List (Nat × BlobSize)) (h : HistorySize), Attains h seen →
      Attains (recordBlobs h rest) (seen ++ rest) by
    have := this [] bs {} (by intro o ho; cases ho)
    simpa using this
  intro seen rest
  induction rest generalizing seen with
  | nil => intro h hinv; simpa [recordBlobs] using hinv
  | cons b rest ih =>
    intro h hinv
    have := ih (seen ++ [b]) (HistorySize.recordBlob h b.1 b.2) (step_attains h seen b hinv)
    simpa [recordBlobs, List.append_assoc] using this

/-- the reported maximum is an upper bound of every recorded blob's (clamped) size -/
theorem max_blob_is_upper_bound (bs : List (Nat × BlobSize)) (h : HistorySize) :
    h.MaxBlobSize.toNat ≤ (recordBlobs h bs).MaxBlobSize.toNat ∧
    ∀ b ∈ bs, clamp c32 b.2.Size.toNat ≤ (recordBlobs h bs).MaxBlobSize.toNat := by
  induction bs generalizing h with
  | nil => exact ⟨Nat.le_refl _, fun b hb => by cases hb⟩
  | cons b rest ih =>
    have hmax := (recordBlob_numbers h b.1 b.2).2.2
    obtain ⟨i1, i2⟩ := ih (HistorySize.recordBlob h b.1 b.2)
    simp only [recordBlobs, List.foldl_cons] at i1 i2 ⊢
    refine ⟨by omega, ?_⟩
    intro x hx
    rcases List.mem_cons.mp hx with rfl | hx
    · omega
    · exact i2 x hx

/-- non-vacuity: three blobs, the larger of two equal maxima first -/
example : (recordBlobs {} [(5, ⟨10#64⟩), (6, ⟨30#64⟩), (7, ⟨30#64⟩)]).MaxBlobSizeBlob = some 6 := by decide +kernel


/-! ## every printed description denotes its object -/

open GitSizer.PathRes in
/-- **For every repository, every consistent operation sequence (requests and forgets in any
    number and order; tree entries, commit trees and root names reported in any order) and every
    `Path` object: `String()` is the object id alone, or the object id followed by a revision
    expression that git's syntax resolves to exactly that object.**  Hypotheses on the environment
    (`EnvOK`): git's basic name resolution accepts no string with a top-level ':', object ids
    resolve to their objects and consist of hex digits, a commit's tree is a tree. -/
theorem descriptions_resolve (e : Env) (hok : EnvOK e) (ops : List Spec.Op) (hops : ∀ op ∈ ops, OpOK e op)
    (st : State) (hrun : run ops = Res.ok st) (i : Nat) (rec : PathRec) (h : st.arena[i]? = some rec) :
    pathString e.hex st i = e.hex rec.oid ∨
    ∃ d, pathString e.hex st i = e.hex rec.oid ++ [32, 40] ++ d ++ [41] ∧ resolve e.r e.atom d = some rec.oid :=
  pathString_correct hok st (run_inv hok ops hops st hrun).recs i rec h

open GitSizer.PathRes in
/-- the consistency panics of `RecordTreeEntry` / `RecordCommit` ("parent unexpectedly filled in")
    are unreachable: on consistent arguments in a reachable state they return normally -/
theorem record_ops_never_panic (e : Env) (hok : EnvOK e) (ops : List Spec.Op) (hops : ∀ op ∈ ops, OpOK e op)
    (st : State) (hrun : run ops = Res.ok st) :
    (∀ t nm c, OpOK e (.entry t nm c) → ∃ st', recordTreeEntry st t nm c = .ok st') ∧
    (∀ c t, OpOK e (.commit c t) → ∃ st', recordCommit st c t = .ok st') := by
  have inv := run_inv hok ops hops st hrun
  constructor
  · intro t nm c h
    obtain ⟨s2, h2, _⟩ := recordTreeEntry_inv hok inv t nm c h.1 h.2.1 h.2.2.1 h.2.2.2.1 h.2.2.2.2.1 h.2.2.2.2.2
    exact ⟨s2, h2⟩
  · intro c t h
    obtain ⟨s2, h2, _⟩ := recordCommit_inv hok inv c t h.1 h.2
    exact ⟨s2, h2⟩

/-! ### the whole scan: the facts graph.go reports are true, hence every description resolves -/

open GitSizer.PathRes in
/-- **For every repository git accepts (`RepoOK`: entry modes agree with the objects, names non-empty,
    without '/', not repeated — what fsck enforces), every object listing, every set of roots that git
    resolved, and every interleaving of the scan's facts (`Spec.scanFacts`: all entries of the listed
    trees except submodule links, the tree of every listed commit, the walked roots' names) with
    requests of the right kind and forgets: every description the resolver prints denotes its object.**
    This discharges the `OpOK` hypothesis of `descriptions_resolve` for the calls that graph.go makes
    (which calls those are is regenerated and pinned: `resolver_calls_pinned`,
    `tree_entries_reported_except_submodules`, `names_of_walked_roots`). -/
theorem scan_descriptions_resolve (e : Env) (hok : EnvOK e) (hr : Spec.RepoOK e.r) (listing : List Nat)
    (roots : List (Bytes × Nat)) (hroots : ∀ nr ∈ roots, resolve e.r e.atom nr.1 = some nr.2)
    (ops : List Spec.Op) (hops : ∀ op ∈ ops, Spec.ScanOp e listing roots op)
    (st : State) (hrun : run ops = Res.ok st) (i : Nat) (rec : PathRec) (h : st.arena[i]? = some rec) :
    pathString e.hex st i = e.hex rec.oid ∨
    ∃ d, pathString e.hex st i = e.hex rec.oid ++ [32, 40] ++ d ++ [41] ∧ resolve e.r e.atom d = some rec.oid :=
  descriptions_resolve e hok ops (fun op hop => Spec.scanOp_ok e hr listing roots hroots op (hops op hop)) st hrun i rec h

/-- the facts themselves, for reference: each satisfies the consistency predicate -/
theorem scan_facts_consistent (e : Spec.Env) (hr : Spec.RepoOK e.r) (listing : List Nat) (roots : List (Bytes × Nat))
    (hroots : ∀ nr ∈ roots, resolve e.r e.atom nr.1 = some nr.2) :
    ∀ op ∈ Spec.scanFacts e.r listing roots, Spec.OpOK e op := Spec.scan_facts_ok e hr listing roots hroots

/-! ### the calls that feed the resolver (REGENERATED from sizes/graph.go and sizes/sizes.go)

`descriptions_resolve` assumes that every operation reports a true fact (`OpOK`). What the code
passes at each call site is extracted on every run (`Gen.Cmds.resolverSites`): the entry just
parsed of the tree being initialised — never a submodule link —, a parsed commit and its tree, a
walked root's name and object, and `setPath` with the type that matches the field. -/

/-- (function, callee, arguments) of every resolver call outside path_resolver.go -/
theorem resolver_calls_pinned :
    Gen.Cmds.resolverSites.map (fun r => (r.2.1, r.2.2.1, r.2.2.2.1)) =
    [("ScanRepositoryUsingGraph", "RecordCommit", ["commit.oid", "commit.tree"]),
     ("ScanRepositoryUsingGraph", "RecordName", ["root.Name()", "root.OID()"]),
     ("RegisterName", "RecordName", ["name", "oid"]),
     ("initialize", "RecordTreeEntry", ["oid", "name", "entry.OID"]),
     ("initialize", "RecordTreeEntry", ["oid", "name", "entry.OID"]),
     ("initialize", "RecordTreeEntry", ["oid", "name", "entry.OID"]),
     ("recordBlob", "setPath", ["g.pathResolver", "&s.MaxBlobSizeBlob", "oid", "\"blob\""]),
     ("recordTree", "setPath", ["g.pathResolver", "&s.MaxTreeEntriesTree", "oid", "\"tree\""]),
     ("recordTree", "setPath", ["g.pathResolver", "&s.MaxPathDepthTree", "oid", "\"tree\""]),
     ("recordTree", "setPath", ["g.pathResolver", "&s.MaxPathLengthTree", "oid", "\"tree\""]),
     ("recordTree", "setPath", ["g.pathResolver", "&s.MaxExpandedTreeCountTree", "oid", "\"tree\""]),
     ("recordTree", "setPath", ["g.pathResolver", "&s.MaxExpandedBlobCountTree", "oid", "\"tree\""]),
     ("recordTree", "setPath", ["g.pathResolver", "&s.MaxExpandedBlobSizeTree", "oid", "\"tree\""]),
     ("recordTree", "setPath", ["g.pathResolver", "&s.MaxExpandedLinkCountTree", "oid", "\"tree\""]),
     ("recordTree", "setPath", ["g.pathResolver", "&s.MaxExpandedSubmoduleCountTree", "oid", "\"tree\""]),
     ("recordCommit", "setPath", ["g.pathResolver", "&s.MaxCommitSizeCommit", "oid", "\"commit\""]),
     ("recordCommit", "setPath", ["g.pathResolver", "&s.MaxParentCountCommit", "oid", "\"commit\""]),
     ("recordTag", "setPath", ["g.pathResolver", "&s.MaxTagDepthTag", "oid", "\"tag\""])] := by decide

/-- tree entries are reported for subtrees, symlinks and blobs, never for submodule links -/
theorem tree_entries_reported_except_submodules :
    (Gen.Cmds.resolverSites.filter (fun r => r.2.2.1 == "RecordTreeEntry")).map (fun r => r.2.2.2.2) =
    ["case entry.Filemode&0o170000 == 0o40000", "case entry.Filemode&0o170000 == 0o120000", "default"] := by decide

/-- root names are recorded only for roots that are walked -/
theorem names_of_walked_roots :
    (Gen.Cmds.resolverSites.filter (fun r => r.2.2.1 == "RecordName" && r.2.1 == "ScanRepositoryUsingGraph")).map (fun r => r.2.2.2.2) =
    ["if root.Walk()"] := by decide

/-- `scanRevision` and `rootTreePrefix` — the string logic that decides how a root's name is extended —
    as REGENERATED from sizes/path_resolver.go on this run (`for` loop over the bytes with the tagless
    `switch`, checked index expressions, short-circuit `&&`/`||`) never panic and are the model's -/
theorem root_tree_prefix_source (hex : Nat → Bytes) (name : Bytes) (oid : Nat) :
    Gen.Strs.scanRevision name = .ok (scanConv (PathRes.scanRevision 0 false 0 name)) ∧
    Gen.Strs.rootTreePrefix name (hex oid) = .ok (PathRes.rootTreePrefix hex name oid) :=
  ⟨scanRevision_regenerated name, rootTreePrefix_regenerated hex name oid⟩

/-! ### the three repaired defects, as kernel-checked facts about git's syntax (`Spec.resolve`) and
    about the descriptions the model of the REPAIRED code prints -/
section witnesses
open GitSizer.PathRes

/-- blob 0, tree 1 = {"{}" ↦ 0}, commit 2 (tree 1), tree 3 = {"sub" ↦ gitlink to commit 2}, commit 4 (tree 3) -/
def wRepo : Repo := [.blob 10, .tree 0 [⟨0o100644, [123, 125], 0⟩], .commit 0 1 [], .tree 0 [⟨0o160000, [115, 117, 98], 2⟩], .commit 0 3 []]
def wHex (i : Nat) : Bytes := 104 :: List.replicate i 120
/-- "HEAD" ↦ commit 4, "a{b" ↦ commit 2 -/
def wAtom (s : Bytes) : Option Nat :=
  if s = [72, 69, 65, 68] then some 4 else if s = [97, 123, 98] then some 2
  else match s with
    | 104 :: t => if t.all (· == 120) then some t.length else none
    | _ => none

/-- F19: git does not see the ':' after the unclosed '{' of "a{b:{}" -/
theorem F19_unclosed_brace : resolve wRepo wAtom [97, 123, 98, 58, 123, 125] = none := by decide
/-- F21: "HEAD:sub^{tree}:{}" … and the prefix match: "a{b^{tree}" is fine, but git reads
    "HEAD^{tree}:x}"-like strings as "HEAD^{tree}": here "HEAD:sub" names commit 2, and
    "HEAD^{tree}:sub}" denotes the TREE 3, not an entry -/
theorem F21_prefix_match : resolve wRepo wAtom [72, 69, 65, 68, 94, 123, 116, 114, 101, 101, 125, 58, 115, 117, 98, 125] = some 3 := by decide
/-- F20: "HEAD:sub" denotes commit 2, but "HEAD:sub^{tree}" is a path that does not exist -/
theorem F20_commit_by_path :
    resolve wRepo wAtom [72, 69, 65, 68, 58, 115, 117, 98] = some 2 ∧
    resolve wRepo wAtom [72, 69, 65, 68, 58, 115, 117, 98, 94, 123, 116, 114, 101, 101, 125] = none := by decide

/-- non-vacuity of `descriptions_resolve`, and the repaired behaviour on the F20 input: the blob
    below commit 2, which is named "HEAD:sub", is described through the commit's object id -/
example :
    (run [.request 0 .blob, .entry 1 [123, 125] 0, .commit 2 1, .name [72, 69, 65, 68, 58, 115, 117, 98] 2]).bind
      (fun st => .ok (pathString wHex st 0)) = .ok (wHex 0 ++ [32, 40] ++ (wHex 2 ++ [58, 123, 125]) ++ [41]) := by decide

example : resolve wRepo wAtom (wHex 2 ++ [58, 123, 125]) = some 0 := by decide


/-- the environment hypotheses are satisfiable: they hold of this concrete repository -/
theorem splitTop_mem_colon : ∀ (s : Bytes) (d : Nat) (rp : Bytes × Bytes), splitTop d s = some rp → colon ∈ s := by
  intro s
  induction s with
  | nil => intro d rp h; simp [splitTop] at h
  | cons c cs ih =>
    intro d rp h
    unfold splitTop at h
    split at h
    · cases h2 : splitTop (d + 1) cs with
      | none => rw [h2] at h; cases h
      | some x => exact List.mem_cons_of_mem _ (ih _ _ h2)
    · split at h
      · cases h2 : splitTop (d - 1) cs with
        | none => rw [h2] at h; cases h
        | some x => exact List.mem_cons_of_mem _ (ih _ _ h2)
      · split at h
        · rename_i hc; rw [hc.1]; exact List.mem_cons_self
        · cases h2 : splitTop d cs with
          | none => rw [h2] at h; cases h
          | some x => exact List.mem_cons_of_mem _ (ih _ _ h2)

/-- non-vacuity of `scan_descriptions_resolve`: the witness repository meets `RepoOK` -/
theorem wRepo_ok : Spec.RepoOK wRepo := by
  have hent : ∀ t en, en ∈ wRepo.entries t →
      (t = 1 ∧ en = ⟨0o100644, [123, 125], 0⟩) ∨ (t = 3 ∧ en = ⟨0o160000, [115, 117, 98], 2⟩) := by
    intro t en h
    match t with
    | 0 => simp [Repo.entries, Repo.obj, wRepo] at h
    | 1 => left; simpa [Repo.entries, Repo.obj, wRepo] using h
    | 2 => simp [Repo.entries, Repo.obj, wRepo] at h
    | 3 => right; simpa [Repo.entries, Repo.obj, wRepo] using h
    | 4 => simp [Repo.entries, Repo.obj, wRepo] at h
    | n + 5 => simp [Repo.entries, Repo.obj, wRepo] at h
  refine ⟨?_, ?_, ?_, ?_, ?_⟩
  · intro i j hj
    match i with
    | 0 => simp [Repo.edges, Repo.obj, wRepo] at hj
    | 1 => simp [Repo.edges, Repo.obj, wRepo, Entry.kind] at hj; omega
    | 2 => simp [Repo.edges, Repo.obj, wRepo] at hj; omega
    | 3 => simp [Repo.edges, Repo.obj, wRepo, Entry.kind] at hj
    | 4 => simp [Repo.edges, Repo.obj, wRepo] at hj; omega
    | n + 5 => simp [Repo.edges, Repo.obj, wRepo] at hj
  · intro t en h hk
    rcases hent t en h with ⟨_, rfl⟩ | ⟨_, rfl⟩ <;> simp [Entry.kind] at hk
  · intro t en h hk
    rcases hent t en h with ⟨_, rfl⟩ | ⟨_, rfl⟩
    · decide
    · rcases hk with hk | hk <;> simp [Entry.kind] at hk
  · intro t en h
    rcases hent t en h with ⟨_, rfl⟩ | ⟨_, rfl⟩ <;> decide
  · intro t en en' h h' _
    rcases hent t en h with ⟨rfl, rfl⟩ | ⟨rfl, rfl⟩ <;> rcases hent _ en' h' with ⟨ht, rfl⟩ | ⟨ht, rfl⟩ <;> first | rfl | omega

/-- and its facts are what one expects: the entry of tree 1, the trees of both commits, one root -/
example : Spec.scanFacts wRepo [4, 3, 2, 1, 0] [([72, 69, 65, 68], 4)] =
    [.entry 1 [123, 125] 0, .commit 4 3, .commit 2 1, .name [72, 69, 65, 68] 4] := by rfl

theorem wEnv_ok : EnvOK ⟨wRepo, wAtom, wHex⟩ := by
  constructor
  · intro s hs
    cases hsp : splitTop 0 s with
    | none => rw [hsp] at hs; cases hs
    | some rp =>
      have hc := splitTop_mem_colon s 0 rp hsp
      unfold wAtom
      have h1 : s ≠ [72, 69, 65, 68] := by intro h; rw [h] at hc; revert hc; decide
      have h2 : s ≠ [97, 123, 98] := by intro h; rw [h] at hc; revert hc; decide
      simp only [h1, h2, if_false]
      split
      · rename_i t
        have : colon ∈ t := by
          rcases List.mem_cons.mp hc with h | h
          · exact absurd h (by decide)
          · exact h
        have : t.all (· == 120) = false := by
          rw [List.all_eq_false]
          exact ⟨colon, this, by decide⟩
        simp [this]
      · rfl
  · intro i
    simp only [wAtom, wHex]
    have h1 : (104 :: List.replicate i 120 : Bytes) ≠ [72, 69, 65, 68] := by simp
    have h2 : (104 :: List.replicate i 120 : Bytes) ≠ [97, 123, 98] := by simp
    simp [h1, h2]
  · intro i c hc
    simp only [wHex, List.mem_cons, List.mem_replicate] at hc
    rcases hc with rfl | ⟨_, rfl⟩ <;> decide
  · intro i; simp [wHex]
  · intro c t h
    match c with
    | 0 | 1 | 3 => simp [commitTreeOf, wRepo, Repo.obj] at h
    | 2 => simp [commitTreeOf, wRepo, Repo.obj] at h; subst h; decide
    | 4 => simp [commitTreeOf, wRepo, Repo.obj] at h; subst h; decide
    | c + 5 => simp [commitTreeOf, wRepo, Repo.obj] at h

end witnesses

/-! ## "With --names=none no object is cited", over the REGENERATED statements -/

abbrev FEv := String × String × List (String × String)
def flowOf (file : List (String × List FEv)) (name : String) : List FEv := ((file.find? (fun f => f.1 == name)).map (·.2)).getD []

/-- **--names=none cites nothing, by construction**: the graph takes its resolver from `NewPathResolver(nameStyle)`;
    for `NameStyleNone` that is `NullPathResolver{false}`, whose `RequestPath` returns nil; every witness field is
    assigned only by `setPath`, i.e. from `RequestPath`; and both renderers skip an item whose path is nil (the table's
    `Footnote` returns "" first thing, the JSON object name and description are set only under `path != nil`). -/
theorem names_none_cites_nothing :
    ((flowOf Gen.Flows.pathResolver "NewPathResolver").take 3).map (fun e => (e.1, e.2.1)) =
      [("switch", "nameStyle"), ("case", "NameStyleNone"), ("return", "NullPathResolver{false}")] ∧
    (flowOf Gen.Flows.pathResolver "NullPathResolver.RequestPath").map (fun e => (e.1, e.2.1, e.2.2.map (·.2))) =
      [("if", "n.useHash", [""]), ("return", "&Path{OID: oid, objectType: objectType}", ["t"]), ("return", "nil", ["e"])] ∧
    (flowOf Gen.Flows.sizesFile "setPath").map (fun e => (e.1, e.2.1)) =
      [("if", "*path != nil"), ("call", "pr.ForgetPath(*path)"), ("assign", "*path = pr.RequestPath(oid, objectType)")] ∧
    -- ALL assignments of sizes.go: no witness path is assigned except inside setPath
    (Gen.Flows.sizesFile.flatMap (fun f => (f.2.filter (fun e => e.1 == "assign")).map (fun e => e.2.1))) =
      ["*path = pr.RequestPath(oid, objectType)", "c, ok := s.ReferenceGroups[group]", "n := counts.Count32(1)", "s.ReferenceGroups[group] = &n"] ∧
    ((flowOf Gen.Flows.output "item.Footnote").take 2).map (fun e => (e.1, e.2.1)) =
      [("if", "i.path == nil || i.path.OID == git.NullOID"), ("return", "\"\"")] ∧
    ((flowOf Gen.Flows.output "item.MarshalJSON").filter (fun e => e.2.2.map (·.2) == ["t"])).map (fun e => e.2.1) =
      ["stat.ObjectName = i.path.OID.String()", "stat.ObjectDescription = i.path.Path()"] ∧
    ((flowOf Gen.Flows.output "item.MarshalJSON").filter (fun e => e.1 == "if")).map (fun e => e.2.1) =
      ["i.path != nil && i.path.OID != git.NullOID"] := by
  refine ⟨?_, ?_, ?_, ?_, ?_, ?_, ?_⟩ <;> decide +kernel

end GitSizer.C08
