import GitSizer.Proofs.GraphRun7
import GitSizer.Proofs.Counts
/-! # C05 — Counters saturate and never wrap
    Property theorems (arithmetic core). All statements are about `Gen.*`, the Lean definitions
    REGENERATED from counts/counts.go on this run. -/
namespace GitSizer.C05
open GitSizer GitSizer.Spec GitSizer.Graph Gen

/-- `Count32.Plus` is `min (a+b) (2^32-1)` for all 2^64 operand pairs. -/
theorem plus32_saturates (a b : BitVec 32) :
    (Gen.Count32.Plus a b).toNat = min (a.toNat + b.toNat) (2^32 - 1) := Counts.plus32_spec a b

/-- `Count64.Plus` is `min (a+b) (2^64-1)` for all 2^128 operand pairs. -/
theorem plus64_saturates (a b : BitVec 64) :
    (Gen.Count64.Plus a b).toNat = min (a.toNat + b.toNat) (2^64 - 1) := Counts.plus64_spec a b

theorem increment32_saturates (a b : BitVec 32) :
    (Gen.Count32.Increment a b).toNat = min (a.toNat + b.toNat) (2^32 - 1) := Counts.increment32_spec a b

theorem increment64_saturates (a b : BitVec 64) :
    (Gen.Count64.Increment a b).toNat = min (a.toNat + b.toNat) (2^64 - 1) := Counts.increment64_spec a b

/-- narrowing a 64-bit quantity clamps, never truncates -/
theorem newCount32_clamps (n : BitVec 64) : (Gen.NewCount32 n).toNat = min n.toNat (2^32 - 1) :=
  Counts.newCount32_spec n

/-- never wraps: the result is at least each operand -/
theorem plus32_ge_left (a b : BitVec 32) : a.toNat ≤ (Gen.Count32.Plus a b).toNat := by
  rw [Counts.plus32_spec]; have := a.isLt; unfold sat c32; omega
theorem plus64_ge_left (a b : BitVec 64) : a.toNat ≤ (Gen.Count64.Plus a b).toNat := by
  rw [Counts.plus64_spec]; have := a.isLt; unfold sat c64; omega

/-- saturation is absorbing: once at capacity, always at capacity -/
theorem plus32_absorbing (b : BitVec 32) : (Gen.Count32.Plus (BitVec.ofNat 32 (2^32-1)) b).toNat = 2^32 - 1 := by
  rw [Counts.plus32_spec]; have := b.isLt; simp [sat, c32]
theorem plus64_absorbing (b : BitVec 64) : (Gen.Count64.Plus (BitVec.ofNat 64 (2^64-1)) b).toNat = 2^64 - 1 := by
  rw [Counts.plus64_spec]; have := b.isLt; simp [sat, c64]

/-- the overflow flag (rendered as the infinity sign / forced concern) is raised iff value = capacity -/
theorem overflow32_iff (n : BitVec 32) : (Gen.Count32.ToUint64 n).2 = true ↔ n.toNat = 2^32 - 1 :=
  (Counts.toUint64_32_spec n).2
theorem overflow64_iff (n : BitVec 64) : (Gen.Count64.ToUint64 n).2 = true ↔ n.toNat = 2^64 - 1 :=
  (Counts.toUint64_64_spec n).2
/-- JSON carries the capacity itself for a saturated counter (the value is passed through) -/
theorem json_value32 (n : BitVec 32) : (Gen.Count32.ToUint64 n).1.toNat = n.toNat := (Counts.toUint64_32_spec n).1
theorem json_value64 (n : BitVec 64) : (Gen.Count64.ToUint64 n).1 = n := (Counts.toUint64_64_spec n).1

/-- a saturating fold over any list, in any order, is the clamp of the true sum -/
theorem fold_is_clamped_sum (c : Nat) (l : List Nat) : satSum c l = min l.sum c := satSum_eq c l
theorem fold_order_independent (c : Nat) {l1 l2 : List Nat} (p : l1.Perm l2) : satSum c l1 = satSum c l2 :=
  satSum_perm c p

/-- non-vacuity: a pair that overflows -/
example : (Gen.Count32.Plus (BitVec.ofNat 32 4294967290) (BitVec.ofNat 32 10)).toNat = 4294967295 := by decide


/-- **Every reported number is `min(true value, capacity)`** — for a whole run: the statement is
    `RunResult`, whose 22 right-hand sides are each `clamp cap (true count | sum | maximum)` with
    the truth computed in unbounded `Nat`; never a wrapped value. -/
theorem whole_run_saturates (r : Repo) (ops : List Op) (v : ValidRun r ops) :
    ∃ st, runOps r ops {} = .ok st ∧
      RunResult r st.hist (blobsOf ops) (treesOf ops) (commitsOf ops) (tagsOf ops) (refsOf ops) :=
  let ⟨st, h, _, res⟩ := v.result; ⟨st, h, res⟩


/-! ## bombs are analysed in linear work

`sizes.Graph` expands each distinct tree once (memo `treeSizes`); what remains is the listener
cascade that resumes waiting parents. Over a whole run — any delivery order — it performs at most
as many iterations as the delivered trees have subtree ENTRIES (`Agg.K`), however large the
expanded trees are (a git bomb of depth d and width k has d·k entries and k^d expanded paths).
The entry loop itself visits each entry of each delivered tree once (`initLoop` is a fold over the
tree's entries). -/

/-- cascade iterations of a whole run of tree deliveries ≤ number of subtree entries delivered -/
theorem tree_work_linear (r : Repo) (wf : ∀ t e, e ∈ treeKids r t → e.2 < t) (ds : List Nat) (hnd : ds.Nodup)
    (fuel : Nat) (hfuel : Agg.K (PB r) ds ≤ fuel) :
    Agg.runSteps (PB r) fuel ds Agg.init ≤ Agg.K (PB r) ds :=
  Agg.cascade_steps_linear (lawsB r) (show Agg.WFk (PB r) from wf) ds hnd fuel hfuel

/-- the bound is the number of subtree entries, a quantity of the STORED trees -/
theorem work_bound_is_stored_entries (r : Repo) (ds : List Nat) :
    Agg.K (PB r) ds = (ds.map fun t => (treeKids r t).length).sum := rfl

/-- non-vacuity: a 3-level bomb (each level holds the previous one twice) delivered top-down -/
example : Agg.runSteps (PB [.blob 1, .tree 0 [⟨0o100644, [97], 0⟩], .tree 0 [⟨0o40000, [97], 1⟩, ⟨0o40000, [98], 1⟩],
      .tree 0 [⟨0o40000, [97], 2⟩, ⟨0o40000, [98], 2⟩]]) 10 [3, 2, 1] Agg.init = 4 := by decide

end GitSizer.C05
