import GitSizer.Model.Options
/-! # C14 — Command line overrides gitconfig; equivalent spellings give identical output
    Theorems about the option-handling model and the REGENERATED flag / guard tables; the real binary
    is compared on pairs of invocations that the property declares equivalent (`opts` engine:
    byte-identical stdout), including invalid gitconfig values that must be ignored when an option of
    the family is present and must be an error when they are in effect. -/
namespace GitSizer.C14
open GitSizer.Options

/-- the regenerated guard table: each `sizer.*` key is read only if none of exactly these flags was given -/
theorem guards :
    Gen.Tables.configGuards = [("sizer.jsonVersion", ["json-version"]),
      ("sizer.threshold", ["threshold", "verbose", "no-verbose", "critical"]),
      ("sizer.names", ["names"]), ("sizer.progress", ["progress", "no-progress"])] := by decide

/-- the regenerated flag table: --verbose ≡ --threshold=0, --no-verbose ≡ --threshold=1, --critical ≡ --threshold=30 -/
theorem flag_targets : flagTarget "verbose" = some (0, 1) ∧ flagTarget "no-verbose" = some (1, 1) ∧ flagTarget "critical" = some (30, 1) := by
  decide

theorem applyThr_irrelevant (parse : String → Option String) (a b : String) (o : ThrOpt) :
    applyThr parse (some a) o = applyThr parse (some b) o := by
  cases o with
  | threshold v => rfl
  | flag name arg =>
    simp only [applyThr]
    cases flagTarget name with
    | none => rfl
    | some p => rfl

/-- **the last option of the threshold family wins**: after any valid prefix, the value is that of
    the last option alone -/
theorem last_threshold_wins (parse : String → Option String) (init : String) (opts : List ThrOpt) (last : ThrOpt)
    (hvalid : (foldThr parse init opts).isSome = true) :
    foldThr parse init (opts ++ [last]) = applyThr parse (some init) last := by
  have hstep : foldThr parse init (opts ++ [last]) =
      (match foldThr parse init opts with | none => none | some _ => applyThr parse (foldThr parse init opts) last) := by
    unfold foldThr; rw [List.foldl_append]; rfl
  rw [hstep]
  cases h : foldThr parse init opts with
  | none => rw [h] at hvalid; cases hvalid
  | some v => exact applyThr_irrelevant parse v init last

/-- **gitconfig has no effect when an option of the family is on the command line** (valid or not) -/
theorem cmdline_wins (parse : String → Option String) (opts : List ThrOpt) (h : opts ≠ []) (c1 c2 : Option String) :
    effectiveThr parse opts c1 = effectiveThr parse opts c2 := by
  unfold effectiveThr
  have : opts.isEmpty = false := by cases opts <;> simp_all
  simp [this]

/-- **gitconfig has exactly the effect of --threshold when no option of the family is given** -/
theorem config_when_absent (parse : String → Option String) (c : String) :
    effectiveThr parse [] (some c) = effectiveThr parse [.threshold c] none := by
  simp [effectiveThr, foldThr, applyThr]

/-- spellings: a boolean flag given as true is `--threshold=<target>` -/
theorem verbose_is_threshold_0 (parse : String → Option String) (hp : parse "0" = some "0/1") :
    effectiveThr parse [.flag "verbose" true] none = effectiveThr parse [.threshold "0"] none := by
  simp [effectiveThr, foldThr, applyThr, flagTarget, hp]; decide
theorem critical_is_threshold_30 (parse : String → Option String) (hp : parse "30" = some "30/1") :
    effectiveThr parse [.flag "critical" true] none = effectiveThr parse [.threshold "30"] none := by
  simp [effectiveThr, foldThr, applyThr, flagTarget, hp]; decide

/-- the deprecated reference options are registered with the same value kind as their documented
    replacements (`--include-regexp R` is a regexp include, `--refgroup G` a refgroup include) -/
theorem deprecated_spellings :
    (Gen.Tables.refOptions.find? (·.1 == "include-regexp")).map (fun e => (e.2.1, e.2.2.1, e.2.2.2.2.1, e.2.2.2.2.2.2)) = some ("filterValue", "Include", true, true) ∧
    (Gen.Tables.refOptions.find? (·.1 == "exclude-regexp")).map (fun e => (e.2.1, e.2.2.1, e.2.2.2.2.1, e.2.2.2.2.2.2)) = some ("filterValue", "Exclude", true, true) ∧
    (Gen.Tables.refOptions.find? (·.1 == "refgroup")).map (fun e => (e.2.1, e.2.2.2.2.2.2)) = some ("filterGroupValue", true) := by decide

end GitSizer.C14
