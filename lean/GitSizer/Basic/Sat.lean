/-! Saturating arithmetic over `Nat` "true values": `sat c a b = min (a+b) c`, `clamp c a = min a c`,
    and the homomorphism laws used everywhere above the counters. Core Lean only. -/
namespace GitSizer

def c32 : Nat := 2^32 - 1
def c64 : Nat := 2^64 - 1

theorem c32_val : c32 = 4294967295 := by decide
theorem c64_val : c64 = 18446744073709551615 := by decide

/-- saturating addition with capacity `c` -/
def sat (c a b : Nat) : Nat := min (a + b) c
/-- clamp a true value into a counter of capacity `c` -/
def clamp (c a : Nat) : Nat := min a c

theorem sat_le (c a b : Nat) : sat c a b ≤ c := by unfold sat; omega
theorem clamp_le (c a : Nat) : clamp c a ≤ c := by unfold clamp; omega
theorem clamp_id {c a : Nat} (h : a ≤ c) : clamp c a = a := by unfold clamp; omega
theorem sat_comm (c a b : Nat) : sat c a b = sat c b a := by unfold sat; omega
theorem sat_assoc (c a b d : Nat) : sat c (sat c a b) d = sat c a (sat c b d) := by unfold sat; omega
theorem sat_zero {c a : Nat} (h : a ≤ c) : sat c a 0 = a := by unfold sat; omega
theorem zero_sat {c a : Nat} (h : a ≤ c) : sat c 0 a = a := by unfold sat; omega

/-- `clamp` is a homomorphism from `(Nat, +)` to `(·, sat)` -/
theorem clamp_add (c a b : Nat) : clamp c (a + b) = sat c (clamp c a) (clamp c b) := by
  unfold clamp sat; omega
/-- `clamp` is a homomorphism for `max` -/
theorem clamp_max (c a b : Nat) : clamp c (max a b) = max (clamp c a) (clamp c b) := by
  unfold clamp; omega
theorem clamp_clamp (c a : Nat) : clamp c (clamp c a) = clamp c a := by unfold clamp; omega
/-- widening a 32-bit clamped value into a 64-bit sum: clamping twice -/
theorem clamp_mono {c a b : Nat} (h : a ≤ b) : clamp c a ≤ clamp c b := by unfold clamp; omega
theorem clamp64_of_clamp32 (a : Nat) : clamp c64 (clamp c32 a) = clamp c32 a := by
  unfold clamp c32 c64; omega

/-- saturating sum of a list -/
def satSum (c : Nat) (l : List Nat) : Nat := l.foldl (sat c) 0

theorem foldl_sat_eq (c : Nat) (l : List Nat) (acc : Nat) :
    l.foldl (sat c) (clamp c acc) = clamp c (acc + l.sum) := by
  induction l generalizing acc with
  | nil => simp
  | cons x xs ih =>
    simp only [List.foldl_cons, List.sum_cons]
    have : sat c (clamp c acc) x = clamp c (acc + x) := by unfold sat clamp; omega
    rw [this, ih]; congr 1; omega

/-- the saturating fold over any list equals the clamp of the true sum: order-independent -/
theorem satSum_eq (c : Nat) (l : List Nat) : satSum c l = clamp c l.sum := by
  have := foldl_sat_eq c l 0
  simpa [satSum, clamp] using this

theorem satSum_perm (c : Nat) {l1 l2 : List Nat} (p : l1.Perm l2) : satSum c l1 = satSum c l2 := by
  rw [satSum_eq, satSum_eq, p.sum_nat]

end GitSizer
