/-! Byte strings (`List UInt8`) with the handful of Go string/bytes functions git-sizer uses,
    plus hex encoding for the line protocol. Core Lean only. -/
namespace GitSizer

abbrev Bytes := List UInt8

namespace Bytes

def hexDigit (n : Nat) : Char :=
  if n < 10 then Char.ofNat (48 + n) else Char.ofNat (87 + n)

def hexVal (c : Char) : Option Nat :=
  if '0' ≤ c ∧ c ≤ '9' then some (c.toNat - 48)
  else if 'a' ≤ c ∧ c ≤ 'f' then some (c.toNat - 87)
  else if 'A' ≤ c ∧ c ≤ 'F' then some (c.toNat - 55)
  else none

def toHexChars : Bytes → List Char
  | [] => []
  | b :: bs => hexDigit (b.toNat / 16) :: hexDigit (b.toNat % 16) :: toHexChars bs

/-- protocol encoding: "-" for the empty string -/
def toHex (b : Bytes) : String := if b.isEmpty then "-" else String.ofList (toHexChars b)

def ofHexChars : List Char → Option Bytes
  | [] => some []
  | [_] => none
  | a :: b :: rest => do
    let x ← hexVal a
    let y ← hexVal b
    let r ← ofHexChars rest
    pure (UInt8.ofNat (16 * x + y) :: r)

def ofHex (s : String) : Option Bytes := if s == "-" || s == "" then some [] else ofHexChars s.toList

def ofString (s : String) : Bytes := s.toUTF8.toList
/-- lossy display only -/
def toStringLossy (b : Bytes) : String := String.ofList (b.map (fun c => Char.ofNat c.toNat))

/-- `strings.IndexByte`: position of the first `c`, if any -/
def indexOf (c : UInt8) : Bytes → Option Nat
  | [] => none
  | b :: bs => if b = c then some 0 else (indexOf c bs).map (· + 1)

/-- `strings.LastIndexByte` -/
def lastIndexOf (c : UInt8) (s : Bytes) : Option Nat :=
  match indexOf c s.reverse with
  | none => none
  | some i => some (s.length - 1 - i)

/-- `strings.HasPrefix` -/
def hasPrefix : Bytes → Bytes → Bool
  | _, [] => true
  | [], _ :: _ => false
  | a :: as, b :: bs => a == b && hasPrefix as bs

/-- `strings.HasSuffix` -/
def hasSuffix (s suf : Bytes) : Bool := hasPrefix s.reverse suf.reverse

/-- `strings.Split(s, sep)` for a one-byte separator -/
def splitOn (c : UInt8) : Bytes → List Bytes
  | [] => [[]]
  | b :: bs =>
    match splitOn c bs with
    | [] => [[]]   -- unreachable
    | w :: ws => if b = c then [] :: w :: ws else (b :: w) :: ws

/-- `bytes.Index(s, sep)` for a two-byte separator -/
def index2 (c1 c2 : UInt8) : Bytes → Option Nat
  | [] => none
  | [_] => none
  | a :: b :: rest => if a = c1 ∧ b = c2 then some 0 else (index2 c1 c2 (b :: rest)).map (· + 1)

def count (c : UInt8) (s : Bytes) : Nat := (s.filter (· == c)).length

/-- length of the valid UTF-8 sequence at the head of `s` (Go's `utf8.DecodeRune` rules), 0 if
    the first byte does not start one -/
def utf8Len (s : Bytes) : Nat :=
  let cont := fun (x : UInt8) => decide (0x80 ≤ x.toNat ∧ x.toNat ≤ 0xBF)
  match s with
  | [] => 0
  | b :: rest =>
    let n := b.toNat
    if n < 0x80 then 1 else
    match rest with
    | c1 :: r1 =>
      if 0xC2 ≤ n ∧ n ≤ 0xDF ∧ cont c1 then 2 else
      match r1 with
      | c2 :: r2 =>
        let lo3 := if n == 0xE0 then 0xA0 else 0x80
        let hi3 := if n == 0xED then 0x9F else 0xBF
        if 0xE0 ≤ n ∧ n ≤ 0xEF ∧ lo3 ≤ c1.toNat ∧ c1.toNat ≤ hi3 ∧ cont c2 then 3 else
        match r2 with
        | c3 :: _ =>
          let lo4 := if n == 0xF0 then 0x90 else 0x80
          let hi4 := if n == 0xF4 then 0x8F else 0xBF
          if 0xF0 ≤ n ∧ n ≤ 0xF4 ∧ lo4 ≤ c1.toNat ∧ c1.toNat ≤ hi4 ∧ cont c2 ∧ cont c3 then 4 else 0
        | [] => 0
      | [] => 0
    | [] => 0

def jsonRoundTripFuel : Nat → Bytes → Bytes
  | 0, _ => []
  | _ + 1, [] => []
  | f + 1, s =>
    let k := utf8Len s
    if k = 0 then 0xEF :: 0xBF :: 0xBD :: jsonRoundTripFuel f (s.drop 1)
    else s.take k ++ jsonRoundTripFuel f (s.drop k)

/-- what a Go string becomes after `encoding/json` encodes it and a JSON parser decodes it again:
    every byte that is not part of a valid UTF-8 sequence is replaced by U+FFFD -/
def jsonRoundTrip (s : Bytes) : Bytes := jsonRoundTripFuel (s.length + 1) s

end Bytes

def natToString (n : Nat) : String := toString n

end GitSizer
