import GitSizer.Basic.Bytes
/-! Go semantics that matter to the properties: a computation either returns a value, returns an
    `error`, or panics (slice bounds, explicit panic). "Never crashes" is `≠ .panic`. -/
namespace GitSizer

inductive Res (α : Type) where
  | ok (a : α)
  | err (cls : String)
  | panic (cls : String)
deriving Repr, DecidableEq

namespace Res
def bind {α β} (r : Res α) (f : α → Res β) : Res β :=
  match r with
  | .ok a => f a
  | .err c => .err c
  | .panic c => .panic c
instance : Monad Res where
  pure := .ok
  bind := bind
def isPanic {α} : Res α → Bool | .panic _ => true | _ => false
def isOk {α} : Res α → Bool | .ok _ => true | _ => false
end Res

namespace Go

/-- Go's `s[lo:hi]`: panics unless `lo ≤ hi ≤ len(s)` -/
def slice (s : Bytes) (lo hi : Nat) : Res Bytes :=
  if lo ≤ hi ∧ hi ≤ s.length then .ok ((s.take hi).drop lo) else .panic "slice-bounds"
/-- Go's `s[lo:]` -/
def sliceFrom (s : Bytes) (lo : Nat) : Res Bytes :=
  if lo ≤ s.length then .ok (s.drop lo) else .panic "slice-bounds"
/-- Go's `s[:hi]` -/
def sliceTo (s : Bytes) (hi : Nat) : Res Bytes :=
  if hi ≤ s.length then .ok (s.take hi) else .panic "slice-bounds"
/-- Go's `s[i]` -/
def index (s : Bytes) (i : Nat) : Res UInt8 :=
  match s[i]? with
  | some b => .ok b
  | none => .panic "index-out-of-range"

/-- Go's `s[i]` with a signed index (Go's `int`) -/
def indexI (s : Bytes) (i : Int) : Res UInt8 :=
  if i < 0 then .panic "index-out-of-range" else index s i.toNat
/-- Go's `s[lo:hi]` with signed bounds -/
def sliceI (s : Bytes) (lo hi : Int) : Res Bytes :=
  if lo < 0 ∨ hi < 0 then .panic "slice-bounds" else slice s lo.toNat hi.toNat

/-- `strconv.ParseUint(s, base, bits)` for base 8 or 10 given explicitly: digits only (no sign, no
    underscore, no prefix), non-empty, value < 2^bits; otherwise an error. -/
def digitVal (base : Nat) (c : UInt8) : Option Nat :=
  if 48 ≤ c.toNat ∧ c.toNat < 48 + base then some (c.toNat - 48) else none

def parseDigits (base : Nat) : Bytes → Nat → Option Nat
  | [], acc => some acc
  | c :: cs, acc =>
    match digitVal base c with
    | none => none
    | some d => parseDigits base cs (acc * base + d)

def parseUint (s : Bytes) (base bits : Nat) : Option Nat :=
  if s.isEmpty then none else
  match parseDigits base s 0 with
  | none => none
  | some v => if v < 2 ^ bits then some v else none

/-- `hex.DecodeString` followed by the 20-byte length check of `OIDFromBytes` (= `git.NewOID`) -/
def hexNibble (c : UInt8) : Option Nat :=
  let n := c.toNat
  if 48 ≤ n ∧ n ≤ 57 then some (n - 48)
  else if 97 ≤ n ∧ n ≤ 102 then some (n - 87)
  else if 65 ≤ n ∧ n ≤ 70 then some (n - 55)
  else none

def hexDecode : Bytes → Option Bytes
  | [] => some []
  | [_] => none
  | a :: b :: rest => do
    let x ← hexNibble a
    let y ← hexNibble b
    let r ← hexDecode rest
    pure (UInt8.ofNat (16 * x + y) :: r)

def newOID (s : Bytes) : Option Bytes :=
  match hexDecode s with
  | some b => if b.length = 20 then some b else none
  | none => none

/-- `bytes.IndexByte(s, c)`: the position of the first `c`, or -1 -/
def indexByteI (s : Bytes) (c : UInt8) : Int :=
  match Bytes.indexOf c s with
  | some i => (i : Int)
  | none => -1

/-- `strings.LastIndexByte(s, c)`: the position of the last `c`, or -1 -/
def lastIndexByteI (s : Bytes) (c : UInt8) : Int :=
  match Bytes.lastIndexOf c s with
  | some i => (i : Int)
  | none => -1

/-- `bytes.Index(s, sep)`: the position of the first occurrence of `sep`, or -1 -/
def indexSub (sep : Bytes) : Bytes → Option Nat
  | [] => if sep.isEmpty then some 0 else none
  | b :: bs => if Bytes.hasPrefix (b :: bs) sep then some 0 else (indexSub sep bs).map (· + 1)
def indexSubI (s sep : Bytes) : Int :=
  match indexSub sep s with
  | some i => (i : Int)
  | none => -1

/-- the zero value of `git.OID` -/
def zeroOID : Bytes := List.replicate 20 0

/-- `words[i]` for a `[]string` with a signed index -/
def indexL (l : List Bytes) (i : Int) : Res Bytes :=
  if i < 0 then .panic "index-out-of-range" else
  match l[i.toNat]? with
  | some w => .ok w
  | none => .panic "index-out-of-range"
/-- `NewOID(s)` as (value, error) -/
def newOIDR (w : Bytes) : Res Bytes := match newOID w with | some o => .ok o | none => .err "oid"
/-- `strconv.ParseUint(s, base, bits)` as (value, error) -/
def parseUintR (w : Bytes) (base bits : Nat) : Res Nat := match parseUint w base bits with | some v => .ok v | none => .err "size"

end Go
end GitSizer
