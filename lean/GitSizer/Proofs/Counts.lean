import GitSizer.Basic.Sat
import GitSizer.Gen.Counts
set_option linter.unusedSimpArgs false
/-! Obligations on the code REGENERATED from `counts/counts.go` (`Gen.*`): every function is its
    saturating / max specification over `Nat`, for all 2^64 / 2^128 operand pairs. Kernel-checked
    against what the Go source says on this run. -/
namespace GitSizer.Counts
open GitSizer

theorem plus32_spec (a b : BitVec 32) :
    (Gen.Count32.Plus a b).toNat = sat c32 a.toNat b.toNat := by
  unfold Gen.Count32.Plus sat c32
  have ha := a.isLt; have hb := b.isLt
  simp only [decide_eq_true_eq, BitVec.lt_def, BitVec.toNat_add]
  split
  · next h => simp only [BitVec.toNat_ofNat]; omega
  · next h => simp only [BitVec.toNat_add]; omega

theorem plus64_spec (a b : BitVec 64) :
    (Gen.Count64.Plus a b).toNat = sat c64 a.toNat b.toNat := by
  unfold Gen.Count64.Plus sat c64
  have ha := a.isLt; have hb := b.isLt
  simp only [decide_eq_true_eq, BitVec.lt_def, BitVec.toNat_add]
  split
  · next h => simp only [BitVec.toNat_ofNat]; omega
  · next h => simp only [BitVec.toNat_add]; omega

theorem newCount32_spec (n : BitVec 64) : (Gen.NewCount32 n).toNat = clamp c32 n.toNat := by
  unfold Gen.NewCount32 clamp c32
  have hn := n.isLt
  simp only [gt_iff_lt, decide_eq_true_eq, BitVec.lt_def, BitVec.toNat_ofNat]
  split
  · next h => simp only [BitVec.toNat_ofNat]; omega
  · next h => simp only [BitVec.toNat_setWidth]; omega

theorem newCount64_spec (n : BitVec 64) : (Gen.NewCount64 n).toNat = clamp c64 n.toNat := by
  unfold Gen.NewCount64 clamp c64; have := n.isLt; omega

theorem increment32_spec (a b : BitVec 32) :
    (Gen.Count32.Increment a b).toNat = sat c32 a.toNat b.toNat := by
  unfold Gen.Count32.Increment; exact plus32_spec a b

theorem increment64_spec (a b : BitVec 64) :
    (Gen.Count64.Increment a b).toNat = sat c64 a.toNat b.toNat := by
  unfold Gen.Count64.Increment; exact plus64_spec a b

/-- the overflow flag is raised exactly at the capacity, and the value is passed through -/
theorem toUint64_32_spec (n : BitVec 32) :
    (Gen.Count32.ToUint64 n).1.toNat = n.toNat ∧ ((Gen.Count32.ToUint64 n).2 = true ↔ n.toNat = c32) := by
  unfold Gen.Count32.ToUint64 c32
  have := n.isLt
  refine ⟨by simp only [BitVec.toNat_setWidth]; omega, ?_⟩
  simp only [decide_eq_true_eq]
  constructor
  · intro h; rw [h]; rfl
  · intro h; apply BitVec.eq_of_toNat_eq; rw [h]; rfl

theorem toUint64_64_spec (n : BitVec 64) :
    (Gen.Count64.ToUint64 n).1 = n ∧ ((Gen.Count64.ToUint64 n).2 = true ↔ n.toNat = c64) := by
  unfold Gen.Count64.ToUint64 c64
  refine ⟨rfl, ?_⟩
  simp only [decide_eq_true_eq]
  constructor
  · intro h; rw [h]; rfl
  · intro h; apply BitVec.eq_of_toNat_eq; rw [h]; rfl

/-- both AdjustMax variants compute the maximum … -/
theorem adjustNec32_val (a b : BitVec 32) :
    (Gen.Count32.AdjustMaxIfNecessary a b).1.toNat = max a.toNat b.toNat := by
  unfold Gen.Count32.AdjustMaxIfNecessary
  simp only [decide_eq_true_eq, BitVec.le_def]
  split <;> simp only <;> omega
/-- … and report exactly "strictly greater" -/
theorem adjustNec32_flag (a b : BitVec 32) :
    (Gen.Count32.AdjustMaxIfNecessary a b).2 = true ↔ a.toNat < b.toNat := by
  unfold Gen.Count32.AdjustMaxIfNecessary
  simp only [decide_eq_true_eq, BitVec.le_def]
  split <;> simp <;> omega

theorem adjustPos32_val (a b : BitVec 32) :
    (Gen.Count32.AdjustMaxIfPossible a b).1.toNat = max a.toNat b.toNat := by
  unfold Gen.Count32.AdjustMaxIfPossible
  simp only [decide_eq_true_eq, BitVec.lt_def]
  split <;> simp only <;> omega
/-- `Count32.AdjustMaxIfPossible` reports "greater or equal" -/
theorem adjustPos32_flag (a b : BitVec 32) :
    (Gen.Count32.AdjustMaxIfPossible a b).2 = true ↔ a.toNat ≤ b.toNat := by
  unfold Gen.Count32.AdjustMaxIfPossible
  simp only [decide_eq_true_eq, BitVec.lt_def]
  split <;> simp <;> omega

theorem adjustNec64_val (a b : BitVec 64) :
    (Gen.Count64.AdjustMaxIfNecessary a b).1.toNat = max a.toNat b.toNat := by
  unfold Gen.Count64.AdjustMaxIfNecessary
  simp only [decide_eq_true_eq, BitVec.le_def]
  split <;> simp only <;> omega
theorem adjustNec64_flag (a b : BitVec 64) :
    (Gen.Count64.AdjustMaxIfNecessary a b).2 = true ↔ a.toNat < b.toNat := by
  unfold Gen.Count64.AdjustMaxIfNecessary
  simp only [decide_eq_true_eq, BitVec.le_def]
  split <;> simp <;> omega

/-- `Count64.AdjustMaxIfPossible` still computes the maximum (its flag is "strictly greater" in
    the source, DESIGN §9 F14; the program never uses it, so only the value is an obligation). -/
theorem adjustPos64_val (a b : BitVec 64) :
    (Gen.Count64.AdjustMaxIfPossible a b).1.toNat = max a.toNat b.toNat := by
  unfold Gen.Count64.AdjustMaxIfPossible
  simp only [decide_eq_true_eq, BitVec.le_def, BitVec.lt_def]
  split <;> simp only <;> omega

end GitSizer.Counts
