import GitSizer.Proofs.HumanFloat3
/-! Monotonicity of the rendered magnitude: n₁ ≤ n₂ < 2^64 ⇒ value(rendering n₁) ≤ value(rendering n₂),
    across changes of prefix and of the number of decimals. -/
namespace GitSizer.Human

/-- the magnitude a rendering denotes, as a fraction (numerator, denominator) -/
def Num.frac : Num → Nat × Nat
  | .exact n => (n, 1)
  | .scaled m d pfx => (m * pfx.2, 10 ^ d)

/-- a ≤ b as magnitudes (cross-multiplied) -/
def Num.le (a b : Num) : Prop := a.frac.1 * b.frac.2 ≤ b.frac.1 * a.frac.2

instance (a b : Num) : Decidable (Num.le a b) := by unfold Num.le; exact inferInstance

theorem formatNum_mono {t : List Prefix} (ok : TableOK t) (n1 n2 : Nat) (h12 : n1 ≤ n2)
    (hn : n2 < 2 ^ 64) : Num.le (formatNum t n1) (formatNum t n2) := by
  have hn1 : n1 < 2 ^ 64 := by omega
  obtain ⟨hmem1, hpos1, hw1, hle1, hmax1⟩ := selectPrefix_spec ok.wf n1
  obtain ⟨hmem2, hpos2, hw2, hle2, hmax2⟩ := selectPrefix_spec ok.wf n2
  by_cases e1 : (selectPrefix t n1).2.2 = 1
  · rw [formatNum_exact t n1 e1]
    by_cases e2 : (selectPrefix t n2).2.2 = 1
    · rw [formatNum_exact t n2 e2]; unfold Num.le Num.frac; simpa using h12
    · rw [formatNum_scaled t n2 e2]
      obtain ⟨b1, _⟩ := scaled_bracket ok n2 hn e2
      obtain ⟨_, _, hw1', _, _, _, _⟩ := select_facts ok n2 hn e2
      -- n1 is below the multiplier chosen for n2
      have hlt : n1 < (selectPrefix t n2).2.2 := by
        by_contra hc
        have := hmax1 _ hmem2 (by omega); omega
      unfold Num.le Num.frac
      simp only [Nat.mul_one]
      generalize numeral n2 (selectPrefix t n2).2.2 (decimals (selectPrefix t n2).1) = m2 at *
      generalize (selectPrefix t n2).2.2 = P2 at *
      generalize (selectPrefix t n2).1 = w2 at *
      generalize 10 ^ decimals w2 = D at *
      have : 1 * D ≤ w2 * D := Nat.mul_le_mul_right _ hw1'
      calc n1 * D ≤ P2 * D := Nat.mul_le_mul_right _ (by omega)
        _ = D * P2 := Nat.mul_comm _ _
        _ ≤ m2 * P2 := Nat.mul_le_mul_right _ (by omega)
  · have hP1n : (selectPrefix t n1).2.2 ≤ n1 := hle1.resolve_right e1
    have hP12 : (selectPrefix t n1).2.2 ≤ (selectPrefix t n2).2.2 := hmax2 _ hmem1 (by omega)
    have e2 : (selectPrefix t n2).2.2 ≠ 1 := by omega
    rw [formatNum_scaled t n1 e1, formatNum_scaled t n2 e2]
    obtain ⟨_, b1hi⟩ := scaled_bracket ok n1 hn1 e1
    obtain ⟨b2lo, _⟩ := scaled_bracket ok n2 hn e2
    obtain ⟨_, hM1, hw11, hlo1, hhi1, _, _⟩ := select_facts ok n1 hn1 e1
    obtain ⟨_, hM2, hw21, hlo2, hhi2, _, _⟩ := select_facts ok n2 hn e2
    unfold Num.le Num.frac
    simp only
    rcases Nat.lt_or_ge (selectPrefix t n1).2.2 (selectPrefix t n2).2.2 with hlt | hge
    · -- a larger prefix: separated by the larger multiplier itself
      obtain ⟨k, hk⟩ := ok.dvd _ hmem1 _ hmem2 hP12
      have hn1lt : n1 < (selectPrefix t n2).2.2 := by
        by_contra hc
        have := hmax1 _ hmem2 (by omega); omega
      generalize numeral n1 (selectPrefix t n1).2.2 (decimals (selectPrefix t n1).1) = m1 at *
      generalize numeral n2 (selectPrefix t n2).2.2 (decimals (selectPrefix t n2).1) = m2 at *
      generalize (selectPrefix t n1).2.2 = P1 at *
      generalize (selectPrefix t n2).2.2 = P2 at *
      generalize (selectPrefix t n1).1 = w1 at *
      generalize (selectPrefix t n2).1 = w2 at *
      generalize 10 ^ decimals w1 = D1 at *
      generalize 10 ^ decimals w2 = D2 at *
      subst hk
      -- w1 + 1 ≤ k
      have hwk : w1 + 1 ≤ k := by
        by_contra hc
        have : k ≤ w1 := by omega
        have : k * P1 ≤ w1 * P1 := Nat.mul_le_mul_right _ this
        have : P1 * k = k * P1 := Nat.mul_comm _ _
        omega
      have s1 : m1 ≤ k * D1 := le_trans b1hi (Nat.mul_le_mul_right _ hwk)
      have s2 : D2 ≤ m2 := by
        have : 1 * D2 ≤ w2 * D2 := Nat.mul_le_mul_right _ hw21
        omega
      calc m1 * P1 * D2 ≤ k * D1 * P1 * D2 := by
            apply Nat.mul_le_mul_right; apply Nat.mul_le_mul_right; exact s1
        _ = D2 * (P1 * k) * D1 := by ring
        _ ≤ m2 * (P1 * k) * D1 := by
            apply Nat.mul_le_mul_right; apply Nat.mul_le_mul_right; exact s2
    · -- the same prefix
      have hPeq : (selectPrefix t n1).2.2 = (selectPrefix t n2).2.2 := by omega
      have hw12 : (selectPrefix t n1).1 ≤ (selectPrefix t n2).1 := by
        rw [hw1, hw2, hPeq]; exact Nat.div_le_div_right h12
      rcases Nat.lt_or_ge (selectPrefix t n1).1 (selectPrefix t n2).1 with hwlt | hwge
      · generalize numeral n1 (selectPrefix t n1).2.2 (decimals (selectPrefix t n1).1) = m1 at *
        generalize numeral n2 (selectPrefix t n2).2.2 (decimals (selectPrefix t n2).1) = m2 at *
        rw [← hPeq]
        generalize (selectPrefix t n1).2.2 = P1 at *
        generalize (selectPrefix t n1).1 = w1 at *
        generalize (selectPrefix t n2).1 = w2 at *
        generalize 10 ^ decimals w1 = D1 at *
        generalize 10 ^ decimals w2 = D2 at *
        have s1 : m1 ≤ w2 * D1 := le_trans b1hi (Nat.mul_le_mul_right _ (by omega))
        calc m1 * P1 * D2 ≤ w2 * D1 * P1 * D2 := by
              apply Nat.mul_le_mul_right; apply Nat.mul_le_mul_right; exact s1
          _ = w2 * D2 * P1 * D1 := by ring
          _ ≤ m2 * P1 * D1 := by
              apply Nat.mul_le_mul_right; apply Nat.mul_le_mul_right; exact b2lo
      · have hweq : (selectPrefix t n1).1 = (selectPrefix t n2).1 := by omega
        have hpos : 0 < n1 := by have := hM1.pos; omega
        have := numeral_mono n1 n2 (selectPrefix t n1).2.2 (decimals (selectPrefix t n1).1) hpos h12 hM1
        rw [← hPeq, ← hweq]
        apply Nat.mul_le_mul_right; apply Nat.mul_le_mul_right; exact this

end GitSizer.Human
