import GitSizer.Proofs.Counts
import GitSizer.Model.Graph
import GitSizer.Gen.Sizes
import GitSizer.Proofs.Agg.P6
set_option linter.unusedSimpArgs false
/-! Obligations on the code REGENERATED from sizes/sizes.go: every `add*` method is
    `s ⊔ contribution` in the saturating `TreeSize` algebra, that algebra is a commutative monoid,
    and `clamp` is a homomorphism onto it from the true values over `Nat`. -/
namespace GitSizer.Graph
open GitSizer GitSizer.Spec GitSizer.Counts Gen

/-- the `Nat` view of a machine `TreeSize` -/
def toTN (s : TreeSize) : TN :=
  ⟨s.MaxPathDepth.toNat, s.MaxPathLength.toNat, s.ExpandedTreeCount.toNat, s.ExpandedBlobCount.toNat,
   s.ExpandedBlobSize.toNat, s.ExpandedLinkCount.toNat, s.ExpandedSubmoduleCount.toNat⟩

theorem toTN_inj {a b : TreeSize} (h : toTN a = toTN b) : a = b := by
  cases a; cases b
  simp only [toTN, TN.mk.injEq] at h
  obtain ⟨h1, h2, h3, h4, h5, h6, h7⟩ := h
  simp only [TreeSize.mk.injEq]
  exact ⟨BitVec.eq_of_toNat_eq h1, BitVec.eq_of_toNat_eq h2, BitVec.eq_of_toNat_eq h3, BitVec.eq_of_toNat_eq h4,
         BitVec.eq_of_toNat_eq h5, BitVec.eq_of_toNat_eq h6, BitVec.eq_of_toNat_eq h7⟩

/-- every machine value is within its capacities -/
def Bounded (a : TN) : Prop :=
  a.depth ≤ c32 ∧ a.len ≤ c32 ∧ a.trees ≤ c32 ∧ a.blobs ≤ c32 ∧ a.bsize ≤ c64 ∧ a.links ≤ c32 ∧ a.subs ≤ c32

theorem toTN_bounded (s : TreeSize) : Bounded (toTN s) := by
  unfold Bounded toTN c32 c64
  have h1 := s.MaxPathDepth.isLt; have h2 := s.MaxPathLength.isLt; have h3 := s.ExpandedTreeCount.isLt
  have h4 := s.ExpandedBlobCount.isLt; have h5 := s.ExpandedBlobSize.isLt; have h6 := s.ExpandedLinkCount.isLt
  have h7 := s.ExpandedSubmoduleCount.isLt
  simp only; omega

/-- the saturating algebra over `Nat` -/
def opS (a b : TN) : TN :=
  ⟨max a.depth b.depth, max a.len b.len, sat c32 a.trees b.trees, sat c32 a.blobs b.blobs, sat c64 a.bsize b.bsize,
   sat c32 a.links b.links, sat c32 a.subs b.subs⟩

def descS (nm : Nat) (s : TN) : TN :=
  ⟨sat c32 s.depth 1, if s.len > 0 then sat c32 ((clamp c32 nm + 1) % 2^32) s.len else clamp c32 nm,
   s.trees, s.blobs, s.bsize, s.links, s.subs⟩

theorem toTN_op (a b : TreeSize) : toTN (TS.op a b) = opS (toTN a) (toTN b) := by
  simp only [TS.op, toTN, opS, adjustNec32_val, increment32_spec, increment64_spec]

theorem nameLen32_toNat (nm : Nat) (h : nm < 2^64) : (nameLen32 nm).toNat = clamp c32 nm := by
  unfold nameLen32
  rw [newCount32_spec]
  simp [BitVec.toNat_ofNat, Nat.mod_eq_of_lt h]

theorem toTN_desc (nm : Nat) (h : nm < 2^64) (s : TreeSize) : toTN (TS.desc nm s) = descS nm (toTN s) := by
  have h1 : (1#32).toNat = 1 := rfl
  by_cases hl : s.MaxPathLength > 0#32
  · have hl' : s.MaxPathLength.toNat > 0 := by
      have := BitVec.lt_def.mp hl; simpa using this
    simp only [TS.desc, toTN, descS, plus32_spec, hl, if_true, hl', BitVec.toNat_add, nameLen32_toNat nm h, h1]
  · have hl' : ¬ s.MaxPathLength.toNat > 0 := by
      intro hc; apply hl; apply BitVec.lt_def.mpr; simpa using hc
    simp only [TS.desc, toTN, descS, plus32_spec, hl, if_false, hl', nameLen32_toNat nm h, h1]

/-! ### the generated methods are `⊔ contribution` -/

theorem addDescendent_eq (s : TreeSize) (name : List UInt8) (s2 : TreeSize) :
    TreeSize.addDescendent s name s2 = TS.op s (TS.desc name.length s2) := by
  apply toTN_inj
  rw [toTN_op]
  unfold TreeSize.addDescendent
  by_cases hl : s2.MaxPathLength > 0#32
  · simp only [hl, decide_true, if_true, toTN, opS, TS.desc, adjustNec32_val, increment32_spec, increment64_spec, nameLen32]
  · simp only [hl, decide_false, Bool.false_eq_true, if_false, toTN, opS, TS.desc, adjustNec32_val, increment32_spec, increment64_spec, nameLen32]

/-- contribution of a file / symlink / submodule entry -/
def blobC (nm : Nat) (sz : BitVec 64) : TreeSize :=
  { MaxPathDepth := 1#32, MaxPathLength := nameLen32 nm, ExpandedBlobCount := 1#32, ExpandedBlobSize := sz }
def linkC (nm : Nat) : TreeSize := { MaxPathDepth := 1#32, MaxPathLength := nameLen32 nm, ExpandedLinkCount := 1#32 }
def subC (nm : Nat) : TreeSize := { MaxPathDepth := 1#32, MaxPathLength := nameLen32 nm, ExpandedSubmoduleCount := 1#32 }

theorem sat_zero32 (a : BitVec 32) : sat c32 a.toNat (0#32).toNat = a.toNat := by
  have := a.isLt; simp [sat, c32]; omega
theorem sat_zero64 (a : BitVec 64) : sat c64 a.toNat (0#64).toNat = a.toNat := by
  have := a.isLt; simp [sat, c64]; omega

theorem addBlob_eq (s : TreeSize) (name : List UInt8) (b : BlobSize) :
    TreeSize.addBlob s name b = TS.op s (blobC name.length b.Size) := by
  apply toTN_inj
  rw [toTN_op]
  simp only [TreeSize.addBlob, toTN, opS, blobC, adjustNec32_val, increment32_spec, increment64_spec, nameLen32,
    sat_zero32, TN.mk.injEq, and_self, and_true, true_and]

theorem addLink_eq (s : TreeSize) (name : List UInt8) :
    TreeSize.addLink s name = TS.op s (linkC name.length) := by
  apply toTN_inj
  rw [toTN_op]
  simp only [TreeSize.addLink, toTN, opS, linkC, adjustNec32_val, increment32_spec, nameLen32,
    sat_zero32, sat_zero64, TN.mk.injEq, and_self, and_true, true_and]

theorem addSubmodule_eq (s : TreeSize) (name : List UInt8) :
    TreeSize.addSubmodule s name = TS.op s (subC name.length) := by
  apply toTN_inj
  rw [toTN_op]
  simp only [TreeSize.addSubmodule, toTN, opS, subC, adjustNec32_val, increment32_spec, nameLen32,
    sat_zero32, sat_zero64, TN.mk.injEq, and_self, and_true, true_and]

/-! ### commutative monoid -/

theorem lawsB (r : Repo) : Agg.Laws (PB r) := by
  refine ⟨?_, ?_, ?_⟩
  · intro a b; apply toTN_inj
    show toTN (TS.op a b) = toTN (TS.op b a)
    simp only [toTN_op, opS, TN.mk.injEq, Nat.max_comm, sat_comm, and_self]
  · intro a b c; apply toTN_inj
    show toTN (TS.op (TS.op a b) c) = toTN (TS.op a (TS.op b c))
    simp only [toTN_op, opS, TN.mk.injEq, Nat.max_assoc, sat_assoc, and_self]
  · intro a; apply toTN_inj
    show toTN (TS.op TS.unit a) = toTN a
    have hb := toTN_bounded a
    simp only [toTN_op, opS]
    obtain ⟨h1, h2, h3, h4, h5, h6, h7⟩ := hb
    simp only [toTN, TS.unit, TN.mk.injEq] at *
    refine ⟨by simp, by simp, ?_, ?_, ?_, ?_, ?_⟩ <;> simp [sat] <;> omega

end GitSizer.Graph
