import GitSizer.Proofs.GraphRun4
/-! Whole-run theorem, part 5: closed forms of the history folds (counts, saturating sums, maxima
    over the recorded objects), independent of the order of recording. -/
namespace GitSizer.Graph
open GitSizer GitSizer.Spec Gen

theorem maxList_cons (x : Nat) (xs : List Nat) : maxList (x :: xs) = max x (maxList xs) := by
  unfold maxList
  simp only [List.foldl_cons]
  rw [foldl_max_start xs (max 0 x)]
  omega

theorem sat_clamp_one (c n : Nat) : sat c (clamp c n) 1 = clamp c (n + 1) := by unfold sat clamp; omega
theorem sat_clamp_add (c n x : Nat) : sat c (clamp c n) x = clamp c (n + x) := by unfold sat clamp; omega

theorem foldB_closed (f : Nat → Nat) : ∀ (L : List Nat) (n s m : Nat),
    L.foldl (fun a o => stepB a (f o)) [clamp c32 n, clamp c64 s, m] =
      [clamp c32 (n + L.length), clamp c64 (s + (L.map f).sum), max m (maxList (L.map (fun o => clamp c32 (f o))))] := by
  intro L
  induction L with
  | nil => intro n s m; simp [maxList]
  | cons x xs ih =>
    intro n s m
    rw [List.foldl_cons]
    have hs : stepB [clamp c32 n, clamp c64 s, m] (f x) = [clamp c32 (n + 1), clamp c64 (s + f x), max m (clamp c32 (f x))] := by
      simp only [stepB, sat_clamp_one, sat_clamp_add]
    rw [hs, ih]
    simp only [List.length_cons, List.map_cons, List.sum_cons, maxList_cons]
    congr 1
    · congr 1; omega
    · congr 1
      · congr 1; omega
      · congr 1; omega

theorem foldC_closed (fs fd fp : Nat → Nat) : ∀ (L : List Nat) (n s m d p : Nat),
    L.foldl (fun a c => stepC a (fs c) (fd c) (fp c)) [clamp c32 n, clamp c64 s, m, d, p] =
      [clamp c32 (n + L.length), clamp c64 (s + (L.map fs).sum), max m (maxList (L.map fs)),
       max d (maxList (L.map fd)), max p (maxList (L.map fp))] := by
  intro L
  induction L with
  | nil => intro n s m d p; simp [maxList]
  | cons x xs ih =>
    intro n s m d p
    rw [List.foldl_cons]
    have hs : stepC [clamp c32 n, clamp c64 s, m, d, p] (fs x) (fd x) (fp x) =
        [clamp c32 (n + 1), clamp c64 (s + fs x), max m (fs x), max d (fd x), max p (fp x)] := by
      simp only [stepC, sat_clamp_one, sat_clamp_add]
    rw [hs, ih]
    simp only [List.length_cons, List.map_cons, List.sum_cons, maxList_cons]
    refine List.cons_eq_cons.mpr ⟨by congr 1; omega, List.cons_eq_cons.mpr ⟨by congr 1; omega, ?_⟩⟩
    refine List.cons_eq_cons.mpr ⟨by omega, List.cons_eq_cons.mpr ⟨by omega, List.cons_eq_cons.mpr ⟨by omega, rfl⟩⟩⟩

theorem foldG_closed (fd : Nat → Nat) : ∀ (L : List Nat) (n d : Nat),
    L.foldl (fun a g => stepG a (fd g)) [clamp c32 n, d] = [clamp c32 (n + L.length), max d (maxList (L.map fd))] := by
  intro L
  induction L with
  | nil => intro n d; simp [maxList]
  | cons x xs ih =>
    intro n d
    rw [List.foldl_cons]
    have hs : stepG [clamp c32 n, d] (fd x) = [clamp c32 (n + 1), max d (fd x)] := by
      simp only [stepG, sat_clamp_one]
    rw [hs, ih]
    simp only [List.length_cons, List.map_cons, maxList_cons]
    refine List.cons_eq_cons.mpr ⟨by congr 1; omega, List.cons_eq_cons.mpr ⟨by omega, rfl⟩⟩

theorem foldT_closed (ft : Nat → TN) (fs fe : Nat → Nat) : ∀ (L : List Nat) (n s e me d l tc bc bs lc sc : Nat),
    L.foldl (fun a t => stepT a (ft t) (fs t) (fe t)) [clamp c32 n, clamp c64 s, clamp c64 e, me, d, l, tc, bc, bs, lc, sc] =
      [clamp c32 (n + L.length), clamp c64 (s + (L.map fs).sum), clamp c64 (e + (L.map fe).sum),
       max me (maxList (L.map fe)),
       max d (maxList (L.map fun t => (ft t).depth)), max l (maxList (L.map fun t => (ft t).len)),
       max tc (maxList (L.map fun t => (ft t).trees)), max bc (maxList (L.map fun t => (ft t).blobs)),
       max bs (maxList (L.map fun t => (ft t).bsize)), max lc (maxList (L.map fun t => (ft t).links)),
       max sc (maxList (L.map fun t => (ft t).subs))] := by
  intro L
  induction L with
  | nil => intro n s e me d l tc bc bs lc sc; simp [maxList]
  | cons x xs ih =>
    intro n s e me d l tc bc bs lc sc
    rw [List.foldl_cons]
    have hs : stepT [clamp c32 n, clamp c64 s, clamp c64 e, me, d, l, tc, bc, bs, lc, sc] (ft x) (fs x) (fe x) =
        [clamp c32 (n + 1), clamp c64 (s + fs x), clamp c64 (e + fe x), max me (fe x), max d (ft x).depth, max l (ft x).len,
         max tc (ft x).trees, max bc (ft x).blobs, max bs (ft x).bsize, max lc (ft x).links, max sc (ft x).subs] := by
      simp only [stepT, sat_clamp_one, sat_clamp_add]
    rw [hs, ih]
    simp only [List.length_cons, List.map_cons, List.sum_cons, maxList_cons]
    refine List.cons_eq_cons.mpr ⟨by congr 1; omega, List.cons_eq_cons.mpr ⟨by congr 1; omega, List.cons_eq_cons.mpr ⟨by congr 1; omega, ?_⟩⟩⟩
    refine List.cons_eq_cons.mpr ⟨by omega, List.cons_eq_cons.mpr ⟨by omega, List.cons_eq_cons.mpr ⟨by omega, List.cons_eq_cons.mpr ⟨by omega, ?_⟩⟩⟩⟩
    refine List.cons_eq_cons.mpr ⟨by omega, List.cons_eq_cons.mpr ⟨by omega, List.cons_eq_cons.mpr ⟨by omega, List.cons_eq_cons.mpr ⟨by omega, rfl⟩⟩⟩⟩

theorem zeros_clamped3 : zeros 3 = [clamp c32 0, clamp c64 0, 0] := by simp [zeros, clamp]
theorem zeros_clamped5 : zeros 5 = [clamp c32 0, clamp c64 0, 0, 0, 0] := by simp [zeros, clamp]
theorem zeros_clamped2 : zeros 2 = [clamp c32 0, 0] := by simp [zeros, clamp]
theorem zeros_clamped11 : zeros 11 = [clamp c32 0, clamp c64 0, clamp c64 0, 0, 0, 0, 0, 0, 0, 0, 0] := by simp [zeros, clamp]

end GitSizer.Graph
