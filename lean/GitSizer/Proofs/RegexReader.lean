import GitSizer.Proofs.Regex
/-! # The reader is compositional at a closing parenthesis

`Reads p r` — with enough fuel the RE2 reader of `Model/Regex` reads the whole of `p` as `r` (no case folding).
`reads_wrapped`: then it reads the TEXT `"^(?:" ++ p ++ ")$"` — what `git.RegexpFilter` hands to
`regexp.Compile` — as `seq bol (seq r (seq eol eps))`; with `Proofs/Regex.search_anchored_group_iff` a search
for that expression succeeds exactly on the names that `r` matches entirely. -/
namespace GitSizer.Regex

/-- a suffix that starts with `)` -/
abbrev Close (u : Bytes) : Prop := ∃ t, u = 41 :: t

theorem digits_append (u : Bytes) (hu : Close u) : ∀ (f : Nat) (s : Bytes) (n k : Nat),
    digits f (s ++ u) n k = ((digits f s n k).1, (digits f s n k).2.1, (digits f s n k).2.2 ++ u) := by
  obtain ⟨t, rfl⟩ := hu
  intro f
  induction f with
  | zero => intro s n k; simp [digits]
  | succ f ih =>
    intro s n k
    cases s with
    | nil => simp [digits]
    | cons c rest =>
      simp only [List.cons_append, digits]
      by_cases hc : (48 ≤ c && c ≤ 57) = true
      · simp only [hc, if_true]; exact ih rest _ _
      · simp only [hc]; simp

theorem pCount_append (u : Bytes) (hu : Close u) (s : Bytes) :
    pCount (s ++ u) = (pCount s).map (Option.map (fun x => (x.1, x.2.1, x.2.2 ++ u))) := by
  have hd := digits_append u hu
  obtain ⟨t, rfl⟩ := hu
  unfold pCount
  simp only [hd]
  generalize digits 5 s 0 0 = d
  obtain ⟨n, k, rest⟩ := d
  simp only
  by_cases hk : (k == 0) = true
  · simp [hk]
  · simp only [hk]
    cases rest with
    | nil => simp
    | cons c rest' =>
      by_cases h125 : c = 125
      · subst h125
        simp only [List.cons_append]
        split <;> (try split) <;> simp_all
      · by_cases h44 : c = 44
        · subst h44
          cases rest' with
          | nil =>
            simp [digits]
          | cons c2 rest'' =>
            by_cases h2 : c2 = 125
            · subst h2
              simp only [List.cons_append]
              split <;> (try split) <;> simp_all
            · have e1 : ∀ (x : Bytes), (44 :: c2 :: rest'') ++ x = 44 :: ((c2 :: rest'') ++ x) := fun _ => rfl
              rw [e1]
              generalize hr1 : c2 :: rest'' = rest1
              have hne : ∀ r', rest1 ≠ 125 :: r' := by
                intro r' h; rw [← hr1] at h; injection h with h _; exact h2 h
              have hne' : ∀ r', rest1 ++ 41 :: t ≠ 125 :: r' := by
                intro r' h; rw [← hr1] at h; injection h with h _; exact h2 h
              simp only [Bool.false_eq_true, if_false]
              simp only [hd]
              generalize digits 5 rest1 0 0 = d2
              obtain ⟨m, k2, rest2⟩ := d2
              simp only
              by_cases hk2 : (k2 == 0) = true
              · simp [hk2]
              · simp only [hk2]
                cases rest2 with
                | nil => simp
                | cons c3 r3 =>
                  by_cases h3 : c3 = 125
                  · subst h3
                    simp only [List.cons_append]
                    split <;> (try split) <;> simp_all
                  · simp only [List.cons_append, Bool.false_eq_true, if_false]
                    split
                    · rename_i heq3; injection heq3 with h _; exact absurd h h3
                    · split
                      · rename_i heq3; injection heq3 with h _; exact absurd h h3
                      · simp
        · simp only [List.cons_append, Bool.false_eq_true, if_false]
          split
          · rename_i heq; injection heq with h _; exact absurd h h125
          · rename_i heq; injection heq with h _; exact absurd h h44
          · rename_i heq; injection heq with h _; exact absurd h h44
          · split
            · rename_i heq; injection heq with h _; exact absurd h h125
            · rename_i heq; injection heq with h _; exact absurd h h44
            · rename_i heq; injection heq with h _; exact absurd h h44
            · simp

theorem startsRepeat_close (u : Bytes) (hu : Close u) : startsRepeat u = false := by
  obtain ⟨t, rfl⟩ := hu
  simp [startsRepeat, isQuant]

theorem startsRepeat_append (u : Bytes) (hu : Close u) (s : Bytes) (hs : s ≠ []) :
    startsRepeat (s ++ u) = startsRepeat s := by
  cases s with
  | nil => exact absurd rfl hs
  | cons c rest =>
    by_cases hc : c = 123
    · subst hc
      simp only [List.cons_append, startsRepeat, pCount_append u hu]
      cases pCount rest <;> simp
    · simp only [List.cons_append]
      rw [startsRepeat, startsRepeat]
      all_goals (intro h; exact hc h)

theorem classChar_append (u : Bytes) (s : Bytes) (c : UInt8) (rest : Bytes) (h : classChar s = some (c, rest)) :
    classChar (s ++ u) = some (c, rest ++ u) := by
  unfold classChar at h ⊢
  cases s with
  | nil => simp at h
  | cons a s' =>
    by_cases ha : a = 92
    · subst ha
      cases s' with
      | nil => simp at h
      | cons b s'' =>
        simp only [List.cons_append] at h ⊢
        cases hb : escByte b with
        | none => simp [hb] at h
        | some v =>
          simp only [hb, Option.map_some, Option.some.injEq, Prod.mk.injEq] at h ⊢
          exact ⟨h.1, by rw [h.2]⟩
    · simp only [List.cons_append]
      split at h
      · cases h
      · rename_i heq; injection heq with h1 _; exact absurd h1 ha
      · rename_i heq; injection heq with h1 _; exact absurd h1 ha
      · rename_i c' rest' _ _ heq
        injection heq with h1 h2
        subst h1; subst h2
        split
        · rename_i heq'; cases heq'
        · rename_i heq'; injection heq' with h1 _; exact absurd h1 ha
        · rename_i heq'; injection heq' with h1 _; exact absurd h1 ha
        · rename_i heq'
          injection heq' with h1 h2
          subst h1; subst h2
          by_cases hcc : (a ≥ 128 || a == 91) = true
          · simp [hcc] at h
          · simp only [hcc] at h ⊢
            simp only [Bool.false_eq_true, if_false, Option.some.injEq, Prod.mk.injEq] at h ⊢
            exact ⟨h.1, by rw [h.2]⟩

theorem classTail_append (u : Bytes)
    (k k' : Bytes → List (UInt8 × UInt8) → Option (List (UInt8 × UInt8) × Bytes))
    (hk0 : ∀ acc, k [] acc = none)
    (hk : ∀ s acc rs rest, k s acc = some (rs, rest) → k' (s ++ u) acc = some (rs, rest ++ u))
    (lo : UInt8) (rest1 : Bytes) (acc rs : List (UInt8 × UInt8)) (rest : Bytes)
    (h : classTail k lo rest1 acc = some (rs, rest)) :
    classTail k' lo (rest1 ++ u) acc = some (rs, rest ++ u) := by
  cases rest1 with
  | nil => simp [classTail, hk0] at h
  | cons a r1 =>
    by_cases ha : a = 45
    · subst ha
      cases r1 with
      | nil => simp [classTail, classChar] at h
      | cons b r2 =>
        by_cases hb : b = 93
        · subst hb
          simp only [classTail, List.cons_append] at h ⊢
          exact hk _ _ _ _ h
        · have e : classTail k lo (45 :: b :: r2) acc =
              (match classChar (b :: r2) with
               | some (hi, rest3) => if lo ≤ hi then k rest3 (acc ++ [(lo, hi)]) else none
               | none => none) := by
            rw [classTail]
            all_goals first | rfl | (intro x hx; injection hx with h1 _; exact hb h1)
          have e' : classTail k' lo (45 :: b :: r2 ++ u) acc =
              (match classChar (b :: r2 ++ u) with
               | some (hi, rest3) => if lo ≤ hi then k' rest3 (acc ++ [(lo, hi)]) else none
               | none => none) := by
            simp only [List.cons_append]
            rw [classTail]
            all_goals first | rfl | (intro x hx; injection hx with h1 _; exact hb h1)
          rw [e] at h
          rw [e']
          cases hc : classChar (b :: r2) with
          | none => simp [hc] at h
          | some p =>
            obtain ⟨hi, rest3⟩ := p
            rw [classChar_append u _ _ _ hc]
            simp only [hc] at h ⊢
            by_cases hle : lo ≤ hi
            · simp only [hle, if_true] at h ⊢
              exact hk _ _ _ _ h
            · simp [hle] at h
    · have e : classTail k lo (a :: r1) acc = k (a :: r1) (acc ++ [(lo, lo)]) := by
        rw [classTail]
        all_goals first | rfl | (intro x hx; injection hx with hx _; exact ha hx)
      have e' : classTail k' lo (a :: r1 ++ u) acc = k' (a :: r1 ++ u) (acc ++ [(lo, lo)]) := by
        simp only [List.cons_append]
        rw [classTail]
        all_goals first | rfl | (intro x hx; injection hx with hx _; exact ha hx)
      rw [e] at h
      rw [e']
      exact hk _ _ _ _ h

theorem classItems_nil (f : Nat) (acc : List (UInt8 × UInt8)) : classItems f [] acc = none := by
  cases f <;> rfl

theorem classItems_append (u : Bytes) : ∀ (f : Nat) (s : Bytes) (acc rs : List (UInt8 × UInt8)) (rest : Bytes),
    classItems f s acc = some (rs, rest) → ∀ f', f ≤ f' → classItems f' (s ++ u) acc = some (rs, rest ++ u) := by
  intro f
  induction f with
  | zero => intro s acc rs rest h; simp [classItems] at h
  | succ f ih =>
    intro s acc rs rest h f' hf
    obtain ⟨g, rfl⟩ : ∃ g, f' = g + 1 := ⟨f' - 1, by omega⟩
    have hfg : f ≤ g := by omega
    have hk : ∀ s acc rs rest, classItems f s acc = some (rs, rest) → classItems g (s ++ u) acc = some (rs, rest ++ u) :=
      fun s acc rs rest h => ih s acc rs rest h g hfg
    cases s with
    | nil => rw [classItems_nil] at h; cases h
    | cons c s1 =>
      by_cases h93 : c = 93
      · subst h93
        simp only [classItems, Option.some.injEq, Prod.mk.injEq, List.cons_append] at h ⊢
        exact ⟨h.1, by rw [h.2]⟩
      · by_cases h92 : c = 92
        · subst h92
          cases s1 with
          | nil =>
            have e : classItems (f + 1) [92] acc = none := by
              rw [classItems]
              · simp [classChar]
              all_goals simp
            rw [e] at h; cases h
          | cons d s2 =>
            by_cases hd : (d == 100 || d == 119 || d == 115) = true
            · simp only [classItems, hd, if_true, List.cons_append] at h ⊢
              cases he : classEscape d with
              | none => simp [he] at h
              | some rs0 =>
                simp only [he] at h ⊢
                exact hk _ _ _ _ h
            · simp only [classItems, hd, List.cons_append] at h ⊢
              simp only [Bool.false_eq_true, if_false] at h ⊢
              cases hc : classChar (92 :: d :: s2) with
              | none => simp [hc] at h
              | some p =>
                obtain ⟨lo, rest1⟩ := p
                have hc' := classChar_append u _ _ _ hc
                simp only [List.cons_append] at hc'
                simp only [hc, hc'] at h ⊢
                exact classTail_append u _ _ (classItems_nil f) hk _ _ _ _ _ h
        · have e : classItems (f + 1) (c :: s1) acc =
              (match classChar (c :: s1) with
               | none => none
               | some (lo, rest1) => classTail (classItems f) lo rest1 acc) := by
            rw [classItems]
            all_goals first | rfl | (intro _ hx; injection hx with hx _; exact absurd hx h93) | (intro _ _ hx; injection hx with hx _; exact absurd hx h92) | (intro hx; cases hx)
          have e' : classItems (g + 1) (c :: s1 ++ u) acc =
              (match classChar (c :: s1 ++ u) with
               | none => none
               | some (lo, rest1) => classTail (classItems g) lo rest1 acc) := by
            simp only [List.cons_append]
            rw [classItems]
            all_goals first | rfl | (intro _ hx; injection hx with hx _; exact absurd hx h93) | (intro _ _ hx; injection hx with hx _; exact absurd hx h92) | (intro hx; cases hx)
          rw [e] at h
          rw [e']
          cases hc : classChar (c :: s1) with
          | none => simp [hc] at h
          | some p =>
            obtain ⟨lo, rest1⟩ := p
            have hc' := classChar_append u _ _ _ hc
            simp only [hc, hc'] at h ⊢
            exact classTail_append u _ _ (classItems_nil f) hk _ _ _ _ _ h

theorem pClassBody_append (u : Bytes) (ci neg : Bool) (s : Bytes) (r : Re) (rest : Bytes)
    (h : pClassBody ci neg s = some (r, rest)) : pClassBody ci neg (s ++ u) = some (r, rest ++ u) := by
  cases s with
  | nil => simp [pClassBody, classItems_nil] at h
  | cons a s1 =>
    by_cases ha : a = 93
    · subst ha; simp [pClassBody] at h
    · have e : ∀ (x : Bytes), pClassBody ci neg (a :: x) =
          (match classItems ((a :: x).length + 1) (a :: x) [] with
           | some (rs, rest) => some (mkCls ci neg rs, rest)
           | none => none) := by
        intro x
        rw [pClassBody]
        all_goals first | rfl | (intro _ hx; injection hx with h1 _; exact absurd h1 ha)
      rw [e] at h
      simp only [List.cons_append]
      rw [e]
      simp only [List.length_cons] at h ⊢
      cases hc : classItems (s1.length + 1 + 1) (a :: s1) [] with
      | none => simp [hc] at h
      | some p =>
        obtain ⟨rs, rest0⟩ := p
        simp only [hc, Option.some.injEq, Prod.mk.injEq] at h
        have := classItems_append u _ _ _ _ _ hc ((s1 ++ u).length + 1 + 1) (by simp)
        simp only [List.cons_append] at this
        simp only [this, Option.some.injEq, Prod.mk.injEq]
        exact ⟨h.1, by rw [h.2]⟩

theorem pClass_append (u : Bytes) (ci : Bool) (s : Bytes) (r : Re) (rest : Bytes)
    (h : pClass ci s = some (r, rest)) : pClass ci (s ++ u) = some (r, rest ++ u) := by
  cases s with
  | nil => simp [pClass, pClassBody, classItems_nil] at h
  | cons a s1 =>
    by_cases ha : a = 94
    · subst ha
      simp only [pClass, List.cons_append] at h ⊢
      exact pClassBody_append u ci true s1 r rest h
    · have e : ∀ (x : Bytes), pClass ci (a :: x) = pClassBody ci false (a :: x) := by
        intro x
        rw [pClass]
        all_goals first | rfl | (intro _ hx; injection hx with h1 _; exact absurd h1 ha)
      rw [e] at h
      simp only [List.cons_append]
      rw [e]
      exact pClassBody_append u ci false (a :: s1) r rest h

theorem stripLazy_append (u : Bytes) (hu : Close u) (r : Bytes) : stripLazy (r ++ u) = stripLazy r ++ u := by
  obtain ⟨t, rfl⟩ := hu
  cases r with
  | nil => simp [stripLazy]
  | cons a r1 =>
    by_cases ha : a = 63
    · subst ha; simp [stripLazy]
    · simp only [List.cons_append]
      rw [stripLazy, stripLazy]
      all_goals first | rfl | (intro _ hx; injection hx with h1 _; exact absurd h1 ha)

theorem startsRepeat_append' (u : Bytes) (hu : Close u) (x : Bytes) : startsRepeat (x ++ u) = startsRepeat x := by
  cases x with
  | nil => rw [List.nil_append, startsRepeat_close u hu]; rfl
  | cons a x1 => exact startsRepeat_append u hu _ (by simp)

theorem groupInner_append (u : Bytes) (hu : Close u) (rest r : Bytes) (h : groupInner rest = some r) :
    groupInner (rest ++ u) = some (r ++ u) := by
  obtain ⟨t, rfl⟩ := hu
  cases rest with
  | nil => simp [groupInner] at h ⊢; rw [← h]
  | cons a r1 =>
    by_cases ha : a = 63
    · subst ha
      cases r1 with
      | nil => simp [groupInner] at h
      | cons b r2 =>
        by_cases hb : b = 58
        · subst hb
          simp only [groupInner, Option.some.injEq, List.cons_append] at h ⊢
          rw [h]
        · exfalso
          rw [groupInner] at h
          · cases h
          · intro _ hx; injection hx with h1 _; exact hb h1
    · simp only [List.cons_append]
      rw [groupInner] at h ⊢
      · simp only [Option.some.injEq] at h ⊢; rw [← h]; rfl
      all_goals first | (intro _ hx; injection hx with h1 _; exact absurd h1 ha)

/-- all four readers, at fuel `f`, are insensitive to a suffix that starts with `)` -/
def ExtAll (u : Bytes) (f : Nat) : Prop :=
  (∀ ci s r rest, pAlt f ci s = some (r, rest) → pAlt f ci (s ++ u) = some (r, rest ++ u)) ∧
  (∀ ci s r rest, pCat f ci s = some (r, rest) → pCat f ci (s ++ u) = some (r, rest ++ u)) ∧
  (∀ ci s r rest, pRep f ci s = some (r, rest) → pRep f ci (s ++ u) = some (r, rest ++ u)) ∧
  (∀ ci s r rest, pAtom f ci s = some (r, rest) → pAtom f ci (s ++ u) = some (r, rest ++ u))

theorem ext_alt (u : Bytes) (hu : Close u) (f : Nat) (ih : ExtAll u f) :
    ∀ ci s r rest, pAlt (f + 1) ci s = some (r, rest) → pAlt (f + 1) ci (s ++ u) = some (r, rest ++ u) := by
  obtain ⟨iA, iC, _, _⟩ := ih
  obtain ⟨t, rfl⟩ := hu
  intro ci s r rest h
  rw [pAlt] at h ⊢
  cases hc : pCat f ci s with
  | none => simp [hc] at h
  | some p =>
    obtain ⟨a, r0⟩ := p
    have hc' := iC ci s a r0 hc
    simp only [hc] at h
    simp only [hc']
    cases r0 with
    | nil =>
      simp only [Option.some.injEq, Prod.mk.injEq] at h
      simp [h.1, ← h.2]
    | cons b r1 =>
      by_cases hb : b = 124
      · subst hb
        simp only [List.cons_append] at h ⊢
        cases hA : pAlt f ci r1 with
        | none => simp [hA] at h
        | some q =>
          obtain ⟨bb, rest'⟩ := q
          simp only [hA, Option.some.injEq, Prod.mk.injEq] at h
          simp only [iA ci r1 bb rest' hA, Option.some.injEq, Prod.mk.injEq]
          exact ⟨h.1, by rw [h.2]⟩
      · simp only [List.cons_append]
        split at h
        · cases h
        · rename_i heq; injection heq with heq; injection heq with _ heq; injection heq with h1 _; exact absurd h1 hb
        · rename_i heq
          injection heq with heq
          injection heq with h1 h2
          subst h1; subst h2
          split
          · rename_i heq'; cases heq'
          · rename_i heq'; injection heq' with heq'; injection heq' with _ heq'; injection heq' with h1 _; exact absurd h1 hb
          · rename_i heq'
            injection heq' with heq'
            injection heq' with h1 h2
            subst h1; subst h2
            simp only [Option.some.injEq, Prod.mk.injEq] at h ⊢
            exact ⟨h.1, by rw [← h.2]; rfl⟩

theorem ext_cat (u : Bytes) (hu : Close u) (f : Nat) (ih : ExtAll u f) :
    ∀ ci s r rest, pCat (f + 1) ci s = some (r, rest) → pCat (f + 1) ci (s ++ u) = some (r, rest ++ u) := by
  obtain ⟨_, iC, iR, _⟩ := ih
  obtain ⟨t, rfl⟩ := hu
  intro ci s r rest h
  cases s with
  | nil =>
    simp only [pCat, Option.some.injEq, Prod.mk.injEq] at h
    simp [pCat, ← h.1, ← h.2]
  | cons c s1 =>
    by_cases h124 : c = 124
    · subst h124
      simp only [pCat, Option.some.injEq, Prod.mk.injEq, List.cons_append] at h ⊢
      exact ⟨h.1, by rw [← h.2]; rfl⟩
    · by_cases h41 : c = 41
      · subst h41
        simp only [pCat, Option.some.injEq, Prod.mk.injEq, List.cons_append] at h ⊢
        exact ⟨h.1, by rw [← h.2]; rfl⟩
      · have e : ∀ (x : Bytes), pCat (f + 1) ci (c :: x) =
            (match pRep f ci (c :: x) with
             | none => none
             | some (a, rest) =>
               match pCat f ci rest with
               | some (b, rest') => some (.seq a b, rest')
               | none => none) := by
          intro x
          rw [pCat]
          all_goals first | rfl | (intro _ hx; injection hx with h1 _; first | exact absurd h1 h124 | exact absurd h1 h41) | (intro hx; cases hx)
        rw [e] at h
        simp only [List.cons_append]
        rw [e]
        cases hr : pRep f ci (c :: s1) with
        | none => simp [hr] at h
        | some p =>
          obtain ⟨a, r0⟩ := p
          have hr' := iR ci _ a r0 hr
          simp only [List.cons_append] at hr'
          simp only [hr] at h
          simp only [hr']
          cases hcc : pCat f ci r0 with
          | none => simp [hcc] at h
          | some q =>
            obtain ⟨b, rest'⟩ := q
            simp only [hcc, Option.some.injEq, Prod.mk.injEq] at h
            simp only [iC ci r0 b rest' hcc, Option.some.injEq, Prod.mk.injEq]
            exact ⟨h.1, by rw [h.2]⟩

theorem ext_rep (u : Bytes) (hu : Close u) (f : Nat) (ih : ExtAll u f) :
    ∀ ci s r rest, pRep (f + 1) ci s = some (r, rest) → pRep (f + 1) ci (s ++ u) = some (r, rest ++ u) := by
  obtain ⟨_, _, _, iT⟩ := ih
  have hsl := stripLazy_append u hu
  have hsr := startsRepeat_append' u hu
  have hpc := pCount_append u hu
  obtain ⟨t, rfl⟩ := hu
  intro ci s r rest h
  rw [pRep] at h ⊢
  cases hA : pAtom f ci s with
  | none => simp [hA] at h
  | some p =>
    obtain ⟨a, r0⟩ := p
    have hA' := iT ci s a r0 hA
    simp only [hA] at h
    simp only [hA']
    cases r0 with
    | nil =>
      simp only [Option.some.injEq, Prod.mk.injEq] at h
      simp [isQuant, h.1, ← h.2]
    | cons q r1 =>
      simp only [List.cons_append] at h ⊢
      by_cases hq : isQuant q = true
      · simp only [hq, if_true, hsl, hsr] at h ⊢
        by_cases hs : startsRepeat (stripLazy r1) = true
        · simp [hs] at h
        · simp only [hs] at h ⊢
          simp only [Bool.false_eq_true, if_false, Option.some.injEq, Prod.mk.injEq] at h ⊢
          exact ⟨h.1, by rw [h.2]⟩
      · by_cases hq2 : (q == 123) = true
        · simp only [hq, hq2, if_true, hpc] at h ⊢
          simp only [Bool.false_eq_true, if_false] at h ⊢
          cases hc : pCount r1 with
          | none =>
            simp only [hc, Option.map_none, Option.some.injEq, Prod.mk.injEq] at h ⊢
            exact ⟨h.1, by rw [← h.2]; rfl⟩
          | some oc =>
            cases oc with
            | none => simp [hc] at h
            | some tr =>
              obtain ⟨n, m, rest'⟩ := tr
              simp only [hc, Option.map_some, hsl, hsr] at h ⊢
              by_cases hs : startsRepeat (stripLazy rest') = true
              · simp [hs] at h
              · simp only [hs] at h ⊢
                simp only [Bool.false_eq_true, if_false, Option.some.injEq, Prod.mk.injEq] at h ⊢
                exact ⟨h.1, by rw [h.2]⟩
        · simp only [hq, hq2] at h ⊢
          simp only [Bool.false_eq_true, if_false, Option.some.injEq, Prod.mk.injEq] at h ⊢
          exact ⟨h.1, by rw [← h.2]; rfl⟩

theorem ext_atom (u : Bytes) (hu : Close u) (f : Nat) (ih : ExtAll u f) :
    ∀ ci s r rest, pAtom (f + 1) ci s = some (r, rest) → pAtom (f + 1) ci (s ++ u) = some (r, rest ++ u) := by
  obtain ⟨iA, _, _, _⟩ := ih
  have hgi := groupInner_append u hu
  have hpc := pCount_append u hu
  intro ci s r rest h
  cases s with
  | nil => simp [pAtom] at h
  | cons c s1 =>
    by_cases h40 : c = 40
    · subst h40
      simp only [pAtom, List.cons_append] at h ⊢
      cases hg : groupInner s1 with
      | none => simp [hg] at h
      | some r0 =>
        simp only [hg] at h
        simp only [hgi _ _ hg]
        cases hA : pAlt f ci r0 with
        | none => simp [hA] at h
        | some p =>
          obtain ⟨a, r1⟩ := p
          simp only [hA] at h
          simp only [iA ci r0 a r1 hA]
          cases r1 with
          | nil => simp at h
          | cons b r2 =>
            by_cases hb : b = 41
            · subst hb
              simp only [Option.some.injEq, Prod.mk.injEq, List.cons_append] at h ⊢
              exact ⟨h.1, by rw [h.2]⟩
            · exfalso
              split at h
              · rename_i heq; injection heq with heq; injection heq with _ heq; injection heq with h1 _; exact hb h1
              · cases h
    · by_cases h91 : c = 91
      · subst h91
        simp only [pAtom, List.cons_append] at h ⊢
        exact pClass_append u ci s1 r rest h
      · by_cases h46 : c = 46
        · subst h46
          simp only [pAtom, Option.some.injEq, Prod.mk.injEq, List.cons_append] at h ⊢
          exact ⟨h.1, by rw [h.2]⟩
        · by_cases h94 : c = 94
          · subst h94
            simp only [pAtom, Option.some.injEq, Prod.mk.injEq, List.cons_append] at h ⊢
            exact ⟨h.1, by rw [h.2]⟩
          · by_cases h36 : c = 36
            · subst h36
              simp only [pAtom, Option.some.injEq, Prod.mk.injEq, List.cons_append] at h ⊢
              exact ⟨h.1, by rw [h.2]⟩
            · by_cases h92 : c = 92
              · subst h92
                cases s1 with
                | nil =>
                  exfalso
                  rw [pAtom] at h
                  · simp at h
                  all_goals simp
                | cons d s2 =>
                  simp only [pAtom, List.cons_append] at h ⊢
                  by_cases d1 : (d == 68) = true
                  · simp only [d1, if_true, Option.some.injEq, Prod.mk.injEq] at h ⊢
                    exact ⟨h.1, by rw [h.2]⟩
                  · by_cases d2 : (d == 87) = true
                    · simp only [d1, d2, if_true, Option.some.injEq, Prod.mk.injEq] at h ⊢
                      simp only [Bool.false_eq_true, if_false, Option.some.injEq, Prod.mk.injEq] at h ⊢
                      exact ⟨h.1, by rw [h.2]⟩
                    · by_cases d3 : (d == 83) = true
                      · simp only [d1, d2, d3, if_true] at h ⊢
                        simp only [Bool.false_eq_true, if_false, Option.some.injEq, Prod.mk.injEq] at h ⊢
                        exact ⟨h.1, by rw [h.2]⟩
                      · simp only [d1, d2, d3] at h ⊢
                        simp only [Bool.false_eq_true, if_false] at h ⊢
                        cases he : classEscape d with
                        | none => simp [he] at h
                        | some rs0 =>
                          simp only [he, Option.some.injEq, Prod.mk.injEq] at h ⊢
                          exact ⟨h.1, by rw [h.2]⟩
              · have e : ∀ (x : Bytes), pAtom (f + 1) ci (c :: x) =
                    (if c ≥ 128 || isQuant c || c == 41 || c == 124 || c == 92 then none
                     else if c == 123 && (pCount x).isSome then none
                     else some (mkCls ci false [(c, c)], x)) := by
                  intro x
                  rw [pAtom]
                  all_goals (try rfl)
                  all_goals (try (intros; rename_i hx; injection hx with h1 _; first | exact absurd h1 h40 | exact absurd h1 h91 | exact absurd h1 h46 | exact absurd h1 h94 | exact absurd h1 h36 | exact absurd h1 h92))
                  all_goals (try (intro h1; first | exact absurd h1 h40 | exact absurd h1 h91 | exact absurd h1 h46 | exact absurd h1 h94 | exact absurd h1 h36 | exact absurd h1 h92))
                  all_goals (try (intro _ _ h1 _; exact absurd h1 h92))
                rw [e] at h
                simp only [List.cons_append]
                rw [e]
                simp only [hpc]
                by_cases hc1 : (c ≥ 128 || isQuant c || c == 41 || c == 124 || c == 92) = true
                · simp [hc1] at h
                · simp only [hc1] at h ⊢
                  simp only [Bool.false_eq_true, if_false] at h ⊢
                  have hsome : ((Option.map (Option.map fun x => (x.1, x.2.1, x.2.2 ++ u)) (pCount s1)).isSome) = (pCount s1).isSome := by
                    cases pCount s1 <;> rfl
                  rw [hsome]
                  by_cases hc2 : (c == 123 && (pCount s1).isSome) = true
                  · simp [hc2] at h
                  · simp only [hc2] at h ⊢
                    simp only [Bool.false_eq_true, if_false, Option.some.injEq, Prod.mk.injEq] at h ⊢
                    exact ⟨h.1, by rw [h.2]⟩

theorem ext_all (u : Bytes) (hu : Close u) : ∀ f, ExtAll u f := by
  intro f
  induction f with
  | zero =>
    refine ⟨?_, ?_, ?_, ?_⟩ <;> intro ci s r rest h
    · rw [pAlt] at h; cases h
    · rw [pCat] at h; cases h
    · rw [pRep] at h; cases h
    · rw [pAtom] at h; cases h
  | succ f ih => exact ⟨ext_alt u hu f ih, ext_cat u hu f ih, ext_rep u hu f ih, ext_atom u hu f ih⟩

/-- with enough fuel the reader reads the whole of `p` as `r` (no case folding) -/
def Reads (p : Bytes) (r : Re) : Prop := ∃ f, pAlt f false p = some (r, [])

/-- the text that `git.RegexpFilter` compiles: `"^(?:" + p + ")$"` -/
def wrap (p : Bytes) : Bytes := [94, 40, 63, 58] ++ p ++ [41, 36]

/-- **the wrapped TEXT reads as the anchored expression** -/
theorem reads_wrapped (p : Bytes) (r : Re) (h : Reads p r) :
    Reads (wrap p) (.seq .bol (.seq r (.seq .eol .eps))) := by
  obtain ⟨f, hf⟩ := h
  obtain ⟨g, rfl⟩ : ∃ g, f = g + 1 := by
    cases f with
    | zero => rw [pAlt] at hf; cases hf
    | succ g => exact ⟨g, rfl⟩
  have hin := (ext_all [41, 36] ⟨[36], rfl⟩ (g + 1)).1 false p r [] hf
  simp only [List.nil_append] at hin
  refine ⟨g + 6, ?_⟩
  have e : wrap p = 94 :: 40 :: 63 :: 58 :: (p ++ [41, 36]) := by simp [wrap]
  rw [e]
  have A1 : pAtom (g + 2) false (40 :: 63 :: 58 :: (p ++ [41, 36])) = some (r, [36]) := by
    rw [pAtom]; simp only [groupInner, hin]
  have R1 : pRep (g + 3) false (40 :: 63 :: 58 :: (p ++ [41, 36])) = some (r, [36]) := by
    rw [pRep, A1]; simp [isQuant]
  have A0 : pAtom (g + 1) false [36] = some (.eol, []) := by simp [pAtom]
  have R0 : pRep (g + 2) false [36] = some (.eol, []) := by rw [pRep, A0]
  have C0 : pCat (g + 3) false [36] = some (.seq .eol .eps, []) := by
    rw [pCat]
    · simp [R0, pCat]
    all_goals simp
  have C1 : pCat (g + 4) false (40 :: 63 :: 58 :: (p ++ [41, 36])) = some (.seq r (.seq .eol .eps), []) := by
    rw [pCat]
    · simp [R1, C0]
    all_goals simp
  have A2 : pAtom (g + 3) false (94 :: 40 :: 63 :: 58 :: (p ++ [41, 36])) = some (.bol, 40 :: 63 :: 58 :: (p ++ [41, 36])) := by
    simp [pAtom]
  have R2 : pRep (g + 4) false (94 :: 40 :: 63 :: 58 :: (p ++ [41, 36])) = some (.bol, 40 :: 63 :: 58 :: (p ++ [41, 36])) := by
    rw [pRep, A2]; simp [isQuant]
  have C2 : pCat (g + 5) false (94 :: 40 :: 63 :: 58 :: (p ++ [41, 36])) =
      some (.seq .bol (.seq r (.seq .eol .eps)), []) := by
    rw [pCat]
    · simp [R2, C1]
    all_goals simp
  rw [pAlt, C2]

/-- **the code's string, read by the RE2 reader, selects exactly the names `p` matches entirely**: if the reader
    reads `p` as `r`, it reads `"^(?:" + p + ")$"` as an expression `r'` for which a SEARCH (`MatchString`)
    succeeds on `w` iff `r` matches the whole of `w` -/
theorem wrapped_text_selects_full_matches (p : Bytes) (r : Re) (h : Reads p r) :
    ∃ r', Reads (wrap p) r' ∧ ∀ w, Search r' w ↔ FullMatch r w := by
  refine ⟨_, reads_wrapped p r h, fun w => ?_⟩
  constructor
  · rintro ⟨pre, m, post, rfl, hd⟩
    cases hd with
    | @seq _ _ _ m1 m2 _ h1 h2 =>
      cases h1
      simp only [List.append_nil, List.nil_append] at h2 ⊢
      cases h2 with
      | @seq _ _ _ m3 m4 _ h3 h4 =>
        cases h4 with
        | @seq _ _ _ m5 m6 _ h5 h6 =>
          cases h6
          simp only [List.nil_append] at h5
          cases h5
          simpa [FullMatch] using h3
  · intro hf
    have h3 : Den (.seq .eol .eps) ([] ++ w) ([] ++ []) [] := .seq (.eol _) (.eps _ _)
    have h2 : Den (.seq r (.seq .eol .eps)) ([] ++ []) (w ++ ([] ++ [])) [] :=
      .seq (by simpa [FullMatch] using hf) (by simpa using h3)
    have h1 : Den (.seq .bol (.seq r (.seq .eol .eps))) [] ([] ++ (w ++ ([] ++ []))) [] := .seq (.bol _) h2
    exact ⟨[], w, [], by simp, by simpa using h1⟩

theorem splitFlags_plain (p : Bytes) (hci : ∀ rest, p ≠ 40 :: 63 :: 105 :: 41 :: rest) : splitFlags p = (false, p) := by
  unfold splitFlags
  split
  · rename_i heq; exact absurd rfl (hci _)
  · rfl

/-- what `parse` returns (for a pattern without the leading `(?i)`) is a reading in the sense of `Reads` -/
theorem parse_reads (p : Bytes) (r : Re) (hci : ∀ rest, p ≠ 40 :: 63 :: 105 :: 41 :: rest) (h : parse p = some r) :
    Reads p r := by
  unfold parse at h
  rw [splitFlags_plain p hci] at h
  simp only at h
  refine ⟨4 * p.length + 8, ?_⟩
  cases hA : pAlt (4 * p.length + 8) false p with
  | none => simp [hA] at h
  | some q =>
    obtain ⟨a, rest⟩ := q
    cases rest with
    | nil => simp only [hA, Option.some.injEq] at h; rw [h]
    | cons b rest' => simp [hA] at h

end GitSizer.Regex
