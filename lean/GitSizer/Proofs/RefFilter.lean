import GitSizer.Spec.Select
/-! C06 core: the `Combine` fold equals last-matching-rule semantics; prefix matching is the
    component-boundary relation. -/
namespace GitSizer.RefFilter
open GitSizer GitSizer.Spec

variable {π : Type} (m : π → Bytes → Bool)

theorem lastMatch_getD (r : Bytes) : ∀ (l : List (Opt π)) (a : Option Bool) (d : Bool),
    (l.foldl (fun acc o => if m o.pat r then some o.incl else acc) a).getD d =
    (l.foldl (fun acc o => if m o.pat r then some o.incl else acc) none).getD (a.getD d) := by
  intro l
  induction l with
  | nil => intro a d; cases a <;> rfl
  | cons x l ih2 =>
    intro a d
    simp only [List.foldl_cons]
    by_cases hx : m x.pat r
    · simp only [hx, if_true]; rw [ih2 (some x.incl) d, ih2 (some x.incl) (a.getD d)]; rfl
    · simp only [hx]; exact ih2 a d

theorem foldl_some (opts : List (Opt π)) (f : F π) :
    ∃ g, opts.foldl (fun acc o => some (combine o acc)) (some f) = some g ∧
      ∀ r, g.eval m r = (opts.foldl (fun acc o => if m o.pat r then some o.incl else acc) none).getD (f.eval m r) := by
  induction opts generalizing f with
  | nil => exact ⟨f, rfl, fun r => rfl⟩
  | cons o opts ih =>
    obtain ⟨g, hg, hev⟩ := ih (combine o (some f))
    refine ⟨g, by simpa [List.foldl_cons] using hg, ?_⟩
    intro r
    rw [hev r]
    simp only [List.foldl_cons]
    rw [lastMatch_getD m r opts (if m o.pat r then some o.incl else none) (f.eval m r)]
    congr 1
    by_cases ho : m o.pat r <;> cases hi : o.incl <;> simp [combine, F.eval, ho, hi]

/-- for every option list, every pattern semantics and every reference name -/
theorem selected_eq_spec (opts : List (Opt π)) (defaultAll : Bool) (r : Bytes) :
    selected m opts defaultAll r = selectedSpec m opts defaultAll r := by
  cases opts with
  | nil => rfl
  | cons o opts =>
    unfold selected build selectedSpec lastMatch
    simp only [List.foldl_cons]
    obtain ⟨g, hg, hev⟩ := foldl_some m opts (combine o none)
    rw [hg]
    simp only [hev r]
    rw [lastMatch_getD m r opts (if m o.pat r then some o.incl else none) (!o.incl)]
    congr 1
    by_cases ho : m o.pat r <;> cases hi : o.incl <;> simp [combine, F.eval, ho, hi]

theorem hasPrefix_iff : ∀ (s p : Bytes), Bytes.hasPrefix s p = true ↔ ∃ r, s = p ++ r := by
  intro s p
  induction p generalizing s with
  | nil => simp [Bytes.hasPrefix]
  | cons b bs ih =>
    cases s with
    | nil => simp [Bytes.hasPrefix]
    | cons a as =>
      simp only [Bytes.hasPrefix, Bool.and_eq_true, beq_iff_eq, ih, List.cons_append, List.cons.injEq]
      constructor
      · rintro ⟨rfl, r, rfl⟩; exact ⟨r, rfl, rfl⟩
      · rintro ⟨r, rfl, rfl⟩; exact ⟨rfl, r, rfl⟩

theorem hasSuffix_slash (p : Bytes) : Bytes.hasSuffix p [47] = true ↔ p.getLast? = some 47 := by
  unfold Bytes.hasSuffix
  rw [hasPrefix_iff]
  simp only [List.reverse_cons, List.reverse_nil, List.nil_append, List.singleton_append]
  constructor
  · rintro ⟨r, h⟩
    have : p = r.reverse ++ [47] := by
      have := congrArg List.reverse h; simpa using this
    rw [this]; simp
  · intro h
    obtain ⟨q, rfl⟩ : ∃ q, p = q ++ [47] := by
      cases hp : p.getLast? with
      | none => rw [hp] at h; cases h
      | some x =>
        rw [hp] at h; cases h
        have hne : p ≠ [] := by intro e; rw [e] at hp; cases hp
        have hg : p.getLast hne = 47 := by
          have := List.getLast?_eq_some_getLast hne; rw [hp] at this; exact (Option.some.inj this).symm
        exact ⟨p.dropLast, by rw [← hg]; exact (List.dropLast_concat_getLast hne).symm⟩
    exact ⟨q.reverse, by simp⟩

/-- a PREFIX matches only at a '/' component boundary -/
theorem prefixMatch_spec (p r : Bytes) : prefixMatch p r = true ↔ PrefixSpec p r := by
  unfold prefixMatch PrefixSpec
  by_cases hs : Bytes.hasSuffix p [47] = true
  · have hl := (hasSuffix_slash p).mp hs
    simp only [hs, if_true, hasPrefix_iff, hl, true_and, ne_eq, not_true_eq_false, false_and, or_false]
  · have hl : p.getLast? ≠ some 47 := fun h => hs ((hasSuffix_slash p).mpr h)
    simp only [hs, Bool.false_eq_true, if_false, Bool.and_eq_true, hasPrefix_iff, Bool.or_eq_true, beq_iff_eq, hl,
      false_and, false_or, ne_eq, not_false_eq_true, true_and]
    constructor
    · rintro ⟨⟨rest, rfl⟩, h⟩
      cases rest with
      | nil => left; simp
      | cons c cs =>
        rcases h with h | h
        · simp at h
        · right; simp at h; subst h; exact ⟨cs, rfl⟩
    · rintro (rfl | ⟨rest, rfl⟩)
      · exact ⟨⟨[], by simp⟩, Or.inl rfl⟩
      · exact ⟨⟨47 :: rest, rfl⟩, Or.inr (by simp)⟩

end GitSizer.RefFilter
