import GitSizer.Model.Meter
/-! Invariant of the meter's interleaving model, for every trace. -/
namespace GitSizer.Meter

structure Inv (m : M) : Prop where
  phase_le : ∀ l ∈ m.out, l.phase ≤ m.phase
  cur_phase : ∀ l ∈ m.out, l.phase = m.phase → m.cur.isSome → l.count ≤ m.count ∧ l.final = false
  final_all : ∀ l ∈ m.out, l.final = true → (l.phase, l.count) ∈ m.fin
  fin_phase : ∀ p ∈ m.fin, p.1 ≤ m.phase ∧ (m.cur.isSome → p.1 < m.phase)
  count_incs : m.count = m.incs
  pw : m.out.Pairwise R

theorem inv_init : Inv init := by
  refine ⟨?_, ?_, ?_, ?_, rfl, ?_⟩ <;> simp [init]

theorem inv_step {m m' : M} {e : Ev} (h : Inv m) (hs : step m e = some m') : Inv m' := by
  cases e with
  | start =>
    simp only [step] at hs
    split at hs
    · cases hs
    · simp at hs; subst hs
      refine ⟨?_, ?_, h.final_all, ?_, rfl, h.pw⟩
      · intro l hl; have := h.phase_le l hl; simp; omega
      · intro l hl hp; have := h.phase_le l hl; simp at hp; omega
      · intro p hp; have := (h.fin_phase p hp).1; simp; omega
  | inc =>
    simp only [step] at hs
    split at hs
    · cases hs
    · next hc =>
      simp at hs; subst hs
      refine ⟨h.phase_le, ?_, h.final_all, h.fin_phase, by simp [h.count_incs], h.pw⟩
      intro l hl hp hcur
      have := h.cur_phase l hl hp hcur
      exact ⟨by simp; omega, this.2⟩
  | done =>
    simp only [step] at hs
    split at hs
    · cases hs
    · next hc =>
      have hcur : m.cur.isSome := by cases hm : m.cur <;> simp_all
      simp at hs; subst hs
      refine ⟨?_, ?_, ?_, ?_, h.count_incs, ?_⟩
      · intro l hl; simp at hl
        cases hl with
        | inl hl => exact h.phase_le l hl
        | inr hl => rw [hl]; exact Nat.le_refl _
      · intro l _ _ hc'; simp at hc'
      · intro l hl hf; simp at hl
        cases hl with
        | inl hl => exact List.mem_append_left _ (h.final_all l hl hf)
        | inr hl => rw [hl]; simp [h.count_incs]
      · intro p hp; simp at hp
        cases hp with
        | inl hp => exact ⟨(h.fin_phase p hp).1, fun hc' => by simp at hc'⟩
        | inr hp => rw [hp]; exact ⟨Nat.le_refl _, fun hc' => by simp at hc'⟩
      · show (m.out ++ [_]).Pairwise R
        rw [List.pairwise_append]
        refine ⟨h.pw, by simp, ?_⟩
        intro a ha b hb; simp at hb; subst hb
        refine ⟨h.phase_le a ha, ?_⟩
        intro hp; exact h.cur_phase a ha hp hcur
  | tick g =>
    simp only [step] at hs
    split at hs
    · split at hs
      · next hc =>
        have hcur : m.cur.isSome := by rw [hc]; rfl
        simp at hs; subst hs
        refine ⟨?_, ?_, ?_, h.fin_phase, h.count_incs, ?_⟩
        · intro l hl; simp at hl
          cases hl with
          | inl hl => exact h.phase_le l hl
          | inr hl => rw [hl]; exact Nat.le_refl _
        · intro l hl hp _; simp at hl
          cases hl with
          | inl hl => exact h.cur_phase l hl hp hcur
          | inr hl => rw [hl]; exact ⟨Nat.le_refl _, rfl⟩
        · intro l hl hf; simp at hl
          cases hl with
          | inl hl => exact h.final_all l hl hf
          | inr hl => rw [hl] at hf; cases hf
        · show (m.out ++ [_]).Pairwise R
          rw [List.pairwise_append]
          refine ⟨h.pw, by simp, ?_⟩
          intro a ha b hb; simp at hb; subst hb
          refine ⟨h.phase_le a ha, ?_⟩
          intro hp; exact h.cur_phase a ha hp hcur
      · simp at hs; subst hs
        exact ⟨h.phase_le, h.cur_phase, h.final_all, h.fin_phase, h.count_incs, h.pw⟩
    · simp at hs; subst hs; exact h

theorem inv_run : ∀ (es : List Ev) (m m' : M), Inv m → run es m = some m' → Inv m' := by
  intro es
  induction es with
  | nil => intro m m' h hr; simp [run] at hr; subst hr; exact h
  | cons e es ih =>
    intro m m' h hr
    simp only [run] at hr
    cases hs : step m e with
    | none => rw [hs] at hr; cases hr
    | some m1 => rw [hs] at hr; exact ih m1 m' (inv_step h hs) hr

/-- the ghost record `fin` holds, per finished phase, exactly the number of `Inc()` calls made
    between that phase's `Start` and `Done` -/
def incsOfPhases : List Ev → Nat → Nat → List (Nat × Nat) → List (Nat × Nat)
  | [], _, _, acc => acc
  | .start :: es, ph, _, acc => incsOfPhases es (ph + 1) 0 acc
  | .inc :: es, ph, k, acc => incsOfPhases es ph (k + 1) acc
  | .done :: es, ph, k, acc => incsOfPhases es ph k (acc ++ [(ph, k)])
  | .tick _ :: es, ph, k, acc => incsOfPhases es ph k acc

theorem fin_eq_counted : ∀ (es : List Ev) (m m' : M), run es m = some m' →
    m'.fin = incsOfPhases es m.phase m.incs m.fin := by
  intro es
  induction es with
  | nil => intro m m' h; simp [run] at h; subst h; rfl
  | cons e es ih =>
    intro m m' h
    simp only [run] at h
    cases hs : step m e with
    | none => rw [hs] at h; cases h
    | some m1 =>
      rw [hs] at h
      have := ih m1 m' h
      rw [this]
      cases e with
      | start =>
        simp only [step] at hs; split at hs
        · cases hs
        · simp at hs; subst hs; rfl
      | inc =>
        simp only [step] at hs; split at hs
        · cases hs
        · simp at hs; subst hs; rfl
      | done =>
        simp only [step] at hs; split at hs
        · cases hs
        · simp at hs; subst hs; rfl
      | tick g =>
        simp only [step] at hs
        split at hs
        · split at hs <;> (simp at hs; subst hs; rfl)
        · simp at hs; subst hs; rfl

end GitSizer.Meter
