import GitSizer.Proofs.GraphRun6
/-! Whole-run theorem, part 7: the closed forms depend only on the SETS of delivered objects, so any
    two valid schedules of the same objects give the same numbers. -/
namespace GitSizer.Graph
open GitSizer GitSizer.Spec Gen

theorem RunResult.perm {r : Repo} {h : HistorySize} {B T C G B' T' C' G' : List Nat} {n : Nat}
    (res : RunResult r h B T C G n) (pB : B.Perm B') (pT : T.Perm T') (pC : C.Perm C') (pG : G.Perm G') :
    RunResult r h B' T' C' G' n := by
  refine ⟨?_, ?_, ?_, ?_, res.refs⟩
  · rw [res.blobs, pB.length_eq, (pB.map r.blobSize).sum_nat, maxList_perm (pB.map r.blobSize)]
  · rw [res.trees, pT.length_eq, (pT.map _).sum_nat, (pT.map fun t => clamp c32 (r.entries t).length).sum_nat,
      maxList_perm (pT.map fun t => (r.entries t).length),
      maxList_perm (pT.map fun t => (Agg.expand (PN r) t).depth),
      maxList_perm (pT.map fun t => (Agg.expand (PN r) t).len),
      maxList_perm (pT.map fun t => (Agg.expand (PN r) t).trees),
      maxList_perm (pT.map fun t => (Agg.expand (PN r) t).blobs),
      maxList_perm (pT.map fun t => (Agg.expand (PN r) t).bsize),
      maxList_perm (pT.map fun t => (Agg.expand (PN r) t).links),
      maxList_perm (pT.map fun t => (Agg.expand (PN r) t).subs)]
  · rw [res.commits, pC.length_eq, (pC.map _).sum_nat,
      maxList_perm (pC.map fun c => Repo.sizeOf r c),
      maxList_perm (pC.map fun c => depthN r c),
      maxList_perm (pC.map fun c => (r.parents c).length)]
  · rw [res.tags, pG.length_eq, maxList_perm (pG.map fun g => tagDepthN r g)]

/-- all 22 numeric fields, in struct order by kind -/
def allNums (h : HistorySize) : List Nat := blobNums h ++ treeNums h ++ commitNums h ++ tagNums h ++ refNums h

theorem RunResult.nums_eq {r : Repo} {h1 h2 : HistorySize} {B T C G : List Nat} {n : Nat}
    (a : RunResult r h1 B T C G n) (b : RunResult r h2 B T C G n) : allNums h1 = allNums h2 := by
  unfold allNums; rw [a.blobs, a.trees, a.commits, a.tags, a.refs, b.blobs, b.trees, b.commits, b.tags, b.refs]

/-- **Order independence of the whole run.** Two valid schedules that deliver the same objects (as
    multisets, in ANY two orders and interleavings) and the same number of references produce the
    same 22 numbers. -/
theorem run_order_independent (r : Repo) (ok : RepoOK r) (ops1 ops2 : List Op)
    (hv1 : ValidFrom r [] [] [] [] ops1) (hv2 : ValidFrom r [] [] [] [] ops2)
    (pB : (blobsOf ops1).Perm (blobsOf ops2)) (pT : (treesOf ops1).Perm (treesOf ops2))
    (pC : (commitsOf ops1).Perm (commitsOf ops2)) (pG : (tagsOf ops1).Perm (tagsOf ops2))
    (pR : refsOf ops1 = refsOf ops2)
    (closedT : ∀ t ∈ treesOf ops1, ∀ e ∈ treeKids r t, e.2 ∈ treesOf ops1)
    (closedG : ∀ g ∈ tagsOf ops1, ∀ e ∈ tagKids r g, e.2 ∈ tagsOf ops1)
    (areTags : ∀ g ∈ tagsOf ops1, (r.tagRef g).isSome)
    (sizes : ∀ i, Repo.sizeOf r i < 2 ^ 64) (nparents : ∀ c, (r.parents c).length < 2 ^ 64) :
    ∃ st1 st2, runOps r ops1 {} = .ok st1 ∧ runOps r ops2 {} = .ok st2 ∧ allNums st1.hist = allNums st2.hist := by
  obtain ⟨st1, h1, _, r1⟩ := run_numbers r ok ops1 hv1 closedT closedG areTags sizes nparents
  obtain ⟨st2, h2, _, r2⟩ := run_numbers r ok ops2 hv2
    (fun t ht e he => pT.mem_iff.mp (closedT t (pT.mem_iff.mpr ht) e he))
    (fun g hg e he => pG.mem_iff.mp (closedG g (pG.mem_iff.mpr hg) e he))
    (fun g hg => areTags g (pG.mem_iff.mpr hg)) sizes nparents
  refine ⟨st1, st2, h1, h2, ?_⟩
  rw [← pR] at r2
  exact (r1.perm pB pT pC pG).nums_eq r2

/-- the hypotheses of the whole-run theorem, bundled: a well-formed repository description and a
    valid schedule over tree- and tag-closed sets -/
structure ValidRun (r : Repo) (ops : List Op) : Prop where
  ok : RepoOK r
  valid : ValidFrom r [] [] [] [] ops
  closedT : ∀ t ∈ treesOf ops, ∀ e ∈ treeKids r t, e.2 ∈ treesOf ops
  closedG : ∀ g ∈ tagsOf ops, ∀ e ∈ tagKids r g, e.2 ∈ tagsOf ops
  areTags : ∀ g ∈ tagsOf ops, (r.tagRef g).isSome
  sizes : ∀ i, Repo.sizeOf r i < 2 ^ 64
  nparents : ∀ c, (r.parents c).length < 2 ^ 64

theorem ValidRun.result {r : Repo} {ops : List Op} (v : ValidRun r ops) :
    ∃ st, runOps r ops {} = .ok st ∧ historySize r st = .ok st.hist ∧
      RunResult r st.hist (blobsOf ops) (treesOf ops) (commitsOf ops) (tagsOf ops) (refsOf ops) :=
  run_numbers r v.ok ops v.valid v.closedT v.closedG v.areTags v.sizes v.nparents

end GitSizer.Graph
