import GitSizer.Model.ScanCheck
import GitSizer.Proofs.Scan
import GitSizer.Proofs.ExpandTable
/-! Soundness of the executable hypothesis checkers: `check = true → hypothesis`. -/
namespace GitSizer.Scan
open GitSizer GitSizer.Spec GitSizer.Graph

theorem obj_out (r : Repo) (t : Nat) (h : r.length ≤ t) : r.obj t = none := by
  unfold Repo.obj; exact List.getElem?_eq_none h

theorem objOK_out (r : Repo) (t : Nat) (h : r.length ≤ t) : objOK r t = true := by
  have ho := obj_out r t h
  simp [objOK, treeKids, tagKids, Repo.entries, Repo.blobSize, Repo.parents, Repo.tagRef, Repo.sizeOf, ho]

theorem objOK_all (r : Repo) (h : repoOKb r = true) (t : Nat) : objOK r t = true := by
  by_cases ht : t < r.length
  · unfold repoOKb at h; rw [List.all_eq_true] at h; exact h t (List.mem_range.mpr ht)
  · exact objOK_out r t (by omega)

theorem repoOKb_sound (r : Repo) (h : repoOKb r = true) :
    RepoOK r ∧ (∀ i, Repo.sizeOf r i < 2 ^ 64) ∧ (∀ c, (r.parents c).length < 2 ^ 64) := by
  have key := objOK_all r h
  have split : ∀ t, ((treeKids r t).all (fun e => decide (e.2 < t) && decide (e.1 < c32)) = true) ∧
      r.blobSize t < 2 ^ 64 ∧ ((r.entries t).all (fun e => decide (e.name.length < 2 ^ 64)) = true) ∧
      ((r.parents t).all (fun p => decide (p < t) && r.isCommit p) = true) ∧
      ((tagKids r t).all (fun e => decide (e.2 < t)) = true) ∧
      ((match r.tagRef t with | some (o, true) => (r.tagRef o).isSome | _ => true) = true) ∧
      Repo.sizeOf r t < 2 ^ 64 ∧ (r.parents t).length < 2 ^ 64 := by
    intro t
    have := key t
    unfold objOK at this
    simp only [Bool.and_eq_true, decide_eq_true_eq] at this
    obtain ⟨⟨⟨⟨⟨⟨⟨a, b⟩, c⟩, d⟩, e⟩, f⟩, g⟩, i⟩ := this
    exact ⟨a, b, c, d, e, f, g, i⟩
  refine ⟨⟨⟨?_, ?_, ?_, ?_⟩, ?_, ?_, ?_⟩, fun i => (split i).2.2.2.2.2.2.1, fun c => (split c).2.2.2.2.2.2.2⟩
  · intro t e he
    have := List.all_eq_true.mp (split t).1 e he
    simp only [Bool.and_eq_true, decide_eq_true_eq] at this; exact this.1
  · intro t e he
    have := List.all_eq_true.mp (split t).1 e he
    simp only [Bool.and_eq_true, decide_eq_true_eq] at this; exact this.2
  · intro b; exact (split b).2.1
  · intro t e he
    have := List.all_eq_true.mp (split t).2.2.1 e he
    simpa using this
  · intro c p hp
    have := List.all_eq_true.mp (split c).2.2.2.1 p hp
    simp only [Bool.and_eq_true, decide_eq_true_eq] at this; exact this
  · intro t e he
    have := List.all_eq_true.mp (split t).2.2.2.2.1 e he
    simpa using this
  · intro t o ho
    have := (split t).2.2.2.2.2.1
    rw [ho] at this; exact this

theorem typedb_sound (r : Repo) (h : typedb r = true) : Typed r := by
  have key : ∀ t, objTyped r t = true := by
    intro t
    by_cases ht : t < r.length
    · unfold typedb at h; rw [List.all_eq_true] at h; exact h t (List.mem_range.mpr ht)
    · have ho := obj_out r t (by omega)
      simp [objTyped, Repo.entries, ho]
  refine ⟨?_, ?_, ?_⟩
  · intro t e he hk
    have := key t
    unfold objTyped at this
    simp only [Bool.and_eq_true] at this
    have h2 := List.all_eq_true.mp this.1 e he
    simp only [Bool.and_eq_true, Bool.or_eq_true, bne_iff_ne, ne_eq] at h2
    rcases h2.1 with h3 | h3
    · exact absurd hk h3
    · exact h3
  · intro t e he hk
    have := key t
    unfold objTyped at this
    simp only [Bool.and_eq_true] at this
    have h2 := List.all_eq_true.mp this.1 e he
    simp only [Bool.and_eq_true, Bool.or_eq_true, bne_iff_ne, ne_eq] at h2
    rcases h2.2 with h3 | h3
    · exact absurd hk h3
    · exact h3
  · intro c s tr ps hobj
    have := key c
    unfold objTyped at this
    simp only [Bool.and_eq_true] at this
    have h2 := this.2
    rw [hobj] at h2; exact h2

theorem listingb_sound (r : Repo) (L : List Nat) (h : listingb r L = true) : Listing r L := by
  unfold listingb at h
  simp only [Bool.and_eq_true, decide_eq_true_eq] at h
  obtain ⟨⟨⟨h1, h2⟩, h3⟩, h4⟩ := h
  refine ⟨h1, ?_, ?_, h4⟩
  · intro i hi; simpa using List.all_eq_true.mp h2 i hi
  · intro i hi j hj
    have := List.all_eq_true.mp (List.all_eq_true.mp h3 i hi) j hj
    simpa using this

/-! ### the "done" table -/

theorem lawsD (r : Repo) (dT : List Nat) : Agg.Laws (PD r dT) :=
  ⟨fun a b => Bool.and_comm a b, fun a b c => Bool.and_assoc a b c, fun a => Bool.true_and a⟩

theorem msum_and (r : Repo) (dT : List Nat) (l : List Bool) :
    Agg.msum (PD r dT) l = true ↔ ∀ b ∈ l, b = true := by
  induction l with
  | nil => simp [PD]
  | cons x xs ih =>
    rw [Agg.msum_cons]
    show (x && Agg.msum (PD r dT) xs) = true ↔ _
    rw [Bool.and_eq_true, ih]; simp

theorem done_sound (r : Repo) (wf : ∀ t e, e ∈ treeKids r t → e.2 < t) (dT : List Nat) :
    ∀ t u, TreeReach r t u → Agg.expand (PD r dT) t = true → u ∈ dT := by
  intro t u hr
  induction hr with
  | refl t =>
    intro h
    rw [Agg.expand_eq (show Agg.WFk (PD r dT) from wf)] at h
    have := (msum_and r dT _).mp h _ (List.mem_cons_self)
    simpa [PD] using this
  | step e he _ ih =>
    intro h
    apply ih
    rw [Agg.expand_eq (show Agg.WFk (PD r dT) from wf)] at h
    exact (msum_and r dT _).mp h _ (List.mem_cons_of_mem _ (List.mem_map.mpr ⟨e, he, rfl⟩))

theorem doneTable_sound (r : Repo) (wf : ∀ t e, e ∈ treeKids r t → e.2 < t) (dT : List Nat) (t : Nat)
    (ht : t < r.length) (h : (doneTable r dT).getD t true = true) : TreeDone r dT t := by
  intro u hu
  apply done_sound r wf dT t u hu
  have := expandTable_spec (PD r dT) (lawsD r dT) (show Agg.WFk (PD r dT) from wf) r.length t ht
  rw [← this]; exact h

theorem validFromb_sound (r : Repo) (wf : ∀ t e, e ∈ treeKids r t → e.2 < t) :
    ∀ (ops : List Op) (dB dT dC dG : List Nat), validFromb r dB dT dC dG ops = true → ValidFrom r dB dT dC dG ops := by
  intro ops
  induction ops with
  | nil => intro _ _ _ _ _; trivial
  | cons op rest ih =>
    intro dB dT dC dG h
    cases op with
    | blob o => exact ih _ _ _ _ h
    | ref g => exact ih _ _ _ _ h
    | tree t =>
      simp only [validFromb, Bool.and_eq_true, Bool.not_eq_true', decide_eq_true_eq] at h
      obtain ⟨⟨⟨h1, h2⟩, h3⟩, h4⟩ := h
      refine ⟨by simpa using h1, h2, ?_, ih _ _ _ _ h4⟩
      intro e he hk
      have := List.all_eq_true.mp h3 e he
      simpa [hk] using this
    | tag g =>
      simp only [validFromb, Bool.and_eq_true, Bool.not_eq_true', decide_eq_true_eq] at h
      obtain ⟨⟨h1, h2⟩, h4⟩ := h
      exact ⟨by simpa using h1, h2, ih _ _ _ _ h4⟩
    | commit c =>
      simp only [validFromb, Bool.and_eq_true, Bool.not_eq_true'] at h
      obtain ⟨⟨⟨⟨h1, h2⟩, h3⟩, h4⟩, h5⟩ := h
      refine ⟨by simpa using h1, h2, ?_, ?_, ih _ _ _ _ h5⟩
      · intro s tr ps hobj
        rw [hobj] at h3
        simp only [Bool.and_eq_true, decide_eq_true_eq] at h3
        exact doneTable_sound r wf dT tr h3.1 h3.2
      · intro p hp
        simpa using List.all_eq_true.mp h4 p hp

/-- **the run checker is sound**: if it accepts, the whole-run theorem applies -/
theorem runHypothesesb_sound (r : Repo) (ops : List Op) (h : runHypothesesb r ops = true) : ValidRun r ops := by
  unfold runHypothesesb at h
  simp only [Bool.and_eq_true] at h
  obtain ⟨⟨⟨⟨h1, h2⟩, h3⟩, h4⟩, h5⟩ := h
  obtain ⟨ok, sizes, np⟩ := repoOKb_sound r h1
  refine ⟨ok, validFromb_sound r ok.trees.wf ops _ _ _ _ h2, ?_, ?_, ?_, sizes, np⟩
  · intro t ht e he
    simpa using List.all_eq_true.mp (List.all_eq_true.mp h3 t ht) e he
  · intro g hg e he
    simpa using List.all_eq_true.mp (List.all_eq_true.mp h4 g hg) e he
  · intro g hg; exact List.all_eq_true.mp h5 g hg

/-- **the scan checker is sound**: if it accepts, the whole-scan theorem applies, so the model's scan
    of this listing yields exactly the clamped true numbers -/
theorem scanHypothesesb_sound (r : Repo) (L : List Nat) (refs : List (List Bytes)) (h : scanHypothesesb r L = true) :
    ∃ hist, scan r L refs = .ok hist ∧
      RunResult r hist (blobsIn r L) (treesIn r L) (commitsIn r L) (tagsIn r L) refs.length := by
  unfold scanHypothesesb at h
  simp only [Bool.and_eq_true] at h
  obtain ⟨⟨h1, h2⟩, h3⟩ := h
  obtain ⟨ok, sizes, np⟩ := repoOKb_sound r h1
  exact scan_numbers r ok (typedb_sound r h2) L (listingb_sound r L h3) refs sizes np

end GitSizer.Scan
