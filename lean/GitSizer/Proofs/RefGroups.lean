import GitSizer.Proofs.RefFilter
import GitSizer.Spec.Tally
/-! C07 core: `collectSymbols` yields exactly the declared membership of `Spec/Tally`;
    `refGroupFilter` is group membership; `Categorize` meets its specification. -/
namespace GitSizer.RefGroups
open GitSizer GitSizer.RefFilter GitSizer.Spec

variable (ev : F Pat0 → Bool)

mutual
theorem matchesT_eq_own : ∀ t : GTree, matchesT ev t = own ev t
  | .node _ _ filter kids => by
    unfold matchesT own
    cases filter with
    | some f => rfl
    | none => exact matchesList_eq_ownAny kids
theorem matchesList_eq_ownAny : ∀ ts : List GTree, matchesList ev ts = ownAny ev ts
  | [] => by unfold matchesList ownAny; rfl
  | t :: ts => by
    unfold matchesList ownAny
    rw [matchesT_eq_own t, matchesList_eq_ownAny ts]
end

mutual
/-- nothing is tallied below an ancestor whose rules are not satisfied -/
theorem members_false : ∀ t : GTree, members ev false t = []
  | .node sym name filter kids => by
    unfold members
    simp [membersList_false kids]
theorem membersList_false : ∀ ts : List GTree, membersList ev false ts = []
  | [] => by unfold membersList; rfl
  | t :: ts => by
    unfold membersList
    rw [members_false t, membersList_false ts]; rfl
end

mutual
/-- the symbols `collectSymbols` returns are exactly the declared members, in the same order;
    and it returns none iff the group's own rules are not satisfied -/
theorem collect_spec : ∀ t : GTree,
    (collect ev t).2 = members ev true t ∧ ((collect ev t).2 = [] ↔ own ev t = false)
  | .node sym name filter kids => by
    obtain ⟨hl, he⟩ := collectList_spec kids
    cases filter with
    | none =>
      unfold collect members own
      simp only [Bool.true_and, Option.isSome_none, Bool.false_and, Bool.false_eq_true, if_false, List.append_nil]
      generalize hcl : collectList ev kids = cl at hl he
      obtain ⟨w, ss⟩ := cl
      simp only at hl he ⊢
      by_cases hss : ss = []
      · have hown : ownAny ev kids = false := he.mp hss
        subst hss
        simp only [List.isEmpty_nil, if_true, hown, Bool.false_eq_true, if_false, List.nil_append]
        exact ⟨by simpa using hl, by simp⟩
      · have hown : ownAny ev kids = true := by
          cases h : ownAny ev kids with
          | true => rfl
          | false => exact absurd (he.mpr h) hss
        have hne : ss.isEmpty = false := by cases ss <;> simp_all
        simp only [hne, Bool.false_eq_true, if_false, hown, if_true, List.singleton_append]
        exact ⟨by simpa using hl, by simp⟩
    | some f =>
      unfold collect members own
      by_cases hf : ev f = true
      · simp only [hf, Bool.not_true, Bool.false_eq_true, if_false, Bool.true_and, Option.isSome_some]
        generalize hcl : collectList ev kids = cl at hl he
        obtain ⟨w, ss⟩ := cl
        simp only at hl he ⊢
        refine ⟨?_, by simp⟩
        have hemp : ss.isEmpty = !ownAny ev kids := by
          cases h : ownAny ev kids with
          | false => have := he.mpr h; subst this; rfl
          | true =>
            cases ss with
            | nil => have := he.mp rfl; rw [h] at this; cases this
            | cons _ _ => rfl
        rw [hemp, hl]
        simp
      · have hf' : ev f = false := by cases h : ev f <;> simp_all
        simp only [hf', Bool.not_false, if_true, Bool.and_false, Bool.false_eq_true, if_false, List.nil_append, List.append_nil,
          membersList_false ev kids, Bool.false_and]
        exact ⟨trivial, by simp⟩
theorem collectList_spec : ∀ ts : List GTree,
    (collectList ev ts).2 = membersList ev true ts ∧ ((collectList ev ts).2 = [] ↔ ownAny ev ts = false)
  | [] => by unfold collectList membersList ownAny; simp
  | t :: ts => by
    obtain ⟨h1, h2⟩ := collect_spec t
    obtain ⟨h3, h4⟩ := collectList_spec ts
    unfold collectList membersList ownAny
    generalize hc : collect ev t = c at h1 h2
    generalize hcl : collectList ev ts = cl at h3 h4
    obtain ⟨w, s⟩ := c
    obtain ⟨w', s'⟩ := cl
    simp only at h1 h2 h3 h4 ⊢
    refine ⟨by rw [h1, h3], ?_⟩
    simp only [List.append_eq_nil_iff, h2, h4, Bool.or_eq_false_iff]
end

/-- `refGroupFilter` is exactly group membership -/
theorem groupFilter_eq_member (env : Env) (st : Store) (sym r : Bytes) :
    groupFilter env st sym r = groupMember (fun f => f.eval (m0 env) r) st sym := by
  unfold groupFilter groupMember
  simp only [matchesT_eq_own]

/-- `Categorize` meets its specification, for every forest, option list and reference name -/
theorem categorize_eq_spec (env : Env) (st : Store) (opts : List (Opt Pat)) (defaultAll : Bool) (r : Bytes) :
    categorize env st opts defaultAll r = categorizeSpec env st opts defaultAll r := by
  unfold categorize categorizeSpec
  have hm : mTop env st = fun p r => match p with
      | .base b => m0 env b r
      | .grp sym => groupMember (fun (f : F Pat0) => f.eval (m0 env) r) st sym := by
    funext p r
    cases p with
    | base b => rfl
    | grp sym => exact groupFilter_eq_member env st sym r
  rw [selected_eq_spec, hm]
  generalize toTree st = t
  obtain ⟨sym, name, filter, kids⟩ := t
  simp only
  obtain ⟨hl, he⟩ := collectList_spec (fun f => f.eval (m0 env) r) kids
  generalize hcl : collectList (fun f => F.eval (m0 env) f r) kids = cl at hl he
  obtain ⟨w, ss⟩ := cl
  simp only at hl he ⊢
  have hemp : ss.isEmpty = !ownAny (fun f => F.eval (m0 env) f r) kids := by
    cases h : ownAny (fun f => F.eval (m0 env) f r) kids with
    | false => have := he.mpr h; subst this; rfl
    | true =>
      cases ss with
      | nil => have := he.mp rfl; rw [h] at this; cases this
      | cons _ _ => rfl
  rw [hemp, hl]
  generalize selectedSpec _ opts defaultAll r = b
  cases b <;> simp

end GitSizer.RefGroups
