import GitSizer.Gen.Objs
import GitSizer.Proofs.GenStrs
import GitSizer.Proofs.Parsers
/-! The hand-written models of the OBJECT parsers (`TreeIter.NextEntry`, `NewObjectHeaderIter`,
    `ObjectHeaderIter.Next`, `ParseCommit`, `ParseTag`) have the outcome of the functions that
    tools/gostr2lean regenerates from git/tree.go, git/obj_head_iter.go, git/commit.go and
    git/tag.go (`Gen.Objs`, in which an out-of-range index or slice is a panic and running out of
    loop fuel is a panic): same value, or both an error; the regenerated functions never panic.
    Hence every theorem of `Props/C16` about the models is a theorem about what the source says now. -/
namespace GitSizer
open GitSizer.Parsers GitSizer.Bytes

theorem indexByteI_some {c : UInt8} {s : Bytes} {i : Nat} (h : Bytes.indexOf c s = some i) :
    Go.indexByteI s c = (i : Int) := by simp [Go.indexByteI, h]
theorem indexByteI_none {c : UInt8} {s : Bytes} (h : Bytes.indexOf c s = none) :
    Go.indexByteI s c = -1 := by simp [Go.indexByteI, h]

theorem sliceI_mid (s : Bytes) (lo hi : Nat) (h1 : lo ≤ hi) (h2 : hi ≤ s.length) :
    Go.sliceI s (lo : Int) (hi : Int) = .ok ((s.take hi).drop lo) := by
  unfold Go.sliceI Go.slice
  have h : ¬ ((lo : Int) < 0 ∨ (hi : Int) < 0) := by omega
  simp [h, h1, h2]

theorem sliceI_from1 (s : Bytes) (n : Nat) (h : n + 1 ≤ s.length) :
    Go.sliceI s ((n : Int) + 1) (s.length : Int) = .ok (s.drop (n + 1)) := by
  have := sliceI_from s (n + 1) h
  simpa using this

/-- `TreeIter.NextEntry` as regenerated from git/tree.go: the flat result is
    (Name, OID, Filemode, ok, remaining data) -/
theorem nextEntry_regenerated (data : Bytes) :
    Res.sim (fun (t : Bytes × Bytes × Nat × Bool × Bytes) (r : Option (TreeEntry × Bytes)) =>
        match r with
        | none => t = ([], Go.zeroOID, 0, false, data)
        | some (e, rest) => t = (e.name, e.oid, e.mode, true, rest))
      (Gen.Objs.TreeIter_NextEntry data) (nextEntry data) := by
  rw [nextEntry_eq]
  unfold Gen.Objs.TreeIter_NextEntry
  simp only [pure, bind, Res.bind]
  by_cases he : data = []
  · subst he; simp [Res.sim]
  · have hemp : data.isEmpty = false := by cases data <;> simp at he ⊢
    have hlen0 : ((data.length : Int) == 0) = false := by
      have : 0 < data.length := List.length_pos_iff.mpr he
      simp only [beq_eq_false_iff_ne, ne_eq]; omega
    simp only [hlen0, Bool.false_eq_true, if_false, hemp]
    cases hsp : Bytes.indexOf 32 data with
    | none => simp [indexByteI_none hsp, Res.sim]
    | some spAt =>
      have h1 := indexOf_lt hsp
      have hnn : ¬ ((spAt : Int) < 0) := by omega
      simp only [indexByteI_some hsp, hnn, decide_false, Bool.false_eq_true, if_false]
      rw [sliceI_take data spAt (Nat.le_of_lt h1)]
      simp only [Go.parseUintR]
      cases Go.parseUint (data.take spAt) 8 32 with
      | none => simp [Res.sim]
      | some mode =>
        simp only
        rw [sliceI_from1 data spAt (by omega)]
        simp only
        cases hn : Bytes.indexOf 0 (data.drop (spAt + 1)) with
        | none => simp [indexByteI_none hn, Res.sim]
        | some nulAt =>
          have h2 := indexOf_lt hn
          have hnn2 : ¬ ((nulAt : Int) < 0) := by omega
          simp only [indexByteI_some hn, hnn2, decide_false, Bool.false_eq_true, if_false]
          rw [sliceI_take _ nulAt (Nat.le_of_lt h2)]
          simp only
          rw [sliceI_from1 _ nulAt (by omega)]
          simp only
          generalize ((data.drop (spAt + 1)).drop (nulAt + 1)) = d2
          generalize ((data.drop (spAt + 1)).take nulAt) = nm
          by_cases hlen : d2.length < 20
          · have : (d2.length : Int) < 20 := by omega
            simp [this, hlen, Res.sim]
          · have : ¬ ((d2.length : Int) < 20) := by omega
            simp only [this, decide_false, Bool.false_eq_true, if_false, hlen]
            have h20 : 20 ≤ d2.length := by omega
            have e20 : (20 : Int) = ((20 : Nat) : Int) := rfl
            rw [e20, sliceI_take _ 20 h20, sliceI_from _ 20 h20]
            simp [Res.sim]

theorem indexSub_nlnl : ∀ (s : Bytes), Go.indexSub [10, 10] s = Bytes.index2 10 10 s := by
  intro s
  induction s with
  | nil => simp [Go.indexSub, Bytes.index2]
  | cons a t ih =>
    cases t with
    | nil => simp [Go.indexSub, Bytes.index2, Bytes.hasPrefix]
    | cons b r =>
      unfold Go.indexSub Bytes.index2
      rw [ih]
      by_cases ha : a = 10 <;> by_cases hb : b = 10 <;> simp [Bytes.hasPrefix, ha, hb]

/-- `NewObjectHeaderIter` as regenerated from git/obj_head_iter.go: (name, header block) -/
theorem headerBlock_regenerated (name data : Bytes) :
    Res.sim (fun (t : Bytes × Bytes) (b : Bytes) => t = (name, b))
      (Gen.Objs.NewObjectHeaderIter name data) (headerBlock data) := by
  unfold Gen.Objs.NewObjectHeaderIter headerBlock
  simp only [pure, bind, Res.bind, Go.indexSubI, indexSub_nlnl]
  cases hi : Bytes.index2 10 10 data with
  | none =>
    simp only [beq_self_eq_true, if_true]
    by_cases he : data = []
    · subst he; simp [Res.sim]
    · have hemp : data.isEmpty = false := by cases data <;> simp at he ⊢
      have hpos : 0 < data.length := List.length_pos_iff.mpr he
      have hlen0 : ((data.length : Int) == 0) = false := by
        simp only [beq_eq_false_iff_ne, ne_eq]; omega
      have hidx : ((data.length : Int) - 1) = ((data.length - 1 : Nat) : Int) := by omega
      simp only [hlen0, Bool.false_eq_true, if_false, hemp]
      rw [hidx, indexI_ok]
      unfold Go.index
      cases hg : data[data.length - 1]? with
      | none => simp [Res.sim]
      | some c =>
        simp only
        by_cases hc : c = 10
        · subst hc; simp [Res.sim]
        · have : (c != 10) = true := by simp [hc]
          simp [this, hc, Res.sim]
  | some headerEnd =>
    have hlt := index2_lt hi
    have hne : ((headerEnd : Int) == -1) = false := by
      simp only [beq_eq_false_iff_ne, ne_eq]; omega
    simp only [hne, Bool.false_eq_true, if_false]
    have := sliceI_take data (headerEnd + 1) (by omega)
    simp only [Int.natCast_add, Int.cast_ofNat_Int] at this
    rw [this, sliceTo_ok (by omega)]
    simp [Res.sim]

/-- `ObjectHeaderIter.Next` as regenerated: (key, value, iterator name, remaining data) -/
theorem nextHeader_regenerated (name data : Bytes) :
    Res.sim (fun (t : Bytes × Bytes × Bytes × Bytes) (r : Bytes × Bytes × Bytes) => t = (r.1, r.2.1, name, r.2.2))
      (Gen.Objs.ObjectHeaderIter_Next name data) (nextHeader data) := by
  rw [nextHeader_eq]
  unfold Gen.Objs.ObjectHeaderIter_Next
  simp only [pure, bind, Res.bind]
  by_cases he : data = []
  · subst he; simp [Res.sim]
  · have hemp : data.isEmpty = false := by cases data <;> simp at he ⊢
    have hlen0 : ((data.length : Int) == 0) = false := by
      have : 0 < data.length := List.length_pos_iff.mpr he
      simp only [beq_eq_false_iff_ne, ne_eq]; omega
    simp only [hlen0, Bool.false_eq_true, if_false, hemp]
    cases hk : Bytes.indexOf 32 data with
    | none => simp [indexByteI_none hk, Res.sim]
    | some keyEnd =>
      have h1 := indexOf_lt hk
      have hne : ((keyEnd : Int) == -1) = false := by
        simp only [beq_eq_false_iff_ne, ne_eq]; omega
      simp only [indexByteI_some hk, hne, Bool.false_eq_true, if_false]
      rw [sliceI_take data keyEnd (Nat.le_of_lt h1), sliceI_from1 data keyEnd (by omega)]
      simp only
      cases hv : Bytes.indexOf 10 (data.drop (keyEnd + 1)) with
      | none => simp [indexByteI_none hv, Res.sim]
      | some valueEnd =>
        have h2 := indexOf_lt hv
        have hne2 : ((valueEnd : Int) == -1) = false := by
          simp only [beq_eq_false_iff_ne, ne_eq]; omega
        simp only [indexByteI_some hv, hne2, Bool.false_eq_true, if_false]
        rw [sliceI_take _ valueEnd (Nat.le_of_lt h2), sliceI_from1 _ valueEnd (by omega)]
        simp [Res.sim]

/-- what `ParseCommit` does after its loop, applied to the model's stream result -/
def commitFinish (size : Nat) : Res (List Bytes × Option Bytes) → Res Commit
  | .ok (ps, some tr) => .ok ⟨size, ps, tr⟩
  | .ok (_, none) => .err "no-tree"
  | .err c => .err c
  | .panic c => .panic c

theorem hasNext_eq (name d : Bytes) :
    Gen.Objs.ObjectHeaderIter_HasNext name d = .ok (!d.isEmpty) := by
  unfold Gen.Objs.ObjectHeaderIter_HasNext
  cases d with
  | nil => simp [pure]
  | cons a t => simp [pure]

/-- the header loop of `ParseCommit` as regenerated, for every state the loop can be in; with
    fuel > len(iter.data) it never runs out of fuel -/
theorem parseCommit_loop_regenerated (oidS data : Bytes) : ∀ (fuel : Nat) (d : Bytes) (psRev : List Bytes)
    (t : Option Bytes) (tree : Bytes) (done : Bool) (name : Bytes), d.length < fuel → (∀ tr, t = some tr → tree = tr) →
    Res.sim (fun (x : Nat × List Bytes × Bytes) (c : Commit) => x = (c.size, c.parents, c.tree))
      (Gen.Objs.ParseCommit_loop1 oidS data fuel psRev.reverse tree t.isSome done name d)
      (commitFinish (clamp c32 data.length) (commitStream fuel d done psRev t)) := by
  intro fuel
  induction fuel with
  | zero => intro d _ _ _ _ _ h; omega
  | succ fuel ih =>
    intro d psRev t tree done name hfuel htree
    unfold Gen.Objs.ParseCommit_loop1 commitStream
    simp only [hasNext_eq, bind, Res.bind, pure]
    by_cases he : d = []
    · subst he
      simp only [List.isEmpty_nil, Bool.not_true, Bool.false_eq_true, if_false, if_true]
      cases t with
      | none => simp [commitFinish, Res.sim]
      | some tr =>
        have := htree tr rfl
        simp [commitFinish, Res.sim, clamp, c32, this]
    · have hemp : d.isEmpty = false := by cases d <;> simp at he ⊢
      simp only [hemp, Bool.not_false, if_true, Bool.false_eq_true, if_false]
      have hn := nextHeader_regenerated name d
      cases hm : nextHeader d with
      | err c =>
        rw [hm] at hn
        cases hg : Gen.Objs.ObjectHeaderIter_Next name d with
        | ok x => rw [hg] at hn; exact absurd hn (by simp [Res.sim])
        | err c2 => simp [commitFinish, Res.sim]
        | panic c2 => rw [hg] at hn; exact absurd hn (by simp [Res.sim])
      | panic c =>
        have := nextHeader_no_panic d
        rw [hm] at this; simp [Res.isPanic] at this
      | ok r =>
        obtain ⟨k, v, rest⟩ := r
        have hprog := nextHeader_progress hm
        have hrest : rest.length < fuel := by omega
        rw [hm] at hn
        cases hg : Gen.Objs.ObjectHeaderIter_Next name d with
        | err c2 => rw [hg] at hn; exact absurd hn (by simp [Res.sim])
        | panic c2 => rw [hg] at hn; exact absurd hn (by simp [Res.sim])
        | ok x =>
          rw [hg] at hn
          simp only [Res.sim] at hn
          subst hn
          simp only
          cases done with
          | true => simpa using ih rest psRev t tree true name hrest htree
          | false =>
            simp only [Bool.false_eq_true, if_false]
            by_cases hkp : k = kParent
            · subst hkp
              have : (kParent == ([112, 97, 114, 101, 110, 116] : Bytes)) = true := by decide
              simp only [this, if_true, Go.newOIDR]
              cases ho : Go.newOID v with
              | none => simp [commitFinish, Res.sim]
              | some o =>
                simp only
                have := ih rest (o :: psRev) t tree false name hrest htree
                simpa using this
            · have hkp' : (k == ([112, 97, 114, 101, 110, 116] : Bytes)) = false := by
                simp only [beq_eq_false_iff_ne, ne_eq]; exact hkp
              simp only [hkp', Bool.false_eq_true, if_false, hkp]
              by_cases hkt : k = kTree
              · subst hkt
                have : (kTree == ([116, 114, 101, 101] : Bytes)) = true := by decide
                simp only [this, if_true]
                cases t with
                | some tr => simp [commitFinish, Res.sim]
                | none =>
                  simp only [Option.isSome_none, Bool.false_eq_true, if_false, Go.newOIDR]
                  cases ho : Go.newOID v with
                  | none => simp [commitFinish, Res.sim]
                  | some o =>
                    simp only
                    have := ih rest psRev (some o) o false name hrest (by intro tr h; cases h; rfl)
                    simpa using this
              · have hkt' : (k == ([116, 114, 101, 101] : Bytes)) = false := by
                  simp only [beq_eq_false_iff_ne, ne_eq]; exact hkt
                simp only [hkt', Bool.false_eq_true, if_false, hkt]
                simpa using ih rest psRev t tree true name hrest htree

/-- **`ParseCommit` as regenerated from git/commit.go has the model's outcome on every byte string**:
    the same (size, parents, tree), or both an error; it never panics and never runs out of loop fuel -/
theorem parseCommit_regenerated (oidS data : Bytes) :
    Res.sim (fun (x : Nat × List Bytes × Bytes) (c : Commit) => x = (c.size, c.parents, c.tree))
      (Gen.Objs.ParseCommit oidS data) (parseCommit data) := by
  unfold Gen.Objs.ParseCommit parseCommit
  simp only [bind, Res.bind]
  have hb := headerBlock_regenerated oidS data
  cases hm : headerBlock data with
  | err c =>
    rw [hm] at hb
    cases hg : Gen.Objs.NewObjectHeaderIter oidS data with
    | ok x => rw [hg] at hb; exact absurd hb (by simp [Res.sim])
    | err c2 => simp [Res.sim]
    | panic c2 => rw [hg] at hb; exact absurd hb (by simp [Res.sim])
  | panic c =>
    have := headerBlock_no_panic data
    rw [hm] at this; simp [Res.isPanic] at this
  | ok block =>
    rw [hm] at hb
    cases hg : Gen.Objs.NewObjectHeaderIter oidS data with
    | err c2 => rw [hg] at hb; exact absurd hb (by simp [Res.sim])
    | panic c2 => rw [hg] at hb; exact absurd hb (by simp [Res.sim])
    | ok x =>
      rw [hg] at hb
      simp only [Res.sim] at hb
      subst hb
      simp only
      have := parseCommit_loop_regenerated oidS data (block.length + 1) block [] none Go.zeroOID false oidS
        (by omega) (by intro tr h; cases h)
      simp only [List.reverse_nil, Option.isSome_none] at this
      cases hs : commitStream (block.length + 1) block false [] none with
      | ok r =>
        obtain ⟨ps, t⟩ := r
        rw [hs] at this
        cases t with
        | none => simpa [commitFinish] using this
        | some tr => simpa [commitFinish] using this
      | err c => rw [hs] at this; simpa [commitFinish] using this
      | panic c => rw [hs] at this; simpa [commitFinish] using this

def tagFinish (size : Nat) : Res (Option Bytes × Option Bytes) → Res Tag
  | .ok (none, _) => .err "no-object"
  | .ok (some _, none) => .err "no-type"
  | .ok (some oid, some ty) => .ok ⟨size, oid, ty⟩
  | .err c => .err c
  | .panic c => .panic c

theorem parseTag_loop_regenerated (oidS data : Bytes) : ∀ (fuel : Nat) (d : Bytes)
    (o t : Option Bytes) (ref ty : Bytes) (done : Bool) (name : Bytes), d.length < fuel →
    (∀ x, o = some x → ref = x) → (∀ x, t = some x → ty = x) →
    Res.sim (fun (x : Nat × Bytes × Bytes) (c : Tag) => x = (c.size, c.referent, c.refType))
      (Gen.Objs.ParseTag_loop1 oidS data fuel ref o.isSome ty t.isSome done name d)
      (tagFinish (clamp c32 data.length) (tagStream fuel d done o t)) := by
  intro fuel
  induction fuel with
  | zero => intro d _ _ _ _ _ _ h; omega
  | succ fuel ih =>
    intro d o t ref ty done name hfuel ho ht
    unfold Gen.Objs.ParseTag_loop1 tagStream
    simp only [hasNext_eq, bind, Res.bind, pure]
    by_cases he : d = []
    · subst he
      simp only [List.isEmpty_nil, Bool.not_true, Bool.false_eq_true, if_false, if_true]
      cases o with
      | none => simp [tagFinish, Res.sim]
      | some x =>
        cases t with
        | none => simp [tagFinish, Res.sim]
        | some y =>
          have h1 := ho x rfl
          have h2 := ht y rfl
          simp [tagFinish, Res.sim, clamp, c32, h1, h2]
    · have hemp : d.isEmpty = false := by cases d <;> simp at he ⊢
      simp only [hemp, Bool.not_false, if_true, Bool.false_eq_true, if_false]
      have hn := nextHeader_regenerated name d
      cases hm : nextHeader d with
      | err c =>
        rw [hm] at hn
        cases hg : Gen.Objs.ObjectHeaderIter_Next name d with
        | ok x => rw [hg] at hn; exact absurd hn (by simp [Res.sim])
        | err c2 => simp [tagFinish, Res.sim]
        | panic c2 => rw [hg] at hn; exact absurd hn (by simp [Res.sim])
      | panic c =>
        have := nextHeader_no_panic d
        rw [hm] at this; simp [Res.isPanic] at this
      | ok r =>
        obtain ⟨k, v, rest⟩ := r
        have hprog := nextHeader_progress hm
        have hrest : rest.length < fuel := by omega
        rw [hm] at hn
        cases hg : Gen.Objs.ObjectHeaderIter_Next name d with
        | err c2 => rw [hg] at hn; exact absurd hn (by simp [Res.sim])
        | panic c2 => rw [hg] at hn; exact absurd hn (by simp [Res.sim])
        | ok x =>
          rw [hg] at hn
          simp only [Res.sim] at hn
          subst hn
          simp only
          cases done with
          | true => simpa using ih rest o t ref ty true name hrest ho ht
          | false =>
            simp only [Bool.false_eq_true, if_false]
            by_cases hko : k = kObject
            · subst hko
              have : (kObject == ([111, 98, 106, 101, 99, 116] : Bytes)) = true := by decide
              simp only [this, if_true]
              cases o with
              | some x => simp [tagFinish, Res.sim]
              | none =>
                simp only [Option.isSome_none, Bool.false_eq_true, if_false, Go.newOIDR]
                cases hoid : Go.newOID v with
                | none => simp [tagFinish, Res.sim]
                | some oid =>
                  simp only
                  have := ih rest (some oid) t oid ty false name hrest (by intro x h; cases h; rfl) ht
                  simpa using this
            · have hko' : (k == ([111, 98, 106, 101, 99, 116] : Bytes)) = false := by
                simp only [beq_eq_false_iff_ne, ne_eq]; exact hko
              simp only [hko', Bool.false_eq_true, if_false, hko]
              by_cases hkt : k = kType
              · subst hkt
                have : (kType == ([116, 121, 112, 101] : Bytes)) = true := by decide
                simp only [this, if_true]
                cases t with
                | some y => simp [tagFinish, Res.sim]
                | none =>
                  simp only [Option.isSome_none, Bool.false_eq_true, if_false]
                  have := ih rest o (some v) ref v false name hrest ho (by intro x h; cases h; rfl)
                  simpa using this
              · have hkt' : (k == ([116, 121, 112, 101] : Bytes)) = false := by
                  simp only [beq_eq_false_iff_ne, ne_eq]; exact hkt
                simp only [hkt', Bool.false_eq_true, if_false, hkt]
                simpa using ih rest o t ref ty true name hrest ho ht

/-- **`ParseTag` as regenerated from git/tag.go has the model's outcome on every byte string** -/
theorem parseTag_regenerated (oidS data : Bytes) :
    Res.sim (fun (x : Nat × Bytes × Bytes) (c : Tag) => x = (c.size, c.referent, c.refType))
      (Gen.Objs.ParseTag oidS data) (parseTag data) := by
  unfold Gen.Objs.ParseTag parseTag
  simp only [bind, Res.bind]
  have hb := headerBlock_regenerated oidS data
  cases hm : headerBlock data with
  | err c =>
    rw [hm] at hb
    cases hg : Gen.Objs.NewObjectHeaderIter oidS data with
    | ok x => rw [hg] at hb; exact absurd hb (by simp [Res.sim])
    | err c2 => simp [Res.sim]
    | panic c2 => rw [hg] at hb; exact absurd hb (by simp [Res.sim])
  | panic c =>
    have := headerBlock_no_panic data
    rw [hm] at this; simp [Res.isPanic] at this
  | ok block =>
    rw [hm] at hb
    cases hg : Gen.Objs.NewObjectHeaderIter oidS data with
    | err c2 => rw [hg] at hb; exact absurd hb (by simp [Res.sim])
    | panic c2 => rw [hg] at hb; exact absurd hb (by simp [Res.sim])
    | ok x =>
      rw [hg] at hb
      simp only [Res.sim] at hb
      subst hb
      simp only
      have := parseTag_loop_regenerated oidS data (block.length + 1) block none none Go.zeroOID [] false oidS
        (by omega) (by intro x h; cases h) (by intro x h; cases h)
      simp only [Option.isSome_none] at this
      cases hs : tagStream (block.length + 1) block false none none with
      | ok r =>
        obtain ⟨o, t⟩ := r
        rw [hs] at this
        cases o with
        | none => simpa [tagFinish] using this
        | some x =>
          cases t with
          | none => simpa [tagFinish] using this
          | some y => simpa [tagFinish] using this
      | err c => rw [hs] at this; simpa [tagFinish] using this
      | panic c => rw [hs] at this; simpa [tagFinish] using this

end GitSizer
