import GitSizer.Model.Human
import Mathlib.Tactic.Ring
import Mathlib.Tactic.Linarith
import Mathlib.Tactic.Positivity
import Mathlib.Tactic.FieldSimp
import Mathlib.Tactic.NormNum
import Mathlib.Tactic.Zify
import Mathlib.Tactic.Qify
import Mathlib.Tactic.GCongr
import Mathlib.Algebra.Order.Field.Basic
import Mathlib.Algebra.Order.Field.Power
/-! Correctness of the integer model of IEEE-754 double rounding used by `Model/Human`
    (`rhe`, `norm53`, `rn53`): round-half-even is within 1/2 and monotone; `rn53 a b` is the
    quotient rounded to 53 significant bits — relative error ≤ 2^-53, monotone, exact on dyadic
    values with a 53-bit numerator. (Mathlib tactics are used in this proof module only; the
    model and the driver stay core-only.) -/
namespace GitSizer.Human

/-! ## round-half-even -/

theorem rhe_nat (a b : Nat) (hb : 0 < b) :
    2 * b * rhe a b ≤ 2 * a + b ∧ 2 * a ≤ 2 * b * rhe a b + b ∧
    (2 * b * rhe a b = 2 * a + b → rhe a b % 2 = 0) ∧ (2 * a = 2 * b * rhe a b + b → rhe a b % 2 = 0) := by
  have hdm := Nat.div_add_mod a b
  have hr : a % b < b := Nat.mod_lt a hb
  unfold rhe
  generalize a / b = q at *
  generalize a % b = r at *
  have e1 : 2 * b * (q + 1) = 2 * (b * q) + 2 * b := by ring
  have e2 : 2 * b * q = 2 * (b * q) := by ring
  simp only []
  split
  · rw [e1]; refine ⟨by omega, by omega, by omega, by omega⟩
  · split
    · rw [e2]; refine ⟨by omega, by omega, by omega, by omega⟩
    · split
      · rw [e2]; refine ⟨by omega, by omega, fun _ => by assumption, fun _ => by assumption⟩
      · rw [e1]; refine ⟨by omega, by omega, fun _ => by omega, fun _ => by omega⟩

/-- the four facts over ℚ: |R − a/b| ≤ 1/2, with equality only for even R -/
theorem rhe_rat (a b : Nat) (hb : 0 < b) :
    ((rhe a b : ℕ) : ℚ) ≤ (a : ℚ) / b + 1 / 2 ∧ (a : ℚ) / b - 1 / 2 ≤ (rhe a b : ℚ) ∧
    (((rhe a b : ℕ) : ℚ) = (a : ℚ) / b + 1 / 2 → rhe a b % 2 = 0) ∧
    (((rhe a b : ℕ) : ℚ) = (a : ℚ) / b - 1 / 2 → rhe a b % 2 = 0) := by
  obtain ⟨h1, h2, h3, h4⟩ := rhe_nat a b hb
  have hbq : (0 : ℚ) < b := by exact_mod_cast hb
  have h1q : (2 : ℚ) * b * (rhe a b : ℕ) ≤ 2 * a + b := by exact_mod_cast h1
  have h2q : (2 : ℚ) * a ≤ 2 * b * (rhe a b : ℕ) + b := by exact_mod_cast h2
  have key : (a : ℚ) / b * b = a := div_mul_cancel₀ _ (ne_of_gt hbq)
  refine ⟨?_, ?_, ?_, ?_⟩
  · have : ((rhe a b : ℕ) : ℚ) * b ≤ ((a : ℚ) / b + 1 / 2) * b := by rw [add_mul, key]; linarith
    exact le_of_mul_le_mul_right this hbq
  · have : ((a : ℚ) / b - 1 / 2) * b ≤ ((rhe a b : ℕ) : ℚ) * b := by rw [sub_mul, key]; linarith
    exact le_of_mul_le_mul_right this hbq
  · intro h
    apply h3
    have : ((rhe a b : ℕ) : ℚ) * b = ((a : ℚ) / b + 1 / 2) * b := by rw [h]
    rw [add_mul, key] at this
    have : (2 : ℚ) * b * (rhe a b : ℕ) = 2 * a + b := by linarith
    exact_mod_cast this
  · intro h
    apply h4
    have : ((rhe a b : ℕ) : ℚ) * b = ((a : ℚ) / b - 1 / 2) * b := by rw [h]
    rw [sub_mul, key] at this
    have : (2 : ℚ) * a = 2 * b * (rhe a b : ℕ) + b := by linarith
    exact_mod_cast this

/-- round-half-even is monotone in the rational it rounds -/
theorem rhe_mono (a b a' b' : Nat) (hb : 0 < b) (hb' : 0 < b')
    (h : (a : ℚ) / b ≤ (a' : ℚ) / b') : rhe a b ≤ rhe a' b' := by
  obtain ⟨u1, _, u3, _⟩ := rhe_rat a b hb
  obtain ⟨_, l2, _, l4⟩ := rhe_rat a' b' hb'
  by_contra hc
  have hc' : rhe a' b' + 1 ≤ rhe a b := by omega
  have hcq : ((rhe a' b' : ℕ) : ℚ) + 1 ≤ (rhe a b : ℕ) := by exact_mod_cast hc'
  have e1 : ((rhe a b : ℕ) : ℚ) = (a : ℚ) / b + 1 / 2 := by linarith
  have e2 : ((rhe a' b' : ℕ) : ℚ) = (a' : ℚ) / b' - 1 / 2 := by linarith
  have p1 := u3 e1
  have p2 := l4 e2
  have e3 : ((rhe a b : ℕ) : ℚ) = (rhe a' b' : ℕ) + 1 := by linarith
  have : rhe a b = rhe a' b' + 1 := by exact_mod_cast e3
  omega

/-- an integer below (above) the rational stays below (above) its rounding -/
theorem rhe_ge (a b k : Nat) (hb : 0 < b) (h : k * b ≤ a) : k ≤ rhe a b := by
  obtain ⟨_, h2, _, _⟩ := rhe_nat a b hb
  by_contra hc
  have : rhe a b + 1 ≤ k := by omega
  have : (rhe a b + 1) * b ≤ k * b := Nat.mul_le_mul_right _ this
  have e : 2 * b * rhe a b + 2 * b = 2 * ((rhe a b + 1) * b) := by ring
  omega

theorem rhe_le (a b k : Nat) (hb : 0 < b) (h : a ≤ k * b) : rhe a b ≤ k := by
  obtain ⟨h1, _, _, _⟩ := rhe_nat a b hb
  by_contra hc
  have : k + 1 ≤ rhe a b := by omega
  have : (k + 1) * b ≤ rhe a b * b := Nat.mul_le_mul_right _ this
  have e : 2 * b * rhe a b = 2 * (rhe a b * b) := by ring
  have e2 : (k + 1) * b = k * b + b := by ring
  omega

theorem rhe_exact (k b : Nat) (hb : 0 < b) : rhe (k * b) b = k :=
  Nat.le_antisymm (rhe_le _ _ _ hb (Nat.le_refl _)) (rhe_ge _ _ _ hb (Nat.le_refl _))


/-! ## binade normalisation -/

theorem bitlen_spec (n : Nat) (hn : n ≠ 0) :
    1 ≤ bitlen n ∧ 2 ^ (bitlen n - 1) ≤ n ∧ n < 2 ^ bitlen n := by
  unfold bitlen
  simp only [hn, if_false]
  refine ⟨by omega, ?_, Nat.lt_log2_self⟩
  simpa using Nat.log2_self_le hn

theorem norm53_spec (a b : Nat) (ha : 0 < a) (hb : 0 < b) :
    ((norm53 a b).1 = 0 ∨ (norm53 a b).2 = 0) ∧
    2 ^ 52 * (b * 2 ^ (norm53 a b).2) ≤ a * 2 ^ (norm53 a b).1 ∧
    a * 2 ^ (norm53 a b).1 < 2 ^ 53 * (b * 2 ^ (norm53 a b).2) := by
  obtain ⟨hla, hxa, hax⟩ := bitlen_spec a (by omega)
  obtain ⟨hlb, hyb, hby⟩ := bitlen_spec b (by omega)
  unfold norm53
  simp only [Nat.shiftLeft_eq]
  generalize bitlen a = la at *
  generalize bitlen b = lb at *
  have hx2 : 2 ^ la = 2 * 2 ^ (la - 1) := by
    rw [← pow_succ']; congr 1; omega
  have hy2 : 2 ^ lb = 2 * 2 ^ (lb - 1) := by
    rw [← pow_succ']; congr 1; omega
  generalize hx : 2 ^ (la - 1) = x at *
  generalize hy : 2 ^ (lb - 1) = y at *
  by_cases hcase : la ≤ 53 + lb
  · -- shift the numerator up
    have hd0 : la - (53 + lb) = 0 := by omega
    rw [hd0]
    have hxy : 2 ^ (53 + lb - la) * x = 2 ^ 53 * y := by
      rw [← hx, ← hy, ← pow_add, ← pow_add]; congr 1; omega
    have hUpos : 0 < 2 ^ (53 + lb - la) := by positivity
    by_cases hu : 53 + lb - la > 0
    · have hU2 : 2 ^ (53 + lb - la) = 2 * 2 ^ (53 + lb - la - 1) := by
        rw [← pow_succ']; congr 1; omega
      simp only [hu, if_true, pow_zero, Nat.mul_one]
      split
      · rename_i ht
        simp only [pow_zero, Nat.mul_one]
        generalize 2 ^ (53 + lb - la - 1) = V at *
        generalize 2 ^ (53 + lb - la) = U at *
        have h1 : U * x ≤ U * a := Nat.mul_le_mul_left _ hxa
        have h2 : U * a < U * (2 * x) := Nat.mul_lt_mul_of_pos_left (by omega) hUpos
        have h3 : U * (2 * x) = 2 * (U * x) := by ring
        have e1 : a * U = U * a := by ring
        have e2 : 2 * (a * V) = U * a := by rw [hU2]; ring
        have ht' : 2 ^ 53 * b ≤ a * U := (Nat.le_div_iff_mul_le hb).mp ht
        refine ⟨Or.inr trivial, ?_, ?_⟩ <;> omega
      · rename_i ht
        simp only [pow_zero, Nat.mul_one]
        generalize 2 ^ (53 + lb - la) = U at *
        have h1 : U * x ≤ U * a := Nat.mul_le_mul_left _ hxa
        have h2 : U * a < U * (2 * x) := Nat.mul_lt_mul_of_pos_left (by omega) hUpos
        have h3 : U * (2 * x) = 2 * (U * x) := by ring
        have e1 : a * U = U * a := by ring
        have ht' : a * U < 2 ^ 53 * b := by
          have := (Nat.div_lt_iff_lt_mul hb).mp (Nat.lt_of_not_ge ht); omega
        refine ⟨Or.inr trivial, ?_, ?_⟩ <;> omega
    · have hu0 : 53 + lb - la = 0 := by omega
      rw [hu0] at hxy ⊢
      simp only [pow_zero, Nat.one_mul, Nat.mul_one, Nat.lt_irrefl, if_false] at hxy ⊢
      split
      · rename_i ht
        have ht' : 2 ^ 53 * b ≤ a := (Nat.le_div_iff_mul_le hb).mp ht
        refine ⟨Or.inl rfl, ?_, ?_⟩ <;> simp only [pow_zero, Nat.mul_one] <;> omega
      · rename_i ht
        have ht' : a < 2 ^ 53 * b := by
          have := (Nat.div_lt_iff_lt_mul hb).mp (Nat.lt_of_not_ge ht); omega
        refine ⟨Or.inl rfl, ?_, ?_⟩ <;> simp only [pow_zero, Nat.mul_one] <;> omega
  · -- shift the denominator up
    have hu0 : 53 + lb - la = 0 := by omega
    rw [hu0]
    have hxy : x = 2 ^ 53 * (y * 2 ^ (la - (53 + lb))) := by
      rw [← hx, ← hy, ← pow_add, ← pow_add]; congr 1; omega
    have hDpos : 0 < 2 ^ (la - (53 + lb)) := by positivity
    have hD2 : 2 ^ (la - (53 + lb) + 1) = 2 * 2 ^ (la - (53 + lb)) := by rw [pow_succ']
    simp only [pow_zero, Nat.mul_one, gt_iff_lt, Nat.lt_irrefl, if_false]
    split
    · rename_i ht
      simp only [pow_zero, Nat.mul_one, hD2]
      generalize 2 ^ (la - (53 + lb)) = D at *
      have h1 : y * D ≤ b * D := Nat.mul_le_mul_right _ hyb
      have h2 : b * D < 2 * y * D := Nat.mul_lt_mul_of_pos_right (by omega) hDpos
      have h3 : 2 * y * D = 2 * (y * D) := by ring
      have e1 : b * (2 * D) = 2 * (b * D) := by ring
      have hBpos : 0 < b * D := Nat.mul_pos hb hDpos
      have ht' : 2 ^ 53 * (b * D) ≤ a := (Nat.le_div_iff_mul_le hBpos).mp ht
      refine ⟨Or.inl trivial, ?_, ?_⟩ <;> omega
    · rename_i ht
      simp only [pow_zero, Nat.mul_one]
      generalize 2 ^ (la - (53 + lb)) = D at *
      have h1 : y * D ≤ b * D := Nat.mul_le_mul_right _ hyb
      have h2 : b * D < 2 * y * D := Nat.mul_lt_mul_of_pos_right (by omega) hDpos
      have h3 : 2 * y * D = 2 * (y * D) := by ring
      have hBpos : 0 < b * D := Nat.mul_pos hb hDpos
      have ht' : a < 2 ^ 53 * (b * D) := by
        have := (Nat.div_lt_iff_lt_mul hBpos).mp (Nat.lt_of_not_ge ht); omega
      refine ⟨Or.inl trivial, ?_, ?_⟩ <;> omega


/-! ## `rn53`: the quotient rounded to 53 significant bits -/

/-- the rational value of a dyadic -/
def Dy.val (x : Dy) : ℚ := (x.num : ℚ) / x.den

/-- the scaled numerator / denominator / rounded significand / scale 2^d/2^u of `rn53 a b` -/
def sigA (a b : Nat) : Nat := a * 2 ^ (norm53 a b).1
def sigB (a b : Nat) : Nat := b * 2 ^ (norm53 a b).2
def sig (a b : Nat) : Nat := rhe (sigA a b) (sigB a b)
def expo (a b : Nat) : ℤ := ((norm53 a b).2 : ℤ) - (norm53 a b).1
def scale (a b : Nat) : ℚ := (2 : ℚ) ^ (expo a b)

theorem scale_pos (a b : Nat) : 0 < scale a b := by unfold scale; positivity

theorem scale_eq (a b : Nat) : scale a b = (2 : ℚ) ^ (norm53 a b).2 / 2 ^ (norm53 a b).1 := by
  unfold scale expo
  rw [zpow_sub₀ (by norm_num : (2 : ℚ) ≠ 0), zpow_natCast, zpow_natCast]

theorem sigB_pos (a b : Nat) (hb : 0 < b) : 0 < sigB a b := Nat.mul_pos hb (by positivity)

/-- A/B = (a/b) / scale -/
theorem sig_ratio (a b : Nat) (hb : 0 < b) :
    (sigA a b : ℚ) / sigB a b = (a : ℚ) / b / scale a b := by
  have hbq : (b : ℚ) ≠ 0 := by exact_mod_cast (Nat.pos_iff_ne_zero.mp hb)
  rw [scale_eq]; unfold sigA sigB
  push_cast
  field_simp

theorem rn53_val (a b : Nat) (ha : 0 < a) :
    (rn53 a b).val = (sig a b : ℚ) * scale a b := by
  unfold rn53 Dy.val
  simp only [Nat.pos_iff_ne_zero.mp ha, if_false, Nat.shiftLeft_eq]
  rw [scale_eq]; unfold sig sigA sigB
  push_cast
  field_simp

/-- the scaled quotient lies in [2^52, 2^53) -/
theorem sig_range (a b : Nat) (ha : 0 < a) (hb : 0 < b) :
    (2 : ℚ) ^ 52 ≤ (a : ℚ) / b / scale a b ∧ (a : ℚ) / b / scale a b < 2 ^ 53 := by
  obtain ⟨_, h1, h2⟩ := norm53_spec a b ha hb
  rw [← sig_ratio a b hb]
  have hB : (0 : ℚ) < sigB a b := by exact_mod_cast sigB_pos a b hb
  have h1q : (2 : ℚ) ^ 52 * sigB a b ≤ sigA a b := by unfold sigA sigB; exact_mod_cast h1
  have h2q : (sigA a b : ℚ) < 2 ^ 53 * sigB a b := by unfold sigA sigB; exact_mod_cast h2
  exact ⟨(le_div_iff₀ hB).mpr h1q, (div_lt_iff₀ hB).mpr h2q⟩

theorem sig_bounds (a b : Nat) (ha : 0 < a) (hb : 0 < b) : 2 ^ 52 ≤ sig a b ∧ sig a b ≤ 2 ^ 53 := by
  obtain ⟨_, h1, h2⟩ := norm53_spec a b ha hb
  constructor
  · exact rhe_ge _ _ _ (sigB_pos a b hb) h1
  · exact rhe_le _ _ _ (sigB_pos a b hb) (Nat.le_of_lt h2)

/-- **relative error at most 2^-53** -/
theorem rn53_error (a b : Nat) (ha : 0 < a) (hb : 0 < b) :
    |(rn53 a b).val - (a : ℚ) / b| ≤ (a : ℚ) / b / 2 ^ 53 := by
  obtain ⟨r1, r2, _, _⟩ := rhe_rat (sigA a b) (sigB a b) (sigB_pos a b hb)
  obtain ⟨g1, _⟩ := sig_range a b ha hb
  rw [sig_ratio a b hb] at r1 r2
  rw [rn53_val a b ha]
  have hs := scale_pos a b
  generalize scale a b = ρ at *
  generalize (a : ℚ) / b = X at *
  change ((sig a b : ℕ) : ℚ) ≤ _ at r1
  change _ ≤ ((sig a b : ℕ) : ℚ) at r2
  generalize ((sig a b : ℕ) : ℚ) = T at *
  have hX : X / ρ * ρ = X := div_mul_cancel₀ _ (ne_of_gt hs)
  have g1' : (2 : ℚ) ^ 52 * ρ ≤ X := by
    have := mul_le_mul_of_nonneg_right g1 (le_of_lt hs); rwa [hX] at this
  have u : T * ρ ≤ X + ρ / 2 := by
    have := mul_le_mul_of_nonneg_right r1 (le_of_lt hs); rw [add_mul, hX] at this; linarith
  have l : X - ρ / 2 ≤ T * ρ := by
    have := mul_le_mul_of_nonneg_right r2 (le_of_lt hs); rw [sub_mul, hX] at this; linarith
  have hb53 : ρ / 2 ≤ X / 2 ^ 53 := by
    rw [le_div_iff₀ (by positivity)]
    have : (2 : ℚ) ^ 53 = 2 * 2 ^ 52 := by norm_num
    rw [this]; linarith
  rw [abs_le]; constructor <;> linarith

/-- **monotone** in the quotient -/
theorem rn53_mono (a b a' b' : Nat) (ha : 0 < a) (hb : 0 < b) (ha' : 0 < a') (hb' : 0 < b')
    (h : (a : ℚ) / b ≤ (a' : ℚ) / b') : (rn53 a b).val ≤ (rn53 a' b').val := by
  rw [rn53_val a b ha, rn53_val a' b' ha']
  obtain ⟨g1, g2⟩ := sig_range a b ha hb
  obtain ⟨g1', g2'⟩ := sig_range a' b' ha' hb'
  obtain ⟨t1, t2⟩ := sig_bounds a b ha hb
  obtain ⟨t1', t2'⟩ := sig_bounds a' b' ha' hb'
  have hs := scale_pos a b
  have hs' := scale_pos a' b'
  rcases lt_trichotomy (expo a b) (expo a' b') with hlt | heq | hgt
  · -- smaller binade: separated by the power of two between them
    have h2 : 2 * scale a b ≤ scale a' b' := by
      unfold scale
      have : (2 : ℚ) ^ (expo a b + 1) ≤ 2 ^ (expo a' b') := zpow_le_zpow_right₀ (by norm_num) (by omega)
      rwa [zpow_add_one₀ (by norm_num : (2 : ℚ) ≠ 0), mul_comm] at this
    have ht : ((sig a b : ℕ) : ℚ) ≤ 2 ^ 53 := by exact_mod_cast t2
    have ht' : (2 : ℚ) ^ 52 ≤ ((sig a' b' : ℕ) : ℚ) := by exact_mod_cast t1'
    calc ((sig a b : ℕ) : ℚ) * scale a b ≤ 2 ^ 53 * scale a b := by gcongr
      _ = 2 ^ 52 * (2 * scale a b) := by ring
      _ ≤ 2 ^ 52 * scale a' b' := by gcongr
      _ ≤ ((sig a' b' : ℕ) : ℚ) * scale a' b' := by gcongr
  · -- same binade: round-half-even is monotone
    have hsc : scale a b = scale a' b' := by unfold scale; rw [heq]
    have : sig a b ≤ sig a' b' := by
      apply rhe_mono _ _ _ _ (sigB_pos a b hb) (sigB_pos a' b' hb')
      rw [sig_ratio a b hb, sig_ratio a' b' hb', hsc]
      exact div_le_div_of_nonneg_right h (le_of_lt hs')
    rw [hsc]
    have : ((sig a b : ℕ) : ℚ) ≤ (sig a' b' : ℕ) := by exact_mod_cast this
    gcongr
  · -- impossible: the smaller quotient cannot live in the larger binade
    exfalso
    have h2 : 2 * scale a' b' ≤ scale a b := by
      unfold scale
      have : (2 : ℚ) ^ (expo a' b' + 1) ≤ 2 ^ (expo a b) := zpow_le_zpow_right₀ (by norm_num) (by omega)
      rwa [zpow_add_one₀ (by norm_num : (2 : ℚ) ≠ 0), mul_comm] at this
    have e1 : (2 : ℚ) ^ 52 * scale a b ≤ (a : ℚ) / b := (le_div_iff₀ hs).mp g1
    have e2 : (a' : ℚ) / b' < 2 ^ 53 * scale a' b' := (div_lt_iff₀ hs').mp g2'
    have : (2 : ℚ) ^ 53 * scale a' b' ≤ 2 ^ 52 * scale a b := by
      calc (2 : ℚ) ^ 53 * scale a' b' = 2 ^ 52 * (2 * scale a' b') := by ring
        _ ≤ 2 ^ 52 * scale a b := by gcongr
    linarith

/-- exact when the scaled quotient is an integer -/
theorem rn53_exact (a b : Nat) (ha : 0 < a) (hb : 0 < b) (k : Nat) (hk : sigA a b = k * sigB a b) :
    (rn53 a b).val = (a : ℚ) / b := by
  rw [rn53_val a b ha]
  have hB := sigB_pos a b hb
  have hBq : (sigB a b : ℚ) ≠ 0 := by exact_mod_cast (Nat.pos_iff_ne_zero.mp hB)
  have : sig a b = k := by unfold sig; rw [hk]; exact rhe_exact k _ hB
  rw [this]
  have hr := sig_ratio a b hb
  rw [hk] at hr
  push_cast at hr
  rw [mul_div_assoc, div_self hBq, mul_one] at hr
  rw [hr]
  exact div_mul_cancel₀ _ (ne_of_gt (scale_pos a b))

end GitSizer.Human
