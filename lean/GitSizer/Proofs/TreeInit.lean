import GitSizer.Proofs.Sizes
/-! `treeRecord.initialize` in SOURCE ORDER: one pass over the entries of the tree, with the four
    cases of the `switch` (subtree known → `addDescendent`, subtree unknown → listener and
    `pending++`, submodule → `addSubmodule`, symlink → `addLink`, otherwise → `addBlob`), using the
    REGENERATED `add*` methods. It is proved equal to what the aggregator model runs: the fold of
    the non-tree entries (`baseB`) followed by `Agg.initLoop` over the subtree entries — the sizes
    form a commutative monoid, so the interleaving does not matter. -/
namespace GitSizer.Graph
open GitSizer GitSizer.Spec Gen Agg

/-- the entry loop of `initialize`, statement by statement -/
def initEntries (blobSz : Nat → BlobSize) (parent : Nat) :
    List Entry → Agg.St TreeSize → Int → TreeSize → Agg.St TreeSize × Int × TreeSize
  | [], st, p, s => (st, p, s)
  | e :: es, st, p, s =>
    match e.kind with
    | .tree =>
      match st.sizes e.oid with
      | some sc => initEntries blobSz parent es st p (TreeSize.addDescendent s e.name sc)
      | none =>
        let r := (st.recs e.oid).getD (Agg.newRec (α := TreeSize) ⟨TS.op, TS.unit, TS.desc, fun _ => TS.unit, fun _ => []⟩)
        let st' := { st with recs := Agg.upd st.recs e.oid (some { r with listeners := r.listeners ++ [(parent, e.name.length)] }) }
        initEntries blobSz parent es st' (p + 1) s
    | .gitlink => initEntries blobSz parent es st p (TreeSize.addSubmodule s e.name)
    | .symlink => initEntries blobSz parent es st p (TreeSize.addLink s e.name)
    | .blob => initEntries blobSz parent es st p (TreeSize.addBlob s e.name (blobSz e.oid))

/-- the non-tree entries folded from an arbitrary start -/
def baseFrom (blobSz : Nat → BlobSize) (s : TreeSize) (es : List Entry) : TreeSize :=
  es.foldl (fun acc e =>
    match e.kind with
    | .tree => acc
    | .blob => TreeSize.addBlob acc e.name (blobSz e.oid)
    | .symlink => TreeSize.addLink acc e.name
    | .gitlink => TreeSize.addSubmodule acc e.name) s

def kidsOf (es : List Entry) : List (Nat × Nat) :=
  es.filterMap (fun e => if e.kind = .tree then some (e.name.length, e.oid) else none)

theorem TS_comm (a b : TreeSize) : TS.op a b = TS.op b a := (lawsB []).comm a b
theorem TS_assoc (a b c : TreeSize) : TS.op (TS.op a b) c = TS.op a (TS.op b c) := (lawsB []).assoc a b c

/-- adding a contribution before or after the non-tree entries is the same -/
theorem baseFrom_op (blobSz : Nat → BlobSize) (d : TreeSize) : ∀ (es : List Entry) (s : TreeSize),
    baseFrom blobSz (TS.op s d) es = TS.op (baseFrom blobSz s es) d := by
  intro es
  induction es with
  | nil => intro s; rfl
  | cons e es ih =>
    intro s
    have hswap : ∀ x, TS.op (TS.op s d) x = TS.op (TS.op s x) d := by
      intro x; rw [TS_assoc, TS_comm d x, ← TS_assoc]
    simp only [baseFrom, List.foldl_cons]
    cases hk : e.kind with
    | tree => simp only; exact ih s
    | blob => simp only; rw [addBlob_eq, addBlob_eq, hswap]; exact ih _
    | symlink => simp only; rw [addLink_eq, addLink_eq, hswap]; exact ih _
    | gitlink => simp only; rw [addSubmodule_eq, addSubmodule_eq, hswap]; exact ih _

/-- **source order = model order** -/
theorem initEntries_eq (P : Agg.Params TreeSize) (hop : P.op = TS.op) (hdesc : P.desc = TS.desc) (hunit : P.unit = TS.unit)
    (blobSz : Nat → BlobSize) (parent : Nat) :
    ∀ (es : List Entry) (st : Agg.St TreeSize) (p : Int) (s : TreeSize),
      initEntries blobSz parent es st p s = Agg.initLoop P parent (kidsOf es) st p (baseFrom blobSz s es) := by
  intro es
  induction es with
  | nil => intro st p s; rfl
  | cons e es ih =>
    intro st p s
    cases hk : e.kind with
    | tree =>
      have hkids : kidsOf (e :: es) = (e.name.length, e.oid) :: kidsOf es := by
        simp [kidsOf, List.filterMap_cons, hk]
      have hbase : baseFrom blobSz s (e :: es) = baseFrom blobSz s es := by
        simp [baseFrom, List.foldl_cons, hk]
      rw [hkids, hbase]
      simp only [initEntries, hk, Agg.initLoop]
      cases hs : st.sizes e.oid with
      | some sc =>
        simp only
        rw [ih, addDescendent_eq, baseFrom_op, hop, hdesc]
      | none =>
        simp only
        rw [ih]
        simp only [Agg.newRec, hunit]
    | blob =>
      have hkids : kidsOf (e :: es) = kidsOf es := by simp [kidsOf, List.filterMap_cons, hk]
      have hbase : baseFrom blobSz s (e :: es) = baseFrom blobSz (TreeSize.addBlob s e.name (blobSz e.oid)) es := by
        simp [baseFrom, List.foldl_cons, hk]
      rw [hkids, hbase]; simp only [initEntries, hk]; exact ih _ _ _
    | symlink =>
      have hkids : kidsOf (e :: es) = kidsOf es := by simp [kidsOf, List.filterMap_cons, hk]
      have hbase : baseFrom blobSz s (e :: es) = baseFrom blobSz (TreeSize.addLink s e.name) es := by
        simp [baseFrom, List.foldl_cons, hk]
      rw [hkids, hbase]; simp only [initEntries, hk]; exact ih _ _ _
    | gitlink =>
      have hkids : kidsOf (e :: es) = kidsOf es := by simp [kidsOf, List.filterMap_cons, hk]
      have hbase : baseFrom blobSz s (e :: es) = baseFrom blobSz (TreeSize.addSubmodule s e.name) es := by
        simp [baseFrom, List.foldl_cons, hk]
      rw [hkids, hbase]; simp only [initEntries, hk]; exact ih _ _ _

/-- for the tree parameters of a repository: `initialize` in source order, started from
    `newTreeSize`, is the aggregator's `initLoop` over `treeKids` started from `baseB` -/
theorem initialize_is_model (r : Repo) (t : Nat) (st : Agg.St TreeSize) :
    initEntries (blobSize32 r) t (r.entries t) st 0 newTreeSize =
      Agg.initLoop (PB r) t ((PB r).kids t) st 0 ((PB r).base t) :=
  initEntries_eq (PB r) rfl rfl rfl (blobSize32 r) t (r.entries t) st 0 newTreeSize

end GitSizer.Graph
