import GitSizer.Proofs.History
/-! Frame lemmas over the REGENERATED `record*` methods: each of them changes only the fields of
    its own object kind. Stated through per-kind projections of the numeric fields. -/
namespace GitSizer.Graph
open GitSizer Gen
set_option linter.unusedSimpArgs false

/-- numeric fields, grouped by the kind of object that feeds them -/
def blobNums (h : HistorySize) : List Nat := [h.UniqueBlobCount.toNat, h.UniqueBlobSize.toNat, h.MaxBlobSize.toNat]
def treeNums (h : HistorySize) : List Nat :=
  [h.UniqueTreeCount.toNat, h.UniqueTreeSize.toNat, h.UniqueTreeEntries.toNat, h.MaxTreeEntries.toNat,
   h.MaxPathDepth.toNat, h.MaxPathLength.toNat, h.MaxExpandedTreeCount.toNat, h.MaxExpandedBlobCount.toNat,
   h.MaxExpandedBlobSize.toNat, h.MaxExpandedLinkCount.toNat, h.MaxExpandedSubmoduleCount.toNat]
def commitNums (h : HistorySize) : List Nat :=
  [h.UniqueCommitCount.toNat, h.UniqueCommitSize.toNat, h.MaxCommitSize.toNat, h.MaxHistoryDepth.toNat, h.MaxParentCount.toNat]
def tagNums (h : HistorySize) : List Nat := [h.UniqueTagCount.toNat, h.MaxTagDepth.toNat]
def refNums (h : HistorySize) : List Nat := [h.ReferenceCount.toNat]

macro "frame_tac" f:ident : tactic =>
  `(tactic| (unfold $f; simp only [blobNums, treeNums, commitNums, tagNums, refNums,
      apply_ite HistorySize.UniqueBlobCount, apply_ite HistorySize.UniqueBlobSize, apply_ite HistorySize.MaxBlobSize,
      apply_ite HistorySize.UniqueTreeCount, apply_ite HistorySize.UniqueTreeSize, apply_ite HistorySize.UniqueTreeEntries,
      apply_ite HistorySize.MaxTreeEntries, apply_ite HistorySize.MaxPathDepth, apply_ite HistorySize.MaxPathLength,
      apply_ite HistorySize.MaxExpandedTreeCount, apply_ite HistorySize.MaxExpandedBlobCount, apply_ite HistorySize.MaxExpandedBlobSize,
      apply_ite HistorySize.MaxExpandedLinkCount, apply_ite HistorySize.MaxExpandedSubmoduleCount,
      apply_ite HistorySize.UniqueCommitCount, apply_ite HistorySize.UniqueCommitSize, apply_ite HistorySize.MaxCommitSize,
      apply_ite HistorySize.MaxHistoryDepth, apply_ite HistorySize.MaxParentCount,
      apply_ite HistorySize.UniqueTagCount, apply_ite HistorySize.MaxTagDepth, apply_ite HistorySize.ReferenceCount, ite_self]))

theorem recordBlob_frame (h : HistorySize) (o : Nat) (b : BlobSize) :
    treeNums (HistorySize.recordBlob h o b) = treeNums h ∧ commitNums (HistorySize.recordBlob h o b) = commitNums h ∧
    tagNums (HistorySize.recordBlob h o b) = tagNums h ∧ refNums (HistorySize.recordBlob h o b) = refNums h := by
  refine ⟨?_, ?_, ?_, ?_⟩ <;> frame_tac HistorySize.recordBlob

theorem recordTree_frame (h : HistorySize) (o : Nat) (ts : TreeSize) (a b : BitVec 32) :
    blobNums (HistorySize.recordTree h o ts a b) = blobNums h ∧ commitNums (HistorySize.recordTree h o ts a b) = commitNums h ∧
    tagNums (HistorySize.recordTree h o ts a b) = tagNums h ∧ refNums (HistorySize.recordTree h o ts a b) = refNums h := by
  refine ⟨?_, ?_, ?_, ?_⟩ <;> frame_tac HistorySize.recordTree

theorem recordCommit_frame (h : HistorySize) (o : Nat) (cs : CommitSize) (a b : BitVec 32) :
    blobNums (HistorySize.recordCommit h o cs a b) = blobNums h ∧ treeNums (HistorySize.recordCommit h o cs a b) = treeNums h ∧
    tagNums (HistorySize.recordCommit h o cs a b) = tagNums h ∧ refNums (HistorySize.recordCommit h o cs a b) = refNums h := by
  refine ⟨?_, ?_, ?_, ?_⟩ <;> frame_tac HistorySize.recordCommit

theorem recordTag_frame (h : HistorySize) (o : Nat) (ts : TagSize) (a : BitVec 32) :
    blobNums (HistorySize.recordTag h o ts a) = blobNums h ∧ treeNums (HistorySize.recordTag h o ts a) = treeNums h ∧
    commitNums (HistorySize.recordTag h o ts a) = commitNums h ∧ refNums (HistorySize.recordTag h o ts a) = refNums h := by
  refine ⟨?_, ?_, ?_, ?_⟩ <;> frame_tac HistorySize.recordTag

theorem recordReference_frame (h : HistorySize) :
    blobNums (HistorySize.recordReference h) = blobNums h ∧ treeNums (HistorySize.recordReference h) = treeNums h ∧
    commitNums (HistorySize.recordReference h) = commitNums h ∧ tagNums (HistorySize.recordReference h) = tagNums h := by
  refine ⟨?_, ?_, ?_, ?_⟩ <;> frame_tac HistorySize.recordReference

end GitSizer.Graph
