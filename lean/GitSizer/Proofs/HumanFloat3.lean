import GitSizer.Proofs.HumanFloat2
/-! Table-level consequences for `formatNum` over any prefix table satisfying decidable conditions
    (`TableOK`), which the property module discharges for the REGENERATED tables by evaluation. -/
namespace GitSizer.Human

/-- executable form of `MultOK` -/
def multOKb (P : Nat) : Bool := decide (0 < P) && decide ((toF64 P).num = P * (toF64 P).den)

theorem multOK_of_b {P : Nat} (h : multOKb P = true) : MultOK P := by
  unfold multOKb at h
  simp only [Bool.and_eq_true, decide_eq_true_eq] at h
  refine ⟨h.1, ?_⟩
  have hp := toF64_pos P h.1
  have hd : ((toF64 P).den : ℚ) ≠ 0 := by exact_mod_cast (Nat.pos_iff_ne_zero.mp hp.den_pos)
  unfold Dy.val
  rw [h.2]; push_cast; field_simp

/-- decidable side conditions on a prefix table -/
structure TableOK (t : List Prefix) : Prop where
  wf : TableWF t
  mult : ∀ p ∈ t, multOKb p.2 = true
  dvd : ∀ p ∈ t, ∀ q ∈ t, p.2 ≤ q.2 → p.2 ∣ q.2
  ratio : ∀ p ∈ t, (∃ q ∈ t, p.2 < q.2 ∧ q.2 ≤ 1024 * p.2) ∨ 2 ^ 64 ≤ 18447 * p.2
  half : ∀ p ∈ t, p.2 = 1 ∨ 200 ∣ p.2 ∨ p.2 = 2 ^ (Nat.log2 p.2)

instance (t : List Prefix) : Decidable (TableOK t) :=
  if h : TableWF t ∧ (∀ p ∈ t, multOKb p.2 = true) ∧ (∀ p ∈ t, ∀ q ∈ t, p.2 ≤ q.2 → p.2 ∣ q.2) ∧
      (∀ p ∈ t, (∃ q ∈ t, p.2 < q.2 ∧ q.2 ≤ 1024 * p.2) ∨ 2 ^ 64 ≤ 18447 * p.2) ∧
      (∀ p ∈ t, p.2 = 1 ∨ 200 ∣ p.2 ∨ p.2 = 2 ^ (Nat.log2 p.2))
  then isTrue ⟨h.1, h.2.1, h.2.2.1, h.2.2.2.1, h.2.2.2.2⟩
  else isFalse (fun k => h ⟨k.wf, k.mult, k.dvd, k.ratio, k.half⟩)

/-- what the selection loop guarantees when it picks a multiplier P ≠ 1 for n < 2^64 -/
theorem select_facts {t : List Prefix} (ok : TableOK t) (n : Nat) (hn : n < 2 ^ 64)
    (h1 : (selectPrefix t n).2.2 ≠ 1) :
    (selectPrefix t n).2 ∈ t ∧ MultOK (selectPrefix t n).2.2 ∧ 1 ≤ (selectPrefix t n).1 ∧
    (selectPrefix t n).1 * (selectPrefix t n).2.2 ≤ n ∧
    n < ((selectPrefix t n).1 + 1) * (selectPrefix t n).2.2 ∧ (selectPrefix t n).1 ≤ 18446 ∧
    (∀ p ∈ t, p.2 ≤ n → p.2 ≤ (selectPrefix t n).2.2) := by
  obtain ⟨hmem, hpos, hw, hle, hmax⟩ := selectPrefix_spec ok.wf n
  generalize selectPrefix t n = r at *
  obtain ⟨w, q⟩ := r
  simp only at *
  have hPn : q.2 ≤ n := hle.resolve_right h1
  subst hw
  refine ⟨hmem, multOK_of_b (ok.mult q hmem), Nat.div_pos hPn hpos, Nat.div_mul_le_self n q.2, ?_, ?_, hmax⟩
  · have := Nat.lt_mul_div_succ n hpos
    rwa [Nat.mul_comm] at this
  · rcases ok.ratio q hmem with ⟨q', hq', hlt, hle'⟩ | hbig
    · have : n < q'.2 := by
        by_contra hc
        have := hmax q' hq' (by omega); omega
      have : n / q.2 < 1024 := Nat.div_lt_of_lt_mul (by omega)
      omega
    · have : n / q.2 < 18447 := Nat.div_lt_of_lt_mul (by omega)
      omega

theorem formatNum_scaled (t : List Prefix) (n : Nat) (h1 : (selectPrefix t n).2.2 ≠ 1) :
    formatNum t n = .scaled (numeral n (selectPrefix t n).2.2 (decimals (selectPrefix t n).1))
      (decimals (selectPrefix t n).1) (selectPrefix t n).2 := by
  unfold formatNum numeral mant
  generalize selectPrefix t n = r at *
  obtain ⟨w, q⟩ := r
  simp only at *
  simp [h1]

theorem formatNum_exact (t : List Prefix) (n : Nat) (h1 : (selectPrefix t n).2.2 = 1) :
    formatNum t n = .exact n := by
  unfold formatNum
  generalize selectPrefix t n = r at *
  obtain ⟨w, q⟩ := r
  simp only at *
  simp [h1]

theorem decimals_cases (w : Nat) :
    (100 ≤ w ∧ decimals w = 0) ∨ (10 ≤ w ∧ w < 100 ∧ decimals w = 1) ∨ (w < 10 ∧ decimals w = 2) := by
  unfold decimals; split
  · left; omega
  · split
    · right; left; omega
    · right; right; omega

theorem decimals_le (w : Nat) : decimals w ≤ 2 := by unfold decimals; split <;> (try split) <;> omega

/-- the numeral of a scaled rendering: w·10^d ≤ m ≤ (w+1)·10^d -/
theorem scaled_bracket {t : List Prefix} (ok : TableOK t) (n : Nat) (hn : n < 2 ^ 64)
    (h1 : (selectPrefix t n).2.2 ≠ 1) :
    (selectPrefix t n).1 * 10 ^ decimals (selectPrefix t n).1 ≤
      numeral n (selectPrefix t n).2.2 (decimals (selectPrefix t n).1) ∧
    numeral n (selectPrefix t n).2.2 (decimals (selectPrefix t n).1) ≤
      ((selectPrefix t n).1 + 1) * 10 ^ decimals (selectPrefix t n).1 := by
  obtain ⟨_, hM, hw1, hlo, hhi, hwmax, _⟩ := select_facts ok n hn h1
  apply numeral_bracket n _ _ _ hM hw1 hlo hhi
  have : 10 ^ decimals (selectPrefix t n).1 ≤ 100 := by
    have := decimals_le (selectPrefix t n).1
    calc 10 ^ decimals (selectPrefix t n).1 ≤ 10 ^ 2 := Nat.pow_le_pow_right (by omega) this
      _ = 100 := by norm_num
  calc ((selectPrefix t n).1 + 1) * 10 ^ decimals (selectPrefix t n).1 ≤ 18447 * 100 :=
        Nat.mul_le_mul (by omega) this
    _ ≤ 2 ^ 50 := by norm_num

/-- **≥ 3 significant digits, ≤ 5 digits** (numeric form): 100 ≤ m; m ≤ 18447 without decimals,
    m ≤ 1000 with one or two decimals -/
theorem scaled_digits {t : List Prefix} (ok : TableOK t) (n : Nat) (hn : n < 2 ^ 64) (m d : Nat)
    (pfx : Prefix) (h : formatNum t n = .scaled m d pfx) :
    100 ≤ m ∧ d ≤ 2 ∧ ((d = 0 ∧ m ≤ 18447) ∨ (0 < d ∧ m ≤ 1000)) := by
  by_cases h1 : (selectPrefix t n).2.2 = 1
  · rw [formatNum_exact t n h1] at h; cases h
  · rw [formatNum_scaled t n h1] at h
    obtain ⟨b1, b2⟩ := scaled_bracket ok n hn h1
    obtain ⟨_, _, hw1, _, _, hwmax, _⟩ := select_facts ok n hn h1
    injection h with hm hd _
    rw [hm, hd] at b1 b2
    generalize (selectPrefix t n).1 = w at *
    subst hd
    rcases decimals_cases w with ⟨hw, he⟩ | ⟨hw, hw', he⟩ | ⟨hw, he⟩ <;> rw [he] at b1 b2 ⊢
    · simp only [pow_zero, Nat.mul_one] at b1 b2
      refine ⟨by omega, by omega, Or.inl ⟨rfl, by omega⟩⟩
    · simp only [pow_one] at b1 b2
      refine ⟨by omega, by omega, Or.inr ⟨by omega, by omega⟩⟩
    · have e : (10 : Nat) ^ 2 = 100 := by norm_num
      rw [e] at b1 b2
      refine ⟨by omega, by omega, Or.inr ⟨by omega, by omega⟩⟩

/-! ### the rendered string -/

theorem pad_length (d : Nat) (s : String) (h : s.length ≤ d) : (pad d s).length = d := by
  unfold pad
  rw [String.length_append, String.length_ofList, List.length_replicate]; omega

/-- **the numeral never exceeds five characters** -/
theorem renderFixed_length (m d : Nat) (hm : 100 ≤ m) (hd : d ≤ 2)
    (h : (d = 0 ∧ m ≤ 18447) ∨ (0 < d ∧ m ≤ 1000)) :
    3 ≤ (renderFixed d m).length ∧ (renderFixed d m).length ≤ 5 := by
  unfold renderFixed
  rcases h with ⟨rfl, hm2⟩ | ⟨hpos, hm2⟩
  · simp only [pow_zero, Nat.div_one, if_true]
    have h5 : (toString m).length ≤ 5 := (Nat.length_repr_le_iff (by omega)).mpr (by omega)
    have h3 : ¬ (toString m).length ≤ 2 := fun hc => by
      have := (Nat.length_repr_le_iff (n := m) (k := 2) (by omega)).mp hc; omega
    omega
  · have hd0 : d ≠ 0 := by omega
    simp only [hd0, if_false]
    have hfp : (toString (m % 10 ^ d)).length ≤ d :=
      (Nat.length_repr_le_iff (by omega)).mpr (Nat.mod_lt _ (by positivity))
    rw [String.length_append, String.length_append, pad_length d _ hfp]
    have hdot : (".":String).length = 1 := by decide
    rw [hdot]
    have hip1 : 0 < (toString (m / 10 ^ d)).length := Nat.length_repr_pos
    have hd12 : d = 1 ∨ d = 2 := by omega
    rcases hd12 with rfl | rfl
    · have : m / 10 ^ 1 < 10 ^ 3 := by simp only [pow_one]; omega
      have h3 : (toString (m / 10 ^ 1)).length ≤ 3 := (Nat.length_repr_le_iff (by omega)).mpr this
      have h2 : ¬ (toString (m / 10 ^ 1)).length ≤ 1 := fun hc => by
        have := (Nat.length_repr_le_iff (n := m / 10 ^ 1) (k := 1) (by omega)).mp hc
        simp only [pow_one] at this; omega
      omega
    · have : m / 10 ^ 2 < 10 ^ 2 := by
        have e : (10 : Nat) ^ 2 = 100 := by norm_num
        rw [e]; omega
      have h3 : (toString (m / 10 ^ 2)).length ≤ 2 := (Nat.length_repr_le_iff (by omega)).mpr this
      omega

/-! ### half a unit, n < 2^53 -/

theorem scaled_half_unit {t : List Prefix} (ok : TableOK t) (n : Nat) (h53 : n < 2 ^ 53) (m d : Nat)
    (pfx : Prefix) (h : formatNum t n = .scaled m d pfx) :
    2 * (m * pfx.2) ≤ 2 * (n * 10 ^ d) + pfx.2 ∧ 2 * (n * 10 ^ d) ≤ 2 * (m * pfx.2) + pfx.2 := by
  have hn : n < 2 ^ 64 := by
    have : (2 : Nat) ^ 53 ≤ 2 ^ 64 := Nat.pow_le_pow_right (by omega) (by omega)
    omega
  by_cases h1 : (selectPrefix t n).2.2 = 1
  · rw [formatNum_exact t n h1] at h; cases h
  · rw [formatNum_scaled t n h1] at h
    obtain ⟨hmem, hM, hw1, hlo, _, _, _⟩ := select_facts ok n hn h1
    injection h with hm hd hp
    subst hm hd hp
    have hpos : 0 < n := by
      have := hM.pos
      have : 1 * (selectPrefix t n).2.2 ≤ (selectPrefix t n).1 * (selectPrefix t n).2.2 :=
        Nat.mul_le_mul_right _ hw1
      omega
    have hd2 := decimals_le (selectPrefix t n).1
    generalize decimals (selectPrefix t n).1 = d at *
    rcases ok.half _ hmem with h | ⟨c, hc⟩ | h
    · exact absurd h h1
    · -- metric: P = 200·c = 2·10^d·(c·10^(2-d))
      apply half_unit_metric n _ d (c * 10 ^ (2 - d)) hpos h53 hM
      rw [hc]
      have : 2 * 10 ^ d * (c * 10 ^ (2 - d)) = 2 * (10 ^ d * 10 ^ (2 - d)) * c := by ring
      rw [this, ← pow_add]
      have : d + (2 - d) = 2 := by omega
      rw [this]; norm_num
    · rw [h] at hM ⊢
      exact half_unit_pow2 n _ d hpos h53 hM

end GitSizer.Human
