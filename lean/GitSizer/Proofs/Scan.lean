import GitSizer.Model.Scan
import GitSizer.Proofs.GraphRun7
/-! The driver's schedule is valid for every listing that honours git's contract, hence the whole
    scan yields the clamped true numbers. -/
namespace GitSizer.Scan
open GitSizer GitSizer.Spec GitSizer.Graph

/-- stored objects are typed consistently (git's object store guarantees this for what
    `rev-list --objects` walks without error) -/
structure Typed (r : Repo) : Prop where
  blobEntry : ∀ t, ∀ e ∈ r.entries t, e.kind = .blob → isBlob r e.oid = true
  treeEntry : ∀ t, ∀ e ∈ r.entries t, e.kind = .tree → isTree r e.oid = true
  commitTree : ∀ c s tr ps, r.obj c = some (.commit s tr ps) → isTree r tr = true

/-- the contract of `git rev-list --objects --date-order` (+ `--stdin` roots): no object twice,
    every object exists, the set is closed under the edges the walk follows, and no commit is
    listed after one of its children... i.e. no element is preceded by one of its own parents -/
structure Listing (r : Repo) (L : List Nat) : Prop where
  nodup : L.Nodup
  exist : ∀ i ∈ L, i < r.length
  closed : ∀ i ∈ L, ∀ j ∈ r.edges i, j ∈ L
  topo : L.Pairwise fun a b => a ∉ r.parents b

theorem nodup_reverse {l : List Nat} (h : l.Nodup) : l.reverse.Nodup := by
  unfold List.Nodup at *; rw [List.pairwise_reverse]; exact h.imp (fun h e => h e.symm)

/-! ### segments of a schedule -/

theorem valid_blobs (r : Repo) (bs : List Nat) : ∀ (dB dT dC dG : List Nat) (rest : List Op),
    ValidFrom r (dB ++ bs) dT dC dG rest → ValidFrom r dB dT dC dG (bs.map .blob ++ rest) := by
  induction bs with
  | nil => intro dB dT dC dG rest h; simpa using h
  | cons b bs ih =>
    intro dB dT dC dG rest h
    simp only [List.map_cons, List.cons_append, ValidFrom]
    apply ih; simpa [List.append_assoc] using h

theorem valid_refs (r : Repo) (gs : List (List Bytes)) (dB dT dC dG : List Nat) :
    ValidFrom r dB dT dC dG (gs.map .ref) := by
  induction gs with
  | nil => simp [ValidFrom]
  | cons g gs ih => simpa [ValidFrom] using ih

theorem valid_trees (r : Repo) (ts : List Nat) : ∀ (dB dT dC dG : List Nat) (rest : List Op),
    (dT ++ ts).Nodup → (∀ t ∈ ts, t < r.length) →
    (∀ t ∈ ts, ∀ e ∈ r.entries t, e.kind = .blob → e.oid ∈ dB) →
    ValidFrom r dB (dT ++ ts) dC dG rest → ValidFrom r dB dT dC dG (ts.map .tree ++ rest) := by
  induction ts with
  | nil => intro dB dT dC dG rest _ _ _ h; simpa using h
  | cons t ts ih =>
    intro dB dT dC dG rest hnd hlt hb h
    simp only [List.map_cons, List.cons_append, ValidFrom]
    have hnd' : (dT ++ [t] ++ ts).Nodup := by simpa [List.append_assoc] using hnd
    refine ⟨?_, hlt t (by simp), hb t (by simp), ?_⟩
    · intro hm
      rw [List.nodup_append] at hnd
      exact hnd.2.2 t hm t (by simp) rfl
    · apply ih _ _ _ _ _ hnd' (fun x hx => hlt x (by simp [hx])) (fun x hx => hb x (by simp [hx]))
      simpa [List.append_assoc] using h

theorem valid_tags (r : Repo) (gs : List Nat) : ∀ (dB dT dC dG : List Nat) (rest : List Op),
    (dG ++ gs).Nodup → (∀ t ∈ gs, t < r.length) →
    ValidFrom r dB dT dC (dG ++ gs) rest → ValidFrom r dB dT dC dG (gs.map .tag ++ rest) := by
  induction gs with
  | nil => intro dB dT dC dG rest _ _ h; simpa using h
  | cons t ts ih =>
    intro dB dT dC dG rest hnd hlt h
    simp only [List.map_cons, List.cons_append, ValidFrom]
    have hnd' : (dG ++ [t] ++ ts).Nodup := by simpa [List.append_assoc] using hnd
    refine ⟨?_, hlt t (by simp), ?_⟩
    · intro hm
      rw [List.nodup_append] at hnd
      exact hnd.2.2 t hm t (by simp) rfl
    · apply ih _ _ _ _ _ hnd' (fun x hx => hlt x (by simp [hx]))
      simpa [List.append_assoc] using h

/-- commits: each after its parents (which lie EARLIER in the segment or were delivered before) -/
theorem valid_commits (r : Repo) (cs : List Nat) : ∀ (dB dT dC dG : List Nat) (rest : List Op),
    (dC ++ cs).Nodup → (∀ c ∈ cs, r.isCommit c = true) →
    (∀ c ∈ cs, ∀ s tr ps, r.obj c = some (.commit s tr ps) → TreeDone r dT tr) →
    (∀ pre c post, cs = pre ++ c :: post → ∀ p ∈ r.parents c, p ∈ dC ++ pre) →
    ValidFrom r dB dT (dC ++ cs) dG rest → ValidFrom r dB dT dC dG (cs.map .commit ++ rest) := by
  induction cs with
  | nil => intro dB dT dC dG rest _ _ _ _ h; simpa using h
  | cons c cs ih =>
    intro dB dT dC dG rest hnd hc htd hpar h
    simp only [List.map_cons, List.cons_append, ValidFrom]
    have hnd' : (dC ++ [c] ++ cs).Nodup := by simpa [List.append_assoc] using hnd
    refine ⟨?_, hc c (by simp), htd c (by simp), ?_, ?_⟩
    · intro hm
      rw [List.nodup_append] at hnd
      exact hnd.2.2 c hm c (by simp) rfl
    · intro p hp; simpa using hpar [] c cs rfl p hp
    · apply ih _ _ _ _ _ hnd' (fun x hx => hc x (by simp [hx])) (fun x hx => htd x (by simp [hx]))
      · intro pre c' post e p hp
        have := hpar (c :: pre) c' post (by rw [e]; rfl) p hp
        simpa [List.append_assoc] using this
      · simpa [List.append_assoc] using h

/-! ### what a schedule delivers -/

theorem blobsOf_append (a b : List Op) : blobsOf (a ++ b) = blobsOf a ++ blobsOf b := by
  induction a with
  | nil => rfl
  | cons x xs ih => cases x <;> simp [blobsOf, ih]
theorem treesOf_append (a b : List Op) : treesOf (a ++ b) = treesOf a ++ treesOf b := by
  induction a with
  | nil => rfl
  | cons x xs ih => cases x <;> simp [treesOf, ih]
theorem commitsOf_append (a b : List Op) : commitsOf (a ++ b) = commitsOf a ++ commitsOf b := by
  induction a with
  | nil => rfl
  | cons x xs ih => cases x <;> simp [commitsOf, ih]
theorem tagsOf_append (a b : List Op) : tagsOf (a ++ b) = tagsOf a ++ tagsOf b := by
  induction a with
  | nil => rfl
  | cons x xs ih => cases x <;> simp [tagsOf, ih]
theorem refsOf_append (a b : List Op) : refsOf (a ++ b) = refsOf a + refsOf b := by
  induction a with
  | nil => simp [refsOf]
  | cons x xs ih => cases x <;> simp [refsOf, ih] <;> omega

theorem of_blobs (l : List Nat) : blobsOf (l.map .blob) = l ∧ treesOf (l.map .blob) = [] ∧
    commitsOf (l.map .blob) = [] ∧ tagsOf (l.map .blob) = [] ∧ refsOf (l.map .blob) = 0 := by
  induction l with
  | nil => simp [blobsOf, treesOf, commitsOf, tagsOf, refsOf]
  | cons x xs ih => simp [blobsOf, treesOf, commitsOf, tagsOf, refsOf, ih]
theorem of_trees (l : List Nat) : blobsOf (l.map .tree) = [] ∧ treesOf (l.map .tree) = l ∧
    commitsOf (l.map .tree) = [] ∧ tagsOf (l.map .tree) = [] ∧ refsOf (l.map .tree) = 0 := by
  induction l with
  | nil => simp [blobsOf, treesOf, commitsOf, tagsOf, refsOf]
  | cons x xs ih => simp [blobsOf, treesOf, commitsOf, tagsOf, refsOf, ih]
theorem of_commits (l : List Nat) : blobsOf (l.map .commit) = [] ∧ treesOf (l.map .commit) = [] ∧
    commitsOf (l.map .commit) = l ∧ tagsOf (l.map .commit) = [] ∧ refsOf (l.map .commit) = 0 := by
  induction l with
  | nil => simp [blobsOf, treesOf, commitsOf, tagsOf, refsOf]
  | cons x xs ih => simp [blobsOf, treesOf, commitsOf, tagsOf, refsOf, ih]
theorem of_tags (l : List Nat) : blobsOf (l.map .tag) = [] ∧ treesOf (l.map .tag) = [] ∧
    commitsOf (l.map .tag) = [] ∧ tagsOf (l.map .tag) = l ∧ refsOf (l.map .tag) = 0 := by
  induction l with
  | nil => simp [blobsOf, treesOf, commitsOf, tagsOf, refsOf]
  | cons x xs ih => simp [blobsOf, treesOf, commitsOf, tagsOf, refsOf, ih]
theorem of_refs (l : List (List Bytes)) : blobsOf (l.map .ref) = [] ∧ treesOf (l.map .ref) = [] ∧
    commitsOf (l.map .ref) = [] ∧ tagsOf (l.map .ref) = [] ∧ refsOf (l.map .ref) = l.length := by
  induction l with
  | nil => simp [blobsOf, treesOf, commitsOf, tagsOf, refsOf]
  | cons x xs ih => simp [blobsOf, treesOf, commitsOf, tagsOf, refsOf, ih]

/-- what the driver's schedule delivers -/
theorem scanOps_delivers (r : Repo) (L : List Nat) (refs : List (List Bytes)) :
    blobsOf (scanOps r L refs) = blobsIn r L ∧ treesOf (scanOps r L refs) = treesIn r L ∧
    commitsOf (scanOps r L refs) = commitsIn r L ∧ tagsOf (scanOps r L refs) = tagsIn r L ∧
    refsOf (scanOps r L refs) = refs.length := by
  unfold scanOps
  simp [blobsOf_append, treesOf_append, commitsOf_append, tagsOf_append, refsOf_append,
    of_blobs, of_trees, of_commits, of_tags, of_refs]

/-! ### the driver's schedule is valid -/

theorem treeKid_edge (r : Repo) (t : Nat) (e : Nat × Nat) (he : e ∈ treeKids r t) :
    e.2 ∈ r.edges t ∧ ∃ en ∈ r.entries t, en.kind = .tree ∧ en.oid = e.2 := by
  unfold treeKids at he
  rw [List.mem_filterMap] at he
  obtain ⟨en, hen, h⟩ := he
  split at h
  · next hk =>
    simp at h; subst h
    refine ⟨?_, en, hen, hk, rfl⟩
    unfold Repo.edges
    unfold Repo.entries at hen
    split at hen
    · next s es heq =>
      rw [heq]; simp only [List.mem_map, List.mem_filter]
      exact ⟨en, ⟨hen, by simp [hk]⟩, rfl⟩
    · cases hen
  · cases h

theorem treeDone_of_listing (r : Repo) (ty : Typed r) (L : List Nat) (hl : Listing r L) (t : Nat)
    (ht : t ∈ treesIn r L) : TreeDone r (treesIn r L) t := by
  intro u hu
  induction hu with
  | refl t => exact ht
  | step e he _ ih =>
    apply ih
    obtain ⟨hedge, en, hen, hk, hoid⟩ := treeKid_edge r _ e he
    have hL := (List.mem_filter.mp ht).1
    unfold treesIn
    rw [List.mem_filter]
    exact ⟨hl.closed _ hL _ hedge, by rw [← hoid]; exact ty.treeEntry _ en hen hk⟩

theorem scan_valid (r : Repo) (ok : RepoOK r) (ty : Typed r) (L : List Nat) (hl : Listing r L)
    (refs : List (List Bytes)) : ValidFrom r [] [] [] [] (scanOps r L refs) := by
  unfold scanOps
  apply valid_blobs
  apply valid_trees
  · simp only [List.nil_append, treesIn]; exact hl.nodup.sublist List.filter_sublist
  · intro t ht; exact hl.exist t (List.mem_filter.mp ht).1
  · intro t ht e he hk
    have hL := (List.mem_filter.mp ht).1
    simp only [List.nil_append, blobsIn, List.mem_filter]
    refine ⟨hl.closed t hL e.oid ?_, ty.blobEntry t e he hk⟩
    unfold Repo.edges
    unfold Repo.entries at he
    split at he
    · next s es heq =>
      rw [heq]; simp only [List.mem_map, List.mem_filter]
      exact ⟨e, ⟨he, by simp [hk]⟩, rfl⟩
    · cases he
  apply valid_commits
  · simp only [List.nil_append, commitsIn]; exact nodup_reverse (hl.nodup.sublist List.filter_sublist)
  · intro c hc; simp only [commitsIn, List.mem_reverse, List.mem_filter] at hc; exact hc.2
  · intro c hc s tr ps hobj
    simp only [commitsIn, List.mem_reverse, List.mem_filter] at hc
    simp only [List.nil_append]
    apply treeDone_of_listing r ty L hl
    simp only [treesIn, List.mem_filter]
    refine ⟨hl.closed c hc.1 tr ?_, ty.commitTree c s tr ps hobj⟩
    unfold Repo.edges; rw [hobj]; simp
  · intro pre c post e p hp
    simp only [List.nil_append]
    have hcmem : c ∈ commitsIn r L := by rw [e]; simp
    have hcL : c ∈ L := by
      simp only [commitsIn, List.mem_reverse, List.mem_filter] at hcmem; exact hcmem.1
    have hpc := ok.commits c p hp
    have hpL : p ∈ L := by
      apply hl.closed c hcL
      unfold Repo.edges
      unfold Repo.parents at hp
      split at hp
      · next s tr ps heq => rw [heq]; simp [hp]
      · cases hp
    have hpmem : p ∈ commitsIn r L := by
      simp only [commitsIn, List.mem_reverse, List.mem_filter]; exact ⟨hpL, hpc.2⟩
    rw [e] at hpmem
    rcases List.mem_append.mp hpmem with h | h
    · exact h
    · rcases List.mem_cons.mp h with h | h
      · omega
      · exfalso
        -- `p` after `c` in the reversed list = `p` before `c` in the listing: forbidden by `topo`
        have hrev : L.filter (Repo.isCommit r) = post.reverse ++ (c :: pre.reverse) := by
          have : (commitsIn r L).reverse = (pre ++ c :: post).reverse := by rw [e]
          simpa [commitsIn] using this
        have hpw : (L.filter (Repo.isCommit r)).Pairwise fun a b => a ∉ r.parents b :=
          hl.topo.sublist List.filter_sublist
        rw [hrev, List.pairwise_append] at hpw
        exact hpw.2.2 p (by simpa using h) c (by simp) hp
  apply valid_tags
  · simp only [List.nil_append, tagsIn]; exact hl.nodup.sublist List.filter_sublist
  · intro t ht; exact hl.exist t (List.mem_filter.mp ht).1
  exact valid_refs r refs _ _ _ _

theorem isTag_iff (r : Repo) (g : Nat) : isTag r g = true ↔ (r.tagRef g).isSome = true := by
  unfold isTag Repo.tagRef
  cases h : r.obj g with
  | none => simp
  | some o => cases o <;> simp

/-- **the driver's schedule meets every hypothesis of the whole-run theorem** -/
theorem scan_run (r : Repo) (ok : RepoOK r) (ty : Typed r) (L : List Nat) (hl : Listing r L)
    (refs : List (List Bytes))
    (sizes : ∀ i, Repo.sizeOf r i < 2 ^ 64) (nparents : ∀ c, (r.parents c).length < 2 ^ 64) :
    ValidRun r (scanOps r L refs) := by
  obtain ⟨_, eT, _, eG, _⟩ := scanOps_delivers r L refs
  refine ⟨ok, scan_valid r ok ty L hl refs, ?_, ?_, ?_, sizes, nparents⟩
  · rw [eT]; intro t ht e he
    exact treeDone_of_listing r ty L hl t ht e.2 (.step e he (.refl _))
  · rw [eG]; intro g hg e he
    have hgL := (List.mem_filter.mp hg).1
    unfold tagKids at he
    split at he
    · next s o heq =>
      simp at he; subst he
      simp only [tagsIn, List.mem_filter]
      refine ⟨hl.closed g hgL o (by unfold Repo.edges; rw [heq]; simp), ?_⟩
      rw [isTag_iff]
      exact ok.tagKinds g o (by unfold Repo.tagRef; rw [heq])
    · cases he
  · rw [eG]; intro g hg
    exact (isTag_iff r g).mp (List.mem_filter.mp hg).2

/-- **Whole-scan theorem.** For every repository description and every object listing honouring
    git's contract (duplicate-free, closed under the walked edges, no commit preceded by one of
    its parents), the driver's schedule — blobs, trees, commits REVERSED, tags, references — runs
    to completion and every number is the clamp of the true count / sum / maximum over the listed
    objects. -/
theorem scan_numbers (r : Repo) (ok : RepoOK r) (ty : Typed r) (L : List Nat) (hl : Listing r L)
    (refs : List (List Bytes))
    (sizes : ∀ i, Repo.sizeOf r i < 2 ^ 64) (nparents : ∀ c, (r.parents c).length < 2 ^ 64) :
    ∃ h, scan r L refs = .ok h ∧
      RunResult r h (blobsIn r L) (treesIn r L) (commitsIn r L) (tagsIn r L) refs.length := by
  obtain ⟨st, hrun, hhist, res⟩ := (scan_run r ok ty L hl refs sizes nparents).result
  obtain ⟨eB, eT, eC, eG, eR⟩ := scanOps_delivers r L refs
  rw [eB, eT, eC, eG, eR] at res
  exact ⟨st.hist, by unfold scan; rw [hrun]; exact hhist, res⟩

end GitSizer.Scan
