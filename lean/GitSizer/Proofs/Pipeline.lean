import GitSizer.Model.Pipeline
/-! Invariant, progress and termination of the scanning-phase protocol model. -/
namespace GitSizer.Pipeline

/-- what the runtime guarantees about ends of pipes and channels, plus bookkeeping -/
structure Inv (s : St) : Prop where
  capA : 0 < s.a.cap
  capB : 0 < s.b.cap
  capC : 0 < s.c.cap
  capD : 0 < s.d.cap
  s1w : s.s1 = .done → s.a.wclosed = true
  g1r : s.g1 = .done → s.a.rclosed = true
  g1w : s.g1 = .done → s.b.wclosed = true
  s3r : s.s3 = .done → s.b.rclosed = true
  s3w : s.s3 = .done → s.c.wclosed = true
  g2r : s.g2 = .done → s.c.rclosed = true
  g2w : s.g2 = .done → s.d.wclosed = true
  s5r : s.s5 = .done → s.d.rclosed = true
  hdr1 : s.hdrClosed = true → s.s5 = .done
  hdr2 : s.s5 = .done → s.hdrClosed = true
  oid : s.feeder = .report ∨ s.feeder = .done → s.oidClosed = true
  oid2 : s.oidClosed = true → s.feeder = .report ∨ s.feeder = .done
  s1ok : s.s1ok = true → s.oidClosed = true
  errS1 : s.err = false → s.s1 = .done → s.s1ok = true
  echan0 : s.feeder ≠ .done → s.errChan = 0
  fdone : s.feeder = .done → s.errChan = 1 ∨ s.main = .done
  nofirst : s.main ≠ .first
  mwait : s.main = .wait ∨ s.main = .errchan → s.hdrClosed = true
  merr : s.main = .errchan → s.s1 = .done ∧ s.g1 = .done ∧ s.s3 = .done ∧ s.g2 = .done ∧ s.s5 = .done ∧ s.err = false

theorem inv_init (roots : Option Nat) (lines ca cb cc cd : Nat) (ha : 0 < ca) (hb : 0 < cb) (hc : 0 < cc) (hd : 0 < cd) :
    Inv (init roots lines ca cb cc cd false) := by
  constructor <;> simp [init, Pipe.fresh, ha, hb, hc, hd] <;> (cases roots <;> simp)

/-! preservation, one field at a time (each needs only itself and at most two others) -/
theorem step_capA {s s' : St} (h_capA : 0 < s.a.cap) (st : Step s s') : 0 < s'.a.cap := by
  cases st <;> simp_all <;> (try omega)
theorem env_capA {s s' : St} (h_capA : 0 < s.a.cap) (st : Env s s') : 0 < s'.a.cap := by
  cases st <;> simp_all
theorem step_capB {s s' : St} (h_capB : 0 < s.b.cap) (st : Step s s') : 0 < s'.b.cap := by
  cases st <;> simp_all <;> (try omega)
theorem env_capB {s s' : St} (h_capB : 0 < s.b.cap) (st : Env s s') : 0 < s'.b.cap := by
  cases st <;> simp_all
theorem step_capC {s s' : St} (h_capC : 0 < s.c.cap) (st : Step s s') : 0 < s'.c.cap := by
  cases st <;> simp_all <;> (try omega)
theorem env_capC {s s' : St} (h_capC : 0 < s.c.cap) (st : Env s s') : 0 < s'.c.cap := by
  cases st <;> simp_all
theorem step_capD {s s' : St} (h_capD : 0 < s.d.cap) (st : Step s s') : 0 < s'.d.cap := by
  cases st <;> simp_all <;> (try omega)
theorem env_capD {s s' : St} (h_capD : 0 < s.d.cap) (st : Env s s') : 0 < s'.d.cap := by
  cases st <;> simp_all
theorem step_s1w {s s' : St} (h_s1w : s.s1 = .done → s.a.wclosed = true) (st : Step s s') : s'.s1 = .done → s'.a.wclosed = true := by
  cases st <;> simp_all <;> (try omega)
theorem env_s1w {s s' : St} (h_s1w : s.s1 = .done → s.a.wclosed = true) (st : Env s s') : s'.s1 = .done → s'.a.wclosed = true := by
  cases st <;> simp_all
theorem step_g1r {s s' : St} (h_g1r : s.g1 = .done → s.a.rclosed = true) (st : Step s s') : s'.g1 = .done → s'.a.rclosed = true := by
  cases st <;> simp_all <;> (try omega)
theorem env_g1r {s s' : St} (h_g1r : s.g1 = .done → s.a.rclosed = true) (st : Env s s') : s'.g1 = .done → s'.a.rclosed = true := by
  cases st <;> simp_all
theorem step_g1w {s s' : St} (h_g1w : s.g1 = .done → s.b.wclosed = true) (st : Step s s') : s'.g1 = .done → s'.b.wclosed = true := by
  cases st <;> simp_all <;> (try omega)
theorem env_g1w {s s' : St} (h_g1w : s.g1 = .done → s.b.wclosed = true) (st : Env s s') : s'.g1 = .done → s'.b.wclosed = true := by
  cases st <;> simp_all
theorem step_s3r {s s' : St} (h_s3r : s.s3 = .done → s.b.rclosed = true) (st : Step s s') : s'.s3 = .done → s'.b.rclosed = true := by
  cases st <;> simp_all <;> (try omega)
theorem env_s3r {s s' : St} (h_s3r : s.s3 = .done → s.b.rclosed = true) (st : Env s s') : s'.s3 = .done → s'.b.rclosed = true := by
  cases st <;> simp_all
theorem step_s3w {s s' : St} (h_s3w : s.s3 = .done → s.c.wclosed = true) (st : Step s s') : s'.s3 = .done → s'.c.wclosed = true := by
  cases st <;> simp_all <;> (try omega)
theorem env_s3w {s s' : St} (h_s3w : s.s3 = .done → s.c.wclosed = true) (st : Env s s') : s'.s3 = .done → s'.c.wclosed = true := by
  cases st <;> simp_all
theorem step_g2r {s s' : St} (h_g2r : s.g2 = .done → s.c.rclosed = true) (st : Step s s') : s'.g2 = .done → s'.c.rclosed = true := by
  cases st <;> simp_all <;> (try omega)
theorem env_g2r {s s' : St} (h_g2r : s.g2 = .done → s.c.rclosed = true) (st : Env s s') : s'.g2 = .done → s'.c.rclosed = true := by
  cases st <;> simp_all
theorem step_g2w {s s' : St} (h_g2w : s.g2 = .done → s.d.wclosed = true) (st : Step s s') : s'.g2 = .done → s'.d.wclosed = true := by
  cases st <;> simp_all <;> (try omega)
theorem env_g2w {s s' : St} (h_g2w : s.g2 = .done → s.d.wclosed = true) (st : Env s s') : s'.g2 = .done → s'.d.wclosed = true := by
  cases st <;> simp_all
theorem step_s5r {s s' : St} (h_s5r : s.s5 = .done → s.d.rclosed = true) (st : Step s s') : s'.s5 = .done → s'.d.rclosed = true := by
  cases st <;> simp_all <;> (try omega)
theorem env_s5r {s s' : St} (h_s5r : s.s5 = .done → s.d.rclosed = true) (st : Env s s') : s'.s5 = .done → s'.d.rclosed = true := by
  cases st <;> simp_all
theorem step_hdr1 {s s' : St} (h_hdr1 : s.hdrClosed = true → s.s5 = .done) (st : Step s s') : s'.hdrClosed = true → s'.s5 = .done := by
  cases st <;> simp_all <;> (try omega)
theorem env_hdr1 {s s' : St} (h_hdr1 : s.hdrClosed = true → s.s5 = .done) (st : Env s s') : s'.hdrClosed = true → s'.s5 = .done := by
  cases st <;> simp_all
theorem step_hdr2 {s s' : St} (h_hdr2 : s.s5 = .done → s.hdrClosed = true) (st : Step s s') : s'.s5 = .done → s'.hdrClosed = true := by
  cases st <;> simp_all <;> (try omega)
theorem env_hdr2 {s s' : St} (h_hdr2 : s.s5 = .done → s.hdrClosed = true) (st : Env s s') : s'.s5 = .done → s'.hdrClosed = true := by
  cases st <;> simp_all
theorem step_oid {s s' : St} (h_oid : s.feeder = .report ∨ s.feeder = .done → s.oidClosed = true) (st : Step s s') : s'.feeder = .report ∨ s'.feeder = .done → s'.oidClosed = true := by
  cases st <;> simp_all <;> (try omega)
theorem env_oid {s s' : St} (h_oid : s.feeder = .report ∨ s.feeder = .done → s.oidClosed = true) (st : Env s s') : s'.feeder = .report ∨ s'.feeder = .done → s'.oidClosed = true := by
  cases st <;> simp_all
theorem step_oid2 {s s' : St} (h_oid2 : s.oidClosed = true → s.feeder = .report ∨ s.feeder = .done) (st : Step s s') : s'.oidClosed = true → s'.feeder = .report ∨ s'.feeder = .done := by
  cases st <;> simp_all <;> (try omega)
theorem env_oid2 {s s' : St} (h_oid2 : s.oidClosed = true → s.feeder = .report ∨ s.feeder = .done) (st : Env s s') : s'.oidClosed = true → s'.feeder = .report ∨ s'.feeder = .done := by
  cases st <;> simp_all
theorem step_s1ok {s s' : St} (h_s1ok : s.s1ok = true → s.oidClosed = true) (st : Step s s') : s'.s1ok = true → s'.oidClosed = true := by
  cases st <;> simp_all <;> (try omega)
theorem env_s1ok {s s' : St} (h_s1ok : s.s1ok = true → s.oidClosed = true) (st : Env s s') : s'.s1ok = true → s'.oidClosed = true := by
  cases st <;> simp_all
theorem step_errS1 {s s' : St} (h_errS1 : s.err = false → s.s1 = .done → s.s1ok = true) (st : Step s s') : s'.err = false → s'.s1 = .done → s'.s1ok = true := by
  cases st <;> simp_all <;> (try omega)
theorem env_errS1 {s s' : St} (h_errS1 : s.err = false → s.s1 = .done → s.s1ok = true) (st : Env s s') : s'.err = false → s'.s1 = .done → s'.s1ok = true := by
  cases st <;> simp_all
theorem step_echan0 {s s' : St} (h_echan0 : s.feeder ≠ .done → s.errChan = 0) (st : Step s s') : s'.feeder ≠ .done → s'.errChan = 0 := by
  cases st <;> simp_all <;> (try omega)
theorem env_echan0 {s s' : St} (h_echan0 : s.feeder ≠ .done → s.errChan = 0) (st : Env s s') : s'.feeder ≠ .done → s'.errChan = 0 := by
  cases st <;> simp_all
theorem step_fdone {s s' : St} (h_fdone : s.feeder = .done → s.errChan = 1 ∨ s.main = .done) (h_echan0 : s.feeder ≠ .done → s.errChan = 0) (h_nofirst : s.main ≠ .first) (st : Step s s') : s'.feeder = .done → s'.errChan = 1 ∨ s'.main = .done := by
  cases st <;> simp_all <;> (try omega)
theorem env_fdone {s s' : St} (h_fdone : s.feeder = .done → s.errChan = 1 ∨ s.main = .done) (h_echan0 : s.feeder ≠ .done → s.errChan = 0) (h_nofirst : s.main ≠ .first) (st : Env s s') : s'.feeder = .done → s'.errChan = 1 ∨ s'.main = .done := by
  cases st <;> simp_all
theorem step_nofirst {s s' : St} (h_nofirst : s.main ≠ .first) (st : Step s s') : s'.main ≠ .first := by
  cases st <;> simp_all <;> (try omega)
theorem env_nofirst {s s' : St} (h_nofirst : s.main ≠ .first) (st : Env s s') : s'.main ≠ .first := by
  cases st <;> simp_all
theorem step_mwait {s s' : St} (h_mwait : s.main = .wait ∨ s.main = .errchan → s.hdrClosed = true) (st : Step s s') : s'.main = .wait ∨ s'.main = .errchan → s'.hdrClosed = true := by
  cases st <;> simp_all <;> (try omega)
theorem env_mwait {s s' : St} (h_mwait : s.main = .wait ∨ s.main = .errchan → s.hdrClosed = true) (st : Env s s') : s'.main = .wait ∨ s'.main = .errchan → s'.hdrClosed = true := by
  cases st <;> simp_all
theorem step_merr {s s' : St} (h_merr : s.main = .errchan → s.s1 = .done ∧ s.g1 = .done ∧ s.s3 = .done ∧ s.g2 = .done ∧ s.s5 = .done ∧ s.err = false) (st : Step s s') : s'.main = .errchan → s'.s1 = .done ∧ s'.g1 = .done ∧ s'.s3 = .done ∧ s'.g2 = .done ∧ s'.s5 = .done ∧ s'.err = false := by
  cases st <;> simp_all <;> (try omega)
theorem env_merr {s s' : St} (h_merr : s.main = .errchan → s.s1 = .done ∧ s.g1 = .done ∧ s.s3 = .done ∧ s.g2 = .done ∧ s.s5 = .done ∧ s.err = false) (st : Env s s') : s'.main = .errchan → s'.s1 = .done ∧ s'.g1 = .done ∧ s'.s3 = .done ∧ s'.g2 = .done ∧ s'.s5 = .done ∧ s'.err = false := by
  cases st <;> simp_all

theorem inv_step {s s' : St} (h : Inv s) (st : Step s s') : Inv s' :=
  ⟨step_capA h.capA st, step_capB h.capB st, step_capC h.capC st, step_capD h.capD st, step_s1w h.s1w st, step_g1r h.g1r st, step_g1w h.g1w st, step_s3r h.s3r st, step_s3w h.s3w st, step_g2r h.g2r st, step_g2w h.g2w st, step_s5r h.s5r st, step_hdr1 h.hdr1 st, step_hdr2 h.hdr2 st, step_oid h.oid st, step_oid2 h.oid2 st, step_s1ok h.s1ok st, step_errS1 h.errS1 st, step_echan0 h.echan0 st, step_fdone h.fdone h.echan0 h.nofirst st, step_nofirst h.nofirst st, step_mwait h.mwait st, step_merr h.merr st⟩

theorem inv_env {s s' : St} (h : Inv s) (st : Env s s') : Inv s' :=
  ⟨env_capA h.capA st, env_capB h.capB st, env_capC h.capC st, env_capD h.capD st, env_s1w h.s1w st, env_g1r h.g1r st, env_g1w h.g1w st, env_s3r h.s3r st, env_s3w h.s3w st, env_g2r h.g2r st, env_g2w h.g2w st, env_s5r h.s5r st, env_hdr1 h.hdr1 st, env_hdr2 h.hdr2 st, env_oid h.oid st, env_oid2 h.oid2 st, env_s1ok h.s1ok st, env_errS1 h.errS1 st, env_echan0 h.echan0 st, env_fdone h.fdone h.echan0 h.nofirst st, env_nofirst h.nofirst st, env_mwait h.mwait st, env_merr h.merr st⟩

theorem inv_reach {s0 s : St} (h0 : Inv s0) (r : Reach s0 s) : Inv s := by
  induction r with
  | refl => exact h0
  | step _ st ih => exact inv_step ih st
  | env _ st ih => exact inv_env ih st

end GitSizer.Pipeline
