import GitSizer.Proofs.Float
import GitSizer.Proofs.Human
/-! The float part of `FormatNumber` (`float64(n) / float64(multiplier)` then `%.Nf`), on the exact
    integer model: error bounds, monotonicity and exactness of the mantissa, and what they imply
    for the displayed numeral `m / 10^d`. -/
namespace GitSizer.Human

/-- 2^-53 -/
def eps : ℚ := 1 / 2 ^ 53

theorem eps_pos : 0 < eps := by unfold eps; positivity

/-! ## well-formed dyadics -/

structure Dy.Pos (x : Dy) : Prop where
  num_pos : 0 < x.num
  den_pos : 0 < x.den

theorem Dy.Pos.val_pos {x : Dy} (h : x.Pos) : 0 < x.val := by
  unfold Dy.val
  have h1 : (0 : ℚ) < x.num := by exact_mod_cast h.num_pos
  have h2 : (0 : ℚ) < x.den := by exact_mod_cast h.den_pos
  positivity

theorem rn53_pos (a b : Nat) (ha : 0 < a) (hb : 0 < b) : (rn53 a b).Pos := by
  obtain ⟨t1, _⟩ := sig_bounds a b ha hb
  unfold sig sigA sigB at t1
  unfold rn53
  simp only [Nat.pos_iff_ne_zero.mp ha, if_false, Nat.shiftLeft_eq]
  constructor
  · apply Nat.mul_pos _ (by positivity)
    have : 0 < 2 ^ 52 := by positivity
    omega
  · positivity

theorem toF64_pos (n : Nat) (hn : 0 < n) : (toF64 n).Pos := rn53_pos n 1 hn (by omega)

theorem fdiv_pos (x y : Dy) (hx : x.Pos) (hy : y.Pos) : (fdiv x y).Pos :=
  rn53_pos _ _ (Nat.mul_pos hx.num_pos hy.den_pos) (Nat.mul_pos hx.den_pos hy.num_pos)

theorem fdiv_ratio (x y : Dy) (hx : x.Pos) (hy : y.Pos) :
    ((x.num * y.den : ℕ) : ℚ) / ((x.den * y.num : ℕ) : ℚ) = x.val / y.val := by
  have h1 : (x.den : ℚ) ≠ 0 := by exact_mod_cast (Nat.pos_iff_ne_zero.mp hx.den_pos)
  have h2 : (y.den : ℚ) ≠ 0 := by exact_mod_cast (Nat.pos_iff_ne_zero.mp hy.den_pos)
  have h3 : (y.num : ℚ) ≠ 0 := by exact_mod_cast (Nat.pos_iff_ne_zero.mp hy.num_pos)
  unfold Dy.val; push_cast; field_simp

/-! ## `float64(n)` -/

theorem toF64_error (n : Nat) (hn : 0 < n) : |(toF64 n).val - n| ≤ n * eps := by
  have := rn53_error n 1 hn (by omega)
  simp only [Nat.cast_one, div_one] at this
  unfold toF64 eps
  rw [mul_one_div]; exact this

theorem toF64_mono (n n' : Nat) (hn : 0 < n) (h : n ≤ n') : (toF64 n).val ≤ (toF64 n').val := by
  apply rn53_mono n 1 n' 1 hn (by omega) (by omega) (by omega)
  simp only [Nat.cast_one, div_one]; exact_mod_cast h

/-- exact when the quotient is `N · 2^j` with a 53-bit `N` -/
theorem rn53_exact_dyadic (a b : Nat) (ha : 0 < a) (hb : 0 < b) (N : Nat) (j : ℤ) (hN : N < 2 ^ 53)
    (hX : (a : ℚ) / b = N * (2 : ℚ) ^ j) : (rn53 a b).val = (a : ℚ) / b := by
  obtain ⟨g1, _⟩ := sig_range a b ha hb
  have hr := sig_ratio a b hb
  rw [hX] at g1 hr
  unfold scale at g1 hr
  rw [mul_div_assoc, ← zpow_sub₀ (by norm_num : (2 : ℚ) ≠ 0)] at g1 hr
  generalize hg : j - expo a b = g at *
  have hNq : (N : ℚ) < 2 ^ 53 := by exact_mod_cast hN
  have hN0 : (0 : ℚ) ≤ N := by positivity
  have hg0 : 0 ≤ g := by
    by_contra hc
    have h1 : (2 : ℚ) ^ g ≤ 2 ^ (-1 : ℤ) := zpow_le_zpow_right₀ (by norm_num) (by omega)
    have h2 : (2 : ℚ) ^ (-1 : ℤ) = 1 / 2 := by norm_num
    have : (N : ℚ) * 2 ^ g ≤ N * (1 / 2) := by rw [← h2]; gcongr
    have : (2 : ℚ) ^ 52 = 2 ^ 53 * (1 / 2) := by norm_num
    linarith
  obtain ⟨k, rfl⟩ := Int.eq_ofNat_of_zero_le hg0
  rw [zpow_natCast] at hr
  have hB := sigB_pos a b hb
  have hBq : (sigB a b : ℚ) ≠ 0 := by exact_mod_cast (Nat.pos_iff_ne_zero.mp hB)
  apply rn53_exact a b ha hb (N * 2 ^ k)
  have : (sigA a b : ℚ) = (N : ℚ) * 2 ^ k * sigB a b := by
    rw [← hr]; field_simp
  exact_mod_cast this

theorem toF64_exact (n : Nat) (hn : 0 < n) (h : n < 2 ^ 53) : (toF64 n).val = n := by
  have := rn53_exact_dyadic n 1 hn (by omega) n 0 h (by simp)
  simpa [toF64] using this

/-! ## the mantissa `float64(n) / float64(P)` -/

/-- hypotheses on a multiplier: positive and exactly representable -/
structure MultOK (P : Nat) : Prop where
  pos : 0 < P
  exact : (toF64 P).val = P

def mant (n P : Nat) : Dy := fdiv (toF64 n) (toF64 P)

theorem mant_pos (n P : Nat) (hn : 0 < n) (hP : MultOK P) : (mant n P).Pos :=
  fdiv_pos _ _ (toF64_pos n hn) (toF64_pos P hP.pos)

theorem mant_error (n P : Nat) (hn : 0 < n) (hP : MultOK P) :
    |(mant n P).val - (toF64 n).val / P| ≤ (toF64 n).val / P * eps := by
  have hx := toF64_pos n hn
  have hy := toF64_pos P hP.pos
  have := rn53_error _ _ (Nat.mul_pos hx.num_pos hy.den_pos) (Nat.mul_pos hx.den_pos hy.num_pos)
  rw [fdiv_ratio _ _ hx hy, hP.exact] at this
  unfold mant fdiv eps
  rw [mul_one_div]; exact this

theorem mant_mono (n n' P : Nat) (hn : 0 < n) (h : n ≤ n') (hP : MultOK P) :
    (mant n P).val ≤ (mant n' P).val := by
  have hn' : 0 < n' := by omega
  have hx := toF64_pos n hn
  have hx' := toF64_pos n' hn'
  have hy := toF64_pos P hP.pos
  unfold mant fdiv
  apply rn53_mono _ _ _ _ (Nat.mul_pos hx.num_pos hy.den_pos) (Nat.mul_pos hx.den_pos hy.num_pos)
    (Nat.mul_pos hx'.num_pos hy.den_pos) (Nat.mul_pos hx'.den_pos hy.num_pos)
  rw [fdiv_ratio _ _ hx hy, fdiv_ratio _ _ hx' hy]
  exact div_le_div_of_nonneg_right (toF64_mono n n' hn h) (le_of_lt hy.val_pos)

/-- two roundings: within a factor (1 ± 2^-53)² of n / P -/
theorem mant_bounds (n P : Nat) (hn : 0 < n) (hP : MultOK P) :
    (n : ℚ) / P * (1 - 2 * eps) ≤ (mant n P).val ∧ (mant n P).val ≤ (n : ℚ) / P * (1 + 3 * eps) := by
  have e1 := toF64_error n hn
  have e2 := mant_error n P hn hP
  have hPq : (0 : ℚ) < P := by exact_mod_cast hP.pos
  have hnq : (0 : ℚ) < n := by exact_mod_cast hn
  have he := eps_pos
  have he1 : eps ≤ 1 := by unfold eps; norm_num
  rw [abs_le] at e1 e2
  generalize (toF64 n).val = F at *
  generalize (mant n P).val = M at *
  have hF1 : (n : ℚ) * (1 - eps) ≤ F := by linarith
  have hF2 : F ≤ (n : ℚ) * (1 + eps) := by linarith
  have hF0 : 0 ≤ F := by nlinarith
  have hFP1 : (n : ℚ) / P * (1 - eps) ≤ F / P := by
    rw [div_mul_eq_mul_div]; exact div_le_div_of_nonneg_right hF1 (le_of_lt hPq)
  have hFP2 : F / P ≤ (n : ℚ) / P * (1 + eps) := by
    rw [div_mul_eq_mul_div]; exact div_le_div_of_nonneg_right hF2 (le_of_lt hPq)
  have hX : (0 : ℚ) < (n : ℚ) / P := by positivity
  generalize (n : ℚ) / P = X at *
  generalize F / P = Q at *
  constructor
  · have : X * (1 - eps) * (1 - eps) ≤ Q * (1 - eps) := by
      apply mul_le_mul_of_nonneg_right hFP1; linarith
    nlinarith
  · have : Q * (1 + eps) ≤ X * (1 + eps) * (1 + eps) := by
      apply mul_le_mul_of_nonneg_right hFP2; linarith
    nlinarith

/-! ## the displayed numeral `m = round(mantissa · 10^d)` -/

theorem fmtFixedN_spec (d : Nat) (x : Dy) (hx : x.Pos) :
    |((fmtFixedN d x : ℕ) : ℚ) - x.val * 10 ^ d| ≤ 1 / 2 := by
  obtain ⟨r1, r2, _, _⟩ := rhe_rat (x.num * 10 ^ d) x.den hx.den_pos
  have hd : (x.den : ℚ) ≠ 0 := by exact_mod_cast (Nat.pos_iff_ne_zero.mp hx.den_pos)
  have : ((x.num * 10 ^ d : ℕ) : ℚ) / x.den = x.val * 10 ^ d := by
    unfold Dy.val; push_cast; field_simp
  rw [this] at r1 r2
  unfold fmtFixedN
  rw [abs_le]; constructor <;> linarith

theorem fmtFixedN_mono (d : Nat) (x y : Dy) (hx : x.Pos) (hy : y.Pos) (h : x.val ≤ y.val) :
    fmtFixedN d x ≤ fmtFixedN d y := by
  unfold fmtFixedN
  apply rhe_mono _ _ _ _ hx.den_pos hy.den_pos
  have hd : (x.den : ℚ) ≠ 0 := by exact_mod_cast (Nat.pos_iff_ne_zero.mp hx.den_pos)
  have hd' : (y.den : ℚ) ≠ 0 := by exact_mod_cast (Nat.pos_iff_ne_zero.mp hy.den_pos)
  have e1 : ((x.num * 10 ^ d : ℕ) : ℚ) / x.den = x.val * 10 ^ d := by
    unfold Dy.val; push_cast; field_simp
  have e2 : ((y.num * 10 ^ d : ℕ) : ℚ) / y.den = y.val * 10 ^ d := by
    unfold Dy.val; push_cast; field_simp
  rw [e1, e2]; gcongr

/-- the numeral of n with multiplier P and d decimals -/
def numeral (n P d : Nat) : Nat := fmtFixedN d (mant n P)

theorem numeral_mono (n n' P d : Nat) (hn : 0 < n) (h : n ≤ n') (hP : MultOK P) :
    numeral n P d ≤ numeral n' P d :=
  fmtFixedN_mono d _ _ (mant_pos n P hn hP) (mant_pos n' P (by omega) hP) (mant_mono n n' P hn h hP)

/-- **the numeral brackets the whole part**: with w = ⌊n/P⌋ ≥ 1 and (w+1)·10^d ≤ 2^50,
    w·10^d ≤ m ≤ (w+1)·10^d -/
theorem numeral_bracket (n P d w : Nat) (hP : MultOK P) (hw1 : 1 ≤ w) (hlo : w * P ≤ n)
    (hhi : n < (w + 1) * P) (hsmall : (w + 1) * 10 ^ d ≤ 2 ^ 50) :
    w * 10 ^ d ≤ numeral n P d ∧ numeral n P d ≤ (w + 1) * 10 ^ d := by
  have hn : 0 < n := by
    have : 1 * P ≤ w * P := Nat.mul_le_mul_right _ hw1
    have := hP.pos; omega
  obtain ⟨b1, b2⟩ := mant_bounds n P hn hP
  have hm := fmtFixedN_spec d (mant n P) (mant_pos n P hn hP)
  rw [abs_le] at hm
  have hPq : (0 : ℚ) < P := by exact_mod_cast hP.pos
  have hloq : (w : ℚ) ≤ (n : ℚ) / P := by
    rw [le_div_iff₀ hPq]; exact_mod_cast hlo
  have hhiq : (n : ℚ) / P < (w : ℚ) + 1 := by
    rw [div_lt_iff₀ hPq]; exact_mod_cast hhi
  have hsq : ((w : ℚ) + 1) * 10 ^ d ≤ 2 ^ 50 := by exact_mod_cast hsmall
  have hD : (0 : ℚ) < 10 ^ d := by positivity
  have hwq : (1 : ℚ) ≤ w := by exact_mod_cast hw1
  unfold numeral
  generalize fmtFixedN d (mant n P) = mm at *
  generalize hM : (mm : ℚ) = M at hm
  generalize (mant n P).val = Y at *
  generalize (n : ℚ) / P = X at *
  have he : eps = 1 / 2 ^ 53 := rfl
  have hee : (2 : ℚ) ^ 50 * eps = 1 / 8 := by rw [he]; norm_num
  have hX0 : 0 < X := by linarith
  constructor
  · -- lower
    have h1 : (w : ℚ) * 10 ^ d - 1 < M := by
      have a1 : X * 10 ^ d * (1 - 2 * eps) ≤ Y * 10 ^ d := by nlinarith
      have a2 : (w : ℚ) * 10 ^ d ≤ X * 10 ^ d := by gcongr
      have a3 : (w : ℚ) * 10 ^ d * (2 * eps) ≤ 1 / 4 := by nlinarith [eps_pos]
      have a4 : (w : ℚ) * 10 ^ d * (1 - 2 * eps) ≤ X * 10 ^ d * (1 - 2 * eps) := by
        apply mul_le_mul_of_nonneg_right a2; rw [he]; norm_num
      nlinarith
    have : ((w * 10 ^ d : ℕ) : ℚ) < ((mm + 1 : ℕ) : ℚ) := by push_cast; rw [hM]; linarith
    have : w * 10 ^ d < mm + 1 := by exact_mod_cast this
    omega
  · -- upper
    have h1 : M < ((w : ℚ) + 1) * 10 ^ d + 1 := by
      have a1 : Y * 10 ^ d ≤ X * 10 ^ d * (1 + 3 * eps) := by nlinarith
      have a2 : X * 10 ^ d < ((w : ℚ) + 1) * 10 ^ d := by gcongr
      have a3 : ((w : ℚ) + 1) * 10 ^ d * (3 * eps) ≤ 3 / 8 := by nlinarith [eps_pos]
      have a4 : X * 10 ^ d * (1 + 3 * eps) ≤ ((w : ℚ) + 1) * 10 ^ d * (1 + 3 * eps) := by
        apply mul_le_mul_of_nonneg_right (le_of_lt a2); rw [he]; norm_num
      nlinarith
    have : (mm : ℚ) < (((w + 1) * 10 ^ d + 1 : ℕ) : ℚ) := by
      push_cast; rw [hM]; exact h1
    have : mm < (w + 1) * 10 ^ d + 1 := by exact_mod_cast this
    omega

end GitSizer.Human
