import GitSizer.Spec.ConfigGrammar
/-! Proofs for C15: the listing parser reads back every listing git can print; the prefix
    matcher is the component-boundary relation. -/
namespace GitSizer.Config
open GitSizer GitSizer.Spec

theorem splitFirst_append (b : UInt8) (l r : Bytes) (h : b ∉ l) : splitFirst b (l ++ b :: r) = some (l, r) := by
  induction l with
  | nil => simp [splitFirst]
  | cons x xs ih =>
    simp only [List.mem_cons, not_or] at h
    have hx : x ≠ b := fun e => h.1 e.symm
    simp [splitFirst, hx, ih h.2]

theorem splitFirst_none (b : UInt8) (l : Bytes) (h : b ∉ l) : splitFirst b l = none := by
  induction l with
  | nil => rfl
  | cons x xs ih =>
    simp only [List.mem_cons, not_or] at h
    have hx : x ≠ b := fun e => h.1 e.symm
    simp [splitFirst, hx, ih h.2]

theorem splitFirst_length (b : UInt8) : ∀ (l : Bytes) (p q : Bytes), splitFirst b l = some (p, q) → q.length < l.length := by
  intro l
  induction l with
  | nil => intro p q h; cases h
  | cons x xs ih =>
    intro p q h
    simp only [splitFirst] at h
    split at h
    · simp at h; rw [← h.2]; simp
    · cases hs : splitFirst b xs with
      | none => simp [hs] at h
      | some pr =>
        obtain ⟨l', r'⟩ := pr
        simp [hs] at h
        have := ih l' r' hs
        rw [← h.2]; simp; omega

theorem ser1_ne_nil (e : CfgEntry) : ser1 e ≠ [] := by
  unfold ser1; cases e.value <;> simp

theorem ser1_length (e : CfgEntry) : 1 ≤ (ser1 e).length := by
  unfold ser1; simp only [List.length_append, List.length_cons, List.length_nil]; omega

theorem serListing_length (es : List CfgEntry) : es.length ≤ (serListing es).length := by
  induction es with
  | nil => simp
  | cons e es ih =>
    have := ser1_length e
    simp only [serListing, List.flatMap_cons, List.length_append, List.length_cons] at *
    omega

/-- every listing git can print is read back exactly, keys without a value included -/
theorem parseListing_ser (es : List CfgEntry) (hok : ∀ e ∈ es, e.ok) :
    ∀ fuel, es.length ≤ fuel → parseListing fuel (serListing es) = some (es.map norm) := by
  induction es with
  | nil => intro fuel _; cases fuel <;> rfl
  | cons e es ih =>
    intro fuel hf
    cases fuel with
    | zero => simp at hf
    | succ f =>
      have he := hok e List.mem_cons_self
      have hrest := ih (fun x hx => hok x (List.mem_cons_of_mem _ hx)) f (by simp at hf; omega)
      have hser : serListing (e :: es) = (e.key ++ (match e.value with | none => [] | some v => LF :: v)) ++ NUL :: serListing es := by
        simp only [serListing, ser1, List.flatMap_cons, List.append_assoc, List.cons_append, List.nil_append]
        cases e.value <;> rfl
      have hnn : serListing (e :: es) ≠ [] := by rw [hser]; simp
      have hnul : NUL ∉ e.key ++ (match e.value with | none => [] | some v => LF :: v) := by
        obtain ⟨h1, _, h3⟩ := he
        cases hv : e.value with
        | none => simpa using h1
        | some v =>
          simp only [List.mem_append, List.mem_cons, not_or]
          exact ⟨h1, by decide, h3 v hv⟩
      cases hs : serListing (e :: es) with
      | nil => exact absurd hs hnn
      | cons b bs =>
        rw [← hs]
        unfold parseListing
        rw [hs]; simp only
        rw [← hs, hser, splitFirst_append NUL _ _ hnul]
        simp only [hrest]
        congr 2
        obtain ⟨_, h2, _⟩ := he
        cases hv : e.value with
        | none => simp [norm, hv, splitFirst_none LF e.key h2]
        | some v => simp [norm, hv, splitFirst_append LF e.key v h2]

/-- the model's loop *is* the reference reading -/
theorem parseListing_eq_ref : ∀ (fuel : Nat) (l : Bytes), parseListing fuel l = parseRef fuel l := by
  intro fuel
  induction fuel with
  | zero => intro l; cases l <;> rfl
  | succ f ih =>
    intro l
    cases l with
    | nil => rfl
    | cons x xs =>
      unfold parseListing parseRef
      cases splitFirst NUL (x :: xs) with
      | none => rfl
      | some pr => simp only [ih]; rfl

/-! ### prefix matching -/

theorem hasPrefix_iff : ∀ (s p : Bytes), Bytes.hasPrefix s p = true ↔ ∃ r, s = p ++ r := by
  intro s p
  induction p generalizing s with
  | nil => simp [Bytes.hasPrefix]
  | cons b bs ih =>
    cases s with
    | nil => simp [Bytes.hasPrefix]
    | cons a as =>
      simp only [Bytes.hasPrefix, Bool.and_eq_true, beq_iff_eq, ih, List.cons_append, List.cons.injEq]
      constructor
      · rintro ⟨rfl, r, rfl⟩; exact ⟨r, rfl, rfl⟩
      · rintro ⟨r, rfl, rfl⟩; exact ⟨rfl, r, rfl⟩

/-- `configKeyMatchesPrefix` returns `(true, rest)` exactly when `key` lies under `prefix` at a
    component boundary with remainder `rest` -/
theorem keyMatchesPrefix_spec (key pfx rest : Bytes) :
    keyMatchesPrefix key pfx = (true, rest) ↔ KeyUnder key pfx rest := by
  unfold keyMatchesPrefix KeyUnder
  by_cases hp : pfx = []
  · subst hp; simp; exact eq_comm
  · have hne : pfx.isEmpty = false := by cases pfx <;> simp_all
    simp only [hne, Bool.false_eq_true, if_false, hp, false_and, false_or, ne_eq, not_false_eq_true, true_and]
    by_cases hpre : Bytes.hasPrefix key pfx = true
    · obtain ⟨r, rfl⟩ := (hasPrefix_iff key pfx).mp hpre
      simp only [hpre, Bool.not_true, Bool.false_eq_true, if_false, List.drop_left' rfl, List.length_append]
      by_cases hdot : pfx.getLast? = some DOT
      · simp only [hdot, if_true, Prod.mk.injEq, true_and, List.append_cancel_left_eq, not_true_eq_false, false_and, or_false]
      · simp only [hdot, if_false, not_false_eq_true, true_and, false_and, false_or]
        cases r with
        | nil => simp
        | cons c cs =>
          have h1 : ¬ (pfx.length + (c :: cs).length = pfx.length) := by simp
          simp only [h1, if_false]
          have hidx : (pfx ++ c :: cs)[pfx.length]? = some c := by simp
          simp only [hidx, Option.some.injEq]
          by_cases hc : c = DOT
          · subst hc
            simp only [if_true, Prod.mk.injEq, true_and]
            have hd : List.drop (pfx.length + 1) (pfx ++ DOT :: cs) = cs := by
              rw [show pfx ++ DOT :: cs = (pfx ++ [DOT]) ++ cs by simp]
              exact List.drop_left' (by simp)
            rw [hd]
            constructor
            · intro h; right; rw [h]
            · rintro (⟨h, _⟩ | h)
              · have := congrArg List.length h; simp at this
              · simpa using h
          · simp only [hc, if_false, Prod.mk.injEq, Bool.false_eq_true, false_and, false_iff, not_or]
            refine ⟨fun h => ?_, fun h => ?_⟩
            · have := congrArg List.length h.1; simp at this
            · have := List.append_cancel_left h; simp at this; exact hc this.1
    · have hnp : ¬ ∃ r, key = pfx ++ r := fun h => hpre ((hasPrefix_iff key pfx).mpr h)
      simp only [hpre, Bool.not_false, if_true, Prod.mk.injEq, Bool.false_eq_true, false_and, false_iff, not_or, not_and]
      refine ⟨fun _ h => hnp ⟨rest, h⟩, fun _ => ⟨fun h _ => hnp ⟨[], by simp [h]⟩, fun h => hnp ⟨DOT :: rest, h⟩⟩⟩

/-- **negation witness for the code before the repair of F4**: a key without a value swallows the
    following entry ("a.b" without value, then "r.g.i" = "r/h") -/
def w : List CfgEntry := [⟨[97, 46, 98], none⟩, ⟨[114, 46, 103, 46, 105], some [114, 47, 104]⟩]
theorem parseListingOld_witness : parseListingOld 10 (serListing w) ≠ some (w.map norm) := by decide
theorem parseListingOld_witness_value : (parseListingOld 10 (serListing w)).map List.length = some 1 := by decide

end GitSizer.Config
