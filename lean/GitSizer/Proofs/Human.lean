import GitSizer.Model.Human
import GitSizer.Gen.Tables
/-! Lemmas about the prefix-selection loop of `FormatNumber`, for arbitrary prefix tables that are
    sorted by multiplier and start at 1 (true of the REGENERATED tables, by `decide`). -/
namespace GitSizer.Human

/-- table well-formedness: first multiplier 1, multipliers strictly increasing, all positive -/
def SortedFrom : Nat → List Prefix → Prop
  | _, [] => True
  | lo, p :: ps => lo < p.2 ∧ SortedFrom p.2 ps

instance : (lo : Nat) → (l : List Prefix) → Decidable (SortedFrom lo l)
  | _, [] => inferInstanceAs (Decidable True)
  | lo, p :: ps => by unfold SortedFrom; exact @instDecidableAnd _ _ _ (instDecidableSortedFrom p.2 ps)

def TableWF (t : List Prefix) : Prop :=
  match t with
  | [] => False
  | p :: ps => p.2 = 1 ∧ SortedFrom 1 ps

instance (t : List Prefix) : Decidable (TableWF t) := by
  unfold TableWF; cases t <;> exact inferInstance

/-- the fold of `selectPrefix`, generalised over the accumulator -/
def selLoop (n : Nat) (ps : List Prefix) (acc : Nat × Prefix) : Nat × Prefix :=
  ps.foldl (fun acc p => let w := n / p.2; if w ≥ 1 then (w, p) else acc) acc

theorem selectPrefix_eq (t : List Prefix) (n : Nat) : selectPrefix t n = selLoop n t (n, t.headD ("", 1)) := rfl

/-- invariant of the loop over a sorted tail: the result is a table entry (or the accumulator),
    whole = n / mult, and no entry of the tail that is ≤ n has a larger multiplier. -/
theorem selLoop_spec (n : Nat) : ∀ (ps : List Prefix) (lo : Nat) (w : Nat) (q : Prefix),
    SortedFrom lo ps → 0 < lo → q.2 ≤ lo → 0 < q.2 → w = n / q.2 →
    (selLoop n ps (w, q)).1 = n / (selLoop n ps (w, q)).2.2 ∧ 0 < (selLoop n ps (w, q)).2.2 ∧
    ((selLoop n ps (w, q)).2 = q ∨ (selLoop n ps (w, q)).2 ∈ ps) ∧ q.2 ≤ (selLoop n ps (w, q)).2.2 ∧
    ((selLoop n ps (w, q)).2.2 ≤ n ∨ (selLoop n ps (w, q)).2 = q) ∧
    (∀ p ∈ ps, p.2 ≤ n → p.2 ≤ (selLoop n ps (w, q)).2.2) := by
  intro ps
  induction ps with
  | nil => intro lo w q _ _ _ hpos hw; simp [selLoop, hw, hpos]
  | cons p ps ih =>
    intro lo w q hs hlo hacc hpos hw
    obtain ⟨hlt, hs'⟩ := hs
    have hp : 0 < p.2 := by omega
    have hstep : selLoop n (p :: ps) (w, q) = selLoop n ps (if n / p.2 ≥ 1 then (n / p.2, p) else (w, q)) := by
      simp [selLoop]
    rw [hstep]
    by_cases hge : n / p.2 ≥ 1
    · simp only [hge, if_true]
      have hpn : p.2 ≤ n := by
        have h0 := Nat.div_mul_le_self n p.2
        have h1 : 1 * p.2 ≤ n / p.2 * p.2 := Nat.mul_le_mul_right _ hge
        omega
      obtain ⟨h1, h2, h3, h4, h5, h6⟩ := ih p.2 (n / p.2) p hs' hp (Nat.le_refl _) hp rfl
      refine ⟨h1, h2, ?_, by omega, ?_, ?_⟩
      · rcases h3 with h | h
        · right; rw [h]; exact List.mem_cons_self
        · right; exact List.mem_cons_of_mem _ h
      · left
        rcases h5 with h | h
        · exact h
        · rw [h]; exact hpn
      · intro r hr hrn
        rcases List.mem_cons.mp hr with rfl | hr
        · exact h4
        · exact h6 r hr hrn
    · simp only [hge, if_false]
      have hz : n / p.2 = 0 := Nat.eq_zero_of_not_pos hge
      have hnp : n < p.2 := (Nat.div_eq_zero_iff.mp hz).resolve_left (by omega)
      obtain ⟨h1, h2, h3, h4, h5, h6⟩ := ih p.2 w q hs' hp (by omega) hpos hw
      refine ⟨h1, h2, ?_, h4, h5, ?_⟩
      · rcases h3 with h | h
        · left; exact h
        · right; exact List.mem_cons_of_mem _ h
      · intro r hr hrn
        rcases List.mem_cons.mp hr with rfl | hr
        · omega
        · exact h6 r hr hrn

theorem metric_wf : TableWF Gen.Tables.metricPrefixes := by decide
theorem binary_wf : TableWF Gen.Tables.binaryPrefixes := by decide

/-- Specification of the loop on a well-formed table. -/
theorem selectPrefix_spec {t : List Prefix} (wf : TableWF t) (n : Nat) :
    (selectPrefix t n).2 ∈ t ∧ 0 < (selectPrefix t n).2.2 ∧ (selectPrefix t n).1 = n / (selectPrefix t n).2.2 ∧
    ((selectPrefix t n).2.2 ≤ n ∨ (selectPrefix t n).2.2 = 1) ∧ (∀ p ∈ t, p.2 ≤ n → p.2 ≤ (selectPrefix t n).2.2) := by
  match t, wf with
  | p :: ps, ⟨h1, hs⟩ =>
    have hstep : selectPrefix (p :: ps) n = selLoop n ps (n, p) := by
      rw [selectPrefix_eq]
      simp only [List.headD_cons, selLoop, List.foldl_cons, h1, Nat.div_one]
      by_cases hn : n ≥ 1 <;> simp [hn]
    rw [hstep]
    obtain ⟨a, b, c, d, e, f⟩ := selLoop_spec n ps 1 n p hs (by omega) (by omega) (by omega) (by rw [h1]; simp)
    refine ⟨?_, b, a, ?_, ?_⟩
    · rcases c with c | c
      · rw [c]; exact List.mem_cons_self
      · exact List.mem_cons_of_mem _ c
    · rcases e with e | e
      · left; exact e
      · right; rw [e]; exact h1
    · intro q hq hqn
      rcases List.mem_cons.mp hq with rfl | hq
      · exact d
      · exact f q hq hqn

end GitSizer.Human
