import GitSizer.Model.Output
/-! Proofs about the renderer model: the level-of-concern decision, threshold monotonicity,
    the "no problems" line, and footnote numbering. -/
namespace GitSizer.Output
open GitSizer GitSizer.Human

/-! ### level of concern -/

/-- a row is shown iff the value is saturated or the alert is not below the threshold -/
theorem shown_iff (v : Val) (sn sd : Nat) (thr : Thr) :
    (levelOfConcern v sn sd thr).isSome = (v.overflow || !alertLt (alertOf v sn sd) thr) := by
  unfold levelOfConcern
  by_cases ho : v.overflow = true
  · simp [ho]
  · simp only [ho, Bool.false_eq_true, if_false, Bool.false_or]
    by_cases ha : alertLt (alertOf v sn sd) thr = true
    · simp [ha]
    · simp only [ha, Bool.false_eq_true, if_false]
      split <;> rfl

/-- the marker: 30 exclamation marks if saturated or the alert exceeds the limit, else ⌊alert⌋ stars -/
theorem marker_spec (v : Val) (sn sd : Nat) (thr : Thr) (l : String) (h : levelOfConcern v sn sd thr = some l) :
    l = if v.overflow || Dy.lt ⟨concernLimit, 1⟩ (alertOf v sn sd) then bangs else starsN (Dy.floor (alertOf v sn sd)) := by
  unfold levelOfConcern at h
  by_cases ho : v.overflow = true
  · simp [ho] at h ⊢; exact h.symm
  · simp only [ho, Bool.false_eq_true, if_false] at h
    simp only [ho, Bool.false_or]
    split at h
    · simp at h
    · split at h
      · next hl => simp at h; simp [hl, h]
      · next hl => simp at h; simp [hl, h]

/-- the marker does not depend on the threshold -/
theorem marker_independent (v : Val) (sn sd : Nat) (t1 t2 : Thr) (l1 l2 : String)
    (h1 : levelOfConcern v sn sd t1 = some l1) (h2 : levelOfConcern v sn sd t2 = some l2) : l1 = l2 := by
  rw [marker_spec v sn sd t1 l1 h1, marker_spec v sn sd t2 l2 h2]

/-- order on thresholds (as float64 values; NaN is incomparable) -/
def thrLe : Thr → Thr → Bool
  | .nan, _ => false
  | _, .nan => false
  | .negInf, _ => true
  | _, .posInf => true
  | .posInf, _ => false
  | _, .negInf => false
  | .fin true _, .fin false _ => true
  | .fin false a, .fin false b => !Dy.lt b a
  | .fin true a, .fin true b => !Dy.lt a b
  | .fin false a, .fin true _ => a.num == 0

theorem dy_lt_of_lt_of_le {a b c : Dy} (_hb : 0 < b.den) (hc : 0 < c.den) (_ha : 0 < a.den)
    (h1 : Dy.lt a b = true) (h2 : Dy.lt c b = false) : Dy.lt a c = true := by
  simp only [Dy.lt, decide_eq_true_eq, decide_eq_false_iff_not, Nat.not_lt] at *
  -- a.num*b.den < b.num*a.den ,  b.num*c.den ≤ c.num*b.den  ⊢ a.num*c.den < c.num*a.den
  have e1 : a.num * b.den * c.den < b.num * a.den * c.den := Nat.mul_lt_mul_of_pos_right h1 hc
  have e2 : b.num * c.den * a.den ≤ c.num * b.den * a.den := Nat.mul_le_mul_right _ h2
  have e3 : a.num * c.den * b.den < c.num * a.den * b.den := by
    calc a.num * c.den * b.den = a.num * b.den * c.den := by ac_rfl
      _ < b.num * a.den * c.den := e1
      _ = b.num * c.den * a.den := by ac_rfl
      _ ≤ c.num * b.den * a.den := e2
      _ = c.num * a.den * b.den := by ac_rfl
  exact Nat.lt_of_mul_lt_mul_right e3

/-- **raising the threshold only removes rows**: an alert below `t1` is below every `t2 ≥ t1` -/
theorem alertLt_mono (a : Dy) (ha : 0 < a.den) (t1 t2 : Thr)
    (hd1 : ∀ s v, t1 = .fin s v → 0 < v.den) (hd2 : ∀ s v, t2 = .fin s v → 0 < v.den)
    (hle : thrLe t1 t2 = true) (h : alertLt a t1 = true) : alertLt a t2 = true := by
  cases t1 with
  | nan => simp [thrLe] at hle
  | negInf => simp [alertLt] at h
  | posInf =>
    cases t2 with
    | posInf => rfl
    | nan => simp [thrLe] at hle
    | negInf => simp [thrLe] at hle
    | fin s v => simp [thrLe] at hle
  | fin s1 v1 =>
    cases s1 with
    | true => simp [alertLt] at h
    | false =>
      cases t2 with
      | nan => simp [thrLe] at hle
      | posInf => rfl
      | negInf => simp [thrLe] at hle
      | fin s2 v2 =>
        cases s2 with
        | false =>
          simp only [thrLe, Bool.not_eq_true'] at hle
          simp only [alertLt] at h ⊢
          exact dy_lt_of_lt_of_le (hd1 _ _ rfl) (hd2 _ _ rfl) ha h hle
        | true =>
          simp only [thrLe, beq_iff_eq] at hle
          simp only [alertLt, Dy.lt, decide_eq_true_eq] at h
          rw [hle] at h; simp at h

theorem shown_mono (v : Val) (sn sd : Nat) (t1 t2 : Thr) (ha : 0 < (alertOf v sn sd).den)
    (hd1 : ∀ s x, t1 = .fin s x → 0 < x.den) (hd2 : ∀ s x, t2 = .fin s x → 0 < x.den)
    (hle : thrLe t1 t2 = true) (l : String) (h : levelOfConcern v sn sd t2 = some l) :
    levelOfConcern v sn sd t1 = some l := by
  have h2 : (levelOfConcern v sn sd t2).isSome = true := by rw [h]; rfl
  rw [shown_iff] at h2
  have h1 : (levelOfConcern v sn sd t1).isSome = true := by
    rw [shown_iff]
    cases ho : v.overflow with
    | true => rfl
    | false =>
      simp only [ho, Bool.false_or, Bool.not_eq_true'] at h2 ⊢
      cases hlt : alertLt (alertOf v sn sd) t1 with
      | false => rfl
      | true => have := alertLt_mono _ ha t1 t2 hd1 hd2 hle hlt; rw [this] at h2; cases h2
  cases hl : levelOfConcern v sn sd t1 with
  | none => rw [hl] at h1; cases h1
  | some l1 => rw [marker_independent v sn sd t1 t2 l1 l hl h]

/-- `--verbose` (threshold 0) and any negative threshold show every metric -/
theorem verbose_shows_all (v : Val) (sn sd : Nat) (neg : Bool) (x : Dy) (hx : neg = true ∨ x.num = 0) :
    (levelOfConcern v sn sd (.fin neg x)).isSome = true := by
  rw [shown_iff]
  cases neg with
  | true => simp [alertLt]
  | false =>
    rcases hx with h | h
    · cases h
    · simp [alertLt, Dy.lt, h]

/-! ### footnotes -/

theorem idxOf?_some_of_mem {l : List Bytes} {t : Bytes} (h : t ∈ l) : ∃ i, l.idxOf? t = some i ∧ l[i]? = some t := by
  induction l with
  | nil => cases h
  | cons x xs ih =>
    by_cases hx : x = t
    · subst hx; exact ⟨0, by simp [List.idxOf?, List.findIdx?_cons], rfl⟩
    · have hm : t ∈ xs := by rcases List.mem_cons.mp h with h | h; exact absurd h.symm hx; exact h
      obtain ⟨i, hi, hg⟩ := ih hm
      refine ⟨i + 1, ?_, by simpa using hg⟩
      simp only [List.idxOf?, List.findIdx?_cons, beq_iff_eq, hx, if_false] at hi ⊢
      simp [hi]

theorem idxOf?_none_of_not_mem {l : List Bytes} {t : Bytes} (h : t ∉ l) : l.idxOf? t = none := by
  induction l with
  | nil => rfl
  | cons x xs ih =>
    have hx : x ≠ t := fun e => h (by simp [e])
    have hm : t ∉ xs := fun e => h (List.mem_cons_of_mem _ e)
    simp only [List.idxOf?, List.findIdx?_cons, beq_iff_eq, hx, if_false]
    have := ih hm
    simp only [List.idxOf?] at this
    simp [this]

/-- an empty text is not cited; a known text reuses its number; a new text gets the next number -/
theorem cite_spec (f : Footnotes) (t : Bytes) :
    (t = [] → f.cite t = (f, "")) ∧
    (t ≠ [] → t ∈ f.notes → ∃ i, f.notes[i]? = some t ∧ f.cite t = (f, s!"[{i + 1}]")) ∧
    (t ≠ [] → t ∉ f.notes → f.cite t = ({ notes := f.notes ++ [t] }, s!"[{f.notes.length + 1}]")) := by
  refine ⟨?_, ?_, ?_⟩
  · intro h; subst h; rfl
  · intro hne hm
    obtain ⟨i, hi, hg⟩ := idxOf?_some_of_mem hm
    refine ⟨i, hg, ?_⟩
    unfold Footnotes.cite
    have : t.isEmpty = false := by cases t <;> simp_all
    simp [this, hi]
  · intro hne hm
    unfold Footnotes.cite
    have : t.isEmpty = false := by cases t <;> simp_all
    simp [this, idxOf?_none_of_not_mem hm]

/-- the footnote list after citing a sequence of texts: the distinct non-empty texts in order of
    first citation -/
def citeAll (f : Footnotes) : List Bytes → Footnotes
  | [] => f
  | t :: ts => citeAll (f.cite t).1 ts

def firstOccurrences (seen : List Bytes) : List Bytes → List Bytes
  | [] => seen
  | t :: ts => if t.isEmpty || seen.contains t then firstOccurrences seen ts else firstOccurrences (seen ++ [t]) ts

theorem citeAll_spec (f : Footnotes) (ts : List Bytes) :
    (citeAll f ts).notes = firstOccurrences f.notes ts := by
  induction ts generalizing f with
  | nil => rfl
  | cons t ts ih =>
    simp only [citeAll, firstOccurrences]
    rw [ih]
    by_cases he : t = []
    · subst he; simp [(cite_spec f []).1 rfl]
    · have hne : t.isEmpty = false := by cases t <;> simp_all
      by_cases hm : t ∈ f.notes
      · obtain ⟨i, _, hc⟩ := (cite_spec f t).2.1 he hm
        simp [hc, hne, hm]
      · have hc := (cite_spec f t).2.2 he hm
        simp [hc, hne, hm]

theorem firstOccurrences_nodup : ∀ (ts seen : List Bytes), seen.Nodup → (firstOccurrences seen ts).Nodup := by
  intro ts
  induction ts with
  | nil => intro seen h; exact h
  | cons t ts ih =>
    intro seen h
    simp only [firstOccurrences]
    split
    · exact ih seen h
    · next hc =>
      apply ih
      simp only [Bool.or_eq_true, not_or, Bool.not_eq_true] at hc
      have : t ∉ seen := by intro hm; have := List.contains_iff_mem.mpr hm; simp_all
      exact List.nodup_append.mpr ⟨h, by simp, by
        intro a ha b hb hab; simp at hb; subst hb; subst hab; exact this ha⟩

end GitSizer.Output

namespace GitSizer.Output
open GitSizer GitSizer.Human

/-! ### which rows appear: the "no problems" line -/

def itemShown (thr : Thr) (i : Item) : Bool := (levelOfConcern i.value i.scaleNum i.scaleDen thr).isSome

mutual
/-- some metric below this node qualifies for the threshold -/
def shownAny (thr : Thr) : Node → Bool
  | .item i => itemShown thr i
  | .indented i _ => itemShown thr i
  | .sec _ kids => shownAnyList thr kids
def shownAnyList (thr : Thr) : List Node → Bool
  | [] => false
  | n :: ns => shownAny thr n || shownAnyList thr ns
end

theorem formatRow_nonempty {t : Tbl} {name : Bytes} {c v u l : String} {r : Bytes}
    (h : formatRow t name c v u l = some r) : r ≠ [] := by
  unfold formatRow at h
  split at h
  · cases h
  · split at h
    · cases h
    · simp only [Option.some.injEq] at h
      rw [← h]; unfold rowBytes; simp

theorem append_isEmpty (a b : Bytes) : (a ++ b).isEmpty = (a.isEmpty && b.isEmpty) := by
  cases a <;> cases b <;> rfl

theorem emitItem_buf (thr : Thr) (i : Item) (t t' : Tbl) (fn fn' : Footnotes)
    (h : emitItem thr i t fn = some (t', fn')) :
    t'.indent = t.indent ∧ t'.header = t.header ∧ (t'.buf.isEmpty = (t.buf.isEmpty && !itemShown thr i)) := by
  unfold emitItem at h
  unfold itemShown
  cases hl : levelOfConcern i.value i.scaleNum i.scaleDen thr with
  | none => simp [hl] at h; obtain ⟨rfl, rfl⟩ := h; simp
  | some lvl =>
    simp only [hl] at h
    cases hr : formatRow t i.name (fn.cite i.footnote).2 (Human.format (prefixesOf i.humaner) i.value.n i.value.overflow i.unit).1
        (Human.format (prefixesOf i.humaner) i.value.n i.value.overflow i.unit).2 lvl with
    | none => simp [hr] at h
    | some r =>
      simp only [hr, Option.map_some, Option.some.injEq, Prod.mk.injEq] at h
      obtain ⟨rfl, rfl⟩ := h
      have := formatRow_nonempty hr
      refine ⟨rfl, rfl, ?_⟩
      simp only [append_isEmpty, Option.isSome_some, Bool.not_true, Bool.and_false]
      cases r with
      | nil => exact absurd rfl this
      | cons _ _ => simp

theorem addSection_buf (t sub t' : Tbl) (h : addSection t sub = some t') :
    t'.indent = t.indent ∧ t'.header = t.header ∧ (t'.buf.isEmpty = (t.buf.isEmpty && sub.buf.isEmpty)) := by
  unfold addSection at h
  by_cases hs : sub.buf.isEmpty = true
  · simp only [hs, if_true, Option.some.injEq] at h; subst h; simp [hs]
  · simp only [hs, Bool.false_eq_true, if_false, bind, Option.bind] at h
    have hsf : sub.buf.isEmpty = false := by simpa using hs
    split at h
    · cases h
    · next t1 ht1 =>
      simp only [pure, Option.some.injEq] at h
      subst h
      have ht1' : t1.indent = t.indent ∧ t1.header = t.header := by
        split at ht1
        · split at ht1
          · cases hf : formatRow t (Bytes.ofString sub.header) "" "" "" "" with
            | none => simp [hf] at ht1
            | some r => simp [hf] at ht1; subst ht1; exact ⟨rfl, rfl⟩
          · simp at ht1; subst ht1; exact ⟨rfl, rfl⟩
        · split at ht1 <;> (simp at ht1; subst ht1; exact ⟨rfl, rfl⟩)
      refine ⟨ht1'.1, ht1'.2, ?_⟩
      simp [append_isEmpty, hsf]

mutual
theorem emit_buf (thr : Thr) : ∀ (n : Node) (t t' : Tbl) (fn fn' : Footnotes),
    emit thr n t fn = some (t', fn') →
    t'.indent = t.indent ∧ t'.header = t.header ∧ (t'.buf.isEmpty = (t.buf.isEmpty && !shownAny thr n))
  | .item i, t, t', fn, fn', h => by
    unfold emit at h; unfold shownAny; exact emitItem_buf thr i t t' fn fn' h
  | .indented i d, t, t', fn, fn', h => by
    unfold emit at h
    simp only [bind, Option.bind] at h
    split at h
    · cases h
    · next p hp =>
      obtain ⟨sub', fn1⟩ := p
      simp only at h
      split at h
      · cases h
      · next t1 ht1 =>
        simp only [pure, Option.some.injEq, Prod.mk.injEq] at h
        obtain ⟨rfl, rfl⟩ := h
        obtain ⟨_, _, hb⟩ := emitItem_buf thr i _ _ _ _ hp
        obtain ⟨a, b, c⟩ := addSection_buf _ _ _ ht1
        refine ⟨a, b, ?_⟩
        unfold shownAny
        rw [c, hb]; simp
  | .sec name kids, t, t', fn, fn', h => by
    unfold emit at h; unfold shownAny
    exact emitKids_buf thr name kids t t' fn fn' h
theorem emitKids_buf (thr : Thr) (name : String) : ∀ (kids : List Node) (t t' : Tbl) (fn fn' : Footnotes),
    emitKids thr name kids t fn = some (t', fn') →
    t'.indent = t.indent ∧ t'.header = t.header ∧ (t'.buf.isEmpty = (t.buf.isEmpty && !shownAnyList thr kids))
  | [], t, t', fn, fn', h => by
    unfold emitKids at h; simp at h; obtain ⟨rfl, rfl⟩ := h; unfold shownAnyList; simp
  | c :: cs, t, t', fn, fn', h => by
    unfold emitKids at h
    simp only [bind, Option.bind] at h
    split at h
    · cases h
    · next p hp =>
      obtain ⟨sub', fn1⟩ := p
      simp only at h
      split at h
      · cases h
      · next t1 ht1 =>
        obtain ⟨_, _, hb⟩ := emit_buf thr c _ _ _ _ hp
        obtain ⟨a1, b1, c1⟩ := addSection_buf _ _ _ ht1
        obtain ⟨a2, b2, c2⟩ := emitKids_buf thr name cs t1 t' fn1 fn' h
        refine ⟨a2.trans a1, b2.trans b1, ?_⟩
        unfold shownAnyList
        rw [c2, c1, hb]
        cases t.buf.isEmpty <;> cases shownAny thr c <;> cases shownAnyList thr cs <;> rfl
end

theorem headerRows_ne_noProblems (rest : Bytes) : headerRows ++ rest ≠ noProblems := by
  have h1 : (headerRows ++ rest).head? = some 124 := by
    have : headerRows.head? = some 124 := by decide +kernel
    cases hh : headerRows with
    | nil => rw [hh] at this; cases this
    | cons x xs => rw [hh] at this; simpa using this
  have h2 : noProblems.head? = some 78 := by decide +kernel
  intro e; rw [e, h2] at h1; cases h1

/-- **the single "no problems" line is printed iff no metric qualifies** -/
theorem no_problems_iff (thr : Thr) (c : Node) (out : Bytes) (h : tableString thr c = some out) :
    out = noProblems ↔ shownAny thr c = false := by
  unfold tableString at h
  simp only [bind, Option.bind] at h
  split at h
  · cases h
  · next p hp =>
    obtain ⟨t, fn⟩ := p
    obtain ⟨_, _, hb⟩ := emit_buf thr c _ _ _ _ hp
    simp only [List.isEmpty_nil, Bool.true_and] at hb
    simp only at h
    split at h
    · next he =>
      simp only [pure, Option.some.injEq] at h
      rw [he] at hb
      constructor
      · intro _; simpa using hb.symm
      · intro _; exact h.symm
    · next he =>
      simp only [pure, Option.some.injEq] at h
      have hf : t.buf.isEmpty = false := by simpa using he
      rw [hf] at hb
      constructor
      · intro e; rw [← h, List.append_assoc] at e; exact absurd e (headerRows_ne_noProblems _)
      · intro hs; rw [hs] at hb; cases hb

end GitSizer.Output
