import GitSizer.Proofs.Pipeline
/-! Progress: in every state that satisfies the invariant and in which the scanning goroutine has
    not returned, some PROGRAM step is enabled (the environment's "a git process dies" steps are not
    counted). The argument follows the wait-for chain: a stage blocked on an empty pipe waits for its
    left neighbour, which then has room to write; a stage blocked on a full pipe waits for its right
    neighbour, which is either alive and has something to read or has ended, and then the write fails
    with EPIPE. -/
namespace GitSizer.Pipeline

def CanStep (s : St) : Prop := ∃ s', Step s s'

variable {s : St}

theorem prog_feeder (h : Inv s) (h1 : s.s1 = .read) (ho : s.oidClosed = false) : CanStep s := by
  cases hf : s.feeder with
  | send k =>
    cases k with
    | zero => exact ⟨_, Step.feedLast s hf h1 ho⟩
    | succ k => exact ⟨_, Step.feedMore s k hf h1 ho⟩
  | close => exact ⟨_, Step.feederClose s hf⟩
  | report => have := h.oid (Or.inl hf); rw [ho] at this; cases this
  | done => have := h.oid (Or.inr hf); rw [ho] at this; cases this

theorem leftS1 (h : Inv s) (hs : s.s1 ≠ .done) (hA : s.g1 = .done ∨ s.a.n < s.a.cap) : CanStep s := by
  cases h1 : s.s1 with
  | done => exact absurd h1 hs
  | read =>
    cases ho : s.oidClosed with
    | true => exact ⟨_, Step.s1End s h1 ho⟩
    | false => exact prog_feeder h h1 ho
  | write =>
    cases hr : s.a.rclosed with
    | true => exact ⟨_, Step.s1Epipe s h1 hr⟩
    | false =>
      rcases hA with hg | hn
      · have := h.g1r hg; rw [hr] at this; cases this
      · exact ⟨_, Step.s1Write s h1 hr hn⟩

theorem leftG1 (h : Inv s) (hs : s.g1 ≠ .done) (hB : s.s3 = .done ∨ s.b.n < s.b.cap) : CanStep s := by
  cases hg : s.g1 with
  | done => exact absurd hg hs
  | read =>
    by_cases hn : 0 < s.a.n
    · exact ⟨_, Step.g1Read s hg hn⟩
    · have hn0 : s.a.n = 0 := by omega
      cases hw : s.a.wclosed with
      | true => exact ⟨_, Step.g1Eof s hg hn0 hw⟩
      | false =>
        have hs1 : s.s1 ≠ .done := by intro hd; have := h.s1w hd; rw [hw] at this; cases this
        exact leftS1 h hs1 (Or.inr (by have := h.capA; omega))
  | write k =>
    cases k with
    | zero => exact ⟨_, Step.g1Exit s hg⟩
    | succ k =>
      cases hr : s.b.rclosed with
      | true => exact ⟨_, Step.g1Epipe s k hg hr⟩
      | false =>
        rcases hB with h3 | hn
        · have := h.s3r h3; rw [hr] at this; cases this
        · exact ⟨_, Step.g1Write s k hg hr hn⟩

theorem leftS3 (h : Inv s) (hs : s.s3 ≠ .done) (hC : s.g2 = .done ∨ s.c.n < s.c.cap) : CanStep s := by
  cases h3 : s.s3 with
  | done => exact absurd h3 hs
  | read =>
    by_cases hn : 0 < s.b.n
    · exact ⟨_, Step.s3Read s h3 hn⟩
    · have hn0 : s.b.n = 0 := by omega
      cases hw : s.b.wclosed with
      | true => exact ⟨_, Step.s3Eof s h3 hn0 hw⟩
      | false =>
        have hg1 : s.g1 ≠ .done := by intro hd; have := h.g1w hd; rw [hw] at this; cases this
        exact leftG1 h hg1 (Or.inr (by have := h.capB; omega))
  | write =>
    cases hr : s.c.rclosed with
    | true => exact ⟨_, Step.s3Epipe s h3 hr⟩
    | false =>
      rcases hC with hg | hn
      · have := h.g2r hg; rw [hr] at this; cases this
      · exact ⟨_, Step.s3Write s h3 hr hn⟩

theorem leftG2 (h : Inv s) (hs : s.g2 ≠ .done) (hD : s.s5 = .done ∨ s.d.n < s.d.cap) : CanStep s := by
  cases hg : s.g2 with
  | done => exact absurd hg hs
  | read =>
    by_cases hn : 0 < s.c.n
    · exact ⟨_, Step.g2Read s hg hn⟩
    · have hn0 : s.c.n = 0 := by omega
      cases hw : s.c.wclosed with
      | true => exact ⟨_, Step.g2Eof s hg hn0 hw⟩
      | false =>
        have hs3 : s.s3 ≠ .done := by intro hd; have := h.s3w hd; rw [hw] at this; cases this
        exact leftS3 h hs3 (Or.inr (by have := h.capC; omega))
  | write =>
    cases hr : s.d.rclosed with
    | true => exact ⟨_, Step.g2Epipe s hg hr⟩
    | false =>
      rcases hD with h5 | hn
      · have := h.s5r h5; rw [hr] at this; cases this
      · exact ⟨_, Step.g2Write s hg hr hn⟩

theorem leftS5 (h : Inv s) (hs : s.s5 ≠ .done) (hm : s.main = .recv) : CanStep s := by
  cases h5 : s.s5 with
  | done => exact absurd h5 hs
  | send => exact ⟨_, Step.mainRecv s hm h5⟩
  | read =>
    by_cases hn : 0 < s.d.n
    · exact ⟨_, Step.s5Read s h5 hn⟩
    · have hn0 : s.d.n = 0 := by omega
      cases hw : s.d.wclosed with
      | true => exact ⟨_, Step.s5Eof s h5 hn0 hw⟩
      | false =>
        have hg2 : s.g2 ≠ .done := by intro hd; have := h.g2w hd; rw [hw] at this; cases this
        exact leftG2 h hg2 (Or.inr (by have := h.capD; omega))

/-- **no deadlock**: as long as the scanning goroutine has not returned, the program can move -/
theorem progress (h : Inv s) (hm : s.main ≠ .done) : CanStep s := by
  cases hmain : s.main with
  | done => exact absurd hmain hm
  | first => exact absurd hmain h.nofirst
  | recv =>
    cases hh : s.hdrClosed with
    | true => exact ⟨_, Step.mainClosed s hmain hh⟩
    | false =>
      have h5 : s.s5 ≠ .done := by intro hd; have := h.hdr2 hd; rw [hh] at this; cases this
      exact leftS5 h h5 hmain
  | wait =>
    have h5 : s.s5 = .done := h.hdr1 (h.mwait (Or.inl hmain))
    by_cases hg2 : s.g2 = .done
    · by_cases hs3 : s.s3 = .done
      · by_cases hg1 : s.g1 = .done
        · by_cases hs1 : s.s1 = .done
          · cases he : s.err with
            | true => exact ⟨_, Step.mainWaitErr s hmain hs1 hg1 hs3 hg2 h5 he⟩
            | false => exact ⟨_, Step.mainWaitOk s hmain hs1 hg1 hs3 hg2 h5 he⟩
          · exact leftS1 h hs1 (Or.inl hg1)
        · exact leftG1 h hg1 (Or.inl hs3)
      · exact leftS3 h hs3 (Or.inl hg2)
    · exact leftG2 h hg2 (Or.inl h5)
  | errchan =>
    obtain ⟨hs1, _, _, _, _, he⟩ := h.merr hmain
    by_cases hc : 0 < s.errChan
    · exact ⟨_, Step.mainErrchan s hmain hc⟩
    · have hc0 : s.errChan = 0 := by omega
      cases hf : s.feeder with
      | done =>
        rcases h.fdone hf with h1 | h1
        · omega
        · rw [hmain] at h1; cases h1
      | report => exact ⟨_, Step.feederReport s hf⟩
      | close => exact ⟨_, Step.feederClose s hf⟩
      | send k =>
        have hoc : s.oidClosed = true := h.s1ok (h.errS1 he hs1)
        rcases h.oid2 hoc with h1 | h1 <;> (rw [hf] at h1; cases h1)

/-! ### termination: every step, of the program or of the environment, lowers a measure -/

def fW : Feeder → Nat
  | .send k => 3 * (k + 1) + 3 | .close => 2 | .report => 1 | .done => 0
def s1W : Copy → Nat
  | .read => 1 | .write => 3 | .done => 0
def g1W (lines : Nat) : RevList → Nat
  | .read => 7 * lines + 2 | .write k => 7 * k + 1 | .done => 0
def s3W : Copy → Nat
  | .read => 1 | .write => 6 | .done => 0
def g2W : Copy → Nat
  | .read => 1 | .write => 4 | .done => 0
def s5W : Parser → Nat
  | .read => 1 | .send => 2 | .done => 0
def mW : Main → Nat
  | .first => 5 | .recv => 4 | .wait => 3 | .errchan => 2 | .done => 0

/-- roots and lines weigh less the further they have travelled; every control state weighs something until it is `done` -/
def mu (s : St) : Nat :=
  fW s.feeder + s1W s.s1 + s.a.n + g1W s.lines s.g1 + 6 * s.b.n + s3W s.s3 + 4 * s.c.n + g2W s.g2 + 2 * s.d.n + s5W s.s5 + mW s.main

theorem step_decreases {s s' : St} (st : Step s s') : mu s' < mu s := by
  cases st <;> simp_all [mu, fW, s1W, g1W, s3W, g2W, s5W, mW] <;> omega

theorem env_decreases {s s' : St} (st : Env s s') : mu s' < mu s := by
  cases st with
  | g1Die h =>
    have hpos : 0 < g1W s.lines s.g1 := by cases hg : s.g1 <;> simp_all [g1W]
    have e : g1W s.lines RevList.done = 0 := rfl
    simp only [mu, e]; omega
  | g2Die h =>
    have hpos : 0 < g2W s.g2 := by cases hg : s.g2 <;> simp_all [g2W]
    have e : g2W Copy.done = 0 := rfl
    simp only [mu, e]; omega

/-- from `s`, the scanning goroutine returns on every run: it has returned already, or the program is
    not stuck and every possible next step — the program's or the environment's — leads to a state
    from which it returns -/
inductive Returns : St → Prop where
  | done {s : St} : s.main = .done → Returns s
  | more {s : St} : CanStep s → (∀ s', Step s s' ∨ Env s s' → Returns s') → Returns s

theorem returns_of_inv : ∀ (n : Nat) (s : St), mu s ≤ n → Inv s → Returns s := by
  intro n
  induction n with
  | zero =>
    intro s hn h
    by_cases hm : s.main = .done
    · exact .done hm
    · obtain ⟨s', st⟩ := progress h hm
      have := step_decreases st; omega
  | succ n ih =>
    intro s hn h
    by_cases hm : s.main = .done
    · exact .done hm
    · refine .more (progress h hm) ?_
      intro s' hs
      rcases hs with st | st
      · exact ih s' (by have := step_decreases st; omega) (inv_step h st)
      · exact ih s' (by have := env_decreases st; omega) (inv_env h st)

/-! ### the order of seeded change C10h deadlocks

With the scanning goroutine waiting for the feeder's report BEFORE it drains the pipeline (`Main.first`),
two roots suffice: `rev-list` dies before reading, stage 1 fails with EPIPE on the first root, the
feeder blocks for ever on the second, the rest of the pipeline drains to EOF — and nobody can move. -/

def stuck (lines : Nat) : St :=
  { feeder := .send 0, oidClosed := false, s1 := .done, s1ok := false, a := ⟨0, 1, true, true⟩, g1 := .done,
    b := ⟨0, 1, true, true⟩, s3 := .done, c := ⟨0, 1, true, true⟩, g2 := .done, d := ⟨0, 1, true, true⟩,
    s5 := .done, hdrClosed := true, main := .first, errChan := 0, err := true, lines := lines }

theorem variant_reaches_stuck (lines : Nat) : Reach (init (some 1) lines 1 1 1 1 true) (stuck lines) := by
  have r0 : Reach (init (some 1) lines 1 1 1 1 true) (init (some 1) lines 1 1 1 1 true) := Reach.refl
  have r1 := Reach.env r0 (Env.g1Die _ (by simp [init]))
  have r2 := Reach.step r1 (Step.feedMore _ 0 rfl rfl rfl)
  have r3 := Reach.step r2 (Step.s1Epipe _ rfl rfl)
  have r4 := Reach.step r3 (Step.s3Eof _ rfl rfl rfl)
  have r5 := Reach.step r4 (Step.g2Eof _ rfl rfl rfl)
  have r6 := Reach.step r5 (Step.s5Eof _ rfl rfl rfl)
  exact r6

theorem stuck_is_stuck (lines : Nat) :
    (stuck lines).main ≠ .done ∧ (∀ s', ¬ Step (stuck lines) s') ∧ (∀ s', ¬ Env (stuck lines) s') := by
  refine ⟨by simp [stuck], ?_, ?_⟩
  · intro s' h
    cases h <;> simp_all [stuck]
  · intro s' h
    cases h <;> simp_all [stuck]

end GitSizer.Pipeline
