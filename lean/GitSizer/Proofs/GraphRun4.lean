import GitSizer.Proofs.GraphRun3
/-! Whole-run theorem, part 4: `RegisterCommit`, and the induction over the schedule. -/
namespace GitSizer.Graph
open GitSizer GitSizer.Spec Gen

theorem step_commit (r : Repo) (ok : RepoOK r) {st : GState} {dB dT dC dG : List Nat} {n : Nat}
    (inv : RunInv r st dB dT dC dG n) (c : Nat) (hnew : c ∉ dC) (hc : r.isCommit c = true)
    (htree : ∀ s tr ps, r.obj c = some (.commit s tr ps) → TreeDone r dT tr)
    (hpar : ∀ p ∈ r.parents c, p ∈ dC) :
    ∃ st', step r st (.commit c) = .ok st' ∧ RunInv r st' dB dT (dC ++ [c]) dG n := by
  -- the object
  obtain ⟨sz, tr, ps, hobj⟩ : ∃ sz tr ps, r.obj c = some (.commit sz tr ps) := by
    unfold Repo.isCommit at hc
    cases ho : r.obj c with
    | none => rw [ho] at hc; cases hc
    | some o =>
      cases o with
      | commit a b d => exact ⟨a, b, d, rfl⟩
      | blob _ => rw [ho] at hc; cases hc
      | tree _ _ => rw [ho] at hc; cases hc
      | tag _ _ _ => rw [ho] at hc; cases hc
  have hps : r.parents c = ps := by simp [Repo.parents, hobj]
  have hnone : st.commits c = none := by
    cases h : st.commits c with
    | none => rfl
    | some v => exact absurd ((inv.commits_known c).mp (by rw [h]; rfl)) hnew
  -- the root tree is finalised
  have invT := invTrees r ok inv
  have hfin : Agg.isFin st.trees tr = true :=
    finalized_of_closed (P := PB r) (show Agg.WFk (PB r) from ok.trees.wf) invT (TreeReach r) (TreeReach.refl)
      (fun t u e he h => TreeReach.step e he h) tr (htree sz tr ps hobj)
  obtain ⟨ts, hts⟩ := (Agg.isFin_true_iff st.trees tr).mp hfin
  -- the parent loop
  have hknown : ∀ p ∈ ps, (st.commits p).isSome := fun p hp => (inv.commits_known p).mpr (hpar p (hps ▸ hp))
  obtain ⟨s0, hgo⟩ := go_ok st ps (CommitSize.addTree {} ts) hknown
  let sNew : CommitSize := { s0 with MaxAncestorDepth := Count32.Increment s0.MaxAncestorDepth 1#32 }
  have hstep : step r st (.commit c) = .ok { st with
      commits := Agg.upd st.commits c (some sNew),
      hist := HistorySize.recordCommit st.hist c sNew (objSize32 r c) (NewCount32 (BitVec.ofNat 64 ps.length)) } := by
    show registerCommit r st c = _
    unfold registerCommit
    simp only [hobj, hnone, Option.isSome_none, Bool.false_eq_true, if_false, hts, hgo]
    rfl
  refine ⟨_, hstep, ?_⟩
  have cinv' : CInv r (Agg.upd st.commits c (some sNew)) := by
    have := registerCommit_inv r ok.commits st _ c inv.cinv hstep
    exact this
  have hdepth : sNew.MaxAncestorDepth.toNat = clamp c32 (depthN r c) :=
    (cinv' c sNew (by simp [Agg.upd])).2
  obtain ⟨f1, f2, f3, f4⟩ := recordCommit_frame st.hist c sNew (objSize32 r c) (NewCount32 (BitVec.ofNat 64 ps.length))
  refine ⟨inv.trees_eq, inv.tags_eq, inv.dT_nodup, inv.dT_lt, inv.dG_nodup, inv.dG_lt, inv.blobs_known, cinv', ?_, ?_, ?_, ?_, ?_, ?_⟩
  · intro x
    simp only
    rw [upd_isSome]
    constructor
    · intro h
      simp only [Bool.or_eq_true, decide_eq_true_eq] at h
      rcases h with h | h
      · subst h; simp
      · exact List.mem_append_left _ ((inv.commits_known x).mp h)
    · intro h
      rcases List.mem_append.mp h with h | h
      · simp [(inv.commits_known x).mpr h]
      · simp at h; simp [h]
  · simp only; rw [f1]; exact inv.hb
  · simp only; rw [f2]; exact inv.ht
  · simp only [List.foldl_append, List.foldl_cons, List.foldl_nil]
    rw [commitNums_recordCommit, inv.hc, hdepth, hps]
  · simp only; rw [f3]; exact inv.hg
  · simp only; rw [f4]; exact inv.hr

/-- **a valid schedule never panics, and the invariant holds at the end** -/
theorem run_valid (r : Repo) (ok : RepoOK r) : ∀ (ops : List Op) (st : GState) (dB dT dC dG : List Nat) (n : Nat),
    RunInv r st dB dT dC dG n → ValidFrom r dB dT dC dG ops →
    ∃ st', runOps r ops st = .ok st' ∧
      RunInv r st' (dB ++ blobsOf ops) (dT ++ treesOf ops) (dC ++ commitsOf ops) (dG ++ tagsOf ops) (n + refsOf ops) := by
  intro ops
  induction ops with
  | nil => intro st dB dT dC dG n inv _; exact ⟨st, rfl, by simpa [blobsOf, treesOf, commitsOf, tagsOf, refsOf] using inv⟩
  | cons op rest ih =>
    intro st dB dT dC dG n inv hv
    cases op with
    | blob o =>
      obtain ⟨st1, h1, inv1⟩ := step_blob r inv o
      obtain ⟨st', h2, inv2⟩ := ih st1 _ _ _ _ _ inv1 hv
      exact ⟨st', by simp only [runOps, h1]; exact h2, by simpa [blobsOf, treesOf, commitsOf, tagsOf, refsOf, List.append_assoc] using inv2⟩
    | tree t =>
      obtain ⟨hn, hlt, hb, hrest⟩ := hv
      obtain ⟨st1, h1, inv1⟩ := step_tree r ok inv t hn hlt hb
      obtain ⟨st', h2, inv2⟩ := ih st1 _ _ _ _ _ inv1 hrest
      exact ⟨st', by simp only [runOps, h1]; exact h2, by simpa [blobsOf, treesOf, commitsOf, tagsOf, refsOf, List.append_assoc] using inv2⟩
    | commit c =>
      obtain ⟨hn, hc, ht, hp, hrest⟩ := hv
      obtain ⟨st1, h1, inv1⟩ := step_commit r ok inv c hn hc ht hp
      obtain ⟨st', h2, inv2⟩ := ih st1 _ _ _ _ _ inv1 hrest
      exact ⟨st', by simp only [runOps, h1]; exact h2, by simpa [blobsOf, treesOf, commitsOf, tagsOf, refsOf, List.append_assoc] using inv2⟩
    | tag g =>
      obtain ⟨hn, hlt, hrest⟩ := hv
      obtain ⟨st1, h1, inv1⟩ := step_tag r ok inv g hn hlt
      obtain ⟨st', h2, inv2⟩ := ih st1 _ _ _ _ _ inv1 hrest
      exact ⟨st', by simp only [runOps, h1]; exact h2, by simpa [blobsOf, treesOf, commitsOf, tagsOf, refsOf, List.append_assoc] using inv2⟩
    | ref gs =>
      obtain ⟨st1, h1, inv1⟩ := step_ref r inv gs
      obtain ⟨st', h2, inv2⟩ := ih st1 _ _ _ _ _ inv1 hv
      exact ⟨st', by simp only [runOps, h1]; exact h2, by
        have e : n + 1 + refsOf rest = n + (refsOf rest + 1) := by omega
        simpa [blobsOf, treesOf, commitsOf, tagsOf, refsOf, List.append_assoc, e] using inv2⟩

end GitSizer.Graph
