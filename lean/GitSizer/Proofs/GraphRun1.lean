import GitSizer.Proofs.RunLemmas
/-! Whole-run theorem, part 1: the numeric fields of the history as folds over what was recorded. -/
namespace GitSizer.Graph
open GitSizer GitSizer.Spec Gen

/-- one `recordBlob` on the blob fields [count, total size, max size] -/
def stepB (acc : List Nat) (size : Nat) : List Nat :=
  match acc with
  | [a, s, m] => [sat c32 a 1, sat c64 s size, max m (clamp c32 size)]
  | _ => acc

/-- one `recordTree` on the 11 tree fields -/
def stepT (acc : List Nat) (ts : TN) (size entries : Nat) : List Nat :=
  match acc with
  | [n, s, e, me, d, l, tc, bc, bs, lc, sc] =>
    [sat c32 n 1, sat c64 s size, sat c64 e entries, max me entries,
     max d ts.depth, max l ts.len, max tc ts.trees, max bc ts.blobs, max bs ts.bsize, max lc ts.links, max sc ts.subs]
  | _ => acc

/-- one `recordCommit` on [count, total size, max size, max depth, max parents] -/
def stepC (acc : List Nat) (size depth parents : Nat) : List Nat :=
  match acc with
  | [n, s, m, d, p] => [sat c32 n 1, sat c64 s size, max m size, max d depth, max p parents]
  | _ => acc

/-- one `recordTag` on [count, max depth] -/
def stepG (acc : List Nat) (depth : Nat) : List Nat :=
  match acc with
  | [n, d] => [sat c32 n 1, max d depth]
  | _ => acc

theorem blobNums_recordBlob (h : HistorySize) (o : Nat) (b : BlobSize) :
    blobNums (HistorySize.recordBlob h o b) = stepB (blobNums h) b.Size.toNat := by
  obtain ⟨h1, h2, h3⟩ := recordBlob_numbers h o b
  simp only [blobNums, stepB, h1, h2, h3]

theorem treeNums_recordTree (h : HistorySize) (o : Nat) (ts : TreeSize) (sz en : BitVec 32) :
    treeNums (HistorySize.recordTree h o ts sz en) = stepT (treeNums h) (toTN ts) sz.toNat en.toNat := by
  obtain ⟨a1, a2, a3, a4, a5, a6, a7, a8, a9, a10, a11⟩ := recordTree_numbers h o ts sz en
  simp only [treeNums, stepT, toTN, a1, a2, a3, a4, a5, a6, a7, a8, a9, a10, a11]

theorem commitNums_recordCommit (h : HistorySize) (o : Nat) (cs : CommitSize) (sz pc : BitVec 32) :
    commitNums (HistorySize.recordCommit h o cs sz pc) = stepC (commitNums h) sz.toNat cs.MaxAncestorDepth.toNat pc.toNat := by
  obtain ⟨a1, a2, a3, a4, a5⟩ := recordCommit_numbers h o cs sz pc
  simp only [commitNums, stepC, a1, a2, a3, a4, a5]

theorem tagNums_recordTag (h : HistorySize) (o : Nat) (ts : TagSize) (sz : BitVec 32) :
    tagNums (HistorySize.recordTag h o ts sz) = stepG (tagNums h) ts.TagDepth.toNat := by
  obtain ⟨a1, a2⟩ := recordTag_numbers h o ts sz
  simp only [tagNums, stepG, a1, a2]

/-- the history fold that `registerTree` performs over the newly finalised trees -/
theorem treeFold_nums (r : Repo) (sizes : Nat → Option TreeSize) (val : Nat → TreeSize) :
    ∀ (L : List Nat) (h : HistorySize), (∀ t ∈ L, sizes t = some (val t)) →
    let h' := L.foldl (recordTreeAt r sizes) h
    treeNums h' = L.foldl (fun a t => stepT a (toTN (val t)) (objSize32 r t).toNat (entryCount32 (r.entries t).length).toNat) (treeNums h) ∧
    blobNums h' = blobNums h ∧ commitNums h' = commitNums h ∧ tagNums h' = tagNums h ∧ refNums h' = refNums h := by
  intro L
  induction L with
  | nil => intro h _; exact ⟨rfl, rfl, rfl, rfl, rfl⟩
  | cons t ts ih =>
    intro h hs
    simp only [List.foldl_cons]
    have hstep : recordTreeAt r sizes h t = HistorySize.recordTree h t (val t) (objSize32 r t) (entryCount32 (r.entries t).length) := by
      unfold recordTreeAt; rw [hs t List.mem_cons_self]
    rw [hstep]
    obtain ⟨f1, f2, f3, f4⟩ := recordTree_frame h t (val t) (objSize32 r t) (entryCount32 (r.entries t).length)
    obtain ⟨i1, i2, i3, i4, i5⟩ := ih (HistorySize.recordTree h t (val t) (objSize32 r t) (entryCount32 (r.entries t).length))
      (fun x hx => hs x (List.mem_cons_of_mem _ hx))
    refine ⟨?_, by rw [i2, f1], by rw [i3, f2], by rw [i4, f3], by rw [i5, f4]⟩
    rw [i1, treeNums_recordTree]

theorem tagFold_nums (r : Repo) (sizes : Nat → Option TagSize) (val : Nat → TagSize) :
    ∀ (L : List Nat) (h : HistorySize), (∀ t ∈ L, sizes t = some (val t)) →
    let h' := L.foldl (recordTagAt r sizes) h
    tagNums h' = L.foldl (fun a t => stepG a (val t).TagDepth.toNat) (tagNums h) ∧
    blobNums h' = blobNums h ∧ treeNums h' = treeNums h ∧ commitNums h' = commitNums h ∧ refNums h' = refNums h := by
  intro L
  induction L with
  | nil => intro h _; exact ⟨rfl, rfl, rfl, rfl, rfl⟩
  | cons t ts ih =>
    intro h hs
    simp only [List.foldl_cons]
    have hstep : recordTagAt r sizes h t = HistorySize.recordTag h t (val t) (objSize32 r t) := by
      unfold recordTagAt; rw [hs t List.mem_cons_self]
    rw [hstep]
    obtain ⟨f1, f2, f3, f4⟩ := recordTag_frame h t (val t) (objSize32 r t)
    obtain ⟨i1, i2, i3, i4, i5⟩ := ih (HistorySize.recordTag h t (val t) (objSize32 r t))
      (fun x hx => hs x (List.mem_cons_of_mem _ hx))
    refine ⟨?_, by rw [i2, f1], by rw [i3, f2], by rw [i4, f3], by rw [i5, f4]⟩
    rw [i1, tagNums_recordTag]

end GitSizer.Graph
