import GitSizer.Spec.Depth
/-! `depthN` is the length of the longest parent chain (both directions). -/
namespace GitSizer.Spec
open GitSizer

theorem foldl_max_ge (l : List Nat) (a : Nat) : a ≤ l.foldl max a := by
  induction l generalizing a with
  | nil => exact Nat.le_refl _
  | cons x xs ih => simp only [List.foldl_cons]; exact Nat.le_trans (Nat.le_max_left a x) (ih _)

theorem foldl_max_mono (l : List Nat) {a b : Nat} (h : a ≤ b) : l.foldl max a ≤ l.foldl max b := by
  induction l generalizing a b with
  | nil => exact h
  | cons x xs ih => simp only [List.foldl_cons]; apply ih; omega

theorem le_maxList {l : List Nat} {x : Nat} (h : x ∈ l) : x ≤ maxList l := by
  unfold maxList
  induction l with
  | nil => cases h
  | cons y ys ih =>
    simp only [List.foldl_cons]
    rcases List.mem_cons.mp h with rfl | h
    · exact Nat.le_trans (Nat.le_max_right 0 x) (foldl_max_ge ys _)
    · exact Nat.le_trans (ih h) (foldl_max_mono ys (Nat.zero_le _))

theorem maxList_le {l : List Nat} {b : Nat} (h : ∀ x ∈ l, x ≤ b) : maxList l ≤ b := by
  unfold maxList
  suffices ∀ a, a ≤ b → l.foldl max a ≤ b from this 0 (Nat.zero_le _)
  induction l with
  | nil => intro a ha; exact ha
  | cons y ys ih =>
    intro a ha
    simp only [List.foldl_cons]
    apply ih (fun x hx => h x (List.mem_cons_of_mem _ hx))
    have := h y List.mem_cons_self; omega

theorem maxList_mem_or_zero (l : List Nat) : maxList l = 0 ∨ maxList l ∈ l := by
  unfold maxList
  suffices ∀ a, l.foldl max a = a ∨ l.foldl max a ∈ l by
    rcases this 0 with h | h
    · left; exact h
    · right; exact h
  induction l with
  | nil => intro a; left; rfl
  | cons y ys ih =>
    intro a
    simp only [List.foldl_cons]
    rcases ih (max a y) with h | h
    · rw [h]
      by_cases hay : a ≤ y
      · right; rw [Nat.max_eq_right hay]; exact List.mem_cons_self
      · left; rw [Nat.max_eq_left (by omega)]
    · right; exact List.mem_cons_of_mem _ h

theorem depthF_stable (r : Repo) (wf : CommitsWF r) : ∀ (c f : Nat), c < f → depthF r f c = depthN r c := by
  intro c
  induction c using Nat.strongRecOn with
  | _ c ih =>
    intro f hf
    cases f with
    | zero => omega
    | succ f =>
      unfold depthN
      simp only [depthF]
      split
      · congr 2
        apply List.map_congr_left
        intro p hp
        have hlt := (wf c p hp).1
        rw [ih p hlt f (by omega), ih p hlt c hlt]
      · rfl

theorem depthN_eq (r : Repo) (wf : CommitsWF r) (c : Nat) :
    depthN r c = if r.isCommit c then 1 + maxList ((r.parents c).map (depthN r)) else 0 := by
  conv => lhs; unfold depthN
  simp only [depthF]
  split
  · congr 2
    apply List.map_congr_left
    intro p hp
    exact depthF_stable r wf p c (wf c p hp).1
  · rfl

/-- (≤) every parent chain starting at `c` has at most `depthN r c` commits -/
theorem chain_le_depth (r : Repo) (wf : CommitsWF r) : ∀ (l : List Nat) (c : Nat),
    IsChain r (c :: l) → (c :: l).length ≤ depthN r c := by
  intro l
  induction l with
  | nil =>
    intro c h
    simp only [IsChain] at h
    rw [depthN_eq r wf, h]; simp
  | cons d rest ih =>
    intro c h
    obtain ⟨hc, hd, hrest⟩ := h
    rw [depthN_eq r wf, hc]
    simp only [if_true, List.length_cons]
    have h1 := ih d hrest
    have h2 : depthN r d ≤ maxList ((r.parents c).map (depthN r)) :=
      le_maxList (List.mem_map.mpr ⟨d, hd, rfl⟩)
    simp only [List.length_cons] at h1
    omega

/-- (≥) there is a parent chain starting at `c` with exactly `depthN r c` commits -/
theorem exists_chain_of_depth (r : Repo) (wf : CommitsWF r) : ∀ c, r.isCommit c = true →
    ∃ l, IsChain r (c :: l) ∧ (c :: l).length = depthN r c := by
  intro c
  induction c using Nat.strongRecOn with
  | _ c ih =>
    intro hc
    rw [depthN_eq r wf, hc]
    simp only [if_true]
    rcases maxList_mem_or_zero ((r.parents c).map (depthN r)) with h0 | hm
    · exact ⟨[], by simpa [IsChain] using hc, by simp [h0]⟩
    · obtain ⟨p, hp, hpe⟩ := List.mem_map.mp hm
      obtain ⟨hlt, hpc⟩ := wf c p hp
      obtain ⟨l, hl, hlen⟩ := ih p hlt hpc
      refine ⟨p :: l, ⟨hc, hp, hl⟩, ?_⟩
      simp only [List.length_cons] at hlen ⊢
      omega

end GitSizer.Spec
