import GitSizer.Proofs.Bytes
import GitSizer.Model.Parsers
import GitSizer.Spec.ObjGrammar
/-! Proofs about the parser models: totality (no panic on any byte string), progress /
    termination of the tree iterator, and the tree round-trip. -/
namespace GitSizer.Parsers
open GitSizer GitSizer.Bytes

/-! ### totality -/

theorem sliceTo_ok {s : Bytes} {n : Nat} (h : n ≤ s.length) : Go.sliceTo s n = .ok (s.take n) := by
  simp [Go.sliceTo, h]
theorem sliceFrom_ok {s : Bytes} {n : Nat} (h : n ≤ s.length) : Go.sliceFrom s n = .ok (s.drop n) := by
  simp [Go.sliceFrom, h]
theorem slice_ok {s : Bytes} {a b : Nat} (h1 : a ≤ b) (h2 : b ≤ s.length) :
    Go.slice s a b = .ok ((s.take b).drop a) := by
  simp [Go.slice, h1, h2]

@[simp] theorem bind_ok {α β} (a : α) (f : α → Res β) : (Res.ok a >>= f) = f a := rfl

/-- closed form of `nextEntry` (all slices are in range) -/
theorem nextEntry_eq (data : Bytes) :
    nextEntry data =
      if data.isEmpty then .ok none else
      match Bytes.indexOf 32 data with
      | none => .err "no-sp"
      | some spAt =>
        match Go.parseUint (data.take spAt) 8 32 with
        | none => .err "mode"
        | some mode =>
          match Bytes.indexOf 0 (data.drop (spAt + 1)) with
          | none => .err "no-nul"
          | some nulAt =>
            if ((data.drop (spAt + 1)).drop (nulAt + 1)).length < 20 then .err "short"
            else .ok (some (⟨mode, (data.drop (spAt + 1)).take nulAt,
                            (((data.drop (spAt + 1)).drop (nulAt + 1)).take 20)⟩,
                           ((data.drop (spAt + 1)).drop (nulAt + 1)).drop 20)) := by
  unfold nextEntry
  split
  · rfl
  · cases hsp : Bytes.indexOf 32 data with
    | none => rfl
    | some spAt =>
      have h1 := indexOf_lt hsp
      simp only [sliceTo_ok (Nat.le_of_lt h1), bind_ok, bind, Res.bind]
      cases Go.parseUint (data.take spAt) 8 32 with
      | none => rfl
      | some mode =>
        simp only [sliceFrom_ok (show spAt + 1 ≤ data.length by omega)]
        cases hn : Bytes.indexOf 0 (data.drop (spAt + 1)) with
        | none => rfl
        | some nulAt =>
          have h2 := indexOf_lt hn
          simp only [sliceTo_ok (Nat.le_of_lt h2), sliceFrom_ok (show nulAt + 1 ≤ (data.drop (spAt+1)).length by omega)]
          split
          · rfl
          · next hlen =>
            have h20 : 20 ≤ ((data.drop (spAt + 1)).drop (nulAt + 1)).length := by omega
            simp only [slice_ok (Nat.zero_le 20) h20, sliceFrom_ok h20, List.drop_zero]

theorem nextEntry_no_panic (data : Bytes) : (nextEntry data).isPanic = false := by
  rw [nextEntry_eq]
  repeat' split
  all_goals rfl

/-- progress: every entry consumes at least 23 bytes (non-empty mode, SP, NUL, 20-byte oid) -/
theorem nextEntry_progress {data : Bytes} {e : TreeEntry} {rest : Bytes}
    (h : nextEntry data = .ok (some (e, rest))) : rest.length + 23 ≤ data.length := by
  rw [nextEntry_eq] at h
  split at h
  · simp at h
  · split at h
    · simp at h
    · next spAt hsp =>
      split at h
      · simp at h
      · next mode hm =>
        split at h
        · simp at h
        · next nulAt hn =>
          split at h
          · simp at h
          · next hlen =>
            have hmne : data.take spAt ≠ [] := by
              intro he; simp [Go.parseUint, he] at hm
            have hsp0 : 0 < spAt := by
              cases spAt with
              | zero => simp at hmne
              | succ k => omega
            simp only [Res.ok.injEq, Option.some.injEq, Prod.mk.injEq] at h
            have h1 := indexOf_lt hsp
            have h2 := indexOf_lt hn
            rw [← h.2]
            simp only [List.length_drop] at *
            omega

theorem parseTreeFuel_no_panic : ∀ (fuel : Nat) (data : Bytes) (acc : List TreeEntry),
    (parseTreeFuel fuel data acc).isPanic = false := by
  intro fuel
  induction fuel with
  | zero => intro data acc; unfold parseTreeFuel; split <;> rfl
  | succ n ih =>
    intro data acc
    unfold parseTreeFuel
    have hp := nextEntry_no_panic data
    cases hne : nextEntry data with
    | ok o =>
      cases o with
      | none => rfl
      | some p => obtain ⟨e, rest⟩ := p; exact ih rest (e :: acc)
    | err c => rfl
    | panic c => simp [hne, Res.isPanic] at hp

/-- the fuel handed to the loop always suffices: the iterator terminates on every input -/
theorem parseTreeFuel_enough : ∀ (fuel : Nat) (data : Bytes) (acc : List TreeEntry),
    data.length < fuel → parseTreeFuel fuel data acc ≠ .err "fuel" := by
  intro fuel
  induction fuel with
  | zero => intro data acc h; omega
  | succ n ih =>
    intro data acc h
    unfold parseTreeFuel
    cases hne : nextEntry data with
    | ok o =>
      cases o with
      | none => simp
      | some p =>
        obtain ⟨e, rest⟩ := p
        have := nextEntry_progress hne
        exact ih rest (e :: acc) (by omega)
    | err c =>
      simp only [ne_eq, Res.err.injEq]
      rw [nextEntry_eq] at hne
      repeat' split at hne
      all_goals first | (simp at hne; done) | (simp only [Res.err.injEq] at hne; rw [← hne]; decide)
    | panic c => have := nextEntry_no_panic data; simp [hne, Res.isPanic] at this

/-! ### tree round-trip -/

theorem parseDigits_snoc (base : Nat) : ∀ (xs : Bytes) (c : UInt8) (acc : Nat),
    Go.parseDigits base (xs ++ [c]) acc =
      match Go.parseDigits base xs acc with
      | none => none
      | some v => (Go.digitVal base c).map (fun d => v * base + d) := by
  intro xs
  induction xs with
  | nil => intro c acc; simp [Go.parseDigits]; cases Go.digitVal base c <;> rfl
  | cons x xs ih =>
    intro c acc
    simp only [List.cons_append, Go.parseDigits]
    cases Go.digitVal base x with
    | none => rfl
    | some d => exact ih c _

theorem digitVal_oct {n : Nat} (h : n < 8) : Go.digitVal 8 (UInt8.ofNat (48 + n)) = some n := by
  have : n = 0 ∨ n = 1 ∨ n = 2 ∨ n = 3 ∨ n = 4 ∨ n = 5 ∨ n = 6 ∨ n = 7 := by omega
  rcases this with rfl | rfl | rfl | rfl | rfl | rfl | rfl | rfl <;> decide

theorem octDigits_spec : ∀ (fuel n : Nat), n < fuel →
    Go.parseDigits 8 (Spec.octDigits fuel n) 0 = some n ∧ Spec.octDigits fuel n ≠ [] ∧
    (∀ b ∈ Spec.octDigits fuel n, 48 ≤ b.toNat ∧ b.toNat < 56) := by
  intro fuel
  induction fuel with
  | zero => intro n h; omega
  | succ f ih =>
    intro n h
    unfold Spec.octDigits
    split
    · next hn =>
      refine ⟨by simp only [Go.parseDigits, digitVal_oct hn, Nat.zero_mul, Nat.zero_add], by simp, ?_⟩
      intro b hb; simp at hb; subst hb
      have : n = 0 ∨ n = 1 ∨ n = 2 ∨ n = 3 ∨ n = 4 ∨ n = 5 ∨ n = 6 ∨ n = 7 := by omega
      rcases this with rfl | rfl | rfl | rfl | rfl | rfl | rfl | rfl <;> decide
    · next hn =>
      have hlt : n / 8 < f := by omega
      obtain ⟨h1, h2, h3⟩ := ih (n / 8) hlt
      refine ⟨?_, by simp, ?_⟩
      · rw [parseDigits_snoc, h1]
        simp only [digitVal_oct (Nat.mod_lt n (by omega : 8 > 0)), Option.map_some]
        congr 1; omega
      · intro b hb
        rcases List.mem_append.mp hb with hb | hb
        · exact h3 b hb
        · simp at hb; subst hb
          have : n % 8 = 0 ∨ n % 8 = 1 ∨ n % 8 = 2 ∨ n % 8 = 3 ∨ n % 8 = 4 ∨ n % 8 = 5 ∨ n % 8 = 6 ∨ n % 8 = 7 := by omega
          rcases this with h | h | h | h | h | h | h | h <;> rw [h] <;> decide

theorem parseUint_octal {m : Nat} (h : m < 2 ^ 32) : Go.parseUint (Spec.octal m) 8 32 = some m := by
  obtain ⟨h1, h2, _⟩ := octDigits_spec (m + 1) m (by omega)
  unfold Go.parseUint Spec.octal
  have : (Spec.octDigits (m + 1) m).isEmpty = false := by
    cases hh : Spec.octDigits (m + 1) m with
    | nil => exact absurd hh h2
    | cons _ _ => rfl
  simp [this, h1, h]

theorem sp_not_mem_octal (m : Nat) : (32 : UInt8) ∉ Spec.octal m := by
  intro hmem
  have := (octDigits_spec (m + 1) m (by omega)).2.2 32 hmem
  have h32 : (32 : UInt8).toNat = 32 := by decide
  omega

/-- one step of the round trip -/
theorem nextEntry_ser (e : TreeEntry) (rest : Bytes) (hok : Spec.EntryOK e) :
    nextEntry (Spec.serEntry e ++ rest) = .ok (some (e, rest)) := by
  obtain ⟨hm, hn, ho⟩ := hok
  rw [nextEntry_eq]
  have hser : Spec.serEntry e ++ rest = Spec.octal e.mode ++ 32 :: (e.name ++ 0 :: (e.oid ++ rest)) := by
    simp [Spec.serEntry, List.append_assoc]
  rw [hser]
  have hne : (Spec.octal e.mode ++ 32 :: (e.name ++ 0 :: (e.oid ++ rest))).isEmpty = false := by
    cases h : Spec.octal e.mode <;> simp
  simp only [hne, Bool.false_eq_true, if_false]
  rw [indexOf_append_not_mem _ _ (sp_not_mem_octal e.mode)]
  simp only [List.take_left' rfl, parseUint_octal hm]
  have hd : (Spec.octal e.mode ++ 32 :: (e.name ++ 0 :: (e.oid ++ rest))).drop ((Spec.octal e.mode).length + 1)
      = e.name ++ 0 :: (e.oid ++ rest) := by
    rw [show (Spec.octal e.mode ++ 32 :: (e.name ++ 0 :: (e.oid ++ rest)))
          = (Spec.octal e.mode ++ [32]) ++ (e.name ++ 0 :: (e.oid ++ rest)) by simp]
    rw [show (Spec.octal e.mode).length + 1 = (Spec.octal e.mode ++ [32]).length by simp]
    exact List.drop_left' rfl
  rw [hd, indexOf_append_not_mem _ _ hn]
  have hd2 : (e.name ++ 0 :: (e.oid ++ rest)).drop (e.name.length + 1) = e.oid ++ rest := by
    rw [show e.name ++ 0 :: (e.oid ++ rest) = (e.name ++ [0]) ++ (e.oid ++ rest) by simp]
    rw [show e.name.length + 1 = (e.name ++ [0]).length by simp]
    exact List.drop_left' rfl
  simp only [hd2, List.take_left' rfl]
  have hlen : ¬ (e.oid ++ rest).length < 20 := by simp [ho]
  simp only [hlen, if_false]
  have ht : (e.oid ++ rest).take 20 = e.oid := by exact List.take_left' ho
  have hdr : (e.oid ++ rest).drop 20 = rest := by exact List.drop_left' ho
  rw [ht, hdr]

theorem parseTreeFuel_ser : ∀ (es : List TreeEntry) (fuel : Nat) (acc : List TreeEntry),
    (∀ e ∈ es, Spec.EntryOK e) → es.length < fuel →
    parseTreeFuel fuel (Spec.serTree es) acc = .ok (acc.reverse ++ es) := by
  intro es
  induction es with
  | nil =>
    intro fuel acc _ hf
    cases fuel with
    | zero => omega
    | succ n => simp [parseTreeFuel, Spec.serTree, nextEntry]
  | cons e es ih =>
    intro fuel acc hok hf
    cases fuel with
    | zero => omega
    | succ n =>
      have hser : Spec.serTree (e :: es) = Spec.serEntry e ++ Spec.serTree es := by simp [Spec.serTree]
      rw [hser]
      unfold parseTreeFuel
      rw [nextEntry_ser e _ (hok e List.mem_cons_self)]
      simp only
      rw [ih n (e :: acc) (fun x hx => hok x (List.mem_cons_of_mem _ hx)) (by simp at hf; omega)]
      simp

theorem serEntry_length (e : TreeEntry) : 1 ≤ (Spec.serEntry e).length := by
  simp [Spec.serEntry]; omega

theorem serTree_length (es : List TreeEntry) : es.length ≤ (Spec.serTree es).length := by
  induction es with
  | nil => simp
  | cons e es ih =>
    have := serEntry_length e
    simp only [Spec.serTree, List.flatMap_cons, List.length_append, List.length_cons] at *
    omega

end GitSizer.Parsers

namespace GitSizer.Parsers
open GitSizer GitSizer.Bytes

/-! ### header iterator, commits, tags, listing lines: totality -/

theorem index2_lt {a b : UInt8} : ∀ {s : Bytes} {i : Nat}, Bytes.index2 a b s = some i → i + 1 < s.length := by
  intro s
  induction s with
  | nil => intro i h; simp [Bytes.index2] at h
  | cons x xs ih =>
    intro i h
    cases xs with
    | nil => simp [Bytes.index2] at h
    | cons y ys =>
      unfold Bytes.index2 at h
      split at h
      · simp at h; subst h; simp
      · cases hr : Bytes.index2 a b (y :: ys) with
        | none => simp [hr] at h
        | some j => simp [hr] at h; subst h; have := ih hr; simp at this ⊢; omega

theorem headerBlock_no_panic (data : Bytes) : (headerBlock data).isPanic = false := by
  unfold headerBlock
  split
  · split
    · rfl
    · next hne =>
      have hlen : data.length - 1 < data.length := by
        cases data with
        | nil => simp at hne
        | cons _ _ => simp
      have : Go.index data (data.length - 1) = .ok (data[data.length - 1]'hlen) := by
        simp [Go.index, List.getElem?_eq_getElem hlen]
      simp only [this, bind, Res.bind]
      split <;> rfl
  · next he hi =>
    have := index2_lt hi
    rw [sliceTo_ok (by omega)]; rfl

theorem headerBlock_length {data block : Bytes} (h : headerBlock data = .ok block) : block.length ≤ data.length := by
  unfold headerBlock at h
  split at h
  · split at h
    · simp at h
    · cases hidx : Go.index data (data.length - 1) with
      | ok b =>
        simp only [hidx, bind, Res.bind] at h
        split at h
        · simp at h
        · simp at h; subst h; exact Nat.le_refl _
      | err c => simp [hidx, bind, Res.bind] at h
      | panic c => simp [hidx, bind, Res.bind] at h
  · next hi =>
    have := index2_lt hi
    rw [sliceTo_ok (by omega)] at h
    simp at h; subst h; simp; omega

/-- closed form of `nextHeader` -/
theorem nextHeader_eq (data : Bytes) :
    nextHeader data =
      if data.isEmpty then .err "past-end" else
      match Bytes.indexOf 32 data with
      | none => .err "malformed"
      | some keyEnd =>
        match Bytes.indexOf 10 (data.drop (keyEnd + 1)) with
        | none => .err "malformed"
        | some valueEnd =>
          .ok (data.take keyEnd, (data.drop (keyEnd + 1)).take valueEnd, (data.drop (keyEnd + 1)).drop (valueEnd + 1)) := by
  unfold nextHeader
  split
  · rfl
  · cases hk : Bytes.indexOf 32 data with
    | none => rfl
    | some keyEnd =>
      have h1 := indexOf_lt hk
      simp only [sliceTo_ok (Nat.le_of_lt h1), sliceFrom_ok (show keyEnd + 1 ≤ data.length by omega), bind_ok, bind, Res.bind]
      cases hv : Bytes.indexOf 10 (data.drop (keyEnd + 1)) with
      | none => rfl
      | some valueEnd =>
        have h2 := indexOf_lt hv
        simp only [sliceTo_ok (Nat.le_of_lt h2), sliceFrom_ok (show valueEnd + 1 ≤ (data.drop (keyEnd + 1)).length by omega)]

theorem nextHeader_no_panic (data : Bytes) : (nextHeader data).isPanic = false := by
  rw [nextHeader_eq]; repeat' split
  all_goals rfl

theorem nextHeader_progress {data k v rest : Bytes} (h : nextHeader data = .ok (k, v, rest)) :
    rest.length + 2 ≤ data.length := by
  rw [nextHeader_eq] at h
  split at h
  · simp at h
  · split at h
    · simp at h
    · next keyEnd hk =>
      split at h
      · simp at h
      · next valueEnd hv =>
        simp only [Res.ok.injEq, Prod.mk.injEq] at h
        have h1 := indexOf_lt hk
        have h2 := indexOf_lt hv
        rw [← h.2.2]
        simp only [List.length_drop] at *
        omega

theorem commitStream_no_panic : ∀ (fuel : Nat) (data : Bytes) (done : Bool) (ps : List Bytes) (t : Option Bytes),
    (commitStream fuel data done ps t).isPanic = false := by
  intro fuel
  induction fuel with
  | zero => intros; rfl
  | succ n ih =>
    intro data done ps t
    unfold commitStream
    split
    · rfl
    · have hp := nextHeader_no_panic data
      cases hh : nextHeader data with
      | err c => rfl
      | panic c => simp [hh, Res.isPanic] at hp
      | ok r =>
        obtain ⟨k, v, rest⟩ := r
        simp only
        split
        · exact ih _ _ _ _
        · split
          · split
            · rfl
            · exact ih _ _ _ _
          · split
            · split
              · rfl
              · split
                · rfl
                · exact ih _ _ _ _
            · exact ih _ _ _ _

theorem tagStream_no_panic : ∀ (fuel : Nat) (data : Bytes) (done : Bool) (o t : Option Bytes),
    (tagStream fuel data done o t).isPanic = false := by
  intro fuel
  induction fuel with
  | zero => intros; rfl
  | succ n ih =>
    intro data done o t
    unfold tagStream
    split
    · rfl
    · have hp := nextHeader_no_panic data
      cases hh : nextHeader data with
      | err c => rfl
      | panic c => simp [hh, Res.isPanic] at hp
      | ok r =>
        obtain ⟨k, v, rest⟩ := r
        simp only
        split
        · exact ih _ _ _ _
        · split
          · split
            · rfl
            · split
              · rfl
              · exact ih _ _ _ _
          · split
            · split
              · rfl
              · exact ih _ _ _ _
            · exact ih _ _ _ _

theorem parseCommit_no_panic (data : Bytes) : (parseCommit data).isPanic = false := by
  unfold parseCommit
  have h1 := headerBlock_no_panic data
  cases hb : headerBlock data with
  | err c => rfl
  | panic c => simp [hb, Res.isPanic] at h1
  | ok block =>
    simp only [bind, Res.bind]
    have h2 := commitStream_no_panic (block.length + 1) block false [] none
    cases hs : commitStream (block.length + 1) block false [] none with
    | err c => rfl
    | panic c => simp [hs, Res.isPanic] at h2
    | ok r => obtain ⟨ps, t⟩ := r; cases t <;> rfl

theorem parseTag_no_panic (data : Bytes) : (parseTag data).isPanic = false := by
  unfold parseTag
  have h1 := headerBlock_no_panic data
  cases hb : headerBlock data with
  | err c => rfl
  | panic c => simp [hb, Res.isPanic] at h1
  | ok block =>
    simp only [bind, Res.bind]
    have h2 := tagStream_no_panic (block.length + 1) block false none none
    cases hs : tagStream (block.length + 1) block false none none with
    | err c => rfl
    | panic c => simp [hs, Res.isPanic] at h2
    | ok r => obtain ⟨o, t⟩ := r; cases o <;> cases t <;> rfl

theorem parseBatchHeader_no_panic (h : Bytes) : (parseBatchHeader h).isPanic = false := by
  unfold parseBatchHeader
  split
  · rfl
  · simp only
    repeat' split
    all_goals rfl

theorem parseReference_no_panic (l : Bytes) : (parseReference l).isPanic = false := by
  unfold parseReference
  repeat' split
  all_goals rfl

/-- negation witnesses for the code before the repair of F5 -/
theorem parseBatchHeaderOld_panics_empty : parseBatchHeaderOld [] = .panic "slice-bounds" := by decide
theorem parseBatchHeaderOld_panics_short :
    parseBatchHeaderOld ((List.replicate 40 (97 : UInt8)) ++ [32, 98, 108, 111, 98, 10]) = .panic "index-out-of-range" := by
  decide +kernel

end GitSizer.Parsers
