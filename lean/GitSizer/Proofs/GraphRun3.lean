import GitSizer.Proofs.GraphRun2
/-! Whole-run theorem, part 3: every operation of a valid schedule succeeds and preserves the
    invariant. -/
namespace GitSizer.Graph
open GitSizer GitSizer.Spec Gen

theorem upd_isSome {β : Type} (f : Nat → Option β) (k : Nat) (v : β) (x : Nat) :
    (Agg.upd f k (some v) x).isSome = (decide (x = k) || (f x).isSome) := by
  unfold Agg.upd; split <;> simp_all

theorem step_blob (r : Repo) {st : GState} {dB dT dC dG : List Nat} {n : Nat}
    (inv : RunInv r st dB dT dC dG n) (o : Nat) :
    ∃ st', step r st (.blob o) = .ok st' ∧ RunInv r st' (dB ++ [o]) dT dC dG n := by
  refine ⟨_, rfl, ?_⟩
  obtain ⟨f1, f2, f3, f4⟩ := recordBlob_frame st.hist o (blobSize32 r o)
  refine ⟨inv.trees_eq, inv.tags_eq, inv.dT_nodup, inv.dT_lt, inv.dG_nodup, inv.dG_lt, ?_, inv.cinv, inv.commits_known, ?_, ?_, ?_, ?_, ?_⟩
  · intro x hx
    simp only
    rw [upd_isSome]
    rcases List.mem_append.mp hx with h | h
    · simp [inv.blobs_known x h]
    · simp at h; simp [h]
  · simp only [List.foldl_append, List.foldl_cons, List.foldl_nil]
    rw [← inv.hb]; exact blobNums_recordBlob _ _ _
  · simp only; rw [f1]; exact inv.ht
  · simp only; rw [f2]; exact inv.hc
  · simp only; rw [f3]; exact inv.hg
  · simp only; rw [f4]; exact inv.hr

theorem step_ref (r : Repo) {st : GState} {dB dT dC dG : List Nat} {n : Nat}
    (inv : RunInv r st dB dT dC dG n) (gs : List Bytes) :
    ∃ st', step r st (.ref gs) = .ok st' ∧ RunInv r st' dB dT dC dG (n + 1) := by
  refine ⟨_, rfl, ?_⟩
  obtain ⟨f1, f2, f3, f4⟩ := recordReference_frame st.hist
  refine ⟨inv.trees_eq, inv.tags_eq, inv.dT_nodup, inv.dT_lt, inv.dG_nodup, inv.dG_lt, inv.blobs_known, inv.cinv, inv.commits_known, ?_, ?_, ?_, ?_, ?_⟩
  · simp only [registerReference]; rw [f1]; exact inv.hb
  · simp only [registerReference]; rw [f2]; exact inv.ht
  · simp only [registerReference]; rw [f3]; exact inv.hc
  · simp only [registerReference]; rw [f4]; exact inv.hg
  · simp only [registerReference, refNums, recordReference_numbers]
    have := inv.hr; simp only [refNums, List.cons.injEq, and_true] at this
    rw [this]; unfold sat clamp; congr 1; omega

/-- new finalisations after one `registerTree`, with their sizes -/
theorem new_fins_spec {α : Type} {P : Agg.Params α} (laws : Agg.Laws P) (wf : Agg.WFk P) (fuel : Nat)
    (D : List Nat) (t : Nat) (hnd : (D ++ [t]).Nodup) (hK : Agg.K P (D ++ [t]) ≤ fuel) :
    let st := Agg.run P fuel D (Agg.init : Agg.St α)
    let st' := Agg.registerTree P fuel st t
    st' = Agg.run P fuel (D ++ [t]) Agg.init ∧
    (∃ new, st'.fins = st.fins ++ new ∧ st'.fins.drop st.fins.length = new ∧
      ∀ x ∈ new, st'.sizes x = some (Agg.expand P x)) := by
  intro st st'
  have e : st' = Agg.run P fuel (D ++ [t]) Agg.init := (Agg.run_snoc fuel D t Agg.init).symm
  refine ⟨e, ?_⟩
  obtain ⟨new, hn⟩ := Agg.registerTree_fins_append (P := P) fuel st t
  refine ⟨new, hn, by rw [hn]; simp, ?_⟩
  intro x hx
  have inv' : Agg.InvX P none st' (D ++ [t]) [] := by
    rw [e]; exact Agg.run_prefix_inv laws wf fuel (D ++ [t]) hnd hK
  have hxf : x ∈ st'.fins := by rw [hn]; exact List.mem_append_right _ hx
  have hfin := (inv'.Fm x).mp hxf
  obtain ⟨s, hs⟩ := (Agg.isFin_true_iff st' x).mp hfin
  rw [hs, (inv'.F x s hs).1]

theorem step_tree (r : Repo) (ok : RepoOK r) {st : GState} {dB dT dC dG : List Nat} {n : Nat}
    (inv : RunInv r st dB dT dC dG n) (t : Nat) (hnew : t ∉ dT) (hlt : t < r.length)
    (hblobs : ∀ e ∈ r.entries t, e.kind = .blob → e.oid ∈ dB) :
    ∃ st', step r st (.tree t) = .ok st' ∧ RunInv r st' dB (dT ++ [t]) dC dG n := by
  have invT := invTrees r ok inv
  have hnone : st.trees.sizes t = none := (invT.U t hnew).1
  have hnd : (dT ++ [t]).Nodup := by
    rw [List.nodup_append]; exact ⟨inv.dT_nodup, by simp, by intro a ha b hb e; simp at hb; subst hb; subst e; exact hnew ha⟩
  have hltAll : ∀ x ∈ dT ++ [t], x < r.length := by
    intro x hx; rcases List.mem_append.mp hx with h | h
    · exact inv.dT_lt x h
    · simp at h; rw [h]; exact hlt
  have hK := K_trees_le_fuel r (dT ++ [t]) hnd hltAll
  have spec := new_fins_spec (lawsB r) (show Agg.WFk (PB r) from ok.trees.wf) (fuelOf r) dT t hnd hK
  rw [← inv.trees_eq] at spec
  obtain ⟨e, new, hn, hdrop, hsz⟩ := spec
  have hb1 : ((r.entries t).any fun e => e.kind == .blob && (st.blobs e.oid).isNone) = false := by
    rw [List.any_eq_false]
    intro x hx
    by_cases hk : x.kind = .blob
    · have hsome := inv.blobs_known x.oid (hblobs x hx hk)
      cases hb : st.blobs x.oid with
      | none => rw [hb] at hsome; cases hsome
      | some v => simp
    · have : (x.kind == Kind.blob) = false := by
        cases hkk : x.kind <;> simp_all
      simp [this]
  have hstep : step r st (.tree t) = .ok { st with
      trees := Agg.registerTree (PB r) (fuelOf r) st.trees t,
      hist := ((Agg.registerTree (PB r) (fuelOf r) st.trees t).fins.drop st.trees.fins.length).foldl
        (recordTreeAt r (Agg.registerTree (PB r) (fuelOf r) st.trees t).sizes) st.hist } := by
    show registerTree r st t = _
    unfold registerTree
    rw [hnone, hb1]
    rfl
  refine ⟨_, hstep, ?_⟩
  obtain ⟨g1, g2, g3, g4, g5⟩ := treeFold_nums r (Agg.registerTree (PB r) (fuelOf r) st.trees t).sizes (Agg.expand (PB r))
    ((Agg.registerTree (PB r) (fuelOf r) st.trees t).fins.drop st.trees.fins.length) st.hist (by rw [hdrop]; exact hsz)
  refine ⟨e, inv.tags_eq, hnd, hltAll, inv.dG_nodup, inv.dG_lt, inv.blobs_known, inv.cinv, inv.commits_known, ?_, ?_, ?_, ?_, ?_⟩
  · simp only; rw [g2]; exact inv.hb
  · simp only; rw [g1, inv.ht, hdrop, hn, List.foldl_append]
  · simp only; rw [g3]; exact inv.hc
  · simp only; rw [g4]; exact inv.hg
  · simp only; rw [g5]; exact inv.hr

theorem step_tag (r : Repo) (ok : RepoOK r) {st : GState} {dB dT dC dG : List Nat} {n : Nat}
    (inv : RunInv r st dB dT dC dG n) (g : Nat) (hnew : g ∉ dG) (hlt : g < r.length) :
    ∃ st', step r st (.tag g) = .ok st' ∧ RunInv r st' dB dT dC (dG ++ [g]) n := by
  have invG := invTags r ok inv
  have hnone : st.tags.sizes g = none := (invG.U g hnew).1
  have hnd : (dG ++ [g]).Nodup := by
    rw [List.nodup_append]; exact ⟨inv.dG_nodup, by simp, by intro a ha b hb e; simp at hb; subst hb; subst e; exact hnew ha⟩
  have hltAll : ∀ x ∈ dG ++ [g], x < r.length := by
    intro x hx; rcases List.mem_append.mp hx with h | h
    · exact inv.dG_lt x h
    · simp at h; rw [h]; exact hlt
  have hK := K_tags_le_fuel r (dG ++ [g]) hnd hltAll
  have spec := new_fins_spec (lawsT r) (show Agg.WFk (PT r) from ok.tags) (fuelOf r) dG g hnd hK
  rw [← inv.tags_eq] at spec
  obtain ⟨e, new, hn, hdrop, hsz⟩ := spec
  have hstep : step r st (.tag g) = .ok { st with
      tags := Agg.registerTree (PT r) (fuelOf r) st.tags g,
      hist := ((Agg.registerTree (PT r) (fuelOf r) st.tags g).fins.drop st.tags.fins.length).foldl
        (recordTagAt r (Agg.registerTree (PT r) (fuelOf r) st.tags g).sizes) st.hist } := by
    show registerTag r st g = _
    unfold registerTag
    rw [hnone]
    rfl
  refine ⟨_, hstep, ?_⟩
  obtain ⟨g1, g2, g3, g4, g5⟩ := tagFold_nums r (Agg.registerTree (PT r) (fuelOf r) st.tags g).sizes (Agg.expand (PT r))
    ((Agg.registerTree (PT r) (fuelOf r) st.tags g).fins.drop st.tags.fins.length) st.hist (by rw [hdrop]; exact hsz)
  refine ⟨inv.trees_eq, e, inv.dT_nodup, inv.dT_lt, hnd, hltAll, inv.blobs_known, inv.cinv, inv.commits_known, ?_, ?_, ?_, ?_, ?_⟩
  · simp only; rw [g2]; exact inv.hb
  · simp only; rw [g3]; exact inv.ht
  · simp only; rw [g4]; exact inv.hc
  · simp only; rw [g1, inv.hg, hdrop, hn, List.foldl_append]
  · simp only; rw [g5]; exact inv.hr

end GitSizer.Graph
