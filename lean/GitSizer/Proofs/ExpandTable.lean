import GitSizer.Proofs.GraphTrees
/-! The bottom-up table used by the judge (`Spec.expandTable`) computes the recursive expansion
    `Agg.expand` — so the executable specification the engines evaluate is the specification the
    theorems are about. -/
namespace GitSizer.Graph
open GitSizer GitSizer.Spec

theorem lawsN (r : Repo) : Agg.Laws (PN r) := by
  refine ⟨?_, ?_, ?_⟩
  · intro a b; show TN.op a b = TN.op b a
    simp only [TN.op, TN.mk.injEq]; omega
  · intro a b c; show TN.op (TN.op a b) c = TN.op a (TN.op b c)
    simp only [TN.op, TN.mk.injEq]; omega
  · intro a; show TN.op TN.unit a = a
    cases a; simp [TN.op, TN.unit]

/-- one table row: fold over the subtree entries, reading finished rows from the table -/
def rowOf {α : Type} (P : Agg.Params α) (tbl : List α) (t : Nat) : α :=
  (P.kids t).foldl (fun s e => P.op s (P.desc e.1 (tbl.getD e.2 P.unit))) (P.base t)

theorem expandTable_succ {α : Type} (P : Agg.Params α) (n : Nat) :
    expandTable P (n + 1) = expandTable P n ++ [rowOf P (expandTable P n) n] := by
  unfold expandTable
  rw [List.range_succ, List.foldl_append]
  rfl

theorem expandTable_length {α : Type} (P : Agg.Params α) (n : Nat) : (expandTable P n).length = n := by
  induction n with
  | zero => rfl
  | succ n ih => rw [expandTable_succ]; simp [ih]

theorem foldl_congr_mem {α β : Type} (f g : α → β → α) (l : List β) (a : α) (h : ∀ s, ∀ e ∈ l, f s e = g s e) :
    l.foldl f a = l.foldl g a := by
  induction l generalizing a with
  | nil => rfl
  | cons x xs ih =>
    simp only [List.foldl_cons]
    rw [h a x List.mem_cons_self]
    exact ih _ (fun s e he => h s e (List.mem_cons_of_mem _ he))

/-- **the table is the recursive expansion**, entry by entry -/
theorem expandTable_spec {α : Type} (P : Agg.Params α) (laws : Agg.Laws P) (wf : Agg.WFk P) :
    ∀ (n t : Nat), t < n → (expandTable P n).getD t P.unit = Agg.expand P t := by
  intro n
  induction n with
  | zero => intro t h; omega
  | succ n ih =>
    intro t ht
    rw [expandTable_succ]
    by_cases hlt : t < n
    · rw [List.getD_eq_getElem?_getD, List.getElem?_append_left (by rw [expandTable_length]; exact hlt)]
      rw [← List.getD_eq_getElem?_getD]; exact ih t hlt
    · have hte : t = n := by omega
      subst hte
      rw [List.getD_eq_getElem?_getD, List.getElem?_append_right (by rw [expandTable_length]; exact Nat.le_refl _)]
      simp only [expandTable_length, Nat.sub_self, List.getElem?_cons_zero, Option.getD_some]
      unfold rowOf
      rw [Agg.expand_eq wf t]
      have hf : (P.kids t).foldl (fun s e => P.op s (P.desc e.1 ((expandTable P t).getD e.2 P.unit))) (P.base t)
              = (P.kids t).foldl (fun s e => P.op s (P.desc e.1 (Agg.expand P e.2))) (P.base t) := by
        apply foldl_congr_mem
        intro s e he
        rw [ih e.2 (wf t e he)]
      rw [hf]
      have := Agg.foldl_op_eq_msum laws ((P.kids t).map (fun e => P.desc e.1 (Agg.expand P e.2))) (P.base t)
      rw [List.foldl_map] at this
      exact this

/-- the judge's table of true expansions is the recursive expansion of `Spec.PN` -/
theorem judge_table_is_expansion (r : Repo) (wf : ∀ t e, e ∈ treeKids r t → e.2 < t) (t : Nat) (ht : t < r.length) :
    (expandTable (PN r) r.length).getD t TN.unit = Agg.expand (PN r) t :=
  expandTable_spec (PN r) (lawsN r) wf r.length t ht

end GitSizer.Graph
