import GitSizer.Proofs.GraphRun1
/-! Whole-run theorem, part 2: a valid delivery schedule never panics, and the history is the fold
    of the recorded objects. -/
namespace GitSizer.Graph
open GitSizer GitSizer.Spec Gen

/-- side conditions on the repository description (what git guarantees for stored objects) -/
structure RepoOK (r : Repo) : Prop where
  trees : TreesOK r
  commits : CommitsWF r
  tags : TagsWF r
  tagKinds : ∀ t o, r.tagRef t = some (o, true) → (r.tagRef o).isSome

/-- the tree `t` and all trees below it have been delivered -/
def TreeDone (r : Repo) (dT : List Nat) (t : Nat) : Prop := ∀ u, TreeReach r t u → u ∈ dT

/-- the driver contract of `sizes.Graph`, relative to what has been delivered so far:
    blobs before the trees that hold them; trees and tags in ANY order, each once; a commit after
    all trees below its root tree and after its parents -/
def ValidFrom (r : Repo) : List Nat → List Nat → List Nat → List Nat → List Op → Prop
  | _, _, _, _, [] => True
  | dB, dT, dC, dG, .blob o :: rest => ValidFrom r (dB ++ [o]) dT dC dG rest
  | dB, dT, dC, dG, .tree t :: rest =>
    t ∉ dT ∧ t < r.length ∧ (∀ e ∈ r.entries t, e.kind = .blob → e.oid ∈ dB) ∧ ValidFrom r dB (dT ++ [t]) dC dG rest
  | dB, dT, dC, dG, .commit c :: rest =>
    c ∉ dC ∧ r.isCommit c = true ∧ (∀ s tr ps, r.obj c = some (.commit s tr ps) → TreeDone r dT tr) ∧
    (∀ p ∈ r.parents c, p ∈ dC) ∧ ValidFrom r dB dT (dC ++ [c]) dG rest
  | dB, dT, dC, dG, .tag g :: rest =>
    g ∉ dG ∧ g < r.length ∧ ValidFrom r dB dT dC (dG ++ [g]) rest
  | dB, dT, dC, dG, .ref _ :: rest => ValidFrom r dB dT dC dG rest

def zeros (n : Nat) : List Nat := List.replicate n 0

/-- the invariant carried through a run -/
structure RunInv (r : Repo) (st : GState) (dB dT dC dG : List Nat) (nref : Nat) : Prop where
  trees_eq : st.trees = Agg.run (PB r) (fuelOf r) dT Agg.init
  tags_eq : st.tags = Agg.run (PT r) (fuelOf r) dG Agg.init
  dT_nodup : dT.Nodup
  dT_lt : ∀ t ∈ dT, t < r.length
  dG_nodup : dG.Nodup
  dG_lt : ∀ t ∈ dG, t < r.length
  blobs_known : ∀ o ∈ dB, (st.blobs o).isSome
  cinv : CInv r st.commits
  commits_known : ∀ c, (st.commits c).isSome ↔ c ∈ dC
  hb : blobNums st.hist = dB.foldl (fun a o => stepB a (blobSize32 r o).Size.toNat) (zeros 3)
  ht : treeNums st.hist = st.trees.fins.foldl (fun a t => stepT a (toTN (Agg.expand (PB r) t)) (objSize32 r t).toNat
          (entryCount32 (r.entries t).length).toNat) (zeros 11)
  hc : commitNums st.hist = dC.foldl (fun a c => stepC a (objSize32 r c).toNat (clamp c32 (depthN r c))
          (NewCount32 (BitVec.ofNat 64 (r.parents c).length)).toNat) (zeros 5)
  hg : tagNums st.hist = st.tags.fins.foldl (fun a g => stepG a (Agg.expand (PT r) g).TagDepth.toNat) (zeros 2)
  hr : refNums st.hist = [clamp c32 nref]

theorem runInv_init (r : Repo) : RunInv r {} [] [] [] [] 0 := by
  refine ⟨rfl, rfl, List.nodup_nil, ?_, List.nodup_nil, ?_, ?_, ?_, ?_, rfl, rfl, rfl, rfl, rfl⟩
  · intro t h; cases h
  · intro t h; cases h
  · intro o h; cases h
  · intro c s h; cases h
  · intro c; simp

theorem invTrees (r : Repo) (ok : RepoOK r) {st : GState} {dB dT dC dG : List Nat} {n : Nat}
    (inv : RunInv r st dB dT dC dG n) : Agg.InvX (PB r) none st.trees dT [] := by
  rw [inv.trees_eq]
  exact Agg.run_prefix_inv (lawsB r) (show Agg.WFk (PB r) from ok.trees.wf) (fuelOf r) dT inv.dT_nodup
    (K_trees_le_fuel r dT inv.dT_nodup inv.dT_lt)

theorem invTags (r : Repo) (ok : RepoOK r) {st : GState} {dB dT dC dG : List Nat} {n : Nat}
    (inv : RunInv r st dB dT dC dG n) : Agg.InvX (PT r) none st.tags dG [] := by
  rw [inv.tags_eq]
  exact Agg.run_prefix_inv (lawsT r) (show Agg.WFk (PT r) from ok.tags) (fuelOf r) dG inv.dG_nodup
    (K_tags_le_fuel r dG inv.dG_nodup inv.dG_lt)

end GitSizer.Graph
