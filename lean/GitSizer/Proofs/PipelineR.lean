import GitSizer.Model.PipelineR
import GitSizer.Proofs.Pipeline2
/-! Invariant, progress and termination of the two-stage reference pipeline (same scheme as `Proofs/Pipeline*`). -/
namespace GitSizer.PipelineR
open GitSizer.Pipeline (Pipe Parser)

structure Inv (s : St) : Prop where
  capD : 0 < s.d.cap
  gw : s.g = .done → s.d.wclosed = true
  s5r : s.s5 = .done → s.d.rclosed = true
  hdr1 : s.refClosed = true → s.s5 = .done
  hdr2 : s.s5 = .done → s.refClosed = true
  merr : s.main = .errwait → s.refClosed = true
  wdone : s.w = .done → s.main = .done
  wsend : s.w = .sending → s.g = .done ∧ s.s5 = .done

theorem inv_init (lines cd : Nat) (hd : 0 < cd) : Inv (init lines cd) := by
  constructor <;> simp [init, Pipe.fresh, hd]

theorem step_capD {s s' : St} (h_capD : 0 < s.d.cap) (st : Step s s') : 0 < s'.d.cap := by
  cases st <;> simp_all <;> (try omega)
theorem env_capD {s s' : St} (h_capD : 0 < s.d.cap) (st : Env s s') : 0 < s'.d.cap := by
  cases st <;> simp_all
theorem step_gw {s s' : St} (h_gw : s.g = .done → s.d.wclosed = true) (st : Step s s') : s'.g = .done → s'.d.wclosed = true := by
  cases st <;> simp_all <;> (try omega)
theorem env_gw {s s' : St} (h_gw : s.g = .done → s.d.wclosed = true) (st : Env s s') : s'.g = .done → s'.d.wclosed = true := by
  cases st <;> simp_all
theorem step_s5r {s s' : St} (h_s5r : s.s5 = .done → s.d.rclosed = true) (st : Step s s') : s'.s5 = .done → s'.d.rclosed = true := by
  cases st <;> simp_all <;> (try omega)
theorem env_s5r {s s' : St} (h_s5r : s.s5 = .done → s.d.rclosed = true) (st : Env s s') : s'.s5 = .done → s'.d.rclosed = true := by
  cases st <;> simp_all
theorem step_hdr1 {s s' : St} (h_hdr1 : s.refClosed = true → s.s5 = .done) (st : Step s s') : s'.refClosed = true → s'.s5 = .done := by
  cases st <;> simp_all <;> (try omega)
theorem env_hdr1 {s s' : St} (h_hdr1 : s.refClosed = true → s.s5 = .done) (st : Env s s') : s'.refClosed = true → s'.s5 = .done := by
  cases st <;> simp_all
theorem step_hdr2 {s s' : St} (h_hdr2 : s.s5 = .done → s.refClosed = true) (st : Step s s') : s'.s5 = .done → s'.refClosed = true := by
  cases st <;> simp_all <;> (try omega)
theorem env_hdr2 {s s' : St} (h_hdr2 : s.s5 = .done → s.refClosed = true) (st : Env s s') : s'.s5 = .done → s'.refClosed = true := by
  cases st <;> simp_all
theorem step_merr {s s' : St} (h_merr : s.main = .errwait → s.refClosed = true) (st : Step s s') : s'.main = .errwait → s'.refClosed = true := by
  cases st <;> simp_all <;> (try omega)
theorem env_merr {s s' : St} (h_merr : s.main = .errwait → s.refClosed = true) (st : Env s s') : s'.main = .errwait → s'.refClosed = true := by
  cases st <;> simp_all
theorem step_wdone {s s' : St} (h_wdone : s.w = .done → s.main = .done) (st : Step s s') : s'.w = .done → s'.main = .done := by
  cases st <;> simp_all <;> (try omega)
theorem env_wdone {s s' : St} (h_wdone : s.w = .done → s.main = .done) (st : Env s s') : s'.w = .done → s'.main = .done := by
  cases st <;> simp_all
theorem step_wsend {s s' : St} (h_wsend : s.w = .sending → s.g = .done ∧ s.s5 = .done) (st : Step s s') : s'.w = .sending → s'.g = .done ∧ s'.s5 = .done := by
  cases st <;> simp_all <;> (try omega)
theorem env_wsend {s s' : St} (h_wsend : s.w = .sending → s.g = .done ∧ s.s5 = .done) (st : Env s s') : s'.w = .sending → s'.g = .done ∧ s'.s5 = .done := by
  cases st <;> simp_all

theorem inv_step {s s' : St} (h : Inv s) (st : Step s s') : Inv s' :=
  ⟨step_capD h.capD st, step_gw h.gw st, step_s5r h.s5r st, step_hdr1 h.hdr1 st, step_hdr2 h.hdr2 st, step_merr h.merr st, step_wdone h.wdone st, step_wsend h.wsend st⟩

theorem inv_env {s s' : St} (h : Inv s) (st : Env s s') : Inv s' :=
  ⟨env_capD h.capD st, env_gw h.gw st, env_s5r h.s5r st, env_hdr1 h.hdr1 st, env_hdr2 h.hdr2 st, env_merr h.merr st, env_wdone h.wdone st, env_wsend h.wsend st⟩

theorem inv_reach {s0 s : St} (h0 : Inv s0) (r : Reach s0 s) : Inv s := by
  induction r with
  | refl => exact h0
  | step _ st ih => exact inv_step ih st
  | env _ st ih => exact inv_env ih st

def CanStep (s : St) : Prop := ∃ s', Step s s'

variable {s : St}

theorem leftG (h : Inv s) (hs : s.g ≠ .done) (hD : s.s5 = .done ∨ s.d.n < s.d.cap) : CanStep s := by
  cases hg : s.g with
  | done => exact absurd hg hs
  | write k =>
    cases k with
    | zero => exact ⟨_, Step.gExit s hg⟩
    | succ k =>
      cases hr : s.d.rclosed with
      | true => exact ⟨_, Step.gEpipe s k hg hr⟩
      | false =>
        rcases hD with h5 | hn
        · have := h.s5r h5; rw [hr] at this; cases this
        · exact ⟨_, Step.gWrite s k hg hr hn⟩

theorem leftS5 (h : Inv s) (hs : s.s5 ≠ .done) (hm : s.main = .recv) : CanStep s := by
  cases h5 : s.s5 with
  | done => exact absurd h5 hs
  | send => exact ⟨_, Step.mainRecv s hm h5⟩
  | read =>
    by_cases hn : 0 < s.d.n
    · exact ⟨_, Step.s5Read s h5 hn⟩
    · have hn0 : s.d.n = 0 := by omega
      cases hw : s.d.wclosed with
      | true => exact ⟨_, Step.s5Eof s h5 hn0 hw⟩
      | false =>
        have hg : s.g ≠ .done := by intro hd; have := h.gw hd; rw [hw] at this; cases this
        exact leftG h hg (Or.inr (by have := h.capD; omega))

/-- **no deadlock** -/
theorem progress (h : Inv s) (hm : s.main ≠ .done) : CanStep s := by
  cases hmain : s.main with
  | done => exact absurd hmain hm
  | recv =>
    cases hh : s.refClosed with
    | true => exact ⟨_, Step.mainClosed s hmain hh⟩
    | false =>
      have h5 : s.s5 ≠ .done := by intro hd; have := h.hdr2 hd; rw [hh] at this; cases this
      exact leftS5 h h5 hmain
  | errwait =>
    have h5 : s.s5 = .done := h.hdr1 (h.merr hmain)
    cases hw : s.w with
    | sending => exact ⟨_, Step.mainErr s hmain hw⟩
    | done => have := h.wdone hw; rw [hmain] at this; cases this
    | waiting =>
      by_cases hg : s.g = .done
      · exact ⟨_, Step.waited s hw hg h5⟩
      · exact leftG h hg (Or.inl h5)

def gW : Gen → Nat
  | .write k => 3 * k + 1 | .done => 0
def wW : Waiter → Nat
  | .waiting => 2 | .sending => 1 | .done => 0
def mW : Main → Nat
  | .recv => 3 | .errwait => 2 | .done => 0

def mu (s : St) : Nat := gW s.g + 2 * s.d.n + Pipeline.s5W s.s5 + wW s.w + mW s.main

theorem step_decreases {s s' : St} (st : Step s s') : mu s' < mu s := by
  cases st <;> simp_all [mu, gW, wW, mW, Pipeline.s5W] <;> omega

theorem env_decreases {s s' : St} (st : Env s s') : mu s' < mu s := by
  cases st with
  | gDie h =>
    have hpos : 0 < gW s.g := by cases hg : s.g <;> simp_all [gW]
    have e : gW Gen.done = 0 := rfl
    simp only [mu, e]; omega

inductive Returns : St → Prop where
  | done {s : St} : s.main = .done → Returns s
  | more {s : St} : CanStep s → (∀ s', Step s s' ∨ Env s s' → Returns s') → Returns s

theorem returns_of_inv : ∀ (n : Nat) (s : St), mu s ≤ n → Inv s → Returns s := by
  intro n
  induction n with
  | zero =>
    intro s hn h
    by_cases hm : s.main = .done
    · exact .done hm
    · obtain ⟨s', st⟩ := progress h hm
      have := step_decreases st; omega
  | succ n ih =>
    intro s hn h
    by_cases hm : s.main = .done
    · exact .done hm
    · refine .more (progress h hm) ?_
      intro s' hs
      rcases hs with st | st
      · exact ih s' (by have := step_decreases st; omega) (inv_step h st)
      · exact ih s' (by have := env_decreases st; omega) (inv_env h st)

end GitSizer.PipelineR
