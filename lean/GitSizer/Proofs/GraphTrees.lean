import GitSizer.Proofs.Sizes
/-! The tree part of T1: whatever the delivery order, the memo of every tree is the `clamp` of its
    true recursive expansion over `Nat` (C04 core; aggregation half of C05; order-independence for
    C09). Instantiates the generic aggregator theorem `Agg.agg_correct` with the saturating
    `TreeSize` algebra built from the regenerated code. -/
namespace GitSizer.Graph
open GitSizer GitSizer.Spec Gen

/-- fieldwise clamp of true values into the counters' capacities -/
def clampN (a : TN) : TN :=
  ⟨clamp c32 a.depth, clamp c32 a.len, clamp c32 a.trees, clamp c32 a.blobs, clamp c64 a.bsize,
   clamp c32 a.links, clamp c32 a.subs⟩

theorem clampN_op (a b : TN) : clampN (TN.op a b) = opS (clampN a) (clampN b) := by
  simp only [clampN, TN.op, opS, clamp_max, clamp_add]

theorem clampN_unit : clampN TN.unit = toTN TS.unit := by
  simp [clampN, TN.unit, toTN, TS.unit, clamp]

/-- the homomorphism needs the name to be shorter than 2^32−1 bytes (the raw `+ 1` in
    `addDescendent` wraps otherwise — DESIGN §9 F12) -/
theorem clampN_desc (nm : Nat) (hnm : nm < c32) (s : TN) : clampN (TN.desc nm s) = descS nm (clampN s) := by
  have hc : clamp c32 nm = nm := clamp_id (Nat.le_of_lt hnm)
  have hmod : (nm + 1) % 2 ^ 32 = nm + 1 := Nat.mod_eq_of_lt (by unfold c32 at hnm; omega)
  simp only [clampN, TN.desc, descS, TN.mk.injEq, and_true]
  refine ⟨by unfold clamp sat; omega, ?_⟩
  by_cases h : s.len > 0
  · have h' : clamp c32 s.len > 0 := by unfold clamp c32; omega
    simp only [h, h', if_true, hc, hmod]
    unfold clamp sat; omega
  · have h' : ¬ clamp c32 s.len > 0 := by unfold clamp; omega
    simp only [h, h', if_false]

/-- repository side conditions of the tree theorem -/
structure TreesOK (r : Repo) : Prop where
  wf : ∀ t e, e ∈ treeKids r t → e.2 < t
  names : ∀ t e, e ∈ treeKids r t → e.1 < c32
  blobs : ∀ b, r.blobSize b < 2 ^ 64
  allNames : ∀ t e, e ∈ r.entries t → e.name.length < 2 ^ 64

theorem blobC_toTN (nm : Nat) (sz : Nat) (hn : nm < 2 ^ 64) (hs : sz < 2 ^ 64) :
    toTN (blobC nm (NewCount64 (BitVec.ofNat 64 sz))) = clampN ⟨1, nm, 0, 1, sz, 0, 0⟩ := by
  simp only [toTN, blobC, clampN, TN.mk.injEq]
  refine ⟨by simp [clamp, c32], ?_, by simp [clamp], by simp [clamp, c32], ?_, by simp [clamp], by simp [clamp]⟩
  · unfold nameLen32; rw [Counts.newCount32_spec]
    simp only [BitVec.toNat_ofNat, Nat.mod_eq_of_lt hn]
  · unfold NewCount64; simp only [BitVec.toNat_ofNat, Nat.mod_eq_of_lt hs]
    unfold clamp c64; omega

theorem linkC_toTN (nm : Nat) (hn : nm < 2 ^ 64) : toTN (linkC nm) = clampN ⟨1, nm, 0, 0, 0, 1, 0⟩ := by
  simp only [toTN, linkC, clampN, TN.mk.injEq]
  refine ⟨by simp [clamp, c32], ?_, by simp [clamp], by simp [clamp], by simp [clamp], by simp [clamp, c32], by simp [clamp]⟩
  unfold nameLen32; rw [Counts.newCount32_spec]
  simp only [BitVec.toNat_ofNat, Nat.mod_eq_of_lt hn]

theorem subC_toTN (nm : Nat) (hn : nm < 2 ^ 64) : toTN (subC nm) = clampN ⟨1, nm, 0, 0, 0, 0, 1⟩ := by
  simp only [toTN, subC, clampN, TN.mk.injEq]
  refine ⟨by simp [clamp, c32], ?_, by simp [clamp], by simp [clamp], by simp [clamp], by simp [clamp], by simp [clamp, c32]⟩
  unfold nameLen32; rw [Counts.newCount32_spec]
  simp only [BitVec.toNat_ofNat, Nat.mod_eq_of_lt hn]

/-- the generated entry loop computes the clamp of the true base (any entry list) -/
theorem base_fold_clamp (r : Repo) (hb : ∀ b, r.blobSize b < 2 ^ 64) :
    ∀ (es : List Entry) (accB : TreeSize) (accN : TN), (∀ e ∈ es, e.name.length < 2 ^ 64) →
      toTN accB = clampN accN →
      toTN (es.foldl (fun acc e =>
        match e.kind with
        | .tree => acc
        | .blob => TreeSize.addBlob acc e.name (blobSize32 r e.oid)
        | .symlink => TreeSize.addLink acc e.name
        | .gitlink => TreeSize.addSubmodule acc e.name) accB) =
      clampN (es.foldl (fun acc e =>
        match e.kind with
        | .tree => acc
        | .blob => acc.op ⟨1, e.name.length, 0, 1, r.blobSize e.oid, 0, 0⟩
        | .symlink => acc.op ⟨1, e.name.length, 0, 0, 0, 1, 0⟩
        | .gitlink => acc.op ⟨1, e.name.length, 0, 0, 0, 0, 1⟩) accN) := by
  intro es
  induction es with
  | nil => intro accB accN _ h0; exact h0
  | cons e es ih =>
    intro accB accN hn h0
    simp only [List.foldl_cons]
    have hne := hn e List.mem_cons_self
    apply ih _ _ (fun x hx => hn x (List.mem_cons_of_mem _ hx))
    cases e.kind with
    | tree => exact h0
    | blob =>
      simp only [addBlob_eq, toTN_op, clampN_op, h0, blobSize32]
      rw [blobC_toTN _ _ hne (hb e.oid)]
    | symlink => simp only [addLink_eq, toTN_op, clampN_op, h0, linkC_toTN _ hne]
    | gitlink => simp only [addSubmodule_eq, toTN_op, clampN_op, h0, subC_toTN _ hne]

theorem base_clamp (r : Repo) (hb : ∀ b, r.blobSize b < 2 ^ 64) (t : Nat)
    (hn : ∀ e ∈ r.entries t, e.name.length < 2 ^ 64) :
    toTN (baseB r (blobSize32 r) t) = clampN (baseN r (fun b => r.blobSize b) t) := by
  unfold baseB baseN
  apply base_fold_clamp r hb _ _ _ hn
  simp [toTN, newTreeSize, clampN, clamp, c32]

theorem toTN_msum (r : Repo) (l : List TreeSize) :
    toTN (Agg.msum (PB r) l) = (l.map toTN).foldr opS (toTN TS.unit) := by
  induction l with
  | nil => rfl
  | cons a l ih =>
    simp only [Agg.msum_cons, List.map_cons, List.foldr_cons]
    show toTN (TS.op a _) = _
    rw [toTN_op, ih]

theorem clampN_msum (r : Repo) (l : List TN) :
    clampN (Agg.msum (PN r) l) = (l.map clampN).foldr opS (toTN TS.unit) := by
  induction l with
  | nil => exact clampN_unit
  | cons a l ih =>
    simp only [Agg.msum_cons, List.map_cons, List.foldr_cons]
    show clampN (TN.op a _) = _
    rw [clampN_op, ih]

/-- the machine-level expansion is the clamp of the true expansion -/
theorem expand_clamp (r : Repo) (ok : TreesOK r) :
    ∀ t, toTN (Agg.expand (PB r) t) = clampN (Agg.expand (PN r) t) := by
  have wfB : Agg.WFk (PB r) := ok.wf
  have wfN : Agg.WFk (PN r) := ok.wf
  intro t
  induction t using Nat.strongRecOn with
  | _ t ih =>
    rw [Agg.expand_eq wfB t, Agg.expand_eq wfN t, toTN_msum, clampN_msum]
    simp only [List.map_cons, List.map_map]
    congr 1
    congr 1
    · exact base_clamp r ok.blobs t (ok.allNames t)
    · apply List.map_congr_left
      intro e he
      simp only [Function.comp]
      show toTN (TS.desc e.1 (Agg.expand (PB r) e.2)) = clampN (TN.desc e.1 (Agg.expand (PN r) e.2))
      have hlt : e.1 < c32 := ok.names t e he
      rw [toTN_desc e.1 (by unfold c32 at hlt; omega), clampN_desc e.1 hlt, ih e.2 (ok.wf t e he)]

/-- **Tree memo theorem.** For every repository and ANY duplicate-free delivery order `ds` of a
    downward-closed set of trees, the aggregator ends with exactly the delivered trees finalised,
    each with the clamp of its true recursive expansion; no record remains. -/
theorem tree_memo_is_clamped_truth (r : Repo) (ok : TreesOK r)
    (ds : List Nat) (hnd : ds.Nodup) (closed : ∀ t ∈ ds, ∀ e ∈ treeKids r t, e.2 ∈ ds)
    (fuel : Nat) (hfuel : Agg.K (PB r) ds ≤ fuel) :
    (∀ t ∈ ds, ∃ s, (Agg.run (PB r) fuel ds Agg.init).sizes t = some s ∧ toTN s = clampN (Agg.expand (PN r) t)) ∧
    (∀ t, t ∉ ds → (Agg.run (PB r) fuel ds Agg.init).sizes t = none) ∧
    (∀ t, (Agg.run (PB r) fuel ds Agg.init).recs t = none) ∧
    (Agg.run (PB r) fuel ds Agg.init).fins.Perm ds := by
  obtain ⟨h1, h2, h3, h4⟩ := Agg.agg_correct (lawsB r) (show Agg.WFk (PB r) from ok.wf) ds hnd closed fuel hfuel
  refine ⟨?_, h2, h3, h4⟩
  intro t ht
  exact ⟨_, h1 t ht, expand_clamp r ok t⟩

end GitSizer.Graph
