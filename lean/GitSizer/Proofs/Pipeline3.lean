import GitSizer.Model.Pipeline3
import GitSizer.Proofs.Pipeline2
/-! Invariant, progress and termination of the three-stage protocol model (same proof as `Proofs/Pipeline*`). -/
namespace GitSizer.Pipeline3
open GitSizer.Pipeline (Pipe Feeder Copy Parser Main)

structure Inv (s : St) : Prop where
  capA : 0 < s.a.cap
  capD : 0 < s.d.cap
  s1w : s.s1 = .done → s.a.wclosed = true
  g2r : s.g2 = .done → s.a.rclosed = true
  g2w : s.g2 = .done → s.d.wclosed = true
  s5r : s.s5 = .done → s.d.rclosed = true
  hdr1 : s.hdrClosed = true → s.s5 = .done
  hdr2 : s.s5 = .done → s.hdrClosed = true
  oid : s.feeder = .report ∨ s.feeder = .done → s.oidClosed = true
  oid2 : s.oidClosed = true → s.feeder = .report ∨ s.feeder = .done
  s1ok : s.s1ok = true → s.oidClosed = true
  errS1 : s.err = false → s.s1 = .done → s.s1ok = true
  echan0 : s.feeder ≠ .done → s.errChan = 0
  fdone : s.feeder = .done → s.errChan = 1 ∨ s.main = .done
  nofirst : s.main ≠ .first
  mwait : s.main = .wait ∨ s.main = .errchan → s.hdrClosed = true
  merr : s.main = .errchan → s.s1 = .done ∧ s.g2 = .done ∧ s.s5 = .done ∧ s.err = false

theorem inv_init (requests : Option Nat) (ca cd : Nat) (ha : 0 < ca) (hd : 0 < cd) : Inv (init requests ca cd) := by
  constructor <;> simp [init, Pipe.fresh, ha, hd] <;> (cases requests <;> simp)

theorem step_capA {s s' : St} (h_capA : 0 < s.a.cap) (st : Step s s') : 0 < s'.a.cap := by
  cases st <;> simp_all <;> (try omega)
theorem env_capA {s s' : St} (h_capA : 0 < s.a.cap) (st : Env s s') : 0 < s'.a.cap := by
  cases st <;> simp_all
theorem step_capD {s s' : St} (h_capD : 0 < s.d.cap) (st : Step s s') : 0 < s'.d.cap := by
  cases st <;> simp_all <;> (try omega)
theorem env_capD {s s' : St} (h_capD : 0 < s.d.cap) (st : Env s s') : 0 < s'.d.cap := by
  cases st <;> simp_all
theorem step_s1w {s s' : St} (h_s1w : s.s1 = .done → s.a.wclosed = true) (st : Step s s') : s'.s1 = .done → s'.a.wclosed = true := by
  cases st <;> simp_all <;> (try omega)
theorem env_s1w {s s' : St} (h_s1w : s.s1 = .done → s.a.wclosed = true) (st : Env s s') : s'.s1 = .done → s'.a.wclosed = true := by
  cases st <;> simp_all
theorem step_g2r {s s' : St} (h_g2r : s.g2 = .done → s.a.rclosed = true) (st : Step s s') : s'.g2 = .done → s'.a.rclosed = true := by
  cases st <;> simp_all <;> (try omega)
theorem env_g2r {s s' : St} (h_g2r : s.g2 = .done → s.a.rclosed = true) (st : Env s s') : s'.g2 = .done → s'.a.rclosed = true := by
  cases st <;> simp_all
theorem step_g2w {s s' : St} (h_g2w : s.g2 = .done → s.d.wclosed = true) (st : Step s s') : s'.g2 = .done → s'.d.wclosed = true := by
  cases st <;> simp_all <;> (try omega)
theorem env_g2w {s s' : St} (h_g2w : s.g2 = .done → s.d.wclosed = true) (st : Env s s') : s'.g2 = .done → s'.d.wclosed = true := by
  cases st <;> simp_all
theorem step_s5r {s s' : St} (h_s5r : s.s5 = .done → s.d.rclosed = true) (st : Step s s') : s'.s5 = .done → s'.d.rclosed = true := by
  cases st <;> simp_all <;> (try omega)
theorem env_s5r {s s' : St} (h_s5r : s.s5 = .done → s.d.rclosed = true) (st : Env s s') : s'.s5 = .done → s'.d.rclosed = true := by
  cases st <;> simp_all
theorem step_hdr1 {s s' : St} (h_hdr1 : s.hdrClosed = true → s.s5 = .done) (st : Step s s') : s'.hdrClosed = true → s'.s5 = .done := by
  cases st <;> simp_all <;> (try omega)
theorem env_hdr1 {s s' : St} (h_hdr1 : s.hdrClosed = true → s.s5 = .done) (st : Env s s') : s'.hdrClosed = true → s'.s5 = .done := by
  cases st <;> simp_all
theorem step_hdr2 {s s' : St} (h_hdr2 : s.s5 = .done → s.hdrClosed = true) (st : Step s s') : s'.s5 = .done → s'.hdrClosed = true := by
  cases st <;> simp_all <;> (try omega)
theorem env_hdr2 {s s' : St} (h_hdr2 : s.s5 = .done → s.hdrClosed = true) (st : Env s s') : s'.s5 = .done → s'.hdrClosed = true := by
  cases st <;> simp_all
theorem step_oid {s s' : St} (h_oid : s.feeder = .report ∨ s.feeder = .done → s.oidClosed = true) (st : Step s s') : s'.feeder = .report ∨ s'.feeder = .done → s'.oidClosed = true := by
  cases st <;> simp_all <;> (try omega)
theorem env_oid {s s' : St} (h_oid : s.feeder = .report ∨ s.feeder = .done → s.oidClosed = true) (st : Env s s') : s'.feeder = .report ∨ s'.feeder = .done → s'.oidClosed = true := by
  cases st <;> simp_all
theorem step_oid2 {s s' : St} (h_oid2 : s.oidClosed = true → s.feeder = .report ∨ s.feeder = .done) (st : Step s s') : s'.oidClosed = true → s'.feeder = .report ∨ s'.feeder = .done := by
  cases st <;> simp_all <;> (try omega)
theorem env_oid2 {s s' : St} (h_oid2 : s.oidClosed = true → s.feeder = .report ∨ s.feeder = .done) (st : Env s s') : s'.oidClosed = true → s'.feeder = .report ∨ s'.feeder = .done := by
  cases st <;> simp_all
theorem step_s1ok {s s' : St} (h_s1ok : s.s1ok = true → s.oidClosed = true) (st : Step s s') : s'.s1ok = true → s'.oidClosed = true := by
  cases st <;> simp_all <;> (try omega)
theorem env_s1ok {s s' : St} (h_s1ok : s.s1ok = true → s.oidClosed = true) (st : Env s s') : s'.s1ok = true → s'.oidClosed = true := by
  cases st <;> simp_all
theorem step_errS1 {s s' : St} (h_errS1 : s.err = false → s.s1 = .done → s.s1ok = true) (st : Step s s') : s'.err = false → s'.s1 = .done → s'.s1ok = true := by
  cases st <;> simp_all <;> (try omega)
theorem env_errS1 {s s' : St} (h_errS1 : s.err = false → s.s1 = .done → s.s1ok = true) (st : Env s s') : s'.err = false → s'.s1 = .done → s'.s1ok = true := by
  cases st <;> simp_all
theorem step_echan0 {s s' : St} (h_echan0 : s.feeder ≠ .done → s.errChan = 0) (st : Step s s') : s'.feeder ≠ .done → s'.errChan = 0 := by
  cases st <;> simp_all <;> (try omega)
theorem env_echan0 {s s' : St} (h_echan0 : s.feeder ≠ .done → s.errChan = 0) (st : Env s s') : s'.feeder ≠ .done → s'.errChan = 0 := by
  cases st <;> simp_all
theorem step_fdone {s s' : St} (h_fdone : s.feeder = .done → s.errChan = 1 ∨ s.main = .done) (h_echan0 : s.feeder ≠ .done → s.errChan = 0) (h_nofirst : s.main ≠ .first) (st : Step s s') : s'.feeder = .done → s'.errChan = 1 ∨ s'.main = .done := by
  cases st <;> simp_all <;> (try omega)
theorem env_fdone {s s' : St} (h_fdone : s.feeder = .done → s.errChan = 1 ∨ s.main = .done) (h_echan0 : s.feeder ≠ .done → s.errChan = 0) (h_nofirst : s.main ≠ .first) (st : Env s s') : s'.feeder = .done → s'.errChan = 1 ∨ s'.main = .done := by
  cases st <;> simp_all
theorem step_nofirst {s s' : St} (h_nofirst : s.main ≠ .first) (st : Step s s') : s'.main ≠ .first := by
  cases st <;> simp_all <;> (try omega)
theorem env_nofirst {s s' : St} (h_nofirst : s.main ≠ .first) (st : Env s s') : s'.main ≠ .first := by
  cases st <;> simp_all
theorem step_mwait {s s' : St} (h_mwait : s.main = .wait ∨ s.main = .errchan → s.hdrClosed = true) (st : Step s s') : s'.main = .wait ∨ s'.main = .errchan → s'.hdrClosed = true := by
  cases st <;> simp_all <;> (try omega)
theorem env_mwait {s s' : St} (h_mwait : s.main = .wait ∨ s.main = .errchan → s.hdrClosed = true) (st : Env s s') : s'.main = .wait ∨ s'.main = .errchan → s'.hdrClosed = true := by
  cases st <;> simp_all
theorem step_merr {s s' : St} (h_merr : s.main = .errchan → s.s1 = .done ∧ s.g2 = .done ∧ s.s5 = .done ∧ s.err = false) (st : Step s s') : s'.main = .errchan → s'.s1 = .done ∧ s'.g2 = .done ∧ s'.s5 = .done ∧ s'.err = false := by
  cases st <;> simp_all <;> (try omega)
theorem env_merr {s s' : St} (h_merr : s.main = .errchan → s.s1 = .done ∧ s.g2 = .done ∧ s.s5 = .done ∧ s.err = false) (st : Env s s') : s'.main = .errchan → s'.s1 = .done ∧ s'.g2 = .done ∧ s'.s5 = .done ∧ s'.err = false := by
  cases st <;> simp_all

theorem inv_step {s s' : St} (h : Inv s) (st : Step s s') : Inv s' :=
  ⟨step_capA h.capA st, step_capD h.capD st, step_s1w h.s1w st, step_g2r h.g2r st, step_g2w h.g2w st, step_s5r h.s5r st, step_hdr1 h.hdr1 st, step_hdr2 h.hdr2 st, step_oid h.oid st, step_oid2 h.oid2 st, step_s1ok h.s1ok st, step_errS1 h.errS1 st, step_echan0 h.echan0 st, step_fdone h.fdone h.echan0 h.nofirst st, step_nofirst h.nofirst st, step_mwait h.mwait st, step_merr h.merr st⟩

theorem inv_env {s s' : St} (h : Inv s) (st : Env s s') : Inv s' :=
  ⟨env_capA h.capA st, env_capD h.capD st, env_s1w h.s1w st, env_g2r h.g2r st, env_g2w h.g2w st, env_s5r h.s5r st, env_hdr1 h.hdr1 st, env_hdr2 h.hdr2 st, env_oid h.oid st, env_oid2 h.oid2 st, env_s1ok h.s1ok st, env_errS1 h.errS1 st, env_echan0 h.echan0 st, env_fdone h.fdone h.echan0 h.nofirst st, env_nofirst h.nofirst st, env_mwait h.mwait st, env_merr h.merr st⟩

theorem inv_reach {s0 s : St} (h0 : Inv s0) (r : Reach s0 s) : Inv s := by
  induction r with
  | refl => exact h0
  | step _ st ih => exact inv_step ih st
  | env _ st ih => exact inv_env ih st

def CanStep (s : St) : Prop := ∃ s', Step s s'

variable {s : St}

theorem prog_feeder (h : Inv s) (h1 : s.s1 = .read) (ho : s.oidClosed = false) : CanStep s := by
  cases hf : s.feeder with
  | send k =>
    cases k with
    | zero => exact ⟨_, Step.feedLast s hf h1 ho⟩
    | succ k => exact ⟨_, Step.feedMore s k hf h1 ho⟩
  | close => exact ⟨_, Step.feederClose s hf⟩
  | report => have := h.oid (Or.inl hf); rw [ho] at this; cases this
  | done => have := h.oid (Or.inr hf); rw [ho] at this; cases this

theorem leftS1 (h : Inv s) (hs : s.s1 ≠ .done) (hA : s.g2 = .done ∨ s.a.n < s.a.cap) : CanStep s := by
  cases h1 : s.s1 with
  | done => exact absurd h1 hs
  | read =>
    cases ho : s.oidClosed with
    | true => exact ⟨_, Step.s1End s h1 ho⟩
    | false => exact prog_feeder h h1 ho
  | write =>
    cases hr : s.a.rclosed with
    | true => exact ⟨_, Step.s1Epipe s h1 hr⟩
    | false =>
      rcases hA with hg | hn
      · have := h.g2r hg; rw [hr] at this; cases this
      · exact ⟨_, Step.s1Write s h1 hr hn⟩

theorem leftG2 (h : Inv s) (hs : s.g2 ≠ .done) (hD : s.s5 = .done ∨ s.d.n < s.d.cap) : CanStep s := by
  cases hg : s.g2 with
  | done => exact absurd hg hs
  | read =>
    by_cases hn : 0 < s.a.n
    · exact ⟨_, Step.g2Read s hg hn⟩
    · have hn0 : s.a.n = 0 := by omega
      cases hw : s.a.wclosed with
      | true => exact ⟨_, Step.g2Eof s hg hn0 hw⟩
      | false =>
        have hs1 : s.s1 ≠ .done := by intro hd; have := h.s1w hd; rw [hw] at this; cases this
        exact leftS1 h hs1 (Or.inr (by have := h.capA; omega))
  | write =>
    cases hr : s.d.rclosed with
    | true => exact ⟨_, Step.g2Epipe s hg hr⟩
    | false =>
      rcases hD with h5 | hn
      · have := h.s5r h5; rw [hr] at this; cases this
      · exact ⟨_, Step.g2Write s hg hr hn⟩

theorem leftS5 (h : Inv s) (hs : s.s5 ≠ .done) (hm : s.main = .recv) : CanStep s := by
  cases h5 : s.s5 with
  | done => exact absurd h5 hs
  | send => exact ⟨_, Step.mainRecv s hm h5⟩
  | read =>
    by_cases hn : 0 < s.d.n
    · exact ⟨_, Step.s5Read s h5 hn⟩
    · have hn0 : s.d.n = 0 := by omega
      cases hw : s.d.wclosed with
      | true => exact ⟨_, Step.s5Eof s h5 hn0 hw⟩
      | false =>
        have hg2 : s.g2 ≠ .done := by intro hd; have := h.g2w hd; rw [hw] at this; cases this
        exact leftG2 h hg2 (Or.inr (by have := h.capD; omega))

/-- **no deadlock** -/
theorem progress (h : Inv s) (hm : s.main ≠ .done) : CanStep s := by
  cases hmain : s.main with
  | done => exact absurd hmain hm
  | first => exact absurd hmain h.nofirst
  | recv =>
    cases hh : s.hdrClosed with
    | true => exact ⟨_, Step.mainClosed s hmain hh⟩
    | false =>
      have h5 : s.s5 ≠ .done := by intro hd; have := h.hdr2 hd; rw [hh] at this; cases this
      exact leftS5 h h5 hmain
  | wait =>
    have h5 : s.s5 = .done := h.hdr1 (h.mwait (Or.inl hmain))
    by_cases hg2 : s.g2 = .done
    · by_cases hs1 : s.s1 = .done
      · cases he : s.err with
        | true => exact ⟨_, Step.mainWaitErr s hmain hs1 hg2 h5 he⟩
        | false => exact ⟨_, Step.mainWaitOk s hmain hs1 hg2 h5 he⟩
      · exact leftS1 h hs1 (Or.inl hg2)
    · exact leftG2 h hg2 (Or.inl h5)
  | errchan =>
    obtain ⟨hs1, _, _, he⟩ := h.merr hmain
    by_cases hc : 0 < s.errChan
    · exact ⟨_, Step.mainErrchan s hmain hc⟩
    · have hc0 : s.errChan = 0 := by omega
      cases hf : s.feeder with
      | done =>
        rcases h.fdone hf with h1 | h1
        · omega
        · rw [hmain] at h1; cases h1
      | report => exact ⟨_, Step.feederReport s hf⟩
      | close => exact ⟨_, Step.feederClose s hf⟩
      | send k =>
        have hoc : s.oidClosed = true := h.s1ok (h.errS1 he hs1)
        rcases h.oid2 hoc with h1 | h1 <;> (rw [hf] at h1; cases h1)

def fW3 : Feeder → Nat
  | .send k => 6 * (k + 1) + 3 | .close => 2 | .report => 1 | .done => 0
def s1W3 : Copy → Nat
  | .read => 1 | .write => 6 | .done => 0

def mu (s : St) : Nat :=
  fW3 s.feeder + s1W3 s.s1 + 4 * s.a.n + Pipeline.g2W s.g2 + 2 * s.d.n + Pipeline.s5W s.s5 + Pipeline.mW s.main

theorem step_decreases {s s' : St} (st : Step s s') : mu s' < mu s := by
  cases st <;> simp_all [mu, fW3, s1W3, Pipeline.g2W, Pipeline.s5W, Pipeline.mW] <;> omega

theorem env_decreases {s s' : St} (st : Env s s') : mu s' < mu s := by
  cases st with
  | g2Die h =>
    have hpos : 0 < Pipeline.g2W s.g2 := by cases hg : s.g2 <;> simp_all [Pipeline.g2W]
    have e : Pipeline.g2W Copy.done = 0 := rfl
    simp only [mu, e]; omega

inductive Returns : St → Prop where
  | done {s : St} : s.main = .done → Returns s
  | more {s : St} : CanStep s → (∀ s', Step s s' ∨ Env s s' → Returns s') → Returns s

theorem returns_of_inv : ∀ (n : Nat) (s : St), mu s ≤ n → Inv s → Returns s := by
  intro n
  induction n with
  | zero =>
    intro s hn h
    by_cases hm : s.main = .done
    · exact .done hm
    · obtain ⟨s', st⟩ := progress h hm
      have := step_decreases st; omega
  | succ n ih =>
    intro s hn h
    by_cases hm : s.main = .done
    · exact .done hm
    · refine .more (progress h hm) ?_
      intro s' hs
      rcases hs with st | st
      · exact ih s' (by have := step_decreases st; omega) (inv_step h st)
      · exact ih s' (by have := env_decreases st; omega) (inv_env h st)

end GitSizer.Pipeline3
