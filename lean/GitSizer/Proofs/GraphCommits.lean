import GitSizer.Proofs.History
import GitSizer.Proofs.Depth
/-! The commit part of T1: after any run of the model that does not panic, every registered
    commit's memo is `clamp32` of its true ancestor depth (C03). `RegisterCommit` panics unless
    the parents were registered before, so "parents first" is enforced by the code itself. -/
namespace GitSizer.Graph
open GitSizer GitSizer.Spec GitSizer.Counts Gen

/-- invariant on the commit memo table -/
def CInv (r : Repo) (commits : Nat → Option CommitSize) : Prop :=
  ∀ c s, commits c = some s → r.isCommit c = true ∧ s.MaxAncestorDepth.toNat = clamp c32 (depthN r c)

theorem clamp_maxList (c : Nat) (l : List Nat) : clamp c (maxList l) = maxList (l.map (clamp c)) := by
  unfold maxList
  suffices ∀ a, clamp c (l.foldl max a) = (l.map (clamp c)).foldl max (clamp c a) by
    have := this 0; simpa [clamp] using this
  induction l with
  | nil => intro a; rfl
  | cons x xs ih => intro a; simp only [List.foldl_cons, List.map_cons]; rw [ih, clamp_max]

theorem foldl_max_start (l : List Nat) (a : Nat) : l.foldl max a = max a (l.foldl max 0) := by
  induction l generalizing a with
  | nil => simp
  | cons x xs ih =>
    simp only [List.foldl_cons]
    rw [ih (max a x), ih (max 0 x)]
    omega

/-- the parent loop of `RegisterCommit` -/
theorem go_spec (r : Repo) (st : GState) (hinv : CInv r st.commits) :
    ∀ (ps : List Nat) (s s' : CommitSize), registerCommit.go st ps s = .ok s' →
      s'.MaxAncestorDepth.toNat = max s.MaxAncestorDepth.toNat (maxList (ps.map (fun p => clamp c32 (depthN r p)))) ∧
      ∀ p ∈ ps, (st.commits p).isSome := by
  intro ps
  induction ps with
  | nil => intro s s' h; simp [registerCommit.go] at h; subst h; simp [maxList]
  | cons p ps ih =>
    intro s s' h
    simp only [registerCommit.go] at h
    cases hp : st.commits p with
    | none => simp [hp] at h
    | some sp =>
      simp only [hp] at h
      obtain ⟨h1, h2⟩ := ih _ _ h
      have hd := (hinv p sp hp).2
      refine ⟨?_, ?_⟩
      · rw [h1, addParent_spec, hd]
        simp only [List.map_cons, maxList, List.foldl_cons]
        rw [foldl_max_start _ (max 0 _)]
        omega
      · intro q hq
        rcases List.mem_cons.mp hq with rfl | hq
        · simp [hp]
        · exact h2 q hq

theorem upd_some {β : Type} (f : Nat → Option β) (k : Nat) (v : β) (x : Nat) (b : β)
    (h : Agg.upd f k (some v) x = some b) : (x = k ∧ b = v) ∨ (x ≠ k ∧ f x = some b) := by
  unfold Agg.upd at h
  split at h
  · next hx => left; exact ⟨hx, by simpa using h.symm⟩
  · next hx => right; exact ⟨hx, h⟩

theorem registerCommit_inv (r : Repo) (wf : CommitsWF r) (st st' : GState) (oid : Nat)
    (hinv : CInv r st.commits) (h : registerCommit r st oid = .ok st') : CInv r st'.commits := by
  unfold registerCommit at h
  cases ho : r.obj oid with
  | none => simp [ho] at h
  | some o =>
    cases o with
    | blob _ => simp [ho] at h
    | tree _ _ => simp [ho] at h
    | tag _ _ _ => simp [ho] at h
    | commit sz tree parents =>
      simp only [ho] at h
      split at h
      · simp at h
      · cases ht : st.trees.sizes tree with
        | none => simp [ht] at h
        | some treeSize =>
          simp only [ht] at h
          cases hg : registerCommit.go st parents (CommitSize.addTree {} treeSize) with
          | err c => simp [hg] at h
          | panic c => simp [hg] at h
          | ok s =>
            simp only [hg, Res.ok.injEq] at h
            subst h
            intro c s' hc
            simp only at hc
            rcases upd_some _ _ _ _ _ hc with ⟨rfl, rfl⟩ | ⟨_, hold⟩
            · have hisc : r.isCommit c = true := by simp [Repo.isCommit, ho]
              refine ⟨hisc, ?_⟩
              obtain ⟨hs, _⟩ := go_spec r st hinv parents _ _ hg
              simp only [increment32_spec, hs]
              have hpar : r.parents c = parents := by simp [Repo.parents, ho]
              rw [depthN_eq r wf, hisc, hpar]
              simp only [if_true]
              have h0 : (CommitSize.addTree {} treeSize).MaxAncestorDepth.toNat = 0 := by
                simp [CommitSize.addTree]
              rw [h0, Nat.zero_max]
              have : maxList (parents.map (fun p => clamp c32 (depthN r p))) = clamp c32 (maxList (parents.map (depthN r))) := by
                rw [clamp_maxList, List.map_map]; rfl
              rw [this]
              show sat c32 _ (1#32).toNat = _
              have h1 : (1#32).toNat = 1 := rfl
              rw [h1]; unfold sat clamp; omega
            · exact hinv c s' hold

/-- steps other than `RegisterCommit` leave the commit table alone -/
theorem step_commits (r : Repo) (wf : CommitsWF r) (st st' : GState) (op : Op)
    (hinv : CInv r st.commits) (h : step r st op = .ok st') : CInv r st'.commits := by
  cases op with
  | blob o => simp only [step, registerBlob, Res.ok.injEq] at h; subst h; exact hinv
  | tree o =>
    simp only [step, registerTree] at h
    split at h
    · simp at h
    · split at h
      · simp at h
      · simp only [Res.ok.injEq] at h; subst h; exact hinv
  | commit o => exact registerCommit_inv r wf st st' o hinv h
  | tag o =>
    simp only [step, registerTag] at h
    split at h
    · simp at h
    · simp only [Res.ok.injEq] at h; subst h; exact hinv
  | ref gs => simp only [step, registerReference, Res.ok.injEq] at h; subst h; exact hinv

theorem runOps_commits (r : Repo) (wf : CommitsWF r) : ∀ (ops : List Op) (st st' : GState),
    CInv r st.commits → runOps r ops st = .ok st' → CInv r st'.commits := by
  intro ops
  induction ops with
  | nil => intro st st' hinv h; simp [runOps] at h; subst h; exact hinv
  | cons op ops ih =>
    intro st st' hinv h
    simp only [runOps] at h
    cases hs : step r st op with
    | ok st1 => rw [hs] at h; exact ih st1 st' (step_commits r wf st st1 op hinv hs) h
    | err c => simp [hs] at h
    | panic c => simp [hs] at h

/-- **Commit depth theorem.** Whatever the schedule, if the run does not panic then every
    registered commit's memo is the clamp of the number of commits on its longest parent chain. -/
theorem commit_memo_is_depth (r : Repo) (wf : CommitsWF r) (ops : List Op) (st : GState)
    (h : runOps r ops {} = .ok st) (c : Nat) (s : CommitSize) (hc : st.commits c = some s) :
    s.MaxAncestorDepth.toNat = clamp c32 (depthN r c) :=
  (runOps_commits r wf ops {} st (by intro c s hc; cases hc) h c s hc).2

end GitSizer.Graph
