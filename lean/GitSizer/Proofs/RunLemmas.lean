import GitSizer.Proofs.Agg.Extra
import GitSizer.Proofs.Folds
import GitSizer.Proofs.GraphTags
/-! Lemmas for the whole-run theorem: the fuel handed to the aggregator always suffices; a tree all
    of whose subtrees (transitively) have been delivered is finalised; the parent loop of
    `RegisterCommit` succeeds when the parents are registered. -/
namespace GitSizer.Graph
open GitSizer GitSizer.Spec Gen

theorem sum_map_le_range (w : Nat → Nat) : ∀ (n : Nat) (ds : List Nat), ds.Nodup → (∀ t ∈ ds, t < n) →
    (ds.map w).sum ≤ ((List.range n).map w).sum := by
  intro n
  induction n with
  | zero =>
    intro ds _ hlt
    cases ds with
    | nil => simp
    | cons x xs => exact absurd (hlt x List.mem_cons_self) (Nat.not_lt_zero _)
  | succ n ih =>
    intro ds hnd hlt
    rw [List.range_succ, List.map_append, List.sum_append]
    by_cases hm : n ∈ ds
    · have hp := List.perm_cons_erase hm
      have hs : (ds.map w).sum = w n + ((ds.erase n).map w).sum := by
        rw [(hp.map w).sum_nat]; simp
      have hnd' : (ds.erase n).Nodup := hnd.erase n
      have hlt' : ∀ t ∈ ds.erase n, t < n := by
        intro t ht
        have hne : t ≠ n := by
          intro e; subst e
          exact (List.Nodup.mem_erase_iff hnd).mp ht |>.1 rfl
        have := hlt t (List.mem_of_mem_erase ht)
        omega
      have := ih (ds.erase n) hnd' hlt'
      simp only [List.map_cons, List.map_nil, List.sum_cons, List.sum_nil]
      omega
    · have hlt' : ∀ t ∈ ds, t < n := by
        intro t ht
        have := hlt t ht
        have hne : t ≠ n := fun e => hm (e ▸ ht)
        omega
      have := ih ds hnd hlt'
      omega

def weight (o : Obj) : Nat := match o with | .tree _ es => es.length | _ => 1

theorem fuelOf_eq (r : Repo) : fuelOf r = (r.map weight).sum + r.length + 1 := rfl

theorem sum_range_getD_aux (w : Obj → Nat) : ∀ (r pre : List Obj),
    ((List.range r.length).map (fun i => (((pre ++ r)[pre.length + i]?).map w).getD 0)).sum = (r.map w).sum := by
  intro r
  induction r with
  | nil => intro pre; rfl
  | cons x xs ih =>
    intro pre
    rw [List.length_cons, List.range_succ_eq_map, List.map_cons, List.sum_cons, List.map_cons, List.sum_cons, List.map_map]
    have h0 : ((pre ++ x :: xs)[pre.length + 0]?.map w).getD 0 = w x := by simp
    rw [h0]
    have := ih (pre ++ [x])
    have e : ((List.range xs.length).map ((fun i => (((pre ++ x :: xs)[pre.length + i]?).map w).getD 0) ∘ Nat.succ)) =
             ((List.range xs.length).map (fun i => ((((pre ++ [x]) ++ xs)[(pre ++ [x]).length + i]?).map w).getD 0)) := by
      apply List.map_congr_left
      intro i _
      simp only [Function.comp, List.length_append, List.length_singleton, List.append_assoc, List.singleton_append]
      congr 3; omega
    rw [e, this]

theorem sum_range_getD (r : Repo) : ((List.range r.length).map (fun i => (r[i]?.map weight).getD 0)).sum = (r.map weight).sum := by
  have := sum_range_getD_aux weight r []
  simpa using this

theorem treeKids_length_le (r : Repo) (t : Nat) : (treeKids r t).length ≤ (r[t]?.map weight).getD 0 := by
  unfold treeKids Repo.entries Repo.obj
  cases h : r[t]? with
  | none => simp
  | some o =>
    cases o with
    | tree s es => simp only [Option.map_some, Option.getD_some, weight]; exact List.length_filterMap_le _ _
    | blob _ => simp [weight]
    | commit _ _ _ => simp [weight]
    | tag _ _ _ => simp [weight]

/-- the fuel `fuelOf r` covers the potential of any duplicate-free delivery of trees of `r` -/
theorem K_trees_le_fuel (r : Repo) (ds : List Nat) (hnd : ds.Nodup) (hlt : ∀ t ∈ ds, t < r.length) :
    Agg.K (PB r) ds ≤ fuelOf r := by
  unfold Agg.K
  have h1 : (ds.map fun q => ((PB r).kids q).length).sum ≤ (ds.map fun q => (r[q]?.map weight).getD 0).sum := by
    clear hnd hlt
    induction ds with
    | nil => simp
    | cons x xs ih =>
      simp only [List.map_cons, List.sum_cons]
      have := treeKids_length_le r x
      show (treeKids r x).length + _ ≤ _
      omega
  have h2 := sum_map_le_range (fun q => (r[q]?.map weight).getD 0) r.length ds hnd hlt
  rw [sum_range_getD] at h2
  rw [fuelOf_eq]; omega

theorem K_tags_le_fuel (r : Repo) (ds : List Nat) (hnd : ds.Nodup) (hlt : ∀ t ∈ ds, t < r.length) :
    Agg.K (PT r) ds ≤ fuelOf r := by
  unfold Agg.K
  have h1 : (ds.map fun q => ((PT r).kids q).length).sum ≤ (ds.map fun _ => 1).sum := by
    clear hnd hlt
    induction ds with
    | nil => simp
    | cons x xs ih =>
      simp only [List.map_cons, List.sum_cons]
      have : ((PT r).kids x).length ≤ 1 := by
        show (tagKids r x).length ≤ 1
        rcases tagKids_cases r x with ⟨o, _, hk⟩ | ⟨_, hk⟩
        · rw [hk]; exact Nat.le_refl 1
        · rw [hk]; exact Nat.zero_le 1
      omega
  have h2 := sum_map_le_range (fun _ => 1) r.length ds hnd hlt
  have h3 : ∀ n, ((List.range n).map fun _ => 1).sum = n := by
    intro n; induction n with
    | zero => rfl
    | succ n ih => rw [List.range_succ, List.map_append, List.sum_append, ih]; rfl
  have h3 := h3 r.length
  rw [fuelOf_eq]; omega

/-- subtrees reachable through tree entries -/
inductive TreeReach (r : Repo) : Nat → Nat → Prop where
  | refl (t : Nat) : TreeReach r t t
  | step {t u : Nat} (e : Nat × Nat) (he : e ∈ treeKids r t) (h : TreeReach r e.2 u) : TreeReach r t u

/-- a delivered tree whose transitive subtrees have all been delivered is finalised -/
theorem finalized_of_closed {α : Type} {P : Agg.Params α} (wf : Agg.WFk P) {st : Agg.St α} {D : List Nat}
    (inv : Agg.InvX P none st D [])
    (reach : Nat → Nat → Prop) (hrefl : ∀ t, reach t t)
    (hstep : ∀ t u, ∀ e ∈ P.kids t, reach e.2 u → reach t u) :
    ∀ t, (∀ u, reach t u → u ∈ D) → Agg.isFin st t = true := by
  intro t
  induction t using Nat.strongRecOn with
  | _ t ih =>
    intro hall
    cases hf : Agg.isFin st t with
    | true => rfl
    | false =>
      exfalso
      have hs : st.sizes t = none := (Agg.isFin_false_iff st t).mp hf
      obtain ⟨rec, _, hp, hpos, _⟩ := inv.R t (hall t (hrefl t)) (by simp) hs
      have hnil : Agg.nonfin P st t = [] := by
        unfold Agg.nonfin
        apply List.filter_eq_nil_iff.mpr
        intro e he
        have := ih e.2 (wf t e he) (fun u hu => hall u (hstep t u e he hu))
        simp [this]
      rw [hnil] at hp; simp [Agg.Wp] at hp; omega

theorem go_ok (st : GState) : ∀ (ps : List Nat) (s : CommitSize), (∀ p ∈ ps, (st.commits p).isSome) →
    ∃ s', registerCommit.go st ps s = .ok s' := by
  intro ps
  induction ps with
  | nil => intro s _; exact ⟨s, rfl⟩
  | cons p ps ih =>
    intro s h
    simp only [registerCommit.go]
    cases hp : st.commits p with
    | none => have := h p List.mem_cons_self; rw [hp] at this; cases this
    | some sp => exact ih _ (fun q hq => h q (List.mem_cons_of_mem _ hq))

end GitSizer.Graph
