import GitSizer.Proofs.Frame
import GitSizer.Proofs.GraphCommits
/-! Closed forms of the saturating / max folds performed by the `record*` methods over any list of
    recorded objects, and their invariance under permutation. -/
namespace GitSizer.Graph
open GitSizer GitSizer.Spec Gen

theorem foldl_sat_map {α : Type} (c : Nat) (f : α → Nat) (l : List α) (a : Nat) :
    l.foldl (fun acc x => sat c acc (f x)) (clamp c a) = clamp c (a + (l.map f).sum) := by
  induction l generalizing a with
  | nil => simp
  | cons x xs ih =>
    simp only [List.foldl_cons, List.map_cons, List.sum_cons]
    have : sat c (clamp c a) (f x) = clamp c (a + f x) := by unfold sat clamp; omega
    rw [this, ih]; congr 1; omega

theorem foldl_max_map {α : Type} (g : α → Nat) (l : List α) (a : Nat) :
    l.foldl (fun acc x => max acc (g x)) a = max a (maxList (l.map g)) := by
  induction l generalizing a with
  | nil => simp [maxList]
  | cons x xs ih =>
    simp only [List.foldl_cons, List.map_cons]
    rw [ih]
    unfold maxList
    simp only [List.foldl_cons]
    rw [foldl_max_start (xs.map g) (max 0 (g x))]
    omega

theorem maxList_perm {l1 l2 : List Nat} (p : l1.Perm l2) : maxList l1 = maxList l2 := by
  apply Nat.le_antisymm
  · exact maxList_le (fun x hx => le_maxList (p.mem_iff.mp hx))
  · exact maxList_le (fun x hx => le_maxList (p.mem_iff.mpr hx))

theorem count_fold (n : Nat) : (List.replicate n ()).foldl (fun acc _ => sat c32 acc 1) 0 = clamp c32 n := by
  have := foldl_sat_map c32 (fun (_ : Unit) => 1) (List.replicate n ()) 0
  simp only [clamp, Nat.zero_min, Nat.zero_add] at this
  rw [this]; simp [clamp]

/-- `entryCount.Increment(1)` once per entry -/
theorem entryCount32_toNat (n : Nat) : (entryCount32 n).toNat = clamp c32 n := by
  unfold entryCount32
  have key : ∀ (l : List Unit) (b : BitVec 32),
      (l.foldl (fun c _ => Count32.Increment c 1#32) b).toNat = l.foldl (fun acc _ => sat c32 acc 1) b.toNat := by
    intro l
    induction l with
    | nil => intro b; rfl
    | cons x xs ih =>
      intro b
      simp only [List.foldl_cons]
      rw [ih, Counts.increment32_spec]; rfl
  rw [key]
  exact count_fold n

theorem objSize32_toNat (r : Repo) (i : Nat) (s : Nat) (hs : s < 2 ^ 64)
    (h : match r.obj i with
         | some (.blob x) | some (.tree x _) | some (.commit x _ _) | some (.tag x _ _) => x = s
         | none => False) :
    (objSize32 r i).toNat = clamp c32 s := by
  unfold objSize32
  cases ho : r.obj i with
  | none => rw [ho] at h; exact absurd h id
  | some o =>
    rw [ho] at h
    cases o <;> simp only at h ⊢ <;> subst h <;> rw [Counts.newCount32_spec] <;>
      simp [BitVec.toNat_ofNat, Nat.mod_eq_of_lt hs]

end GitSizer.Graph
