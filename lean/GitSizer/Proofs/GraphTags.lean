import GitSizer.Proofs.GraphTrees
import GitSizer.Proofs.Depth
/-! The tag part of T1: annotated tags use the same listener/pending aggregator (at most one
    dependency: the referent, if it is itself a tag). For ANY enumeration order of the tags the memo
    of every tag is `clamp32` of the number of tag objects on its tag-to-tag chain (C03). -/
namespace GitSizer.Graph
open GitSizer GitSizer.Spec GitSizer.Counts Gen

theorem tag_toNat_inj {a b : TagSize} (h : a.TagDepth.toNat = b.TagDepth.toNat) : a = b := by
  cases a; cases b; simp only [TagSize.mk.injEq]; exact BitVec.eq_of_toNat_eq h

theorem lawsT (r : Repo) : Agg.Laws (PT r) := by
  refine ⟨?_, ?_, ?_⟩
  · intro a b; apply tag_toNat_inj
    show (TG.op a b).TagDepth.toNat = (TG.op b a).TagDepth.toNat
    simp only [TG.op, increment32_spec, sat_comm]
  · intro a b c; apply tag_toNat_inj
    show (TG.op (TG.op a b) c).TagDepth.toNat = (TG.op a (TG.op b c)).TagDepth.toNat
    simp only [TG.op, increment32_spec, sat_assoc]
  · intro a; apply tag_toNat_inj
    show (TG.op TG.unit a).TagDepth.toNat = a.TagDepth.toNat
    simp only [TG.op, TG.unit, increment32_spec]
    have := a.TagDepth.isLt
    simp [sat, c32]; omega

/-- tags point to smaller indices -/
def TagsWF (r : Repo) : Prop := ∀ t e, e ∈ tagKids r t → e.2 < t

theorem tagKids_cases (r : Repo) (t : Nat) :
    (∃ o, r.tagRef t = some (o, true) ∧ tagKids r t = [(0, o)]) ∨
    ((∀ o, r.tagRef t ≠ some (o, true)) ∧ tagKids r t = []) := by
  unfold tagKids Repo.tagRef
  cases h : r.obj t with
  | none => right; simp
  | some o =>
    cases o with
    | blob _ => right; simp
    | tree _ _ => right; simp
    | commit _ _ _ => right; simp
    | tag s ref isTag =>
      cases isTag with
      | true => left; exact ⟨ref, rfl, rfl⟩
      | false => right; simp

theorem tagDepthF_stable (r : Repo) (wf : TagsWF r) : ∀ (t f : Nat), t < f → tagDepthF r f t = tagDepthN r t := by
  intro t
  induction t using Nat.strongRecOn with
  | _ t ih =>
    intro f hf
    cases f with
    | zero => omega
    | succ f =>
      unfold tagDepthN
      simp only [tagDepthF]
      rcases tagKids_cases r t with ⟨o, ho, hk⟩ | ⟨hn, _⟩
      · have hlt : o < t := wf t (0, o) (by rw [hk]; simp)
        simp only [ho]
        rw [ih o hlt f (by omega), ih o hlt t hlt]
      · cases hr : r.tagRef t with
        | none => rfl
        | some p =>
          obtain ⟨o, b⟩ := p
          cases b with
          | true => exact absurd hr (hn o)
          | false => rfl

/-- the aggregator's expansion of a tag is the clamp of its true tag depth -/
theorem tag_expand_clamp (r : Repo) (wf : TagsWF r)
    (kinds : ∀ t o, r.tagRef t = some (o, true) → (r.tagRef o).isSome) :
    ∀ t, (r.tagRef t).isSome → (Agg.expand (PT r) t).TagDepth.toNat = clamp c32 (tagDepthN r t) := by
  intro t
  induction t using Nat.strongRecOn with
  | _ t ih =>
    intro isTag
    rw [Agg.expand_eq (P := PT r) wf t]
    have h1 : (1#32).toNat = 1 := rfl
    rcases tagKids_cases r t with ⟨o, ho, hk⟩ | ⟨hn, hk⟩
    · have hlt : o < t := wf t (0, o) (by rw [hk]; simp)
      have hd : tagDepthN r t = 1 + tagDepthN r o := by
        conv => lhs; unfold tagDepthN
        simp only [tagDepthF, ho]
        rw [tagDepthF_stable r wf o t hlt]
      show (Agg.msum (PT r) ((PT r).base t :: ((PT r).kids t).map _)).TagDepth.toNat = _
      have hkk : (PT r).kids t = [(0, o)] := hk
      rw [hkk]
      simp only [List.map_cons, List.map_nil, Agg.msum_cons, Agg.msum_nil]
      show (TG.op ⟨1#32⟩ (TG.op (Agg.expand (PT r) o) TG.unit)).TagDepth.toNat = _
      simp only [TG.op, TG.unit, increment32_spec, ih o hlt (kinds t o ho), hd, h1]
      unfold sat clamp c32; simp; omega
    · have hd : tagDepthN r t = 1 := by
        unfold tagDepthN
        simp only [tagDepthF]
        cases hr : r.tagRef t with
        | none => rw [hr] at isTag; cases isTag
        | some p =>
          obtain ⟨o, b⟩ := p
          cases b with
          | true => exact absurd hr (hn o)
          | false => rfl
      have hkk : (PT r).kids t = [] := hk
      rw [hkk]
      simp only [List.map_nil, Agg.msum_cons, Agg.msum_nil]
      show (TG.op ⟨1#32⟩ TG.unit).TagDepth.toNat = _
      simp only [TG.op, TG.unit, increment32_spec, hd, h1]
      unfold sat clamp c32; simp

/-- **Tag memo theorem.** For ANY duplicate-free enumeration order `ds` of a set of tags closed
    under tag → tag edges (referent tags before or after the tags pointing at them), every tag's
    memo is `clamp32` of the number of annotated tags on its chain; no record remains. -/
theorem tag_memo_is_depth (r : Repo) (wf : TagsWF r)
    (kinds : ∀ t o, r.tagRef t = some (o, true) → (r.tagRef o).isSome)
    (ds : List Nat) (hnd : ds.Nodup) (areTags : ∀ t ∈ ds, (r.tagRef t).isSome) (closed : ∀ t ∈ ds, ∀ e ∈ tagKids r t, e.2 ∈ ds)
    (fuel : Nat) (hfuel : Agg.K (PT r) ds ≤ fuel) :
    (∀ t ∈ ds, ∃ s, (Agg.run (PT r) fuel ds Agg.init).sizes t = some s ∧ s.TagDepth.toNat = clamp c32 (tagDepthN r t)) ∧
    (∀ t, (Agg.run (PT r) fuel ds Agg.init).recs t = none) ∧
    (Agg.run (PT r) fuel ds Agg.init).fins.Perm ds := by
  obtain ⟨h1, _, h3, h4⟩ := Agg.agg_correct (lawsT r) (show Agg.WFk (PT r) from wf) ds hnd closed fuel hfuel
  exact ⟨fun t ht => ⟨_, h1 t ht, tag_expand_clamp r wf kinds t (areTags t ht)⟩, h3, h4⟩

end GitSizer.Graph
