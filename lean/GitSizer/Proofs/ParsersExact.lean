import GitSizer.Proofs.Parsers
import GitSizer.Spec.ObjGrammar
/-! C16, exactness half for commits and tags: on every well-formed object the parsers return exactly
    the tree and the parents (the tagged object and its type), whatever the other header lines,
    continuation lines and the message contain. -/
namespace GitSizer.Parsers
open GitSizer GitSizer.Spec

/-! ### hex -/

theorem hexNibble_hexDigit_fin : ∀ n : Fin 16, Go.hexNibble (hexDigit n.val) = some n.val := by decide
theorem hexDigit_ne_fin : ∀ n : Fin 16, hexDigit n.val ≠ 32 ∧ hexDigit n.val ≠ 10 := by decide

theorem hexDecode_hexEncode : ∀ b : Bytes, Go.hexDecode (hexEncode b) = some b := by
  intro b
  induction b with
  | nil => rfl
  | cons x xs ih =>
    have hx : x.toNat < 256 := x.toNat_lt
    have h1 := hexNibble_hexDigit_fin ⟨x.toNat / 16, by omega⟩
    have h2 := hexNibble_hexDigit_fin ⟨x.toNat % 16, by omega⟩
    simp only at h1 h2
    simp only [hexEncode, Go.hexDecode, h1, h2, ih, bind, Option.bind, pure]
    have : 16 * (x.toNat / 16) + x.toNat % 16 = x.toNat := Nat.div_add_mod _ _
    rw [this]; simp

theorem hexEncode_length (b : Bytes) : (hexEncode b).length = 2 * b.length := by
  induction b with
  | nil => rfl
  | cons x xs ih => simp [hexEncode, ih]; omega

theorem newOID_hexEncode (b : Bytes) (h : b.length = 20) : Go.newOID (hexEncode b) = some b := by
  unfold Go.newOID; rw [hexDecode_hexEncode]; simp [h]

theorem hexEncode_clean (b : Bytes) : (32 : UInt8) ∉ hexEncode b ∧ (10 : UInt8) ∉ hexEncode b := by
  induction b with
  | nil => simp [hexEncode]
  | cons x xs ih =>
    have hx : x.toNat < 256 := x.toNat_lt
    have h1 := hexDigit_ne_fin ⟨x.toNat / 16, by omega⟩
    have h2 := hexDigit_ne_fin ⟨x.toNat % 16, by omega⟩
    simp only at h1 h2
    simp only [hexEncode, List.mem_cons, not_or]
    exact ⟨⟨fun e => h1.1 e.symm, fun e => h2.1 e.symm, ih.1⟩, ⟨fun e => h1.2 e.symm, fun e => h2.2 e.symm, ih.2⟩⟩

/-! ### one line -/

theorem nextHeader_line (l : Line) (rest : Bytes) (h32 : (32 : UInt8) ∉ l.pre) (h10 : (10 : UInt8) ∉ l.post) :
    nextHeader (l.ser ++ rest) = .ok (l.pre, l.post, rest) := by
  rw [nextHeader_eq]
  have e : l.ser ++ rest = l.pre ++ 32 :: (l.post ++ 10 :: rest) := by simp [Line.ser]
  rw [e]
  have hne : (l.pre ++ 32 :: (l.post ++ 10 :: rest)).isEmpty = false := by
    cases l.pre <;> simp
  rw [hne]
  simp only [Bool.false_eq_true, if_false]
  rw [Bytes.indexOf_append_not_mem _ _ h32]
  simp only
  have hd : (l.pre ++ 32 :: (l.post ++ 10 :: rest)).drop (l.pre.length + 1) = l.post ++ 10 :: rest := by
    rw [show l.pre ++ 32 :: (l.post ++ 10 :: rest) = (l.pre ++ [32]) ++ (l.post ++ 10 :: rest) by simp]
    exact List.drop_left' (by simp)
  rw [hd, Bytes.indexOf_append_not_mem _ _ h10]
  simp only
  have h1 : (l.pre ++ 32 :: (l.post ++ 10 :: rest)).take l.pre.length = l.pre := List.take_left' rfl
  have h2 : (l.post ++ 10 :: rest).take l.post.length = l.post := List.take_left' rfl
  have h3 : (l.post ++ 10 :: rest).drop (l.post.length + 1) = rest := by
    rw [show l.post ++ 10 :: rest = (l.post ++ [10]) ++ rest by simp]
    exact List.drop_left' (by simp)
  rw [h1, h2, h3]

theorem serLines_cons (l : Line) (ls : List Line) : serLines (l :: ls) = l.ser ++ serLines ls := by
  simp [serLines]

theorem serLines_append (a b : List Line) : serLines (a ++ b) = serLines a ++ serLines b := by
  simp [serLines]

theorem ser_length (l : Line) : 2 ≤ l.ser.length := by simp [Line.ser]; omega

theorem isEmpty_ser_append (l : Line) (r : Bytes) : (l.ser ++ r).isEmpty = false := by
  have := ser_length l
  cases h : l.ser ++ r with
  | nil => have h' := congrArg List.length h; simp only [List.length_append, List.length_nil] at h'; omega
  | cons _ _ => rfl

/-- one iteration of the `ParseCommit` loop on a well-formed line -/
theorem commitStream_line (f : Nat) (l : Line) (rest : Bytes) (done : Bool) (ps : List Bytes) (t : Option Bytes)
    (h32 : (32 : UInt8) ∉ l.pre) (h10 : (10 : UInt8) ∉ l.post) :
    commitStream (f + 1) (l.ser ++ rest) done ps t =
      if done then commitStream f rest true ps t
      else if l.pre = kParent then
        (match Go.newOID l.post with
         | none => .err "bad-parent"
         | some o => commitStream f rest false (o :: ps) t)
      else if l.pre = kTree then
        (match t with
         | some _ => .err "multiple-trees"
         | none =>
           match Go.newOID l.post with
           | none => .err "bad-tree"
           | some o => commitStream f rest false ps (some o))
      else commitStream f rest true ps t := by
  conv => lhs; unfold commitStream
  rw [isEmpty_ser_append, nextHeader_line l rest h32 h10]
  simp only [Bool.false_eq_true, if_false]
  rfl

theorem tagStream_line (f : Nat) (l : Line) (rest : Bytes) (done : Bool) (o t : Option Bytes)
    (h32 : (32 : UInt8) ∉ l.pre) (h10 : (10 : UInt8) ∉ l.post) :
    tagStream (f + 1) (l.ser ++ rest) done o t =
      if done then tagStream f rest true o t
      else if l.pre = kObject then
        (match o with
         | some _ => .err "multiple-objects"
         | none =>
           match Go.newOID l.post with
           | none => .err "bad-object"
           | some oid => tagStream f rest false (some oid) t)
      else if l.pre = kType then
        (match t with
         | some _ => .err "multiple-types"
         | none => tagStream f rest false o (some l.post))
      else tagStream f rest true o t := by
  conv => lhs; unfold tagStream
  rw [isEmpty_ser_append, nextHeader_line l rest h32 h10]
  simp only [Bool.false_eq_true, if_false]
  rfl

/-! ### streams -/

/-- once `done`, the rest of a well-formed block is skipped -/
theorem commitStream_done : ∀ (ls : List Line) (fuel : Nat) (ps : List Bytes) (t : Option Bytes),
    (∀ l ∈ ls, l.OK) → commitStream fuel (serLines ls) true ps t = .ok (ps.reverse, t) := by
  intro ls
  induction ls with
  | nil => intro fuel ps t _; cases fuel <;> simp [commitStream, serLines]
  | cons l ls ih =>
    intro fuel ps t hok
    cases fuel with
    | zero => rfl
    | succ f =>
      have hl := hok l (by simp)
      rw [serLines_cons, commitStream_line f l _ true ps t hl.1 hl.2.2]
      simp only [if_true]
      exact ih f ps t (fun x hx => hok x (by simp [hx]))

theorem tagStream_done : ∀ (ls : List Line) (fuel : Nat) (o t : Option Bytes),
    (∀ l ∈ ls, l.OK) → tagStream fuel (serLines ls) true o t = .ok (o, t) := by
  intro ls
  induction ls with
  | nil => intro fuel o t _; cases fuel <;> simp [tagStream, serLines]
  | cons l ls ih =>
    intro fuel o t hok
    cases fuel with
    | zero => rfl
    | succ f =>
      have hl := hok l (by simp)
      rw [serLines_cons, tagStream_line f l _ true o t hl.1 hl.2.2]
      simp only [if_true]
      exact ih f o t (fun x hx => hok x (by simp [hx]))

/-! ### the leading block -/

def pline (p : Bytes) : Line := ⟨kParent, hexEncode p⟩

theorem kParent_clean : (32 : UInt8) ∉ kParent ∧ (10 : UInt8) ∉ kParent := by decide
theorem kTree_clean : (32 : UInt8) ∉ kTree ∧ (10 : UInt8) ∉ kTree := by decide
theorem kObject_clean : (32 : UInt8) ∉ kObject ∧ (10 : UInt8) ∉ kObject := by decide
theorem kType_clean : (32 : UInt8) ∉ kType ∧ (10 : UInt8) ∉ kType := by decide

theorem commitStream_parents : ∀ (parents : List Bytes) (fuel : Nat) (ps : List Bytes) (t : Option Bytes) (tail : Bytes),
    (∀ p ∈ parents, p.length = 20) → parents.length ≤ fuel →
    commitStream fuel (serLines (parents.map pline) ++ tail) false ps t =
      commitStream (fuel - parents.length) tail false (parents.reverse ++ ps) t := by
  intro parents
  induction parents with
  | nil => intro fuel ps t tail _ _; simp [serLines]
  | cons p rest ih =>
    intro fuel ps t tail h20 hf
    cases fuel with
    | zero => simp at hf
    | succ f =>
      simp only [List.map_cons, serLines_cons, List.append_assoc]
      rw [commitStream_line f (pline p) _ false ps t kParent_clean.1 (hexEncode_clean p).2]
      simp only [Bool.false_eq_true, if_false, pline, if_true, newOID_hexEncode p (h20 p (by simp))]
      rw [ih f (p :: ps) t tail (fun x hx => h20 x (by simp [hx])) (by simpa using hf)]
      simp [List.reverse_cons, List.append_assoc]

theorem commitStream_lines (c : CommitObj) (ok : c.OK) (fuel : Nat) (hf : c.lines.length ≤ fuel) :
    commitStream fuel (serLines c.lines) false [] none = .ok (c.parents, some c.tree) := by
  unfold CommitObj.lines at hf ⊢
  simp only [List.length_cons, List.length_append, List.length_map] at hf
  cases fuel with
  | zero => omega
  | succ f =>
    rw [serLines_cons, commitStream_line f _ _ false [] none kTree_clean.1 (hexEncode_clean c.tree).2]
    have hne : ¬ (kTree = kParent) := by decide
    simp only [Bool.false_eq_true, if_false, hne, if_true, newOID_hexEncode c.tree ok.tree]
    rw [serLines_append, show (fun p => ({ pre := kParent, post := hexEncode p } : Line)) = pline from rfl,
      commitStream_parents c.parents f [] (some c.tree) _ ok.parents (by omega)]
    simp only [List.append_nil]
    cases hx : c.extra with
    | nil =>
      cases f - c.parents.length <;> simp [commitStream, serLines]
    | cons l ls =>
      rw [hx] at hf
      have hpos : 1 ≤ f - c.parents.length := by simp at hf; omega
      obtain ⟨g, hg⟩ : ∃ g, f - c.parents.length = g + 1 := ⟨f - c.parents.length - 1, by omega⟩
      have hl : l.OK := ok.lines l (by rw [hx]; simp)
      have hfirst := ok.first l (by rw [hx]; rfl)
      rw [hg, serLines_cons, commitStream_line g l _ false _ _ hl.1 hl.2.2]
      simp only [Bool.false_eq_true, if_false, hfirst.1, hfirst.2]
      rw [commitStream_done ls g _ _ (fun x hx' => ok.lines x (by rw [hx]; simp [hx']))]
      simp

/-! ### the header block -/

theorem index2_cons_ne (c y : UInt8) (ys : Bytes) (hc : c ≠ 10) :
    Bytes.index2 10 10 (c :: y :: ys) = (Bytes.index2 10 10 (y :: ys)).map (· + 1) := by
  conv => lhs; unfold Bytes.index2
  simp [hc]

theorem index2_append_clean : ∀ (x rest : Bytes), (10 : UInt8) ∉ x →
    Bytes.index2 10 10 (x ++ rest) = (Bytes.index2 10 10 rest).map (· + x.length) := by
  intro x
  induction x with
  | nil => intro rest _; cases h : Bytes.index2 10 10 rest <;> simp [h]
  | cons c xs ih =>
    intro rest hc
    have hc10 : c ≠ 10 := fun e => hc (by simp [e])
    have hxs : (10 : UInt8) ∉ xs := fun h => hc (by simp [h])
    have := ih rest hxs
    cases hr : xs ++ rest with
    | nil =>
      have h1 : xs = [] := (List.append_eq_nil_iff.mp hr).1
      have h2 : rest = [] := (List.append_eq_nil_iff.mp hr).2
      subst h1; subst h2; simp [Bytes.index2]
    | cons y ys =>
      rw [List.cons_append, hr, index2_cons_ne c y ys hc10, ← hr, this]
      cases Bytes.index2 10 10 rest with
      | none => rfl
      | some v => simp only [Option.map_some, List.length_cons, Option.some.injEq]; omega

theorem index2_lf_clean (c : UInt8) (r : Bytes) (hc : c ≠ 10) :
    Bytes.index2 10 10 (10 :: c :: r) = (Bytes.index2 10 10 (c :: r)).map (· + 1) := by
  conv => lhs; unfold Bytes.index2
  simp [hc]

def lineBody (l : Line) : Bytes := l.pre ++ 32 :: l.post

theorem ser_body (l : Line) (r : Bytes) : l.ser ++ r = lineBody l ++ 10 :: r := by simp [Line.ser, lineBody]
theorem body_clean (l : Line) (h : l.OK) : (10 : UInt8) ∉ lineBody l := by
  simp only [lineBody, List.mem_append, List.mem_cons, not_or]
  exact ⟨h.2.1, by decide, h.2.2⟩
theorem body_length (l : Line) : l.ser.length = (lineBody l).length + 1 := by simp [Line.ser, lineBody]; omega
theorem body_head (l : Line) (h : l.OK) (r : Bytes) : ∃ c t, lineBody l ++ r = c :: t ∧ c ≠ 10 := by
  unfold lineBody
  cases hp : l.pre with
  | nil => exact ⟨32, l.post ++ r, by simp, by decide⟩
  | cons a as => exact ⟨a, as ++ 32 :: l.post ++ r, by simp, fun e => h.2.1 (by rw [hp, e]; simp)⟩

/-- the first blank line of `lines ++ tail` is the one that starts `tail` (if any) -/
theorem index2_lines : ∀ (ls : List Line), ls ≠ [] → (∀ l ∈ ls, l.OK) → ∀ (m : Option Bytes),
    Bytes.index2 10 10 (serLines ls ++ msgPart m) =
      (match m with | none => none | some _ => some ((serLines ls).length - 1)) := by
  intro ls
  induction ls with
  | nil => intro h; exact absurd rfl h
  | cons l ls ih =>
    intro _ hok m
    have hl := hok l (by simp)
    rw [serLines_cons, List.append_assoc, ser_body, index2_append_clean _ _ (body_clean l hl)]
    cases ls with
    | nil =>
      cases m with
      | none => simp [serLines, Bytes.index2, msgPart]
      | some m =>
        simp only [serLines, List.flatMap_nil, List.nil_append, List.append_nil, msgPart]
        have : Bytes.index2 10 10 (10 :: 10 :: m) = some 0 := by simp [Bytes.index2]
        rw [this, body_length]; simp
    | cons l2 ls2 =>
      have ih' := ih (by simp) (fun x hx => hok x (by simp [hx])) m
      have hl2 := hok l2 (by simp)
      obtain ⟨c, t, hct, hc⟩ := body_head l2 hl2 (10 :: (serLines ls2 ++ msgPart m))
      have e : serLines (l2 :: ls2) ++ msgPart m = c :: t := by
        rw [serLines_cons, List.append_assoc, ser_body]; exact hct
      rw [e, index2_lf_clean c t hc, ← e, ih']
      have h2 := ser_length l2
      cases m with
      | none => rfl
      | some m =>
        simp only [Option.map_some, Option.some.injEq, serLines_cons, List.length_append, body_length]
        omega

theorem headerBlock_lines (ls : List Line) (hne : ls ≠ []) (hok : ∀ l ∈ ls, l.OK) (m : Option Bytes) :
    headerBlock (serLines ls ++ msgPart m) = .ok (serLines ls) := by
  unfold headerBlock
  rw [index2_lines ls hne hok m]
  obtain ⟨l, ls', rfl⟩ := List.exists_cons_of_ne_nil hne
  have hlen : 2 ≤ (serLines (l :: ls')).length := by
    rw [serLines_cons, List.length_append]; have := ser_length l; omega
  cases m with
  | none =>
    simp only [msgPart, List.append_nil]
    have hne' : (serLines (l :: ls')).isEmpty = false := by
      cases h : serLines (l :: ls') with
      | nil => rw [h] at hlen; simp at hlen
      | cons _ _ => rfl
    rw [hne']
    simp only [Bool.false_eq_true, if_false]
    -- the last byte is LF
    have hlast : Go.index (serLines (l :: ls')) ((serLines (l :: ls')).length - 1) = .ok 10 := by
      have : ∃ pre, serLines (l :: ls') = pre ++ [10] := by
        clear hlen hne' hne
        induction ls' generalizing l with
        | nil => exact ⟨l.pre ++ 32 :: l.post, by simp [serLines, Line.ser]⟩
        | cons l2 ls2 ih =>
          obtain ⟨pre, hp⟩ := ih l2 (fun x hx => hok x (by simp [hx]))
          exact ⟨l.ser ++ pre, by rw [serLines_cons, hp, List.append_assoc]⟩
      obtain ⟨pre, hp⟩ := this
      rw [hp]; simp [Go.index]
    rw [hlast]; simp [bind, Res.bind]
  | some m =>
    simp only [msgPart]
    rw [show (serLines (l :: ls')).length - 1 + 1 = (serLines (l :: ls')).length by omega,
      sliceTo_ok (by simp), List.take_left' rfl]

/-- **commits parse exactly.** For every well-formed commit object — any ids, any number of parents,
    any further header lines in any order (including extra headers spelt `parent …` or `tree …`,
    multi-line signatures and merge tags whose continuation lines imitate headers), with or without
    a message of arbitrary bytes — `ParseCommit` returns exactly the tree and the parents, in
    order, and the object's length. -/
theorem parseCommit_serCommit (c : CommitObj) (ok : c.OK) :
    parseCommit (serCommit c) = .ok ⟨clamp c32 (serCommit c).length, c.parents, c.tree⟩ := by
  have hlines : ∀ l ∈ c.lines, l.OK := by
    intro l hl
    simp only [CommitObj.lines, List.mem_cons, List.mem_append, List.mem_map] at hl
    rcases hl with rfl | ⟨p, _, rfl⟩ | h
    · exact ⟨kTree_clean.1, kTree_clean.2, (hexEncode_clean _).2⟩
    · exact ⟨kParent_clean.1, kParent_clean.2, (hexEncode_clean _).2⟩
    · exact ok.lines l h
  unfold parseCommit
  have hb := headerBlock_lines c.lines (by simp [CommitObj.lines]) hlines c.message
  unfold serCommit
  rw [hb]
  simp only [bind, Res.bind]
  have hlen : c.lines.length ≤ (serLines c.lines).length + 1 := by
    have : ∀ ls : List Line, ls.length ≤ (serLines ls).length := by
      intro ls
      induction ls with
      | nil => simp
      | cons l ls ih => rw [serLines_cons, List.length_append, List.length_cons]; have := ser_length l; omega
    have := this c.lines; omega
  rw [commitStream_lines c ok _ hlen]

theorem tagStream_lines (t : TagObj) (ok : t.OK) (fuel : Nat) (hf : t.lines.length ≤ fuel) :
    tagStream fuel (serLines t.lines) false none none = .ok (some t.object, some t.type) := by
  unfold TagObj.lines at hf ⊢
  simp only [List.length_cons] at hf
  obtain ⟨f, rfl⟩ : ∃ f, fuel = f + 2 := ⟨fuel - 2, by omega⟩
  rw [serLines_cons, tagStream_line (f + 1) _ _ false none none kObject_clean.1 (hexEncode_clean t.object).2]
  simp only [Bool.false_eq_true, if_false, if_true, newOID_hexEncode t.object ok.object]
  rw [serLines_cons, tagStream_line f _ _ false _ none kType_clean.1 ok.type]
  have hne : ¬ (kType = kObject) := by decide
  simp only [Bool.false_eq_true, if_false, hne, if_true]
  cases hx : t.extra with
  | nil => cases f <;> simp [tagStream, serLines]
  | cons l ls =>
    rw [hx] at hf
    obtain ⟨g, rfl⟩ : ∃ g, f = g + 1 := ⟨f - 1, by simp at hf; omega⟩
    have hl : l.OK := ok.lines l (by rw [hx]; simp)
    have hfirst := ok.first l (by rw [hx]; rfl)
    rw [serLines_cons, tagStream_line g l _ false _ _ hl.1 hl.2.2]
    simp only [Bool.false_eq_true, if_false, hfirst.1, hfirst.2]
    exact tagStream_done ls g _ _ (fun x hx' => ok.lines x (by rw [hx]; simp [hx']))

theorem serLines_length_ge (ls : List Line) : ls.length ≤ (serLines ls).length := by
  induction ls with
  | nil => simp
  | cons l ls ih => rw [serLines_cons, List.length_append, List.length_cons]; have := ser_length l; omega

/-- **tags parse exactly.** For every well-formed tag object — any id, any type text, any further
    header lines (including extra headers spelt `object …` or `type …` and signature blocks), with
    or without a message of arbitrary bytes — `ParseTag` returns exactly the tagged object's id and
    the type text of the first two lines, and the object's length. -/
theorem parseTag_serTag (t : TagObj) (ok : t.OK) :
    parseTag (serTag t) = .ok ⟨clamp c32 (serTag t).length, t.object, t.type⟩ := by
  have hlines : ∀ l ∈ t.lines, l.OK := by
    intro l hl
    simp only [TagObj.lines, List.mem_cons] at hl
    rcases hl with rfl | rfl | h
    · exact ⟨kObject_clean.1, kObject_clean.2, (hexEncode_clean _).2⟩
    · exact ⟨kType_clean.1, kType_clean.2, ok.type⟩
    · exact ok.lines l h
  unfold parseTag
  have hb := headerBlock_lines t.lines (by simp [TagObj.lines]) hlines t.message
  unfold serTag
  rw [hb]
  simp only [bind, Res.bind]
  have := serLines_length_ge t.lines
  rw [tagStream_lines t ok _ (by omega)]

end GitSizer.Parsers
