import GitSizer.Proofs.Agg.P4
/-! T1 (aggregator theorem), part 5: `initLoop`, `registerTree`, `run`, and the final theorem. -/
namespace Agg
variable {α : Type} {P : Params α}

variable (P) in
/-- append listeners to a (possibly missing) record, as `RequireTreeSize` does -/
def addL (o : Option (Rec α)) (extra : List (Oid × Nat)) : Option (Rec α) :=
  if extra = [] then o
  else some { (o.getD (newRec P)) with listeners := (o.getD (newRec P)).listeners ++ extra }

def waitersIn (t : Oid) (cs : List (Nat × Oid)) (c : Oid) : List (Oid × Nat) :=
  cs.filterMap (fun e => if e.2 = c then some (t, e.1) else none)

theorem waiters_eq_waitersIn (c t : Oid) : waiters P c t = waitersIn t (P.kids t) c := rfl

theorem addL_nil (o : Option (Rec α)) : addL P o [] = o := by simp [addL]

theorem addL_addL (o : Option (Rec α)) (x : Oid × Nat) (ys : List (Oid × Nat)) :
    addL P (addL P o [x]) ys = addL P o (x :: ys) := by
  by_cases hy : ys = []
  · subst hy; simp [addL]
  · simp [addL, hy]

theorem isFin_of_sizes_eq {st st' : St α} (h : st'.sizes = st.sizes) (t : Oid) : isFin st' t = isFin st t := by
  unfold isFin; rw [h]

theorem initLoop_spec (t : Oid) (v : Oid → α) :
    ∀ (cs : List (Nat × Oid)) (st0 : St α) (p0 : Int) (s0 : α),
      (∀ c s, st0.sizes c = some s → s = v c) →
      let res := initLoop P t cs st0 p0 s0
      res.1.sizes = st0.sizes ∧ res.1.fins = st0.fins ∧
      res.2.1 = p0 + ((cs.filter (fun e => !isFin st0 e.2)).length : Int) ∧
      res.2.2 = ((cs.filter (fun e => isFin st0 e.2)).map (fun e => P.desc e.1 (v e.2))).foldl (fun s x => P.op s x) s0 ∧
      ∀ c, res.1.recs c = if st0.sizes c = none then addL P (st0.recs c) (waitersIn t cs c) else st0.recs c := by
  intro cs
  induction cs with
  | nil =>
    intro st0 p0 s0 _
    simp [initLoop, waitersIn, addL_nil]
  | cons e cs ih =>
    intro st0 p0 s0 hv
    obtain ⟨nm, c0⟩ := e
    cases hsz : st0.sizes c0 with
    | some sc =>
      have hfin : isFin st0 c0 = true := (isFin_true_iff st0 c0).mpr ⟨sc, hsz⟩
      have := ih st0 p0 (P.op s0 (P.desc nm sc)) hv
      simp only [initLoop, hsz]
      obtain ⟨h1, h2, h3, h4, h5⟩ := this
      refine ⟨h1, h2, ?_, ?_, ?_⟩
      · rw [h3]; simp [List.filter_cons, hfin]
      · rw [h4]; simp [List.filter_cons, hfin, hv c0 sc hsz]
      · intro c
        rw [h5 c]
        by_cases hc : st0.sizes c = none
        · have hne : c0 ≠ c := fun e => by rw [e, hc] at hsz; cases hsz
          simp [hc, waitersIn, List.filterMap_cons, hne]
        · simp [hc]
    | none =>
      have hfin : isFin st0 c0 = false := (isFin_false_iff st0 c0).mpr hsz
      let r := (st0.recs c0).getD (newRec P)
      let st' : St α := { st0 with recs := upd st0.recs c0 (some { r with listeners := r.listeners ++ [(t, nm)] }) }
      have hv' : ∀ c s, st'.sizes c = some s → s = v c := hv
      have := ih st' (p0 + 1) s0 hv'
      simp only [initLoop, hsz]
      obtain ⟨h1, h2, h3, h4, h5⟩ := this
      have hfe : ∀ x, isFin st' x = isFin st0 x := fun _ => rfl
      refine ⟨h1, h2, ?_, ?_, ?_⟩
      · rw [h3]; simp only [hfe, List.filter_cons, hfin]; simp; omega
      · rw [h4]; simp [hfe, List.filter_cons, hfin]
      · intro c
        rw [h5 c]
        show (if st0.sizes c = none then addL P (upd st0.recs c0 _ c) (waitersIn t cs c) else upd st0.recs c0 _ c) = _
        by_cases hc : c = c0
        · subst hc
          simp only [hsz, if_true, upd_same]
          have : (some { r with listeners := r.listeners ++ [(t, nm)] } : Option (Rec α)) = addL P (st0.recs c) [(t, nm)] := by
            simp [addL, r]
          rw [this, addL_addL]
          simp [waitersIn, List.filterMap_cons]
        · have hne : c0 ≠ c := fun e => hc e.symm
          simp only [upd_other _ _ _ _ hc]
          simp [waitersIn, List.filterMap_cons, hne]

theorem lis_addL (st : St α) (c : Oid) (extra : List (Oid × Nat)) (o : Option (Rec α)) (ho : o = st.recs c) :
    (match addL P o extra with | some r => r.listeners | none => []) = lis st c ++ extra := by
  subst ho
  unfold lis addL
  by_cases he : extra = []
  · subst he; cases st.recs c <;> simp
  · cases st.recs c <;> simp [he, newRec]

variable (P) in
def K (l : List Oid) : Nat := (l.map fun q => (P.kids q).length).sum

theorem sum_nonfin_le_K (st : St α) (D : List Oid) : (D.map fun q => (nonfin P st q).length).sum ≤ K P D := by
  unfold K
  induction D with
  | nil => simp
  | cons d D ih =>
    simp only [List.map_cons, List.sum_cons]
    have : (nonfin P st d).length ≤ (P.kids d).length := List.length_filter_le _ _
    omega

/-- the state after `initLoop` satisfies the invariant except for clause (R) at `t` itself -/
theorem init_inv (wf : WFk P) {st : St α} {D : List Oid} {t : Oid}
    (inv : InvX P none st D []) (htD : t ∉ D) :
    let res := initLoop P t (P.kids t) st 0 (P.base t)
    InvX P (some t) res.1 (D ++ [t]) [] := by
  intro res
  obtain ⟨h1, h2, _, _, h5⟩ := initLoop_spec (P := P) t (expand P) (P.kids t) st 0 (P.base t)
    (fun c s hs => (inv.F c s hs).1)
  have hfe : ∀ x, isFin res.1 x = isFin st x := isFin_of_sizes_eq h1
  refine ⟨?_, ?_, ?_, ?_, ?_, ?_, ?_, ?_⟩
  · rw [List.nodup_append]
    refine ⟨inv.nodup, by simp, ?_⟩
    intro a ha b hb; simp at hb; subst hb; intro e; subst e; exact htD ha
  · intro t' s hs
    rw [h1] at hs
    obtain ⟨g1, g2, g3, g4⟩ := inv.F t' s hs
    refine ⟨g1, List.mem_append_left _ g2, ?_, ?_⟩
    · rw [h5 t']; simp [hs, g3]
    · intro e he; rw [hfe]; exact g4 e he
  · intro t' ht'
    simp only [List.mem_append, List.mem_singleton, not_or] at ht'
    obtain ⟨g1, g2⟩ := inv.U t' ht'.1
    refine ⟨by rw [h1]; exact g1, ?_⟩
    intro r hr
    rw [h5 t'] at hr
    simp only [g1, if_true] at hr
    unfold addL at hr
    by_cases hw : waitersIn t (P.kids t) t' = []
    · simp only [hw, if_true] at hr; exact g2 r hr
    · simp only [hw, if_false, Option.some.injEq] at hr
      subst hr
      refine ⟨?_, by simp [hw]⟩
      cases hrec : st.recs t' with
      | none => simp [newRec]
      | some r0 => simp; exact (g2 r0 hrec).1
  · intro t' ht'
    rw [h1] at ht'
    have hl : lis res.1 t' = lis st t' ++ waitersIn t (P.kids t) t' := by
      have := lis_addL (P := P) st t' (waitersIn t (P.kids t) t') (st.recs t') rfl
      unfold lis at this ⊢
      rw [h5 t']; simp only [ht', if_true]; exact this
    rw [hl, inv.L t' ht', List.flatMap_append]
    simp [waiters_eq_waitersIn]
  · intro t' ht'D hx ht'
    have hne : t' ≠ t := fun e => hx (by rw [e])
    have ht'D0 : t' ∈ D := by
      simp only [List.mem_append, List.mem_singleton] at ht'D
      cases ht'D with
      | inl h => exact h
      | inr h => exact absurd h hne
    rw [h1] at ht'
    obtain ⟨r, g1, g2, g3, g4⟩ := inv.R t' ht'D0 (by simp) ht'
    have hnf : nonfin P res.1 t' = nonfin P st t' := by unfold nonfin; simp only [hfe]
    have hfk : finK P res.1 t' = finK P st t' := by unfold finK; simp only [hfe]
    rw [hnf, hfk]
    by_cases hw : waitersIn t (P.kids t) t' = []
    · exact ⟨r, by rw [h5 t']; simp [ht', addL, hw, g1], g2, g3, g4⟩
    · exact ⟨{ r with listeners := r.listeners ++ waitersIn t (P.kids t) t' },
        by rw [h5 t']; simp [ht', addL, hw, g1], g2, g3, g4⟩
  · intro w hw; cases hw
  · rw [h2]; exact inv.Fn
  · intro t'; rw [h2, hfe]; exact inv.Fm t'

end Agg
