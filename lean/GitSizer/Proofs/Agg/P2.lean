import GitSizer.Proofs.Agg.P1
/-! T1 (aggregator theorem), part 2: invariant and helper lemmas. -/
namespace Agg
variable {α : Type} {P : Params α}

/-- `InvX x st D W`: the aggregator invariant; clause (R) is not required at the exceptional tree `x`
    (the one being finalised right now). `InvX none` is the real invariant. -/
structure InvX (P : Params α) (x : Option Oid) (st : St α) (D : List Oid) (W : List (Oid × Nat × α)) : Prop where
  nodup : D.Nodup
  F : ∀ t s, st.sizes t = some s → s = expand P t ∧ t ∈ D ∧ st.recs t = none ∧ ∀ e ∈ P.kids t, isFin st e.2 = true
  U : ∀ t, t ∉ D → st.sizes t = none ∧ (∀ r, st.recs t = some r → r.pending = -1 ∧ r.listeners ≠ [])
  L : ∀ t, st.sizes t = none → lis st t = D.flatMap (waiters P t)
  R : ∀ t, t ∈ D → some t ≠ x → st.sizes t = none → ∃ r, st.recs t = some r ∧
        r.pending = ((nonfin P st t).length : Int) + ((Wp W t).length : Int) ∧ 0 < r.pending ∧
        msum P (r.size :: (Wp W t).map (fun w => P.desc w.2.1 w.2.2)) =
          msum P (P.base t :: (finK P st t).map (fun e => P.desc e.1 (expand P e.2)))
  Wv : ∀ w ∈ W, w.1 ∈ D ∧ st.sizes w.1 = none
  Fn : st.fins.Nodup
  Fm : ∀ t, t ∈ st.fins ↔ isFin st t = true

theorem waiters_fst {c p : Oid} {l : Oid × Nat} (h : l ∈ waiters P c p) : l.1 = p := by
  unfold waiters at h
  simp only [List.mem_filterMap] at h
  obtain ⟨e, _, he⟩ := h
  split at he
  · simp at he; rw [← he]
  · simp at he

theorem mem_waiters {c p : Oid} {l : Oid × Nat} (h : l ∈ waiters P c p) : l.1 = p ∧ (l.2, c) ∈ P.kids p := by
  unfold waiters at h
  simp only [List.mem_filterMap] at h
  obtain ⟨e, hm, he⟩ := h
  split at he
  · next hc => simp at he; subst he; simp; rw [← hc]; exact hm
  · simp at he

theorem mem_flatMap_waiters {D : List Oid} {c : Oid} {l : Oid × Nat} (h : l ∈ D.flatMap (waiters P c)) :
    l.1 ∈ D ∧ (l.2, c) ∈ P.kids l.1 := by
  simp only [List.mem_flatMap] at h
  obtain ⟨p, hp, hl⟩ := h
  have := mem_waiters hl
  rw [this.1]; exact ⟨hp, this.2⟩

theorem filter_waiters_self (c q : Oid) : (waiters P c q).filter (fun l => l.1 == q) = waiters P c q := by
  apply List.filter_eq_self.mpr
  intro l hl; simp [waiters_fst hl]

theorem filter_waiters_other (c p q : Oid) (h : p ≠ q) : (waiters P c p).filter (fun l => l.1 == q) = [] := by
  apply List.filter_eq_nil_iff.mpr
  intro l hl; simp [waiters_fst hl, h]

theorem filter_flatMap_waiters_notin (c q : Oid) : ∀ (D : List Oid), q ∉ D →
    (D.flatMap (waiters P c)).filter (fun l => l.1 == q) = [] := by
  intro D
  induction D with
  | nil => intro _; rfl
  | cons d D ih =>
    intro hq
    simp only [List.mem_cons, not_or] at hq
    simp only [List.flatMap_cons, List.filter_append]
    rw [filter_waiters_other c d q (fun h => hq.1 h.symm), ih hq.2]; rfl

theorem filter_flatMap_waiters (c q : Oid) : ∀ (D : List Oid), D.Nodup → q ∈ D →
    (D.flatMap (waiters P c)).filter (fun l => l.1 == q) = waiters P c q := by
  intro D
  induction D with
  | nil => intro _ h; cases h
  | cons d D ih =>
    intro hnd hq
    simp only [List.nodup_cons] at hnd
    simp only [List.flatMap_cons, List.filter_append]
    by_cases hdq : d = q
    · subst hdq
      rw [filter_waiters_self, filter_flatMap_waiters_notin c d D hnd.1]; simp
    · have : q ∈ D := by
        cases hq with
        | head => exact absurd rfl hdq
        | tail _ h => exact h
      rw [filter_waiters_other c d q hdq, ih hnd.2 this]; rfl

theorem length_waiters (c p : Oid) :
    (waiters P c p).length = ((P.kids p).filter (fun e => e.2 == c)).length := by
  unfold waiters
  induction P.kids p with
  | nil => rfl
  | cons e l ih =>
    simp only [List.filterMap_cons, List.filter_cons]
    by_cases h : e.2 = c
    · simp [h, ih]
    · simp [h, ih]

theorem map_waiters (c p : Oid) (g : Nat → α) :
    (waiters P c p).map (fun l => g l.2) = ((P.kids p).filter (fun e => e.2 == c)).map (fun e => g e.1) := by
  unfold waiters
  induction P.kids p with
  | nil => rfl
  | cons e l ih =>
    simp only [List.filterMap_cons, List.filter_cons]
    by_cases h : e.2 = c
    · simp [h, ih]
    · simp [h, ih]

/-- split of a filtered-and-mapped msum along two disjoint predicates -/
theorem msum_filter_or (h : Laws P) {β : Type} (l : List β) (a b : β → Bool) (f : β → α)
    (hd : ∀ x, ¬(a x = true ∧ b x = true)) :
    msum P ((l.filter (fun x => a x || b x)).map f) =
      P.op (msum P ((l.filter a).map f)) (msum P ((l.filter b).map f)) := by
  haveI : Std.Associative P.op := ⟨h.assoc⟩
  haveI : Std.Commutative P.op := ⟨h.comm⟩
  induction l with
  | nil => simp [h.unitL]
  | cons x l ih =>
    simp only [List.filter_cons]
    cases ha : a x <;> cases hb : b x
    · simpa using ih
    · simp only [Bool.false_or, ↓reduceIte, List.map_cons, msum_cons, ih, Bool.false_eq_true]; ac_rfl
    · simp only [Bool.true_or, ↓reduceIte, List.map_cons, msum_cons, ih, Bool.false_eq_true]; ac_rfl
    · exact absurd ⟨ha, hb⟩ (hd x)

theorem length_filter_or {β : Type} (l : List β) (a b : β → Bool)
    (hd : ∀ x, ¬(a x = true ∧ b x = true)) :
    (l.filter (fun x => a x || b x)).length = (l.filter a).length + (l.filter b).length := by
  induction l with
  | nil => rfl
  | cons x l ih =>
    simp only [List.filter_cons]
    cases ha : a x <;> cases hb : b x
    · simpa using ih
    · simp [ih]; omega
    · simp [ih]; omega
    · exact absurd ⟨ha, hb⟩ (hd x)

end Agg
