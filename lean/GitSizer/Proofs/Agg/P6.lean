import GitSizer.Proofs.Agg.P5
/-! T1 (aggregator theorem), part 6: `registerTree`, `run`, final theorem. -/
namespace Agg
variable {α : Type} {P : Params α}

theorem K_append (l1 l2 : List Oid) : K P (l1 ++ l2) = K P l1 + K P l2 := by
  unfold K; simp

variable (P) in
/-- iterations of the listener cascade that `registerTree` triggers -/
def regSteps (fuel : Nat) (st : St α) (t : Oid) : Nat :=
  let r0 := (st.recs t).getD (newRec P)
  let res := initLoop P t (P.kids t) st 0 (P.base t)
  if res.2.1 = 0 then steps P fuel (finalize res.1 t res.2.2) (r0.listeners.map (fun l => (l.1, l.2, res.2.2))) else 0

variable (P) in
/-- the potential between two registrations: unresolved subtree entries of the delivered trees -/
def psi (st : St α) (D : List Oid) : Nat := phi P st D []

theorem register_inv_steps (h : Laws P) (wf : WFk P) {st : St α} {D : List Oid} {t : Oid} {fuel : Nat}
    (inv : InvX P none st D []) (htD : t ∉ D) (hfuel : K P (D ++ [t]) ≤ fuel) :
    InvX P none (registerTree P fuel st t) (D ++ [t]) [] ∧
    regSteps P fuel st t + psi P (registerTree P fuel st t) (D ++ [t]) = psi P st D + (nonfin P st t).length := by
  have hinit := init_inv wf inv htD
  obtain ⟨h1, h2, h3, h4, h5⟩ := initLoop_spec (P := P) t (expand P) (P.kids t) st 0 (P.base t)
    (fun c s hs => (inv.F c s hs).1)
  have htn : st.sizes t = none := (inv.U t htD).1
  have htk : ∀ e ∈ P.kids t, e.2 ≠ t := fun e he hee => by
    have := wf t e he; rw [hee] at this; exact Nat.lt_irrefl _ this
  have hwt : waitersIn t (P.kids t) t = [] := by
    unfold waitersIn
    apply List.filterMap_eq_nil_iff.mpr
    intro e he; simp [htk e he]
  -- name the components
  generalize hres : initLoop P t (P.kids t) st 0 (P.base t) = res at hinit h1 h2 h3 h4 h5
  obtain ⟨st1, pend, sz⟩ := res
  simp only at hinit h1 h2 h3 h4 h5
  have hfe : ∀ x, isFin st1 x = isFin st x := isFin_of_sizes_eq h1
  have hrt : st1.recs t = st.recs t := by rw [h5 t]; simp [htn, hwt, addL_nil]
  have hnf : nonfin P st1 t = nonfin P st t := by unfold nonfin; simp only [hfe]
  have hfk : finK P st1 t = finK P st t := by unfold finK; simp only [hfe]
  have hpend : pend = ((nonfin P st1 t).length : Int) := by rw [h3, hnf]; simp [nonfin]
  have hsz : sz = msum P (P.base t :: (finK P st1 t).map (fun e => P.desc e.1 (expand P e.2))) := by
    rw [h4, foldl_op_eq_msum h, hfk]; rfl
  have hlis1 : lis st1 t = ((st.recs t).getD (newRec P)).listeners := by
    unfold lis; rw [hrt]; cases st.recs t <;> simp [newRec]
  have hpsi1 : psi P st1 (D ++ [t]) = psi P st D + (nonfin P st t).length := by
    unfold psi phi nonfin
    simp only [hfe, List.length_nil, Nat.zero_add, List.map_append, List.sum_append, List.map_cons, List.map_nil,
      List.sum_cons, List.sum_nil, Nat.add_zero]
  unfold registerTree regSteps
  simp only [hres]
  by_cases hz : pend = 0
  · -- complete at once: finalise and cascade
    simp only [hz, if_true]
    have hnil : nonfin P st1 t = [] := by
      apply List.eq_nil_of_length_eq_zero
      have := hpend; rw [hz] at this; omega
    have hexp : sz = expand P t := by
      rw [hsz, nonfin_nil_finK hnil, expand_eq wf t]
    have htn1 : st1.sizes t = none := by rw [h1]; exact htn
    have inv' := fin_push h wf hinit (by simp) htn1 (nonfin_nil_kids hnil) (by intro w hw; cases hw)
    rw [← hlis1, hexp]
    simp only [List.append_nil] at inv'
    have hsplit := sum_nonfin_split (P := P) st1 t (expand P t) htn1 (D ++ [t])
    have hL := hinit.L t htn1
    have hle := sum_nonfin_le_K (P := P) st1 (D ++ [t])
    -- the potential of the state the cascade starts from
    have hphi0 : phi P (finalize st1 t (expand P t)) (D ++ [t]) ((lis st1 t).map (fun l => (l.1, l.2, expand P t))) =
        psi P st1 (D ++ [t]) := by
      unfold psi phi
      simp only [List.length_map, List.length_nil]
      rw [hL]
      omega
    obtain ⟨i1, i2⟩ := cascade_inv_steps h wf fuel _ _ inv' (by
      rw [hphi0]; unfold psi phi; simp only [List.length_nil]; omega)
    refine ⟨i1, ?_⟩
    unfold psi at hpsi1 hphi0 ⊢
    omega
  · -- has to wait for children
    simp only [hz, if_false]
    have hpos : 0 < pend := by rw [hpend] at hz ⊢; omega
    refine ⟨?_, ?_⟩
    rotate_left
    · -- no cascade; the new record does not change which entries are unresolved
      have : psi P { st1 with recs := upd st1.recs t (some ⟨pend, sz, ((st.recs t).getD (newRec P)).listeners⟩) } (D ++ [t]) =
          psi P st1 (D ++ [t]) := rfl
      rw [this, hpsi1]; omega
    refine ⟨hinit.nodup, ?_, ?_, ?_, ?_, ?_, hinit.Fn, hinit.Fm⟩
    · intro t' s hs
      have hne : t' ≠ t := fun e => by
        have : st1.sizes t' = some s := hs
        rw [e, h1, htn] at this; cases this
      obtain ⟨g1, g2, g3, g4⟩ := hinit.F t' s hs
      exact ⟨g1, g2, by simp [upd, hne, g3], g4⟩
    · intro t' ht'
      have hne : t' ≠ t := fun e => ht' (by simp [e])
      obtain ⟨g1, g2⟩ := hinit.U t' ht'
      refine ⟨g1, ?_⟩
      intro r hr; simp [upd, hne] at hr; exact g2 r hr
    · intro t' ht'
      by_cases hne : t' = t
      · subst hne
        have := hinit.L t' ht'
        rw [← this, hlis1]; simp [lis, upd]
      · have := hinit.L t' ht'
        simp only [lis] at this ⊢
        simp only [upd, hne, if_false]; exact this
    · intro t' ht'D _ ht'
      by_cases hne : t' = t
      · subst hne
        refine ⟨⟨pend, sz, ((st.recs t').getD (newRec P)).listeners⟩, by simp [upd], ?_, hpos, ?_⟩
        · show pend = _
          have e1 : nonfin P { st1 with recs := upd st1.recs t' (some ⟨pend, sz, ((st.recs t').getD (newRec P)).listeners⟩) } t' = nonfin P st1 t' := rfl
          rw [e1, hpend]; simp [Wp]
        · show msum P (sz :: _) = _
          have e2 : finK P { st1 with recs := upd st1.recs t' (some ⟨pend, sz, ((st.recs t').getD (newRec P)).listeners⟩) } t' = finK P st1 t' := rfl
          rw [e2, ← hsz]; simp [Wp, h.unitR]
      · obtain ⟨r, g1, g2, g3, g4⟩ := hinit.R t' ht'D (by simp [hne]) ht'
        exact ⟨r, by simp [upd, hne, g1], g2, g3, g4⟩
    · intro w hw; cases hw

theorem register_inv (h : Laws P) (wf : WFk P) {st : St α} {D : List Oid} {t : Oid} {fuel : Nat}
    (inv : InvX P none st D []) (htD : t ∉ D) (hfuel : K P (D ++ [t]) ≤ fuel) :
    InvX P none (registerTree P fuel st t) (D ++ [t]) [] := (register_inv_steps h wf inv htD hfuel).1

theorem run_inv (h : Laws P) (wf : WFk P) (fuel : Nat) :
    ∀ (ts : List Oid) (D : List Oid) (st : St α),
      InvX P none st D [] → (D ++ ts).Nodup → K P (D ++ ts) ≤ fuel →
      InvX P none (run P fuel ts st) (D ++ ts) [] := by
  intro ts
  induction ts with
  | nil => intro D st inv _ _; simpa [run] using inv
  | cons t ts ih =>
    intro D st inv hnd hK
    have htD : t ∉ D := by
      rw [List.nodup_append] at hnd
      intro hin; exact hnd.2.2 t hin t (List.mem_cons_self ..) rfl
    have hK1 : K P (D ++ [t]) ≤ fuel := by
      have : D ++ t :: ts = (D ++ [t]) ++ ts := by simp
      rw [this, K_append] at hK; omega
    have inv1 := register_inv h wf inv htD hK1
    have e : D ++ t :: ts = (D ++ [t]) ++ ts := by simp
    rw [e] at hnd hK ⊢
    exact ih (D ++ [t]) _ inv1 hnd hK

variable (P) in
/-- cascade iterations over a whole run -/
def runSteps (fuel : Nat) : List Oid → St α → Nat
  | [], _ => 0
  | t :: ts, st => regSteps P fuel st t + runSteps fuel ts (registerTree P fuel st t)

/-- the cascade iterations of a whole run, plus the entries still unresolved at the end, are
    bounded by the entries unresolved at the start plus the number of subtree entries delivered -/
theorem run_steps (h : Laws P) (wf : WFk P) (fuel : Nat) :
    ∀ (ts : List Oid) (D : List Oid) (st : St α),
      InvX P none st D [] → (D ++ ts).Nodup → K P (D ++ ts) ≤ fuel →
      runSteps P fuel ts st + psi P (run P fuel ts st) (D ++ ts) ≤ psi P st D + K P ts := by
  intro ts
  induction ts with
  | nil => intro D st _ _ _; simp [runSteps, run, K]
  | cons t ts ih =>
    intro D st inv hnd hK
    have htD : t ∉ D := by
      rw [List.nodup_append] at hnd
      intro hin; exact hnd.2.2 t hin t (List.mem_cons_self ..) rfl
    have hK1 : K P (D ++ [t]) ≤ fuel := by
      have : D ++ t :: ts = (D ++ [t]) ++ ts := by simp
      rw [this, K_append] at hK; omega
    obtain ⟨inv1, hst⟩ := register_inv_steps h wf inv htD hK1
    have e : D ++ t :: ts = (D ++ [t]) ++ ts := by simp
    rw [e] at hnd hK ⊢
    have := ih (D ++ [t]) _ inv1 hnd hK
    have hnf : (nonfin P st t).length ≤ (P.kids t).length := List.length_filter_le _ _
    have hKc : K P (t :: ts) = (P.kids t).length + K P ts := by unfold K; simp
    simp only [runSteps, run]
    omega

theorem init_inv0 : InvX P none (init : St α) [] [] := by
  refine ⟨List.nodup_nil, ?_, ?_, ?_, ?_, ?_, List.nodup_nil, ?_⟩
  · intro t s hs; cases hs
  · intro t _; exact ⟨rfl, fun r hr => by cases hr⟩
  · intro t _; rfl
  · intro t ht; cases ht
  · intro w hw; cases hw
  · intro t; simp [init, isFin]

/-- **T1 (prototype).** For any commutative monoid of sizes, any well-founded entry relation,
    any duplicate-free delivery order `ds` of a downward-closed set of trees — in *any* order —
    every delivered tree ends up finalised with exactly its recursive expansion, every tree is
    finalised exactly once, nothing else is finalised and no record remains. -/
theorem agg_correct (h : Laws P) (wf : WFk P) (ds : List Oid) (hnd : ds.Nodup)
    (closed : ∀ t ∈ ds, ∀ e ∈ P.kids t, e.2 ∈ ds) (fuel : Nat) (hfuel : K P ds ≤ fuel) :
    let st := run P fuel ds (init : St α)
    (∀ t ∈ ds, st.sizes t = some (expand P t)) ∧
    (∀ t, t ∉ ds → st.sizes t = none) ∧
    (∀ t, st.recs t = none) ∧
    st.fins.Perm ds := by
  intro st
  have inv : InvX P none st ([] ++ ds) [] := run_inv h wf fuel ds [] init init_inv0 (by simpa using hnd) (by simpa using hfuel)
  simp only [List.nil_append] at inv
  -- every delivered tree is finalised
  have hfin : ∀ t, t ∈ ds → ∃ s, st.sizes t = some s := by
    intro t
    induction t using Nat.strongRecOn with
    | _ t ih =>
      intro ht
      cases hs : st.sizes t with
      | some s => exact ⟨s, rfl⟩
      | none =>
        exfalso
        obtain ⟨r, _, hp, hpos, _⟩ := inv.R t ht (by simp) hs
        have hnil : nonfin P st t = [] := by
          unfold nonfin
          apply List.filter_eq_nil_iff.mpr
          intro e he
          obtain ⟨s, hs'⟩ := ih e.2 (wf t e he) (closed t ht e he)
          simp [(isFin_true_iff st e.2).mpr ⟨s, hs'⟩]
        rw [hnil] at hp; simp [Wp] at hp; omega
  refine ⟨?_, ?_, ?_, ?_⟩
  · intro t ht
    obtain ⟨s, hs⟩ := hfin t ht
    rw [hs, (inv.F t s hs).1]
  · intro t ht; exact (inv.U t ht).1
  · intro t
    by_cases ht : t ∈ ds
    · obtain ⟨s, hs⟩ := hfin t ht; exact (inv.F t s hs).2.2.1
    · obtain ⟨hs, hr⟩ := inv.U t ht
      cases hrec : st.recs t with
      | none => rfl
      | some r =>
        exfalso
        have hne := (hr r hrec).2
        have hl := inv.L t hs
        simp only [lis, hrec] at hl
        have : ds.flatMap (waiters P t) = [] := by
          apply List.flatMap_eq_nil_iff.mpr
          intro p hp
          apply List.eq_nil_iff_forall_not_mem.mpr
          intro l hl'
          have := mem_waiters hl'
          exact ht (closed p hp (l.2, t) this.2)
        rw [this] at hl; exact hne hl
  · apply (List.perm_ext_iff_of_nodup inv.Fn hnd).mpr
    intro t
    rw [inv.Fm t]
    constructor
    · intro hf
      obtain ⟨s, hs⟩ := (isFin_true_iff st t).mp hf
      exact (inv.F t s hs).2.1
    · intro ht; exact (isFin_true_iff st t).mpr (hfin t ht)


/-- **Linear work.** Whatever the delivery order, the listener cascade performs at most as many
    iterations over the whole run as the delivered trees have subtree entries — independently of
    how large the expanded trees are. -/
theorem cascade_steps_linear (h : Laws P) (wf : WFk P) (ds : List Oid) (hnd : ds.Nodup) (fuel : Nat)
    (hfuel : K P ds ≤ fuel) : runSteps P fuel ds (init : St α) ≤ K P ds := by
  have := run_steps h wf fuel ds [] init init_inv0 (by simpa using hnd) (by simpa using hfuel)
  have h0 : psi P (init : St α) [] = 0 := by simp [psi, phi]
  omega

end Agg

