import GitSizer.Proofs.Agg.P2
/-! T1 (aggregator theorem), part 3: finalising a tree preserves the invariant (`fin_push`). -/
namespace Agg
variable {α : Type} {P : Params α}

@[simp] theorem finalize_sizes (st : St α) (p : Oid) (sz : α) (t : Oid) :
    (finalize st p sz).sizes t = if t = p then some sz else st.sizes t := by
  simp [finalize, upd]
@[simp] theorem finalize_recs (st : St α) (p : Oid) (sz : α) (t : Oid) :
    (finalize st p sz).recs t = if t = p then none else st.recs t := by
  simp [finalize, upd]

theorem isFin_finalize (st : St α) (p : Oid) (sz : α) (t : Oid) :
    isFin (finalize st p sz) t = (t == p || isFin st t) := by
  unfold isFin
  by_cases h : t = p <;> simp [h]

theorem lis_finalize_ne (st : St α) (p : Oid) (sz : α) (t : Oid) (h : t ≠ p) :
    lis (finalize st p sz) t = lis st t := by
  unfold lis; simp [h]

/-- counting: entries with unfinalised child, before vs after finalising `p` -/
theorem nonfin_length_split (st : St α) (p q : Oid) (sz : α) (hpn : st.sizes p = none) :
    (nonfin P st q).length = (nonfin P (finalize st p sz) q).length + (waiters P p q).length := by
  rw [length_waiters]
  unfold nonfin
  have hp : isFin st p = false := (isFin_false_iff st p).mpr hpn
  have : (P.kids q).filter (fun e => !isFin st e.2) =
      (P.kids q).filter (fun e => (!isFin (finalize st p sz) e.2) || (e.2 == p)) := by
    apply List.filter_congr
    intro e _
    rw [isFin_finalize]
    by_cases h : e.2 = p
    · simp [h, hp]
    · have hb : (e.2 == p) = false := by simpa using h
      simp [hb]
  rw [this]
  apply length_filter_or
  intro e ⟨h1, h2⟩
  rw [isFin_finalize] at h1
  simp at h2
  simp [h2] at h1

theorem finK_msum_split (h : Laws P) (st : St α) (p q : Oid) (sz : α) (hpn : st.sizes p = none) (f : Nat × Oid → α) :
    msum P ((finK P (finalize st p sz) q).map f) =
      P.op (msum P ((finK P st q).map f)) (msum P (((P.kids q).filter (fun e => e.2 == p)).map f)) := by
  unfold finK
  have hp : isFin st p = false := (isFin_false_iff st p).mpr hpn
  have : (P.kids q).filter (fun e => isFin (finalize st p sz) e.2) =
      (P.kids q).filter (fun e => isFin st e.2 || (e.2 == p)) := by
    apply List.filter_congr
    intro e _
    rw [isFin_finalize, Bool.or_comm]
  rw [this]
  apply msum_filter_or h
  intro e ⟨h1, h2⟩
  simp at h2
  rw [h2, hp] at h1
  cases h1

theorem Wp_append (W1 W2 : List (Oid × Nat × α)) (t : Oid) : Wp (W1 ++ W2) t = Wp W1 t ++ Wp W2 t := by
  simp [Wp]

theorem Wp_map_lis (l : List (Oid × Nat)) (sz : α) (t : Oid) :
    Wp (l.map (fun l => (l.1, l.2, sz))) t = (l.filter (fun l => l.1 == t)).map (fun l => (l.1, l.2, sz)) := by
  unfold Wp
  induction l with
  | nil => rfl
  | cons a l ih =>
    simp only [List.map_cons, List.filter_cons]
    by_cases h : a.1 = t <;> simp [h, ih]

theorem fin_push (h : Laws P) (wf : WFk P) {st : St α} {D : List Oid} {rest : List (Oid × Nat × α)} {p : Oid}
    (inv : InvX P (some p) st D rest) (hpD : p ∈ D) (hpn : st.sizes p = none)
    (hkids : ∀ e ∈ P.kids p, isFin st e.2 = true)
    (hrest : ∀ w ∈ rest, w.1 ≠ p) :
    InvX P none (finalize st p (expand P p)) D
      ((lis st p).map (fun l => (l.1, l.2, expand P p)) ++ rest) := by
  haveI : Std.Associative P.op := ⟨h.assoc⟩
  haveI : Std.Commutative P.op := ⟨h.comm⟩
  have hlis := inv.L p hpn
  have hpf : isFin st p = false := (isFin_false_iff st p).mpr hpn
  refine ⟨inv.nodup, ?_, ?_, ?_, ?_, ?_, ?_, ?_⟩
  · -- F
    intro t s hs
    rw [finalize_sizes] at hs
    by_cases htp : t = p
    · subst htp
      simp at hs
      refine ⟨hs.symm, hpD, by simp, ?_⟩
      intro e he; rw [isFin_finalize, hkids e he]; simp
    · simp [htp] at hs
      obtain ⟨h1, h2, h3, h4⟩ := inv.F t s hs
      refine ⟨h1, h2, by simp [htp, h3], ?_⟩
      intro e he; rw [isFin_finalize, h4 e he]; simp
  · -- U
    intro t ht
    have htp : t ≠ p := fun e => ht (e ▸ hpD)
    have := inv.U t ht
    simp [htp, this.1]
    exact this.2
  · -- L
    intro t ht
    rw [finalize_sizes] at ht
    by_cases htp : t = p
    · simp [htp] at ht
    · simp [htp] at ht
      rw [lis_finalize_ne _ _ _ _ htp]; exact inv.L t ht
  · -- R
    intro t htD _ ht
    rw [finalize_sizes] at ht
    by_cases htp : t = p
    · simp [htp] at ht
    · simp [htp] at ht
      obtain ⟨r, hr, hpend, hpos, hS⟩ := inv.R t htD (by simp [htp]) ht
      refine ⟨r, by simp [htp, hr], ?_, hpos, ?_⟩
      · -- pending
        rw [Wp_append, Wp_map_lis, hlis, filter_flatMap_waiters p t D inv.nodup htD]
        rw [hpend, nonfin_length_split st p t (expand P p) hpn]
        simp only [List.length_append, List.length_map]
        omega
      · -- size equation
        rw [Wp_append, Wp_map_lis, hlis, filter_flatMap_waiters p t D inv.nodup htD]
        rw [msum_cons] at hS ⊢
        rw [msum_cons] at hS ⊢
        rw [finK_msum_split h st p t (expand P p) hpn]
        rw [List.map_append, msum_append h, List.map_map]
        have e1 : (waiters P p t).map ((fun w : Oid × Nat × α => P.desc w.2.1 w.2.2) ∘ fun l => (l.1, l.2, expand P p))
            = ((P.kids t).filter (fun e => e.2 == p)).map (fun e => P.desc e.1 (expand P e.2)) := by
          have := map_waiters (P := P) p t (fun nm => P.desc nm (expand P p))
          simp only [Function.comp_def]
          rw [this]
          apply List.map_congr_left
          intro e he
          simp only [List.mem_filter, beq_iff_eq] at he
          rw [he.2]
        rw [e1]
        generalize msum P (((P.kids t).filter (fun e => e.2 == p)).map (fun e => P.desc e.1 (expand P e.2))) = A at *
        generalize msum P ((Wp rest t).map (fun w => P.desc w.2.1 w.2.2)) = B at *
        generalize msum P ((finK P st t).map (fun e => P.desc e.1 (expand P e.2))) = C at *
        calc P.op r.size (P.op A B) = P.op A (P.op r.size B) := by ac_rfl
          _ = P.op A (P.op (P.base t) C) := by rw [hS]
          _ = P.op (P.base t) (P.op C A) := by ac_rfl
  · -- Wv
    intro w hw
    rw [List.mem_append] at hw
    cases hw with
    | inl hw =>
      simp only [List.mem_map] at hw
      obtain ⟨l, hl, rfl⟩ := hw
      rw [hlis] at hl
      obtain ⟨hlD, hk⟩ := mem_flatMap_waiters hl
      have hlt : p < l.1 := wf l.1 (l.2, p) hk
      have hne : l.1 ≠ p := fun e => by rw [e] at hlt; exact Nat.lt_irrefl _ hlt
      refine ⟨hlD, ?_⟩
      simp only [finalize_sizes, hne, if_false]
      cases hsz : st.sizes l.1 with
      | none => rfl
      | some s =>
        have := (inv.F l.1 s hsz).2.2.2 (l.2, p) hk
        rw [(isFin_false_iff st p).mpr hpn] at this
        cases this
    | inr hw =>
      have := inv.Wv w hw
      refine ⟨this.1, ?_⟩
      simp [hrest w hw, this.2]
  · -- Fn
    show (st.fins ++ [p]).Nodup
    rw [List.nodup_append]
    refine ⟨inv.Fn, by simp, ?_⟩
    intro a ha b hb
    simp at hb; subst hb
    intro e; subst e
    rw [(inv.Fm a).mp ha] at hpf; cases hpf
  · -- Fm
    intro t
    show t ∈ st.fins ++ [p] ↔ _
    rw [isFin_finalize, List.mem_append, inv.Fm t]
    by_cases htp : t = p <;> simp [htp]

end Agg
