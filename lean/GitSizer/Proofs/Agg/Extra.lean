import GitSizer.Proofs.Agg.P6
/-! Additional facts about the aggregator: the finalisation log only grows, and the invariant
    holds after every prefix of a run (used to follow the history fold of `Model/Graph`). -/
namespace Agg
variable {α : Type} {P : Params α}

theorem initLoop_fins (parent : Oid) : ∀ (cs : List (Nat × Oid)) (st : St α) (p : Int) (s : α),
    (initLoop P parent cs st p s).1.fins = st.fins := by
  intro cs
  induction cs with
  | nil => intro st p s; rfl
  | cons c cs ih =>
    intro st p s
    obtain ⟨nm, c⟩ := c
    simp only [initLoop]
    split
    · exact ih _ _ _
    · rw [ih]

theorem cascade_fins_append : ∀ (fuel : Nat) (st : St α) (W : List (Oid × Nat × α)),
    ∃ new, (cascade P fuel st W).fins = st.fins ++ new := by
  intro fuel
  induction fuel with
  | zero => intro st W; exact ⟨[], by simp [cascade]⟩
  | succ n ih =>
    intro st W
    cases W with
    | nil => exact ⟨[], by simp [cascade]⟩
    | cons w rest =>
      obtain ⟨p, nm, sz⟩ := w
      simp only [cascade]
      split
      · exact ih st rest
      · split
        · obtain ⟨new, hn⟩ := ih (finalize st p _) (_ ++ rest)
          exact ⟨[p] ++ new, by rw [hn]; simp [finalize]⟩
        · obtain ⟨new, hn⟩ := ih { st with recs := _ } rest
          exact ⟨new, by rw [hn]⟩

theorem registerTree_fins_append (fuel : Nat) (st : St α) (t : Oid) :
    ∃ new, (registerTree P fuel st t).fins = st.fins ++ new := by
  unfold registerTree
  have hf := initLoop_fins (P := P) t (P.kids t) st 0 (P.base t)
  generalize initLoop P t (P.kids t) st 0 (P.base t) = res at hf
  obtain ⟨st1, pend, sz⟩ := res
  simp only at hf ⊢
  split
  · obtain ⟨new, hn⟩ := cascade_fins_append (P := P) fuel (finalize st1 t sz) (List.map (fun l => (l.1, l.2, sz)) ((st.recs t).getD (newRec P)).listeners)
    exact ⟨[t] ++ new, by rw [hn]; simp [finalize, hf]⟩
  · exact ⟨[], by simp [hf]⟩

/-- the state after any prefix of a duplicate-free delivery satisfies the invariant -/
theorem run_prefix_inv (h : Laws P) (wf : WFk P) (fuel : Nat) (ds : List Oid) (hnd : ds.Nodup) (hK : K P ds ≤ fuel) :
    InvX P none (run P fuel ds (init : St α)) ds [] := by
  have := run_inv h wf fuel ds [] init init_inv0 (by simpa using hnd) (by simpa using hK)
  simpa using this

theorem run_append (fuel : Nat) : ∀ (l1 l2 : List Oid) (st : St α),
    run P fuel (l1 ++ l2) st = run P fuel l2 (run P fuel l1 st) := by
  intro l1
  induction l1 with
  | nil => intro l2 st; rfl
  | cons t ts ih => intro l2 st; simp only [List.cons_append, run]; exact ih _ _

theorem run_snoc (fuel : Nat) (ds : List Oid) (t : Oid) (st : St α) :
    run P fuel (ds ++ [t]) st = registerTree P fuel (run P fuel ds st) t := by
  rw [run_append]; rfl

end Agg
