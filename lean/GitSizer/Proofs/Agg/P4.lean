import GitSizer.Proofs.Agg.P3
/-! T1 (aggregator theorem), part 4: the cascade preserves the invariant and terminates within the potential. -/
namespace Agg
variable {α : Type} {P : Params α}

variable (P) in
def phi (st : St α) (D : List Oid) (W : List (Oid × Nat × α)) : Nat :=
  W.length + (D.map fun q => (nonfin P st q).length).sum

theorem sum_nonfin_split (st : St α) (p : Oid) (sz : α) (hpn : st.sizes p = none) (D : List Oid) :
    (D.map fun q => (nonfin P st q).length).sum =
      (D.map fun q => (nonfin P (finalize st p sz) q).length).sum + (D.flatMap (waiters P p)).length := by
  induction D with
  | nil => rfl
  | cons d D ih =>
    simp only [List.map_cons, List.sum_cons, List.flatMap_cons, List.length_append, ih,
      nonfin_length_split st p d sz hpn]
    omega

theorem Wp_cons_self (p nm : Nat) (s : α) (rest : List (Oid × Nat × α)) :
    Wp ((p, nm, s) :: rest) p = (p, nm, s) :: Wp rest p := by simp [Wp]

theorem Wp_cons_ne (p nm : Nat) (s : α) (rest : List (Oid × Nat × α)) (t : Oid) (h : t ≠ p) :
    Wp ((p, nm, s) :: rest) t = Wp rest t := by
  have : (p == t) = false := by simpa using (fun e => h e.symm)
  simp [Wp, this]

/-- dropping the head notification: the invariant with exception `p` -/
theorem inv_drop_head {st : St α} {D : List Oid} {p nm : Nat} {s : α} {rest : List (Oid × Nat × α)}
    (inv : InvX P none st D ((p, nm, s) :: rest)) : InvX P (some p) st D rest := by
  refine ⟨inv.nodup, inv.F, inv.U, inv.L, ?_, ?_, inv.Fn, inv.Fm⟩
  · intro t htD hx ht
    have htp : t ≠ p := fun e => hx (by rw [e])
    obtain ⟨r, h1, h2, h3, h4⟩ := inv.R t htD (by simp) ht
    rw [Wp_cons_ne p nm s rest t htp] at h2 h4
    exact ⟨r, h1, h2, h3, h4⟩
  · intro w hw; exact inv.Wv w (List.mem_cons_of_mem _ hw)

theorem nonfin_nil_finK {st : St α} {p : Oid} (hn : nonfin P st p = []) : finK P st p = P.kids p := by
  unfold finK
  apply List.filter_eq_self.mpr
  intro e he
  unfold nonfin at hn
  have := List.filter_eq_nil_iff.mp hn e he
  simpa using this

theorem nonfin_nil_kids {st : St α} {p : Oid} (hn : nonfin P st p = []) : ∀ e ∈ P.kids p, isFin st e.2 = true := by
  intro e he
  unfold nonfin at hn
  have := List.filter_eq_nil_iff.mp hn e he
  simpa using this

variable (P) in
/-- number of notifications the cascade processes (one loop iteration each) -/
def steps : Nat → St α → List (Oid × Nat × α) → Nat
  | 0, _, _ => 0
  | _, _, [] => 0
  | fuel+1, st, (p, nm, sz) :: rest =>
    match st.recs p with
    | none => 1 + steps fuel st rest
    | some r =>
      let r' : Rec α := { r with size := P.op r.size (P.desc nm sz), pending := r.pending - 1 }
      if r'.pending = 0 then
        1 + steps fuel (finalize st p r'.size) (r'.listeners.map (fun l => (l.1, l.2, r'.size)) ++ rest)
      else
        1 + steps fuel { st with recs := upd st.recs p (some r') } rest

/-- the cascade preserves the invariant, and every iteration lowers the potential by exactly one:
    iterations + (potential afterwards) = potential before -/
theorem cascade_inv_steps (h : Laws P) (wf : WFk P) {D : List Oid} :
    ∀ (fuel : Nat) (st : St α) (W : List (Oid × Nat × α)),
      InvX P none st D W → phi P st D W ≤ fuel →
      InvX P none (cascade P fuel st W) D [] ∧
      steps P fuel st W + phi P (cascade P fuel st W) D [] = phi P st D W := by
  intro fuel
  induction fuel with
  | zero =>
    intro st W inv hphi
    have : W = [] := by
      unfold phi at hphi
      cases W with
      | nil => rfl
      | cons a l => simp at hphi
    subst this
    exact ⟨by simpa [cascade] using inv, by simp [steps, cascade]⟩
  | succ fuel ih =>
    intro st W inv hphi
    cases W with
    | nil => exact ⟨by simpa [cascade] using inv, by simp [steps, cascade]⟩
    | cons w rest =>
      obtain ⟨p, nm, s⟩ := w
      obtain ⟨hpD, hpn⟩ := inv.Wv (p, nm, s) (List.mem_cons_self ..)
      obtain ⟨r, hr, hpend, hpos, hS⟩ := inv.R p hpD (by simp) hpn
      rw [Wp_cons_self] at hpend hS
      simp only [List.length_cons, List.map_cons] at hpend hS
      unfold cascade steps
      simp only [hr]
      by_cases hz : r.pending - 1 = 0
      · -- the record becomes complete: finalise and push its listeners
        simp only [hz, if_true]
        have hnf : nonfin P st p = [] := by
          apply List.eq_nil_of_length_eq_zero; omega
        have hwp : Wp rest p = [] := by
          apply List.eq_nil_of_length_eq_zero; omega
        have hsz : P.op r.size (P.desc nm s) = expand P p := by
          rw [hwp, nonfin_nil_finK hnf] at hS
          rw [expand_eq wf p, ← hS]
          simp [h.unitR]
        have hlis : r.listeners = lis st p := by simp [lis, hr]
        rw [hsz, hlis]
        have hrest : ∀ w ∈ rest, w.1 ≠ p := by
          intro w hw hwp'
          have : w ∈ Wp rest p := by simp [Wp, hw, hwp']
          rw [hwp] at this; cases this
        have inv' := fin_push h wf (inv_drop_head inv) hpD hpn (nonfin_nil_kids hnf) hrest
        have hpot : phi P (finalize st p (expand P p)) D ((lis st p).map (fun l => (l.1, l.2, expand P p)) ++ rest) + 1 =
            phi P st D ((p, nm, s) :: rest) := by
          unfold phi
          rw [sum_nonfin_split st p (expand P p) hpn D, ← inv.L p hpn]
          simp only [List.length_cons, List.length_append, List.length_map]
          omega
        obtain ⟨i1, i2⟩ := ih _ _ inv' (by omega)
        exact ⟨i1, by omega⟩
      · -- still waiting for other children
        simp only [hz, if_false]
        have hpot : phi P { st with recs := upd st.recs p (some { r with size := P.op r.size (P.desc nm s), pending := r.pending - 1 }) } D rest + 1 =
            phi P st D ((p, nm, s) :: rest) := by
          unfold phi
          simp only [List.length_cons]
          have e3 : ∀ q, nonfin P { st with recs := upd st.recs p (some { r with size := P.op r.size (P.desc nm s), pending := r.pending - 1 }) } q = nonfin P st q := fun _ => rfl
          simp only [e3]
          omega
        have inv'' : InvX P none { st with recs := upd st.recs p (some { r with size := P.op r.size (P.desc nm s), pending := r.pending - 1 }) } D rest := by
          refine ⟨inv.nodup, ?_, ?_, ?_, ?_, ?_, inv.Fn, inv.Fm⟩
          · intro t s' hs
            have htp : t ≠ p := fun e => by rw [e, hpn] at hs; cases hs
            obtain ⟨h1, h2, h3, h4⟩ := inv.F t s' hs
            exact ⟨h1, h2, by simp [upd, htp, h3], h4⟩
          · intro t ht
            have htp : t ≠ p := fun e => ht (e ▸ hpD)
            have := inv.U t ht
            refine ⟨this.1, ?_⟩
            intro r0 hr0
            simp [upd, htp] at hr0
            exact this.2 r0 hr0
          · intro t ht
            by_cases htp : t = p
            · subst htp
              have := inv.L t ht
              simp only [lis, hr] at this
              simp [lis, upd, this]
            · have := inv.L t ht
              simp only [lis] at this ⊢
              simp only [upd, htp, if_false]
              exact this
          · intro t htD _ ht
            by_cases htp : t = p
            · subst htp
              refine ⟨{ r with size := P.op r.size (P.desc nm s), pending := r.pending - 1 }, by simp [upd], ?_, ?_, ?_⟩
              · show r.pending - 1 = _
                have e1 : nonfin P { st with recs := upd st.recs t (some { r with size := P.op r.size (P.desc nm s), pending := r.pending - 1 }) } t = nonfin P st t := rfl
                rw [e1]; omega
              · show 0 < r.pending - 1
                omega
              · show msum P (P.op r.size (P.desc nm s) :: _) = _
                have e2 : finK P { st with recs := upd st.recs t (some { r with size := P.op r.size (P.desc nm s), pending := r.pending - 1 }) } t = finK P st t := rfl
                rw [e2, ← hS]
                simp only [msum_cons, h.assoc]
            · obtain ⟨r1, h1, h2, h3, h4⟩ := inv.R t htD (by simp) ht
              rw [Wp_cons_ne p nm s rest t htp] at h2 h4
              exact ⟨r1, by simp [upd, htp, h1], h2, h3, h4⟩
          · intro w hw; exact inv.Wv w (List.mem_cons_of_mem _ hw)
        obtain ⟨i1, i2⟩ := ih _ _ inv'' (by omega)
        exact ⟨i1, by omega⟩

theorem cascade_inv (h : Laws P) (wf : WFk P) {D : List Oid} :
    ∀ (fuel : Nat) (st : St α) (W : List (Oid × Nat × α)),
      InvX P none st D W → phi P st D W ≤ fuel → InvX P none (cascade P fuel st W) D [] :=
  fun fuel st W inv hphi => (cascade_inv_steps h wf fuel st W inv hphi).1

end Agg
