import GitSizer.Model.Agg
/-! T1 (aggregator theorem), part 1: algebra, spec, basic definitions. -/
namespace Agg
variable {α : Type} (P : Params α)

structure Laws : Prop where
  comm : ∀ a b, P.op a b = P.op b a
  assoc : ∀ a b c, P.op (P.op a b) c = P.op a (P.op b c)
  unitL : ∀ a, P.op P.unit a = a

def WFk : Prop := ∀ t e, e ∈ P.kids t → e.2 < t

def msum (l : List α) : α := l.foldr P.op P.unit

@[simp] theorem msum_nil : msum P [] = P.unit := rfl
@[simp] theorem msum_cons (a : α) (l : List α) : msum P (a :: l) = P.op a (msum P l) := rfl

variable {P}

theorem Laws.unitR (h : Laws P) (a : α) : P.op a P.unit = a := by rw [h.comm, h.unitL]

theorem msum_append (h : Laws P) (l1 l2 : List α) : msum P (l1 ++ l2) = P.op (msum P l1) (msum P l2) := by
  induction l1 with
  | nil => simp [h.unitL]
  | cons a l ih => simp [ih, h.assoc]

theorem msum_perm (h : Laws P) {l1 l2 : List α} (p : l1.Perm l2) : msum P l1 = msum P l2 := by
  induction p with
  | nil => rfl
  | cons x _ ih => simp [ih]
  | swap x y l => simp only [msum_cons]; rw [← h.assoc, ← h.assoc, h.comm y x]
  | trans _ _ ih1 ih2 => exact ih1.trans ih2

theorem foldl_op_eq_msum (h : Laws P) (l : List α) (b : α) :
    l.foldl (fun s x => P.op s x) b = msum P (b :: l) := by
  induction l generalizing b with
  | nil => simp [h.unitR]
  | cons a l ih => simp only [List.foldl_cons, ih, msum_cons, h.assoc]

/-- msum over a filter split -/
theorem msum_filter_split (h : Laws P) (l : List α) (p : α → Bool) :
    msum P l = P.op (msum P (l.filter p)) (msum P (l.filter (fun x => !p x))) := by
  have := List.filter_append_perm p l
  rw [← msum_append h]; exact (msum_perm h this).symm

variable (P)

def expandF : Nat → Oid → α
  | 0, _ => P.unit
  | f+1, t => msum P (P.base t :: (P.kids t).map (fun e => P.desc e.1 (expandF f e.2)))

def expand (t : Oid) : α := expandF P (t+1) t

variable {P}

theorem expandF_stable (wf : WFk P) : ∀ (t f : Nat), t < f → expandF P f t = expand P t := by
  intro t
  induction t using Nat.strongRecOn with
  | _ t ih =>
    intro f hf
    cases f with
    | zero => omega
    | succ f =>
      unfold expand
      simp only [expandF]
      congr 2
      apply List.map_congr_left
      intro e he
      have hlt := wf t e he
      rw [ih e.2 hlt f (Nat.lt_of_lt_of_le hlt (Nat.le_of_lt_succ hf)), ih e.2 hlt t hlt]

theorem expand_eq (wf : WFk P) (t : Oid) :
    expand P t = msum P (P.base t :: (P.kids t).map (fun e => P.desc e.1 (expand P e.2))) := by
  conv => lhs; unfold expand
  simp only [expandF]
  congr 2
  apply List.map_congr_left
  intro e he
  rw [expandF_stable wf e.2 t (wf t e he)]

/-! state observers -/
variable (P)
def isFin (st : St α) (t : Oid) : Bool := (st.sizes t).isSome
def lis (st : St α) (c : Oid) : List (Oid × Nat) := match st.recs c with | some r => r.listeners | none => []
def waiters (c p : Oid) : List (Oid × Nat) := (P.kids p).filterMap (fun e => if e.2 = c then some (p, e.1) else none)
def Wp (W : List (Oid × Nat × α)) (p : Oid) : List (Oid × Nat × α) := W.filter (fun w => w.1 == p)
def nonfin (st : St α) (p : Oid) : List (Nat × Oid) := (P.kids p).filter (fun e => !isFin st e.2)
def finK (st : St α) (p : Oid) : List (Nat × Oid) := (P.kids p).filter (fun e => isFin st e.2)
variable {P}

theorem isFin_false_iff (st : St α) (t : Oid) : isFin st t = false ↔ st.sizes t = none := by
  unfold isFin; cases st.sizes t <;> simp
theorem isFin_true_iff (st : St α) (t : Oid) : isFin st t = true ↔ ∃ s, st.sizes t = some s := by
  unfold isFin; cases st.sizes t <;> simp

end Agg
