import GitSizer.Proofs.PathRes.Main
/-! Every operation of the path resolver preserves the consistency invariant, provided its
    arguments are consistent with the repository (which is what `graph.go` guarantees: tree entries
    it has parsed, the tree of a parsed commit, names that git itself resolved). -/
namespace GitSizer.Spec
open GitSizer GitSizer.PathRes

variable {e : Env}

/-- the records of `st` persist in `st'` with the same object and type -/
def Ext (st st' : State) : Prop :=
  ∀ (q : Nat) (pq : PathRec), st.arena[q]? = some pq → ∃ pq', st'.arena[q]? = some pq' ∧ pq'.oid = pq.oid ∧ pq'.ty = pq.ty

theorem Ext.refl (st : State) : Ext st st := fun _ pq h => ⟨pq, h, rfl, rfl⟩
theorem Ext.trans {a b c : State} (h1 : Ext a b) (h2 : Ext b c) : Ext a c := by
  intro q pq h
  obtain ⟨p1, hp1, ho1, ht1⟩ := h1 q pq h
  obtain ⟨p2, hp2, ho2, ht2⟩ := h2 q p1 hp1
  exact ⟨p2, hp2, by rw [ho2, ho1], by rw [ht2, ht1]⟩

theorem RecOK_ext {st st' : State} {rec : PathRec} (h : RecOK e st rec) (hx : Ext st st') : RecOK e st' rec := by
  obtain ⟨hk, hp⟩ := h
  refine ⟨hk, ?_⟩
  cases hq : rec.parent with
  | none => rw [hq] at hp; exact hp
  | some q =>
    rw [hq] at hp
    obtain ⟨pq, hpq, hlt, hd⟩ := hp
    obtain ⟨pq', hpq', ho, ht⟩ := hx q pq hpq
    exact ⟨pq', hpq', by rw [ho]; exact hlt, by rw [ho, ht]; exact hd⟩

theorem RecOK_congr {st : State} {rec rec' : PathRec} (h : RecOK e st rec) (ho : rec'.oid = rec.oid)
    (ht : rec'.ty = rec.ty) (hp : rec'.parent = rec.parent) (hr : rec'.rel = rec.rel) : RecOK e st rec' := by
  unfold RecOK at *
  rw [ho, ht, hp, hr]; exact h

/-- state invariant: all records consistent; every sought entry is an unresolved record of its key -/
structure StInv (e : Env) (st : State) : Prop where
  recs : Inv e st
  sought : ∀ (o i : Nat), (o, i) ∈ st.sought →
    ∃ rec, st.arena[i]? = some rec ∧ rec.oid = o ∧ rec.parent = none ∧ rec.rel = []

theorem StInv.empty (e : Env) : StInv e State.empty :=
  ⟨fun i rec h => by simp [State.empty] at h, fun o i h => by simp [State.empty] at h⟩

theorem lookupSought_mem {st : State} {o i : Nat} (h : lookupSought st o = some i) : (o, i) ∈ st.sought := by
  unfold lookupSought at h
  cases hf : st.sought.find? (·.1 == o) with
  | none => rw [hf] at h; cases h
  | some kv =>
    rw [hf] at h
    simp only [Option.map_some, Option.some.injEq] at h
    have hm := List.mem_of_find?_eq_some hf
    have hp := List.find?_some hf
    simp only [beq_iff_eq] at hp
    cases kv with
    | mk a b => simp only at hp h; subst hp; subst h; exact hm

theorem setRec_get (st : State) (i : Nat) (f : PathRec → PathRec) (j : Nat) :
    (setRec st i f).arena[j]? = (fun a => if i = j then f a else a) <$> st.arena[j]? := by
  unfold setRec; exact List.getElem?_modify f i st.arena j

theorem setRec_ext (st : State) (i : Nat) (f : PathRec → PathRec) (hf : ∀ r, (f r).oid = r.oid ∧ (f r).ty = r.ty) :
    Ext st (setRec st i f) := by
  intro q pq h
  rw [setRec_get, h]
  by_cases hi : i = q
  · exact ⟨f pq, by simp [hi], (hf pq).1, (hf pq).2⟩
  · exact ⟨pq, by simp [hi], rfl, rfl⟩

theorem eraseSought_sub (st : State) (o : Nat) (kv : Nat × Nat) (h : kv ∈ (eraseSought st o).sought) :
    kv ∈ st.sought ∧ kv.1 ≠ o := by
  unfold eraseSought at h
  simp only [List.mem_filter, bne_iff_ne, ne_eq] at h
  exact h

/-- modifying only `seekers` keeps the invariant -/
theorem setSeekers_inv {st : State} (inv : StInv e st) (i : Nat) (g : Nat → Nat) :
    StInv e (setRec st i (fun r => { r with seekers := g r.seekers })) := by
  have hx : Ext st (setRec st i (fun r => { r with seekers := g r.seekers })) :=
    setRec_ext st i _ (fun r => ⟨rfl, rfl⟩)
  constructor
  · intro j rec' h
    rw [setRec_get] at h
    cases hj : st.arena[j]? with
    | none => rw [hj] at h; cases h
    | some rec =>
      rw [hj] at h
      simp only [Option.map_eq_map, Option.map_some, Option.some.injEq] at h
      have hold := RecOK_ext (inv.recs j rec hj) hx
      subst h
      split
      · exact RecOK_congr hold rfl rfl rfl rfl
      · exact hold
  · intro o k hm
    obtain ⟨rec, hr, ho, hp, hl⟩ := inv.sought o k hm
    rw [setRec_get, hr]
    by_cases hi : i = k
    · exact ⟨{ rec with seekers := g rec.seekers }, by simp [hi], ho, hp, hl⟩
    · exact ⟨rec, by simp [hi], ho, hp, hl⟩

/-- `requestPathLocked` -/
theorem requestPath_inv {st : State} (inv : StInv e st) (oid : Nat) (ty : OType) (hk : kindOf e.r oid = some ty) :
    StInv e (requestPath st oid ty).1 ∧ Ext st (requestPath st oid ty).1 ∧
    ∃ rec, (requestPath st oid ty).1.arena[(requestPath st oid ty).2]? = some rec ∧ rec.oid = oid ∧ rec.ty = ty := by
  unfold requestPath
  cases hl : lookupSought st oid with
  | some i =>
    simp only
    obtain ⟨rec, hr, ho, _, _⟩ := inv.sought oid i (lookupSought_mem hl)
    refine ⟨setSeekers_inv inv i (fun s => (s + 1) % 256), setRec_ext st i _ (fun r => ⟨rfl, rfl⟩), ?_⟩
    refine ⟨{ rec with seekers := (rec.seekers + 1) % 256 }, by rw [setRec_get, hr]; simp, ho, ?_⟩
    have := (inv.recs i rec hr).1
    rw [ho, hk] at this
    exact (Option.some.inj this).symm
  | none =>
    simp only
    have hx : Ext st ⟨st.arena ++ [⟨oid, ty, 1, none, []⟩], st.sought ++ [(oid, st.arena.length)]⟩ := by
      intro q pq h
      have hlt : q < st.arena.length := by
        rcases Nat.lt_or_ge q st.arena.length with h1 | h1
        · exact h1
        · rw [List.getElem?_eq_none h1] at h; cases h
      exact ⟨pq, by simp only; rw [List.getElem?_append_left hlt]; exact h, rfl, rfl⟩
    refine ⟨⟨?_, ?_⟩, hx, ⟨⟨oid, ty, 1, none, []⟩, by simp, rfl, rfl⟩⟩
    · intro j rec h
      simp only at h
      rcases Nat.lt_or_ge j st.arena.length with h1 | h1
      · rw [List.getElem?_append_left h1] at h
        exact RecOK_ext (inv.recs j rec h) hx
      · rw [List.getElem?_append_right h1] at h
        have : j - st.arena.length = 0 := by
          rcases Nat.eq_zero_or_pos (j - st.arena.length) with h0 | h0
          · exact h0
          · rw [List.getElem?_eq_none (by simp; omega)] at h; cases h
        rw [this] at h
        simp only [List.getElem?_cons_zero, Option.some.injEq] at h
        subst h
        exact ⟨hk, Or.inl rfl⟩
    · intro o k hm
      simp only [List.mem_append, List.mem_singleton, Prod.mk.injEq] at hm
      rcases hm with hm | ⟨rfl, rfl⟩
      · obtain ⟨rec, hr, ho, hp, hrl⟩ := inv.sought o k hm
        obtain ⟨pq', hpq', _, _⟩ := hx k rec hr
        have hlt : k < st.arena.length := by
          rcases Nat.lt_or_ge k st.arena.length with h1 | h1
          · exact h1
          · rw [List.getElem?_eq_none h1] at hr; cases hr
        exact ⟨rec, by simp only; rw [List.getElem?_append_left hlt]; exact hr, ho, hp, hrl⟩
      · exact ⟨⟨o, ty, 1, none, []⟩, by simp, rfl, rfl, rfl⟩

/-- resolving a sought record: set `parent`/`rel` of record i (the sought entry of `oid`) and erase
    the key, given that the new record is consistent -/
theorem resolve_record_inv {st : State} (inv : StInv e st) (oid i : Nat) (hl : (oid, i) ∈ st.sought)
    (par : Option Nat) (rel : Bytes)
    (hnew : ∀ rec, st.arena[i]? = some rec → RecOK e st { rec with parent := par, rel := rel }) :
    StInv e (eraseSought (setRec st i (fun r => { r with parent := par, rel := rel })) oid) := by
  have hx : Ext st (setRec st i (fun r => { r with parent := par, rel := rel })) :=
    setRec_ext st i _ (fun r => ⟨rfl, rfl⟩)
  obtain ⟨reci, hri, hoi, _, _⟩ := inv.sought oid i hl
  constructor
  · intro j rec' h
    change (setRec st i _).arena[j]? = some rec' at h
    rw [setRec_get] at h
    cases hj : st.arena[j]? with
    | none => rw [hj] at h; cases h
    | some rec =>
      rw [hj] at h
      simp only [Option.map_eq_map, Option.map_some, Option.some.injEq] at h
      subst h
      split
      · rename_i hij
        subst hij
        exact RecOK_ext (hnew rec hj) hx
      · exact RecOK_ext (inv.recs j rec hj) hx
  · intro o k hm
    obtain ⟨hm1, hne⟩ := eraseSought_sub _ oid (o, k) hm
    change (o, k) ∈ st.sought at hm1
    obtain ⟨rec, hr, ho, hp, hrl⟩ := inv.sought o k hm1
    have hik : i ≠ k := by
      intro hik; subst hik
      rw [hri] at hr
      have : reci = rec := Option.some.inj hr
      subst this
      exact hne (by simp only; rw [← ho, hoi])
    refine ⟨rec, ?_, ho, hp, hrl⟩
    change (setRec st i _).arena[k]? = some rec
    rw [setRec_get, hr]; simp [hik]

/-- `RecordName`, for a name that git resolved to the object -/
theorem recordName_inv {st : State} (inv : StInv e st) (name : Bytes) (oid : Nat)
    (hn : resolve e.r e.atom name = some oid) : StInv e (recordName st name oid) := by
  unfold recordName
  cases hl : lookupSought st oid with
  | none => exact inv
  | some i =>
    simp only
    obtain ⟨reci, hri, hoi, hpi, hreli⟩ := inv.sought oid i (lookupSought_mem hl)
    have := resolve_record_inv inv oid i (lookupSought_mem hl) none name (by
      intro rec hr
      rw [hri] at hr; cases hr
      exact ⟨(inv.recs i reci hri).1, by simp only; right; rw [hoi]; exact hn⟩)
    have hfun : (fun r : PathRec => { r with rel := name }) = fun r => { r with parent := r.parent, rel := name } := rfl
    -- the record's parent is `none` already
    have hst : setRec st i (fun r => { r with rel := name }) = setRec st i (fun r => { r with parent := none, rel := name }) := by
      unfold setRec
      congr 1
      apply List.ext_getElem?
      intro j
      rw [List.getElem?_modify, List.getElem?_modify]
      cases hj : st.arena[j]? with
      | none => rfl
      | some rec =>
        simp only [Option.map_eq_map, Option.map_some, Option.some.injEq]
        split
        · rename_i hij; subst hij
          rw [hri] at hj; cases hj
          simp [hpi]
        · rfl
    rw [hst]; exact this


theorem requestPath_sought (st : State) (oid : Nat) (ty : OType) (kv : Nat × Nat) (h : kv ∈ st.sought) :
    kv ∈ (requestPath st oid ty).1.sought := by
  unfold requestPath
  cases lookupSought st oid with
  | some i => simp only [setRec]; exact h
  | none => simp only [List.mem_append]; left; exact h

/-- `RecordTreeEntry`, for an entry (blob, symlink or subtree) that the tree really has: it never
    panics and keeps the invariant -/
theorem recordTreeEntry_inv (ok : EnvOK e) {st : State} (inv : StInv e st) (tree : Nat) (name : Bytes) (child : Nat)
    (hkt : kindOf e.r tree = some .tree) (hlk : lookupEntry e.r tree name = some child) (hne : name ≠ [])
    (hsl : slash ∉ name) (hlt : child < tree)
    (hkc : kindOf e.r child = some .blob ∨ kindOf e.r child = some .tree) :
    ∃ st', recordTreeEntry st tree name child = .ok st' ∧ StInv e st' := by
  unfold recordTreeEntry
  cases hl : lookupSought st child with
  | none => exact ⟨st, rfl, inv⟩
  | some i =>
    simp only
    have hm := lookupSought_mem hl
    obtain ⟨reci, hri, hoi, hpi, _⟩ := inv.sought child i hm
    simp only [hri, hpi, Option.isSome_none, Bool.false_eq_true, if_false]
    obtain ⟨inv1, hx1, recq, hrq, hoq, htq⟩ := requestPath_inv inv tree .tree hkt
    refine ⟨_, rfl, ?_⟩
    apply resolve_record_inv inv1 child i (requestPath_sought st tree .tree _ hm)
    intro rec hr
    obtain ⟨_, hr1, ho1, _, _⟩ := inv1.sought child i (requestPath_sought st tree .tree _ hm)
    rw [hr] at hr1; cases hr1
    have hkr := (inv1.recs i rec hr).1
    refine ⟨hkr, ?_⟩
    simp only
    refine ⟨recq, hrq, by rw [ho1, hoq]; exact hlt, Or.inr ⟨hne, hsl, htq, by rw [hoq, ho1]; exact hlk, ?_⟩⟩
    rw [ho1] at hkr
    rcases hkc with h | h
    · left; rw [h] at hkr; exact (Option.some.inj hkr).symm
    · right; rw [h] at hkr; exact (Option.some.inj hkr).symm

/-- `RecordCommit`, for a commit and its tree -/
theorem recordCommit_inv (ok : EnvOK e) {st : State} (inv : StInv e st) (c t : Nat)
    (hkc : kindOf e.r c = some .commit) (hct : commitTreeOf e.r c = some t) :
    ∃ st', recordCommit st c t = .ok st' ∧ StInv e st' := by
  unfold recordCommit
  cases hl : lookupSought st t with
  | none => exact ⟨st, rfl, inv⟩
  | some i =>
    simp only
    have hm := lookupSought_mem hl
    obtain ⟨reci, hri, hoi, hpi, _⟩ := inv.sought t i hm
    simp only [hri, hpi, Option.isSome_none, Bool.false_eq_true, if_false]
    obtain ⟨inv1, hx1, recq, hrq, hoq, htq⟩ := requestPath_inv inv c .commit hkc
    refine ⟨_, rfl, ?_⟩
    apply resolve_record_inv inv1 t i (requestPath_sought st c .commit _ hm)
    intro rec hr
    obtain ⟨_, hr1, ho1, _, _⟩ := inv1.sought t i (requestPath_sought st c .commit _ hm)
    rw [hr] at hr1; cases hr1
    refine ⟨(inv1.recs i rec hr).1, ?_⟩
    simp only
    exact ⟨recq, hrq, by rw [ho1, hoq]; exact (ok.commitTree c t hct).2, Or.inl ⟨trivial, htq, by rw [hoq, ho1]; exact hct⟩⟩

theorem eraseSought_inv {st : State} (inv : StInv e st) (o : Nat) : StInv e (eraseSought st o) :=
  ⟨inv.recs, fun o' k hm => inv.sought o' k (eraseSought_sub st o (o', k) hm).1⟩

/-- `ForgetPath`: when it returns (it panics when a path is forgotten more often than requested)
    the invariant still holds -/
theorem forgetPath_inv : ∀ (fuel : Nat) (st : State) (i : Nat) (st' : State), StInv e st →
    forgetPath fuel st i = .ok st' → StInv e st' := by
  intro fuel
  induction fuel with
  | zero => intro st i st' _ h; simp [forgetPath] at h
  | succ f ih =>
    intro st i st' inv h
    unfold forgetPath at h
    cases hr : st.arena[i]? with
    | none => rw [hr] at h; cases h
    | some r =>
      rw [hr] at h
      simp only at h
      split at h
      · cases h
      · have inv1 := setSeekers_inv inv i (fun s => s - 1)
        split at h
        · cases h; exact inv1
        · cases hp : r.parent with
          | some q => rw [hp] at h; exact ih _ q st' inv1 h
          | none =>
            rw [hp] at h
            simp only at h
            split at h
            · cases h; exact eraseSought_inv inv1 _
            · cases h; exact inv1

/-! ### whole operation sequences -/

inductive Op where
  | request (oid : Nat) (ty : OType)
  | forget (idx : Nat)
  | name (nm : Bytes) (oid : Nat)
  | entry (tree : Nat) (nm : Bytes) (child : Nat)
  | commit (c t : Nat)

def step (st : State) : Op → Res State
  | .request o ty => .ok (requestPath st o ty).1
  | .forget i => forgetPath (st.arena.length + 1) st i
  | .name nm o => .ok (recordName st nm o)
  | .entry t nm c => recordTreeEntry st t nm c
  | .commit c t => recordCommit st c t

def runFrom (s0 : Res State) (ops : List Op) : Res State :=
  ops.foldl (fun (s : Res State) op => s.bind (fun st => step st op)) s0

def run (ops : List Op) : Res State := runFrom (Res.ok State.empty) ops

theorem runFrom_cons (s0 : Res State) (op : Op) (rest : List Op) :
    runFrom s0 (op :: rest) = runFrom (s0.bind (fun st => step st op)) rest := rfl

theorem runFrom_err (c : String) : ∀ (l : List Op), runFrom (Res.err c) l = Res.err c := by
  intro l; induction l with
  | nil => rfl
  | cons a t ih => rw [runFrom_cons]; exact ih

theorem runFrom_panic (c : String) : ∀ (l : List Op), runFrom (Res.panic c) l = Res.panic c := by
  intro l; induction l with
  | nil => rfl
  | cons a t ih => rw [runFrom_cons]; exact ih

/-- the operation's arguments are consistent with the repository -/
def OpOK (e : Env) : Op → Prop
  | .request o ty => kindOf e.r o = some ty
  | .forget _ => True
  | .name nm o => resolve e.r e.atom nm = some o
  | .entry t nm c => kindOf e.r t = some .tree ∧ lookupEntry e.r t nm = some c ∧ nm ≠ [] ∧ slash ∉ nm ∧ c < t ∧
      (kindOf e.r c = some .blob ∨ kindOf e.r c = some .tree)
  | .commit c t => kindOf e.r c = some .commit ∧ commitTreeOf e.r c = some t

/-- `OpOK` is decidable for a concrete repository and name table: the correspondence driver evaluates
    it on every operation of every generated case (cases tagged `thm` meet the theorem's hypothesis) -/
instance (e : Env) (op : Op) : Decidable (OpOK e op) := by
  cases op <;> unfold OpOK <;> infer_instance

theorem step_inv (ok : EnvOK e) {st st' : State} (inv : StInv e st) (op : Op) (hop : OpOK e op)
    (h : step st op = .ok st') : StInv e st' := by
  cases op with
  | request o ty => simp only [step, Res.ok.injEq] at h; subst h; exact (requestPath_inv inv o ty hop).1
  | forget i => exact forgetPath_inv _ st i st' inv h
  | name nm o => simp only [step, Res.ok.injEq] at h; subst h; exact recordName_inv inv nm o hop
  | entry t nm c =>
    obtain ⟨s2, h2, i2⟩ := recordTreeEntry_inv ok inv t nm c hop.1 hop.2.1 hop.2.2.1 hop.2.2.2.1 hop.2.2.2.2.1 hop.2.2.2.2.2
    simp only [step] at h; rw [h2] at h; cases h; exact i2
  | commit c t =>
    obtain ⟨s2, h2, i2⟩ := recordCommit_inv ok inv c t hop.1 hop.2
    simp only [step] at h; rw [h2] at h; cases h; exact i2

theorem run_inv_aux (hok : EnvOK e) : ∀ (ops : List Op) (st : State), StInv e st → (∀ op ∈ ops, OpOK e op) →
    ∀ st', runFrom (Res.ok st) ops = Res.ok st' → StInv e st' := by
  intro ops
  induction ops with
  | nil => intro st inv _ st' h; simp only [runFrom, List.foldl_nil, Res.ok.injEq] at h; subst h; exact inv
  | cons op rest ih =>
    intro st inv hops st' h
    rw [runFrom_cons] at h
    simp only [Res.bind] at h
    cases hs : step st op with
    | ok s1 =>
      rw [hs] at h
      exact ih s1 (step_inv hok inv op (hops op List.mem_cons_self) hs) (fun o ho => hops o (List.mem_cons_of_mem _ ho)) st' h
    | err c => rw [hs, runFrom_err] at h; cases h
    | panic c => rw [hs, runFrom_panic] at h; cases h

/-- **every state reached by a consistent operation sequence satisfies the invariant** -/
theorem run_inv (hok : EnvOK e) (ops : List Op) (hops : ∀ op ∈ ops, OpOK e op) (st : State)
    (h : run ops = Res.ok st) : StInv e st :=
  run_inv_aux hok ops State.empty (StInv.empty e) hops st h

end GitSizer.Spec
