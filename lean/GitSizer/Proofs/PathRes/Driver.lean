import GitSizer.Proofs.PathRes.Ops
import GitSizer.Model.Scan
/-! The facts that a scan reports to the path resolver are consistent with the repository.

`graph.go` tells the resolver three kinds of facts (the call sites are regenerated and pinned by
`C08.resolver_calls_pinned`): every entry of every listed tree except submodule links
(`RecordTreeEntry(tree, name, entry.OID)`, from `treeRecord.initialize` or its listener), the tree
of every listed commit (`RecordCommit(commit.oid, commit.tree)`), and the name of every walked root
together with the object id git resolved it to (`RecordName`). `scanFacts` lists them; `scan_facts_ok`
proves each one satisfies `OpOK`, the hypothesis of `descriptions_resolve`, from what git guarantees
about a repository it accepts (`RepoOK`: what `git fsck` enforces on trees) and about the roots. -/
namespace GitSizer.Spec
open GitSizer GitSizer.PathRes

/-- what git (fsck) guarantees about stored trees: an entry's mode agrees with the kind of the object
    it names (submodule links apart: they name a commit of another repository), names are non-empty,
    contain no '/', and are not repeated within a tree -/
structure RepoOK (r : Repo) : Prop where
  wf : r.WF
  treeKind : ∀ t en, en ∈ r.entries t → en.kind = .tree → kindOf r en.oid = some .tree
  blobKind : ∀ t en, en ∈ r.entries t → (en.kind = .blob ∨ en.kind = .symlink) → kindOf r en.oid = some .blob
  nameOK : ∀ t en, en ∈ r.entries t → en.name ≠ [] ∧ slash ∉ en.name
  nameUnique : ∀ t en en', en ∈ r.entries t → en' ∈ r.entries t → en.name = en'.name → en = en'

/-- `RecordTreeEntry` calls for one tree: every entry but the submodule links -/
def entryFacts (r : Repo) (t : Nat) : List Op :=
  (r.entries t).filterMap (fun en => if en.kind = .gitlink then none else some (.entry t en.name en.oid))

/-- `RecordCommit(commit.oid, commit.tree)` -/
def commitFact (r : Repo) (c : Nat) : List Op :=
  match r.obj c with
  | some (.commit _ t _) => [.commit c t]
  | _ => []

/-- all facts of one scan: entries of the listed trees, trees of the listed commits, names of the
    walked roots (the order in which they arrive depends on the listener cascade and is irrelevant:
    `descriptions_resolve` holds for every order) -/
def scanFacts (r : Repo) (listing : List Nat) (roots : List (Bytes × Nat)) : List Op :=
  (Scan.treesIn r listing).flatMap (entryFacts r) ++ (listing.flatMap (commitFact r)) ++ roots.map (fun nr => .name nr.1 nr.2)

theorem lookupEntry_of_mem {r : Repo} (ok : RepoOK r) {t : Nat} {en : Entry} (h : en ∈ r.entries t) :
    lookupEntry r t en.name = some en.oid := by
  unfold lookupEntry
  cases hf : (r.entries t).find? (fun e => e.name == en.name) with
  | none =>
    have := List.find?_eq_none.mp hf en h
    simp at this
  | some e' =>
    have hm : e' ∈ r.entries t := List.mem_of_find?_eq_some hf
    have hn : e'.name = en.name := by
      have := List.find?_some hf
      simpa using this
    have := ok.nameUnique t e' en hm h hn
    subst this
    rfl

theorem kind_cases (en : Entry) : en.kind = .tree ∨ en.kind = .gitlink ∨ en.kind = .symlink ∨ en.kind = .blob := by
  cases en.kind <;> simp

theorem isTree_kindOf {r : Repo} {t : Nat} (h : Scan.isTree r t = true) : kindOf r t = some .tree := by
  unfold Scan.isTree at h
  unfold kindOf
  cases ho : r.obj t with
  | none => rw [ho] at h; cases h
  | some o => rw [ho] at h; cases o <;> simp_all

/-- **every fact the scan reports is true of the repository** -/
theorem scan_facts_ok (e : Env) (hr : RepoOK e.r) (listing : List Nat) (roots : List (Bytes × Nat))
    (hroots : ∀ nr ∈ roots, resolve e.r e.atom nr.1 = some nr.2) :
    ∀ op ∈ scanFacts e.r listing roots, OpOK e op := by
  intro op hop
  unfold scanFacts at hop
  rcases List.mem_append.mp hop with h12 | h3
  · rcases List.mem_append.mp h12 with h1 | h2
    · -- a tree entry
      obtain ⟨t, ht, hin⟩ := List.mem_flatMap.mp h1
      have htree : Scan.isTree e.r t = true := by
        unfold Scan.treesIn at ht
        exact (List.mem_filter.mp ht).2
      unfold entryFacts at hin
      obtain ⟨en, hen, heq⟩ := List.mem_filterMap.mp hin
      by_cases hg : en.kind = .gitlink
      · simp [hg] at heq
      · simp only [hg, if_false, Option.some.injEq] at heq
        subst heq
        have hnm := hr.nameOK t en hen
        have hlt : en.oid < t := by
          apply hr.wf t
          unfold Repo.edges
          have hent : e.r.entries t = _ := rfl
          unfold Repo.entries at hen hent
          cases ho : e.r.obj t with
          | none => rw [ho] at hen; cases hen
          | some o =>
            rw [ho] at hen
            cases o with
            | tree s es =>
              simp only at hen ⊢
              exact List.mem_map.mpr ⟨en, List.mem_filter.mpr ⟨hen, by simp [hg]⟩, rfl⟩
            | blob _ => cases hen
            | commit _ _ _ => cases hen
            | tag _ _ _ => cases hen
        refine ⟨isTree_kindOf htree, lookupEntry_of_mem hr hen, hnm.1, hnm.2, hlt, ?_⟩
        rcases kind_cases en with hk | hk | hk | hk
        · exact Or.inr (hr.treeKind t en hen hk)
        · exact absurd hk hg
        · exact Or.inl (hr.blobKind t en hen (Or.inr hk))
        · exact Or.inl (hr.blobKind t en hen (Or.inl hk))
    · -- a commit's tree
      obtain ⟨c, _, hin⟩ := List.mem_flatMap.mp h2
      unfold commitFact at hin
      cases ho : e.r.obj c with
      | none => rw [ho] at hin; cases hin
      | some o =>
        rw [ho] at hin
        cases o with
        | commit s t ps =>
          simp only [List.mem_singleton] at hin
          subst hin
          exact ⟨by simp [kindOf, ho], by simp [commitTreeOf, ho]⟩
        | blob _ => cases hin
        | tree _ _ => cases hin
        | tag _ _ _ => cases hin
  · -- a root name
    obtain ⟨nr, hnr, heq⟩ := List.mem_map.mp h3
    subst heq
    exact hroots nr hnr

/-- an operation the resolver receives during a scan: one of the scan's facts, a request for an
    object of the stated kind (`setPath` is called by `record*` with the kind of the object it was
    given), or a forget -/
def ScanOp (e : Env) (listing : List Nat) (roots : List (Bytes × Nat)) (op : Op) : Prop :=
  op ∈ scanFacts e.r listing roots ∨ (∃ o ty, op = .request o ty ∧ kindOf e.r o = some ty) ∨ (∃ i, op = .forget i)

theorem scanOp_ok (e : Env) (hr : RepoOK e.r) (listing : List Nat) (roots : List (Bytes × Nat))
    (hroots : ∀ nr ∈ roots, resolve e.r e.atom nr.1 = some nr.2) (op : Op) (h : ScanOp e listing roots op) : OpOK e op := by
  rcases h with h | ⟨o, ty, rfl, hk⟩ | ⟨i, rfl⟩
  · exact scan_facts_ok e hr listing roots hroots op h
  · exact hk
  · trivial

end GitSizer.Spec
