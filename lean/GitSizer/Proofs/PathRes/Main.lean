import GitSizer.Proofs.PathRes.Eval
/-! The path-resolver theorem: in every state whose records are consistent with the repository
    (`Inv`), every non-empty description `Path()` denotes, in git's revision syntax, exactly the
    object it describes; and `TreePrefix()` of a tree (commit) is a prefix to which any path inside
    that tree (the commit's tree) can be appended. -/
namespace GitSizer.Spec
open GitSizer GitSizer.PathRes

structure Env where
  r : Repo
  atom : Bytes → Option Nat
  hex : Nat → Bytes

def commitTreeOf (r : Repo) (c : Nat) : Option Nat :=
  match r.obj c with
  | some (.commit _ t _) => some t
  | _ => none

/-- assumptions about git and the repository -/
structure EnvOK (e : Env) : Prop where
  /-- git's basic name resolution never accepts a string with a top-level ':' -/
  atomNoColon : ∀ s, (splitTop 0 s).isSome → e.atom s = none
  /-- an object id resolves to its object; its 40 hex digits contain no ':', '{', '}' -/
  hexAtom : ∀ i, e.atom (e.hex i) = some i
  hexClean : ∀ i, ∀ c ∈ e.hex i, c ≠ colon ∧ c ≠ lbrace ∧ c ≠ rbrace
  hexNonempty : ∀ i, e.hex i ≠ []
  /-- a commit's tree is a tree, with a smaller index (hash order) -/
  commitTree : ∀ c t, commitTreeOf e.r c = some t → kindOf e.r t = some .tree ∧ t < c

/-- one `Path` object is consistent with the repository -/
def RecOK (e : Env) (st : State) (rec : PathRec) : Prop :=
  kindOf e.r rec.oid = some rec.ty ∧
  match rec.parent with
  | some q => ∃ pq, st.arena[q]? = some pq ∧ rec.oid < pq.oid ∧
      ((rec.rel = [] ∧ pq.ty = .commit ∧ commitTreeOf e.r pq.oid = some rec.oid) ∨
       (rec.rel ≠ [] ∧ slash ∉ rec.rel ∧ pq.ty = .tree ∧ lookupEntry e.r pq.oid rec.rel = some rec.oid ∧
        (rec.ty = .blob ∨ rec.ty = .tree)))
  | none => rec.rel = [] ∨ resolve e.r e.atom rec.rel = some rec.oid

def Inv (e : Env) (st : State) : Prop := ∀ (i : Nat) (rec : PathRec), st.arena[i]? = some rec → RecOK e st rec

/-- `pre` is a prefix to which any non-empty path inside tree `T` can be appended -/
def TreeDen (e : Env) (pre : Bytes) (T : Nat) : Prop :=
  kindOf e.r T = some .tree ∧ ∀ x, x ≠ [] → resolve e.r e.atom (pre ++ x) = walkC e.r T [] x

variable {e : Env}

theorem hex_NoCB (ok : EnvOK e) (i : Nat) : NoCB (e.hex i) := fun c hc => ⟨(ok.hexClean i c hc).1, (ok.hexClean i c hc).2.1⟩

theorem evalRev_hex (ok : EnvOK e) (i : Nat) : evalRev e.r e.atom (e.hex i).length (e.hex i) = some i := by
  cases hl : (e.hex i).length with
  | zero => exact absurd (List.eq_nil_of_length_eq_zero hl) (ok.hexNonempty i)
  | succ m =>
    rw [evalRev]
    have : (e.hex i).getLast? ≠ some rbrace := by
      intro h
      have hm : rbrace ∈ e.hex i := List.mem_of_getLast? h
      exact (ok.hexClean i _ hm).2.2 rfl
    simp only [this, if_false]
    exact ok.hexAtom i

theorem resolve_hex (ok : EnvOK e) (i : Nat) : resolve e.r e.atom (e.hex i) = some i := by
  rw [resolve_nocolon _ (splitTop_none_clean _ (hex_NoCB ok i))]
  exact evalRev_hex ok i

theorem peelTo_self (r : Repo) (ty : OType) (o : Nat) (h : kindOf r o = some ty) : peelTo r ty (o + 1) o = some o := by
  simp [peelTo, h]

theorem peelTo_commit (ok : EnvOK e) (c t : Nat) (h : commitTreeOf e.r c = some t) :
    peelTo e.r .tree (c + 1) c = some t := by
  obtain ⟨hk, hlt⟩ := ok.commitTree c t h
  unfold commitTreeOf at h
  cases ho : e.r.obj c with
  | none => rw [ho] at h; cases h
  | some o =>
    rw [ho] at h
    cases o with
    | commit sz t' ps =>
      simp only [Option.some.injEq] at h; subst h
      have hkc : kindOf e.r c = some .commit := by simp [kindOf, ho]
      have hc1 : c = (c - 1) + 1 := by omega
      rw [peelTo, hkc]
      simp only [ho, if_true]
      rw [hc1, peelTo, hk]; simp
    | blob _ => cases h
    | tree _ _ => cases h
    | tag _ _ _ => cases h

/-- `<base>:` for a brace- and colon-free `<base>` that denotes something peeling to tree T -/
theorem prefix_den (ok : EnvOK e) (base : Bytes) (hb : NoCB base) (o T : Nat)
    (he : evalRev e.r e.atom base.length base = some o) (hp : peelTo e.r .tree (o + 1) o = some T)
    (hk : kindOf e.r T = some .tree) : TreeDen e (base ++ [colon]) T := by
  refine ⟨hk, ?_⟩
  intro x hx
  have : base ++ [colon] ++ x = base ++ colon :: x := by simp
  rw [this, resolve_colon ok.atomNoColon base hb x, he]
  simp only [hp, walkPath, hx, if_false]

/-- `<base>^{tree}` for a `<base>` without top-level ':' that denotes commit c -/
theorem peel_den (ok : EnvOK e) (base : Bytes) (c t : Nat)
    (he : evalRev e.r e.atom base.length base = some c) (ht : commitTreeOf e.r c = some t) :
    resolve e.r e.atom (base ++ peelSuffix .tree) = some t := by
  have hlen : (base ++ peelSuffix .tree).length = (base.length + 6) + 1 := by simp [peelSuffix, OType.name]
  unfold resolve
  rw [hlen, evalRev_peelSuffix e.r e.atom .tree (by decide) base, evalRev_fuel e.r e.atom (base.length + 6) base (by omega), he]
  simp [applyPeel, peelTo_commit ok c t ht]


/-- what a root name gives, as a revision, when it has no top-level ':' -/
theorem name_evalRev (name : Bytes) (o : Nat) (hs : splitTop 0 name = none)
    (hr : resolve e.r e.atom name = some o) : evalRev e.r e.atom name.length name = some o := by
  rw [resolve_nocolon _ hs] at hr; exact hr

/-- a record of commit type has no parent -/
theorem commit_no_parent (ok : EnvOK e) {st : State} {rec : PathRec} (h : RecOK e st rec)
    (hc : rec.ty = .commit) : rec.parent = none := by
  obtain ⟨hk, hp⟩ := h
  cases hpar : rec.parent with
  | none => rfl
  | some q =>
    rw [hpar] at hp
    obtain ⟨pq, _, _, h1 | h2⟩ := hp
    · have := (ok.commitTree _ _ h1.2.2).1
      rw [hk, hc] at this; cases this
    · rcases h2.2.2.2.2 with hb | hb <;> rw [hc] at hb <;> cases hb


theorem kindOf_ne_other (r : Repo) (o : Nat) : kindOf r o ≠ some .other := by
  unfold kindOf
  cases r.obj o with
  | none => simp
  | some ob => cases ob <;> simp

theorem commitTreeOf_of_kind (r : Repo) (c : Nat) (h : kindOf r c = some .commit) : ∃ t, commitTreeOf r c = some t := by
  unfold kindOf at h
  unfold commitTreeOf
  cases ho : r.obj c with
  | none => rw [ho] at h; cases h
  | some ob =>
    rw [ho] at h
    cases ob with
    | commit _ t _ => exact ⟨t, rfl⟩
    | blob _ => cases h
    | tree _ _ => cases h
    | tag _ _ _ => cases h

/-- `TreePrefix()` of a tree that was named directly -/
theorem root_tree_den (ok : EnvOK e) (name : Bytes) (oid : Nat) (hk : kindOf e.r oid = some .tree)
    (hr : resolve e.r e.atom name = some oid) : TreeDen e (rootTreePrefix e.hex name oid) oid := by
  unfold rootTreePrefix
  cases hsc : scanRevision 0 false 0 name with
  | mk res braces =>
    cases braces with
    | true =>
      exact prefix_den ok _ (hex_NoCB ok oid) oid oid (evalRev_hex ok oid) (peelTo_self _ _ _ hk) hk
    | false =>
      rcases scan_nobrace name 0 res hsc with ⟨hres, hn⟩ | ⟨rev, p0, hname, hrev, hres⟩
      · subst hres
        exact prefix_den ok _ hn oid oid (name_evalRev name oid (splitTop_none_clean _ hn) hr)
          (peelTo_self _ _ _ hk) hk
      · subst hres
        simp only [Nat.zero_add]
        -- what the name itself denotes
        rw [hname, resolve_colon ok.atomNoColon rev hrev p0] at hr
        cases hev : evalRev e.r e.atom rev.length rev with
        | none => rw [hev] at hr; cases hr
        | some o =>
          rw [hev] at hr
          simp only at hr
          cases hpe : peelTo e.r .tree (o + 1) o with
          | none => rw [hpe] at hr; cases hr
          | some T0 =>
            rw [hpe] at hr
            simp only at hr
            have hres : ∀ y, resolve e.r e.atom (rev ++ colon :: y) = walkPath e.r T0 y := by
              intro y; rw [resolve_colon ok.atomNoColon rev hrev y, hev]; simp only [hpe]
            have hlen : name.length = rev.length + 1 + p0.length := by rw [hname]; simp; omega
            by_cases hp0 : p0 = []
            · -- "<rev>:" — extended as it is
              subst hp0
              have hcond : rev.length = name.length - 1 ∨ name.getLast? = some slash := by left; rw [hlen]; simp
              rw [if_pos hcond]
              simp only [walkPath, if_true, Option.some.injEq] at hr
              subst hr
              refine ⟨hk, ?_⟩
              intro x hx
              rw [hname]
              have : rev ++ [colon] ++ x = rev ++ colon :: x := by simp
              rw [this, hres x]; simp [walkPath, hx]
            · have hwalk : walkC e.r T0 [] p0 = some oid := by simpa [walkPath, hp0] using hr
              have hlast : name.getLast? = p0.getLast? := by
                rw [hname, List.getLast?_append]
                cases hq : (colon :: p0).getLast? with
                | none => simp at hq
                | some c =>
                  rw [List.getLast?_cons_of_ne_nil hp0] at hq
                  simp [hq]
              by_cases hsl : p0.getLast? = some slash
              · -- "<rev>:<dir>/" — extended as it is
                have hcond : rev.length = name.length - 1 ∨ name.getLast? = some slash := by right; rw [hlast]; exact hsl
                rw [if_pos hcond]
                obtain ⟨q, hq⟩ : ∃ q, p0 = q ++ [slash] := by
                  have := List.getLast?_eq_some_iff.mp hsl
                  obtain ⟨q, hq⟩ := this; exact ⟨q, hq⟩
                refine ⟨hk, ?_⟩
                intro x hx
                rw [hname]
                have : rev ++ colon :: p0 ++ x = rev ++ colon :: (q ++ slash :: x) := by rw [hq]; simp
                rw [this, hres]
                have hne : q ++ slash :: x ≠ [] := by simp
                simp only [walkPath, hne, if_false]
                rw [hq] at hwalk
                exact walkC_trailing e.r q T0 [] oid x hwalk hx
              · -- "<rev>:<path>" — a '/' is inserted
                have hcond : ¬ (rev.length = name.length - 1 ∨ name.getLast? = some slash) := by
                  intro h
                  rcases h with h | h
                  · have : p0.length = 0 := by omega
                    exact hp0 (List.eq_nil_of_length_eq_zero this)
                  · rw [hlast] at h; exact hsl h
                rw [if_neg hcond]
                refine ⟨hk, ?_⟩
                intro x hx
                rw [hname]
                have : rev ++ colon :: p0 ++ [slash] ++ x = rev ++ colon :: (p0 ++ slash :: x) := by simp
                rw [this, hres]
                have hne : p0 ++ slash :: x ≠ [] := by simp
                simp only [walkPath, hne, if_false]
                exact walkC_extend e.r p0 T0 [] oid x hwalk hsl hx


/-- `TreePrefix()` of a commit without parent path: its name (if it can be extended) or its id -/
theorem commit_prefix_den (ok : EnvOK e) (rel : Bytes) (c t : Nat) (ht : commitTreeOf e.r c = some t)
    (hr : rel = [] ∨ resolve e.r e.atom rel = some c) :
    TreeDen e (if rel ≠ [] then
        (if (scanRevision 0 false 0 rel).1 ≠ none ∨ (scanRevision 0 false 0 rel).2 then e.hex c ++ [colon]
         else rel ++ [colon])
      else e.hex c ++ [colon]) t := by
  have hkt := (ok.commitTree c t ht).1
  have hhex : TreeDen e (e.hex c ++ [colon]) t :=
    prefix_den ok _ (hex_NoCB ok c) c t (evalRev_hex ok c) (peelTo_commit ok c t ht) hkt
  by_cases hrel : rel = []
  · simp only [hrel, ne_eq, not_true_eq_false, if_false]; exact hhex
  · simp only [hrel, ne_eq, not_false_eq_true, if_true]
    split
    · exact hhex
    · rename_i hcond
      have h1 : (scanRevision 0 false 0 rel).1 = none := by
        cases h : (scanRevision 0 false 0 rel).1 with
        | none => rfl
        | some i => exact absurd (Or.inl (by rw [h]; simp)) hcond
      have h2 : (scanRevision 0 false 0 rel).2 = false := by
        cases h : (scanRevision 0 false 0 rel).2 with
        | false => rfl
        | true => exact absurd (Or.inr h) hcond
      have hsc : scanRevision 0 false 0 rel = (none, false) := Prod.ext h1 h2
      rcases scan_nobrace rel 0 none hsc with ⟨_, hn⟩ | ⟨rev, rest, _, _, hres⟩
      · have hres := hr.resolve_left hrel
        exact prefix_den ok _ hn c t (name_evalRev rel c (splitTop_none_clean _ hn) hres) (peelTo_commit ok c t ht) hkt
      · cases hres

/-- `revision()^{tree}` of a commit -/
theorem revision_den (ok : EnvOK e) (st : State) (q : Nat) (pq : PathRec) (hq : st.arena[q]? = some pq)
    (t : Nat) (ht : commitTreeOf e.r pq.oid = some t)
    (hr : pq.rel = [] ∨ resolve e.r e.atom pq.rel = some pq.oid) :
    resolve e.r e.atom (revisionOf e.hex st q pq.rel ++ peelSuffix .tree) = some t := by
  unfold revisionOf
  split
  · rename_i hcond
    have hs : splitTop 0 pq.rel = none := (scan_none_iff pq.rel 0 false 0).mp hcond.2
    exact peel_den ok pq.rel pq.oid t (name_evalRev _ _ hs (hr.resolve_left hcond.1)) ht
  · simp only [hq]
    exact peel_den ok _ pq.oid t (evalRev_hex ok pq.oid) ht


/-- **Main theorem** (by induction on the fuel, which the parent chain never exhausts because a
    parent's object index is larger than its child's and all indices are at most `M`). -/
theorem descriptions (ok : EnvOK e) (st : State) (inv : Inv e st) (M : Nat)
    (hM : ∀ (i : Nat) (rec : PathRec), st.arena[i]? = some rec → rec.oid ≤ M) :
    ∀ (fuel i : Nat) (rec : PathRec), st.arena[i]? = some rec → M < fuel + rec.oid →
      (path e.hex st fuel i ≠ [] → resolve e.r e.atom (path e.hex st fuel i) = some rec.oid) ∧
      (rec.ty = .tree → TreeDen e (treePrefix e.hex st fuel i) rec.oid) ∧
      (rec.ty = .commit → ∃ t, commitTreeOf e.r rec.oid = some t ∧ TreeDen e (treePrefix e.hex st fuel i) t) := by
  intro fuel
  induction fuel with
  | zero =>
    intro i rec h hf
    have := hM i rec h; omega
  | succ f ih =>
    intro i rec h hf
    obtain ⟨hk, hp⟩ := inv i rec h
    have hroot : rec.parent = none → rec.rel ≠ [] → resolve e.r e.atom rec.rel = some rec.oid := by
      intro hpn hrel
      rw [hpn] at hp
      exact hp.resolve_left hrel
    -- facts about a tree parent / a commit parent
    have htreeparent : ∀ q, rec.parent = some q → rec.rel ≠ [] →
        ∃ pq, st.arena[q]? = some pq ∧ slash ∉ rec.rel ∧ lookupEntry e.r pq.oid rec.rel = some rec.oid ∧
          TreeDen e (treePrefix e.hex st f q) pq.oid := by
      intro q hq hrel
      rw [hq] at hp
      obtain ⟨pq, hpq, hlt, h1 | h2⟩ := hp
      · exact absurd h1.1 hrel
      · have := (ih q pq hpq (by omega)).2.1 h2.2.2.1
        exact ⟨pq, hpq, h2.2.1, h2.2.2.2.1, this⟩
    have hcommitparent : ∀ q, rec.parent = some q → rec.rel = [] →
        ∃ pq, st.arena[q]? = some pq ∧ pq.ty = .commit ∧ commitTreeOf e.r pq.oid = some rec.oid ∧ M < f + pq.oid := by
      intro q hq hrel
      rw [hq] at hp
      obtain ⟨pq, hpq, hlt, h1 | h2⟩ := hp
      · exact ⟨pq, hpq, h1.2.1, h1.2.2, by omega⟩
      · exact absurd hrel h2.1
    -- the description of an entry of a tree
    have hentry : ∀ q, rec.parent = some q → rec.rel ≠ [] →
        resolve e.r e.atom (treePrefix e.hex st f q ++ rec.rel) = some rec.oid := by
      intro q hq hrel
      obtain ⟨pq, _, hsl, hlk, hden⟩ := htreeparent q hq hrel
      rw [hden.2 _ hrel, walkC_leaf e.r pq.oid rec.rel hrel hsl, hlk]
    -- the description of the tree of a commit
    have htop : ∀ q, rec.parent = some q → rec.rel = [] →
        resolve e.r e.atom (revisionOf e.hex st q (path e.hex st f q) ++ peelSuffix .tree) = some rec.oid := by
      intro q hq hrel
      obtain ⟨pq, hpq, hty, hct, hfq⟩ := hcommitparent q hq hrel
      have hpqok := inv q pq hpq
      have hnp := commit_no_parent ok hpqok hty
      have hf1 : f = (f - 1) + 1 := by have := hM q pq hpq; omega
      have hpath : path e.hex st f q = pq.rel := by
        rw [hf1]; simp only [path, hpq, hty, hnp]
      rw [hpath]
      have hr := hpqok.2
      rw [hnp] at hr
      exact revision_den ok st q pq hpq rec.oid hct hr
    have htykind : rec.parent ≠ none → rec.rel = [] → rec.ty = .tree := by
      intro hpn hrel
      cases hq : rec.parent with
      | none => exact absurd hq hpn
      | some q =>
        obtain ⟨pq, _, _, hct, _⟩ := hcommitparent q hq hrel
        have := (ok.commitTree _ _ hct).1
        rw [hk] at this
        exact Option.some.inj this
    cases hty : rec.ty with
    | other => rw [hty] at hk; exact absurd hk (kindOf_ne_other _ _)
    | blob =>
      refine ⟨?_, (by intro hh; cases hh), (by intro hh; cases hh)⟩
      simp only [path, h, hty]
      cases hq : rec.parent with
      | none => simp only; intro hne; exact hroot hq hne
      | some q =>
        simp only
        by_cases hrel : rec.rel = []
        · have := htykind (by rw [hq]; simp) hrel
          rw [hty] at this; cases this
        · simp only [hrel, if_false]; intro _; exact hentry q hq hrel
    | tree =>
      refine ⟨?_, ?_, (by intro hh; cases hh)⟩
      · simp only [path, h, hty]
        cases hq : rec.parent with
        | none => simp only; intro hne; exact hroot hq hne
        | some q =>
          simp only
          by_cases hrel : rec.rel = []
          · simp only [hrel, if_true]; intro _; exact htop q hq hrel
          · simp only [hrel, if_false]; intro _; exact hentry q hq hrel
      · intro _
        have hkt : kindOf e.r rec.oid = some .tree := by rw [hk, hty]
        simp only [treePrefix, h, hty]
        cases hq : rec.parent with
        | none =>
          simp only
          by_cases hrel : rec.rel = []
          · simp only [hrel, ne_eq, not_true_eq_false, if_false]
            exact prefix_den ok _ (hex_NoCB ok _) _ _ (evalRev_hex ok _) (peelTo_self _ _ _ hkt) hkt
          · simp only [hrel, ne_eq, not_false_eq_true, if_true]
            exact root_tree_den ok rec.rel rec.oid hkt (hroot hq hrel)
        | some q =>
          simp only
          by_cases hrel : rec.rel = []
          · simp only [hrel, if_true]
            obtain ⟨pq, hpq, hcty, hct, hfq⟩ := hcommitparent q hq hrel
            obtain ⟨t, ht, hden⟩ := (ih q pq hpq hfq).2.2 hcty
            rw [hct] at ht; cases ht; exact hden
          · simp only [hrel, if_false]
            obtain ⟨pq, _, hsl, hlk, hden⟩ := htreeparent q hq hrel
            refine ⟨hkt, ?_⟩
            intro x hx
            have : treePrefix e.hex st f q ++ rec.rel ++ [slash] ++ x = treePrefix e.hex st f q ++ (rec.rel ++ slash :: x) := by simp
            rw [this, hden.2 _ (by simp), walkC_dir e.r pq.oid rec.rel x hrel hsl hx, hlk]
    | commit =>
      have hnp := commit_no_parent ok (inv i rec h) hty
      refine ⟨?_, (by intro hh; cases hh), ?_⟩
      · simp only [path, h, hty, hnp]; intro hne; exact hroot hnp hne
      · intro _
        obtain ⟨t, ht⟩ := commitTreeOf_of_kind e.r rec.oid (by rw [hk, hty])
        refine ⟨t, ht, ?_⟩
        simp only [treePrefix, h, hty, hnp]
        have hr := hp; rw [hnp] at hr
        exact commit_prefix_den ok rec.rel rec.oid t ht hr
    | tag =>
      have hnp : rec.parent = none := by
        cases hq : rec.parent with
        | none => rfl
        | some q =>
          rw [hq] at hp
          obtain ⟨pq, _, _, h1 | h2⟩ := hp
          · have := (ok.commitTree _ _ h1.2.2).1
            rw [hk, hty] at this; cases this
          · rcases h2.2.2.2.2 with hb | hb <;> rw [hty] at hb <;> cases hb
      refine ⟨?_, (by intro hh; cases hh), (by intro hh; cases hh)⟩
      simp only [path, h, hty, hnp]; intro hne; exact hroot hnp hne


theorem le_foldl_max (l : List PathRec) : ∀ (m : Nat), m ≤ l.foldl (fun m r => max m r.oid) m ∧
    ∀ rec ∈ l, rec.oid ≤ l.foldl (fun m r => max m r.oid) m := by
  induction l with
  | nil => intro m; exact ⟨Nat.le_refl _, fun _ h => by cases h⟩
  | cons a t ih =>
    intro m
    obtain ⟨h1, h2⟩ := ih (max m a.oid)
    simp only [List.foldl_cons]
    refine ⟨by omega, ?_⟩
    intro rec hrec
    rcases List.mem_cons.mp hrec with rfl | hm
    · omega
    · exact h2 rec hm

theorem oid_le_maxOid (st : State) (i : Nat) (rec : PathRec) (h : st.arena[i]? = some rec) : rec.oid ≤ maxOid st :=
  (le_foldl_max st.arena 0).2 rec (List.mem_of_getElem? h)

/-- **`Path.String()` is the object id, followed — if a description is printed — by a revision
    expression that denotes exactly that object.** -/
theorem pathString_correct (ok : EnvOK e) (st : State) (inv : Inv e st) (i : Nat) (rec : PathRec)
    (h : st.arena[i]? = some rec) :
    pathString e.hex st i = e.hex rec.oid ∨
    ∃ d, pathString e.hex st i = e.hex rec.oid ++ [32, 40] ++ d ++ [41] ∧ resolve e.r e.atom d = some rec.oid := by
  unfold pathString
  simp only [h]
  split
  · left; rfl
  · rename_i hne
    right
    refine ⟨_, rfl, ?_⟩
    exact (descriptions ok st inv (maxOid st) (oid_le_maxOid st) (maxOid st + 1) i rec h (by omega)).1 hne

end GitSizer.Spec
