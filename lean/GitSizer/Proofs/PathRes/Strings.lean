import GitSizer.Spec.RevParse
/-! String-level lemmas for the path-resolver theorem: git's ':' scan on revisions without braces,
    the last "^{" of a string, path walking over appended components. -/
namespace GitSizer.Spec
open GitSizer GitSizer.PathRes

/-- no ':' and no '{' -/
def NoCB (s : Bytes) : Prop := ∀ c ∈ s, c ≠ colon ∧ c ≠ lbrace

theorem NoCB.tail {c : UInt8} {s : Bytes} (h : NoCB (c :: s)) : NoCB s :=
  fun x hx => h x (List.mem_cons_of_mem _ hx)

theorem splitTop_clean : ∀ (rev rest : Bytes), NoCB rev → splitTop 0 (rev ++ colon :: rest) = some (rev, rest) := by
  intro rev
  induction rev with
  | nil => intro rest _; simp [splitTop, colon, lbrace, rbrace]
  | cons c cs ih =>
    intro rest h
    have hc := h c List.mem_cons_self
    have := ih rest h.tail
    simp only [List.cons_append, splitTop, hc.2, if_false, Nat.lt_irrefl, gt_iff_lt, and_false, hc.1, false_and]
    rw [this]; rfl

theorem splitTop_none_clean : ∀ (s : Bytes), NoCB s → splitTop 0 s = none := by
  intro s
  induction s with
  | nil => intro _; rfl
  | cons c cs ih =>
    intro h
    have hc := h c List.mem_cons_self
    simp only [splitTop, hc.2, if_false, Nat.lt_irrefl, gt_iff_lt, and_false, hc.1, false_and]
    rw [ih h.tail]; rfl

/-- once a '{' was seen the scan reports braces -/
theorem scan_braces_true : ∀ (s : Bytes) (d i : Nat), (scanRevision d true i s).2 = true := by
  intro s
  induction s with
  | nil => intro d i; rfl
  | cons c cs ih =>
    intro d i
    unfold scanRevision
    split
    · exact ih _ _
    · split
      · exact ih _ _
      · split
        · rfl
        · exact ih _ _

/-- outcome of `scanRevision` when it reports no braces: the part in front of the ':' (or the whole
    name) contains neither ':' nor '{', and the ':' found is the first one -/
theorem scan_nobrace : ∀ (s : Bytes) (i : Nat) (res : Option Nat), scanRevision 0 false i s = (res, false) →
    (res = none ∧ NoCB s) ∨
    (∃ rev rest, s = rev ++ colon :: rest ∧ NoCB rev ∧ res = some (i + rev.length)) := by
  intro s
  induction s with
  | nil =>
    intro i res h
    simp only [scanRevision, Prod.mk.injEq] at h
    left; exact ⟨h.1.symm, fun c hc => by cases hc⟩
  | cons c cs ih =>
    intro i res h
    unfold scanRevision at h
    split at h
    · -- '{': braces become true
      have := scan_braces_true cs 1 (i + 1)
      rw [h] at this; cases this
    · split at h
      · rename_i _ h2; exact absurd h2.2 (Nat.lt_irrefl 0)
      · split at h
        · rename_i hcol
          simp only [Prod.mk.injEq, and_true] at h
          right
          refine ⟨[], cs, ?_, ?_, ?_⟩
          · simp [hcol.1]
          · intro x hx; cases hx
          · simp [← h]
        · rename_i hnb _ hnc
          have hcne : c ≠ colon := fun hh => hnc ⟨hh, rfl⟩
          rcases ih (i + 1) res h with ⟨hr, hn⟩ | ⟨rev, rest, hs, hn, hr⟩
          · left; refine ⟨hr, ?_⟩
            intro x hx
            rcases List.mem_cons.mp hx with rfl | hx
            · exact ⟨hcne, hnb⟩
            · exact hn x hx
          · right; refine ⟨c :: rev, rest, by simp [hs], ?_, by simp [hr]; omega⟩
            intro x hx
            rcases List.mem_cons.mp hx with rfl | hx
            · exact ⟨hcne, hnb⟩
            · exact hn x hx

/-! ### the last "^{" -/

theorem lastPeelAux_suffix (suf : Bytes) (hs : ∀ i best, lastPeelAux suf i best = some i) (h2 : 2 ≤ suf.length) :
    ∀ (base : Bytes) (i : Nat) (best : Option Nat), lastPeelAux (base ++ suf) i best = some (i + base.length) := by
  intro base
  induction base with
  | nil => intro i best; simpa using hs i best
  | cons c cs ih =>
    intro i best
    have : ∃ d rest, cs ++ suf = d :: rest := by
      cases hcs : cs ++ suf with
      | nil => simp at hcs; rw [hcs.2] at h2; simp at h2
      | cons d rest => exact ⟨d, rest, rfl⟩
    obtain ⟨d, rest, hd⟩ := this
    simp only [List.cons_append, hd, lastPeelAux]
    rw [← hd, ih]; simp; omega

theorem lastPeel_suffix (ty : OType) (hty : ty ≠ .other) (base : Bytes) :
    lastPeel (base ++ peelSuffix ty) = some base.length := by
  unfold lastPeel
  have := lastPeelAux_suffix (peelSuffix ty) (by
    intro i best
    cases ty <;> first | (exact absurd rfl hty) | simp [peelSuffix, OType.name, lastPeelAux, caret, lbrace, rbrace]) (by
    cases ty <;> simp [peelSuffix, OType.name]) base 0 none
  simpa using this

/-- what `lastPeel` finds is a "^{" -/
theorem lastPeelAux_spec : ∀ (s : Bytes) (i : Nat) (best : Option Nat) (k : Nat),
    lastPeelAux s i best = some k → best = some k ∨ (i ≤ k ∧ s[k - i]? = some caret ∧ s[k - i + 1]? = some lbrace) := by
  intro s
  induction s with
  | nil => intro i best k h; left; simpa [lastPeelAux] using h
  | cons a t ih =>
    intro i best k h
    cases t with
    | nil => left; simpa [lastPeelAux] using h
    | cons b rest =>
      simp only [lastPeelAux] at h
      rcases ih (i + 1) _ k h with hb | ⟨hik, h1, h2⟩
      · split at hb
        · rename_i hab
          right
          have : k = i := by simpa using hb.symm
          subst this
          simp [hab.1, hab.2]
        · left; exact hb
      · right
        refine ⟨by omega, ?_, ?_⟩
        · have : k - i = (k - (i + 1)) + 1 := by omega
          rw [this]; simpa using h1
        · have : k - i + 1 = (k - (i + 1) + 1) + 1 := by omega
          rw [this]; simpa using h2

theorem lastPeel_spec (s : Bytes) (k : Nat) (h : lastPeel s = some k) :
    s[k]? = some caret ∧ s[k + 1]? = some lbrace := by
  rcases lastPeelAux_spec s 0 none k h with h | ⟨_, h1, h2⟩
  · cases h
  · simpa using And.intro h1 h2

theorem peelKind_suffix (ty : OType) (hty : ty ≠ .other) : peelKind (ty.name ++ [rbrace]) = some (.ty ty) := by
  cases ty <;> first | (exact absurd rfl hty) | decide

/-! ### path walking -/

theorem walkC_acc (r : Repo) : ∀ (name : Bytes) (cur : Nat) (acc rest : Bytes), slash ∉ name →
    walkC r cur acc (name ++ rest) = walkC r cur (acc ++ name) rest := by
  intro name
  induction name with
  | nil => intro cur acc rest _; simp
  | cons c cs ih =>
    intro cur acc rest h
    have hc : c ≠ slash := fun hh => h (hh ▸ List.mem_cons_self)
    have hcs : slash ∉ cs := fun hh => h (List.mem_cons_of_mem _ hh)
    simp only [List.cons_append, walkC, hc, if_false]
    rw [ih cur (acc ++ [c]) rest hcs]; simp

/-- a final component -/
theorem walkC_leaf (r : Repo) (cur : Nat) (name : Bytes) (hne : name ≠ []) (hs : slash ∉ name) :
    walkC r cur [] name = lookupEntry r cur name := by
  have := walkC_acc r name cur [] [] hs
  simp only [List.append_nil, List.nil_append] at this
  rw [this]; simp [walkC, hne]

/-- a directory component followed by more -/
theorem walkC_dir (r : Repo) (cur : Nat) (name x : Bytes) (hne : name ≠ []) (hs : slash ∉ name) (hx : x ≠ []) :
    walkC r cur [] (name ++ slash :: x) =
      match lookupEntry r cur name with
      | some n => walkC r n [] x
      | none => none := by
  rw [walkC_acc r name cur [] (slash :: x) hs]
  cases hl : lookupEntry r cur name <;> simp [walkC, hne, hx, hl]

/-- extend a path that does not end in '/' -/
theorem walkC_extend (r : Repo) : ∀ (p : Bytes) (cur : Nat) (acc : Bytes) (T : Nat) (x : Bytes),
    walkC r cur acc p = some T → p.getLast? ≠ some slash → x ≠ [] →
    walkC r cur acc (p ++ slash :: x) = walkC r T [] x := by
  intro p
  induction p with
  | nil =>
    intro cur acc T x h _ hx
    simp only [walkC] at h
    split at h
    · cases h
    · rename_i hacc
      simp [walkC, hacc, h, hx]
  | cons c cs ih =>
    intro cur acc T x h hl hx
    simp only [List.cons_append, walkC] at h ⊢
    split
    · rename_i hc
      rw [if_pos hc] at h
      split at h
      · cases h
      · rename_i hacc
        rw [if_neg hacc]
        cases hlk : lookupEntry r cur acc with
        | none => rw [hlk] at h; cases h
        | some n =>
          rw [hlk] at h
          simp only at h ⊢
          by_cases hcs : cs = []
          · subst hcs; exfalso; apply hl; simp [hc]
          · rw [if_neg hcs] at h
            have hne : cs ++ slash :: x ≠ [] := by simp
            rw [if_neg hne]
            apply ih n [] T x h _ hx
            intro hh; apply hl
            rw [List.getLast?_cons_of_ne_nil hcs] <;> exact hh
    · rename_i hc
      rw [if_neg hc] at h
      apply ih cur (acc ++ [c]) T x h _ hx
      intro hh; apply hl
      cases cs with
      | nil => simp at hh
      | cons d ds => rw [List.getLast?_cons_of_ne_nil (by simp)]; exact hh

/-- continue after a path that ends in '/' -/
theorem walkC_trailing (r : Repo) : ∀ (q : Bytes) (cur : Nat) (acc : Bytes) (T : Nat) (x : Bytes),
    walkC r cur acc (q ++ [slash]) = some T → x ≠ [] →
    walkC r cur acc (q ++ slash :: x) = walkC r T [] x := by
  intro q
  induction q with
  | nil =>
    intro cur acc T x h hx
    simp only [List.nil_append, walkC, if_true] at h ⊢
    split at h
    · cases h
    · rename_i hacc
      rw [if_neg hacc]
      cases hlk : lookupEntry r cur acc with
      | none => rw [hlk] at h; cases h
      | some n =>
        rw [hlk] at h
        simp only [if_true] at h
        simp only [hx, if_false]
        split at h
        · cases h; rfl
        · cases h
  | cons c cs ih =>
    intro cur acc T x h hx
    simp only [List.cons_append, walkC] at h ⊢
    split
    · rename_i hc
      rw [if_pos hc] at h
      split at h
      · cases h
      · rename_i hacc
        rw [if_neg hacc]
        cases hlk : lookupEntry r cur acc with
        | none => rw [hlk] at h; cases h
        | some n =>
          rw [hlk] at h
          simp only at h ⊢
          have h1 : cs ++ [slash] ≠ [] := by simp
          have h2 : cs ++ slash :: x ≠ [] := by simp
          rw [if_neg h1] at h
          rw [if_neg h2]
          exact ih n [] T x h hx
    · rename_i hc
      rw [if_neg hc] at h
      exact ih cur (acc ++ [c]) T x h hx

end GitSizer.Spec
