import GitSizer.Proofs.PathRes.Strings
/-! Lemmas about `Spec.evalRev` / `Spec.resolve` on the shapes of description that the path
    resolver builds: `<name>^{type}`, `<rev>:<path>`. -/
namespace GitSizer.Spec
open GitSizer GitSizer.PathRes

variable (r : Repo) (atom : Bytes → Option Nat)

theorem lastPeel_lt (s : Bytes) (k : Nat) (h : lastPeel s = some k) : k + 1 < s.length := by
  have := (lastPeel_spec s k h).2
  rcases Nat.lt_or_ge (k + 1) s.length with hlt | hge
  · exact hlt
  · rw [List.getElem?_eq_none hge] at this; cases this

/-- more fuel than the length of the string changes nothing -/
theorem evalRev_fuel : ∀ (fuel : Nat) (s : Bytes), s.length ≤ fuel → evalRev r atom fuel s = evalRev r atom s.length s := by
  intro fuel
  induction fuel using Nat.strongRecOn with
  | _ fuel ih =>
    intro s hs
    cases fuel with
    | zero =>
      have : s = [] := List.eq_nil_of_length_eq_zero (by omega)
      subst this; rfl
    | succ f =>
      cases hl : s.length with
      | zero =>
        have : s = [] := List.eq_nil_of_length_eq_zero hl
        subst this; simp [evalRev]
      | succ m =>
        unfold evalRev
        split
        · cases hk : lastPeel s with
          | none => rfl
          | some k =>
            have hklt := lastPeel_lt s k hk
            have hlen : (s.take k).length = k := by rw [List.length_take]; omega
            have e1 : evalRev r atom f (s.take k) = evalRev r atom k (s.take k) := by
              have := ih f (Nat.lt_succ_self f) (s.take k) (by omega)
              rw [this, hlen]
            have e2 : evalRev r atom m (s.take k) = evalRev r atom k (s.take k) := by
              have := ih m (by omega) (s.take k) (by omega)
              rw [this, hlen]
            simp only [e1, e2]
        · rfl

/-- `<base>^{type}`: peel what `<base>` denotes (if that works) -/
theorem evalRev_peelSuffix (ty : OType) (hty : ty ≠ .other) (base : Bytes) (fuel : Nat) :
    evalRev r atom (fuel + 1) (base ++ peelSuffix ty) =
      match (evalRev r atom fuel base).bind (applyPeel r (.ty ty)) with
      | some o => some o
      | none => atom (base ++ peelSuffix ty) := by
  have hlast : (base ++ peelSuffix ty).getLast? = some rbrace := by
    cases ty <;> simp [peelSuffix, OType.name, List.getLast?_append]
  have hdrop : (base ++ peelSuffix ty).drop (base.length + 2) = ty.name ++ [rbrace] := by
    rw [List.drop_append]
    simp [peelSuffix]
  have htake : (base ++ peelSuffix ty).take base.length = base := by simp
  rw [evalRev]
  simp only [hlast, if_true, lastPeel_suffix ty hty base, hdrop, peelKind_suffix ty hty, htake]
  rfl

/-- a string with a top-level ':' after a brace-free revision is not a revision as a whole -/
theorem evalRev_colon_none (hac : ∀ s, (splitTop 0 s).isSome → atom s = none) (rev : Bytes) (hrev : NoCB rev) :
    ∀ (fuel : Nat) (rest : Bytes), evalRev r atom fuel (rev ++ colon :: rest) = none := by
  intro fuel
  induction fuel with
  | zero =>
    intro rest
    exact hac _ (by rw [splitTop_clean rev rest hrev]; rfl)
  | succ f ih =>
    intro rest
    have hatom : atom (rev ++ colon :: rest) = none := hac _ (by rw [splitTop_clean rev rest hrev]; rfl)
    rw [evalRev]
    split
    · cases hk : lastPeel (rev ++ colon :: rest) with
      | none => exact hatom
      | some k =>
        simp only
        cases hpk : peelKind ((rev ++ colon :: rest).drop (k + 2)) with
        | none => exact hatom
        | some pk =>
          simp only
          obtain ⟨h1, h2⟩ := lastPeel_spec _ k hk
          have hk1 : rev.length < k := by
            rcases Nat.lt_trichotomy k rev.length with hlt | heq | hgt
            · -- the '{' would lie inside rev or on the ':'
              exfalso
              rcases Nat.lt_or_ge (k + 1) rev.length with hlt2 | hge2
              · rw [List.getElem?_append_left hlt2] at h2
                have hm : lbrace ∈ rev := List.mem_of_getElem? h2
                exact (hrev _ hm).2 rfl
              · have : k + 1 = rev.length := by omega
                rw [List.getElem?_append_right (by omega), this] at h2
                simp [lbrace, colon] at h2
            · exfalso
              rw [heq, List.getElem?_append_right (Nat.le_refl _)] at h1
              simp [caret, colon] at h1
            · exact hgt
          have htk : (rev ++ colon :: rest).take k = rev ++ colon :: rest.take (k - rev.length - 1) := by
            rw [List.take_append]
            have : rev.take k = rev := List.take_of_length_le (by omega)
            rw [this]
            congr 1
            have : k - rev.length = (k - rev.length - 1) + 1 := by omega
            rw [this, List.take_succ_cons]
            simp
          rw [htk, ih]
          exact hatom
    · exact hatom

/-- `splitTop` and `scanRevision` look for the same ':' -/
theorem scan_none_iff : ∀ (s : Bytes) (d : Nat) (b : Bool) (i : Nat),
    (scanRevision d b i s).1 = none ↔ splitTop d s = none := by
  intro s
  induction s with
  | nil => intro d b i; simp [scanRevision, splitTop]
  | cons c cs ih =>
    intro d b i
    unfold scanRevision splitTop
    split
    · rw [ih]; simp
    · split
      · rw [ih]; simp
      · split
        · simp
        · rw [ih]; simp

variable {r atom}

/-- `<rev>:<path>` with a brace-free `<rev>` -/
theorem resolve_colon (hac : ∀ s, (splitTop 0 s).isSome → atom s = none) (rev : Bytes) (hrev : NoCB rev)
    (x : Bytes) :
    resolve r atom (rev ++ colon :: x) =
      match evalRev r atom rev.length rev with
      | some o =>
        match peelTo r .tree (o + 1) o with
        | some t => walkPath r t x
        | none => none
      | none => none := by
  unfold resolve
  rw [evalRev_colon_none r atom hac rev hrev, splitTop_clean rev x hrev]
  rfl

/-- a name without top-level ':' denotes what it denotes as a revision -/
theorem resolve_nocolon (s : Bytes) (h : splitTop 0 s = none) : resolve r atom s = evalRev r atom s.length s := by
  unfold resolve
  rw [h]
  cases evalRev r atom s.length s <;> rfl

end GitSizer.Spec
