import GitSizer.Proofs.HumanFloat
/-! Half-unit accuracy of the displayed numeral for n < 2^53 (no double-rounding anomaly), for
    multipliers that are powers of two (binary prefixes: the mantissa is exact) or multiples of
    2·10^d (metric prefixes: every rounding tie lies on an integer n). -/
namespace GitSizer.Human

theorem mant_exact_pow2 (n j : Nat) (hn : 0 < n) (h53 : n < 2 ^ 53) (hP : MultOK (2 ^ j)) :
    (mant n (2 ^ j)).val = (n : ℚ) / (2 ^ j : ℕ) := by
  have hx := toF64_pos n hn
  have hy := toF64_pos (2 ^ j) hP.pos
  have hr := fdiv_ratio _ _ hx hy
  rw [hP.exact, toF64_exact n hn h53] at hr
  unfold mant fdiv
  have := rn53_exact_dyadic _ _ (Nat.mul_pos hx.num_pos hy.den_pos) (Nat.mul_pos hx.den_pos hy.num_pos)
    n (-(j : ℤ)) h53 (by rw [hr]; push_cast; rw [zpow_neg, zpow_natCast]; field_simp)
  rw [this, hr]

/-- half-unit bound, binary case: 2·|m·P − n·10^d| ≤ P -/
theorem half_unit_pow2 (n j d : Nat) (hn : 0 < n) (h53 : n < 2 ^ 53) (hP : MultOK (2 ^ j)) :
    2 * (numeral n (2 ^ j) d * 2 ^ j) ≤ 2 * (n * 10 ^ d) + 2 ^ j ∧
    2 * (n * 10 ^ d) ≤ 2 * (numeral n (2 ^ j) d * 2 ^ j) + 2 ^ j := by
  have hm := fmtFixedN_spec d (mant n (2 ^ j)) (mant_pos n _ hn hP)
  rw [mant_exact_pow2 n j hn h53 hP, abs_le] at hm
  unfold numeral
  generalize fmtFixedN d (mant n (2 ^ j)) = m at *
  have hPq : (0 : ℚ) < ((2 ^ j : ℕ) : ℚ) := by exact_mod_cast hP.pos
  generalize hPP : (2 ^ j : ℕ) = P at *
  obtain ⟨h1, h2⟩ := hm
  have e : (n : ℚ) / P * 10 ^ d * P = n * 10 ^ d := by field_simp
  constructor
  · have : (2 : ℚ) * ((m : ℚ) * P) ≤ 2 * ((n : ℚ) * 10 ^ d) + P := by nlinarith
    exact_mod_cast this
  · have : (2 : ℚ) * ((n : ℚ) * 10 ^ d) ≤ 2 * ((m : ℚ) * P) + P := by nlinarith
    exact_mod_cast this

/-- for n < 2^53 the mantissa is within (strictly less than) 1/P of n/P -/
theorem mant_close (n P : Nat) (hn : 0 < n) (h53 : n < 2 ^ 53) (hP : MultOK P) :
    |(mant n P).val - (n : ℚ) / P| < 1 / P := by
  have e := mant_error n P hn hP
  rw [toF64_exact n hn h53] at e
  have hPq : (0 : ℚ) < P := by exact_mod_cast hP.pos
  have hnq : (n : ℚ) < 2 ^ 53 := by exact_mod_cast h53
  have : (n : ℚ) / P * eps < 1 / P := by
    unfold eps
    rw [div_mul_eq_mul_div, div_lt_div_iff_of_pos_right hPq]
    rw [mul_one_div, div_lt_one (by positivity)]; exact hnq
  exact lt_of_le_of_lt e this

/-- half-unit bound, metric case: P = 2·10^d·c -/
theorem half_unit_metric (n P d c : Nat) (hn : 0 < n) (h53 : n < 2 ^ 53) (hP : MultOK P)
    (hc : P = 2 * 10 ^ d * c) :
    2 * (numeral n P d * P) ≤ 2 * (n * 10 ^ d) + P ∧ 2 * (n * 10 ^ d) ≤ 2 * (numeral n P d * P) + P := by
  have hm := fmtFixedN_spec d (mant n P) (mant_pos n _ hn hP)
  have hcl := mant_close n P hn h53 hP
  rw [abs_le] at hm
  rw [abs_lt] at hcl
  unfold numeral
  generalize fmtFixedN d (mant n P) = m at *
  generalize (mant n P).val = Y at *
  have hcpos : 0 < c := by
    rcases Nat.eq_zero_or_pos c with h | h
    · have := hP.pos; rw [hc, h] at this; simp at this
    · exact h
  have hcq : (0 : ℚ) < c := by exact_mod_cast hcpos
  have hD : (0 : ℚ) < 10 ^ d := by positivity
  have hPq : (P : ℚ) = 2 * 10 ^ d * c := by rw [hc]; push_cast; ring
  -- Z = n·10^d/P = n/(2c);  |Y·10^d − Z| < 1/(2c)
  have hZ : (n : ℚ) / P * 10 ^ d = n / (2 * c) := by rw [hPq]; field_simp
  have hU : (1 : ℚ) / P * 10 ^ d = 1 / (2 * c) := by rw [hPq]; field_simp
  obtain ⟨m1, m2⟩ := hm
  obtain ⟨c1, c2⟩ := hcl
  have d1 : Y * 10 ^ d - n / (2 * c) < 1 / (2 * c) := by
    have := mul_lt_mul_of_pos_right c2 hD
    rw [sub_mul, hZ, hU] at this; exact this
  have d2 : -(1 / (2 * c)) < Y * 10 ^ d - (n : ℚ) / (2 * c) := by
    have := mul_lt_mul_of_pos_right c1 hD
    rw [sub_mul, hZ, neg_mul, hU] at this; exact this
  -- integer argument
  have key1 : 2 * c * m ≤ n + c := by
    by_contra hcon
    have : n + c + 1 ≤ 2 * c * m := by omega
    have hq : (n : ℚ) + c + 1 ≤ 2 * c * m := by exact_mod_cast this
    have : (m : ℚ) - n / (2 * c) ≥ 1 / 2 + 1 / (2 * c) := by
      rw [ge_iff_le, ← sub_nonneg]
      have : (m : ℚ) - n / (2 * c) - (1 / 2 + 1 / (2 * c)) = (2 * c * m - (n + c + 1)) / (2 * c) := by
        field_simp; ring
      rw [this]; apply div_nonneg <;> linarith
    linarith
  have key2 : n ≤ 2 * c * m + c := by
    by_contra hcon
    have : 2 * c * m + c + 1 ≤ n := by omega
    have hq : (2 : ℚ) * c * m + c + 1 ≤ n := by exact_mod_cast this
    have : (n : ℚ) / (2 * c) - m ≥ 1 / 2 + 1 / (2 * c) := by
      rw [ge_iff_le, ← sub_nonneg]
      have : (n : ℚ) / (2 * c) - m - (1 / 2 + 1 / (2 * c)) = (n - (2 * c * m + c + 1)) / (2 * c) := by
        field_simp; ring
      rw [this]; apply div_nonneg <;> linarith
    linarith
  rw [hc]
  constructor
  · have : 2 * (m * (2 * 10 ^ d * c)) = 2 * 10 ^ d * (2 * c * m) := by ring
    rw [this]
    have : 2 * (n * 10 ^ d) + 2 * 10 ^ d * c = 2 * 10 ^ d * (n + c) := by ring
    rw [this]
    exact Nat.mul_le_mul_left _ key1
  · have : 2 * (m * (2 * 10 ^ d * c)) + 2 * 10 ^ d * c = 2 * 10 ^ d * (2 * c * m + c) := by ring
    rw [this]
    have : 2 * (n * 10 ^ d) = 2 * 10 ^ d * n := by ring
    rw [this]
    exact Nat.mul_le_mul_left _ key2

end GitSizer.Human
