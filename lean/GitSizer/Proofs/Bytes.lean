import GitSizer.Basic.GoSem
/-! Characteristic lemmas of the byte-string functions. -/
namespace GitSizer.Bytes

theorem indexOf_lt {c : UInt8} : ∀ {s : Bytes} {i : Nat}, indexOf c s = some i → i < s.length := by
  intro s
  induction s with
  | nil => intro i h; simp [indexOf] at h
  | cons b bs ih =>
    intro i h
    unfold indexOf at h
    split at h
    · simp at h; subst h; simp
    · cases hbs : indexOf c bs with
      | none => simp [hbs] at h
      | some j => simp [hbs] at h; subst h; have := ih hbs; simp; omega

theorem indexOf_append_not_mem {c : UInt8} : ∀ (a b : Bytes), c ∉ a → indexOf c (a ++ c :: b) = some a.length := by
  intro a
  induction a with
  | nil => intro b _; simp [indexOf]
  | cons x xs ih =>
    intro b h
    have hx : x ≠ c := by intro e; apply h; simp [e]
    have hxs : c ∉ xs := by intro e; apply h; simp [e]
    simp [indexOf, hx, ih b hxs]

theorem indexOf_none_of_not_mem {c : UInt8} : ∀ (a : Bytes), c ∉ a → indexOf c a = none := by
  intro a
  induction a with
  | nil => intro _; rfl
  | cons x xs ih =>
    intro h
    have hx : x ≠ c := by intro e; apply h; simp [e]
    have hxs : c ∉ xs := by intro e; apply h; simp [e]
    simp [indexOf, hx, ih hxs]

theorem indexOf_some_spec {c : UInt8} : ∀ {s : Bytes} {i : Nat}, indexOf c s = some i →
    c ∉ s.take i ∧ s[i]? = some c := by
  intro s
  induction s with
  | nil => intro i h; simp [indexOf] at h
  | cons b bs ih =>
    intro i h
    unfold indexOf at h
    split at h
    · next hb => simp at h; subst h; simp [hb]
    · next hb =>
      cases hbs : indexOf c bs with
      | none => simp [hbs] at h
      | some j =>
        simp [hbs] at h; subst h
        have := ih hbs
        refine ⟨?_, by simpa using this.2⟩
        simp only [List.take_succ_cons, List.mem_cons, not_or]
        exact ⟨fun e => hb e.symm, this.1⟩

end GitSizer.Bytes
