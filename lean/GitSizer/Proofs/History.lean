import GitSizer.Proofs.Sizes
/-! Obligations on the REGENERATED `HistorySize.record*` methods: each is, field by field, a
    saturating increment / sum or a maximum, and the cited witness changes exactly when the
    maximum does. These are the facts the census theorems fold over. -/
namespace GitSizer.Graph
open GitSizer GitSizer.Spec GitSizer.Counts Gen
set_option linter.unusedSimpArgs false

theorem setWidth64_toNat (x : BitVec 32) : (BitVec.setWidth 64 x).toNat = x.toNat := by
  simp only [BitVec.toNat_setWidth]; have := x.isLt; omega

/-- `recordBlob`, normal form -/
theorem recordBlob_nf (h : HistorySize) (oid : Nat) (b : BlobSize) :
    HistorySize.recordBlob h oid b =
      { h with
        UniqueBlobCount := Count32.Increment h.UniqueBlobCount 1#32
        UniqueBlobSize := Count64.Increment h.UniqueBlobSize b.Size
        MaxBlobSize := (Count32.AdjustMaxIfNecessary h.MaxBlobSize (NewCount32 b.Size)).1
        MaxBlobSizeBlob := if (Count32.AdjustMaxIfNecessary h.MaxBlobSize (NewCount32 b.Size)).2 then some oid else h.MaxBlobSizeBlob } := by
  unfold HistorySize.recordBlob
  simp only
  split <;> rfl

/-- census of blobs: count +1, total size + size (64-bit), maximum size (32-bit clamp) -/
theorem recordBlob_numbers (h : HistorySize) (oid : Nat) (b : BlobSize) :
    (HistorySize.recordBlob h oid b).UniqueBlobCount.toNat = sat c32 h.UniqueBlobCount.toNat 1 ∧
    (HistorySize.recordBlob h oid b).UniqueBlobSize.toNat = sat c64 h.UniqueBlobSize.toNat b.Size.toNat ∧
    (HistorySize.recordBlob h oid b).MaxBlobSize.toNat = max h.MaxBlobSize.toNat (clamp c32 b.Size.toNat) := by
  rw [recordBlob_nf]
  simp only [increment32_spec, increment64_spec, adjustNec32_val, newCount32_spec]
  refine ⟨?_, ?_, ?_⟩ <;> first | rfl | trivial

/-- the cited blob changes exactly when the maximum strictly increases (first maximal blob wins) -/
theorem recordBlob_witness (h : HistorySize) (oid : Nat) (b : BlobSize) :
    (HistorySize.recordBlob h oid b).MaxBlobSizeBlob =
      if h.MaxBlobSize.toNat < clamp c32 b.Size.toNat then some oid else h.MaxBlobSizeBlob := by
  rw [recordBlob_nf]
  simp only
  by_cases hlt : h.MaxBlobSize.toNat < clamp c32 b.Size.toNat
  · have := (adjustNec32_flag h.MaxBlobSize (NewCount32 b.Size)).mpr (by rw [newCount32_spec]; exact hlt)
    simp [this, hlt]
  · have : (Count32.AdjustMaxIfNecessary h.MaxBlobSize (NewCount32 b.Size)).2 = false := by
      cases hf : (Count32.AdjustMaxIfNecessary h.MaxBlobSize (NewCount32 b.Size)).2 with
      | false => rfl
      | true => have := (adjustNec32_flag _ _).mp hf; rw [newCount32_spec] at this; exact absurd this hlt
    simp [this, hlt]

/-- `recordCommit`: numbers -/
theorem recordCommit_numbers (h : HistorySize) (oid : Nat) (cs : CommitSize) (size pc : BitVec 32) :
    (HistorySize.recordCommit h oid cs size pc).UniqueCommitCount.toNat = sat c32 h.UniqueCommitCount.toNat 1 ∧
    (HistorySize.recordCommit h oid cs size pc).UniqueCommitSize.toNat = sat c64 h.UniqueCommitSize.toNat size.toNat ∧
    (HistorySize.recordCommit h oid cs size pc).MaxCommitSize.toNat = max h.MaxCommitSize.toNat size.toNat ∧
    (HistorySize.recordCommit h oid cs size pc).MaxHistoryDepth.toNat = max h.MaxHistoryDepth.toNat cs.MaxAncestorDepth.toNat ∧
    (HistorySize.recordCommit h oid cs size pc).MaxParentCount.toNat = max h.MaxParentCount.toNat pc.toNat := by
  unfold HistorySize.recordCommit
  refine ⟨?_, ?_, ?_, ?_, ?_⟩
  · simp only [apply_ite HistorySize.UniqueCommitCount, ite_self, increment32_spec]; rfl
  · simp only [apply_ite HistorySize.UniqueCommitSize, ite_self, increment64_spec, setWidth64_toNat]
  · simp only [apply_ite HistorySize.MaxCommitSize, ite_self, adjustPos32_val]
  · simp only [apply_ite HistorySize.MaxHistoryDepth, ite_self, adjustPos32_val]
  · simp only [apply_ite HistorySize.MaxParentCount, ite_self, adjustPos32_val]

/-- `recordTag`: numbers -/
theorem recordTag_numbers (h : HistorySize) (oid : Nat) (ts : TagSize) (size : BitVec 32) :
    (HistorySize.recordTag h oid ts size).UniqueTagCount.toNat = sat c32 h.UniqueTagCount.toNat 1 ∧
    (HistorySize.recordTag h oid ts size).MaxTagDepth.toNat = max h.MaxTagDepth.toNat ts.TagDepth.toNat := by
  unfold HistorySize.recordTag
  refine ⟨?_, ?_⟩
  · simp only [apply_ite HistorySize.UniqueTagCount, ite_self, increment32_spec]; rfl
  · simp only [apply_ite HistorySize.MaxTagDepth, ite_self, adjustNec32_val]

/-- `recordTree`: counts, sums and the seven independently maximised checkout dimensions -/
theorem recordTree_numbers (h : HistorySize) (oid : Nat) (ts : TreeSize) (size entries : BitVec 32) :
    (HistorySize.recordTree h oid ts size entries).UniqueTreeCount.toNat = sat c32 h.UniqueTreeCount.toNat 1 ∧
    (HistorySize.recordTree h oid ts size entries).UniqueTreeSize.toNat = sat c64 h.UniqueTreeSize.toNat size.toNat ∧
    (HistorySize.recordTree h oid ts size entries).UniqueTreeEntries.toNat = sat c64 h.UniqueTreeEntries.toNat entries.toNat ∧
    (HistorySize.recordTree h oid ts size entries).MaxTreeEntries.toNat = max h.MaxTreeEntries.toNat entries.toNat ∧
    (HistorySize.recordTree h oid ts size entries).MaxPathDepth.toNat = max h.MaxPathDepth.toNat ts.MaxPathDepth.toNat ∧
    (HistorySize.recordTree h oid ts size entries).MaxPathLength.toNat = max h.MaxPathLength.toNat ts.MaxPathLength.toNat ∧
    (HistorySize.recordTree h oid ts size entries).MaxExpandedTreeCount.toNat = max h.MaxExpandedTreeCount.toNat ts.ExpandedTreeCount.toNat ∧
    (HistorySize.recordTree h oid ts size entries).MaxExpandedBlobCount.toNat = max h.MaxExpandedBlobCount.toNat ts.ExpandedBlobCount.toNat ∧
    (HistorySize.recordTree h oid ts size entries).MaxExpandedBlobSize.toNat = max h.MaxExpandedBlobSize.toNat ts.ExpandedBlobSize.toNat ∧
    (HistorySize.recordTree h oid ts size entries).MaxExpandedLinkCount.toNat = max h.MaxExpandedLinkCount.toNat ts.ExpandedLinkCount.toNat ∧
    (HistorySize.recordTree h oid ts size entries).MaxExpandedSubmoduleCount.toNat = max h.MaxExpandedSubmoduleCount.toNat ts.ExpandedSubmoduleCount.toNat := by
  unfold HistorySize.recordTree
  refine ⟨?_, ?_, ?_, ?_, ?_, ?_, ?_, ?_, ?_, ?_, ?_⟩
  · simp only [apply_ite HistorySize.UniqueTreeCount, ite_self, increment32_spec]; rfl
  · simp only [apply_ite HistorySize.UniqueTreeSize, ite_self, increment64_spec, setWidth64_toNat]
  · simp only [apply_ite HistorySize.UniqueTreeEntries, ite_self, increment64_spec, setWidth64_toNat]
  · simp only [apply_ite HistorySize.MaxTreeEntries, ite_self, adjustNec32_val]
  · simp only [apply_ite HistorySize.MaxPathDepth, ite_self, adjustNec32_val]
  · simp only [apply_ite HistorySize.MaxPathLength, ite_self, adjustNec32_val]
  · simp only [apply_ite HistorySize.MaxExpandedTreeCount, ite_self, adjustNec32_val]
  · simp only [apply_ite HistorySize.MaxExpandedBlobCount, ite_self, adjustNec32_val]
  · simp only [apply_ite HistorySize.MaxExpandedBlobSize, ite_self, adjustNec64_val]
  · simp only [apply_ite HistorySize.MaxExpandedLinkCount, ite_self, adjustNec32_val]
  · simp only [apply_ite HistorySize.MaxExpandedSubmoduleCount, ite_self, adjustNec32_val]

theorem recordReference_numbers (h : HistorySize) :
    (HistorySize.recordReference h).ReferenceCount.toNat = sat c32 h.ReferenceCount.toNat 1 := by
  unfold HistorySize.recordReference; simp only [increment32_spec]; rfl

/-- `addParent` is a maximum; the commit's own depth is one more (saturating) -/
theorem addParent_spec (s s2 : CommitSize) :
    (CommitSize.addParent s s2).MaxAncestorDepth.toNat = max s.MaxAncestorDepth.toNat s2.MaxAncestorDepth.toNat := by
  unfold CommitSize.addParent; simp only [adjustNec32_val]

end GitSizer.Graph
